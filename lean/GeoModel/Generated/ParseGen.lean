/-
  GENERATED FILE — do not edit.  Regenerate with
      cd /verif/translate && go build -o bin/translate . && \
        ./bin/translate parsers /repo > /verif/lean/GeoModel/Generated/ParseGen.lean

  Syntactic translation (translate/parsers.go) of the JSON parsers of the root package: every function
  or method of package geojson whose name is Parse, toGeometryOpts or parse<Upper…> (parseJSON, the
  parseJSON<Kind> and parseJSON<Kind>Coords functions, parseBBoxAndExtras, (*collection).parseInitRectIndex).
  The package is type-checked first (go/packages); every choice below depends on the static type of the
  expression at hand only.

  Conventions:
    * the definitions take ops : Ops <type parameters>: one field per distinct callee / operator /
      constant that is not itself translated here, found in the source; the callees are taken to be pure.
      Type parameters: F = float64, Str = string, Bytes = []byte, a named type T of another package
      ↦ <Pkg>T (GjsonResult, GeometryPoint, …), a named type of this package whose fields are not touched
      ↦ its name (Object, Circle, Rect); byte ↦ UInt8, int ↦ Int (unbounded), bool ↦ Bool;
      []T and [n]T ↦ List T (nil ↦ []; a[i] ↦ arrAt zero a i, a[i] = v ↦ arrSet a i v: an index out of
      range, a panic in Go, gives the zero value resp. changes nothing; append(a, v) ↦ a ++ [v]; a[lo:] ↦
      sliceFrom a lo; len ↦ Int.ofNat (List.length a); make([]T, n) ↦ List.replicate n zero);
      *T ↦ Option T (nil ↦ none, &x and new(T) ↦ some …, *p and p.f ↦ deref zero p: a nil dereference,
      a panic in Go, gives the zero value).  POINTERS ARE VALUES: two names for one pointee are not
      tracked (no translated function writes through a pointer after copying it and reads the copy);
    * a struct type of this package some field of which is touched ↦ a Lean structure with the same
      fields (lower-case first letter; an embedded T ↦ field t) and a zero<Name> value; x.f = v ↦
      { x with f := v }; through a pointer ↦ some { deref zero p with f := v };
    * a struct type of another package: field F ↦ ops.<t>F, assignment to it ↦ ops.<t>SetF, literal ↦
      ops.mk<T> (all fields, declaration order), == ↦ ops.<t>Eq, zero value ↦ ops.zero<T>;
      float64 operators ↦ ops.f64Add, f64Lt, …; string operators ↦ ops.strEq, strLen, strAt, strSliceFrom,
      string constants ↦ ops.strLit "…"; a constant of a named type ↦ an Ops field of its name;
    * an interface type (Object) ↦ a type parameter; nil ↦ ops.nilObject; a *T converted to it ↦
      ops.objectOf<T> (the struct value); a method call ↦ ops.object<Method>; a type switch
      `switch v := x.(type) { case *T: A … }` ↦ match ops.objectAs<T> x with | some v' => A | none => …;
    * error ↦ Option (Err Str): nil ↦ none; a package variable err… = errors.New(…) ↦ the constructor
      Err.err…; fmt.Errorf(CONST, strings…) ↦ the constructor Err.CONST applied to the strings;
    * a pointer parameter (or receiver) that the function WRITES THROUGH (*p = …, p.f = …) stands for
      its pointee: the value comes in as that parameter and goes out as an extra component of the
      result (results first); at a call  g(&x, …)  x is rebound to that component;
    * ITERATION: x.ForEach(func(a A, b B) bool {…}) — any call whose last argument is a function literal
      returning bool — ↦ ops.<t>ForEach : T → List (A × B), the list of what the iterator is offered, in
      order; the call becomes  searchFold (fun x' st' => body) (ops.<t>ForEach x) st, st the tuple of
      the captured variables the literal assigns (also inside nested literals), `return e` in the literal
      ↦ (st, e): the fold stops after the first element for which e is false;
    * a void method of another package on a pointer receiver, as a statement (tree.Insert(…)) ↦
      x := ops.<t>Insert x args;
    * a statement list becomes one expression, continuation style: x := e, x = e, x += e, x++ ↦ let
      (shadowing; a variable that would shadow a live one of the same name gets a suffix _1, _2…); the
      statements after an if / switch go into the one arm that falls through; when several arms fall
      through they are joined: let j' := if … then (vars) else (vars), vars the variables assigned, or,
      when an arm may leave (return / break / continue),  let e' : Exit σ ρ := if … then Exit.ret r
      else Exit.done vars;  match e' with | Exit.ret r' => r' | Exit.done j' => rest;
    * for i := lo; i < hi; i++ (bound and i not assigned in the body) ↦ forRange over intRange lo hi;
      for _, v := range xs ↦ forRange over xs; end of body / continue ↦ Flow.next st, break ↦ Flow.brk st,
      return ↦ Flow.ret r (r the value of the enclosing function or literal at that point);
      the body of a function literal / of a loop is a definition of its own, <func>_lit<k> / <func>_body<k>
      (numbered in order of completion), with the variables it mentions as parameters;
      a for without condition ↦ loopFuel … fuel: the function takes fuel : Nat, its result is an Option,
      none = fuel exhausted;
    * RECURSION: a call of a translated function that is still being translated (a call cycle: Parse →
      parseJSON → parseJSONFeature → Parse) ↦ the Ops field rec_<name>.
  Anything outside the recognised subset appears below as  opaque <name>_unrecognised : Unit.
-/

set_option linter.unusedVariables false

namespace Geo.PGen

/-- how one pass through a loop body ends -/
inductive Flow (σ ρ : Type) where
  | next (s : σ) : Flow σ ρ
  | brk (s : σ) : Flow σ ρ
  | ret (r : ρ) : Flow σ ρ

/-- how a loop / a joined branch ends: normally (or by break) with the state, or by leaving with r -/
inductive Exit (σ ρ : Type) where
  | done (s : σ) : Exit σ ρ
  | ret (r : ρ) : Exit σ ρ

/-- a loop over the list of the values of its variable -/
def forRange {ε σ ρ : Type} (body : ε → σ → Flow σ ρ) : List ε → σ → Exit σ ρ
  | [], s => Exit.done s
  | x :: xs, s =>
    match body x s with
    | Flow.next s' => forRange body xs s'
    | Flow.brk s' => Exit.done s'
    | Flow.ret r => Exit.ret r

/-- a loop without condition, at most fuel passes (none: fuel exhausted) -/
def loopFuel {σ ρ : Type} (body : σ → Flow σ ρ) : Nat → σ → Option (Exit σ ρ)
  | 0, _ => none
  | n + 1, s =>
    match body s with
    | Flow.next s' => loopFuel body n s'
    | Flow.brk s' => some (Exit.done s')
    | Flow.ret r => some (Exit.ret r)

/-- the values of i in `for i := lo; i < hi; i++` -/
def intRange (lo hi : Int) : List Int := (List.range (hi - lo).toNat).map (fun k => lo + Int.ofNat k)

/-- an iteration with iterator f over the list of what the iterator is offered: stops after the first
    element for which f answers false -/
def searchFold {ε σ : Type} (f : ε → σ → σ × Bool) : List ε → σ → σ
  | [], s => s
  | x :: xs, s =>
    match f x s with
    | (s', true) => searchFold f xs s'
    | (s', false) => s'

/-- a[i] (zero: the zero value of the element type, the result when i is out of range) -/
def arrAt {α : Type} (zero : α) (xs : List α) (i : Int) : α :=
  if i < 0 then zero else xs.getD i.toNat zero

/-- a[i] = v -/
def arrSet {α : Type} (xs : List α) (i : Int) (v : α) : List α :=
  if i < 0 then xs else xs.set i.toNat v

/-- a[lo:] -/
def sliceFrom {α : Type} (xs : List α) (lo : Int) : List α := xs.drop lo.toNat

/-- *p (zero: the zero value of the pointee, the result when p is nil) -/
def deref {α : Type} (zero : α) : Option α → α
  | some v => v
  | none => zero

/-- the error values the parsers return: one constructor per package variable / format constant used -/
inductive Err (Str : Type) where
  /-- Go: `errCircleRadiusUnitsInvalid = errors.New("invalid circle radius units")` — object.go:27 -/
  | errCircleRadiusUnitsInvalid : Err Str
  /-- Go: `errCoordinatesInvalid = errors.New("invalid coordinates")` — object.go:20 -/
  | errCoordinatesInvalid : Err Str
  /-- Go: `errCoordinatesMissing = errors.New("missing coordinates")` — object.go:21 -/
  | errCoordinatesMissing : Err Str
  /-- Go: `errDataInvalid = errors.New("invalid data")` — object.go:17 -/
  | errDataInvalid : Err Str
  /-- Go: `errFeaturesInvalid = errors.New("invalid features")` — object.go:24 -/
  | errFeaturesInvalid : Err Str
  /-- Go: `errFeaturesMissing = errors.New("missing features")` — object.go:23 -/
  | errFeaturesMissing : Err Str
  /-- Go: `errGeometriesInvalid = errors.New("invalid geometries")` — object.go:26 -/
  | errGeometriesInvalid : Err Str
  /-- Go: `errGeometriesMissing = errors.New("missing geometries")` — object.go:25 -/
  | errGeometriesMissing : Err Str
  /-- Go: `errGeometryMissing = errors.New("missing geometry")` — object.go:22 -/
  | errGeometryMissing : Err Str
  /-- Go: `errTypeInvalid = errors.New("invalid type")` — object.go:18 -/
  | errTypeInvalid : Err Str
  /-- Go: `errTypeMissing = errors.New("missing type")` — object.go:19 -/
  | errTypeMissing : Err Str
  /-- Go: `fmt.Errorf(fmtErrTypeIsUnknown, …)` with `fmtErrTypeIsUnknown = "type '%s' is unknown"` — object.go:212 -/
  | fmtErrTypeIsUnknown (a0 : Str) : Err Str

/-- Go: `type ParseOptions struct` — object.go:77 -/
structure ParseOptions (GeometryIndexKind : Type) where
  /-- Go: `IndexChildren int` -/
  indexChildren : Int
  /-- Go: `IndexGeometry int` -/
  indexGeometry : Int
  /-- Go: `IndexGeometryKind geometry.IndexKind` -/
  indexGeometryKind : GeometryIndexKind
  /-- Go: `RequireValid bool` -/
  requireValid : Bool
  /-- Go: `AllowSimplePoints bool` -/
  allowSimplePoints : Bool
  /-- Go: `DisableCircleType bool` -/
  disableCircleType : Bool
  /-- Go: `AllowRects bool` -/
  allowRects : Bool

/-- Go: `type parseKeys struct` — object.go:161 -/
structure ParseKeys (GjsonResult Str : Type) where
  /-- Go: `rCoordinates gjson.Result` -/
  rCoordinates : GjsonResult
  /-- Go: `rGeometries gjson.Result` -/
  rGeometries : GjsonResult
  /-- Go: `rGeometry gjson.Result` -/
  rGeometry : GjsonResult
  /-- Go: `rFeatures gjson.Result` -/
  rFeatures : GjsonResult
  /-- Go: `members string` -/
  members : Str

/-- Go: `type extra struct` — object.go:69 -/
structure Extra (F Str : Type) where
  /-- Go: `dims byte` -/
  dims : UInt8
  /-- Go: `values []float64` -/
  values : (List F)
  /-- Go: `members string` -/
  members : Str

/-- Go: `type SimplePoint struct` — simplepoint.go:5 -/
structure SimplePoint (GeometryPoint : Type) where
  /-- Go: `Point geometry.Point` -/
  point : GeometryPoint

/-- Go: `type Point struct` — point.go:10 -/
structure Point (F GeometryPoint Str : Type) where
  /-- Go: `base geometry.Point` -/
  base : GeometryPoint
  /-- Go: `extra *geojson.extra` -/
  extra : (Option (Extra F Str))

/-- Go: `type LineString struct` — linestring.go:8 -/
structure LineString (F GeometryLine Str : Type) where
  /-- Go: `base geometry.Line` -/
  base : GeometryLine
  /-- Go: `extra *geojson.extra` -/
  extra : (Option (Extra F Str))

/-- Go: `type Polygon struct` — polygon.go:8 -/
structure Polygon (F GeometryPoly Str : Type) where
  /-- Go: `base geometry.Poly` -/
  base : GeometryPoly
  /-- Go: `extra *geojson.extra` -/
  extra : (Option (Extra F Str))

/-- Go: `type Feature struct` — feature.go:12 -/
structure Feature (F Object Str : Type) where
  /-- Go: `base geojson.Object` -/
  base : Object
  /-- Go: `extra *geojson.extra` -/
  extra : (Option (Extra F Str))

/-- Go: `type collection struct` — collection.go:8 -/
structure Collection (F GeometryRect Object RtreeRTree Str : Type) where
  /-- Go: `children []geojson.Object` -/
  children : (List Object)
  /-- Go: `extra *geojson.extra` -/
  extra : (Option (Extra F Str))
  /-- Go: `tree *rtree.RTree` -/
  tree : (Option RtreeRTree)
  /-- Go: `prect geometry.Rect` -/
  prect : GeometryRect
  /-- Go: `pempty bool` -/
  pempty : Bool

/-- Go: `type MultiPoint struct` — multipoint.go:8 -/
structure MultiPoint (F GeometryRect Object RtreeRTree Str : Type) where
  /-- Go: `collection geojson.collection` -/
  collection : (Collection F GeometryRect Object RtreeRTree Str)

/-- Go: `type MultiLineString struct` — multilinestring.go:8 -/
structure MultiLineString (F GeometryRect Object RtreeRTree Str : Type) where
  /-- Go: `collection geojson.collection` -/
  collection : (Collection F GeometryRect Object RtreeRTree Str)

/-- Go: `type MultiPolygon struct` — multipolygon.go:8 -/
structure MultiPolygon (F GeometryRect Object RtreeRTree Str : Type) where
  /-- Go: `collection geojson.collection` -/
  collection : (Collection F GeometryRect Object RtreeRTree Str)

/-- Go: `type GeometryCollection struct` — geometrycollection.go:9 -/
structure GeometryCollection (F GeometryRect Object RtreeRTree Str : Type) where
  /-- Go: `collection geojson.collection` -/
  collection : (Collection F GeometryRect Object RtreeRTree Str)

/-- Go: `type FeatureCollection struct` — featurecollection.go:9 -/
structure FeatureCollection (F GeometryRect Object RtreeRTree Str : Type) where
  /-- Go: `collection geojson.collection` -/
  collection : (Collection F GeometryRect Object RtreeRTree Str)

/-- the type parameters:
      Bytes: []byte
      Circle: Go: `type geojson.Circle` — circle.go:10
      F: float64
      GeometryIndexKind: Go: `type geometry.IndexKind` — geometry/series.go:10
      GeometryIndexOptions: Go: `type geometry.IndexOptions` — geometry/series.go:34
      GeometryLine: Go: `type geometry.Line` — geometry/line.go:8
      GeometryPoint: Go: `type geometry.Point` — geometry/point.go:7
      GeometryPoly: Go: `type geometry.Poly` — geometry/poly.go:7
      GeometryRect: Go: `type geometry.Rect` — geometry/rect.go:7
      GjsonResult: Go: `type gjson.Result` — github.com/tidwall/gjson@v1.12.1/gjson.go:56
      GjsonType: Go: `type gjson.Type` — github.com/tidwall/gjson@v1.12.1/gjson.go:18
      Object: Go: `type geojson.Object` — object.go:31 (an interface: nil ↦ the Ops field nilObject)
      Rect: Go: `type geojson.Rect` — rect.go:7
      RtreeRTree: Go: `type rtree.RTree` — github.com/tidwall/rtree@v1.3.1/rtree.go:29
      Str: string
    the callees of the parsers, one field per distinct callee / operator / constant found in the source -/
structure Ops (Bytes Circle F GeometryIndexKind GeometryIndexOptions GeometryLine GeometryPoint GeometryPoly GeometryRect GjsonResult GjsonType Object Rect RtreeRTree Str : Type) where
  /-- append(b, c...) on []byte -/
  bytesAppend : Bytes → Bytes → Bytes
  /-- len of a []byte -/
  bytesLen : Bytes → Int
  /-- the conversion []byte(s) -/
  bytesOfStr : Str → Bytes
  /-- append(b, c) on []byte with one byte c -/
  bytesPush : Bytes → UInt8 → Bytes
  /-- float64 operator `==` -/
  f64Eq : F → F → Bool
  /-- float64 operator `>` -/
  f64Gt : F → F → Bool
  /-- float64 operator `<` -/
  f64Lt : F → F → Bool
  /-- float64 operator `*` -/
  f64Mul : F → F → F
  /-- the conversion of an integer constant to float64 (also the zero value 0) -/
  f64OfInt : Int → F
  /-- Go: `var geometry.DefaultIndexOptions` — geometry/series.go:39 -/
  geometryDefaultIndexOptions : (Option GeometryIndexOptions)
  /-- assignment to field Kind of a IndexOptions — geometry/series.go:35 -/
  geometryIndexOptionsSetKind : GeometryIndexOptions → GeometryIndexKind → GeometryIndexOptions
  /-- assignment to field MinPoints of a IndexOptions — geometry/series.go:36 -/
  geometryIndexOptionsSetMinPoints : GeometryIndexOptions → Int → GeometryIndexOptions
  /-- Go: `func geometry.NewLine(points []geometry.Point, opts *geometry.IndexOptions) *geometry.Line` — geometry/line.go:17 -/
  geometryNewLine : (List GeometryPoint) → (Option GeometryIndexOptions) → (Option GeometryLine)
  /-- Go: `func geometry.NewPoly(exterior []geometry.Point, holes [][]geometry.Point, opts *geometry.IndexOptions) *geometry.Poly` — geometry/poly.go:12 -/
  geometryNewPoly : (List GeometryPoint) → (List (List GeometryPoint)) → (Option GeometryIndexOptions) → (Option GeometryPoly)
  /-- Go's `==` on github.com/tidwall/geojson/geometry.Point -/
  geometryPointEq : GeometryPoint → GeometryPoint → Bool
  /-- field X of Point — geometry/point.go:8 -/
  geometryPointX : GeometryPoint → F
  /-- field Y of Point — geometry/point.go:8 -/
  geometryPointY : GeometryPoint → F
  /-- Go: `const geometry.QuadTree` — geometry/series.go:16 -/
  geometryQuadTree : GeometryIndexKind
  /-- field Max of Rect — geometry/rect.go:8 -/
  geometryRectMax : GeometryRect → GeometryPoint
  /-- field Min of Rect — geometry/rect.go:8 -/
  geometryRectMin : GeometryRect → GeometryPoint
  /-- Go: `func gjson.Get(json string, path string) gjson.Result` — github.com/tidwall/gjson@v1.12.1/gjson.go:1877 -/
  gjsonGet : Str → Str → GjsonResult
  /-- Go: `const gjson.Null` — github.com/tidwall/gjson@v1.12.1/gjson.go:22 -/
  gjsonNull : GjsonType
  /-- Go: `const gjson.Number` — github.com/tidwall/gjson@v1.12.1/gjson.go:26 -/
  gjsonNumber : GjsonType
  /-- Go: `func gjson.Parse(json string) gjson.Result` — github.com/tidwall/gjson@v1.12.1/gjson.go:460 -/
  gjsonParse : Str → GjsonResult
  /-- Go: `func (gjson.Result).Exists() bool` — github.com/tidwall/gjson@v1.12.1/gjson.go:647 -/
  gjsonResultExists : GjsonResult → Bool
  /-- Go: `func (gjson.Result).Float() float64` — github.com/tidwall/gjson@v1.12.1/gjson.go:171 -/
  gjsonResultFloat : GjsonResult → F
  /-- Go: `func (gjson.Result).ForEach(iterator func(key gjson.Result, value gjson.Result) bool)` — github.com/tidwall/gjson@v1.12.1/gjson.go:223; the list of what the iterator is offered, in order (searchFold cuts it where the iterator answers false) -/
  gjsonResultForEach : GjsonResult → (List (GjsonResult × GjsonResult))
  /-- Go: `func (gjson.Result).IsArray() bool` — github.com/tidwall/gjson@v1.12.1/gjson.go:213 -/
  gjsonResultIsArray : GjsonResult → Bool
  /-- field Raw of Result — github.com/tidwall/gjson@v1.12.1/gjson.go:60 -/
  gjsonResultRaw : GjsonResult → Str
  /-- Go: `func (gjson.Result).String() string` — github.com/tidwall/gjson@v1.12.1/gjson.go:73 -/
  gjsonResultString : GjsonResult → Str
  /-- field Type of Result — github.com/tidwall/gjson@v1.12.1/gjson.go:58 -/
  gjsonResultType : GjsonResult → GjsonType
  /-- Go: `const gjson.String` — github.com/tidwall/gjson@v1.12.1/gjson.go:28 -/
  gjsonString : GjsonType
  /-- Go's `==` on github.com/tidwall/gjson.Type -/
  gjsonTypeEq : GjsonType → GjsonType → Bool
  /-- Go: `func gjson.Valid(json string) bool` — github.com/tidwall/gjson@v1.12.1/gjson.go:2498 -/
  gjsonValid : Str → Bool
  /-- Go: `func (g *LineString) Valid() bool` — linestring.go:21 -/
  lineStringValid : (LineString F GeometryLine Str) → Bool
  /-- Go: `func math.NaN() float64` — math/bits.go:31 -/
  mathNaN : F
  /-- the literal `Point{X, Y}` (all fields, declaration order; absent ↦ zero value) — geometry/point.go:7 -/
  mkGeometryPoint : F → F → GeometryPoint
  /-- the literal `Rect{Min, Max}` (all fields, declaration order; absent ↦ zero value) — geometry/rect.go:7 -/
  mkGeometryRect : GeometryPoint → GeometryPoint → GeometryRect
  /-- Go: `func (g *MultiLineString) Valid() bool` — multilinestring.go:41 -/
  multiLineStringValid : (MultiLineString F GeometryRect Object RtreeRTree Str) → Bool
  /-- Go: `func (g *MultiPolygon) Valid() bool` — multipolygon.go:40 -/
  multiPolygonValid : (MultiPolygon F GeometryRect Object RtreeRTree Str) → Bool
  /-- Go: `func NewCircle(center geometry.Point, meters float64, steps int) *Circle` — circle.go:19 -/
  newCircle : GeometryPoint → F → Int → (Option Circle)
  /-- Go: `func NewRect(rect geometry.Rect) *Rect` — rect.go:11 -/
  newRect : GeometryRect → (Option Rect)
  /-- the nil []byte -/
  nilBytes : Bytes
  /-- the nil value of interface type Object -/
  nilObject : Object
  /-- the dynamic type test `.(*github.com/tidwall/geojson.Point)` on a Object: the value when it has that dynamic type -/
  objectAsPoint : Object → (Option (Point F GeometryPoint Str))
  /-- the dynamic type test `.(*github.com/tidwall/geojson.SimplePoint)` on a Object: the value when it has that dynamic type -/
  objectAsSimplePoint : Object → (Option (SimplePoint GeometryPoint))
  /-- Go: `func (geojson.Object).Empty() bool` — object.go:32 -/
  objectEmpty : Object → Bool
  /-- the conversion of a *github.com/tidwall/geojson.Circle to the interface Object (its dynamic type is *github.com/tidwall/geojson.Circle) -/
  objectOfCircle : Circle → Object
  /-- the conversion of a *github.com/tidwall/geojson.Feature to the interface Object (its dynamic type is *github.com/tidwall/geojson.Feature) -/
  objectOfFeature : (Feature F Object Str) → Object
  /-- the conversion of a *github.com/tidwall/geojson.FeatureCollection to the interface Object (its dynamic type is *github.com/tidwall/geojson.FeatureCollection) -/
  objectOfFeatureCollection : (FeatureCollection F GeometryRect Object RtreeRTree Str) → Object
  /-- the conversion of a *github.com/tidwall/geojson.GeometryCollection to the interface Object (its dynamic type is *github.com/tidwall/geojson.GeometryCollection) -/
  objectOfGeometryCollection : (GeometryCollection F GeometryRect Object RtreeRTree Str) → Object
  /-- the conversion of a *github.com/tidwall/geojson.LineString to the interface Object (its dynamic type is *github.com/tidwall/geojson.LineString) -/
  objectOfLineString : (LineString F GeometryLine Str) → Object
  /-- the conversion of a *github.com/tidwall/geojson.MultiLineString to the interface Object (its dynamic type is *github.com/tidwall/geojson.MultiLineString) -/
  objectOfMultiLineString : (MultiLineString F GeometryRect Object RtreeRTree Str) → Object
  /-- the conversion of a *github.com/tidwall/geojson.MultiPoint to the interface Object (its dynamic type is *github.com/tidwall/geojson.MultiPoint) -/
  objectOfMultiPoint : (MultiPoint F GeometryRect Object RtreeRTree Str) → Object
  /-- the conversion of a *github.com/tidwall/geojson.MultiPolygon to the interface Object (its dynamic type is *github.com/tidwall/geojson.MultiPolygon) -/
  objectOfMultiPolygon : (MultiPolygon F GeometryRect Object RtreeRTree Str) → Object
  /-- the conversion of a *github.com/tidwall/geojson.Point to the interface Object (its dynamic type is *github.com/tidwall/geojson.Point) -/
  objectOfPoint : (Point F GeometryPoint Str) → Object
  /-- the conversion of a *github.com/tidwall/geojson.Polygon to the interface Object (its dynamic type is *github.com/tidwall/geojson.Polygon) -/
  objectOfPolygon : (Polygon F GeometryPoly Str) → Object
  /-- the conversion of a *github.com/tidwall/geojson.Rect to the interface Object (its dynamic type is *github.com/tidwall/geojson.Rect) -/
  objectOfRect : Rect → Object
  /-- the conversion of a *github.com/tidwall/geojson.SimplePoint to the interface Object (its dynamic type is *github.com/tidwall/geojson.SimplePoint) -/
  objectOfSimplePoint : (SimplePoint GeometryPoint) → Object
  /-- Go: `func (geojson.Object).Rect() geometry.Rect` — object.go:34 -/
  objectRect : Object → GeometryRect
  /-- Go: `func (geojson.Object).Valid() bool` — object.go:33 -/
  objectValid : Object → Bool
  /-- Go: `func pretty.Ugly(json []byte) []byte` — github.com/tidwall/pretty@v1.2.0/pretty.go:53 -/
  prettyUgly : Bytes → Bytes
  /-- RECURSION: the Go function Parse itself, as called (directly or indirectly) from its own body — object.go:119 -/
  rec_Parse : Str → (Option (ParseOptions GeometryIndexKind)) → (Object × (Option (Err Str)))
  /-- Go: `func (*rtree.RTree).Insert(min [2]float64, max [2]float64, value interface{})` — github.com/tidwall/rtree@v1.3.1/rtree.go:62; a method without results on a pointer receiver: the field gives the receiver after the call -/
  rtreeRTreeInsert : RtreeRTree → (List F) → (List F) → Object → RtreeRTree
  /-- s[i] on a string (a byte) -/
  strAt : Str → Int → UInt8
  /-- Go's `==` on strings -/
  strEq : Str → Str → Bool
  /-- len of a string (bytes) -/
  strLen : Str → Int
  /-- a string constant -/
  strLit : String → Str
  /-- the conversion string(b) -/
  strOfBytes : Bytes → Str
  /-- s[lo:] on a string -/
  strSliceFrom : Str → Int → Str
  /-- Go: `func unionRects(a, b geometry.Rect) geometry.Rect` — object.go:300 -/
  unionRects : GeometryRect → GeometryRect → GeometryRect
  /-- the zero value of github.com/tidwall/geojson.Circle -/
  zeroCircle : Circle
  /-- the zero value of github.com/tidwall/geojson/geometry.IndexKind -/
  zeroGeometryIndexKind : GeometryIndexKind
  /-- the zero value of github.com/tidwall/geojson/geometry.IndexOptions -/
  zeroGeometryIndexOptions : GeometryIndexOptions
  /-- the zero value of github.com/tidwall/geojson/geometry.Line -/
  zeroGeometryLine : GeometryLine
  /-- the zero value of github.com/tidwall/geojson/geometry.Point -/
  zeroGeometryPoint : GeometryPoint
  /-- the zero value of github.com/tidwall/geojson/geometry.Poly -/
  zeroGeometryPoly : GeometryPoly
  /-- the zero value of github.com/tidwall/geojson/geometry.Rect -/
  zeroGeometryRect : GeometryRect
  /-- the zero value of github.com/tidwall/gjson.Result -/
  zeroGjsonResult : GjsonResult
  /-- the zero value of github.com/tidwall/geojson.Rect -/
  zeroRect : Rect
  /-- the zero value of github.com/tidwall/rtree.RTree -/
  zeroRtreeRTree : RtreeRTree

variable {Bytes Circle F GeometryIndexKind GeometryIndexOptions GeometryLine GeometryPoint GeometryPoly GeometryRect GjsonResult GjsonType Object Rect RtreeRTree Str : Type}

/-- the zero value of ParseOptions -/
def zeroParseOptions (ops : Ops Bytes Circle F GeometryIndexKind GeometryIndexOptions GeometryLine GeometryPoint GeometryPoly GeometryRect GjsonResult GjsonType Object Rect RtreeRTree Str) : (ParseOptions GeometryIndexKind) :=
  { indexChildren := (0 : Int), indexGeometry := (0 : Int), indexGeometryKind := ops.zeroGeometryIndexKind, requireValid := false, allowSimplePoints := false, disableCircleType := false, allowRects := false }

/-- the zero value of parseKeys -/
def zeroParseKeys (ops : Ops Bytes Circle F GeometryIndexKind GeometryIndexOptions GeometryLine GeometryPoint GeometryPoly GeometryRect GjsonResult GjsonType Object Rect RtreeRTree Str) : (ParseKeys GjsonResult Str) :=
  { rCoordinates := ops.zeroGjsonResult, rGeometries := ops.zeroGjsonResult, rGeometry := ops.zeroGjsonResult, rFeatures := ops.zeroGjsonResult, members := (ops.strLit "") }

/-- the zero value of extra -/
def zeroExtra (ops : Ops Bytes Circle F GeometryIndexKind GeometryIndexOptions GeometryLine GeometryPoint GeometryPoly GeometryRect GjsonResult GjsonType Object Rect RtreeRTree Str) : (Extra F Str) :=
  { dims := (0 : UInt8), values := ([] : (List F)), members := (ops.strLit "") }

/-- the zero value of SimplePoint -/
def zeroSimplePoint (ops : Ops Bytes Circle F GeometryIndexKind GeometryIndexOptions GeometryLine GeometryPoint GeometryPoly GeometryRect GjsonResult GjsonType Object Rect RtreeRTree Str) : (SimplePoint GeometryPoint) :=
  { point := ops.zeroGeometryPoint }

/-- the zero value of Point -/
def zeroPoint (ops : Ops Bytes Circle F GeometryIndexKind GeometryIndexOptions GeometryLine GeometryPoint GeometryPoly GeometryRect GjsonResult GjsonType Object Rect RtreeRTree Str) : (Point F GeometryPoint Str) :=
  { base := ops.zeroGeometryPoint, extra := (none : (Option (Extra F Str))) }

/-- the zero value of LineString -/
def zeroLineString (ops : Ops Bytes Circle F GeometryIndexKind GeometryIndexOptions GeometryLine GeometryPoint GeometryPoly GeometryRect GjsonResult GjsonType Object Rect RtreeRTree Str) : (LineString F GeometryLine Str) :=
  { base := ops.zeroGeometryLine, extra := (none : (Option (Extra F Str))) }

/-- the zero value of Polygon -/
def zeroPolygon (ops : Ops Bytes Circle F GeometryIndexKind GeometryIndexOptions GeometryLine GeometryPoint GeometryPoly GeometryRect GjsonResult GjsonType Object Rect RtreeRTree Str) : (Polygon F GeometryPoly Str) :=
  { base := ops.zeroGeometryPoly, extra := (none : (Option (Extra F Str))) }

/-- the zero value of Feature -/
def zeroFeature (ops : Ops Bytes Circle F GeometryIndexKind GeometryIndexOptions GeometryLine GeometryPoint GeometryPoly GeometryRect GjsonResult GjsonType Object Rect RtreeRTree Str) : (Feature F Object Str) :=
  { base := ops.nilObject, extra := (none : (Option (Extra F Str))) }

/-- the zero value of collection -/
def zeroCollection (ops : Ops Bytes Circle F GeometryIndexKind GeometryIndexOptions GeometryLine GeometryPoint GeometryPoly GeometryRect GjsonResult GjsonType Object Rect RtreeRTree Str) : (Collection F GeometryRect Object RtreeRTree Str) :=
  { children := ([] : (List Object)), extra := (none : (Option (Extra F Str))), tree := (none : (Option RtreeRTree)), prect := ops.zeroGeometryRect, pempty := false }

/-- the zero value of MultiPoint -/
def zeroMultiPoint (ops : Ops Bytes Circle F GeometryIndexKind GeometryIndexOptions GeometryLine GeometryPoint GeometryPoly GeometryRect GjsonResult GjsonType Object Rect RtreeRTree Str) : (MultiPoint F GeometryRect Object RtreeRTree Str) :=
  { collection := (zeroCollection ops) }

/-- the zero value of MultiLineString -/
def zeroMultiLineString (ops : Ops Bytes Circle F GeometryIndexKind GeometryIndexOptions GeometryLine GeometryPoint GeometryPoly GeometryRect GjsonResult GjsonType Object Rect RtreeRTree Str) : (MultiLineString F GeometryRect Object RtreeRTree Str) :=
  { collection := (zeroCollection ops) }

/-- the zero value of MultiPolygon -/
def zeroMultiPolygon (ops : Ops Bytes Circle F GeometryIndexKind GeometryIndexOptions GeometryLine GeometryPoint GeometryPoly GeometryRect GjsonResult GjsonType Object Rect RtreeRTree Str) : (MultiPolygon F GeometryRect Object RtreeRTree Str) :=
  { collection := (zeroCollection ops) }

/-- the zero value of GeometryCollection -/
def zeroGeometryCollection (ops : Ops Bytes Circle F GeometryIndexKind GeometryIndexOptions GeometryLine GeometryPoint GeometryPoly GeometryRect GjsonResult GjsonType Object Rect RtreeRTree Str) : (GeometryCollection F GeometryRect Object RtreeRTree Str) :=
  { collection := (zeroCollection ops) }

/-- the zero value of FeatureCollection -/
def zeroFeatureCollection (ops : Ops Bytes Circle F GeometryIndexKind GeometryIndexOptions GeometryLine GeometryPoint GeometryPoly GeometryRect GjsonResult GjsonType Object Rect RtreeRTree Str) : (FeatureCollection F GeometryRect Object RtreeRTree Str) :=
  { collection := (zeroCollection ops) }

/-- Go: `var DefaultParseOptions = &ParseOptions{ IndexChildren: 64, IndexGeometry: 64, IndexGeometryKind: geometry.QuadTree, RequireValid: false, AllowSimplePoints: false, DisableCircleType: false, AllowRects: false, }` — object.go:108 (never assigned in the package: checked) -/
def DefaultParseOptions (ops : Ops Bytes Circle F GeometryIndexKind GeometryIndexOptions GeometryLine GeometryPoint GeometryPoly GeometryRect GjsonResult GjsonType Object Rect RtreeRTree Str) : (Option (ParseOptions GeometryIndexKind)) :=
  (some ({ indexChildren := (64 : Int), indexGeometry := (64 : Int), indexGeometryKind := ops.geometryQuadTree, requireValid := false, allowSimplePoints := false, disableCircleType := false, allowRects := false } : (ParseOptions GeometryIndexKind)))

/-- the function literal at point.go:176 (in Go func parseJSONPointCoords) -/
def parseJSONPointCoords_lit1 (ops : Ops Bytes Circle F GeometryIndexKind GeometryIndexOptions GeometryLine GeometryPoint GeometryPoly GeometryRect GjsonResult GjsonType Object Rect RtreeRTree Str) (x4' : (GjsonResult × GjsonResult)) (st5' : ((Option (Err Str)) × Int × (List F))) : (((Option (Err Str)) × Int × (List F)) × Bool) :=
  let key : GjsonResult := x4'.1
  let value : GjsonResult := x4'.2
  let err : (Option (Err Str)) := st5'.1
  let count : Int := st5'.2.1
  let nums : (List F) := st5'.2.2
  if (count == (4 : Int)) then
    ((err, count, nums), false)
  else
    if (!(ops.gjsonTypeEq (ops.gjsonResultType value) ops.gjsonNumber)) then
      if (ops.gjsonTypeEq (ops.gjsonResultType value) ops.gjsonNull) then
        let nums : (List F) := (arrSet nums count ops.mathNaN)
        let count : Int := (count + (1 : Int))
        ((err, count, nums), true)
      else
        let err : (Option (Err Str)) := (some Err.errCoordinatesInvalid)
        ((err, count, nums), false)
    else
      let nums : (List F) := (arrSet nums count (ops.gjsonResultFloat value))
      let count : Int := (count + (1 : Int))
      ((err, count, nums), true)

/-- the loop body at point.go:209 (in Go func parseJSONPointCoords) -/
def parseJSONPointCoords_body2 (ops : Ops Bytes Circle F GeometryIndexKind GeometryIndexOptions GeometryLine GeometryPoint GeometryPoly GeometryRect GjsonResult GjsonType Object Rect RtreeRTree Str) (nums : (List F)) (x8' : Int) (st9' : (Option (Extra F Str))) : (Flow (Option (Extra F Str)) (Option (Extra F Str))) :=
  let i : Int := x8'
  let ex : (Option (Extra F Str)) := st9'
  let ex : (Option (Extra F Str)) := (some ({ (deref (zeroExtra ops) ex) with values := (arrSet ((deref (zeroExtra ops) ex).values) (i - (2 : Int)) (arrAt (ops.f64OfInt 0) nums i)) }))
  Flow.next ex

/-- Go: `func parseJSONPointCoords( keys *parseKeys, rcoords gjson.Result, opts *ParseOptions, ) (geometry.Point, *extra, error)` — point.go:159 -/
def parseJSONPointCoords (ops : Ops Bytes Circle F GeometryIndexKind GeometryIndexOptions GeometryLine GeometryPoint GeometryPoly GeometryRect GjsonResult GjsonType Object Rect RtreeRTree Str) (keys : (Option (ParseKeys GjsonResult Str))) (rcoords : GjsonResult) (opts : (Option (ParseOptions GeometryIndexKind))) : (GeometryPoint × (Option (Extra F Str)) × (Option (Err Str))) :=
  let coords : GeometryPoint := ops.zeroGeometryPoint
  let ex : (Option (Extra F Str)) := (none : (Option (Extra F Str)))
  let e1' : (Exit GjsonResult (GeometryPoint × (Option (Extra F Str)) × (Option (Err Str)))) :=
    if (!(ops.gjsonResultExists rcoords)) then
      let rcoords : GjsonResult := (deref (zeroParseKeys ops) keys).rCoordinates
      if (!(ops.gjsonResultExists rcoords)) then
        (Exit.ret (coords, (none : (Option (Extra F Str))), (some Err.errCoordinatesMissing)))
      else
        if (!(ops.gjsonResultIsArray rcoords)) then
          (Exit.ret (coords, (none : (Option (Extra F Str))), (some Err.errCoordinatesInvalid)))
        else
          Exit.done rcoords
    else
      Exit.done rcoords
  match e1' with
  | Exit.ret r3' => r3'
  | Exit.done j2' =>
    let rcoords : GjsonResult := j2'
    let err : (Option (Err Str)) := (none : (Option (Err Str)))
    let count : Int := (0 : Int)
    let nums : (List F) := (List.replicate 4 (ops.f64OfInt 0))
    let r6' : ((Option (Err Str)) × Int × (List F)) := searchFold (parseJSONPointCoords_lit1 ops) (ops.gjsonResultForEach rcoords) (err, count, nums)
    let err : (Option (Err Str)) := r6'.1
    let count : Int := r6'.2.1
    let nums : (List F) := r6'.2.2
    if (!(Option.isNone err)) then
      (coords, (none : (Option (Extra F Str))), err)
    else
      if (decide (count < (2 : Int))) then
        (coords, (none : (Option (Extra F Str))), (some Err.errCoordinatesInvalid))
      else
        let coords : GeometryPoint := (ops.mkGeometryPoint (arrAt (ops.f64OfInt 0) nums (0 : Int)) (arrAt (ops.f64OfInt 0) nums (1 : Int)))
        let j13' : (Option (Extra F Str)) :=
          if (decide (count > (2 : Int))) then
            let ex : (Option (Extra F Str)) := (some (zeroExtra ops))
            let j7' : (Option (Extra F Str)) :=
              if (decide (count > (3 : Int))) then
                let ex : (Option (Extra F Str)) := (some ({ (deref (zeroExtra ops) ex) with dims := (2 : UInt8) }))
                ex
              else
                let ex : (Option (Extra F Str)) := (some ({ (deref (zeroExtra ops) ex) with dims := (1 : UInt8) }))
                ex
            let ex : (Option (Extra F Str)) := j7'
            let ex : (Option (Extra F Str)) := (some ({ (deref (zeroExtra ops) ex) with values := (List.replicate (Int.toNat (count - (2 : Int))) (ops.f64OfInt 0)) }))
            let l10' : (Exit (Option (Extra F Str)) (Option (Extra F Str))) := forRange (parseJSONPointCoords_body2 ops nums) (intRange (2 : Int) count) ex
            match l10' with
            | Exit.ret r11' => r11'
            | Exit.done st12' =>
              let ex : (Option (Extra F Str)) := st12'
              ex
          else
            ex
        let ex : (Option (Extra F Str)) := j13'
        (coords, ex, (none : (Option (Err Str))))

-- written-through pointer parameters (each stands for its pointee and is returned after the results): ex
/-- Go: `func parseBBoxAndExtras(ex **extra, keys *parseKeys, opts *ParseOptions) error` — object.go:234 -/
def parseBBoxAndExtras (ops : Ops Bytes Circle F GeometryIndexKind GeometryIndexOptions GeometryLine GeometryPoint GeometryPoly GeometryRect GjsonResult GjsonType Object Rect RtreeRTree Str) (ex : (Option (Extra F Str))) (keys : (Option (ParseKeys GjsonResult Str))) (opts : (Option (ParseOptions GeometryIndexKind))) : ((Option (Err Str)) × (Option (Extra F Str))) :=
  if (ops.strEq ((deref (zeroParseKeys ops) keys).members) (ops.strLit "")) then
    ((none : (Option (Err Str))), ex)
  else
    let j1' : (Option (Extra F Str)) :=
      if (Option.isNone ex) then
        let ex : (Option (Extra F Str)) := (some (zeroExtra ops))
        ex
      else
        ex
    let ex : (Option (Extra F Str)) := j1'
    let ex : (Option (Extra F Str)) := (some ({ (deref (zeroExtra ops) ex) with members := (deref (zeroParseKeys ops) keys).members }))
    ((none : (Option (Err Str))), ex)

/-- Go: `func parseJSONPoint(keys *parseKeys, opts *ParseOptions) (Object, error)` — point.go:132 -/
def parseJSONPoint (ops : Ops Bytes Circle F GeometryIndexKind GeometryIndexOptions GeometryLine GeometryPoint GeometryPoly GeometryRect GjsonResult GjsonType Object Rect RtreeRTree Str) (keys : (Option (ParseKeys GjsonResult Str))) (opts : (Option (ParseOptions GeometryIndexKind))) : (Object × (Option (Err Str))) :=
  let o : Object := ops.nilObject
  let c1' := (parseJSONPointCoords ops keys ops.zeroGjsonResult opts)
  let base : GeometryPoint := c1'.1
  let extra : (Option (Extra F Str)) := c1'.2.1
  let err : (Option (Err Str)) := c1'.2.2
  if (!(Option.isNone err)) then
    (ops.nilObject, err)
  else
    let c2' := (parseBBoxAndExtras ops extra keys opts)
    let err_1 : (Option (Err Str)) := c2'.1
    let extra : (Option (Extra F Str)) := c2'.2
    if (!(Option.isNone err_1)) then
      (ops.nilObject, err_1)
    else
      let j3' : Object :=
        if ((Option.isNone extra) && (deref (zeroParseOptions ops) opts).allowSimplePoints) then
          let g : (SimplePoint GeometryPoint) := (zeroSimplePoint ops)
          let g : (SimplePoint GeometryPoint) := { g with point := base }
          let o : Object := (ops.objectOfSimplePoint g)
          o
        else
          let g : (Point F GeometryPoint Str) := (zeroPoint ops)
          let g : (Point F GeometryPoint Str) := { g with base := base }
          let g : (Point F GeometryPoint Str) := { g with extra := extra }
          let o : Object := (ops.objectOfPoint g)
          o
      let o : Object := j3'
      let e4' : (Exit Unit (Object × (Option (Err Str)))) :=
        if (deref (zeroParseOptions ops) opts).requireValid then
          if (!(ops.objectValid o)) then
            (Exit.ret (ops.nilObject, (some Err.errCoordinatesInvalid)))
          else
            Exit.done ()
        else
          Exit.done ()
      match e4' with
      | Exit.ret r6' => r6'
      | Exit.done j5' =>
        (o, (none : (Option (Err Str))))

/-- the function literal at linestring.go:164 (in Go func parseJSONLineStringCoords) -/
def parseJSONLineStringCoords_lit1 (ops : Ops Bytes Circle F GeometryIndexKind GeometryIndexOptions GeometryLine GeometryPoint GeometryPoly GeometryRect GjsonResult GjsonType Object Rect RtreeRTree Str) (x6' : (GjsonResult × GjsonResult)) (st7' : ((Option (Err Str)) × Int × (List F))) : (((Option (Err Str)) × Int × (List F)) × Bool) :=
  let key_1 : GjsonResult := x6'.1
  let value_1 : GjsonResult := x6'.2
  let err : (Option (Err Str)) := st7'.1
  let count : Int := st7'.2.1
  let nums : (List F) := st7'.2.2
  if (count == (4 : Int)) then
    ((err, count, nums), false)
  else
    if (!(ops.gjsonTypeEq (ops.gjsonResultType value_1) ops.gjsonNumber)) then
      let err : (Option (Err Str)) := (some Err.errCoordinatesInvalid)
      ((err, count, nums), false)
    else
      let nums : (List F) := (arrSet nums count (ops.gjsonResultFloat value_1))
      let count : Int := (count + (1 : Int))
      ((err, count, nums), true)

/-- the loop body at linestring.go:200 (in Go func parseJSONLineStringCoords) -/
def parseJSONLineStringCoords_body2 (ops : Ops Bytes Circle F GeometryIndexKind GeometryIndexOptions GeometryLine GeometryPoint GeometryPoly GeometryRect GjsonResult GjsonType Object Rect RtreeRTree Str) (nums : (List F)) (x13' : Int) (st14' : (Option (Extra F Str))) : (Flow (Option (Extra F Str)) (Option (Extra F Str))) :=
  let i : Int := x13'
  let ex : (Option (Extra F Str)) := st14'
  let ex : (Option (Extra F Str)) := (some ({ (deref (zeroExtra ops) ex) with values := ((deref (zeroExtra ops) ex).values ++ [(arrAt (ops.f64OfInt 0) nums ((2 : Int) + i))]) }))
  Flow.next ex

/-- the function literal at linestring.go:157 (in Go func parseJSONLineStringCoords) -/
def parseJSONLineStringCoords_lit3 (ops : Ops Bytes Circle F GeometryIndexKind GeometryIndexOptions GeometryLine GeometryPoint GeometryPoly GeometryRect GjsonResult GjsonType Object Rect RtreeRTree Str) (x4' : (GjsonResult × GjsonResult)) (st5' : ((Option (Err Str)) × (List GeometryPoint) × (Option (Extra F Str)) × Int)) : (((Option (Err Str)) × (List GeometryPoint) × (Option (Extra F Str)) × Int) × Bool) :=
  let key : GjsonResult := x4'.1
  let value : GjsonResult := x4'.2
  let err : (Option (Err Str)) := st5'.1
  let coords : (List GeometryPoint) := st5'.2.1
  let ex : (Option (Extra F Str)) := st5'.2.2.1
  let dims : Int := st5'.2.2.2
  if (!(ops.gjsonResultIsArray value)) then
    let err : (Option (Err Str)) := (some Err.errCoordinatesInvalid)
    ((err, coords, ex, dims), false)
  else
    let count : Int := (0 : Int)
    let nums : (List F) := (List.replicate 4 (ops.f64OfInt 0))
    let r8' : ((Option (Err Str)) × Int × (List F)) := searchFold (parseJSONLineStringCoords_lit1 ops) (ops.gjsonResultForEach value) (err, count, nums)
    let err : (Option (Err Str)) := r8'.1
    let count : Int := r8'.2.1
    let nums : (List F) := r8'.2.2
    if (!(Option.isNone err)) then
      ((err, coords, ex, dims), false)
    else
      if (decide (count < (2 : Int))) then
        let err : (Option (Err Str)) := (some Err.errCoordinatesInvalid)
        ((err, coords, ex, dims), false)
      else
        let coords : (List GeometryPoint) := (coords ++ [(ops.mkGeometryPoint (arrAt (ops.f64OfInt 0) nums (0 : Int)) (arrAt (ops.f64OfInt 0) nums (1 : Int)))])
        let e10' : (Exit ((Option (Err Str)) × (Option (Extra F Str)) × Int) (((Option (Err Str)) × (List GeometryPoint) × (Option (Extra F Str)) × Int) × Bool)) :=
          if (Option.isNone ex) then
            if (decide (count > (2 : Int))) then
              if (decide ((Int.ofNat (List.length coords)) > (1 : Int))) then
                let err : (Option (Err Str)) := (some Err.errCoordinatesInvalid)
                (Exit.ret ((err, coords, ex, dims), false))
              else
                let ex : (Option (Extra F Str)) := (some (zeroExtra ops))
                let j9' : (Option (Extra F Str)) :=
                  if (decide (count > (3 : Int))) then
                    let ex : (Option (Extra F Str)) := (some ({ (deref (zeroExtra ops) ex) with dims := (2 : UInt8) }))
                    ex
                  else
                    let ex : (Option (Extra F Str)) := (some ({ (deref (zeroExtra ops) ex) with dims := (1 : UInt8) }))
                    ex
                let ex : (Option (Extra F Str)) := j9'
                let dims : Int := (Int.ofNat (UInt8.toNat ((deref (zeroExtra ops) ex).dims)))
                Exit.done (err, ex, dims)
            else
              Exit.done (err, ex, dims)
          else
            Exit.done (err, ex, dims)
        match e10' with
        | Exit.ret r12' => r12'
        | Exit.done j11' =>
          let err : (Option (Err Str)) := j11'.1
          let ex : (Option (Extra F Str)) := j11'.2.1
          let dims : Int := j11'.2.2
          let j18' : (Option (Extra F Str)) :=
            if (!(Option.isNone ex)) then
              let l15' : (Exit (Option (Extra F Str)) (Option (Extra F Str))) := forRange (parseJSONLineStringCoords_body2 ops nums) (intRange (0 : Int) dims) ex
              match l15' with
              | Exit.ret r16' => r16'
              | Exit.done st17' =>
                let ex : (Option (Extra F Str)) := st17'
                ex
            else
              ex
          let ex : (Option (Extra F Str)) := j18'
          ((err, coords, ex, dims), true)

/-- Go: `func parseJSONLineStringCoords( keys *parseKeys, rcoords gjson.Result, opts *ParseOptions, ) ([]geometry.Point, *extra, error)` — linestring.go:141 -/
def parseJSONLineStringCoords (ops : Ops Bytes Circle F GeometryIndexKind GeometryIndexOptions GeometryLine GeometryPoint GeometryPoly GeometryRect GjsonResult GjsonType Object Rect RtreeRTree Str) (keys : (Option (ParseKeys GjsonResult Str))) (rcoords : GjsonResult) (opts : (Option (ParseOptions GeometryIndexKind))) : ((List GeometryPoint) × (Option (Extra F Str)) × (Option (Err Str))) :=
  let err : (Option (Err Str)) := (none : (Option (Err Str)))
  let coords : (List GeometryPoint) := ([] : (List GeometryPoint))
  let ex : (Option (Extra F Str)) := (none : (Option (Extra F Str)))
  let dims : Int := (0 : Int)
  let e1' : (Exit GjsonResult ((List GeometryPoint) × (Option (Extra F Str)) × (Option (Err Str)))) :=
    if (!(ops.gjsonResultExists rcoords)) then
      let rcoords : GjsonResult := (deref (zeroParseKeys ops) keys).rCoordinates
      if (!(ops.gjsonResultExists rcoords)) then
        (Exit.ret (([] : (List GeometryPoint)), (none : (Option (Extra F Str))), (some Err.errCoordinatesMissing)))
      else
        if (!(ops.gjsonResultIsArray rcoords)) then
          (Exit.ret (([] : (List GeometryPoint)), (none : (Option (Extra F Str))), (some Err.errCoordinatesInvalid)))
        else
          Exit.done rcoords
    else
      Exit.done rcoords
  match e1' with
  | Exit.ret r3' => r3'
  | Exit.done j2' =>
    let rcoords : GjsonResult := j2'
    let r19' : ((Option (Err Str)) × (List GeometryPoint) × (Option (Extra F Str)) × Int) := searchFold (parseJSONLineStringCoords_lit3 ops) (ops.gjsonResultForEach rcoords) (err, coords, ex, dims)
    let err : (Option (Err Str)) := r19'.1
    let coords : (List GeometryPoint) := r19'.2.1
    let ex : (Option (Extra F Str)) := r19'.2.2.1
    let dims : Int := r19'.2.2.2
    if (!(Option.isNone err)) then
      (([] : (List GeometryPoint)), (none : (Option (Extra F Str))), err)
    else
      (coords, ex, err)

/-- Go: `func toGeometryOpts(opts *ParseOptions) geometry.IndexOptions` — object.go:150 -/
def toGeometryOpts (ops : Ops Bytes Circle F GeometryIndexKind GeometryIndexOptions GeometryLine GeometryPoint GeometryPoly GeometryRect GjsonResult GjsonType Object Rect RtreeRTree Str) (opts : (Option (ParseOptions GeometryIndexKind))) : GeometryIndexOptions :=
  let gopts : GeometryIndexOptions := ops.zeroGeometryIndexOptions
  let j1' : GeometryIndexOptions :=
    if (Option.isNone opts) then
      let gopts : GeometryIndexOptions := (deref ops.zeroGeometryIndexOptions ops.geometryDefaultIndexOptions)
      gopts
    else
      let gopts : GeometryIndexOptions := (ops.geometryIndexOptionsSetKind gopts ((deref (zeroParseOptions ops) opts).indexGeometryKind))
      let gopts : GeometryIndexOptions := (ops.geometryIndexOptionsSetMinPoints gopts ((deref (zeroParseOptions ops) opts).indexGeometry))
      gopts
  let gopts : GeometryIndexOptions := j1'
  gopts

/-- Go: `func parseJSONLineString(keys *parseKeys, opts *ParseOptions) (Object, error)` — linestring.go:115 -/
def parseJSONLineString (ops : Ops Bytes Circle F GeometryIndexKind GeometryIndexOptions GeometryLine GeometryPoint GeometryPoly GeometryRect GjsonResult GjsonType Object Rect RtreeRTree Str) (keys : (Option (ParseKeys GjsonResult Str))) (opts : (Option (ParseOptions GeometryIndexKind))) : (Object × (Option (Err Str))) :=
  let g : (LineString F GeometryLine Str) := (zeroLineString ops)
  let c1' := (parseJSONLineStringCoords ops keys ops.zeroGjsonResult opts)
  let points : (List GeometryPoint) := c1'.1
  let ex : (Option (Extra F Str)) := c1'.2.1
  let err : (Option (Err Str)) := c1'.2.2
  if (!(Option.isNone err)) then
    (ops.nilObject, err)
  else
    if (decide ((Int.ofNat (List.length points)) < (2 : Int))) then
      (ops.nilObject, (some Err.errCoordinatesInvalid))
    else
      let gopts : GeometryIndexOptions := (toGeometryOpts ops opts)
      let line : (Option GeometryLine) := (ops.geometryNewLine points (some gopts))
      let g : (LineString F GeometryLine Str) := { g with base := (deref ops.zeroGeometryLine line) }
      let g : (LineString F GeometryLine Str) := { g with extra := ex }
      let c2' := (parseBBoxAndExtras ops g.extra keys opts)
      let err_1 : (Option (Err Str)) := c2'.1
      let g : (LineString F GeometryLine Str) := { g with extra := c2'.2 }
      if (!(Option.isNone err_1)) then
        (ops.nilObject, err_1)
      else
        let e3' : (Exit Unit (Object × (Option (Err Str)))) :=
          if (deref (zeroParseOptions ops) opts).requireValid then
            if (!(ops.lineStringValid g)) then
              (Exit.ret (ops.nilObject, (some Err.errDataInvalid)))
            else
              Exit.done ()
          else
            Exit.done ()
        match e3' with
        | Exit.ret r5' => r5'
        | Exit.done j4' =>
          ((ops.objectOfLineString g), (none : (Option (Err Str))))

/-- the function literal at polygon.go:215 (in Go func parseJSONPolygonCoords) -/
def parseJSONPolygonCoords_lit1 (ops : Ops Bytes Circle F GeometryIndexKind GeometryIndexOptions GeometryLine GeometryPoint GeometryPoly GeometryRect GjsonResult GjsonType Object Rect RtreeRTree Str) (x8' : (GjsonResult × GjsonResult)) (st9' : ((Option (Err Str)) × Int × (List F))) : (((Option (Err Str)) × Int × (List F)) × Bool) :=
  let key_2 : GjsonResult := x8'.1
  let value_2 : GjsonResult := x8'.2
  let err : (Option (Err Str)) := st9'.1
  let count : Int := st9'.2.1
  let nums : (List F) := st9'.2.2
  if (count == (4 : Int)) then
    ((err, count, nums), false)
  else
    if (!(ops.gjsonTypeEq (ops.gjsonResultType value_2) ops.gjsonNumber)) then
      let err : (Option (Err Str)) := (some Err.errCoordinatesInvalid)
      ((err, count, nums), false)
    else
      let nums : (List F) := (arrSet nums count (ops.gjsonResultFloat value_2))
      let count : Int := (count + (1 : Int))
      ((err, count, nums), true)

/-- the loop body at polygon.go:251 (in Go func parseJSONPolygonCoords) -/
def parseJSONPolygonCoords_body2 (ops : Ops Bytes Circle F GeometryIndexKind GeometryIndexOptions GeometryLine GeometryPoint GeometryPoly GeometryRect GjsonResult GjsonType Object Rect RtreeRTree Str) (nums : (List F)) (x15' : Int) (st16' : (Option (Extra F Str))) : (Flow (Option (Extra F Str)) (Option (Extra F Str))) :=
  let i : Int := x15'
  let ex : (Option (Extra F Str)) := st16'
  let ex : (Option (Extra F Str)) := (some ({ (deref (zeroExtra ops) ex) with values := ((deref (zeroExtra ops) ex).values ++ [(arrAt (ops.f64OfInt 0) nums ((2 : Int) + i))]) }))
  Flow.next ex

/-- the function literal at polygon.go:212 (in Go func parseJSONPolygonCoords) -/
def parseJSONPolygonCoords_lit3 (ops : Ops Bytes Circle F GeometryIndexKind GeometryIndexOptions GeometryLine GeometryPoint GeometryPoly GeometryRect GjsonResult GjsonType Object Rect RtreeRTree Str) (ii : Int) (x6' : (GjsonResult × GjsonResult)) (st7' : ((Option (Err Str)) × (List (List GeometryPoint)) × (Option (Extra F Str)) × Int)) : (((Option (Err Str)) × (List (List GeometryPoint)) × (Option (Extra F Str)) × Int) × Bool) :=
  let key_1 : GjsonResult := x6'.1
  let value_1 : GjsonResult := x6'.2
  let err : (Option (Err Str)) := st7'.1
  let coords : (List (List GeometryPoint)) := st7'.2.1
  let ex : (Option (Extra F Str)) := st7'.2.2.1
  let dims : Int := st7'.2.2.2
  let count : Int := (0 : Int)
  let nums : (List F) := (List.replicate 4 (ops.f64OfInt 0))
  let r10' : ((Option (Err Str)) × Int × (List F)) := searchFold (parseJSONPolygonCoords_lit1 ops) (ops.gjsonResultForEach value_1) (err, count, nums)
  let err : (Option (Err Str)) := r10'.1
  let count : Int := r10'.2.1
  let nums : (List F) := r10'.2.2
  if (!(Option.isNone err)) then
    ((err, coords, ex, dims), false)
  else
    if (decide (count < (2 : Int))) then
      let err : (Option (Err Str)) := (some Err.errCoordinatesInvalid)
      ((err, coords, ex, dims), false)
    else
      let coords : (List (List GeometryPoint)) := (arrSet coords ii ((arrAt ([] : (List GeometryPoint)) coords ii) ++ [(ops.mkGeometryPoint (arrAt (ops.f64OfInt 0) nums (0 : Int)) (arrAt (ops.f64OfInt 0) nums (1 : Int)))]))
      let e12' : (Exit ((Option (Err Str)) × (Option (Extra F Str)) × Int) (((Option (Err Str)) × (List (List GeometryPoint)) × (Option (Extra F Str)) × Int) × Bool)) :=
        if (Option.isNone ex) then
          if (decide (count > (2 : Int))) then
            if ((decide ((Int.ofNat (List.length coords)) > (1 : Int))) || (decide ((Int.ofNat (List.length (arrAt ([] : (List GeometryPoint)) coords ii))) > (1 : Int)))) then
              let err : (Option (Err Str)) := (some Err.errCoordinatesInvalid)
              (Exit.ret ((err, coords, ex, dims), false))
            else
              let ex : (Option (Extra F Str)) := (some (zeroExtra ops))
              let j11' : (Option (Extra F Str)) :=
                if (decide (count > (3 : Int))) then
                  let ex : (Option (Extra F Str)) := (some ({ (deref (zeroExtra ops) ex) with dims := (2 : UInt8) }))
                  ex
                else
                  let ex : (Option (Extra F Str)) := (some ({ (deref (zeroExtra ops) ex) with dims := (1 : UInt8) }))
                  ex
              let ex : (Option (Extra F Str)) := j11'
              let dims : Int := (Int.ofNat (UInt8.toNat ((deref (zeroExtra ops) ex).dims)))
              Exit.done (err, ex, dims)
          else
            Exit.done (err, ex, dims)
        else
          Exit.done (err, ex, dims)
      match e12' with
      | Exit.ret r14' => r14'
      | Exit.done j13' =>
        let err : (Option (Err Str)) := j13'.1
        let ex : (Option (Extra F Str)) := j13'.2.1
        let dims : Int := j13'.2.2
        let j20' : (Option (Extra F Str)) :=
          if (!(Option.isNone ex)) then
            let l17' : (Exit (Option (Extra F Str)) (Option (Extra F Str))) := forRange (parseJSONPolygonCoords_body2 ops nums) (intRange (0 : Int) dims) ex
            match l17' with
            | Exit.ret r18' => r18'
            | Exit.done st19' =>
              let ex : (Option (Extra F Str)) := st19'
              ex
          else
            ex
        let ex : (Option (Extra F Str)) := j20'
        ((err, coords, ex, dims), true)

/-- the function literal at polygon.go:205 (in Go func parseJSONPolygonCoords) -/
def parseJSONPolygonCoords_lit4 (ops : Ops Bytes Circle F GeometryIndexKind GeometryIndexOptions GeometryLine GeometryPoint GeometryPoly GeometryRect GjsonResult GjsonType Object Rect RtreeRTree Str) (x4' : (GjsonResult × GjsonResult)) (st5' : ((Option (Err Str)) × (List (List GeometryPoint)) × (Option (Extra F Str)) × Int)) : (((Option (Err Str)) × (List (List GeometryPoint)) × (Option (Extra F Str)) × Int) × Bool) :=
  let key : GjsonResult := x4'.1
  let value : GjsonResult := x4'.2
  let err : (Option (Err Str)) := st5'.1
  let coords : (List (List GeometryPoint)) := st5'.2.1
  let ex : (Option (Extra F Str)) := st5'.2.2.1
  let dims : Int := st5'.2.2.2
  if (!(ops.gjsonResultIsArray value)) then
    let err : (Option (Err Str)) := (some Err.errCoordinatesInvalid)
    ((err, coords, ex, dims), false)
  else
    let coords : (List (List GeometryPoint)) := (coords ++ [([] : (List GeometryPoint))])
    let ii : Int := ((Int.ofNat (List.length coords)) - (1 : Int))
    let r21' : ((Option (Err Str)) × (List (List GeometryPoint)) × (Option (Extra F Str)) × Int) := searchFold (parseJSONPolygonCoords_lit3 ops ii) (ops.gjsonResultForEach value) (err, coords, ex, dims)
    let err : (Option (Err Str)) := r21'.1
    let coords : (List (List GeometryPoint)) := r21'.2.1
    let ex : (Option (Extra F Str)) := r21'.2.2.1
    let dims : Int := r21'.2.2.2
    ((err, coords, ex, dims), (Option.isNone err))

/-- Go: `func parseJSONPolygonCoords( keys *parseKeys, rcoords gjson.Result, opts *ParseOptions, ) ( [][]geometry.Point, *extra, error, )` — polygon.go:187 -/
def parseJSONPolygonCoords (ops : Ops Bytes Circle F GeometryIndexKind GeometryIndexOptions GeometryLine GeometryPoint GeometryPoly GeometryRect GjsonResult GjsonType Object Rect RtreeRTree Str) (keys : (Option (ParseKeys GjsonResult Str))) (rcoords : GjsonResult) (opts : (Option (ParseOptions GeometryIndexKind))) : ((List (List GeometryPoint)) × (Option (Extra F Str)) × (Option (Err Str))) :=
  let err : (Option (Err Str)) := (none : (Option (Err Str)))
  let coords : (List (List GeometryPoint)) := ([] : (List (List GeometryPoint)))
  let ex : (Option (Extra F Str)) := (none : (Option (Extra F Str)))
  let dims : Int := (0 : Int)
  let e1' : (Exit GjsonResult ((List (List GeometryPoint)) × (Option (Extra F Str)) × (Option (Err Str)))) :=
    if (!(ops.gjsonResultExists rcoords)) then
      let rcoords : GjsonResult := (deref (zeroParseKeys ops) keys).rCoordinates
      if (!(ops.gjsonResultExists rcoords)) then
        (Exit.ret (([] : (List (List GeometryPoint))), (none : (Option (Extra F Str))), (some Err.errCoordinatesMissing)))
      else
        if (!(ops.gjsonResultIsArray rcoords)) then
          (Exit.ret (([] : (List (List GeometryPoint))), (none : (Option (Extra F Str))), (some Err.errCoordinatesInvalid)))
        else
          Exit.done rcoords
    else
      Exit.done rcoords
  match e1' with
  | Exit.ret r3' => r3'
  | Exit.done j2' =>
    let rcoords : GjsonResult := j2'
    let r22' : ((Option (Err Str)) × (List (List GeometryPoint)) × (Option (Extra F Str)) × Int) := searchFold (parseJSONPolygonCoords_lit4 ops) (ops.gjsonResultForEach rcoords) (err, coords, ex, dims)
    let err : (Option (Err Str)) := r22'.1
    let coords : (List (List GeometryPoint)) := r22'.2.1
    let ex : (Option (Extra F Str)) := r22'.2.2.1
    let dims : Int := r22'.2.2.2
    if (!(Option.isNone err)) then
      (([] : (List (List GeometryPoint))), (none : (Option (Extra F Str))), err)
    else
      (coords, ex, err)

/-- the loop body at polygon.go:143 (in Go func parseJSONPolygon) -/
def parseJSONPolygon_body1 (ops : Ops Bytes Circle F GeometryIndexKind GeometryIndexOptions GeometryLine GeometryPoint GeometryPoly GeometryRect GjsonResult GjsonType Object Rect RtreeRTree Str) (x2' : (List GeometryPoint)) (st3' : Unit) : (Flow Unit (Object × (Option (Err Str)))) :=
  let p : (List GeometryPoint) := x2'
  if ((decide ((Int.ofNat (List.length p)) < (4 : Int))) || (!(ops.geometryPointEq (arrAt ops.zeroGeometryPoint p (0 : Int)) (arrAt ops.zeroGeometryPoint p ((Int.ofNat (List.length p)) - (1 : Int)))))) then
    (Flow.ret (ops.nilObject, (some Err.errCoordinatesInvalid)))
  else
    Flow.next ()

/-- Go: `func parseJSONPolygon(keys *parseKeys, opts *ParseOptions) (Object, error)` — polygon.go:134 -/
def parseJSONPolygon (ops : Ops Bytes Circle F GeometryIndexKind GeometryIndexOptions GeometryLine GeometryPoint GeometryPoly GeometryRect GjsonResult GjsonType Object Rect RtreeRTree Str) (keys : (Option (ParseKeys GjsonResult Str))) (opts : (Option (ParseOptions GeometryIndexKind))) : (Object × (Option (Err Str))) :=
  let o : Object := ops.nilObject
  let c1' := (parseJSONPolygonCoords ops keys ops.zeroGjsonResult opts)
  let coords : (List (List GeometryPoint)) := c1'.1
  let extra : (Option (Extra F Str)) := c1'.2.1
  let err : (Option (Err Str)) := c1'.2.2
  if (!(Option.isNone err)) then
    (ops.nilObject, err)
  else
    if ((Int.ofNat (List.length coords)) == (0 : Int)) then
      (ops.nilObject, (some Err.errCoordinatesInvalid))
    else
      let l4' : (Exit Unit (Object × (Option (Err Str)))) := forRange (parseJSONPolygon_body1 ops) coords ()
      match l4' with
      | Exit.ret r5' => r5'
      | Exit.done st6' =>
        let exterior : (List GeometryPoint) := (arrAt ([] : (List GeometryPoint)) coords (0 : Int))
        let holes : (List (List GeometryPoint)) := ([] : (List (List GeometryPoint)))
        let j7' : (List (List GeometryPoint)) :=
          if (decide ((Int.ofNat (List.length coords)) > (1 : Int))) then
            let holes : (List (List GeometryPoint)) := (sliceFrom coords (1 : Int))
            holes
          else
            holes
        let holes : (List (List GeometryPoint)) := j7'
        let gopts : GeometryIndexOptions := (toGeometryOpts ops opts)
        let c8' := (parseBBoxAndExtras ops extra keys opts)
        let err_1 : (Option (Err Str)) := c8'.1
        let extra : (Option (Extra F Str)) := c8'.2
        if (!(Option.isNone err_1)) then
          (ops.nilObject, err_1)
        else
          let j9' : Object :=
            if ((((((((((((Option.isNone extra) && (deref (zeroParseOptions ops) opts).allowRects) && ((Int.ofNat (List.length holes)) == (0 : Int))) && ((Int.ofNat (List.length exterior)) == (5 : Int))) && (ops.f64Lt (ops.geometryPointX (arrAt ops.zeroGeometryPoint exterior (0 : Int))) (ops.geometryPointX (arrAt ops.zeroGeometryPoint exterior (1 : Int))))) && (ops.f64Eq (ops.geometryPointY (arrAt ops.zeroGeometryPoint exterior (0 : Int))) (ops.geometryPointY (arrAt ops.zeroGeometryPoint exterior (1 : Int))))) && (ops.f64Eq (ops.geometryPointX (arrAt ops.zeroGeometryPoint exterior (1 : Int))) (ops.geometryPointX (arrAt ops.zeroGeometryPoint exterior (2 : Int))))) && (ops.f64Lt (ops.geometryPointY (arrAt ops.zeroGeometryPoint exterior (1 : Int))) (ops.geometryPointY (arrAt ops.zeroGeometryPoint exterior (2 : Int))))) && (ops.f64Gt (ops.geometryPointX (arrAt ops.zeroGeometryPoint exterior (2 : Int))) (ops.geometryPointX (arrAt ops.zeroGeometryPoint exterior (3 : Int))))) && (ops.f64Eq (ops.geometryPointY (arrAt ops.zeroGeometryPoint exterior (2 : Int))) (ops.geometryPointY (arrAt ops.zeroGeometryPoint exterior (3 : Int))))) && (ops.f64Eq (ops.geometryPointX (arrAt ops.zeroGeometryPoint exterior (3 : Int))) (ops.geometryPointX (arrAt ops.zeroGeometryPoint exterior (4 : Int))))) && (ops.f64Gt (ops.geometryPointY (arrAt ops.zeroGeometryPoint exterior (3 : Int))) (ops.geometryPointY (arrAt ops.zeroGeometryPoint exterior (4 : Int))))) then
              let o : Object := (ops.objectOfRect (deref ops.zeroRect (ops.newRect (ops.mkGeometryRect (arrAt ops.zeroGeometryPoint exterior (0 : Int)) (arrAt ops.zeroGeometryPoint exterior (2 : Int))))))
              o
            else
              let g : (Polygon F GeometryPoly Str) := ({ base := ops.zeroGeometryPoly, extra := (none : (Option (Extra F Str))) } : (Polygon F GeometryPoly Str))
              let poly : (Option GeometryPoly) := (ops.geometryNewPoly exterior holes (some gopts))
              let g : (Polygon F GeometryPoly Str) := { g with base := (deref ops.zeroGeometryPoly poly) }
              let g : (Polygon F GeometryPoly Str) := { g with extra := extra }
              let o : Object := (ops.objectOfPolygon g)
              o
          let o : Object := j9'
          let e10' : (Exit Unit (Object × (Option (Err Str)))) :=
            if (deref (zeroParseOptions ops) opts).requireValid then
              if (!(ops.objectValid o)) then
                (Exit.ret (ops.nilObject, (some Err.errCoordinatesInvalid)))
              else
                Exit.done ()
            else
              Exit.done ()
          match e10' with
          | Exit.ret r12' => r12'
          | Exit.done j11' =>
            (o, (none : (Option (Err Str))))

/-- Go: `func parseJSONFeature(keys *parseKeys, opts *ParseOptions) (Object, error)` — feature.go:145 -/
def parseJSONFeature (ops : Ops Bytes Circle F GeometryIndexKind GeometryIndexOptions GeometryLine GeometryPoint GeometryPoly GeometryRect GjsonResult GjsonType Object Rect RtreeRTree Str) (keys : (Option (ParseKeys GjsonResult Str))) (opts : (Option (ParseOptions GeometryIndexKind))) : (Object × (Option (Err Str))) :=
  let g : (Feature F Object Str) := (zeroFeature ops)
  if (!(ops.gjsonResultExists ((deref (zeroParseKeys ops) keys).rGeometry))) then
    (ops.nilObject, (some Err.errGeometryMissing))
  else
    let err : (Option (Err Str)) := (none : (Option (Err Str)))
    let c1' := (ops.rec_Parse (ops.gjsonResultRaw ((deref (zeroParseKeys ops) keys).rGeometry)) opts)
    let g : (Feature F Object Str) := { g with base := c1'.1 }
    let err : (Option (Err Str)) := c1'.2
    if (!(Option.isNone err)) then
      (ops.nilObject, err)
    else
      let c2' := (parseBBoxAndExtras ops g.extra keys opts)
      let err_1 : (Option (Err Str)) := c2'.1
      let g : (Feature F Object Str) := { g with extra := c2'.2 }
      if (!(Option.isNone err_1)) then
        (ops.nilObject, err_1)
      else
        let center : GeometryPoint := ops.zeroGeometryPoint
        let isPoint : Bool := false
        let j9' : (GeometryPoint × Bool) :=
          match ops.objectAsPoint g.base with
          | some v3' =>
            let point : (Option (Point F GeometryPoint Str)) := (some v3')
            let t5' := (deref (zeroPoint ops) point).base
            let t6' := true
            let center : GeometryPoint := t5'
            let isPoint : Bool := t6'
            (center, isPoint)
          | none =>
            match ops.objectAsSimplePoint g.base with
            | some v4' =>
              let point : (Option (SimplePoint GeometryPoint)) := (some v4')
              let t7' := (deref (zeroSimplePoint ops) point).point
              let t8' := true
              let center : GeometryPoint := t7'
              let isPoint : Bool := t8'
              (center, isPoint)
            | none =>
              (center, isPoint)
        let center : GeometryPoint := j9'.1
        let isPoint : Bool := j9'.2
        let e13' : (Exit Unit (Object × (Option (Err Str)))) :=
          if isPoint then
            if (!(Option.isNone g.extra)) then
              let members : Str := (deref (zeroExtra ops) g.extra).members
              if ((!((deref (zeroParseOptions ops) opts).disableCircleType)) && (ops.strEq (ops.gjsonResultString (ops.gjsonGet members (ops.strLit "properties.type"))) (ops.strLit "Circle"))) then
                let radius : F := (ops.gjsonResultFloat (ops.gjsonGet members (ops.strLit "properties.radius")))
                let units : Str := (ops.gjsonResultString (ops.gjsonGet members (ops.strLit "properties.radius_units")))
                let e10' : (Exit F (Exit Unit (Object × (Option (Err Str))))) :=
                  if ((ops.strEq units (ops.strLit "")) || (ops.strEq units (ops.strLit "m"))) then
                    Exit.done radius
                  else if (ops.strEq units (ops.strLit "km")) then
                    let radius : F := (ops.f64Mul radius (ops.f64OfInt (1000)))
                    Exit.done radius
                  else
                    (Exit.ret (Exit.ret (ops.nilObject, (some Err.errCircleRadiusUnitsInvalid))))
                match e10' with
                | Exit.ret r12' => r12'
                | Exit.done j11' =>
                  let radius : F := j11'
                  (Exit.ret ((ops.objectOfCircle (deref ops.zeroCircle (ops.newCircle center radius (64 : Int)))), (none : (Option (Err Str)))))
              else
                Exit.done ()
            else
              Exit.done ()
          else
            Exit.done ()
        match e13' with
        | Exit.ret r15' => r15'
        | Exit.done j14' =>
          ((ops.objectOfFeature g), (none : (Option (Err Str))))

-- written-through pointer parameters (each stands for its pointee and is returned after the results): g
/-- the loop body at collection.go:290 (in Go func parseInitRectIndex) -/
def parseInitRectIndex_body1 (ops : Ops Bytes Circle F GeometryIndexKind GeometryIndexOptions GeometryLine GeometryPoint GeometryPoly GeometryRect GjsonResult GjsonType Object Rect RtreeRTree Str) (x8' : Object) (st9' : (Collection F GeometryRect Object RtreeRTree Str)) : (Flow (Collection F GeometryRect Object RtreeRTree Str) (Collection F GeometryRect Object RtreeRTree Str)) :=
  let child : Object := x8'
  let g : (Collection F GeometryRect Object RtreeRTree Str) := st9'
  if (ops.objectEmpty child) then
    Flow.next g
  else
    let rect : GeometryRect := (ops.objectRect child)
    let g : (Collection F GeometryRect Object RtreeRTree Str) := { g with tree := (some (ops.rtreeRTreeInsert (deref ops.zeroRtreeRTree g.tree) ([(ops.geometryPointX (ops.geometryRectMin rect)), (ops.geometryPointY (ops.geometryRectMin rect))] : (List F)) ([(ops.geometryPointX (ops.geometryRectMax rect)), (ops.geometryPointY (ops.geometryRectMax rect))] : (List F)) child)) }
    Flow.next g

/-- the loop body at collection.go:270 (in Go func parseInitRectIndex) -/
def parseInitRectIndex_body2 (ops : Ops Bytes Circle F GeometryIndexKind GeometryIndexOptions GeometryLine GeometryPoint GeometryPoly GeometryRect GjsonResult GjsonType Object Rect RtreeRTree Str) (x1' : Object) (st2' : ((Collection F GeometryRect Object RtreeRTree Str) × Int)) : (Flow ((Collection F GeometryRect Object RtreeRTree Str) × Int) (Collection F GeometryRect Object RtreeRTree Str)) :=
  let child : Object := x1'
  let g : (Collection F GeometryRect Object RtreeRTree Str) := st2'.1
  let count : Int := st2'.2
  if (ops.objectEmpty child) then
    Flow.next (g, count)
  else
    let j3' : (Collection F GeometryRect Object RtreeRTree Str) :=
      if (g.pempty && (!(ops.objectEmpty child))) then
        let g : (Collection F GeometryRect Object RtreeRTree Str) := { g with pempty := false }
        g
      else
        g
    let g : (Collection F GeometryRect Object RtreeRTree Str) := j3'
    let j4' : (Collection F GeometryRect Object RtreeRTree Str) :=
      if (count == (0 : Int)) then
        let g : (Collection F GeometryRect Object RtreeRTree Str) := { g with prect := (ops.objectRect child) }
        g
      else
        if ((Int.ofNat (List.length g.children)) == (1 : Int)) then
          let g : (Collection F GeometryRect Object RtreeRTree Str) := { g with prect := (ops.objectRect child) }
          g
        else
          let g : (Collection F GeometryRect Object RtreeRTree Str) := { g with prect := (ops.unionRects g.prect (ops.objectRect child)) }
          g
    let g : (Collection F GeometryRect Object RtreeRTree Str) := j4'
    let count : Int := (count + (1 : Int))
    Flow.next (g, count)

/-- Go: `func (g *collection) parseInitRectIndex(opts *ParseOptions)` — collection.go:267 -/
def parseInitRectIndex (ops : Ops Bytes Circle F GeometryIndexKind GeometryIndexOptions GeometryLine GeometryPoint GeometryPoly GeometryRect GjsonResult GjsonType Object Rect RtreeRTree Str) (g : (Collection F GeometryRect Object RtreeRTree Str)) (opts : (Option (ParseOptions GeometryIndexKind))) : (Collection F GeometryRect Object RtreeRTree Str) :=
  let g : (Collection F GeometryRect Object RtreeRTree Str) := { g with pempty := true }
  let count : Int := (0 : Int)
  let l5' : (Exit ((Collection F GeometryRect Object RtreeRTree Str) × Int) (Collection F GeometryRect Object RtreeRTree Str)) := forRange (parseInitRectIndex_body2 ops) g.children (g, count)
  match l5' with
  | Exit.ret r6' => r6'
  | Exit.done st7' =>
    let g : (Collection F GeometryRect Object RtreeRTree Str) := st7'.1
    let count : Int := st7'.2
    if (((decide (count > (0 : Int))) && (!((deref (zeroParseOptions ops) opts).indexChildren == (0 : Int)))) && (decide (count ≥ (deref (zeroParseOptions ops) opts).indexChildren))) then
      let g : (Collection F GeometryRect Object RtreeRTree Str) := { g with tree := (some ops.zeroRtreeRTree) }
      let l10' : (Exit (Collection F GeometryRect Object RtreeRTree Str) (Collection F GeometryRect Object RtreeRTree Str)) := forRange (parseInitRectIndex_body1 ops) g.children g
      match l10' with
      | Exit.ret r11' => r11'
      | Exit.done st12' =>
        let g : (Collection F GeometryRect Object RtreeRTree Str) := st12'
        g
    else
      g

/-- the function literal at multipoint.go:59 (in Go func parseJSONMultiPoint) -/
def parseJSONMultiPoint_lit1 (ops : Ops Bytes Circle F GeometryIndexKind GeometryIndexOptions GeometryLine GeometryPoint GeometryPoly GeometryRect GjsonResult GjsonType Object Rect RtreeRTree Str) (keys : (Option (ParseKeys GjsonResult Str))) (opts : (Option (ParseOptions GeometryIndexKind))) (x1' : (GjsonResult × GjsonResult)) (st2' : ((MultiPoint F GeometryRect Object RtreeRTree Str) × (Option (Err Str)) × GeometryPoint × (Option (Extra F Str)))) : (((MultiPoint F GeometryRect Object RtreeRTree Str) × (Option (Err Str)) × GeometryPoint × (Option (Extra F Str))) × Bool) :=
  let value : GjsonResult := x1'.2
  let g : (MultiPoint F GeometryRect Object RtreeRTree Str) := st2'.1
  let err : (Option (Err Str)) := st2'.2.1
  let coords : GeometryPoint := st2'.2.2.1
  let ex : (Option (Extra F Str)) := st2'.2.2.2
  let c3' := (parseJSONPointCoords ops keys value opts)
  let coords : GeometryPoint := c3'.1
  let ex : (Option (Extra F Str)) := c3'.2.1
  let err : (Option (Err Str)) := c3'.2.2
  if (!(Option.isNone err)) then
    ((g, err, coords, ex), false)
  else
    let g : (MultiPoint F GeometryRect Object RtreeRTree Str) := { g with collection := { g.collection with children := (g.collection.children ++ [(ops.objectOfPoint ({ base := coords, extra := ex } : (Point F GeometryPoint Str)))]) } }
    ((g, err, coords, ex), true)

/-- the loop body at multipoint.go:74 (in Go func parseJSONMultiPoint) -/
def parseJSONMultiPoint_body2 (ops : Ops Bytes Circle F GeometryIndexKind GeometryIndexOptions GeometryLine GeometryPoint GeometryPoly GeometryRect GjsonResult GjsonType Object Rect RtreeRTree Str) (x6' : Object) (st7' : Unit) : (Flow Unit (Exit Unit (Object × (Option (Err Str))))) :=
  let p : Object := x6'
  if (!(ops.objectValid p)) then
    (Flow.ret (Exit.ret (ops.nilObject, (some Err.errCoordinatesInvalid))))
  else
    Flow.next ()

/-- Go: `func parseJSONMultiPoint(keys *parseKeys, opts *ParseOptions) (Object, error)` — multipoint.go:48 -/
def parseJSONMultiPoint (ops : Ops Bytes Circle F GeometryIndexKind GeometryIndexOptions GeometryLine GeometryPoint GeometryPoly GeometryRect GjsonResult GjsonType Object Rect RtreeRTree Str) (keys : (Option (ParseKeys GjsonResult Str))) (opts : (Option (ParseOptions GeometryIndexKind))) : (Object × (Option (Err Str))) :=
  let g : (MultiPoint F GeometryRect Object RtreeRTree Str) := (zeroMultiPoint ops)
  let err : (Option (Err Str)) := (none : (Option (Err Str)))
  if (!(ops.gjsonResultExists ((deref (zeroParseKeys ops) keys).rCoordinates))) then
    (ops.nilObject, (some Err.errCoordinatesMissing))
  else
    if (!(ops.gjsonResultIsArray ((deref (zeroParseKeys ops) keys).rCoordinates))) then
      (ops.nilObject, (some Err.errCoordinatesInvalid))
    else
      let coords : GeometryPoint := ops.zeroGeometryPoint
      let ex : (Option (Extra F Str)) := (none : (Option (Extra F Str)))
      let r4' : ((MultiPoint F GeometryRect Object RtreeRTree Str) × (Option (Err Str)) × GeometryPoint × (Option (Extra F Str))) := searchFold (parseJSONMultiPoint_lit1 ops keys opts) (ops.gjsonResultForEach ((deref (zeroParseKeys ops) keys).rCoordinates)) (g, err, coords, ex)
      let g : (MultiPoint F GeometryRect Object RtreeRTree Str) := r4'.1
      let err : (Option (Err Str)) := r4'.2.1
      let coords : GeometryPoint := r4'.2.2.1
      let ex : (Option (Extra F Str)) := r4'.2.2.2
      if (!(Option.isNone err)) then
        (ops.nilObject, err)
      else
        let c5' := (parseBBoxAndExtras ops g.collection.extra keys opts)
        let err_1 : (Option (Err Str)) := c5'.1
        let g : (MultiPoint F GeometryRect Object RtreeRTree Str) := { g with collection := { g.collection with extra := c5'.2 } }
        if (!(Option.isNone err_1)) then
          (ops.nilObject, err_1)
        else
          let e11' : (Exit Unit (Object × (Option (Err Str)))) :=
            if (deref (zeroParseOptions ops) opts).requireValid then
              let l8' : (Exit Unit (Exit Unit (Object × (Option (Err Str))))) := forRange (parseJSONMultiPoint_body2 ops) g.collection.children ()
              match l8' with
              | Exit.ret r9' => r9'
              | Exit.done st10' =>
                Exit.done ()
            else
              Exit.done ()
          match e11' with
          | Exit.ret r13' => r13'
          | Exit.done j12' =>
            let c14' := (parseInitRectIndex ops g.collection opts)
            let g : (MultiPoint F GeometryRect Object RtreeRTree Str) := { g with collection := c14' }
            ((ops.objectOfMultiPoint g), (none : (Option (Err Str))))

/-- the function literal at multilinestring.go:72 (in Go func parseJSONMultiLineString) -/
def parseJSONMultiLineString_lit1 (ops : Ops Bytes Circle F GeometryIndexKind GeometryIndexOptions GeometryLine GeometryPoint GeometryPoly GeometryRect GjsonResult GjsonType Object Rect RtreeRTree Str) (keys : (Option (ParseKeys GjsonResult Str))) (opts : (Option (ParseOptions GeometryIndexKind))) (x1' : (GjsonResult × GjsonResult)) (st2' : ((MultiLineString F GeometryRect Object RtreeRTree Str) × (Option (Err Str)) × (List GeometryPoint) × (Option (Extra F Str)))) : (((MultiLineString F GeometryRect Object RtreeRTree Str) × (Option (Err Str)) × (List GeometryPoint) × (Option (Extra F Str))) × Bool) :=
  let value : GjsonResult := x1'.2
  let g : (MultiLineString F GeometryRect Object RtreeRTree Str) := st2'.1
  let err : (Option (Err Str)) := st2'.2.1
  let coords : (List GeometryPoint) := st2'.2.2.1
  let ex : (Option (Extra F Str)) := st2'.2.2.2
  let c3' := (parseJSONLineStringCoords ops keys value opts)
  let coords : (List GeometryPoint) := c3'.1
  let ex : (Option (Extra F Str)) := c3'.2.1
  let err : (Option (Err Str)) := c3'.2.2
  if (!(Option.isNone err)) then
    ((g, err, coords, ex), false)
  else
    if (decide ((Int.ofNat (List.length coords)) < (2 : Int))) then
      let err : (Option (Err Str)) := (some Err.errCoordinatesInvalid)
      ((g, err, coords, ex), false)
    else
      let gopts : GeometryIndexOptions := (toGeometryOpts ops opts)
      let line : (Option GeometryLine) := (ops.geometryNewLine coords (some gopts))
      let g : (MultiLineString F GeometryRect Object RtreeRTree Str) := { g with collection := { g.collection with children := (g.collection.children ++ [(ops.objectOfLineString ({ base := (deref ops.zeroGeometryLine line), extra := ex } : (LineString F GeometryLine Str)))]) } }
      ((g, err, coords, ex), true)

/-- Go: `func parseJSONMultiLineString( keys *parseKeys, opts *ParseOptions, ) (Object, error)` — multilinestring.go:59 -/
def parseJSONMultiLineString (ops : Ops Bytes Circle F GeometryIndexKind GeometryIndexOptions GeometryLine GeometryPoint GeometryPoly GeometryRect GjsonResult GjsonType Object Rect RtreeRTree Str) (keys : (Option (ParseKeys GjsonResult Str))) (opts : (Option (ParseOptions GeometryIndexKind))) : (Object × (Option (Err Str))) :=
  let g : (MultiLineString F GeometryRect Object RtreeRTree Str) := (zeroMultiLineString ops)
  let err : (Option (Err Str)) := (none : (Option (Err Str)))
  if (!(ops.gjsonResultExists ((deref (zeroParseKeys ops) keys).rCoordinates))) then
    (ops.nilObject, (some Err.errCoordinatesMissing))
  else
    if (!(ops.gjsonResultIsArray ((deref (zeroParseKeys ops) keys).rCoordinates))) then
      (ops.nilObject, (some Err.errCoordinatesInvalid))
    else
      let coords : (List GeometryPoint) := ([] : (List GeometryPoint))
      let ex : (Option (Extra F Str)) := (none : (Option (Extra F Str)))
      let r4' : ((MultiLineString F GeometryRect Object RtreeRTree Str) × (Option (Err Str)) × (List GeometryPoint) × (Option (Extra F Str))) := searchFold (parseJSONMultiLineString_lit1 ops keys opts) (ops.gjsonResultForEach ((deref (zeroParseKeys ops) keys).rCoordinates)) (g, err, coords, ex)
      let g : (MultiLineString F GeometryRect Object RtreeRTree Str) := r4'.1
      let err : (Option (Err Str)) := r4'.2.1
      let coords : (List GeometryPoint) := r4'.2.2.1
      let ex : (Option (Extra F Str)) := r4'.2.2.2
      if (!(Option.isNone err)) then
        (ops.nilObject, err)
      else
        let c5' := (parseBBoxAndExtras ops g.collection.extra keys opts)
        let err_1 : (Option (Err Str)) := c5'.1
        let g : (MultiLineString F GeometryRect Object RtreeRTree Str) := { g with collection := { g.collection with extra := c5'.2 } }
        if (!(Option.isNone err_1)) then
          (ops.nilObject, err_1)
        else
          let e6' : (Exit Unit (Object × (Option (Err Str)))) :=
            if (deref (zeroParseOptions ops) opts).requireValid then
              if (!(ops.multiLineStringValid g)) then
                (Exit.ret (ops.nilObject, (some Err.errCoordinatesInvalid)))
              else
                Exit.done ()
            else
              Exit.done ()
          match e6' with
          | Exit.ret r8' => r8'
          | Exit.done j7' =>
            let c9' := (parseInitRectIndex ops g.collection opts)
            let g : (MultiLineString F GeometryRect Object RtreeRTree Str) := { g with collection := c9' }
            ((ops.objectOfMultiLineString g), (none : (Option (Err Str))))

/-- the loop body at multipolygon.go:80 (in Go func parseJSONMultiPolygon) -/
def parseJSONMultiPolygon_body1 (ops : Ops Bytes Circle F GeometryIndexKind GeometryIndexOptions GeometryLine GeometryPoint GeometryPoly GeometryRect GjsonResult GjsonType Object Rect RtreeRTree Str) (g : (MultiPolygon F GeometryRect Object RtreeRTree Str)) (coords : (List (List GeometryPoint))) (ex : (Option (Extra F Str))) (x4' : (List GeometryPoint)) (st5' : (Option (Err Str))) : (Flow (Option (Err Str)) (((MultiPolygon F GeometryRect Object RtreeRTree Str) × (Option (Err Str)) × (List (List GeometryPoint)) × (Option (Extra F Str))) × Bool)) :=
  let p : (List GeometryPoint) := x4'
  let err : (Option (Err Str)) := st5'
  if ((decide ((Int.ofNat (List.length p)) < (4 : Int))) || (!(ops.geometryPointEq (arrAt ops.zeroGeometryPoint p (0 : Int)) (arrAt ops.zeroGeometryPoint p ((Int.ofNat (List.length p)) - (1 : Int)))))) then
    let err : (Option (Err Str)) := (some Err.errCoordinatesInvalid)
    (Flow.ret ((g, err, coords, ex), false))
  else
    Flow.next err

/-- the function literal at multipolygon.go:71 (in Go func parseJSONMultiPolygon) -/
def parseJSONMultiPolygon_lit2 (ops : Ops Bytes Circle F GeometryIndexKind GeometryIndexOptions GeometryLine GeometryPoint GeometryPoly GeometryRect GjsonResult GjsonType Object Rect RtreeRTree Str) (keys : (Option (ParseKeys GjsonResult Str))) (opts : (Option (ParseOptions GeometryIndexKind))) (x1' : (GjsonResult × GjsonResult)) (st2' : ((MultiPolygon F GeometryRect Object RtreeRTree Str) × (Option (Err Str)) × (List (List GeometryPoint)) × (Option (Extra F Str)))) : (((MultiPolygon F GeometryRect Object RtreeRTree Str) × (Option (Err Str)) × (List (List GeometryPoint)) × (Option (Extra F Str))) × Bool) :=
  let value : GjsonResult := x1'.2
  let g : (MultiPolygon F GeometryRect Object RtreeRTree Str) := st2'.1
  let err : (Option (Err Str)) := st2'.2.1
  let coords : (List (List GeometryPoint)) := st2'.2.2.1
  let ex : (Option (Extra F Str)) := st2'.2.2.2
  let c3' := (parseJSONPolygonCoords ops keys value opts)
  let coords : (List (List GeometryPoint)) := c3'.1
  let ex : (Option (Extra F Str)) := c3'.2.1
  let err : (Option (Err Str)) := c3'.2.2
  if (!(Option.isNone err)) then
    ((g, err, coords, ex), false)
  else
    if ((Int.ofNat (List.length coords)) == (0 : Int)) then
      let err : (Option (Err Str)) := (some Err.errCoordinatesInvalid)
      ((g, err, coords, ex), false)
    else
      let l6' : (Exit (Option (Err Str)) (((MultiPolygon F GeometryRect Object RtreeRTree Str) × (Option (Err Str)) × (List (List GeometryPoint)) × (Option (Extra F Str))) × Bool)) := forRange (parseJSONMultiPolygon_body1 ops g coords ex) coords err
      match l6' with
      | Exit.ret r7' => r7'
      | Exit.done st8' =>
        let err : (Option (Err Str)) := st8'
        let exterior : (List GeometryPoint) := (arrAt ([] : (List GeometryPoint)) coords (0 : Int))
        let holes : (List (List GeometryPoint)) := ([] : (List (List GeometryPoint)))
        let j9' : (List (List GeometryPoint)) :=
          if (decide ((Int.ofNat (List.length coords)) > (1 : Int))) then
            let holes : (List (List GeometryPoint)) := (sliceFrom coords (1 : Int))
            holes
          else
            holes
        let holes : (List (List GeometryPoint)) := j9'
        let gopts : GeometryIndexOptions := (toGeometryOpts ops opts)
        let poly : (Option GeometryPoly) := (ops.geometryNewPoly exterior holes (some gopts))
        let g : (MultiPolygon F GeometryRect Object RtreeRTree Str) := { g with collection := { g.collection with children := (g.collection.children ++ [(ops.objectOfPolygon ({ base := (deref ops.zeroGeometryPoly poly), extra := ex } : (Polygon F GeometryPoly Str)))]) } }
        ((g, err, coords, ex), true)

/-- Go: `func parseJSONMultiPolygon( keys *parseKeys, opts *ParseOptions, ) (Object, error)` — multipolygon.go:58 -/
def parseJSONMultiPolygon (ops : Ops Bytes Circle F GeometryIndexKind GeometryIndexOptions GeometryLine GeometryPoint GeometryPoly GeometryRect GjsonResult GjsonType Object Rect RtreeRTree Str) (keys : (Option (ParseKeys GjsonResult Str))) (opts : (Option (ParseOptions GeometryIndexKind))) : (Object × (Option (Err Str))) :=
  let g : (MultiPolygon F GeometryRect Object RtreeRTree Str) := (zeroMultiPolygon ops)
  let err : (Option (Err Str)) := (none : (Option (Err Str)))
  if (!(ops.gjsonResultExists ((deref (zeroParseKeys ops) keys).rCoordinates))) then
    (ops.nilObject, (some Err.errCoordinatesMissing))
  else
    if (!(ops.gjsonResultIsArray ((deref (zeroParseKeys ops) keys).rCoordinates))) then
      (ops.nilObject, (some Err.errCoordinatesInvalid))
    else
      let coords : (List (List GeometryPoint)) := ([] : (List (List GeometryPoint)))
      let ex : (Option (Extra F Str)) := (none : (Option (Extra F Str)))
      let r10' : ((MultiPolygon F GeometryRect Object RtreeRTree Str) × (Option (Err Str)) × (List (List GeometryPoint)) × (Option (Extra F Str))) := searchFold (parseJSONMultiPolygon_lit2 ops keys opts) (ops.gjsonResultForEach ((deref (zeroParseKeys ops) keys).rCoordinates)) (g, err, coords, ex)
      let g : (MultiPolygon F GeometryRect Object RtreeRTree Str) := r10'.1
      let err : (Option (Err Str)) := r10'.2.1
      let coords : (List (List GeometryPoint)) := r10'.2.2.1
      let ex : (Option (Extra F Str)) := r10'.2.2.2
      if (!(Option.isNone err)) then
        (ops.nilObject, err)
      else
        let c11' := (parseBBoxAndExtras ops g.collection.extra keys opts)
        let err_1 : (Option (Err Str)) := c11'.1
        let g : (MultiPolygon F GeometryRect Object RtreeRTree Str) := { g with collection := { g.collection with extra := c11'.2 } }
        if (!(Option.isNone err_1)) then
          (ops.nilObject, err_1)
        else
          let e12' : (Exit Unit (Object × (Option (Err Str)))) :=
            if (deref (zeroParseOptions ops) opts).requireValid then
              if (!(ops.multiPolygonValid g)) then
                (Exit.ret (ops.nilObject, (some Err.errCoordinatesInvalid)))
              else
                Exit.done ()
            else
              Exit.done ()
          match e12' with
          | Exit.ret r14' => r14'
          | Exit.done j13' =>
            let c15' := (parseInitRectIndex ops g.collection opts)
            let g : (MultiPolygon F GeometryRect Object RtreeRTree Str) := { g with collection := c15' }
            ((ops.objectOfMultiPolygon g), (none : (Option (Err Str))))

/-- the function literal at geometrycollection.go:59 (in Go func parseJSONGeometryCollection) -/
def parseJSONGeometryCollection_lit1 (ops : Ops Bytes Circle F GeometryIndexKind GeometryIndexOptions GeometryLine GeometryPoint GeometryPoly GeometryRect GjsonResult GjsonType Object Rect RtreeRTree Str) (opts : (Option (ParseOptions GeometryIndexKind))) (x1' : (GjsonResult × GjsonResult)) (st2' : ((GeometryCollection F GeometryRect Object RtreeRTree Str) × (Option (Err Str)))) : (((GeometryCollection F GeometryRect Object RtreeRTree Str) × (Option (Err Str))) × Bool) :=
  let key : GjsonResult := x1'.1
  let value : GjsonResult := x1'.2
  let g : (GeometryCollection F GeometryRect Object RtreeRTree Str) := st2'.1
  let err : (Option (Err Str)) := st2'.2
  let f : Object := ops.nilObject
  let c3' := (ops.rec_Parse (ops.gjsonResultRaw value) opts)
  let f : Object := c3'.1
  let err : (Option (Err Str)) := c3'.2
  if (!(Option.isNone err)) then
    ((g, err), false)
  else
    let g : (GeometryCollection F GeometryRect Object RtreeRTree Str) := { g with collection := { g.collection with children := (g.collection.children ++ [f]) } }
    ((g, err), true)

/-- Go: `func parseJSONGeometryCollection( keys *parseKeys, opts *ParseOptions, ) (Object, error)` — geometrycollection.go:48 -/
def parseJSONGeometryCollection (ops : Ops Bytes Circle F GeometryIndexKind GeometryIndexOptions GeometryLine GeometryPoint GeometryPoly GeometryRect GjsonResult GjsonType Object Rect RtreeRTree Str) (keys : (Option (ParseKeys GjsonResult Str))) (opts : (Option (ParseOptions GeometryIndexKind))) : (Object × (Option (Err Str))) :=
  let g : (GeometryCollection F GeometryRect Object RtreeRTree Str) := (zeroGeometryCollection ops)
  if (!(ops.gjsonResultExists ((deref (zeroParseKeys ops) keys).rGeometries))) then
    (ops.nilObject, (some Err.errGeometriesMissing))
  else
    if (!(ops.gjsonResultIsArray ((deref (zeroParseKeys ops) keys).rGeometries))) then
      (ops.nilObject, (some Err.errGeometriesInvalid))
    else
      let err : (Option (Err Str)) := (none : (Option (Err Str)))
      let r4' : ((GeometryCollection F GeometryRect Object RtreeRTree Str) × (Option (Err Str))) := searchFold (parseJSONGeometryCollection_lit1 ops opts) (ops.gjsonResultForEach ((deref (zeroParseKeys ops) keys).rGeometries)) (g, err)
      let g : (GeometryCollection F GeometryRect Object RtreeRTree Str) := r4'.1
      let err : (Option (Err Str)) := r4'.2
      if (!(Option.isNone err)) then
        (ops.nilObject, err)
      else
        let c5' := (parseBBoxAndExtras ops g.collection.extra keys opts)
        let err_1 : (Option (Err Str)) := c5'.1
        let g : (GeometryCollection F GeometryRect Object RtreeRTree Str) := { g with collection := { g.collection with extra := c5'.2 } }
        if (!(Option.isNone err_1)) then
          (ops.nilObject, err_1)
        else
          let c6' := (parseInitRectIndex ops g.collection opts)
          let g : (GeometryCollection F GeometryRect Object RtreeRTree Str) := { g with collection := c6' }
          ((ops.objectOfGeometryCollection g), (none : (Option (Err Str))))

/-- the function literal at featurecollection.go:59 (in Go func parseJSONFeatureCollection) -/
def parseJSONFeatureCollection_lit1 (ops : Ops Bytes Circle F GeometryIndexKind GeometryIndexOptions GeometryLine GeometryPoint GeometryPoly GeometryRect GjsonResult GjsonType Object Rect RtreeRTree Str) (opts : (Option (ParseOptions GeometryIndexKind))) (x1' : (GjsonResult × GjsonResult)) (st2' : ((FeatureCollection F GeometryRect Object RtreeRTree Str) × (Option (Err Str)))) : (((FeatureCollection F GeometryRect Object RtreeRTree Str) × (Option (Err Str))) × Bool) :=
  let key : GjsonResult := x1'.1
  let value : GjsonResult := x1'.2
  let g : (FeatureCollection F GeometryRect Object RtreeRTree Str) := st2'.1
  let err : (Option (Err Str)) := st2'.2
  let f : Object := ops.nilObject
  let c3' := (ops.rec_Parse (ops.gjsonResultRaw value) opts)
  let f : Object := c3'.1
  let err : (Option (Err Str)) := c3'.2
  if (!(Option.isNone err)) then
    ((g, err), false)
  else
    let g : (FeatureCollection F GeometryRect Object RtreeRTree Str) := { g with collection := { g.collection with children := (g.collection.children ++ [f]) } }
    ((g, err), true)

/-- Go: `func parseJSONFeatureCollection( keys *parseKeys, opts *ParseOptions, ) (Object, error)` — featurecollection.go:48 -/
def parseJSONFeatureCollection (ops : Ops Bytes Circle F GeometryIndexKind GeometryIndexOptions GeometryLine GeometryPoint GeometryPoly GeometryRect GjsonResult GjsonType Object Rect RtreeRTree Str) (keys : (Option (ParseKeys GjsonResult Str))) (opts : (Option (ParseOptions GeometryIndexKind))) : (Object × (Option (Err Str))) :=
  let g : (FeatureCollection F GeometryRect Object RtreeRTree Str) := (zeroFeatureCollection ops)
  if (!(ops.gjsonResultExists ((deref (zeroParseKeys ops) keys).rFeatures))) then
    (ops.nilObject, (some Err.errFeaturesMissing))
  else
    if (!(ops.gjsonResultIsArray ((deref (zeroParseKeys ops) keys).rFeatures))) then
      (ops.nilObject, (some Err.errFeaturesInvalid))
    else
      let err : (Option (Err Str)) := (none : (Option (Err Str)))
      let r4' : ((FeatureCollection F GeometryRect Object RtreeRTree Str) × (Option (Err Str))) := searchFold (parseJSONFeatureCollection_lit1 ops opts) (ops.gjsonResultForEach ((deref (zeroParseKeys ops) keys).rFeatures)) (g, err)
      let g : (FeatureCollection F GeometryRect Object RtreeRTree Str) := r4'.1
      let err : (Option (Err Str)) := r4'.2
      if (!(Option.isNone err)) then
        (ops.nilObject, err)
      else
        let c5' := (parseBBoxAndExtras ops g.collection.extra keys opts)
        let err_1 : (Option (Err Str)) := c5'.1
        let g : (FeatureCollection F GeometryRect Object RtreeRTree Str) := { g with collection := { g.collection with extra := c5'.2 } }
        if (!(Option.isNone err_1)) then
          (ops.nilObject, err_1)
        else
          let c6' := (parseInitRectIndex ops g.collection opts)
          let g : (FeatureCollection F GeometryRect Object RtreeRTree Str) := { g with collection := c6' }
          ((ops.objectOfFeatureCollection g), (none : (Option (Err Str))))

/-- the function literal at object.go:176 (in Go func parseJSON) -/
def parseJSON_lit1 (ops : Ops Bytes Circle F GeometryIndexKind GeometryIndexOptions GeometryLine GeometryPoint GeometryPoly GeometryRect GjsonResult GjsonType Object Rect RtreeRTree Str) (x1' : (GjsonResult × GjsonResult)) (st2' : ((ParseKeys GjsonResult Str) × Bytes × GjsonResult)) : (((ParseKeys GjsonResult Str) × Bytes × GjsonResult) × Bool) :=
  let key : GjsonResult := x1'.1
  let val : GjsonResult := x1'.2
  let keys : (ParseKeys GjsonResult Str) := st2'.1
  let fmembers : Bytes := st2'.2.1
  let rType : GjsonResult := st2'.2.2
  let t3' := (ops.gjsonResultString key)
  let j5' : ((ParseKeys GjsonResult Str) × Bytes × GjsonResult) :=
    if (ops.strEq t3' (ops.strLit "type")) then
      let rType : GjsonResult := val
      (keys, fmembers, rType)
    else if (ops.strEq t3' (ops.strLit "coordinates")) then
      let keys : (ParseKeys GjsonResult Str) := { keys with rCoordinates := val }
      (keys, fmembers, rType)
    else if (ops.strEq t3' (ops.strLit "geometries")) then
      let keys : (ParseKeys GjsonResult Str) := { keys with rGeometries := val }
      (keys, fmembers, rType)
    else if (ops.strEq t3' (ops.strLit "geometry")) then
      let keys : (ParseKeys GjsonResult Str) := { keys with rGeometry := val }
      (keys, fmembers, rType)
    else if (ops.strEq t3' (ops.strLit "features")) then
      let keys : (ParseKeys GjsonResult Str) := { keys with rFeatures := val }
      (keys, fmembers, rType)
    else
      let j4' : Bytes :=
        if ((ops.bytesLen fmembers) == (0 : Int)) then
          let fmembers : Bytes := (ops.bytesPush fmembers (123 : UInt8))
          fmembers
        else
          let fmembers : Bytes := (ops.bytesPush fmembers (44 : UInt8))
          fmembers
      let fmembers : Bytes := j4'
      let fmembers : Bytes := (ops.bytesAppend fmembers (ops.prettyUgly (ops.bytesOfStr (ops.gjsonResultRaw key))))
      let fmembers : Bytes := (ops.bytesPush fmembers (58 : UInt8))
      let fmembers : Bytes := (ops.bytesAppend fmembers (ops.prettyUgly (ops.bytesOfStr (ops.gjsonResultRaw val))))
      (keys, fmembers, rType)
  let keys : (ParseKeys GjsonResult Str) := j5'.1
  let fmembers : Bytes := j5'.2.1
  let rType : GjsonResult := j5'.2.2
  ((keys, fmembers, rType), true)

/-- Go: `func parseJSON(data string, opts *ParseOptions) (Object, error)` — object.go:169 -/
def parseJSON (ops : Ops Bytes Circle F GeometryIndexKind GeometryIndexOptions GeometryLine GeometryPoint GeometryPoly GeometryRect GjsonResult GjsonType Object Rect RtreeRTree Str) (data : Str) (opts : (Option (ParseOptions GeometryIndexKind))) : (Object × (Option (Err Str))) :=
  if (!(ops.gjsonValid data)) then
    (ops.nilObject, (some Err.errDataInvalid))
  else
    let keys : (ParseKeys GjsonResult Str) := (zeroParseKeys ops)
    let fmembers : Bytes := ops.nilBytes
    let rType : GjsonResult := ops.zeroGjsonResult
    let r6' : ((ParseKeys GjsonResult Str) × Bytes × GjsonResult) := searchFold (parseJSON_lit1 ops) (ops.gjsonResultForEach (ops.gjsonParse data)) (keys, fmembers, rType)
    let keys : (ParseKeys GjsonResult Str) := r6'.1
    let fmembers : Bytes := r6'.2.1
    let rType : GjsonResult := r6'.2.2
    let j7' : ((ParseKeys GjsonResult Str) × Bytes) :=
      if (decide ((ops.bytesLen fmembers) > (0 : Int))) then
        let fmembers : Bytes := (ops.bytesPush fmembers (125 : UInt8))
        let keys : (ParseKeys GjsonResult Str) := { keys with members := (ops.strOfBytes fmembers) }
        (keys, fmembers)
      else
        (keys, fmembers)
    let keys : (ParseKeys GjsonResult Str) := j7'.1
    let fmembers : Bytes := j7'.2
    if (!(ops.gjsonResultExists rType)) then
      (ops.nilObject, (some Err.errTypeMissing))
    else
      if (!(ops.gjsonTypeEq (ops.gjsonResultType rType) ops.gjsonString)) then
        (ops.nilObject, (some Err.errTypeInvalid))
      else
        let t8' := (ops.gjsonResultString rType)
        if (ops.strEq t8' (ops.strLit "Point")) then
          (parseJSONPoint ops (some keys) opts)
        else if (ops.strEq t8' (ops.strLit "LineString")) then
          (parseJSONLineString ops (some keys) opts)
        else if (ops.strEq t8' (ops.strLit "Polygon")) then
          (parseJSONPolygon ops (some keys) opts)
        else if (ops.strEq t8' (ops.strLit "Feature")) then
          (parseJSONFeature ops (some keys) opts)
        else if (ops.strEq t8' (ops.strLit "MultiPoint")) then
          (parseJSONMultiPoint ops (some keys) opts)
        else if (ops.strEq t8' (ops.strLit "MultiLineString")) then
          (parseJSONMultiLineString ops (some keys) opts)
        else if (ops.strEq t8' (ops.strLit "MultiPolygon")) then
          (parseJSONMultiPolygon ops (some keys) opts)
        else if (ops.strEq t8' (ops.strLit "GeometryCollection")) then
          (parseJSONGeometryCollection ops (some keys) opts)
        else if (ops.strEq t8' (ops.strLit "FeatureCollection")) then
          (parseJSONFeatureCollection ops (some keys) opts)
        else
          (ops.nilObject, (some (Err.fmtErrTypeIsUnknown (ops.gjsonResultString rType))))

/-- the loop body at object.go:125 (in Go func Parse) -/
def Parse_body1 (ops : Ops Bytes Circle F GeometryIndexKind GeometryIndexOptions GeometryLine GeometryPoint GeometryPoly GeometryRect GjsonResult GjsonType Object Rect RtreeRTree Str) (opts : (Option (ParseOptions GeometryIndexKind))) (st3' : (Str × Int)) : (Flow (Str × Int) (Option (Object × (Option (Err Str))))) :=
  let data : Str := st3'.1
  let i : Int := st3'.2
  if ((ops.strLen data) == (0 : Int)) then
    (Flow.ret (some (ops.nilObject, (some Err.errDataInvalid))))
  else
    let t4' := (ops.strAt data (0 : Int))
    if ((t4' == (0 : UInt8)) || (t4' == (1 : UInt8))) then
      if (decide (i > (0 : Int))) then
        (Flow.ret (some (ops.nilObject, (some Err.errDataInvalid))))
      else
        (Flow.ret (some (ops.nilObject, (some Err.errDataInvalid))))
    else if ((t4' == (32 : UInt8)) || (t4' == (9 : UInt8)) || (t4' == (10 : UInt8)) || (t4' == (13 : UInt8))) then
      let data : Str := (ops.strSliceFrom data (1 : Int))
      (let i : Int := (i + (1 : Int)); Flow.next (data, i))
    else if (t4' == (123 : UInt8)) then
      (Flow.ret (some (parseJSON ops data opts)))
    else
      (Flow.ret (some (ops.nilObject, (some Err.errDataInvalid))))

/-- Go: `func Parse(data string, opts *ParseOptions) (Object, error)` — object.go:119 -/
def Parse (ops : Ops Bytes Circle F GeometryIndexKind GeometryIndexOptions GeometryLine GeometryPoint GeometryPoly GeometryRect GjsonResult GjsonType Object Rect RtreeRTree Str) (fuel : Nat) (data : Str) (opts : (Option (ParseOptions GeometryIndexKind))) : Option (Object × (Option (Err Str))) :=
  let j1' : (Option (ParseOptions GeometryIndexKind)) :=
    if (Option.isNone opts) then
      let opts : (Option (ParseOptions GeometryIndexKind)) := (DefaultParseOptions ops)
      opts
    else
      opts
  let opts : (Option (ParseOptions GeometryIndexKind)) := j1'
  let i : Int := (0 : Int)
  let l5' : Option (Exit (Str × Int) (Option (Object × (Option (Err Str))))) := loopFuel (Parse_body1 ops opts) fuel (data, i)
  match l5' with
  | none => none
  | some (Exit.ret r6') => r6'
  | some (Exit.done st7') =>
    none -- not reached: the loop has no break

end Geo.PGen
