/-
  GeoProofs.Symmetry.Meets — `Spec.meets` is invariant under the three symmetries WITHOUT any
  validity hypothesis (self-intersecting rings, degenerate line strings, holes anywhere): the
  only requirement is that rectangles are well formed (`Spec.Shape.rectOK`).

  `Spec.meets` looks at vertices in the other shape and at pairs of edges that meet; the image
  shape has the image vertices, the image edges (up to orientation, for rectangles), and the
  image membership (`Sym.member_map`, i.e. the parity theorem).
-/
import GeoProofs.Symmetry.Shapes

namespace Geo
namespace Sym
open IX Jordan

/-- `S'` is the image of `S` under `T` as far as `Spec.meets` can see -/
structure ShapeImg (T : Pt → Pt) (S S' : Spec.Shape) : Prop where
  ne : S'.nonEmpty = S.nonEmpty
  mem : ∀ x, S'.member (T x) = S.member x
  vert_to : ∀ v ∈ S'.vertices, ∃ w ∈ S.vertices, v = T w
  vert_from : ∀ w ∈ S.vertices, T w ∈ S'.vertices
  edge_to : ∀ e ∈ S'.edges, ∃ f ∈ S.edges, e = (T f.1, T f.2) ∨ e = (T f.2, T f.1)
  edge_from : ∀ f ∈ S.edges, (T f.1, T f.2) ∈ S'.edges ∨ (T f.2, T f.1) ∈ S'.edges

theorem segsMeet_swapL (a b c d : Pt) : Spec.segsMeet b a c d = Spec.segsMeet a b c d := by
  rw [Bool.eq_iff_iff, spec_segsMeet_iff, spec_segsMeet_iff]
  exact (segsMeet_swap_left a b c d).symm

theorem segsMeet_swapR (a b c d : Pt) : Spec.segsMeet a b d c = Spec.segsMeet a b c d := by
  rw [Bool.eq_iff_iff, spec_segsMeet_iff, spec_segsMeet_iff]
  exact (segsMeet_swap_right a b c d).symm

section
variable {T : Pt → Pt} {k : Rat} (hT : LatSym T k)
include hT

/-- the edge test of `Spec.meets`, one direction -/
theorem edges_any_of_img {E E' F F' : List (Pt × Pt)}
    (hE : ∀ e ∈ E', ∃ f ∈ E, e = (T f.1, T f.2) ∨ e = (T f.2, T f.1))
    (hF : ∀ e ∈ F', ∃ f ∈ F, e = (T f.1, T f.2) ∨ e = (T f.2, T f.1))
    (h : E'.any (fun e => F'.any (fun f => Spec.segsMeet e.1 e.2 f.1 f.2)) = true) :
    E.any (fun e => F.any (fun f => Spec.segsMeet e.1 e.2 f.1 f.2)) = true := by
  rw [List.any_eq_true] at h ⊢
  obtain ⟨e', he', h⟩ := h
  rw [List.any_eq_true] at h
  obtain ⟨f', hf', h⟩ := h
  obtain ⟨e, he, hee⟩ := hE e' he'
  obtain ⟨f, hf, hff⟩ := hF f' hf'
  refine ⟨e, he, ?_⟩
  rw [List.any_eq_true]
  refine ⟨f, hf, ?_⟩
  rcases hee with rfl | rfl <;> rcases hff with rfl | rfl <;>
    simp only [segsMeet_swapL, segsMeet_swapR, segsMeet_map hT] at h <;> exact h

theorem edges_any_to_img {E E' F F' : List (Pt × Pt)}
    (hE : ∀ f ∈ E, (T f.1, T f.2) ∈ E' ∨ (T f.2, T f.1) ∈ E')
    (hF : ∀ f ∈ F, (T f.1, T f.2) ∈ F' ∨ (T f.2, T f.1) ∈ F')
    (h : E.any (fun e => F.any (fun f => Spec.segsMeet e.1 e.2 f.1 f.2)) = true) :
    E'.any (fun e => F'.any (fun f => Spec.segsMeet e.1 e.2 f.1 f.2)) = true := by
  rw [List.any_eq_true] at h ⊢
  obtain ⟨e, he, h⟩ := h
  rw [List.any_eq_true] at h
  obtain ⟨f, hf, h⟩ := h
  rcases hE e he with he' | he' <;> rcases hF f hf with hf' | hf'
  · refine ⟨_, he', ?_⟩
    rw [List.any_eq_true]
    exact ⟨_, hf', by simp only [segsMeet_map hT]; exact h⟩
  · refine ⟨_, he', ?_⟩
    rw [List.any_eq_true]
    exact ⟨_, hf', by simp only [segsMeet_swapR, segsMeet_map hT]; exact h⟩
  · refine ⟨_, he', ?_⟩
    rw [List.any_eq_true]
    exact ⟨_, hf', by simp only [segsMeet_swapL, segsMeet_map hT]; exact h⟩
  · refine ⟨_, he', ?_⟩
    rw [List.any_eq_true]
    exact ⟨_, hf', by simp only [segsMeet_swapL, segsMeet_swapR, segsMeet_map hT]; exact h⟩

omit hT in
theorem verts_any_iff {A A' B B' : Spec.Shape} (hA : ShapeImg T A A') (hB : ShapeImg T B B') :
    A'.vertices.any (fun p => B'.member p) = A.vertices.any (fun p => B.member p) := by
  rw [Bool.eq_iff_iff, List.any_eq_true, List.any_eq_true]
  constructor
  · rintro ⟨v, hv, h⟩
    obtain ⟨w, hw, rfl⟩ := hA.vert_to v hv
    rw [hB.mem] at h
    exact ⟨w, hw, h⟩
  · rintro ⟨w, hw, h⟩
    exact ⟨T w, hA.vert_from w hw, by rw [hB.mem]; exact h⟩

theorem meets_of_img {A A' B B' : Spec.Shape} (hA : ShapeImg T A A') (hB : ShapeImg T B B') :
    Spec.meets A' B' = Spec.meets A B := by
  unfold Spec.meets
  rw [hA.ne, hB.ne, verts_any_iff hA hB, verts_any_iff hB hA]
  congr 2
  rw [Bool.eq_iff_iff]
  exact ⟨edges_any_of_img hT hA.edge_to hB.edge_to, edges_any_to_img hT hA.edge_from hB.edge_from⟩

end

/-! ### the image of a shape other than a rectangle -/

theorem img_of_maps {T : Pt → Pt} {S S' : Spec.Shape} (hne : S'.nonEmpty = S.nonEmpty)
    (hmem : ∀ x, S'.member (T x) = S.member x) (hv : S'.vertices = S.vertices.map T)
    (he : S'.edges = S.edges.map (Prod.map T T)) : ShapeImg T S S' where
  ne := hne
  mem := hmem
  vert_to := fun v h => by
    rw [hv] at h
    obtain ⟨w, hw, rfl⟩ := List.mem_map.1 h
    exact ⟨w, hw, rfl⟩
  vert_from := fun w hw => by rw [hv]; exact List.mem_map.2 ⟨w, hw, rfl⟩
  edge_to := fun e h => by
    rw [he] at h
    obtain ⟨f, hf, rfl⟩ := List.mem_map.1 h
    exact ⟨f, hf, Or.inl rfl⟩
  edge_from := fun f hf => Or.inl (by rw [he]; exact List.mem_map.2 ⟨f, hf, rfl⟩)

theorem img_nonrect {T : Pt → Pt} (hT : ShapeSym T) (S : Spec.Shape) (hS : S.isRect = false) :
    ShapeImg T S (S.mapPts T) := by
  have hr : S.rectOK := by cases S <;> trivial
  refine img_of_maps ?_ (member_map hT S hr) ?_ ?_
  · cases S <;> simp [Spec.Shape.mapPts, Spec.Shape.nonEmpty]
  · cases S with
    | rect lo hi => cases hS
    | point a => rfl
    | line pts => rfl
    | poly ext holes =>
      simp only [Spec.Shape.mapPts, Spec.Shape.vertices, List.map_append, List.map_flatten]
  · cases S with
    | rect lo hi => cases hS
    | point a => rfl
    | line pts => exact EQ.edges_map T hT.inj pts false
    | poly ext holes =>
      simp only [Spec.Shape.mapPts, Spec.Shape.edges, List.map_append, List.map_flatten, List.map_map]
      rw [EQ.edges_map T hT.inj]
      congr 2
      apply List.map_congr_left
      intro h _
      simp only [Function.comp, EQ.edges_map T hT.inj]

/-! ### rectangles -/

theorem img_rect_reflX (lo hi : Pt) (hx : lo.x ≤ hi.x) (hy : lo.y ≤ hi.y) :
    ShapeImg Pt.reflX (.rect lo hi) ((Spec.Shape.rect lo hi).mapPts Pt.reflX) := by
  have e : (Spec.Shape.rect lo hi).mapPts Pt.reflX = .rect ⟨-hi.x, lo.y⟩ ⟨-lo.x, hi.y⟩ := by
    simp only [Spec.Shape.mapPts, Pt.reflX]
    rw [min_eq_right (by linarith), max_eq_left (by linarith), min_eq_left hy, max_eq_right hy]
  refine ⟨rfl, member_map shapeSym_reflX _ ⟨hx, hy⟩, ?_, ?_, ?_, ?_⟩
  all_goals rw [e]
  · intro v hv
    simp only [Spec.Shape.vertices, Spec.rectPts, List.mem_cons, List.not_mem_nil, or_false] at hv ⊢
    rcases hv with rfl | rfl | rfl | rfl | rfl
    · exact ⟨⟨hi.x, lo.y⟩, by simp, rfl⟩
    · exact ⟨lo, by simp, rfl⟩
    · exact ⟨⟨lo.x, hi.y⟩, by simp, rfl⟩
    · exact ⟨hi, by simp, rfl⟩
    · exact ⟨⟨hi.x, lo.y⟩, by simp, rfl⟩
  · intro w hw
    simp only [Spec.Shape.vertices, Spec.rectPts, List.mem_cons, List.not_mem_nil, or_false] at hw ⊢
    rcases hw with rfl | rfl | rfl | rfl | rfl <;> simp [Pt.reflX]
  · intro f hf
    simp only [Spec.Shape.edges, rect_edges, List.mem_cons, List.not_mem_nil, or_false] at hf ⊢
    rcases hf with rfl | rfl | rfl | rfl
    · exact ⟨_, Or.inl rfl, Or.inr rfl⟩
    · exact ⟨_, Or.inr (Or.inr (Or.inr rfl)), Or.inr rfl⟩
    · exact ⟨_, Or.inr (Or.inr (Or.inl rfl)), Or.inr rfl⟩
    · exact ⟨_, Or.inr (Or.inl rfl), Or.inr rfl⟩
  · intro f hf
    simp only [Spec.Shape.edges, rect_edges, List.mem_cons, List.not_mem_nil, or_false] at hf ⊢
    rcases hf with rfl | rfl | rfl | rfl <;> simp [Pt.reflX]

theorem img_rect_reflY (lo hi : Pt) (hx : lo.x ≤ hi.x) (hy : lo.y ≤ hi.y) :
    ShapeImg Pt.reflY (.rect lo hi) ((Spec.Shape.rect lo hi).mapPts Pt.reflY) := by
  have e : (Spec.Shape.rect lo hi).mapPts Pt.reflY = .rect ⟨lo.x, -hi.y⟩ ⟨hi.x, -lo.y⟩ := by
    simp only [Spec.Shape.mapPts, Pt.reflY]
    rw [min_eq_left hx, max_eq_right hx, min_eq_right (by linarith), max_eq_left (by linarith)]
  refine ⟨rfl, member_map shapeSym_reflY _ ⟨hx, hy⟩, ?_, ?_, ?_, ?_⟩
  all_goals rw [e]
  · intro v hv
    simp only [Spec.Shape.vertices, Spec.rectPts, List.mem_cons, List.not_mem_nil, or_false] at hv ⊢
    rcases hv with rfl | rfl | rfl | rfl | rfl
    · exact ⟨⟨lo.x, hi.y⟩, by simp, rfl⟩
    · exact ⟨hi, by simp, rfl⟩
    · exact ⟨⟨hi.x, lo.y⟩, by simp, rfl⟩
    · exact ⟨lo, by simp, rfl⟩
    · exact ⟨⟨lo.x, hi.y⟩, by simp, rfl⟩
  · intro w hw
    simp only [Spec.Shape.vertices, Spec.rectPts, List.mem_cons, List.not_mem_nil, or_false] at hw ⊢
    rcases hw with rfl | rfl | rfl | rfl | rfl <;> simp [Pt.reflY]
  · intro f hf
    simp only [Spec.Shape.edges, rect_edges, List.mem_cons, List.not_mem_nil, or_false] at hf ⊢
    rcases hf with rfl | rfl | rfl | rfl
    · exact ⟨_, Or.inr (Or.inr (Or.inl rfl)), Or.inr rfl⟩
    · exact ⟨_, Or.inr (Or.inl rfl), Or.inr rfl⟩
    · exact ⟨_, Or.inl rfl, Or.inr rfl⟩
    · exact ⟨_, Or.inr (Or.inr (Or.inr rfl)), Or.inr rfl⟩
  · intro f hf
    simp only [Spec.Shape.edges, rect_edges, List.mem_cons, List.not_mem_nil, or_false] at hf ⊢
    rcases hf with rfl | rfl | rfl | rfl <;> simp [Pt.reflY]

theorem img_rect_transpose (lo hi : Pt) (hx : lo.x ≤ hi.x) (hy : lo.y ≤ hi.y) :
    ShapeImg Pt.transpose (.rect lo hi) ((Spec.Shape.rect lo hi).mapPts Pt.transpose) := by
  have e : (Spec.Shape.rect lo hi).mapPts Pt.transpose = .rect ⟨lo.y, lo.x⟩ ⟨hi.y, hi.x⟩ := by
    simp only [Spec.Shape.mapPts, Pt.transpose]
    rw [min_eq_left hx, max_eq_right hx, min_eq_left hy, max_eq_right hy]
  refine ⟨rfl, member_map shapeSym_transpose _ ⟨hx, hy⟩, ?_, ?_, ?_, ?_⟩
  all_goals rw [e]
  · intro v hv
    simp only [Spec.Shape.vertices, Spec.rectPts, List.mem_cons, List.not_mem_nil, or_false] at hv ⊢
    rcases hv with rfl | rfl | rfl | rfl | rfl
    · exact ⟨lo, by simp, rfl⟩
    · exact ⟨⟨lo.x, hi.y⟩, by simp, rfl⟩
    · exact ⟨hi, by simp, rfl⟩
    · exact ⟨⟨hi.x, lo.y⟩, by simp, rfl⟩
    · exact ⟨lo, by simp, rfl⟩
  · intro w hw
    simp only [Spec.Shape.vertices, Spec.rectPts, List.mem_cons, List.not_mem_nil, or_false] at hw ⊢
    rcases hw with rfl | rfl | rfl | rfl | rfl <;> simp [Pt.transpose]
  · intro f hf
    simp only [Spec.Shape.edges, rect_edges, List.mem_cons, List.not_mem_nil, or_false] at hf ⊢
    rcases hf with rfl | rfl | rfl | rfl
    · exact ⟨_, Or.inr (Or.inr (Or.inr rfl)), Or.inr rfl⟩
    · exact ⟨_, Or.inr (Or.inr (Or.inl rfl)), Or.inr rfl⟩
    · exact ⟨_, Or.inr (Or.inl rfl), Or.inr rfl⟩
    · exact ⟨_, Or.inl rfl, Or.inr rfl⟩
  · intro f hf
    simp only [Spec.Shape.edges, rect_edges, List.mem_cons, List.not_mem_nil, or_false] at hf ⊢
    rcases hf with rfl | rfl | rfl | rfl <;> simp [Pt.transpose]

/-- every shape with a well-formed rectangle, given the rectangle case -/
theorem img_mapPts {T : Pt → Pt} (hT : ShapeSym T)
    (hrect : ∀ lo hi : Pt, lo.x ≤ hi.x → lo.y ≤ hi.y →
      ShapeImg T (.rect lo hi) ((Spec.Shape.rect lo hi).mapPts T))
    (S : Spec.Shape) (hS : S.rectOK) : ShapeImg T S (S.mapPts T) := by
  cases S with
  | rect lo hi => exact hrect lo hi hS.1 hS.2
  | point a => exact img_nonrect hT _ rfl
  | line pts => exact img_nonrect hT _ rfl
  | poly ext holes => exact img_nonrect hT _ rfl

end Sym
end Geo
