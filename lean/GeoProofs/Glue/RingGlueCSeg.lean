/-
  GeoProofs.Glue.RingGlueCSeg — ringContainsSegment: the translation of the Go source, over the
  model operations, computes the hand model `(Geo.ringContainsSegmentS …).val`.
-/
import GeoProofs.Glue.RingGlueISeg
set_option linter.unusedSimpArgs false

namespace Geo.RGlue
open Geo

@[simp] theorem toRat_fin (q : Rat) : (ENum.fin q).toRat = q := rfl

/-- an any-match search of the generated code is the model's `Ring.searchAny` -/
theorem searchAny_gen {r : Ring} (hr : Exact r) (q : Box) (pred : Seg → Nat → Bool)
    (G : Seg × Int → Bool → Bool × Bool)
    (hG : ∀ (st : Bool) seg (i : Nat), G (seg, (i : Int)) st = if pred seg i then (true, false) else (st, true)) :
    RGen.searchFold G (visits r q) false = r.searchAny q pred := by
  unfold Ring.searchAny
  have := search_eq hr q (fun b : Bool => b)
    (fun (st : Bool) seg i => if pred seg i then (true, false) else (st, true)) G
    (fun s seg i => by rw [hG]; exact ⟨rfl, rfl⟩) false
  exact this

theorem ite_and2 {α : Type} (x y : Bool) (a c : α) :
    (if x = true then (if y = true then a else c) else c) = if (x && y) = true then a else c := by
  cases x <;> cases y <;> rfl

theorem ite_and3 {α : Type} (x y z : Bool) (a c : α) :
    (if x = true then (if (y && z) = true then a else c) else c) = if (x && y && z) = true then a else c := by
  cases x <;> cases y <;> cases z <;> rfl

section proj
variable (f : Ring → Ring → Bool → Bool)
theorem segX_m (s o : Seg) : (mopsR f).segmentIntersectsSegment s o = s.intersects o := rfl
theorem segA_m (s : Seg) : (mopsR f).segmentA s = EPt.ofPt s.a := rfl
theorem segB_m (s : Seg) : (mopsR f).segmentB s = EPt.ofPt s.b := rfl
theorem rayOn_m (s : Seg) (p : Pt) : ((mopsR f).segmentRaycast s (EPt.ofPt p)).on = (s.raycast p).on := rfl
theorem rayIn_m (s : Seg) (p : Pt) : ((mopsR f).segmentRaycast s (EPt.ofPt p)).in_ = (s.raycast p).inn := rfl
theorem segAt_m (r : Ring) (i : Nat) : (mopsR f).ringSegmentAt r (i : Int) = r.segmentAt i := rfl
theorem cw_m (r : Ring) : (mopsR f).ringClockwise r = r.clockwise := rfl
theorem gt_m (c : Rat) : (mopsR f).f64Gt (.fin c) ((mopsR f).f64OfInt 0) = decide (c > 0) := by
  show decide (c > ((0 : Int) : Rat)) = _
  simp
end proj

/-- the step obligation of `searchAny_gen` -/
macro "any_step" : tactic =>
  `(tactic| (intro st seg2 i
             first | rfl | exact ite_and2 _ _ _ _ | exact ite_and3 _ _ _ _ _))

theorem intRange_0_4 : RGen.intRange 0 (5 - 1) = [0, 1, 2, 3] := by decide

/-- the model's winding sum of the quadrilateral A.a, A.b, B.a, B.b -/
def cwcOf (A B : Seg) : Rat :=
  let pts := [A.a, A.b, B.a, B.b, A.a]
  (pts.zip pts.tail).foldl (fun acc (ab : Pt × Pt) => acc + (ab.2.x - ab.1.x) * (ab.2.y + ab.1.y)) (0 : Rat)

/-- the generated winding loop -/
theorem cwc_loop (f : Ring → Ring → Bool → Bool) (A B : Seg) :
    RGen.forRange (σ := ENum) (ρ := Empty) (fun (i : Int) (st' : ENum) =>
      let pts : List EPt := [(mopsR f).segmentA A, (mopsR f).segmentB A, (mopsR f).segmentA B,
        (mopsR f).segmentB B, (mopsR f).segmentA A]
      let cwc : ENum := st'
      let r' : EPt × EPt := (RGen.arrAt pts i, RGen.arrAt pts (i + 1))
      let a : EPt := r'.1
      let b : EPt := r'.2
      let cwc : ENum := (mopsR f).f64Add cwc ((mopsR f).f64Mul ((mopsR f).f64Sub ((mopsR f).pointX b) ((mopsR f).pointX a))
        ((mopsR f).f64Add ((mopsR f).pointY b) ((mopsR f).pointY a)))
      RGen.Flow.next cwc) (RGen.intRange 0 (5 - 1)) ((mopsR f).f64OfInt 0) =
    RGen.Exit.done (.fin (cwcOf A B)) := by
  rw [intRange_0_4]
  simp [RGen.forRange, RGen.arrAt, mopsR, cwcOf]

theorem encIdx_ne (o : Option Nat) : (encIdx o != (-1 : Int)) = o.isSome := by
  cases o with
  | none => rfl
  | some i =>
    simp only [encIdx, Option.isSome_some, bne_iff_ne, ne_eq]
    omega

/-- **ringContainsSegment** -/
theorem ringContainsSegment_gen (f : Ring → Ring → Bool → Bool) {r : Ring} (hr : Exact r) (seg : Seg)
    (b : Bool) :
    RGen.ringContainsSegment (mopsR f) r seg b = (Geo.ringContainsSegmentS r seg b).val := by
  unfold RGen.ringContainsSegment Geo.ringContainsSegmentS
  have hA : (mopsR f).segmentA seg = EPt.ofPt seg.a := rfl
  have hB : (mopsR f).segmentB seg = EPt.ofPt seg.b := rfl
  have hR : ∀ p, (mopsR f).rectContainsPoint ((mopsR f).ringRect r) (EPt.ofPt p) = r.rect.containsPt p :=
    fun _ => rfl
  have hS : (mopsR f).ringSearch r ((mopsR f).segmentRect seg) = visits r seg.box := rfl
  have hV : (mopsR f).ringConvex r = r.convex := rfl
  have hE := pointEq_ofPt f seg.b seg.a
  simp only [hA, hB, hR, hS, hV, hE, ringContainsPoint_gen f hr]
  generalize Geo.ringContainsPoint r seg.a b = resA
  generalize Geo.ringContainsPoint r seg.b b = resB
  obtain ⟨hitA, idxA⟩ := resA
  obtain ⟨hitB, idxB⟩ := resB
  simp only [encIdx_ne]
  by_cases h1 : (!r.rect.containsPt seg.a || !r.rect.containsPt seg.b) = true
  · simp only [h1, ↓reduceIte]
  · simp only [h1, Bool.false_eq_true, ↓reduceIte]
    cases hitA with
    | false => simp
    | true =>
      by_cases h2 : seg.b = seg.a
      · simp [h2]
      · cases hitB with
        | false => simp [h2]
        | true =>
          by_cases h3 : r.convex = true
          · simp [h2, h3]
          · cases b with
            | false =>
              simp only [h2, h3, Bool.not_true, Bool.false_eq_true, ↓reduceIte, decide_false]
              rw [searchAny_gen hr seg.box (fun seg2 _ => seg.intersects seg2)]
              intro st seg2 i
              rfl
            | true =>
              simp only [h2, h3, Bool.not_true, Bool.false_eq_true, ↓reduceIte, decide_false]
              cases idxA with
              | none =>
                cases idxB with
                | none =>
                  simp only [Option.isSome_none, Bool.false_eq_true, ↓reduceIte]
                  rw [searchAny_gen hr seg.box (fun seg2 _ =>
                    seg.intersects seg2 && !(seg.raycast seg2.a).on && !(seg.raycast seg2.b).on)]
                  any_step
                | some ib =>
                  simp only [Option.isSome_none, Option.isSome_some, Bool.false_eq_true, ↓reduceIte]
                  rw [searchAny_gen hr seg.box (fun seg2 _ =>
                    seg.intersects seg2 && !(seg2.raycast seg.b).on)]
                  any_step
              | some ia =>
                cases idxB with
                | none =>
                  simp only [Option.isSome_none, Option.isSome_some, Bool.false_eq_true, ↓reduceIte]
                  rw [searchAny_gen hr seg.box (fun seg2 _ =>
                    seg.intersects seg2 && !(seg2.raycast seg.a).on)]
                  any_step
                | some ib =>
                  simp only [Option.isSome_some, ↓reduceIte, encIdx, segAt_m, segA_m, segB_m, pointEq_ofPt, cw_m]
                  by_cases hab : ib = ia
                  · simp [hab]
                  · have hab' : ((ib : Int) == (ia : Int)) = false := by
                      simp only [beq_eq_false_iff_ne, ne_eq]; omega
                    simp only [hab', hab, Bool.false_eq_true, ↓reduceIte]
                    by_cases hlt : ib < ia
                    · have hlt' : (ib : Int) < (ia : Int) := by omega
                      simp only [hlt', hlt, decide_true, ↓reduceIte]
                      have key := cwc_loop f (r.segmentAt ib) (r.segmentAt ia)
                      simp only [segA_m, segB_m] at key
                      rw [key]
                      simp only []
                      rw [searchAny_gen hr seg.box (fun seg2 _ => seg.intersects seg2 &&
                        !(seg2.raycast seg.a).on && !(seg2.raycast seg.b).on) _ (by any_step)]
                      simp only [gt_m, cwcOf]
                      split_ifs <;> rfl
                    · have hlt' : ¬ ((ib : Int) < (ia : Int)) := by omega
                      simp only [hlt', hlt, decide_false, Bool.false_eq_true, ↓reduceIte]
                      have key := cwc_loop f (r.segmentAt ia) (r.segmentAt ib)
                      simp only [segA_m, segB_m] at key
                      rw [key]
                      simp only []
                      rw [searchAny_gen hr seg.box (fun seg2 _ => seg.intersects seg2 &&
                        !(seg2.raycast seg.a).on && !(seg2.raycast seg.b).on) _ (by any_step)]
                      simp only [gt_m, cwcOf]
                      split_ifs <;> rfl

end Geo.RGlue
