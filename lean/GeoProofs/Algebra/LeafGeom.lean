/-
  GeoProofs.Algebra.LeafGeom — the geometry carried by a leaf object, and the bridge between the
  object-level predicates on pairs of leaves and the 4 × 4 matrix `Geom.contains/intersects`.

  `Obj.geom` forgets everything but the planar geometry: the canonical ordinate texts and the
  `fin` flag of the positions (`Pos.xs/ys/fin`), the Z/M values and foreign members (`Extra`),
  the position lists `poss` / `rings` of LineString / Polygon (used by the writer only) and the
  corner positions `lo`/`hi` of a Rect.  `leaf_intersects_geom` / `leaf_contains_geom` say that
  the predicates on leaves depend on `Obj.geom` only.
-/
import GeoProofs.ObjLemmas
import GeoProofs.SeriesSearch
import GeoProofs.GeomLemmas

namespace Geo
open Obj

/-- the planar geometry of a leaf (anything else: a dummy point) -/
def Obj.geom : Obj → Geom
  | .point pos _ => .point pos.p
  | .spoint pos => .point pos.p
  | .lineString l _ _ => .line l
  | .polygon p _ _ => .poly p
  | .rectO b _ _ => .rect b
  | _ => .point ⟨0, 0⟩

def Geom.bbox : Geom → Box
  | .point p => p.box
  | .rect r => r
  | .line l => l.rect
  | .poly p => p.rect

def Geom.isEmpty : Geom → Bool
  | .point _ => false
  | .rect _ => false
  | .line l => l.empty
  | .poly p => p.empty

theorem leaf_rect_geom (a : Obj) (ha : a.isLeaf = true) : a.rect = a.geom.bbox := by
  cases a <;> simp_all [Obj.isLeaf, Obj.rect, Obj.geom, Geom.bbox]

theorem leaf_empty_geom (a : Obj) (ha : a.isLeaf = true) : a.empty = a.geom.isEmpty := by
  cases a <;> simp_all [Obj.isLeaf, Obj.empty, Obj.geom, Geom.isEmpty]

/-- `a.Intersects(b)` on leaves is the matrix entry with the roles as dispatched: the ARGUMENT's
    method runs (`b.intersectsPoint a`, …) -/
theorem leaf_intersects_geom (a b : Obj) (ha : a.isLeaf = true) (hb : b.isLeaf = true) :
    a.intersects b = b.geom.intersects a.geom := by
  cases a <;> simp only [Obj.isLeaf, Bool.false_eq_true] at ha <;>
    cases b <;> simp only [Obj.isLeaf, Bool.false_eq_true] at hb <;>
    simp only [Obj.intersects, Obj.intersectsPoint, Obj.intersectsLine, Obj.intersectsPoly,
      Obj.intersectsRect, Obj.geom, Geom.intersects] <;> rfl

/-- `a.Contains(b)` on leaves is the matrix entry `a ∋ b` -/
theorem leaf_contains_geom (a b : Obj) (ha : a.isLeaf = true) (hb : b.isLeaf = true) :
    a.contains b = a.geom.contains b.geom := by
  cases a <;> simp only [Obj.isLeaf, Bool.false_eq_true] at ha <;>
    cases b <;> simp only [Obj.isLeaf, Bool.false_eq_true] at hb <;>
    simp only [Obj.contains, Obj.withinPoint, Obj.withinLine, Obj.withinPoly,
      Obj.withinRect, Obj.geom, Geom.contains]

end Geo
