/-
  GeoProofs.Float.KernelF — `Segment.Raycast` (geometry/raycast.go) and
  `Segment.IntersectsSegment` (geometry/segment.go) with every arithmetic operation performed
  in binary64: `fsub`/`fmul`/`fdiv` are the correctly rounded operations of `Ops.lean`.

  Finite doubles are represented by their rational value (`Geo.Pt` with `Rat` fields read as
  doubles).  Comparisons of finite doubles are comparisons of their values, so the stages of
  `Raycast` that contain no arithmetic (`rcRange`, `rcHoriz`, `rcVert`: y-range pre-test,
  horizontal block, vertical block) and the bounding-box cascade of `IntersectsSegment`
  (`axisReject`) are literally those of `GeoModel/Kernel.lean` and are reused.
  Quotients may be NaN/±Inf: they live in `Geo.FQ`.  Every divisor in the two functions is
  either a difference `x - y` (which is +0 when zero, in round-to-nearest) or `rxs` guarded by
  `eqZero`, so the sign of a zero divisor is always `+`, as `fdivF` assumes.
-/
import GeoModel.Kernel
import GeoProofs.Float.Quot

namespace Geo.F
open Geo

/-- IEEE division `n / d` of finite doubles, `d` possibly (+)0 -/
def fdivF (n d : ℚ) : FQ :=
  if d = 0 then
    if n = 0 then .nan else if 0 < n then .pinf else .ninf
  else .fin (fdiv n d)

/-- `for y == ay || y == by { y = Nextafter(y, +Inf) }`, with fuel -/
def nudge : ℕ → ℚ → ℚ → ℚ → ℚ
  | 0, y, _, _ => y
  | n + 1, y, ay, by' => if y = ay ∨ y = by' then nudge n (nextUp y) ay by' else y

/-- `(p.X-a.X)/(b.X-a.X) == (p.Y-a.Y)/(b.Y-a.Y)` -/
def rcSlopeEqF (a b p : Pt) : Option RayRes :=
  if (fdivF (fsub p.x a.x) (fsub b.x a.x)).feq (fdivF (fsub p.y a.y) (fsub b.y a.y)) then
    some ⟨false, true, 9⟩
  else none

/-- the cast proper, from the `Nextafter` loop to the end of `Raycast` -/
def rcCastF (fuel : ℕ) (a b p : Pt) : RayRes :=
  let py := nudge fuel p.y a.y b.y
  let rangeOut : Bool :=
    if a.y < b.y then decide (py < a.y) || decide (py > b.y)
    else decide (py < b.y) || decide (py > a.y)
  if rangeOut then ⟨false, false, 10⟩
  else
    let xres : Option RayRes :=
      if a.x > b.x then
        if p.x ≥ a.x then some ⟨false, false, 11⟩
        else if p.x ≤ b.x then some ⟨true, false, 12⟩
        else none
      else
        if p.x ≥ b.x then some ⟨false, false, 13⟩
        else if p.x ≤ a.x then some ⟨true, false, 14⟩
        else none
    match xres with
    | some r => r
    | none =>
      if a.y < b.y then
        if (fdivF (fsub py a.y) (fsub p.x a.x)).fge (fdivF (fsub b.y a.y) (fsub b.x a.x)) then
          ⟨true, false, 15⟩
        else ⟨false, false, 17⟩
      else
        if (fdivF (fsub py b.y) (fsub p.x b.x)).fge (fdivF (fsub a.y b.y) (fsub a.x b.x)) then
          ⟨true, false, 16⟩
        else ⟨false, false, 17⟩

/-- `Segment.Raycast` in binary64 (loop fuel explicit; `raycastF` uses 2) -/
def raycastFuel (fuel : ℕ) (a b p : Pt) : RayRes :=
  match rcRange a b p with
  | some r => r
  | none =>
    match rcHoriz a b p with
    | some r => r
    | none =>
      match rcVert a b p with
      | some r => r
      | none =>
        match rcSlopeEqF a b p with
        | some r => r
        | none => rcCastF fuel a b p

def raycastF (a b p : Pt) : RayRes := raycastFuel 2 a b p

/-- Go's `eqZero(x) = !(x < 0 || x > 0)` -/
def eqZeroF (x : ℚ) : Bool := !(decide (x < 0) || decide (x > 0))

/-- `Segment.IntersectsSegment` in binary64 -/
def segIntersectsF (s o : Seg) : BoolSite :=
  let a := s.a; let b := s.b; let c := o.a; let d := o.b
  if axisReject a.y b.y c.y d.y then ⟨false, 1⟩
  else if axisReject a.x b.x c.x d.x then ⟨false, 2⟩
  else if a = c || a = d || b = c || b = d then ⟨true, 3⟩
  else
    let cmpx := fsub c.x a.x; let cmpy := fsub c.y a.y
    let rx := fsub b.x a.x; let ry := fsub b.y a.y
    let cmpxr := fsub (fmul cmpx ry) (fmul cmpy rx)
    if eqZeroF cmpxr then
      if !(((decide (fsub c.x a.x ≤ 0)) != (decide (fsub c.x b.x ≤ 0))) ||
           ((decide (fsub c.y a.y ≤ 0)) != (decide (fsub c.y b.y ≤ 0)))) then
        ⟨(raycastF a b c).on || (raycastF a b d).on || (raycastF c d a).on, 4⟩
      else ⟨true, 5⟩
    else
      let sx := fsub d.x c.x; let sy := fsub d.y c.y
      let cmpxs := fsub (fmul cmpx sy) (fmul cmpy sx)
      let rxs := fsub (fmul rx sy) (fmul ry sx)
      if eqZeroF rxs then ⟨false, 6⟩
      else
        let rxsr := fdiv 1 rxs
        let t := fmul cmpxs rxsr
        let u := fmul cmpxr rxsr
        if !(decide (t ≥ 0) && decide (t ≤ 1) && decide (u ≥ 0) && decide (u ≤ 1)) then ⟨false, 7⟩
        else ⟨true, 8⟩

/-- coordinates in the regime E -/
def PtE (p : Pt) : Prop := InE p.x ∧ InE p.y

end Geo.F
