package main

// collection: translates the methods of `*collection` of the root package of <repo> (collection.go,
// shared by MultiPoint, MultiLineString, MultiPolygon, GeometryCollection, FeatureCollection) into
// a Lean file (namespace Geo.CGen, core Lean only).  Not translated here (covered by the parsers /
// writers translators): parseInitRectIndex, AppendJSON, JSON, MarshalJSON, String.
//
// The translation is purely syntactic (go/parser + go/ast with a small local type inference) and
// deterministic.  The generated definitions are PARAMETRISED by `ops : Ops …`: one type parameter
// per Go type met in the source and one field per distinct callee / field read found in the source
// that is not itself translated here (interface methods called on children and arguments, methods
// of package geometry, the search of the child R-tree, …).  See clHeader for the conventions.
//
// Whatever is not recognised is emitted as `opaque <name>_unrecognised : Unit` preceded by the
// reason; a function that calls an unrecognised function is unrecognised itself.

import (
	"bytes"
	"fmt"
	"go/ast"
	"go/parser"
	"go/printer"
	"go/token"
	"os"
	"path/filepath"
	"sort"
	"strings"
)

func init() { translators["collection"] = translateCollection }

var clSkip = map[string]bool{"parseInitRectIndex": true, "AppendJSON": true, "JSON": true,
	"MarshalJSON": true, "String": true}

const clRecv = "collection"

// ---------------------------------------------------------------------------------------------
// types of the subset

type clKind int

const (
	clBad    clKind = iota
	clBool          // bool
	clInt           // int, byte, … -> Int (unbounded)
	clFloat         // float64 -> F
	clString        // string
	clNamed         // named struct / interface type -> a type parameter
	clList          // []T, [n]T -> List T
	clAny           // interface{} -> Any
	clFnT           // func(…) bool: an iterator
	clSigma         // the state threaded through an iterator parameter
	clUnit          // no value
	clTuple         // several values
	clNil           // the literal nil
)

type clTy struct {
	k     clKind
	pkg   string // clNamed: "" = root package, "geometry", or the name of an external package
	name  string
	ptr   bool // declared *T
	opt   bool // a nilable value not known to be non-nil -> Option
	iface bool
	n     int // clList: the length of an array type, -1 for a slice
	elem  []clTy
	res   *clTy // clFunc: the result, nil when there is none
}

func clUpper(s string) string {
	if s == "" {
		return s
	}
	return strings.ToUpper(s[:1]) + s[1:]
}

func clLower(s string) string {
	if s == "" {
		return s
	}
	return strings.ToLower(s[:1]) + s[1:]
}

// param: the Lean type parameter standing for a named Go type.
func (t clTy) param() string {
	switch t.pkg {
	case "":
		return "T" + clUpper(t.name)
	case "geometry":
		return "G" + clUpper(t.name)
	}
	return "X" + clUpper(t.name)
}

// prefix: the prefix of the Ops fields about a named Go type.
func (t clTy) prefix() string {
	switch t.pkg {
	case "":
		if t.name == "Object" {
			return "obj"
		}
		return clLower(t.name)
	case "geometry":
		return "g" + clUpper(t.name)
	}
	return clLower(t.name)
}

func clAtomTy(s string) string {
	if strings.Contains(s, " ") {
		return "(" + s + ")"
	}
	return s
}

func (t clTy) lean() string {
	switch t.k {
	case clBool:
		return "Bool"
	case clInt:
		return "Int"
	case clFloat:
		return "F"
	case clString:
		return "String"
	case clAny:
		return "Any"
	case clSigma:
		return "σ"
	case clUnit:
		return "Unit"
	case clNamed:
		if t.opt {
			return "Option " + t.param()
		}
		return t.param()
	case clList:
		return "List " + clAtomTy(t.elem[0].lean())
	case clTuple:
		var parts []string
		for _, e := range t.elem {
			parts = append(parts, clAtomTy(e.lean()))
		}
		return strings.Join(parts, " × ")
	case clFnT:
		return clAtomTy(clTupleTy(t.elem).lean()) + " → σ → σ × Bool"
	}
	return "?"
}

func (t clTy) goName() string {
	switch t.k {
	case clNamed:
		s := t.name
		if t.pkg != "" {
			s = t.pkg + "." + s
		}
		if t.ptr {
			s = "*" + s
		}
		return s
	case clList:
		if t.n >= 0 {
			return fmt.Sprintf("[%d]%s", t.n, t.elem[0].goName())
		}
		return "[]" + t.elem[0].goName()
	case clFnT:
		return "func(" + clTupleTy(t.elem).goName() + ") bool"
	case clTuple:
		var parts []string
		for _, e := range t.elem {
			parts = append(parts, e.goName())
		}
		return strings.Join(parts, ", ")
	}
	return map[clKind]string{clBool: "bool", clInt: "int", clFloat: "float64", clString: "string",
		clAny: "interface{}", clSigma: "σ", clUnit: "()", clNil: "nil"}[t.k]
}

func (t clTy) same(u clTy) bool {
	return t.k == u.k && t.goName() == u.goName() && t.opt == u.opt
}

func clTupleTy(ts []clTy) clTy {
	switch len(ts) {
	case 0:
		return clTy{k: clUnit}
	case 1:
		return ts[0]
	}
	return clTy{k: clTuple, elem: ts}
}

// clProj: component i of n of the tuple v.
func clProj(v string, i, n int) string {
	if n == 1 {
		return v
	}
	s := v
	for j := 0; j < i; j++ {
		s += ".2"
	}
	if i < n-1 {
		s += ".1"
	}
	return s
}

func clTupleStr(parts []string) string {
	switch len(parts) {
	case 0:
		return "()"
	case 1:
		return parts[0]
	}
	return "(" + strings.Join(parts, ", ") + ")"
}

func clIndent(lines []string) []string {
	out := make([]string, len(lines))
	for i, l := range lines {
		out[i] = "  " + l
	}
	return out
}

func clBalanced(s string) bool {
	d := 0
	for _, c := range s {
		switch c {
		case '(', '[':
			d++
		case ')', ']':
			if d--; d < 0 {
				return false
			}
		}
	}
	return d == 0
}

func clAtom(s string) string {
	if !strings.ContainsAny(s, " ") {
		return s
	}
	if (strings.HasPrefix(s, "(") && strings.HasSuffix(s, ")") || strings.HasPrefix(s, "[") && strings.HasSuffix(s, "]")) &&
		clBalanced(s[1:len(s)-1]) {
		return s
	}
	return "(" + s + ")"
}

var clReserved = map[string]bool{"in": true, "end": true, "from": true, "at": true, "open": true,
	"fun": true, "have": true, "show": true, "then": true, "do": true, "let": true, "rec": true,
	"match": true, "with": true, "where": true, "if": true, "else": true, "def": true, "ops": true,
	"instance": true, "structure": true, "namespace": true, "section": true, "variable": true,
	"theorem": true, "by": true, "iterate": true, "forRange": true, "sliceAt": true, "Type": true}

func clName(goName string) string {
	if clReserved[goName] || strings.HasSuffix(goName, "'") {
		return goName + "_"
	}
	return goName
}

// ---------------------------------------------------------------------------------------------
// the source

type clOp struct {
	name    string
	params  []clTy
	result  string // Lean type
	comment string
}

func (o *clOp) leanType() string {
	var parts []string
	for _, p := range o.params {
		parts = append(parts, clAtomTy(p.lean()))
	}
	parts = append(parts, o.result)
	return strings.Join(parts, " → ")
}

type clFunc struct {
	name   string // Go method name
	lean   string // collection<Name>
	decl   *ast.FuncDecl
	recv   string // name of the receiver variable
	params []clVar
	iter   int    // index of the iterator parameter, -1 when there is none
	res    []clTy // Go results
	state  int    // 0 = not yet translated, 1 = in progress, 2 = done
	lines  []string
	reason string // why the function is outside the subset ("" = translated)
	inhab  map[string]bool
	recOf  bool // called recursively (a rec_ field exists)
}

type clPkg struct {
	fset    *token.FileSet
	repo    string
	types   map[string]map[string]*ast.TypeSpec // package -> type name -> spec
	funcs   map[string]map[string]*ast.FuncDecl // package -> function
	methods map[string]map[string]*ast.FuncDecl // package -> "T.M"
	imports map[string]string                   // local import name -> package key (file of the receiver)
	ops     map[string]*clOp
	tparams map[string]string // Lean type parameter -> what it stands for
	fns     map[string]*clFunc
	order   []*clFunc // emission order (callees first)
	srcOrd  []*clFunc
}

func (p *clPkg) parseDir(key, dir string) error {
	pkgs, err := parser.ParseDir(p.fset, dir, func(fi os.FileInfo) bool {
		return !strings.HasSuffix(fi.Name(), "_test.go")
	}, parser.ParseComments)
	if err != nil {
		return err
	}
	p.types[key] = map[string]*ast.TypeSpec{}
	p.funcs[key] = map[string]*ast.FuncDecl{}
	p.methods[key] = map[string]*ast.FuncDecl{}
	var names []string
	for n := range pkgs {
		names = append(names, n)
	}
	sort.Strings(names)
	for _, n := range names {
		var fnames []string
		for f := range pkgs[n].Files {
			fnames = append(fnames, f)
		}
		sort.Strings(fnames)
		for _, fname := range fnames {
			for _, d := range pkgs[n].Files[fname].Decls {
				switch d := d.(type) {
				case *ast.GenDecl:
					for _, s := range d.Specs {
						if ts, ok := s.(*ast.TypeSpec); ok {
							p.types[key][ts.Name.Name] = ts
						}
					}
				case *ast.FuncDecl:
					if d.Recv == nil {
						p.funcs[key][d.Name.Name] = d
					} else if len(d.Recv.List) == 1 {
						p.methods[key][clRecvName(d.Recv.List[0].Type)+"."+d.Name.Name] = d
						if key == "" && clRecvName(d.Recv.List[0].Type) == clRecv {
							for _, im := range pkgs[n].Files[fname].Imports {
								path := strings.Trim(im.Path.Value, `"`)
								local := filepath.Base(path)
								if im.Name != nil {
									local = im.Name.Name
								}
								k := filepath.Base(path)
								if path == "github.com/tidwall/geojson/geometry" {
									k = "geometry"
								}
								p.imports[local] = k
							}
						}
					}
				}
			}
		}
	}
	return nil
}

func clRecvName(e ast.Expr) string {
	switch e := e.(type) {
	case *ast.StarExpr:
		return clRecvName(e.X)
	case *ast.Ident:
		return e.Name
	}
	return ""
}

func (p *clPkg) pos(n ast.Node) string {
	ps := p.fset.Position(n.Pos())
	rel, err := filepath.Rel(p.repo, ps.Filename)
	if err != nil {
		rel = ps.Filename
	}
	return fmt.Sprintf("%s:%d", filepath.ToSlash(rel), ps.Line)
}

func (p *clPkg) text(n ast.Node) string {
	var b bytes.Buffer
	printer.Fprint(&b, p.fset, n)
	return strings.Join(strings.Fields(b.String()), " ")
}

// sigText: the declaration without its body.
func (p *clPkg) sigText(d *ast.FuncDecl) string {
	c := *d
	c.Body = nil
	c.Doc = nil
	return p.text(&c)
}

func (p *clPkg) useOp(name string, params []clTy, result, comment string) error {
	o := &clOp{name: name, params: params, result: result, comment: comment}
	if old, ok := p.ops[name]; ok {
		if old.leanType() != o.leanType() {
			return fmt.Errorf("the callee %s is used at two types (%s, %s)", name, old.leanType(), o.leanType())
		}
		return nil
	}
	p.ops[name] = o
	return nil
}

func (p *clPkg) useType(t clTy) {
	switch t.k {
	case clNamed:
		what := "the Go type " + t.goName()
		if t.ptr {
			what += " (a non-nil pointer unless it is read from a struct field, where it is an Option)"
		}
		if t.iface {
			what += " (an interface)"
		}
		p.tparams[t.param()] = what
	case clFloat:
		p.tparams["F"] = "float64"
	case clAny:
		p.tparams["Any"] = "interface{}"
	}
	for _, e := range t.elem {
		p.useType(e)
	}
}

// parseType: the type of the subset written e (in the file of the receiver).
func (p *clPkg) parseType(e ast.Expr, pkg string) (clTy, bool) {
	switch e := e.(type) {
	case *ast.ParenExpr:
		return p.parseType(e.X, pkg)
	case *ast.Ident:
		switch e.Name {
		case "bool":
			return clTy{k: clBool}, true
		case "int", "byte", "int64", "uint8", "int32", "uint", "uint64":
			return clTy{k: clInt}, true
		case "float64":
			return clTy{k: clFloat}, true
		case "string":
			return clTy{k: clString}, true
		}
		if ts, ok := p.types[pkg][e.Name]; ok {
			_, isI := ts.Type.(*ast.InterfaceType)
			_, isS := ts.Type.(*ast.StructType)
			if isI || isS {
				return clTy{k: clNamed, pkg: pkg, name: e.Name, iface: isI}, true
			}
			return p.parseType(ts.Type, pkg)
		}
		return clTy{}, false
	case *ast.StarExpr:
		t, ok := p.parseType(e.X, pkg)
		if !ok || t.k != clNamed || t.ptr || t.iface {
			return clTy{}, false
		}
		t.ptr = true
		return t, true
	case *ast.SelectorExpr:
		x, ok := e.X.(*ast.Ident)
		if !ok || pkg != "" {
			return clTy{}, false
		}
		k, ok := p.imports[x.Name]
		if !ok {
			return clTy{}, false
		}
		if _, known := p.types[k]; known {
			return p.parseType(e.Sel, k)
		}
		return clTy{k: clNamed, pkg: k, name: e.Sel.Name}, true
	case *ast.ArrayType:
		el, ok := p.parseType(e.Elt, pkg)
		if !ok {
			return clTy{}, false
		}
		n := -1
		if e.Len != nil {
			lit, ok := e.Len.(*ast.BasicLit)
			if !ok || lit.Kind != token.INT {
				return clTy{}, false
			}
			fmt.Sscanf(lit.Value, "%d", &n)
		}
		return clTy{k: clList, n: n, elem: []clTy{el}}, true
	case *ast.InterfaceType:
		if e.Methods == nil || len(e.Methods.List) == 0 {
			return clTy{k: clAny}, true
		}
	case *ast.FuncType:
		var ps []clTy
		if e.Params != nil {
			for _, f := range e.Params.List {
				t, ok := p.parseType(f.Type, pkg)
				if !ok || t.k == clFnT {
					return clTy{}, false
				}
				k := len(f.Names)
				if k == 0 {
					k = 1
				}
				for i := 0; i < k; i++ {
					ps = append(ps, t)
				}
			}
		}
		if e.Results == nil || len(e.Results.List) != 1 || len(e.Results.List[0].Names) > 1 {
			return clTy{}, false
		}
		r, ok := p.parseType(e.Results.List[0].Type, pkg)
		if !ok || r.k != clBool {
			return clTy{}, false
		}
		return clTy{k: clFnT, elem: ps, res: &r}, true
	}
	return clTy{}, false
}

// method: the signature of method m of the named type t (through embedded fields / interfaces).
func (p *clPkg) method(t clTy, m string) (*ast.FuncType, ast.Node, bool) {
	ts, ok := p.types[t.pkg][t.name]
	if !ok {
		return nil, nil, false
	}
	if d, ok := p.methods[t.pkg][t.name+"."+m]; ok {
		return d.Type, d, true
	}
	switch ty := ts.Type.(type) {
	case *ast.InterfaceType:
		for _, f := range ty.Methods.List {
			if len(f.Names) == 0 {
				if et, ok := p.parseType(f.Type, t.pkg); ok && et.k == clNamed {
					if ft, n, ok := p.method(et, m); ok {
						return ft, n, true
					}
				}
				continue
			}
			for _, n := range f.Names {
				if ft, ok := f.Type.(*ast.FuncType); ok && n.Name == m {
					return ft, f, true
				}
			}
		}
	case *ast.StructType:
		for _, f := range ty.Fields.List {
			if len(f.Names) == 0 {
				if et, ok := p.parseType(f.Type, t.pkg); ok && et.k == clNamed {
					if ft, n, ok := p.method(et, m); ok {
						return ft, n, true
					}
				}
			}
		}
	}
	return nil, nil, false
}

// field: the declared type of field f of the named struct type t.
func (p *clPkg) field(t clTy, f string) (clTy, ast.Node, bool) {
	ts, ok := p.types[t.pkg][t.name]
	if !ok {
		return clTy{}, nil, false
	}
	st, ok := ts.Type.(*ast.StructType)
	if !ok {
		return clTy{}, nil, false
	}
	for _, fl := range st.Fields.List {
		for _, n := range fl.Names {
			if n.Name == f {
				ft, ok := p.parseType(fl.Type, t.pkg)
				if ok && t.pkg != "" && ft.k == clNamed && ft.pkg == "" {
					ft.pkg = t.pkg
				}
				return ft, fl, ok
			}
		}
	}
	for _, fl := range st.Fields.List {
		if len(fl.Names) == 0 {
			if et, ok := p.parseType(fl.Type, t.pkg); ok && et.k == clNamed {
				if ft, n, ok := p.field(et, f); ok {
					return ft, n, true
				}
			}
		}
	}
	return clTy{}, nil, false
}

// sig: parameter and result types of a declared signature (of package pkg).
func (p *clPkg) sig(ft *ast.FuncType, pkg string) (params []clTy, res []clTy, err error) {
	if ft.Params != nil {
		for _, f := range ft.Params.List {
			t, ok := p.parseType(f.Type, pkg)
			if !ok {
				return nil, nil, fmt.Errorf("parameter type %s outside the subset", p.text(f.Type))
			}
			k := len(f.Names)
			if k == 0 {
				k = 1
			}
			for i := 0; i < k; i++ {
				params = append(params, t)
			}
		}
	}
	if ft.Results != nil {
		for _, f := range ft.Results.List {
			t, ok := p.parseType(f.Type, pkg)
			if !ok || t.k == clFnT {
				return nil, nil, fmt.Errorf("result type %s outside the subset", p.text(f.Type))
			}
			k := len(f.Names)
			if k == 0 {
				k = 1
			}
			for i := 0; i < k; i++ {
				res = append(res, t)
			}
		}
	}
	for i, t := range params {
		if t.k == clFnT && i != len(params)-1 {
			return nil, nil, fmt.Errorf("a function parameter that is not the last parameter")
		}
	}
	return params, res, nil
}

// ---------------------------------------------------------------------------------------------
// environments

type clVar struct {
	goName string
	lean   string
	ty     clTy
	ord    int
}

const clItVar = "·it" // the pseudo-variable holding the state of the iterator parameter

type clEnv struct {
	vars   map[string]clVar
	n      int
	nonnil map[string]string // text of a nilable Go expression -> the variable bound to its value
}

func (e *clEnv) copy() *clEnv {
	c := &clEnv{vars: map[string]clVar{}, n: e.n, nonnil: map[string]string{}}
	for k, v := range e.vars {
		c.vars[k] = v
	}
	for k, v := range e.nonnil {
		c.nonnil[k] = v
	}
	return c
}

func (e *clEnv) add(goName string, ty clTy) clVar {
	v := clVar{goName: goName, lean: clName(goName), ty: ty, ord: e.n}
	if goName == clItVar {
		v.lean = "it'"
	}
	e.n++
	e.vars[goName] = v
	return v
}

type clTr struct {
	p  *clPkg
	fn *clFunc
	n  int
}

func (t *clTr) errf(n ast.Node, format string, args ...interface{}) error {
	return fmt.Errorf("%s: %s", t.p.pos(n), fmt.Sprintf(format, args...))
}

type clExpr struct {
	s       string
	ty      clTy
	untyped bool // an untyped integer constant
}

func (t *clTr) coerce(n ast.Node, v clExpr, want clTy) (clExpr, error) {
	if v.ty.same(want) {
		return v, nil
	}
	if v.untyped && want.k == clFloat {
		t.p.useType(want)
		if err := t.p.useOp("fOfInt", []clTy{{k: clInt}}, "F", "the conversion of an untyped integer constant to float64"); err != nil {
			return v, err
		}
		return clExpr{s: "ops.fOfInt " + clAtom(v.s), ty: want}, nil
	}
	if v.ty.k == clNamed && !v.ty.opt && want.k == clNamed && want.iface && !want.opt && !v.ty.iface {
		name := want.prefix() + "Of" + clUpper(v.ty.name)
		t.p.useType(want)
		t.p.useType(v.ty)
		if err := t.p.useOp(name, []clTy{v.ty}, want.lean(),
			"the implicit conversion of a "+v.ty.goName()+" to the interface "+want.goName()); err != nil {
			return v, err
		}
		return clExpr{s: "ops." + name + " " + clAtom(v.s), ty: want}, nil
	}
	return v, t.errf(n, "a %s where a %s is expected", v.ty.goName(), want.goName())
}

func (t *clTr) boolExpr(e ast.Expr, env *clEnv) (clExpr, error) {
	v, err := t.expr(e, env)
	if err != nil {
		return v, err
	}
	if v.ty.k != clBool {
		return v, t.errf(e, "a %s where a bool is expected", v.ty.goName())
	}
	return v, nil
}

// ---------------------------------------------------------------------------------------------
// expressions (pure ones: a call that runs an iterator is a statement, see hoist)

func (t *clTr) expr(e ast.Expr, env *clEnv) (clExpr, error) {
	switch e := e.(type) {
	case *ast.ParenExpr:
		return t.expr(e.X, env)
	case *ast.Ident:
		switch e.Name {
		case "true", "false":
			return clExpr{s: e.Name, ty: clTy{k: clBool}}, nil
		case "nil":
			return clExpr{s: "nil", ty: clTy{k: clNil}}, nil
		}
		if v, ok := env.vars[e.Name]; ok {
			if v.ty.k == clFnT {
				return clExpr{}, t.errf(e, "the function value %s used as a value", e.Name)
			}
			return clExpr{s: v.lean, ty: v.ty}, nil
		}
		return clExpr{}, t.errf(e, "identifier %s outside the subset", e.Name)
	case *ast.BasicLit:
		switch e.Kind {
		case token.INT:
			var n int64
			if _, err := fmt.Sscanf(e.Value, "%d", &n); err != nil || fmt.Sprint(n) != e.Value {
				return clExpr{}, t.errf(e, "integer literal %s outside the subset", e.Value)
			}
			return clExpr{s: e.Value, ty: clTy{k: clInt}, untyped: true}, nil
		case token.STRING:
			if strings.HasPrefix(e.Value, `"`) && !strings.ContainsAny(e.Value, `\`) {
				return clExpr{s: e.Value, ty: clTy{k: clString}}, nil
			}
		}
		return clExpr{}, t.errf(e, "literal %s outside the subset", e.Value)
	case *ast.UnaryExpr:
		x, err := t.expr(e.X, env)
		if err != nil {
			return x, err
		}
		switch {
		case e.Op == token.NOT && x.ty.k == clBool:
			return clExpr{s: "!" + clAtom(x.s), ty: x.ty}, nil
		case e.Op == token.SUB && x.ty.k == clInt:
			return clExpr{s: "-" + clAtom(x.s), ty: x.ty, untyped: x.untyped}, nil
		}
		return clExpr{}, t.errf(e, "unary %s on a %s outside the subset", e.Op, x.ty.goName())
	case *ast.BinaryExpr:
		return t.binary(e, env)
	case *ast.SelectorExpr:
		return t.fieldRead(e, env)
	case *ast.CallExpr:
		if t.effectful(e, env) {
			return clExpr{}, t.errf(e, "a call that runs an iterator inside an expression")
		}
		return t.call(e, env)
	case *ast.IndexExpr:
		x, err := t.expr(e.X, env)
		if err != nil {
			return x, err
		}
		i, err := t.expr(e.Index, env)
		if err != nil {
			return i, err
		}
		if x.ty.k != clList || i.ty.k != clInt {
			return clExpr{}, t.errf(e, "index expression outside the subset")
		}
		t.fn.inhab[x.ty.elem[0].lean()] = true
		return clExpr{s: "sliceAt " + clAtom(x.s) + " " + clAtom(i.s), ty: x.ty.elem[0]}, nil
	case *ast.CompositeLit:
		ty, ok := t.p.parseType(e.Type, "")
		if !ok || ty.k != clList {
			return clExpr{}, t.errf(e, "composite literal outside the subset")
		}
		var parts []string
		for _, el := range e.Elts {
			if _, kv := el.(*ast.KeyValueExpr); kv {
				return clExpr{}, t.errf(e, "keyed composite literal outside the subset")
			}
			v, err := t.expr(el, env)
			if err != nil {
				return v, err
			}
			if v, err = t.coerce(el, v, ty.elem[0]); err != nil {
				return v, err
			}
			parts = append(parts, v.s)
		}
		if ty.n >= 0 && len(parts) != ty.n {
			return clExpr{}, t.errf(e, "array literal that does not list all its elements")
		}
		t.p.useType(ty)
		return clExpr{s: "[" + strings.Join(parts, ", ") + "]", ty: ty}, nil
	case *ast.TypeAssertExpr:
		x, err := t.expr(e.X, env)
		if err != nil {
			return x, err
		}
		if e.Type == nil {
			return clExpr{}, t.errf(e, "type switch outside the subset")
		}
		want, ok := t.p.parseType(e.Type, "")
		if !ok || want.k != clNamed || (x.ty.k != clAny && !(x.ty.k == clNamed && x.ty.iface && !x.ty.opt)) {
			return clExpr{}, t.errf(e, "type assertion outside the subset")
		}
		src := "any"
		if x.ty.k == clNamed {
			src = x.ty.prefix()
		}
		name := src + "As" + clUpper(want.prefix())
		t.p.useType(want)
		t.p.useType(x.ty)
		if err := t.p.useOp(name, []clTy{x.ty}, want.lean(), "the type assertion `"+t.p.text(e)+
			"` (x.("+want.goName()+") on a "+x.ty.goName()+"); a failed assertion panics in Go: the value is taken to have that dynamic type"); err != nil {
			return clExpr{}, err
		}
		return clExpr{s: "ops." + name + " " + clAtom(x.s), ty: want}, nil
	}
	return clExpr{}, t.errf(e, "expression outside the subset (%T)", e)
}

func (t *clTr) binary(e *ast.BinaryExpr, env *clEnv) (clExpr, error) {
	x, err := t.expr(e.X, env)
	if err != nil {
		return x, err
	}
	y, err := t.expr(e.Y, env)
	if err != nil {
		return y, err
	}
	b := clTy{k: clBool}
	// nil tests
	if x.ty.k == clNil || y.ty.k == clNil {
		v := x
		if x.ty.k == clNil {
			v = y
		}
		if v.ty.k != clNamed || !v.ty.opt || (e.Op != token.EQL && e.Op != token.NEQ) {
			return clExpr{}, t.errf(e, "comparison with nil outside the subset")
		}
		if e.Op == token.NEQ {
			return clExpr{s: "Option.isSome " + clAtom(v.s), ty: b}, nil
		}
		return clExpr{s: "Option.isNone " + clAtom(v.s), ty: b}, nil
	}
	if x.untyped && !y.untyped {
		if x, err = t.coerce(e.X, x, y.ty); err != nil {
			return x, err
		}
	} else if y.untyped && !x.untyped {
		if y, err = t.coerce(e.Y, y, x.ty); err != nil {
			return y, err
		}
	}
	if !x.ty.same(y.ty) || x.ty.opt {
		return clExpr{}, t.errf(e, "operator %s on a %s and a %s outside the subset", e.Op, x.ty.goName(), y.ty.goName())
	}
	bin := func(op string, ty clTy) (clExpr, error) {
		return clExpr{s: clAtom(x.s) + " " + op + " " + clAtom(y.s), ty: ty, untyped: x.untyped && y.untyped && ty.k == clInt}, nil
	}
	switch x.ty.k {
	case clBool:
		switch e.Op {
		case token.LAND:
			return bin("&&", b)
		case token.LOR:
			return bin("||", b)
		case token.EQL:
			return bin("==", b)
		case token.NEQ:
			return bin("!=", b)
		}
	case clInt:
		switch e.Op {
		case token.ADD, token.SUB, token.MUL:
			return bin(e.Op.String(), x.ty)
		case token.EQL, token.NEQ:
			return bin(e.Op.String(), b)
		case token.LSS, token.LEQ, token.GTR, token.GEQ:
			return clExpr{s: "decide (" + x.s + " " + e.Op.String() + " " + y.s + ")", ty: b}, nil
		}
	case clString:
		switch e.Op {
		case token.EQL, token.NEQ:
			return bin(e.Op.String(), b)
		case token.ADD:
			return bin("++", x.ty)
		}
	case clFloat, clNamed:
		names := map[token.Token]string{token.ADD: "Add", token.SUB: "Sub", token.MUL: "Mul", token.QUO: "Div",
			token.EQL: "Eq", token.NEQ: "Ne", token.LSS: "Lt", token.LEQ: "Le", token.GTR: "Gt", token.GEQ: "Ge"}
		nm, ok := names[e.Op]
		arith := e.Op == token.ADD || e.Op == token.SUB || e.Op == token.MUL || e.Op == token.QUO
		if !ok || (x.ty.k == clNamed && (x.ty.iface || x.ty.ptr || (e.Op != token.EQL && e.Op != token.NEQ))) {
			break
		}
		pre, res := "f", b
		if x.ty.k == clNamed {
			pre = x.ty.prefix()
		}
		if arith {
			res = x.ty
		}
		t.p.useType(x.ty)
		if err := t.p.useOp(pre+nm, []clTy{x.ty, x.ty}, res.lean(), "Go's operator `"+e.Op.String()+"` on "+x.ty.goName()); err != nil {
			return clExpr{}, err
		}
		return clExpr{s: "ops." + pre + nm + " " + clAtom(x.s) + " " + clAtom(y.s), ty: res}, nil
	}
	return clExpr{}, t.errf(e, "operator %s on %s outside the subset", e.Op, x.ty.goName())
}

// fieldRead: x.f on a struct value ↦ ops.<prefix>_<f> x.  A field of pointer type is nilable.
func (t *clTr) fieldRead(e *ast.SelectorExpr, env *clEnv) (clExpr, error) {
	if v, ok := env.nonnil[t.p.text(e)]; ok {
		x := env.vars[v]
		return clExpr{s: x.lean, ty: x.ty}, nil
	}
	x, err := t.expr(e.X, env)
	if err != nil {
		return x, err
	}
	if x.ty.k != clNamed || x.ty.opt || x.ty.iface {
		return clExpr{}, t.errf(e, "field %s of a %s outside the subset (a nilable value must be tested against nil first)", e.Sel.Name, x.ty.goName())
	}
	ft, node, ok := t.p.field(x.ty, e.Sel.Name)
	if !ok || ft.k == clFnT {
		return clExpr{}, t.errf(e, "field %s of %s: unknown field or type outside the subset", e.Sel.Name, x.ty.goName())
	}
	if ft.k == clNamed && ft.ptr {
		ft.opt = true
	}
	name := x.ty.prefix() + "_" + e.Sel.Name
	t.p.useType(x.ty)
	t.p.useType(ft)
	what := "field " + e.Sel.Name + " of " + x.ty.goName() + " — " + t.p.pos(node)
	if ft.opt {
		what += " (none = nil)"
	}
	if err := t.p.useOp(name, []clTy{x.ty}, ft.lean(), what); err != nil {
		return clExpr{}, err
	}
	return clExpr{s: "ops." + name + " " + clAtom(x.s), ty: ft}, nil
}

// ---------------------------------------------------------------------------------------------
// calls

func (t *clTr) args(c *ast.CallExpr, list []ast.Expr, params []clTy, env *clEnv) ([]string, error) {
	if len(list) != len(params) || c.Ellipsis.IsValid() {
		return nil, t.errf(c, "call with %d arguments for %d parameters", len(list), len(params))
	}
	var out []string
	for i, a := range list {
		v, err := t.expr(a, env)
		if err != nil {
			return nil, err
		}
		if v, err = t.coerce(a, v, params[i]); err != nil {
			return nil, err
		}
		t.p.useType(params[i])
		out = append(out, clAtom(v.s))
	}
	return out, nil
}

func clApply(head string, args []string) string {
	return strings.TrimSpace(head + " " + strings.Join(args, " "))
}

func (t *clTr) funcVar(e ast.Expr, env *clEnv) (clVar, bool) {
	if id, ok := e.(*ast.Ident); ok {
		if v, ok := env.vars[id.Name]; ok && v.ty.k == clFnT {
			return v, true
		}
	}
	return clVar{}, false
}

// effectful: a call of an iterator, or a call that is handed an iterator.
func (t *clTr) effectful(c *ast.CallExpr, env *clEnv) bool {
	if _, ok := t.funcVar(c.Fun, env); ok {
		return true
	}
	for _, a := range c.Args {
		if _, ok := a.(*ast.FuncLit); ok {
			return true
		}
		if _, ok := t.funcVar(a, env); ok {
			return true
		}
	}
	return false
}

// callee: what a (non-builtin) call calls.  Exactly one of fn / op is set; for an external method
// whose declaration is not in <repo>, known is false and params / res are unknown.
type clCallee struct {
	fn     *clFunc
	op     string
	recv   []string // the receiver, as leading argument
	rty    []clTy
	params []clTy
	res    []clTy
	known  bool
	what   string
}

func (t *clTr) callee(c *ast.CallExpr, env *clEnv) (*clCallee, error) {
	switch f := c.Fun.(type) {
	case *ast.Ident:
		if _, shadow := env.vars[f.Name]; shadow {
			break
		}
		d, ok := t.p.funcs[""][f.Name]
		if !ok {
			return nil, t.errf(c, "call of %s outside the subset", f.Name)
		}
		ps, rs, err := t.p.sig(d.Type, "")
		if err != nil {
			return nil, t.errf(c, "%s: %v", f.Name, err)
		}
		return &clCallee{op: "fn_" + f.Name, params: ps, res: rs, known: true,
			what: "Go: `" + t.p.sigText(d) + "` — " + t.p.pos(d)}, nil
	case *ast.SelectorExpr:
		if x, ok := f.X.(*ast.Ident); ok {
			if _, shadow := env.vars[x.Name]; !shadow {
				k, isPkg := t.p.imports[x.Name]
				d, ok := t.p.funcs[k][f.Sel.Name]
				if !isPkg || !ok {
					return nil, t.errf(c, "call of %s.%s outside the subset", x.Name, f.Sel.Name)
				}
				ps, rs, err := t.p.sig(d.Type, k)
				if err != nil {
					return nil, t.errf(c, "%s.%s: %v", x.Name, f.Sel.Name, err)
				}
				return &clCallee{op: "gfn_" + f.Sel.Name, params: ps, res: rs, known: true,
					what: "Go: `" + t.p.sigText(d) + "` of package " + k + " — " + t.p.pos(d)}, nil
			}
		}
		r, err := t.expr(f.X, env)
		if err != nil {
			return nil, err
		}
		if r.ty.k != clNamed || r.ty.opt {
			return nil, t.errf(c, "method %s of a %s outside the subset (a nilable value must be tested against nil first)", f.Sel.Name, r.ty.goName())
		}
		t.p.useType(r.ty)
		cl := &clCallee{recv: []string{clAtom(r.s)}, rty: []clTy{r.ty}}
		if r.ty.pkg == "" && r.ty.name == clRecv {
			if g, ok := t.p.fns[f.Sel.Name]; ok {
				cl.fn, cl.res, cl.known = g, g.res, true
				for _, p := range g.params {
					cl.params = append(cl.params, p.ty)
				}
				return cl, nil
			}
		}
		cl.op = r.ty.prefix() + f.Sel.Name
		ft, node, ok := t.p.method(r.ty, f.Sel.Name)
		if !ok {
			if _, inRepo := t.p.types[r.ty.pkg]; inRepo {
				return nil, t.errf(c, "unknown method %s of %s", f.Sel.Name, r.ty.goName())
			}
			cl.what = "method " + f.Sel.Name + " of " + r.ty.goName() + " (package " + r.ty.pkg + ", not part of the repository: the type of the field is read off the call at " + t.p.pos(c) + ")"
			return cl, nil
		}
		ps, rs, err := t.p.sig(ft, r.ty.pkg)
		if err != nil {
			return nil, t.errf(c, "%s: %v", f.Sel.Name, err)
		}
		cl.params, cl.res, cl.known = ps, rs, true
		if d, ok := node.(*ast.FuncDecl); ok {
			cl.what = "Go: `" + t.p.sigText(d) + "` — " + t.p.pos(d)
		} else {
			cl.what = "Go: `" + f.Sel.Name + strings.TrimPrefix(t.p.text(ft), "func") + "` of interface " + r.ty.goName() + " — " + t.p.pos(node)
		}
		return cl, nil
	}
	return nil, t.errf(c, "call outside the subset")
}

// translated: the head `collectionM ops` of a call of a method translated here (or its rec_ field
// when the call closes a cycle).
func (t *clTr) translated(c *ast.CallExpr, cl *clCallee) (string, error) {
	g := cl.fn
	if g.state == 1 {
		if g.iter >= 0 {
			return "", t.errf(c, "recursive call of %s, which takes an iterator", g.name)
		}
		g.recOf = true
		ps := append(append([]clTy{}, cl.rty...), cl.params...)
		if err := t.p.useOp("rec_"+g.lean, ps, clTupleTy(g.res).lean(),
			"RECURSION: the Go method "+g.name+" itself, as called (directly) from the methods translated here — "+t.p.pos(g.decl)); err != nil {
			return "", err
		}
		return "ops.rec_" + g.lean, nil
	}
	t.p.request(g)
	if g.reason != "" {
		return "", t.errf(c, "calls %s, which is outside the subset", g.name)
	}
	for k := range g.inhab {
		t.fn.inhab[k] = true
	}
	return g.lean + " ops", nil
}

// call: a call that runs no iterator.
func (t *clTr) call(c *ast.CallExpr, env *clEnv) (clExpr, error) {
	if id, ok := c.Fun.(*ast.Ident); ok && id.Name == "len" && len(c.Args) == 1 {
		if _, shadow := env.vars["len"]; !shadow {
			x, err := t.expr(c.Args[0], env)
			if err != nil {
				return x, err
			}
			if x.ty.k != clList {
				return clExpr{}, t.errf(c, "len of a %s outside the subset", x.ty.goName())
			}
			return clExpr{s: "Int.ofNat (List.length " + clAtom(x.s) + ")", ty: clTy{k: clInt}}, nil
		}
	}
	cl, err := t.callee(c, env)
	if err != nil {
		return clExpr{}, err
	}
	if !cl.known {
		return clExpr{}, t.errf(c, "call of a method whose declaration is not in the repository")
	}
	for _, p := range cl.params {
		if p.k == clFnT {
			return clExpr{}, t.errf(c, "call of %s without a function literal", t.p.text(c.Fun))
		}
	}
	args, err := t.args(c, c.Args, cl.params, env)
	if err != nil {
		return clExpr{}, err
	}
	res := clTupleTy(cl.res)
	t.p.useType(res)
	if cl.fn != nil {
		head, err := t.translated(c, cl)
		if err != nil {
			return clExpr{}, err
		}
		return clExpr{s: clApply(head, append(cl.recv, args...)), ty: res}, nil
	}
	if err := t.p.useOp(cl.op, append(append([]clTy{}, cl.rty...), cl.params...), res.lean(), cl.what); err != nil {
		return clExpr{}, t.errf(c, "%v", err)
	}
	return clExpr{s: clApply("ops."+cl.op, append(cl.recv, args...)), ty: res}, nil
}

// ---------------------------------------------------------------------------------------------
// iterators

const (
	clFn      = iota // function body: `return e` is the value (paired with the iterator state)
	clLoop           // body of a range loop: Flow
	clClosure        // body of an iterator literal: (state, continue?)
	clJoin           // arm of an `if` that is joined through the variables it assigns
)

type clMode struct {
	kind  int
	state []string // Go names of the threaded variables (not clFn)
	outer *clMode  // clLoop: where a `return` in the body returns to
}

func (t *clTr) stateTuple(names []string, env *clEnv) string {
	var parts []string
	for _, n := range names {
		parts = append(parts, env.vars[n].lean)
	}
	return clTupleStr(parts)
}

func (t *clTr) stateType(names []string, env *clEnv) clTy {
	var tys []clTy
	for _, n := range names {
		tys = append(tys, env.vars[n].ty)
	}
	return clTupleTy(tys)
}

func (t *clTr) bindState(names []string, env *clEnv, v string) []string {
	var out []string
	for i, n := range names {
		x := env.vars[n]
		out = append(out, "let "+x.lean+" : "+x.ty.lean()+" := "+clProj(v, i, len(names)))
	}
	return out
}

// assignedIn: the variables of env assigned somewhere in the nodes (function literals included),
// in declaration order; the iterator state counts as assigned where the iterator is called or
// handed on.
func (t *clTr) assignedIn(env *clEnv, nodes ...ast.Node) []string {
	set := map[string]bool{}
	mark := func(e ast.Expr) {
		if id, ok := e.(*ast.Ident); ok {
			if _, ok := env.vars[id.Name]; ok {
				set[id.Name] = true
			}
		}
	}
	for _, n := range nodes {
		if n == nil {
			continue
		}
		ast.Inspect(n, func(n ast.Node) bool {
			switch s := n.(type) {
			case *ast.AssignStmt:
				if s.Tok != token.DEFINE {
					for _, l := range s.Lhs {
						mark(l)
					}
				}
			case *ast.IncDecStmt:
				mark(s.X)
			case *ast.CallExpr:
				uses := false
				if _, ok := t.funcVar(s.Fun, env); ok {
					uses = true
				}
				for _, a := range s.Args {
					if _, ok := t.funcVar(a, env); ok {
						uses = true
					}
				}
				if _, ok := env.vars[clItVar]; ok && uses {
					set[clItVar] = true
				}
			}
			return true
		})
	}
	var out []string
	for k := range set {
		out = append(out, k)
	}
	sort.Slice(out, func(i, j int) bool { return env.vars[out[i]].ord < env.vars[out[j]].ord })
	return out
}

// closure: an iterator literal ↦ fun (x : ε) (st' : S) => body, S the tuple of the variables of
// the enclosing scopes that the literal assigns; `return e` ↦ (state, e).
func (t *clTr) closure(lit *ast.FuncLit, env *clEnv, elem []clTy) ([]string, []string, []clTy, error) {
	ft, ok := t.p.parseType(lit.Type, "")
	if !ok {
		return nil, nil, nil, t.errf(lit, "function literal whose type is outside the subset (parameters of the subset, one bool result)")
	}
	if elem != nil {
		if len(elem) != len(ft.elem) {
			return nil, nil, nil, t.errf(lit, "function literal with the wrong number of parameters")
		}
		for i := range elem {
			if !elem[i].same(ft.elem[i]) {
				return nil, nil, nil, t.errf(lit, "function literal whose parameter %d is not a %s", i, elem[i].goName())
			}
		}
	}
	state := t.assignedIn(env, lit.Body)
	env2 := env.copy()
	var names []string
	for _, f := range lit.Type.Params.List {
		for _, n := range f.Names {
			names = append(names, n.Name)
		}
		if len(f.Names) == 0 {
			names = append(names, "_")
		}
	}
	sty := t.stateType(state, env)
	t.p.useType(clTupleTy(ft.elem))
	var head string
	var binds []string
	if len(names) == 1 {
		x := "x'"
		if names[0] != "_" {
			x = env2.add(names[0], ft.elem[0]).lean
		}
		head = "fun (" + x + " : " + ft.elem[0].lean() + ") (st' : " + sty.lean() + ") =>"
	} else {
		head = "fun (x' : " + clTupleTy(ft.elem).lean() + ") (st' : " + sty.lean() + ") =>"
		for i, n := range names {
			if n != "_" {
				v := env2.add(n, ft.elem[i])
				binds = append(binds, "let "+v.lean+" : "+v.ty.lean()+" := "+clProj("x'", i, len(names)))
			}
		}
	}
	binds = append(binds, t.bindState(state, env2, "st'")...)
	body, err := t.block(lit.Body.List, env2, clMode{kind: clClosure, state: state})
	if err != nil {
		return nil, nil, nil, err
	}
	return append([]string{head}, clIndent(append(binds, body...))...), state, ft.elem, nil
}

// hoist: a call that runs an iterator (see effectful) ↦ let c' := …; the variables the iterator
// assigns are rebound from c'; the value of the call (if it has one) is a projection of c'.
func (t *clTr) hoist(c *ast.CallExpr, env *clEnv) ([]string, clExpr, error) {
	if v, ok := t.funcVar(c.Fun, env); ok { // iter(e)
		args, err := t.args(c, c.Args, v.ty.elem, env)
		if err != nil {
			return nil, clExpr{}, err
		}
		it := env.vars[clItVar]
		return []string{"let c' : σ × Bool := " + v.lean + " " + clAtom(clTupleStr(args)) + " " + it.lean,
			"let " + it.lean + " : σ := c'.1"}, clExpr{s: "c'.2", ty: clTy{k: clBool}}, nil
	}
	n := len(c.Args) - 1
	for _, a := range c.Args[:n] {
		if _, ok := a.(*ast.FuncLit); ok {
			return nil, clExpr{}, t.errf(c, "a function literal that is not the last argument")
		}
		if _, ok := t.funcVar(a, env); ok {
			return nil, clExpr{}, t.errf(c, "an iterator that is not the last argument")
		}
	}
	cl, err := t.callee(c, env)
	if err != nil {
		return nil, clExpr{}, err
	}
	var elem []clTy
	if cl.known {
		if len(cl.params) != len(c.Args) || cl.params[n].k != clFnT {
			return nil, clExpr{}, t.errf(c, "an iterator handed to %s, whose last parameter is not an iterator", t.p.text(c.Fun))
		}
		elem = cl.params[n].elem
	}
	// the iterator and its state
	var lam, state []string
	if lit, ok := c.Args[n].(*ast.FuncLit); ok {
		if lam, state, elem, err = t.closure(lit, env, elem); err != nil {
			return nil, clExpr{}, err
		}
	} else {
		v, _ := t.funcVar(c.Args[n], env)
		if !cl.known || len(elem) != len(v.ty.elem) {
			return nil, clExpr{}, t.errf(c, "an iterator handed on to a method of unknown signature")
		}
		for i := range elem {
			if !elem[i].same(v.ty.elem[i]) {
				return nil, clExpr{}, t.errf(c, "an iterator handed on at a different type")
			}
		}
		lam, state = []string{v.lean}, []string{clItVar}
	}
	sty := t.stateType(state, env)
	init := clAtom(t.stateTuple(state, env))
	// the other arguments
	var args []string
	if cl.known {
		if args, err = t.args(c, c.Args[:n], cl.params[:n], env); err != nil {
			return nil, clExpr{}, err
		}
	} else {
		for _, a := range c.Args[:n] {
			v, err := t.expr(a, env)
			if err != nil {
				return nil, clExpr{}, err
			}
			if v.untyped || v.ty.k == clNil || v.ty.k == clUnit {
				return nil, clExpr{}, t.errf(a, "argument of unknown type")
			}
			cl.params = append(cl.params, v.ty)
			args = append(args, clAtom(v.s))
		}
	}
	var head, tail, rty string
	var val clExpr
	stv := "c'"
	if cl.fn != nil {
		h, err := t.translated(c, cl)
		if err != nil {
			return nil, clExpr{}, err
		}
		head, tail, rty = clApply(h, append(cl.recv, args...)), init, sty.lean()
		val = clExpr{ty: clTy{k: clUnit}}
		if len(cl.res) > 0 {
			res := clTupleTy(cl.res)
			rty, stv, val = clAtomTy(rty)+" × "+clAtomTy(res.lean()), "c'.1", clExpr{s: "c'.2", ty: res}
		}
	} else {
		ety := clTupleTy(elem)
		t.p.useType(ety)
		what := cl.what + "; the list of the " + ety.goName() + " the iterator is offered, in order (iterate cuts it where the iterator answers false"
		val = clExpr{ty: clTy{k: clUnit}}
		switch {
		case !cl.known:
			what += "; a result of the method, if it has one, is not used)"
		case len(cl.res) == 0:
			what += ")"
		case len(cl.res) == 1 && cl.res[0].k == clBool:
			what += "; the bool result is taken to be: the iterator never answered false)"
			val = clExpr{s: "c'.2", ty: cl.res[0]}
		default:
			return nil, clExpr{}, t.errf(c, "a method with an iterator and a result that is not a bool")
		}
		if err := t.p.useOp(cl.op, append(append([]clTy{}, cl.rty...), cl.params[:n]...), "List "+clAtomTy(ety.lean()), what); err != nil {
			return nil, clExpr{}, t.errf(c, "%v", err)
		}
		head, tail = "iterate", clAtom(clApply("ops."+cl.op, append(cl.recv, args...)))+" "+init
		rty, stv = clAtomTy(sty.lean())+" × Bool", "c'.1"
	}
	var pre []string
	if len(lam) == 1 {
		pre = []string{"let c' : " + rty + " := " + strings.TrimSpace(head+" "+lam[0]+" "+tail)}
	} else {
		pre = append(pre, "let c' : "+rty+" := "+head+" ("+lam[0])
		pre = append(pre, clIndent(clIndent(lam[1:]))...)
		pre[len(pre)-1] += ") " + tail
	}
	pre = append(pre, t.bindState(state, env, stv)...)
	if val.ty.k == clUnit {
		val.s = "()"
	}
	return pre, val, nil
}

// value: an expression in statement position: !…!(call running an iterator) is hoisted.
func (t *clTr) value(e ast.Expr, env *clEnv) ([]string, clExpr, error) {
	neg := 0
	x := e
	for {
		if p, ok := x.(*ast.ParenExpr); ok {
			x = p.X
		} else if u, ok := x.(*ast.UnaryExpr); ok && u.Op == token.NOT {
			x = u.X
			neg++
		} else {
			break
		}
	}
	if c, ok := x.(*ast.CallExpr); ok && t.effectful(c, env) {
		pre, v, err := t.hoist(c, env)
		if err != nil {
			return nil, v, err
		}
		if neg > 0 && v.ty.k != clBool {
			return nil, v, t.errf(e, "! on a %s", v.ty.goName())
		}
		for i := 0; i < neg; i++ {
			v.s = "!" + clAtom(v.s)
		}
		return pre, v, nil
	}
	v, err := t.expr(e, env)
	return nil, v, err
}

// ---------------------------------------------------------------------------------------------
// statements

// retType: the Lean type of what `return` produces in mode m (through the enclosing loops).
func (t *clTr) retType(m clMode, env *clEnv) string {
	switch m.kind {
	case clLoop:
		return t.retType(*m.outer, env)
	case clClosure:
		return clAtomTy(t.stateType(m.state, env).lean()) + " × Bool"
	}
	return t.fnResultType()
}

func (t *clTr) fnResultType() string {
	res := clTupleTy(t.fn.res)
	if t.fn.iter < 0 {
		return res.lean()
	}
	if len(t.fn.res) == 0 {
		return "σ"
	}
	return "σ × " + clAtomTy(res.lean())
}

// retValue: `return vals` in mode m.
func (t *clTr) retValue(n ast.Node, m clMode, vals []clExpr, env *clEnv) (string, error) {
	switch m.kind {
	case clLoop:
		v, err := t.retValue(n, *m.outer, vals, env)
		return "Flow.ret " + clAtom(v), err
	case clClosure:
		if len(vals) != 1 || vals[0].ty.k != clBool {
			return "", t.errf(n, "a function literal must return one bool")
		}
		return "(" + t.stateTuple(m.state, env) + ", " + vals[0].s + ")", nil
	case clJoin:
		return "", t.errf(n, "return inside a joined if")
	}
	if len(vals) != len(t.fn.res) {
		return "", t.errf(n, "return of %d values for %d results", len(vals), len(t.fn.res))
	}
	var parts []string
	for i, v := range vals {
		v, err := t.coerce(n, v, t.fn.res[i])
		if err != nil {
			return "", err
		}
		parts = append(parts, v.s)
	}
	if t.fn.iter >= 0 {
		parts = append([]string{env.vars[clItVar].lean}, parts...)
		return clTupleStr(parts), nil
	}
	return clTupleStr(parts), nil
}

// clEscapes: does control leave n other than by falling through (return anywhere but in a
// function literal; break / continue that are not those of a loop inside n)?
func clEscapes(n ast.Node) bool {
	found := false
	var walk func(n ast.Node, inLoop bool)
	walk = func(n ast.Node, inLoop bool) {
		ast.Inspect(n, func(x ast.Node) bool {
			switch s := x.(type) {
			case *ast.FuncLit:
				return false
			case *ast.ReturnStmt:
				found = true
			case *ast.BranchStmt:
				if !inLoop {
					found = true
				}
			case *ast.RangeStmt:
				if x != n {
					walk(s.Body, true)
					return false
				}
			case *ast.ForStmt:
				if x != n {
					walk(s.Body, true)
					return false
				}
			}
			return true
		})
	}
	walk(n, false)
	return found
}

func clHasReturn(n ast.Node) bool {
	found := false
	ast.Inspect(n, func(x ast.Node) bool {
		switch x.(type) {
		case *ast.FuncLit:
			return false
		case *ast.ReturnStmt:
			found = true
		}
		return true
	})
	return found
}

func (t *clTr) block(list []ast.Stmt, env *clEnv, m clMode) ([]string, error) {
	if t.n++; t.n > 4000 {
		return nil, fmt.Errorf("%s: too many copies made by `if` statements that fall through", t.fn.name)
	}
	if len(list) == 0 {
		switch m.kind {
		case clLoop:
			return []string{"Flow.next " + clAtom(t.stateTuple(m.state, env))}, nil
		case clJoin:
			return []string{t.stateTuple(m.state, env)}, nil
		case clClosure:
			return nil, fmt.Errorf("%s: control reaches the end of a function literal", t.fn.name)
		}
		if len(t.fn.res) != 0 {
			return nil, fmt.Errorf("%s: control reaches the end of the function", t.fn.name)
		}
		v, err := t.retValue(t.fn.decl, m, nil, env)
		return []string{v}, err
	}
	rest := list[1:]
	then := func(pre []string) ([]string, error) {
		tail, err := t.block(rest, env, m)
		if err != nil {
			return nil, err
		}
		return append(pre, tail...), nil
	}
	switch s := list[0].(type) {
	case *ast.EmptyStmt:
		return t.block(rest, env, m)
	case *ast.BlockStmt:
		// names are unique within a function: a block can be inlined
		return t.block(append(append([]ast.Stmt{}, s.List...), rest...), env, m)
	case *ast.ReturnStmt:
		var pre []string
		var vals []clExpr
		for _, r := range s.Results {
			p, v, err := t.value(r, env)
			if err != nil {
				return nil, err
			}
			if len(p) > 0 && len(s.Results) > 1 {
				return nil, t.errf(s, "a call that runs an iterator among several results")
			}
			pre, vals = append(pre, p...), append(vals, v)
		}
		v, err := t.retValue(s, m, vals, env)
		return append(pre, v), err
	case *ast.BranchStmt:
		if s.Label != nil || m.kind != clLoop || (s.Tok != token.BREAK && s.Tok != token.CONTINUE) {
			return nil, t.errf(s, "%s outside the subset", s.Tok)
		}
		if s.Tok == token.BREAK {
			return []string{"Flow.brk " + clAtom(t.stateTuple(m.state, env))}, nil
		}
		return []string{"Flow.next " + clAtom(t.stateTuple(m.state, env))}, nil
	case *ast.AssignStmt:
		pre, err := t.assign(s, env)
		if err != nil {
			return nil, err
		}
		return then(pre)
	case *ast.IncDecStmt:
		id, ok := s.X.(*ast.Ident)
		var v clVar
		if ok {
			v, ok = env.vars[id.Name]
		}
		if !ok || v.ty.k != clInt {
			return nil, t.errf(s, "%s on something that is not an int variable", s.Tok)
		}
		op := map[token.Token]string{token.INC: "+", token.DEC: "-"}[s.Tok]
		return then([]string{"let " + v.lean + " : Int := " + v.lean + " " + op + " 1"})
	case *ast.DeclStmt:
		pre, err := t.declStmt(s, env)
		if err != nil {
			return nil, err
		}
		return then(pre)
	case *ast.ExprStmt:
		c, ok := s.X.(*ast.CallExpr)
		if !ok {
			return nil, t.errf(s, "expression statement outside the subset")
		}
		if !t.effectful(c, env) {
			// the callees are taken to be pure: the call is kept (bound to _) so that it shows
			v, err := t.expr(c, env)
			if err != nil {
				return nil, err
			}
			return then([]string{"let _ : " + v.ty.lean() + " := " + v.s})
		}
		pre, _, err := t.hoist(c, env)
		if err != nil {
			return nil, err
		}
		return then(pre)
	case *ast.IfStmt:
		return t.ifStmt(s, rest, env, m)
	case *ast.RangeStmt:
		return t.rangeStmt(s, rest, env, m)
	}
	return nil, t.errf(list[0], "statement outside the subset (%T)", list[0])
}

func (t *clTr) declare(n ast.Node, name string, ty clTy, env *clEnv) (clVar, error) {
	if name == "_" {
		return clVar{lean: "_", ty: ty}, nil
	}
	if ty.k == clUnit || ty.k == clNil || ty.k == clTuple || ty.k == clFnT {
		return clVar{}, t.errf(n, "variable %s of a type outside the subset", name)
	}
	t.p.useType(ty)
	return env.add(name, ty), nil
}

func (t *clTr) assign(s *ast.AssignStmt, env *clEnv) ([]string, error) {
	if len(s.Lhs) != 1 || len(s.Rhs) != 1 {
		return nil, t.errf(s, "assignment of several values outside the subset")
	}
	id, ok := s.Lhs[0].(*ast.Ident)
	if !ok {
		return nil, t.errf(s, "assignment to something that is not a variable")
	}
	pre, v, err := t.value(s.Rhs[0], env)
	if err != nil {
		return nil, err
	}
	if s.Tok == token.DEFINE {
		if v.ty.opt {
			return nil, t.errf(s, "a nilable value stored in a variable")
		}
		x, err := t.declare(s, id.Name, v.ty, env)
		if err != nil {
			return nil, err
		}
		return append(pre, "let "+x.lean+" : "+x.ty.lean()+" := "+v.s), nil
	}
	x, ok := env.vars[id.Name]
	if !ok || id.Name == "_" {
		return nil, t.errf(s, "assignment to %s outside the subset", id.Name)
	}
	if s.Tok != token.ASSIGN {
		ops := map[token.Token]token.Token{token.ADD_ASSIGN: token.ADD, token.SUB_ASSIGN: token.SUB, token.MUL_ASSIGN: token.MUL}
		op, ok := ops[s.Tok]
		if !ok || x.ty.k != clInt || v.ty.k != clInt {
			return nil, t.errf(s, "%s outside the subset", s.Tok)
		}
		v = clExpr{s: x.lean + " " + op.String() + " " + clAtom(v.s), ty: x.ty}
	}
	if v, err = t.coerce(s, v, x.ty); err != nil {
		return nil, err
	}
	return append(pre, "let "+x.lean+" : "+x.ty.lean()+" := "+v.s), nil
}

func (t *clTr) declStmt(s *ast.DeclStmt, env *clEnv) ([]string, error) {
	gd, ok := s.Decl.(*ast.GenDecl)
	if !ok || gd.Tok != token.VAR {
		return nil, t.errf(s, "declaration outside the subset")
	}
	var out []string
	for _, sp := range gd.Specs {
		vs := sp.(*ast.ValueSpec)
		if vs.Type == nil || len(vs.Values) != 0 {
			return nil, t.errf(s, "var with an initial value outside the subset (use :=)")
		}
		ty, ok := t.p.parseType(vs.Type, "")
		zero := map[clKind]string{clBool: "false", clInt: "0", clString: `""`}[ty.k]
		if !ok || zero == "" {
			return nil, t.errf(s, "var of type %s outside the subset", t.p.text(vs.Type))
		}
		for _, n := range vs.Names {
			x, err := t.declare(s, n.Name, ty, env)
			if err != nil {
				return nil, err
			}
			out = append(out, "let "+x.lean+" : "+ty.lean()+" := "+zero)
		}
	}
	return out, nil
}

func clElse(s *ast.IfStmt) []ast.Stmt {
	switch e := s.Else.(type) {
	case *ast.BlockStmt:
		return e.List
	case *ast.IfStmt:
		return []ast.Stmt{e}
	}
	return nil
}

func clIfLines(cond string, th, el []string) []string {
	out := append([]string{"if " + cond + " then"}, clIndent(th)...)
	if len(el) > 0 && strings.HasPrefix(el[0], "if ") {
		return append(append(out, "else "+el[0]), el[1:]...)
	}
	return append(append(out, "else"), clIndent(el)...)
}

// nilTest: cond of the form `x.f != nil` / `x.f == nil` on a nilable field not yet tested.
func (t *clTr) nilTest(cond ast.Expr, env *clEnv) (*ast.SelectorExpr, bool, bool) {
	for {
		p, ok := cond.(*ast.ParenExpr)
		if !ok {
			break
		}
		cond = p.X
	}
	b, ok := cond.(*ast.BinaryExpr)
	if !ok || (b.Op != token.NEQ && b.Op != token.EQL) {
		return nil, false, false
	}
	x, y := b.X, b.Y
	if id, ok := x.(*ast.Ident); ok && id.Name == "nil" {
		x, y = y, x
	}
	id, ok := y.(*ast.Ident)
	sel, ok2 := x.(*ast.SelectorExpr)
	if !ok || id.Name != "nil" || !ok2 {
		return nil, false, false
	}
	if _, done := env.nonnil[t.p.text(sel)]; done {
		return nil, false, false
	}
	return sel, b.Op == token.NEQ, true
}

func (t *clTr) ifStmt(s *ast.IfStmt, rest []ast.Stmt, env *clEnv, m clMode) ([]string, error) {
	if s.Init != nil {
		return nil, t.errf(s, "if with an init statement outside the subset")
	}
	join := !clEscapes(s.Body) && (s.Else == nil || !clEscapes(s.Else)) && len(rest) > 0
	am, thL, elL := m, append(append([]ast.Stmt{}, s.Body.List...), rest...), append(clElse(s), rest...)
	var vars []string
	if join {
		vars = t.assignedIn(env, s.Body, s.Else)
		am, thL, elL = clMode{kind: clJoin, state: vars}, s.Body.List, clElse(s)
	}
	var lines []string
	if sel, isNe, ok := t.nilTest(s.Cond, env); ok {
		v, err := t.fieldRead(sel, env)
		if err != nil {
			return nil, err
		}
		if !v.ty.opt {
			return nil, t.errf(s.Cond, "nil test of a value that is not nilable")
		}
		envS, envN := env.copy(), env.copy()
		ty := v.ty
		ty.opt = false
		key := t.p.text(sel)
		x := envS.add(key, ty)
		x.lean = clName(sel.Sel.Name) + "'"
		envS.vars[key] = x
		envS.nonnil[key] = key
		if !isNe {
			thL, elL = elL, thL
		}
		some, err := t.block(thL, envS, am)
		if err != nil {
			return nil, err
		}
		none, err := t.block(elL, envN, am)
		if err != nil {
			return nil, err
		}
		lines = append([]string{"(match " + v.s + " with", "| some " + x.lean + " =>"}, clIndent(some)...)
		lines = append(append(lines, "| none =>"), clIndent(none)...)
		lines[len(lines)-1] += ")"
	} else {
		pre, c, err := t.value(s.Cond, env)
		if err != nil {
			return nil, err
		}
		if c.ty.k != clBool {
			return nil, t.errf(s.Cond, "a condition that is not a bool")
		}
		th, err := t.block(thL, env.copy(), am)
		if err != nil {
			return nil, err
		}
		el, err := t.block(elL, env.copy(), am)
		if err != nil {
			return nil, err
		}
		if len(pre) > 0 && join {
			return nil, t.errf(s.Cond, "a call that runs an iterator in the condition of an if that falls through")
		}
		lines = append(pre, clIfLines(c.s, th, el)...)
	}
	if !join {
		return lines, nil
	}
	sty := t.stateType(vars, env)
	out := []string{"let j' : " + sty.lean() + " := " + lines[0]}
	out = append(out, clIndent(clIndent(lines[1:]))...)
	out = append(out, t.bindState(vars, env, "j'")...)
	tail, err := t.block(rest, env, m)
	if err != nil {
		return nil, err
	}
	return append(out, tail...), nil
}

// rangeStmt: `for _, x := range xs { body }` ↦ forRange over the list.
func (t *clTr) rangeStmt(s *ast.RangeStmt, rest []ast.Stmt, env *clEnv, m clMode) ([]string, error) {
	k, _ := s.Key.(*ast.Ident)
	x, _ := s.Value.(*ast.Ident)
	if s.Tok != token.DEFINE || k == nil || k.Name != "_" || x == nil {
		return nil, t.errf(s, "range loop outside the subset (only `for _, x := range xs`)")
	}
	xs, err := t.expr(s.X, env)
	if err != nil {
		return nil, err
	}
	if xs.ty.k != clList {
		return nil, t.errf(s, "range over a %s outside the subset", xs.ty.goName())
	}
	state := t.assignedIn(env, s.Body)
	sty := t.stateType(state, env)
	hasRet := clHasReturn(s.Body)
	if hasRet && m.kind == clJoin {
		return nil, t.errf(s, "return inside a joined if")
	}
	rho, ret := "Empty", "nomatch r'"
	if hasRet {
		rho, ret = t.retType(m, env), "r'"
		if m.kind == clLoop {
			ret = "Flow.ret r'"
		}
	}
	env2 := env.copy()
	v, err := t.declare(s, x.Name, xs.ty.elem[0], env2)
	if err != nil {
		return nil, err
	}
	if v.lean == "_" {
		v.lean = "x'"
	}
	body, err := t.block(s.Body.List, env2, clMode{kind: clLoop, state: state, outer: &m})
	if err != nil {
		return nil, err
	}
	body = append(t.bindState(state, env2, "st'"), body...)
	out := []string{"(match forRange (σ := " + sty.lean() + ") (ρ := " + rho + ") (fun (" + v.lean + " : " + v.ty.lean() + ") (st' : " + sty.lean() + ") =>"}
	out = append(out, clIndent(clIndent(body))...)
	out[len(out)-1] += ") " + clAtom(xs.s) + " " + clAtom(t.stateTuple(state, env)) + " with"
	out = append(out, "| Exit.ret r' => "+ret, "| Exit.done st' =>")
	tail, err := t.block(rest, env, m)
	if err != nil {
		return nil, err
	}
	out = append(out, clIndent(append(t.bindState(state, env, "st'"), tail...))...)
	out[len(out)-1] += ")"
	return out, nil
}

// ---------------------------------------------------------------------------------------------
// functions

// clDeclared: every name declared in the function (parameters, :=, var, range, literal parameters).
func clDeclared(d *ast.FuncDecl) []string {
	var out []string
	fields := func(fl *ast.FieldList) {
		if fl == nil {
			return
		}
		for _, f := range fl.List {
			for _, n := range f.Names {
				out = append(out, n.Name)
			}
		}
	}
	fields(d.Recv)
	fields(d.Type.Params)
	fields(d.Type.Results)
	ast.Inspect(d.Body, func(n ast.Node) bool {
		switch s := n.(type) {
		case *ast.AssignStmt:
			if s.Tok == token.DEFINE {
				for _, l := range s.Lhs {
					if id, ok := l.(*ast.Ident); ok {
						out = append(out, id.Name)
					}
				}
			}
		case *ast.ValueSpec:
			for _, n := range s.Names {
				out = append(out, n.Name)
			}
		case *ast.RangeStmt:
			if s.Tok == token.DEFINE {
				for _, e := range []ast.Expr{s.Key, s.Value} {
					if id, ok := e.(*ast.Ident); ok {
						out = append(out, id.Name)
					}
				}
			}
		case *ast.FuncLit:
			fields(s.Type.Params)
			fields(s.Type.Results)
		}
		return true
	})
	return out
}

func (p *clPkg) request(g *clFunc) {
	if g.state != 0 {
		return
	}
	g.state = 1
	t := &clTr{p: p, fn: g}
	lines, err := t.function()
	g.state = 2
	if err != nil {
		g.reason = err.Error()
	} else {
		g.lines = lines
	}
	p.order = append(p.order, g)
}

func (t *clTr) function() ([]string, error) {
	g := t.fn
	d := g.decl
	if d.Body == nil {
		return nil, fmt.Errorf("%s: no body", g.name)
	}
	seen := map[string]bool{}
	for _, n := range clDeclared(d) {
		if n != "_" && seen[n] {
			return nil, t.errf(d, "the name %s is declared twice in %s (shadowing is outside the subset)", n, g.name)
		}
		seen[n] = true
	}
	if _, star := d.Recv.List[0].Type.(*ast.StarExpr); !star || len(d.Recv.List[0].Names) != 1 {
		return nil, t.errf(d, "receiver outside the subset")
	}
	if len(g.params) == 0 && d.Type.Params != nil && len(d.Type.Params.List) > 0 {
		return nil, t.errf(d, "signature outside the subset")
	}
	if d.Type.Results != nil {
		for _, f := range d.Type.Results.List {
			if len(f.Names) > 0 {
				return nil, t.errf(d, "named results outside the subset")
			}
		}
	}
	env := &clEnv{vars: map[string]clVar{}, nonnil: map[string]string{}}
	rty := clTy{k: clNamed, name: clRecv, ptr: true}
	t.p.useType(rty)
	env.add(g.recv, rty)
	for i, pv := range g.params {
		if pv.goName == "_" {
			continue
		}
		t.p.useType(pv.ty)
		env.add(pv.goName, pv.ty)
		if i == g.iter {
			env.add(clItVar, clTy{k: clSigma})
		}
	}
	for _, r := range g.res {
		t.p.useType(r)
	}
	return t.block(d.Body.List, env, clMode{kind: clFn})
}

// header: `def name {…} (ops : Ops …) (g : TCollection) … : R :=`
func (p *clPkg) header(g *clFunc, tps []string) string {
	s := "def " + g.lean + " {" + strings.Join(tps, " ") + " : Type}"
	if g.iter >= 0 {
		s += " {σ : Type}"
	}
	var inh []string
	for k := range g.inhab {
		inh = append(inh, k)
	}
	sort.Strings(inh)
	for _, k := range inh {
		s += " [Inhabited " + clAtomTy(k) + "]"
	}
	s += " (ops : Ops " + strings.Join(tps, " ") + ") (" + clName(g.recv) + " : TCollection)"
	for i, pv := range g.params {
		n := clName(pv.goName)
		if pv.goName == "_" {
			n = fmt.Sprintf("x'%d", i)
		}
		s += " (" + n + " : " + pv.ty.lean() + ")"
		if i == g.iter {
			s += " (it' : σ)"
		}
	}
	t := &clTr{p: p, fn: g}
	return s + " : " + t.fnResultType() + " :="
}

func clLoad(repo string) (*clPkg, error) {
	p := &clPkg{fset: token.NewFileSet(), repo: repo, types: map[string]map[string]*ast.TypeSpec{},
		funcs: map[string]map[string]*ast.FuncDecl{}, methods: map[string]map[string]*ast.FuncDecl{},
		imports: map[string]string{}, ops: map[string]*clOp{}, tparams: map[string]string{}, fns: map[string]*clFunc{}}
	if err := p.parseDir("", repo); err != nil {
		return nil, err
	}
	if err := p.parseDir("geometry", filepath.Join(repo, "geometry")); err != nil {
		return nil, err
	}
	var ds []*ast.FuncDecl
	for k, d := range p.methods[""] {
		if strings.HasPrefix(k, clRecv+".") && !clSkip[d.Name.Name] {
			ds = append(ds, d)
		}
	}
	sort.Slice(ds, func(i, j int) bool {
		a, b := p.fset.Position(ds[i].Pos()), p.fset.Position(ds[j].Pos())
		if a.Filename != b.Filename {
			return a.Filename < b.Filename
		}
		return a.Offset < b.Offset
	})
	if len(ds) == 0 {
		return nil, fmt.Errorf("no method of *%s found in %s", clRecv, repo)
	}
	for _, d := range ds {
		g := &clFunc{name: d.Name.Name, lean: clRecv + clUpper(d.Name.Name), decl: d, iter: -1, inhab: map[string]bool{}}
		if len(d.Recv.List[0].Names) == 1 {
			g.recv = d.Recv.List[0].Names[0].Name
		}
		ps, rs, err := p.sig(d.Type, "")
		if err == nil {
			i := 0
			for _, f := range d.Type.Params.List {
				names := f.Names
				if len(names) == 0 {
					names = []*ast.Ident{{Name: "_"}}
				}
				for _, n := range names {
					g.params = append(g.params, clVar{goName: n.Name, lean: clName(n.Name), ty: ps[i]})
					if ps[i].k == clFnT {
						g.iter = i
					}
					i++
				}
			}
			g.res = rs
		} else {
			g.state, g.reason = 2, p.pos(d)+": "+err.Error()
		}
		p.fns[g.name] = g
		p.srcOrd = append(p.srcOrd, g)
	}
	return p, nil
}

// ---------------------------------------------------------------------------------------------
// output

const clHeader = `/-
  GENERATED FILE — do not edit.  Regenerate with
      cd /verif/translate && go build -o bin/translate . && \
        ./bin/translate collection /repo > /verif/lean/GeoModel/Generated/CollGen.lean

  Syntactic translation (translate/collection.go) of the methods of *collection (collection.go, the
  type embedded in MultiPoint, MultiLineString, MultiPolygon, GeometryCollection and
  FeatureCollection).  Not translated here: %s (parsers / writers translators).

  Conventions:
    * the definitions are parametrised by ` + "`ops : Ops …`" + `: one type parameter per Go type met in the
      source (root package T<Name>, package geometry G<Name>, another package X<Name>, float64 ↦ F,
      interface{} ↦ Any, int ↦ Int (unbounded), []T and [n]T ↦ List T) and one field per distinct
      callee / field read found in the source that is not itself translated here:
        method M of type T ↦ <t>M (Object ↦ obj…, Spatial ↦ spatial…, geometry.Rect ↦ gRect…); a
        call through the interface Object / Spatial is the DYNAMIC DISPATCH supplied by whoever
        instantiates ops — when the dynamic type is one of the collection types it is the method
        translated here (recursion through the interface);
        field f of struct T ↦ <t>_f (a field of pointer type is an Option: none = nil);
        a package-level function f ↦ fn_f (gfn_f: package geometry); x.(T) ↦ <x>As<T>; the implicit
        conversion of a *T to an interface I ↦ <i>Of<T>.
      The callees are taken to be pure, pointer-typed parameters and the receiver to be non-nil;
    * ITERATORS.  A method of another type that takes an iterator,
      ` + "`x.M(a, func(y U) bool {…})`" + `, ↦ field <t>M : T → A → List U, the list of what the iterator is
      offered, in order; the call becomes  iterate (fun y st' => body) (ops.<t>M x a) st : S × Bool
      where st : S is the tuple of the variables of the enclosing scopes that the literal assigns
      (nested literals included) and ` + "`return e`" + ` in the literal ↦ (st, e): iterate stops at the first
      element for which e is false, its Bool is false iff it was stopped — the bool result of the
      method (ForEach) is taken to be that Bool.  A method translated here that TAKES an iterator
      (Search, ForEach) ↦ a definition polymorphic in the state σ of the iterator,
      (iter : U → σ → σ × Bool) (it' : σ), that returns the final state (paired with its Go result):
      iter(u) ↦ let c' := iter u it'; it' := c'.1, value c'.2; handing iter on to x.M(iter) ↦ iterate
      iter (ops.<t>M x) it'.  A call that runs an iterator may only stand (under !) as a statement,
      a condition, the right-hand side of an assignment or a returned value;
    * ` + "`if x.f != nil {A} else {B}`" + ` on a nilable field ↦ match ops.<t>_f x with | some f' => A | none => B;
      elsewhere x.f != nil ↦ Option.isSome; using a nilable value without such a test is refused;
    * a statement list becomes one expression, continuation style; x := e, x = e, x += e, x++, var x T
      ↦ let (shadowing; a Go name declared twice in one function is refused); the statements after
      an ` + "`if`" + ` are copied into every arm that falls through, except that an ` + "`if`" + ` neither arm of which
      leaves (no return / break / continue) and that is followed by more statements is joined:
      let j' := if c then (…; vars) else (…; vars), vars the variables it assigns;
    * ` + "`for _, x := range xs { body }`" + ` ↦ forRange (fun x st' => body) xs st: end of body / continue ↦
      Flow.next, break ↦ Flow.brk, return e ↦ Flow.ret e; ρ := Empty when the body does not return;
    * xs[i] ↦ sliceAt xs i (out of range, a panic in Go, is ` + "`default`" + `); len(xs) ↦ Int.ofNat xs.length;
    * a direct call of a method translated here ↦ a call of its definition (callees first); a call
      that closes a cycle ↦ the Ops field rec_<name>.
  Anything outside the recognised subset appears below as  opaque <name>_unrecognised : Unit.
-/

set_option linter.unusedVariables false

namespace Geo.CGen

/-- how one pass through a loop body ends -/
inductive Flow (σ ρ : Type) where
  | next (s : σ) : Flow σ ρ
  | brk (s : σ) : Flow σ ρ
  | ret (r : ρ) : Flow σ ρ

/-- how a loop ends: normally (or by break) with the final state, or by ` + "`return r`" + ` -/
inductive Exit (σ ρ : Type) where
  | done (s : σ) : Exit σ ρ
  | ret (r : ρ) : Exit σ ρ

/-- a range loop over the list of the values of its variable -/
def forRange {ε σ ρ : Type} (body : ε → σ → Flow σ ρ) : List ε → σ → Exit σ ρ
  | [], s => Exit.done s
  | x :: xs, s =>
    match body x s with
    | Flow.next s' => forRange body xs s'
    | Flow.brk s' => Exit.done s'
    | Flow.ret r => Exit.ret r

/-- an iteration with iterator f over the list of what the iterator is offered: stops after the
    first element for which f answers false; the Bool is false iff it was stopped -/
def iterate {ε σ : Type} (f : ε → σ → σ × Bool) : List ε → σ → σ × Bool
  | [], s => (s, true)
  | x :: xs, s =>
    match f x s with
    | (s', true) => iterate f xs s'
    | (s', false) => (s', false)

/-- xs[i] -/
def sliceAt {α : Type} [Inhabited α] (xs : List α) (i : Int) : α :=
  if i < 0 then default else xs.getD i.toNat default

`

func translateCollection(repo string) (string, error) {
	abs, err := filepath.Abs(repo)
	if err != nil {
		return "", err
	}
	first, err := clLoad(abs)
	if err != nil {
		return "", err
	}
	for _, g := range first.srcOrd {
		first.request(g)
	}
	// second pass: the functions found to be outside the subset are not translated at all, so that
	// they leave no field in Ops
	p, err := clLoad(abs)
	if err != nil {
		return "", err
	}
	for _, g := range first.srcOrd {
		if g.reason != "" {
			p.fns[g.name].reason = g.reason
		}
	}
	for _, g := range p.srcOrd {
		if g.reason != "" && g.state == 0 {
			g.state = 2
			p.order = append(p.order, g)
			continue
		}
		p.request(g)
	}
	var skipped []string
	for k := range clSkip {
		skipped = append(skipped, k)
	}
	sort.Strings(skipped)
	var b strings.Builder
	fmt.Fprintf(&b, clHeader, strings.Join(skipped, ", "))
	var tps []string
	for k := range p.tparams {
		tps = append(tps, k)
	}
	sort.Strings(tps)
	if len(tps) == 0 {
		tps = []string{"TCollection"}
	}
	b.WriteString("/-- the callees of the methods of *collection, one field per distinct callee found in the source.\n")
	for _, k := range tps {
		fmt.Fprintf(&b, "    %s = %s;\n", k, p.tparams[k])
	}
	b.WriteString("-/\n")
	fmt.Fprintf(&b, "structure Ops (%s : Type) where\n", strings.Join(tps, " "))
	var names []string
	for k := range p.ops {
		names = append(names, k)
	}
	sort.Strings(names)
	for _, k := range names {
		o := p.ops[k]
		fmt.Fprintf(&b, "  /-- %s -/\n  %s : %s\n", strings.ReplaceAll(o.comment, "-/", "- /"), o.name, o.leanType())
	}
	if len(names) == 0 {
		b.WriteString("  none_ : Unit\n")
	}
	for _, g := range p.order {
		b.WriteString("\n")
		if g.reason != "" {
			fmt.Fprintf(&b, "-- NOT TRANSLATED: %s\n", strings.ReplaceAll(g.reason, "\n", " "))
			fmt.Fprintf(&b, "/-- Go: `%s` — %s -/\nopaque %s_unrecognised : Unit\n", p.sigText(g.decl), p.pos(g.decl), g.lean)
			continue
		}
		fmt.Fprintf(&b, "/-- Go: `%s` — %s -/\n%s\n", p.sigText(g.decl), p.pos(g.decl), p.header(g, tps))
		for _, l := range g.lines {
			b.WriteString("  " + l + "\n")
		}
	}
	b.WriteString("\nend Geo.CGen\n")
	return b.String(), nil
}
