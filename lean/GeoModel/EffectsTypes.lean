/-
  GeoModel.EffectsTypes — the vocabulary of the generated effect table (C16) and the
  certificate checker, which is an ordinary total function evaluated by the kernel.
-/
namespace Geo.Effects

/-- provenance of a written address -/
inductive Lbl where
  | loc                     -- activation-local memory
  | param (i : Nat)         -- reachable from parameter i (0 = receiver)
  | global (name : String)  -- a package-level variable
  | unknown (why : String)  -- not understood by the extractor: treated as shared
deriving DecidableEq, Repr

structure Call where
  callees : List Nat            -- indices into the table (all possible targets of the call site)
  args : List (List Lbl)        -- non-local provenance of each argument
deriving Repr

structure Fn where
  name : String
  external : Bool               -- no body and no contract: poisons the certificate
  own : List Lbl                -- non-local labels written by the function's own instructions
  calls : List Call
  summary : List Lbl            -- certificate: everything the function may write through
deriving Repr

/-- a callee's label, seen from the caller through the call's arguments -/
def subst (args : List (List Lbl)) : Lbl → List Lbl
  | .param i => args.getD i [.unknown "argument-missing"]
  | l => [l]

def callOk (fns : Array Fn) (summary : List Lbl) (c : Call) : Bool :=
  c.callees.all fun g =>
    match fns[g]? with
    | none => false
    | some gf => gf.summary.all fun l => (subst c.args l).all fun l' => summary.contains l'

def fnOk (fns : Array Fn) (f : Fn) : Bool :=
  !f.external && f.own.all (fun l => f.summary.contains l) && f.calls.all (callOk fns f.summary)

/-- the certificate is closed: every function's summary covers its own writes and, through
    every call site, the summaries of all its possible callees -/
def certOk (fns : Array Fn) : Bool := fns.all (fnOk fns)

/-- a root writes at most through the parameters it is allowed to (AppendJSON: its buffer) -/
def rootOk (fns : Array Fn) (r : Nat × List Nat) : Bool :=
  match fns[r.1]? with
  | none => false
  | some f => f.summary.all fun l => match l with
    | .param i => r.2.contains i
    | _ => false

def rootsOk (fns : Array Fn) (roots : List (Nat × List Nat)) : Bool := roots.all (rootOk fns)

end Geo.Effects
