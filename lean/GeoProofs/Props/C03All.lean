/-
  C03, everything: Props/C03.lean (exact sub-cases, termination of the line walk, the D4/D5/D13
  counterexamples) and Props/C03General.lean (contains is exact against the specification whenever
  the boundaries avoid one another; the D19 counterexample).
-/
import GeoProofs.Props.C03
import GeoProofs.Props.C03General
