/-
  GeoProofs.Float.BridgeCast — the slope comparison of `Raycast` with a nudged ordinate.

  After the nudge the numerator `p.Y' - lo.Y` is ε = nextUp(y) - y ∈ [2^-1074, 2^-32]; the
  quotient ε/Δx (|Δx| ≥ 2^-4) is at most 2^-28 in magnitude (it may underflow to 0), while the
  edge slope (numerator ≥ 2^-4, denominator ≤ 2^21) is at least 2^-25 in magnitude.  Hence
  `ε/Δx >= slope` iff `slope < 0` iff `0 >= slope`, which is what the model computes.
-/
import GeoProofs.Float.BridgeRay

namespace Geo.F
open Geo

theorem neg_zpow_le_rn {x : ℚ} {k : ℤ} (hk : -1074 ≤ k) (h : -(2 : ℚ) ^ k ≤ x) :
    -(2 : ℚ) ^ k ≤ rn x := by
  have := rn_le_zpow (x := -x) hk (by linarith)
  rw [rn_neg] at this; linarith

theorem rn_le_neg_zpow {x : ℚ} {k : ℤ} (hk : -1074 ≤ k) (h : x ≤ -(2 : ℚ) ^ k) :
    rn x ≤ -(2 : ℚ) ^ k := by
  have := zpow_le_rn (x := -x) hk (by linarith)
  rw [rn_neg] at this; linarith

theorem slope_cmp_nudged {ly lx hy hx px : ℚ} (Ely : InE ly) (Elx : InE lx) (Ehy : InE hy)
    (Ehx : InE hx) (Epx : InE px) (hlh : ly < hy) (hpx : px ≠ lx) (hhx : hx ≠ lx) :
    (fdivF (fsub (nextUp ly) ly) (fsub px lx)).fge (fdivF (fsub hy ly) (fsub hx lx))
      = (Geo.fdiv (ly - ly) (px - lx)).fge (Geo.fdiv (hy - ly) (hx - lx)) := by
  rw [fsub_exact Epx Elx, fsub_exact Ehy Ely, fsub_exact Ehx Elx]
  have hΔ0 : px - lx ≠ 0 := sub_ne_zero.mpr hpx
  have hM0 : hx - lx ≠ 0 := sub_ne_zero.mpr hhx
  have DΔ := Epx.sub Elx
  have DN := Ehy.sub Ely
  have DM := Ehx.sub Elx
  have hN0 : hy - ly ≠ 0 := by linarith [sub_pos.mpr hlh]
  have hNpos : 0 < hy - ly := sub_pos.mpr hlh
  -- the nudged numerator
  obtain ⟨n1, n2⟩ := nextUp_E Ely
  have hε1 : (2 : ℚ) ^ (-1074 : ℤ) ≤ fsub (nextUp ly) ly := zpow_le_rn le_rfl n1
  have hε2 : fsub (nextUp ly) ly ≤ (2 : ℚ) ^ (-32 : ℤ) := rn_le_zpow (by norm_num) n2
  generalize fsub (nextUp ly) ly = ε at hε1 hε2
  have hεpos : 0 < ε := lt_of_lt_of_le (two_zpow_pos _) hε1
  rw [fdivF_ne hΔ0, fdivF_ne hM0, gfdiv_ne hΔ0, gfdiv_ne hM0]
  simp only [FQ.fge, sub_self, zero_div]
  apply decide_eq_decide.mpr
  -- the nudged quotient is tiny
  have hΔabs := DΔ.abs_ge hΔ0
  have hq : |ε / (px - lx)| ≤ (2 : ℚ) ^ (-28 : ℤ) := by
    rw [abs_div, abs_of_pos hεpos, div_le_iff₀ (by linarith)]
    norm_num at hε2 ⊢
    nlinarith
  obtain ⟨hq1, hq2⟩ := abs_le.mp hq
  have hr1 : -(2 : ℚ) ^ (-28 : ℤ) ≤ fdiv ε (px - lx) := neg_zpow_le_rn (by norm_num) hq1
  have hr2 : fdiv ε (px - lx) ≤ (2 : ℚ) ^ (-28 : ℤ) := rn_le_zpow (by norm_num) hq2
  -- the edge slope is not
  have hMle := DM.abs_le
  have hNge : 1 / 16 ≤ hy - ly := by
    have := DN.abs_ge hN0; rwa [abs_of_pos hNpos] at this
  rcases lt_or_gt_of_ne hM0 with hneg | hpos
  · rw [abs_of_neg hneg] at hMle
    have hs : (hy - ly) / (hx - lx) ≤ -(2 : ℚ) ^ (-25 : ℤ) := by
      rw [div_le_iff_of_neg hneg]
      norm_num
      nlinarith
    have hrs : fdiv (hy - ly) (hx - lx) ≤ -(2 : ℚ) ^ (-25 : ℤ) := rn_le_neg_zpow (by norm_num) hs
    have h25 := two_zpow_pos (-25)
    constructor
    · intro _; linarith
    · intro _
      norm_num at hrs hr1 ⊢
      linarith
  · rw [abs_of_pos hpos] at hMle
    have hs : (2 : ℚ) ^ (-25 : ℤ) ≤ (hy - ly) / (hx - lx) := by
      rw [le_div_iff₀ hpos]
      norm_num
      nlinarith
    have hrs : (2 : ℚ) ^ (-25 : ℤ) ≤ fdiv (hy - ly) (hx - lx) := zpow_le_rn (by norm_num) hs
    have h25 := two_zpow_pos (-25)
    constructor
    · intro h
      norm_num at hrs hr2 h
      linarith
    · intro h; linarith

theorem slope_cmp_exact {ly lx hy hx px py : ℚ} (Ely : InE ly) (Elx : InE lx) (Ehy : InE hy)
    (Ehx : InE hx) (Epx : InE px) (Epy : InE py) :
    (fdivF (fsub py ly) (fsub px lx)).fge (fdivF (fsub hy ly) (fsub hx lx))
      = (Geo.fdiv (py - ly) (px - lx)).fge (Geo.fdiv (hy - ly) (hx - lx)) := by
  rw [fsub_exact Epx Elx, fsub_exact Ehy Ely, fsub_exact Ehx Elx, fsub_exact Epy Ely]
  exact fge_bridge (Epy.sub Ely) (Epx.sub Elx) (Ehy.sub Ely) (Ehx.sub Elx)

end Geo.F
