package main

// objmeth: translates the methods of the LEAF and WRAPPER object kinds of the root package of <repo>
// (*Point, *SimplePoint, *LineString, *Polygon, *Rect, *Feature, *Circle and what *MultiPoint,
// *MultiLineString, *MultiPolygon, *GeometryCollection, *FeatureCollection declare themselves) into
// a Lean file (namespace Geo.OGen, core Lean only).  Not translated here (writers / parsers
// translators): AppendJSON, JSON, String, MarshalJSON and every function that is not a method of
// one of these types.  The methods of *collection are the business of the collection translator.
//
// The translation is driven by go/types (golang.org/x/tools/go/packages): the callee of every call,
// the struct behind every field read, the implicit conversions to interfaces and the embedded
// fields crossed by a selector are taken from the type checker, not guessed from the text.  The
// generated definitions are parametrised by `ops : Ops …`: one type parameter per Go type met and
// one field per distinct callee / field read / type assertion / conversion found in the source.
// See omHeader for the conventions.  The output is deterministic.
//
// Whatever is not recognised is emitted as `opaque <name>_unrecognised : Unit` preceded by the
// reason; a method that calls an unrecognised method is unrecognised itself.

import (
	"fmt"
	"go/ast"
	"go/constant"
	"go/token"
	"go/types"
	"path/filepath"
	"sort"
	"strconv"
	"strings"

	"golang.org/x/tools/go/packages"
)

func init() { translators["objmeth"] = translateObjMeth }

var omRecvTypes = []string{"Point", "SimplePoint", "LineString", "Polygon", "Rect", "Feature", "Circle",
	"MultiPoint", "MultiLineString", "MultiPolygon", "GeometryCollection", "FeatureCollection"}

var omSkip = map[string]bool{"AppendJSON": true, "JSON": true, "String": true, "MarshalJSON": true}

type omOp struct {
	name string
	ty   string // Lean type
	doc  string
}

type omFunc struct {
	fn     *types.Func
	decl   *ast.FuncDecl
	recv   string // name of the receiver type
	lean   string // <type><Method>
	state  int    // 0 = not yet translated, 1 = in progress, 2 = done
	head   string // binders and result type (without the type parameters and ops)
	sigTy  string // the Lean type of the definition after ops (for a rec_ field)
	iter   bool
	lines  []string
	reason string // why it is outside the subset ("" = translated)
	recOf  bool
	resTy  string // Lean result type
}

type omT struct {
	repo     string
	pkg      *packages.Package
	info     *types.Info
	fset     *token.FileSet
	ops      map[string]*omOp
	tparams  map[string]string // Lean type parameter -> what it stands for
	collide  map[string]bool   // capitalised names carried by two types of one package ("<pkgpath>.<Name>")
	funcs    map[*types.Func]*omFunc
	roots    []*omFunc
	order    []*omFunc
	nilField map[*types.Var]bool // fields compared with nil somewhere in the methods at hand
	stack    []*omFunc           // the methods being translated, innermost last
	opUsers  map[string]map[*omFunc]bool
	tpUsers  map[string]map[*omFunc]bool
}

// use: notes that the method being translated needs the Ops field / type parameter name; what only
// refused methods need is not emitted.
func (t *omT) use(m map[string]map[*omFunc]bool, name string) {
	if len(t.stack) == 0 {
		return
	}
	if m[name] == nil {
		m[name] = map[*omFunc]bool{}
	}
	m[name][t.stack[len(t.stack)-1]] = true
}

func omLive(m map[*omFunc]bool) bool {
	for f := range m {
		if f.reason == "" {
			return true
		}
	}
	return false
}

type omErr struct{ msg string }

func (e *omErr) Error() string { return e.msg }

func (t *omT) errf(n ast.Node, format string, a ...interface{}) error {
	return &omErr{fmt.Sprintf(format, a...) + " (" + t.pos(n.Pos()) + ")"}
}

func (t *omT) pos(p token.Pos) string {
	ps := t.fset.Position(p)
	if rel, err := filepath.Rel(t.repo, ps.Filename); err == nil && !strings.HasPrefix(rel, "..") {
		return fmt.Sprintf("%s:%d", filepath.ToSlash(rel), ps.Line)
	}
	// outside the repository (module cache): <module dir>/<file>
	dir := filepath.Base(filepath.Dir(ps.Filename))
	return fmt.Sprintf("%s/%s:%d", dir, filepath.Base(ps.Filename), ps.Line)
}

func omUpper(s string) string {
	if s == "" {
		return s
	}
	return strings.ToUpper(s[:1]) + s[1:]
}

func omLower(s string) string {
	if s == "" {
		return s
	}
	return strings.ToLower(s[:1]) + s[1:]
}

func omLoad(repo string) (*omT, error) {
	cfg := &packages.Config{Mode: packages.NeedName | packages.NeedFiles | packages.NeedCompiledGoFiles |
		packages.NeedImports | packages.NeedDeps | packages.NeedTypes | packages.NeedSyntax |
		packages.NeedTypesInfo, Dir: repo, Tests: false}
	pkgs, err := packages.Load(cfg, ".")
	if err != nil {
		return nil, err
	}
	if len(pkgs) != 1 {
		return nil, fmt.Errorf("expected one package, got %d", len(pkgs))
	}
	if len(pkgs[0].Errors) > 0 {
		return nil, fmt.Errorf("package load errors: %v", pkgs[0].Errors)
	}
	t := &omT{repo: repo, pkg: pkgs[0], info: pkgs[0].TypesInfo, fset: pkgs[0].Fset, ops: map[string]*omOp{},
		tparams: map[string]string{}, collide: map[string]bool{}, funcs: map[*types.Func]*omFunc{},
		nilField: map[*types.Var]bool{}, opUsers: map[string]map[*omFunc]bool{}, tpUsers: map[string]map[*omFunc]bool{}}
	if len(t.pkg.Syntax) > 0 {
		if abs := t.fset.Position(t.pkg.Syntax[0].Pos()).Filename; strings.Contains(abs, "/") {
			t.repo = filepath.Dir(abs)
		}
	}
	// names that differ only in the case of their first letter (collection / Collection)
	seen := map[string]string{}
	scan := func(p *types.Package) {
		names := p.Scope().Names()
		sort.Strings(names)
		for _, n := range names {
			if _, ok := p.Scope().Lookup(n).(*types.TypeName); !ok {
				continue
			}
			k := p.Path() + "." + omUpper(n)
			if prev, ok := seen[k]; ok && prev != n {
				t.collide[k] = true
			}
			seen[k] = n
		}
	}
	scan(t.pkg.Types)
	for _, imp := range t.pkg.Types.Imports() {
		scan(imp)
	}
	want := map[string]int{}
	for i, n := range omRecvTypes {
		want[n] = i
	}
	for _, f := range t.pkg.Syntax {
		for _, d := range f.Decls {
			fd, ok := d.(*ast.FuncDecl)
			if !ok || fd.Recv == nil || fd.Body == nil || omSkip[fd.Name.Name] {
				continue
			}
			fn, ok := t.info.Defs[fd.Name].(*types.Func)
			if !ok {
				continue
			}
			rn := omNamed(fn.Type().(*types.Signature).Recv().Type())
			if rn == nil || rn.Obj().Pkg() != t.pkg.Types {
				continue
			}
			if _, ok := want[rn.Obj().Name()]; !ok {
				continue
			}
			of := &omFunc{fn: fn, decl: fd, recv: rn.Obj().Name(), lean: omLower(rn.Obj().Name()) + omUpper(fd.Name.Name)}
			t.funcs[fn] = of
			t.roots = append(t.roots, of)
		}
	}
	sort.SliceStable(t.roots, func(i, j int) bool {
		a, b := t.roots[i], t.roots[j]
		if want[a.recv] != want[b.recv] {
			return want[a.recv] < want[b.recv]
		}
		pa, pb := t.fset.Position(a.decl.Pos()), t.fset.Position(b.decl.Pos())
		if pa.Filename != pb.Filename {
			return pa.Filename < pb.Filename
		}
		return pa.Offset < pb.Offset
	})
	names := map[string]*omFunc{}
	for _, f := range t.roots {
		if g, ok := names[f.lean]; ok {
			return nil, fmt.Errorf("the methods %s and %s get the same Lean name %s", g.fn.FullName(), f.fn.FullName(), f.lean)
		}
		names[f.lean] = f
	}
	t.findNilFields()
	return t, nil
}

// omNamed: the named type behind T or *T (aliases resolved), nil when there is none.
func omNamed(ty types.Type) *types.Named {
	ty = types.Unalias(ty)
	if p, ok := ty.(*types.Pointer); ok {
		ty = types.Unalias(p.Elem())
	}
	n, _ := ty.(*types.Named)
	return n
}

// findNilFields: the struct fields that some method at hand compares with nil.  Such a field is an
// Option in Lean; a nilable field that is never compared with nil is taken to be non-nil.
func (t *omT) findNilFields() {
	isNil := func(e ast.Expr) bool {
		id, ok := ast.Unparen(e).(*ast.Ident)
		if !ok {
			return false
		}
		_, ok = t.info.Uses[id].(*types.Nil)
		return ok
	}
	for _, f := range t.roots {
		ast.Inspect(f.decl.Body, func(n ast.Node) bool {
			b, ok := n.(*ast.BinaryExpr)
			if !ok || (b.Op != token.EQL && b.Op != token.NEQ) {
				return true
			}
			for _, pr := range [][2]ast.Expr{{b.X, b.Y}, {b.Y, b.X}} {
				if !isNil(pr[1]) {
					continue
				}
				if sel, ok := ast.Unparen(pr[0]).(*ast.SelectorExpr); ok {
					if s := t.info.Selections[sel]; s != nil && s.Kind() == types.FieldVal {
						t.nilField[s.Obj().(*types.Var)] = true
					}
				}
			}
			return true
		})
	}
}

// ---------------------------------------------------------------------------------------------
// types

// pkgLetter: T = root package, G = package geometry, X = another package.
func (t *omT) pkgLetter(p *types.Package) string {
	switch {
	case p == nil || p == t.pkg.Types:
		return "T"
	case p.Name() == "geometry":
		return "G"
	}
	return "X"
}

// baseName: the capitalised name of a named type, with I appended to an interface whose name
// collides with that of another type of its package (collection / Collection).
func (t *omT) baseName(n *types.Named) string {
	s := omUpper(n.Obj().Name())
	if n.Obj().Pkg() != nil && t.collide[n.Obj().Pkg().Path()+"."+s] {
		if _, ok := n.Underlying().(*types.Interface); ok {
			s += "I"
		}
	}
	return s
}

// param: the Lean type parameter standing for a named Go type (T and *T share it).
func (t *omT) param(n *types.Named) string {
	p := t.pkgLetter(n.Obj().Pkg()) + t.baseName(n)
	t.use(t.tpUsers, p)
	if _, ok := t.tparams[p]; !ok {
		what := n.Obj().Name()
		if n.Obj().Pkg() != nil && n.Obj().Pkg() != t.pkg.Types {
			what = n.Obj().Pkg().Name() + "." + what
		}
		switch n.Underlying().(type) {
		case *types.Interface:
			t.tparams[p] = "the Go interface type " + what
		default:
			t.tparams[p] = "the Go type " + what + " and *" + what + " (a pointer is taken to be non-nil unless it is read from a field that the methods at hand compare with nil, where it is an Option)"
		}
	}
	return p
}

// prefix: the prefix of the Ops fields about a named Go type.
func (t *omT) prefix(n *types.Named) string {
	b := t.baseName(n)
	switch t.pkgLetter(n.Obj().Pkg()) {
	case "T":
		if b == "Object" {
			return "obj"
		}
		return omLower(b)
	case "G":
		return "g" + b
	}
	return omLower(b)
}

func omAtomTy(s string) string {
	if strings.Contains(s, " ") {
		return "(" + s + ")"
	}
	return s
}

func (t *omT) isIface(ty types.Type) bool {
	_, ok := types.Unalias(ty).Underlying().(*types.Interface)
	return ok
}

// isIter: func(X) bool — an iterator.
func omIterSig(ty types.Type) *types.Signature {
	s, ok := types.Unalias(ty).Underlying().(*types.Signature)
	if !ok || s.Variadic() || s.Params().Len() != 1 || s.Results().Len() != 1 {
		return nil
	}
	if b, ok := types.Unalias(s.Results().At(0).Type()).(*types.Basic); !ok || b.Kind() != types.Bool {
		return nil
	}
	return s
}

func (t *omT) leanTy(ty types.Type) (string, error) {
	ty = types.Unalias(ty)
	switch u := ty.(type) {
	case *types.Basic:
		switch {
		case u.Info()&types.IsBoolean != 0:
			return "Bool", nil
		case u.Info()&types.IsInteger != 0:
			return "Int", nil
		case u.Info()&types.IsFloat != 0:
			t.tparams["F"] = "float64"
			t.use(t.tpUsers, "F")
			return "F", nil
		case u.Info()&types.IsString != 0:
			return "String", nil
		}
	case *types.Pointer:
		if n, ok := types.Unalias(u.Elem()).(*types.Named); ok {
			if _, isI := n.Underlying().(*types.Interface); !isI {
				return t.param(n), nil
			}
		}
	case *types.Named:
		switch n := u.Underlying().(type) {
		case *types.Struct, *types.Interface:
			if i, ok := n.(*types.Interface); ok && i.NumMethods() == 0 {
				break
			}
			return t.param(u), nil
		default:
			return t.leanTy(u.Underlying())
		}
	case *types.Slice:
		e, err := t.leanTy(u.Elem())
		if err != nil {
			return "", err
		}
		return "List " + omAtomTy(e), nil
	case *types.Array:
		e, err := t.leanTy(u.Elem())
		if err != nil {
			return "", err
		}
		return "List " + omAtomTy(e), nil
	case *types.Tuple:
		if u.Len() == 0 {
			return "Unit", nil
		}
		var parts []string
		for i := 0; i < u.Len(); i++ {
			e, err := t.leanTy(u.At(i).Type())
			if err != nil {
				return "", err
			}
			parts = append(parts, omAtomTy(e))
		}
		return strings.Join(parts, " × "), nil
	}
	return "", &omErr{"the type " + t.goTy(ty) + " is outside the subset"}
}

func (t *omT) goTy(ty types.Type) string {
	return types.TypeString(ty, func(p *types.Package) string {
		if p == t.pkg.Types {
			return ""
		}
		return p.Name()
	})
}

// op: registers an Ops field (the first registration wins; a second one must agree on the type).
func (t *omT) op(name, ty, doc string) (string, error) {
	t.use(t.opUsers, name)
	if o, ok := t.ops[name]; ok {
		if o.ty != ty {
			return "", &omErr{fmt.Sprintf("the Ops field %s is needed at two types: %s and %s", name, o.ty, ty)}
		}
		return "ops." + name, nil
	}
	t.ops[name] = &omOp{name: name, ty: ty, doc: doc}
	return "ops." + name, nil
}

// sigDoc: the declaration of a function or method, without its body, and where it stands.
func (t *omT) sigDoc(fn *types.Func) string {
	sig := fn.Type().(*types.Signature)
	q := func(p *types.Package) string {
		if p == fn.Pkg() {
			return ""
		}
		return p.Name()
	}
	var b strings.Builder
	if r := sig.Recv(); r != nil {
		if _, ok := types.Unalias(r.Type()).Underlying().(*types.Interface); ok {
			s := types.TypeString(sig, q)
			return fmt.Sprintf("Go: `%s%s` of interface %s — %s", fn.Name(), strings.TrimPrefix(s, "func"),
				t.goTy(r.Type()), t.pos(fn.Pos()))
		}
		fmt.Fprintf(&b, "func (%s %s) ", r.Name(), types.TypeString(r.Type(), q))
	} else {
		b.WriteString("func ")
	}
	b.WriteString(fn.Name())
	b.WriteString(strings.TrimPrefix(types.TypeString(sig, q), "func"))
	return fmt.Sprintf("Go: `%s` — %s", b.String(), t.pos(fn.Pos()))
}

// conv: the value s of Go type from where a value of type to is wanted.
func (t *omT) conv(s string, from, to types.Type, at ast.Node) (string, error) {
	if from == nil || to == nil || types.Identical(from, to) {
		return s, nil
	}
	if t.isIface(to) {
		tn, _ := types.Unalias(to).(*types.Named)
		fnm := omNamed(from)
		if tn == nil || fnm == nil {
			return "", t.errf(at, "conversion of %s to %s is outside the subset", t.goTy(from), t.goTy(to))
		}
		a, err := t.leanTy(from)
		if err != nil {
			return "", err
		}
		r, err := t.leanTy(to)
		if err != nil {
			return "", err
		}
		o, err := t.op(t.prefix(tn)+"Of"+t.baseName(fnm), omAtomTy(a)+" → "+r,
			fmt.Sprintf("the implicit conversion of a %s to the interface %s", t.goTy(from), t.goTy(to)))
		if err != nil {
			return "", err
		}
		return o + " " + omAtom(s), nil
	}
	fl, err1 := t.leanTy(from)
	tl, err2 := t.leanTy(to)
	if err1 == nil && err2 == nil && fl == tl {
		return s, nil
	}
	return "", t.errf(at, "conversion of %s to %s is outside the subset", t.goTy(from), t.goTy(to))
}

func omBalanced(s string) bool {
	d := 0
	for _, c := range s {
		switch c {
		case '(', '[':
			d++
		case ')', ']':
			if d--; d < 0 {
				return false
			}
		}
	}
	return d == 0
}

func omAtom(s string) string {
	if !strings.ContainsAny(s, " \n") {
		return s
	}
	if strings.HasPrefix(s, "(") && strings.HasSuffix(s, ")") && omBalanced(s[1:len(s)-1]) {
		return s
	}
	return "(" + s + ")"
}

func omIndent(lines []string) []string {
	out := make([]string, len(lines))
	for i, l := range lines {
		out[i] = "  " + l
	}
	return out
}

// ---------------------------------------------------------------------------------------------
// environment

var omReserved = map[string]bool{"in": true, "end": true, "from": true, "at": true, "open": true,
	"fun": true, "have": true, "show": true, "then": true, "do": true, "let": true, "rec": true,
	"match": true, "with": true, "where": true, "if": true, "else": true, "def": true, "ops": true,
	"instance": true, "structure": true, "namespace": true, "section": true, "variable": true,
	"theorem": true, "by": true, "forRange": true, "Type": true, "some": true, "none": true,
	"true": true, "false": true, "decide": true, "opaque": true, "inductive": true, "mutual": true}

type omEnv struct {
	f      *omFunc
	names  map[types.Object]string // variable -> Lean name
	used   map[string]bool         // shared by the whole function
	guards map[string]string       // Go text of a nilable field read known to be non-nil -> its Lean name
	iter   types.Object            // the iterator parameter
}

func (e *omEnv) clone() *omEnv {
	c := &omEnv{f: e.f, names: map[types.Object]string{}, used: e.used, guards: map[string]string{}, iter: e.iter}
	for k, v := range e.names {
		c.names[k] = v
	}
	for k, v := range e.guards {
		c.guards[k] = v
	}
	return c
}

func (e *omEnv) fresh(base string) string {
	if omReserved[base] {
		base += "_"
	}
	s := base
	for i := 1; e.used[s]; i++ {
		s = fmt.Sprintf("%s_%d", base, i)
	}
	e.used[s] = true
	return s
}

// bind: the Lean name of a Go variable; one name per variable, two variables never share one.
func (e *omEnv) bind(o types.Object) string {
	if s, ok := e.names[o]; ok {
		return s
	}
	n := o.Name()
	if n == "_" || n == "" {
		n = "x"
	}
	s := e.fresh(n)
	e.names[o] = s
	return s
}

func (t *omT) text(n ast.Node) string {
	var b strings.Builder
	var w func(e ast.Expr)
	w = func(e ast.Expr) {
		switch e := e.(type) {
		case *ast.Ident:
			// two variables of the same name are different paths
			if o := t.info.Uses[e]; o != nil {
				fmt.Fprintf(&b, "%s@%d", e.Name, o.Pos())
			} else {
				b.WriteString(e.Name)
			}
		case *ast.SelectorExpr:
			w(e.X)
			b.WriteString("." + e.Sel.Name)
		case *ast.ParenExpr:
			w(e.X)
		case *ast.StarExpr:
			w(e.X)
		default:
			fmt.Fprintf(&b, "?%d", e.Pos())
		}
	}
	if e, ok := n.(ast.Expr); ok {
		w(e)
	}
	return b.String()
}

// ---------------------------------------------------------------------------------------------
// expressions

func (t *omT) isNilIdent(e ast.Expr) bool {
	id, ok := ast.Unparen(e).(*ast.Ident)
	if !ok {
		return false
	}
	_, ok = t.info.Uses[id].(*types.Nil)
	return ok
}

// constant: a constant expression by its value.
func (t *omT) constant(e ast.Expr, tv types.TypeAndValue) (string, error) {
	b, _ := types.Unalias(tv.Type).Underlying().(*types.Basic)
	if b == nil {
		return "", t.errf(e, "constant of type %s is outside the subset", t.goTy(tv.Type))
	}
	switch {
	case b.Info()&types.IsBoolean != 0:
		if constant.BoolVal(tv.Value) {
			return "true", nil
		}
		return "false", nil
	case b.Info()&types.IsInteger != 0:
		s := tv.Value.ExactString()
		if strings.HasPrefix(s, "-") {
			return "(" + s + ")", nil
		}
		return s, nil
	case b.Info()&types.IsString != 0:
		s := constant.StringVal(tv.Value)
		for _, c := range s {
			if c < 0x20 || c > 0x7e {
				return "", t.errf(e, "string constant with a character outside printable ASCII")
			}
		}
		return strconv.Quote(s), nil
	}
	return "", t.errf(e, "%s constant is outside the subset", t.goTy(tv.Type))
}

// optField: e reads a struct field that is an Option here (none = nil): the Option-valued Lean term.
func (t *omT) optField(e ast.Expr, env *omEnv) (string, bool, error) {
	sel, ok := ast.Unparen(e).(*ast.SelectorExpr)
	if !ok {
		return "", false, nil
	}
	s := t.info.Selections[sel]
	if s == nil || s.Kind() != types.FieldVal || !t.nilField[s.Obj().(*types.Var)] {
		return "", false, nil
	}
	v, err := t.fieldRead(sel, s, env)
	return v, true, err
}

// fieldRead: x.f, every embedded field crossed on the way made explicit.
func (t *omT) fieldRead(sel *ast.SelectorExpr, s *types.Selection, env *omEnv) (string, error) {
	cur, err := t.expr(sel.X, env)
	if err != nil {
		return "", err
	}
	return t.walk(cur, s.Recv(), s.Index(), sel)
}

// walk: follows the field path idx from a value cur of type ty.
func (t *omT) walk(cur string, ty types.Type, idx []int, at ast.Node) (string, error) {
	for k, i := range idx {
		n := omNamed(ty)
		if n == nil {
			return "", t.errf(at, "field of an unnamed type")
		}
		st, ok := n.Underlying().(*types.Struct)
		if !ok {
			return "", t.errf(at, "field of a non-struct type")
		}
		f := st.Field(i)
		a, err := t.leanTy(ty)
		if err != nil {
			return "", err
		}
		r, err := t.leanTy(f.Type())
		if err != nil {
			return "", err
		}
		doc := fmt.Sprintf("field %s of %s — %s", f.Name(), t.goTy(n), t.pos(f.Pos()))
		if t.nilField[f] {
			if k < len(idx)-1 {
				return "", t.errf(at, "the embedded field %s is compared with nil", f.Name())
			}
			r = "Option " + omAtomTy(r)
			doc += " (none = nil)"
		} else if _, ok := types.Unalias(f.Type()).(*types.Pointer); ok || t.isIface(f.Type()) {
			doc += " (never compared with nil by the methods at hand: taken to be non-nil)"
		}
		o, err := t.op(t.prefix(n)+"_"+f.Name(), omAtomTy(a)+" → "+r, doc)
		if err != nil {
			return "", err
		}
		cur = o + " " + omAtom(cur)
		ty = f.Type()
	}
	return cur, nil
}

func (t *omT) isFloat(ty types.Type) bool {
	b, ok := types.Unalias(ty).Underlying().(*types.Basic)
	return ok && b.Info()&types.IsFloat != 0
}

func (t *omT) isInt(ty types.Type) bool {
	b, ok := types.Unalias(ty).Underlying().(*types.Basic)
	return ok && b.Info()&types.IsInteger != 0
}

func (t *omT) isBoolOrString(ty types.Type) bool {
	b, ok := types.Unalias(ty).Underlying().(*types.Basic)
	return ok && b.Info()&(types.IsBoolean|types.IsString) != 0
}

func (t *omT) fop(name, ty, doc string) (string, error) {
	t.tparams["F"] = "float64"
	t.use(t.tpUsers, "F")
	return t.op(name, ty, doc)
}

func (t *omT) binary(e *ast.BinaryExpr, env *omEnv) (string, error) {
	// comparison of a nilable field with nil, outside a condition
	if e.Op == token.EQL || e.Op == token.NEQ {
		for _, pr := range [][2]ast.Expr{{e.X, e.Y}, {e.Y, e.X}} {
			if t.isNilIdent(pr[1]) {
				o, ok, err := t.optField(pr[0], env)
				if err != nil {
					return "", err
				}
				if !ok {
					return "", t.errf(e, "comparison of something other than a struct field with nil")
				}
				if e.Op == token.EQL {
					return "Option.isNone " + omAtom(o), nil
				}
				return "Option.isSome " + omAtom(o), nil
			}
		}
	}
	x, err := t.expr(e.X, env)
	if err != nil {
		return "", err
	}
	y, err := t.expr(e.Y, env)
	if err != nil {
		return "", err
	}
	xt := t.info.TypeOf(e.X)
	ax, ay := omAtom(x), omAtom(y)
	switch {
	case e.Op == token.LAND:
		return ax + " && " + ay, nil
	case e.Op == token.LOR:
		return ax + " || " + ay, nil
	case t.isFloat(xt):
		ar := map[token.Token]string{token.ADD: "fAdd", token.SUB: "fSub", token.MUL: "fMul", token.QUO: "fDiv"}
		if n, ok := ar[e.Op]; ok {
			o, err := t.fop(n, "F → F → F", "float64 "+e.Op.String())
			return o + " " + ax + " " + ay, err
		}
		switch e.Op {
		case token.LSS, token.GTR:
			o, err := t.fop("fLt", "F → F → Bool", "float64 < (a > b is b < a)")
			if e.Op == token.GTR {
				ax, ay = ay, ax
			}
			return o + " " + ax + " " + ay, err
		case token.LEQ, token.GEQ:
			o, err := t.fop("fLe", "F → F → Bool", "float64 <= (a >= b is b <= a)")
			if e.Op == token.GEQ {
				ax, ay = ay, ax
			}
			return o + " " + ax + " " + ay, err
		case token.EQL, token.NEQ:
			o, err := t.fop("fEq", "F → F → Bool", "float64 == (a != b is !(a == b))")
			if e.Op == token.NEQ {
				return "!(" + o + " " + ax + " " + ay + ")", err
			}
			return o + " " + ax + " " + ay, err
		}
	case t.isInt(xt):
		switch e.Op {
		case token.ADD, token.SUB, token.MUL:
			return ax + " " + e.Op.String() + " " + ay, nil
		case token.QUO:
			return "Int.tdiv " + ax + " " + ay, nil
		case token.REM:
			return "Int.tmod " + ax + " " + ay, nil
		case token.EQL:
			return ax + " == " + ay, nil
		case token.NEQ:
			return ax + " != " + ay, nil
		case token.LSS, token.LEQ, token.GTR, token.GEQ:
			return "decide (" + ax + " " + map[token.Token]string{token.LSS: "<", token.LEQ: "≤", token.GTR: ">", token.GEQ: "≥"}[e.Op] + " " + ay + ")", nil
		}
	case t.isBoolOrString(xt):
		switch e.Op {
		case token.EQL:
			return ax + " == " + ay, nil
		case token.NEQ:
			return ax + " != " + ay, nil
		case token.ADD:
			return ax + " ++ " + ay, nil
		}
	}
	return "", t.errf(e, "operator %s on %s is outside the subset", e.Op, t.goTy(xt))
}

func (t *omT) expr(e ast.Expr, env *omEnv) (string, error) {
	if tv, ok := t.info.Types[e]; ok && tv.Value != nil {
		return t.constant(e, tv)
	}
	switch e := e.(type) {
	case *ast.ParenExpr:
		return t.expr(e.X, env)
	case *ast.Ident:
		o := t.info.Uses[e]
		switch o := o.(type) {
		case *types.Var:
			if o == env.iter {
				return "", t.errf(e, "the iterator %s is used as a value", e.Name)
			}
			if s, ok := env.names[o]; ok {
				return s, nil
			}
			return "", t.errf(e, "the variable %s is not a parameter or a local variable", e.Name)
		case *types.Nil:
			return "", t.errf(e, "nil used as a value")
		}
		return "", t.errf(e, "the identifier %s is outside the subset", e.Name)
	case *ast.StarExpr: // *p: T and *T share a Lean type
		return t.expr(e.X, env)
	case *ast.UnaryExpr:
		switch e.Op {
		case token.AND: // &x: T and *T share a Lean type
			if _, ok := ast.Unparen(e.X).(*ast.CompositeLit); ok {
				return "", t.errf(e, "composite literal")
			}
			return t.expr(e.X, env)
		case token.NOT:
			x, err := t.expr(e.X, env)
			return "!" + omAtom(x), err
		case token.SUB:
			x, err := t.expr(e.X, env)
			if err != nil {
				return "", err
			}
			if t.isInt(t.info.TypeOf(e.X)) {
				return "-" + omAtom(x), nil
			}
			if t.isFloat(t.info.TypeOf(e.X)) {
				o, err := t.fop("fNeg", "F → F", "float64 unary -")
				return o + " " + omAtom(x), err
			}
		}
		return "", t.errf(e, "unary %s is outside the subset", e.Op)
	case *ast.BinaryExpr:
		return t.binary(e, env)
	case *ast.SelectorExpr:
		s := t.info.Selections[e]
		if s == nil {
			return "", t.errf(e, "the qualified identifier %s.%s is outside the subset", t.text(e.X), e.Sel.Name)
		}
		if s.Kind() != types.FieldVal {
			return "", t.errf(e, "method value")
		}
		if t.nilField[s.Obj().(*types.Var)] {
			if g, ok := env.guards[t.text(e)]; ok {
				return g, nil
			}
			return "", t.errf(e, "the nilable field %s is used without a nil test", e.Sel.Name)
		}
		return t.fieldRead(e, s, env)
	case *ast.CallExpr:
		return t.call(e, env)
	}
	return "", t.errf(e, "expression %T is outside the subset", e)
}

// callee: the function or method a call refers to.
func (t *omT) callee(c *ast.CallExpr) *types.Func {
	switch f := ast.Unparen(c.Fun).(type) {
	case *ast.Ident:
		fn, _ := t.info.Uses[f].(*types.Func)
		return fn
	case *ast.SelectorExpr:
		fn, _ := t.info.Uses[f.Sel].(*types.Func)
		return fn
	}
	return nil
}

func (t *omT) call(c *ast.CallExpr, env *omEnv) (string, error) {
	if tv, ok := t.info.Types[c.Fun]; ok && tv.IsType() { // conversion
		if len(c.Args) == 1 && t.isFloat(tv.Type) && t.isInt(t.info.TypeOf(c.Args[0])) {
			x, err := t.expr(c.Args[0], env)
			if err != nil {
				return "", err
			}
			o, err := t.fop("fOfInt", "Int → F", "the conversion float64(i) of an integer")
			return o + " " + omAtom(x), err
		}
		return "", t.errf(c, "conversion to %s is outside the subset", t.goTy(tv.Type))
	}
	if id, ok := ast.Unparen(c.Fun).(*ast.Ident); ok {
		if b, ok := t.info.Uses[id].(*types.Builtin); ok {
			if b.Name() == "len" && len(c.Args) == 1 {
				if _, ok := types.Unalias(t.info.TypeOf(c.Args[0])).Underlying().(*types.Slice); ok {
					x, err := t.expr(c.Args[0], env)
					return "Int.ofNat (List.length " + omAtom(x) + ")", err
				}
			}
			return "", t.errf(c, "the builtin %s is outside the subset", b.Name())
		}
		if o := t.info.Uses[id]; o != nil && o == env.iter {
			return "", t.errf(c, "a call of the iterator %s may only stand as a returned value", id.Name)
		}
	}
	fn := t.callee(c)
	if fn == nil {
		return "", t.errf(c, "call of something other than a declared function or method")
	}
	sig := fn.Type().(*types.Signature)
	if sig.Variadic() || c.Ellipsis.IsValid() {
		return "", t.errf(c, "variadic call")
	}
	if sig.Results().Len() == 0 {
		return "", t.errf(c, "call of %s, which has no result, as a value", fn.Name())
	}
	var args []string
	var argTys []string
	head := ""
	doc := t.sigDoc(fn)
	if sig.Recv() != nil {
		sel := ast.Unparen(c.Fun).(*ast.SelectorExpr)
		s := t.info.Selections[sel]
		if s == nil || s.Kind() != types.MethodVal {
			return "", t.errf(c, "method expression")
		}
		recv, err := t.expr(sel.X, env)
		if err != nil {
			return "", err
		}
		rty := s.Recv()
		// embedded fields crossed on the way to the method: explicit for the structs of the root package
		if idx := s.Index(); len(idx) > 1 {
			if n := omNamed(rty); n != nil && n.Obj().Pkg() == t.pkg.Types {
				recv, err = t.walk(recv, rty, idx[:len(idx)-1], c)
				if err != nil {
					return "", err
				}
				for _, i := range idx[:len(idx)-1] {
					rty = omNamed(rty).Underlying().(*types.Struct).Field(i).Type()
				}
			}
		}
		rn := omNamed(rty)
		if rn == nil {
			return "", t.errf(c, "method of an unnamed type")
		}
		if tf, ok := t.funcs[fn]; ok && !t.isIface(rty) {
			h, err := t.direct(tf, c)
			if err != nil {
				return "", err
			}
			head = h
		} else {
			head = t.prefix(rn) + omUpper(fn.Name())
			if fn.Pkg() != nil && fn.Pkg() != t.pkg.Types && t.pkgLetter(fn.Pkg()) == "X" {
				doc = fmt.Sprintf("method %s of %s (package %s, not part of the repository)", fn.Name(), t.goTy(rty), fn.Pkg().Name())
			}
		}
		rl, err := t.leanTy(rty)
		if err != nil {
			return "", err
		}
		args = append(args, omAtom(recv))
		argTys = append(argTys, omAtomTy(rl))
	} else {
		switch t.pkgLetter(fn.Pkg()) {
		case "T":
			head = "fn_" + fn.Name()
		case "G":
			head = "gfn_" + fn.Name()
		default:
			head = "fn_" + fn.Pkg().Name() + "_" + fn.Name()
		}
	}
	if len(c.Args) != sig.Params().Len() {
		return "", t.errf(c, "call with a multi-valued argument")
	}
	for i, a := range c.Args {
		if _, ok := ast.Unparen(a).(*ast.FuncLit); ok {
			return "", t.errf(a, "function literal as an argument")
		}
		pt := sig.Params().At(i).Type()
		if omIterSig(pt) != nil {
			return "", t.errf(a, "handing on an iterator")
		}
		x, err := t.expr(a, env)
		if err != nil {
			return "", err
		}
		if x, err = t.conv(x, t.info.TypeOf(a), pt, a); err != nil {
			return "", err
		}
		pl, err := t.leanTy(pt)
		if err != nil {
			return "", err
		}
		args = append(args, omAtom(x))
		argTys = append(argTys, omAtomTy(pl))
	}
	var res types.Type = sig.Results()
	if sig.Results().Len() == 1 {
		res = sig.Results().At(0).Type()
	}
	rl, err := t.leanTy(res)
	if err != nil {
		return "", err
	}
	if !strings.Contains(head, " ") && !strings.HasPrefix(head, "ops.") { // an Ops field
		if head, err = t.op(head, strings.Join(append(argTys, rl), " → "), doc); err != nil {
			return "", err
		}
	}
	return head + " " + strings.Join(args, " "), nil
}

// direct: the head of a direct call of a method translated here: its definition (callees first),
// or the field rec_<name> when the call closes a cycle.
func (t *omT) direct(tf *omFunc, at ast.Node) (string, error) {
	if tf.state == 0 {
		t.translate(tf)
	}
	if tf.state == 1 {
		if tf.iter {
			return "", t.errf(at, "recursive call of a method that takes an iterator")
		}
		tf.recOf = true
		o, err := t.op("rec_"+tf.lean, tf.sigTy, fmt.Sprintf("the recursive calls of %s (*%s).%s: whoever instantiates ops ties the knot", tf.lean, tf.recv, tf.fn.Name()))
		return o, err
	}
	if tf.reason != "" {
		return "", t.errf(at, "calls %s, which is not translated", tf.lean)
	}
	if tf.iter {
		return "", t.errf(at, "direct call of a method that takes an iterator")
	}
	return tf.lean + " ops", nil
}

// ---------------------------------------------------------------------------------------------
// statements (continuation style: a statement list becomes one expression)

type omCont struct {
	end  func(env *omEnv) ([]string, error)           // control falls off the end of the list
	ret  func(v string, env *omEnv) ([]string, error) // return v (v: the result value of the method)
	brk  func(env *omEnv) ([]string, error)           // nil outside a loop
	cont func(env *omEnv) ([]string, error)
}

func (t *omT) block(list []ast.Stmt, env *omEnv, k omCont) ([]string, error) {
	if len(list) == 0 {
		return k.end(env)
	}
	s, rest := list[0], list[1:]
	kRest := k
	kRest.end = func(env *omEnv) ([]string, error) { return t.block(rest, env, k) }
	switch s := s.(type) {
	case *ast.EmptyStmt:
		return t.block(rest, env, k)
	case *ast.BlockStmt:
		return t.block(s.List, env, kRest)
	case *ast.ReturnStmt:
		v, err := t.retValue(s, env)
		if err != nil {
			return nil, err
		}
		return k.ret(v, env)
	case *ast.BranchStmt:
		if s.Label == nil && s.Tok == token.BREAK && k.brk != nil {
			return k.brk(env)
		}
		if s.Label == nil && s.Tok == token.CONTINUE && k.cont != nil {
			return k.cont(env)
		}
		return nil, t.errf(s, "%s here is outside the subset", s.Tok)
	case *ast.AssignStmt:
		l, err := t.assign(s, env)
		if err != nil {
			return nil, err
		}
		r, err := t.block(rest, env, k)
		return append(l, r...), err
	case *ast.IncDecStmt:
		o, name, err := t.localVar(s.X, env)
		if err != nil {
			return nil, err
		}
		if !t.isInt(o.Type()) {
			return nil, t.errf(s, "%s on a non-integer", s.Tok)
		}
		op := " + 1"
		if s.Tok == token.DEC {
			op = " - 1"
		}
		r, err := t.block(rest, env, k)
		return append([]string{"let " + name + " : Int := " + name + op}, r...), err
	case *ast.DeclStmt:
		l, err := t.decl(s, env)
		if err != nil {
			return nil, err
		}
		r, err := t.block(rest, env, k)
		return append(l, r...), err
	case *ast.IfStmt:
		return t.ifStmt(s, env, kRest)
	case *ast.RangeStmt:
		return t.rangeStmt(s, env, kRest)
	case *ast.TypeSwitchStmt:
		return t.typeSwitch(s, env, kRest)
	}
	return nil, t.errf(s, "statement %T is outside the subset", s)
}

// retValue: the result value of the method for `return e…`.
func (t *omT) retValue(s *ast.ReturnStmt, env *omEnv) (string, error) {
	sig := env.f.fn.Type().(*types.Signature)
	if len(s.Results) != sig.Results().Len() {
		return "", t.errf(s, "return with named or multi-valued results")
	}
	if env.f.iter {
		// return iter(x) | return e
		if len(s.Results) != 1 {
			return "", t.errf(s, "a method that takes an iterator must return one bool")
		}
		if c, ok := ast.Unparen(s.Results[0]).(*ast.CallExpr); ok {
			if id, ok := ast.Unparen(c.Fun).(*ast.Ident); ok && t.info.Uses[id] == env.iter && len(c.Args) == 1 {
				x, err := t.expr(c.Args[0], env)
				if err != nil {
					return "", err
				}
				pt := omIterSig(env.iter.Type()).Params().At(0).Type()
				if x, err = t.conv(x, t.info.TypeOf(c.Args[0]), pt, c); err != nil {
					return "", err
				}
				return env.names[env.iter] + " " + omAtom(x) + " it'", nil
			}
		}
		x, err := t.expr(s.Results[0], env)
		return "(it', " + x + ")", err
	}
	var parts []string
	for i, r := range s.Results {
		x, err := t.expr(r, env)
		if err != nil {
			return "", err
		}
		if x, err = t.conv(x, t.info.TypeOf(r), sig.Results().At(i).Type(), r); err != nil {
			return "", err
		}
		parts = append(parts, x)
	}
	switch len(parts) {
	case 0:
		return "()", nil
	case 1:
		return parts[0], nil
	}
	return "(" + strings.Join(parts, ", ") + ")", nil
}

// localVar: e names a local variable (not a field, not memory behind a pointer).
func (t *omT) localVar(e ast.Expr, env *omEnv) (types.Object, string, error) {
	id, ok := ast.Unparen(e).(*ast.Ident)
	if !ok {
		return nil, "", t.errf(e, "assignment to something other than a local variable (a write to memory)")
	}
	o := t.info.Uses[id]
	if o == nil {
		o = t.info.Defs[id]
	}
	v, ok := o.(*types.Var)
	if !ok || v.IsField() || v.Parent() == t.pkg.Types.Scope() || v == env.iter {
		return nil, "", t.errf(e, "assignment to %s, which is not a local variable", id.Name)
	}
	return v, env.bind(v), nil
}

func (t *omT) assign(s *ast.AssignStmt, env *omEnv) ([]string, error) {
	if len(s.Lhs) != 1 || len(s.Rhs) != 1 {
		return nil, t.errf(s, "assignment of several values")
	}
	if id, ok := s.Lhs[0].(*ast.Ident); ok && id.Name == "_" {
		return nil, t.errf(s, "assignment to _")
	}
	// the right-hand side is evaluated before the variable is (re)bound
	var rhs string
	var err error
	rty := t.info.TypeOf(s.Rhs[0])
	if s.Tok == token.DEFINE || s.Tok == token.ASSIGN {
		if rhs, err = t.expr(s.Rhs[0], env); err != nil {
			return nil, err
		}
	} else {
		ops := map[token.Token]token.Token{token.ADD_ASSIGN: token.ADD, token.SUB_ASSIGN: token.SUB,
			token.MUL_ASSIGN: token.MUL, token.QUO_ASSIGN: token.QUO}
		op, ok := ops[s.Tok]
		if !ok {
			return nil, t.errf(s, "assignment operator %s is outside the subset", s.Tok)
		}
		b := &ast.BinaryExpr{X: s.Lhs[0], Op: op, Y: s.Rhs[0], OpPos: s.TokPos}
		if rhs, err = t.binary(b, env); err != nil {
			return nil, err
		}
		rty = t.info.TypeOf(s.Lhs[0])
	}
	o, name, err := t.localVar(s.Lhs[0], env)
	if err != nil {
		return nil, err
	}
	if rhs, err = t.conv(rhs, rty, o.Type(), s); err != nil {
		return nil, err
	}
	ty, err := t.leanTy(o.Type())
	if err != nil {
		return nil, err
	}
	return []string{"let " + name + " : " + ty + " := " + rhs}, nil
}

func (t *omT) decl(s *ast.DeclStmt, env *omEnv) ([]string, error) {
	gd, ok := s.Decl.(*ast.GenDecl)
	if !ok || gd.Tok != token.VAR {
		return nil, t.errf(s, "local declaration other than var")
	}
	var out []string
	for _, sp := range gd.Specs {
		vs := sp.(*ast.ValueSpec)
		if len(vs.Values) != 0 && len(vs.Values) != len(vs.Names) {
			return nil, t.errf(s, "var with a multi-valued initialiser")
		}
		for i, id := range vs.Names {
			o := t.info.Defs[id]
			if o == nil {
				return nil, t.errf(s, "var _")
			}
			ty, err := t.leanTy(o.Type())
			if err != nil {
				return nil, err
			}
			var v string
			if len(vs.Values) > 0 {
				if v, err = t.expr(vs.Values[i], env); err != nil {
					return nil, err
				}
				if v, err = t.conv(v, t.info.TypeOf(vs.Values[i]), o.Type(), s); err != nil {
					return nil, err
				}
			} else {
				switch ty {
				case "Bool":
					v = "false"
				case "Int":
					v = "0"
				case "String":
					v = `""`
				default:
					return nil, t.errf(s, "zero value of %s is outside the subset", t.goTy(o.Type()))
				}
			}
			out = append(out, "let "+env.bind(o)+" : "+ty+" := "+v)
		}
	}
	return out, nil
}

type omArm func(env *omEnv) ([]string, error)

// cond: `if c then yes else no`; a test of a nilable field against nil becomes a match that binds
// the non-nil value; && is split when one of its sides holds such a test.
func (t *omT) cond(c ast.Expr, env *omEnv, yes, no omArm) ([]string, error) {
	c = ast.Unparen(c)
	hasNil := func(e ast.Expr) bool {
		found := false
		ast.Inspect(e, func(n ast.Node) bool {
			if b, ok := n.(*ast.BinaryExpr); ok && (b.Op == token.EQL || b.Op == token.NEQ) &&
				(t.isNilIdent(b.X) || t.isNilIdent(b.Y)) {
				found = true
			}
			return !found
		})
		return found
	}
	if hasNil(c) {
		switch b := c.(type) {
		case *ast.UnaryExpr:
			if b.Op == token.NOT {
				return t.cond(b.X, env, no, yes)
			}
		case *ast.BinaryExpr:
			switch b.Op {
			case token.LAND:
				return t.cond(b.X, env, func(env *omEnv) ([]string, error) { return t.cond(b.Y, env, yes, no) }, no)
			case token.LOR:
				return t.cond(b.X, env, yes, func(env *omEnv) ([]string, error) { return t.cond(b.Y, env, yes, no) })
			case token.EQL, token.NEQ:
				x := b.X
				if t.isNilIdent(x) {
					x = b.Y
				}
				if b.Op == token.EQL {
					yes, no = no, yes
				}
				if g, ok := env.guards[t.text(x)]; ok { // already known to be non-nil
					_ = g
					return yes(env)
				}
				o, ok, err := t.optField(x, env)
				if err != nil {
					return nil, err
				}
				if !ok {
					return nil, t.errf(c, "comparison of something other than a struct field with nil")
				}
				sel := ast.Unparen(x).(*ast.SelectorExpr)
				name := env.fresh(sel.Sel.Name + "'")
				in := env.clone()
				in.guards[t.text(x)] = name
				a, err := yes(in)
				if err != nil {
					return nil, err
				}
				bb, err := no(env)
				if err != nil {
					return nil, err
				}
				out := []string{"(match " + o + " with", "| some " + name + " =>"}
				out = append(out, omIndent(a)...)
				out = append(out, "| none =>")
				out = append(out, omIndent(bb)...)
				out[len(out)-1] += ")"
				return out, nil
			}
		}
		return nil, t.errf(c, "a nil test inside this condition is outside the subset")
	}
	x, err := t.expr(c, env)
	if err != nil {
		return nil, err
	}
	a, err := yes(env)
	if err != nil {
		return nil, err
	}
	b, err := no(env)
	if err != nil {
		return nil, err
	}
	out := []string{"if " + x + " then"}
	out = append(out, omIndent(a)...)
	if len(b) > 0 && strings.HasPrefix(b[0], "if ") {
		out = append(out, "else "+b[0])
		return append(out, b[1:]...), nil
	}
	out = append(out, "else")
	return append(out, omIndent(b)...), nil
}

// assertOp: the field for the type assertion x.(T), x of interface type.
func (t *omT) assertOp(xty, target types.Type, at ast.Node) (string, error) {
	xn, _ := types.Unalias(xty).(*types.Named)
	tn := omNamed(target)
	if xn == nil || tn == nil || !t.isIface(xty) {
		return "", t.errf(at, "type assertion from %s to %s is outside the subset", t.goTy(xty), t.goTy(target))
	}
	a, err := t.leanTy(xty)
	if err != nil {
		return "", err
	}
	r, err := t.leanTy(target)
	if err != nil {
		return "", err
	}
	nm := t.baseName(tn)
	if l := t.pkgLetter(tn.Obj().Pkg()); l != "T" {
		nm = l + nm
	}
	return t.op(t.prefix(xn)+"As"+nm, omAtomTy(a)+" → Option "+omAtomTy(r),
		fmt.Sprintf("the dynamic type test `x.(%s)` on a %s: some v when it succeeds (v the value at that type), none otherwise", t.goTy(target), t.goTy(xty)))
}

func (t *omT) ifStmt(s *ast.IfStmt, env *omEnv, k omCont) ([]string, error) {
	yes := func(env *omEnv) ([]string, error) { return t.block(s.Body.List, env, k) }
	no := func(env *omEnv) ([]string, error) {
		switch e := s.Else.(type) {
		case nil:
			return k.end(env)
		case *ast.BlockStmt:
			return t.block(e.List, env, k)
		case *ast.IfStmt:
			return t.ifStmt(e, env, k)
		}
		return nil, t.errf(s, "else branch outside the subset")
	}
	if s.Init == nil {
		return t.cond(s.Cond, env, yes, no)
	}
	// if v, ok := x.(T); ok { … }
	if as, ok := s.Init.(*ast.AssignStmt); ok && as.Tok == token.DEFINE && len(as.Lhs) == 2 && len(as.Rhs) == 1 {
		if ta, ok := ast.Unparen(as.Rhs[0]).(*ast.TypeAssertExpr); ok && ta.Type != nil {
			okId, _ := as.Lhs[1].(*ast.Ident)
			cId, _ := ast.Unparen(s.Cond).(*ast.Ident)
			vId, _ := as.Lhs[0].(*ast.Ident)
			if okId == nil || cId == nil || vId == nil || t.info.Defs[okId] == nil || t.info.Uses[cId] != t.info.Defs[okId] {
				return nil, t.errf(s, "a comma-ok type assertion must be tested by `; ok`")
			}
			used := false
			ast.Inspect(s.Body, func(n ast.Node) bool {
				if id, ok := n.(*ast.Ident); ok && t.info.Uses[id] == t.info.Defs[okId] {
					used = true
				}
				return true
			})
			if s.Else != nil {
				ast.Inspect(s.Else, func(n ast.Node) bool {
					if id, ok := n.(*ast.Ident); ok && (t.info.Uses[id] == t.info.Defs[okId] ||
						(t.info.Defs[vId] != nil && t.info.Uses[id] == t.info.Defs[vId])) {
						used = true
					}
					return true
				})
			}
			if used {
				return nil, t.errf(s, "the results of the type assertion are used beyond the `; ok` test")
			}
			x, err := t.expr(ta.X, env)
			if err != nil {
				return nil, err
			}
			o, err := t.assertOp(t.info.TypeOf(ta.X), t.info.TypeOf(ta.Type), ta)
			if err != nil {
				return nil, err
			}
			name := "_"
			if vo := t.info.Defs[vId]; vo != nil {
				name = env.bind(vo)
			}
			a, err := yes(env)
			if err != nil {
				return nil, err
			}
			b, err := no(env)
			if err != nil {
				return nil, err
			}
			out := []string{"(match " + o + " " + omAtom(x) + " with", "| some " + name + " =>"}
			out = append(out, omIndent(a)...)
			out = append(out, "| none =>")
			out = append(out, omIndent(b)...)
			out[len(out)-1] += ")"
			return out, nil
		}
	}
	var pre []string
	var err error
	switch in := s.Init.(type) {
	case *ast.AssignStmt:
		pre, err = t.assign(in, env)
	default:
		err = t.errf(s, "this if-initialiser is outside the subset")
	}
	if err != nil {
		return nil, err
	}
	r, err := t.cond(s.Cond, env, yes, no)
	return append(pre, r...), err
}

// typeSwitch: `switch v := x.(type)`: the cases are tried in order, the default last — a chain of
// matches on the assertion fields, one link per case of the source.
func (t *omT) typeSwitch(s *ast.TypeSwitchStmt, env *omEnv, k omCont) ([]string, error) {
	if s.Init != nil {
		return nil, t.errf(s, "type switch with an initialiser")
	}
	var ta *ast.TypeAssertExpr
	switch a := s.Assign.(type) {
	case *ast.AssignStmt:
		ta, _ = ast.Unparen(a.Rhs[0]).(*ast.TypeAssertExpr)
	case *ast.ExprStmt:
		ta, _ = ast.Unparen(a.X).(*ast.TypeAssertExpr)
	}
	if ta == nil {
		return nil, t.errf(s, "type switch of an unexpected form")
	}
	x, err := t.expr(ta.X, env)
	if err != nil {
		return nil, err
	}
	xty := t.info.TypeOf(ta.X)
	xl, err := t.leanTy(xty)
	if err != nil {
		return nil, err
	}
	var pre []string
	if strings.Contains(x, " ") {
		n := env.fresh("sw'")
		pre = []string{"let " + n + " : " + xl + " := " + x}
		x = n
	}
	kIn := k
	kIn.brk = nil // break would leave the switch, not the loop
	var cases []*ast.CaseClause
	var def *ast.CaseClause
	for _, c := range s.Body.List {
		cc := c.(*ast.CaseClause)
		if cc.List == nil {
			def = cc
		} else {
			cases = append(cases, cc)
		}
	}
	var link func(i int) ([]string, error)
	link = func(i int) ([]string, error) {
		if i == len(cases) {
			if def == nil {
				return k.end(env)
			}
			var l []string
			if o := t.info.Implicits[def]; o != nil {
				l = []string{"let " + env.bind(o) + " : " + xl + " := " + x}
			}
			b, err := t.block(def.Body, env, kIn)
			return append(l, b...), err
		}
		cc := cases[i]
		if len(cc.List) != 1 || t.isNilIdent(cc.List[0]) {
			return nil, t.errf(cc, "a case with several types or nil is outside the subset")
		}
		o, err := t.assertOp(xty, t.info.TypeOf(cc.List[0]), cc)
		if err != nil {
			return nil, err
		}
		name := "_"
		if vo := t.info.Implicits[cc]; vo != nil {
			name = env.bind(vo)
		}
		a, err := t.block(cc.Body, env, kIn)
		if err != nil {
			return nil, err
		}
		b, err := link(i + 1)
		if err != nil {
			return nil, err
		}
		out := []string{"(match " + o + " " + x + " with", "| some " + name + " =>"}
		out = append(out, omIndent(a)...)
		out = append(out, "| none =>")
		out = append(out, omIndent(b)...)
		out[len(out)-1] += ")"
		return out, nil
	}
	r, err := link(0)
	return append(pre, r...), err
}

// rangeStmt: `for _, x := range xs { body }` ↦ forRange over the list, the state being the tuple of
// the variables of the enclosing scopes that the body assigns.
func (t *omT) rangeStmt(s *ast.RangeStmt, env *omEnv, k omCont) ([]string, error) {
	if s.Tok != token.DEFINE || s.Value == nil {
		return nil, t.errf(s, "range loop without `_, x :=`")
	}
	if kid, ok := s.Key.(*ast.Ident); !ok || kid.Name != "_" {
		return nil, t.errf(s, "range loop that uses the index")
	}
	vid, ok := s.Value.(*ast.Ident)
	if !ok {
		return nil, t.errf(s, "range loop variable of an unexpected form")
	}
	sl, ok := types.Unalias(t.info.TypeOf(s.X)).Underlying().(*types.Slice)
	if !ok {
		return nil, t.errf(s, "range over something other than a slice")
	}
	xs, err := t.expr(s.X, env)
	if err != nil {
		return nil, err
	}
	el, err := t.leanTy(sl.Elem())
	if err != nil {
		return nil, err
	}
	// the state: outer variables assigned in the body, in order of first assignment
	var state []types.Object
	seen := map[types.Object]bool{}
	returns := false
	var bad error
	ast.Inspect(s.Body, func(n ast.Node) bool {
		note := func(e ast.Expr) {
			if id, ok := ast.Unparen(e).(*ast.Ident); ok {
				if o, ok := t.info.Uses[id].(*types.Var); ok && !seen[o] && !o.IsField() &&
					(o.Pos() < s.Body.Pos() || o.Pos() > s.Body.End()) && o != t.info.Defs[vid] {
					seen[o] = true
					state = append(state, o)
				}
			}
		}
		switch n := n.(type) {
		case *ast.FuncLit:
			bad = t.errf(n, "function literal")
			return false
		case *ast.AssignStmt:
			if n.Tok != token.DEFINE {
				for _, l := range n.Lhs {
					note(l)
				}
			}
		case *ast.IncDecStmt:
			note(n.X)
		case *ast.ReturnStmt:
			returns = true
		}
		return true
	})
	if bad != nil {
		return nil, bad
	}
	var names, tys []string
	for _, o := range state {
		n, ok := env.names[o]
		if !ok {
			return nil, t.errf(s, "the loop assigns %s, which is not a local variable", o.Name())
		}
		ty, err := t.leanTy(o.Type())
		if err != nil {
			return nil, err
		}
		names, tys = append(names, n), append(tys, omAtomTy(ty))
	}
	sigma, tuple := "Unit", "()"
	if len(names) == 1 {
		sigma, tuple = tys[0], names[0]
	} else if len(names) > 1 {
		sigma, tuple = strings.Join(tys, " × "), "("+strings.Join(names, ", ")+")"
	}
	unpack := func() []string {
		var out []string
		for i, n := range names {
			p := "st'"
			if len(names) > 1 {
				for j := 0; j < i; j++ {
					p += ".2"
				}
				if i < len(names)-1 {
					p += ".1"
				}
			}
			out = append(out, "let "+n+" : "+strings.TrimSuffix(strings.TrimPrefix(tys[i], "("), ")")+" := "+p)
		}
		return out
	}
	rho := "Empty"
	if returns {
		rho = omAtomTy(env.f.resTy)
	}
	next := func(env *omEnv) ([]string, error) { return []string{"Flow.next " + tuple}, nil }
	kb := omCont{end: next, cont: next,
		brk: func(env *omEnv) ([]string, error) { return []string{"Flow.brk " + tuple}, nil },
		ret: func(v string, env *omEnv) ([]string, error) { return []string{"Flow.ret " + omAtom(v)}, nil }}
	x := env.bind(t.info.Defs[vid])
	body, err := t.block(s.Body.List, env, kb)
	if err != nil {
		return nil, err
	}
	out := []string{fmt.Sprintf("(match forRange (σ := %s) (ρ := %s) (fun (%s : %s) (st' : %s) =>", sigma, rho, x, el, sigma)}
	out = append(out, omIndent(omIndent(append(unpack(), body...)))...)
	out[len(out)-1] += fmt.Sprintf(") %s %s with", omAtom(xs), tuple)
	if returns {
		r, err := k.ret("r'", env)
		if err != nil {
			return nil, err
		}
		if len(r) == 1 {
			out = append(out, "| Exit.ret r' => "+r[0])
		} else {
			out = append(out, "| Exit.ret r' =>")
			out = append(out, omIndent(r)...)
		}
	} else {
		out = append(out, "| Exit.ret r' => nomatch r'")
	}
	out = append(out, "| Exit.done st' =>")
	rest, err := k.end(env)
	if err != nil {
		return nil, err
	}
	out = append(out, omIndent(append(unpack(), rest...))...)
	out[len(out)-1] += ")"
	return out, nil
}

// ---------------------------------------------------------------------------------------------
// methods

func (t *omT) translate(f *omFunc) {
	f.state = 1
	t.stack = append(t.stack, f)
	lines, err := t.method(f)
	t.stack = t.stack[:len(t.stack)-1]
	f.state = 2
	if err != nil {
		f.reason = err.Error()
		f.lines = nil
	} else {
		f.lines = lines
	}
	t.order = append(t.order, f)
}

func (t *omT) method(f *omFunc) ([]string, error) {
	sig := f.fn.Type().(*types.Signature)
	env := &omEnv{f: f, names: map[types.Object]string{}, used: map[string]bool{"ops": true, "iter'": true}, guards: map[string]string{}}
	var binders, tys []string
	add := func(v *types.Var, ty types.Type) error {
		l, err := t.leanTy(ty)
		if err != nil {
			return err
		}
		binders = append(binders, "("+env.bind(v)+" : "+l+")")
		tys = append(tys, omAtomTy(l))
		return nil
	}
	if err := add(sig.Recv(), sig.Recv().Type()); err != nil {
		return nil, err
	}
	if _, ok := types.Unalias(sig.Recv().Type()).(*types.Pointer); !ok {
		return nil, t.errf(f.decl, "value receiver")
	}
	for i := 0; i < sig.Params().Len(); i++ {
		p := sig.Params().At(i)
		if _, ok := types.Unalias(p.Type()).Underlying().(*types.Signature); ok {
			is := omIterSig(p.Type())
			if is == nil || f.iter {
				return nil, t.errf(f.decl, "a function parameter that is not the one iterator func(x T) bool")
			}
			el, err := t.leanTy(is.Params().At(0).Type())
			if err != nil {
				return nil, err
			}
			f.iter = true
			env.iter = p
			binders = append(binders, "("+env.bind(p)+" : "+omAtomTy(el)+" → σ → σ × Bool) (it' : σ)")
			continue
		}
		if err := add(p, p.Type()); err != nil {
			return nil, err
		}
	}
	if sig.Variadic() {
		return nil, t.errf(f.decl, "variadic method")
	}
	for i := 0; i < sig.Results().Len(); i++ {
		if sig.Results().At(i).Name() != "" {
			return nil, t.errf(f.decl, "named results")
		}
	}
	var res types.Type = sig.Results()
	if sig.Results().Len() == 1 {
		res = sig.Results().At(0).Type()
	}
	rl, err := t.leanTy(res)
	if err != nil {
		return nil, err
	}
	if f.iter {
		if rl != "Bool" {
			return nil, t.errf(f.decl, "a method that takes an iterator must return one bool")
		}
		rl = "σ × Bool"
	}
	f.resTy = rl
	f.head = strings.Join(binders, " ") + " : " + rl
	f.sigTy = strings.Join(append(tys, rl), " → ")
	k := omCont{
		ret: func(v string, env *omEnv) ([]string, error) { return []string{v}, nil },
		end: func(env *omEnv) ([]string, error) {
			if sig.Results().Len() > 0 {
				return nil, t.errf(f.decl, "the method may end without a return")
			}
			return []string{"()"}, nil
		}}
	return t.block(f.decl.Body.List, env, k)
}

// ---------------------------------------------------------------------------------------------
// driver

const omHeader = `/-
  GENERATED FILE — do not edit.  Regenerate with
      cd /verif/translate && go build -o bin/translate . && \
        ./bin/translate objmeth /repo > /verif/lean/GeoModel/Generated/ObjMethGen.lean

  Translation (translate/objmeth.go, go/ast + go/types) of the methods that the leaf and wrapper object
  kinds of the root package declare: %s.
  Not translated here: %s (writers translator), the parse functions (parsers translator), the methods
  of *collection (collection translator, CollGen.lean).

  Conventions:
    * the definitions are parametrised by ` + "`ops : Ops …`" + `: one type parameter per Go type met in the source
      (root package T<Name>, package geometry G<Name>, another package X<Name>; T and *T share one
      parameter: &x ↦ x, *p ↦ p — no translated method writes to memory, a write is refused; an
      interface whose name collides with a struct's gets the suffix I: Collection ↦ TCollectionI;
      float64 ↦ F, int ↦ Int (unbounded), []T ↦ List T) and one field per distinct callee, field read,
      dynamic type test and interface conversion found in the source:
        method M called on a value of static type T ↦ <t>M (Object ↦ obj…, Spatial ↦ spatial…,
        geometry.Rect ↦ gRect…, *collection ↦ collection…), typed from the callee's signature; a call
        through an interface (Object, Spatial, Collection) is the DYNAMIC DISPATCH supplied by whoever
        instantiates ops — when the dynamic type is one of the types at hand it is the method
        translated here (recursion through the interface);
        field f of struct T ↦ <t>_f, every embedded field crossed by a selector made explicit
        (g.children on a *MultiLineString ↦ collection_children (multiLineString_collection g)); a
        pointer or interface field that some method at hand compares with nil is an Option (none =
        nil), one that is never compared with nil is taken to be non-nil;
        package-level function f ↦ fn_f (gfn_f: package geometry, fn_<pkg>_f: another package);
        x.(T) in ` + "`if v, ok := x.(T); ok`" + ` or in a type switch ↦ <x>As<T> : X → Option T;
        the implicit conversion of a T to an interface I ↦ <i>Of<T>;
        float64 arithmetic and comparisons ↦ fAdd, fLe, … (F is abstract).
      The callees are taken to be pure and the receiver to be non-nil;
    * ` + "`switch v := x.(type) { case A: …; case B: …; default: … }`" + ` ↦ a chain of matches, one link per case
      in source order, the default last:  match ops.<x>AsA x with | some v => … | none => match
      ops.<x>AsB x with …  (removing a case removes its link);
    * ` + "`if x.f != nil {A} else {B}`" + ` on a nilable field ↦ match ops.<t>_f x with | some f' => A | none => B (a
      && of such tests is split); elsewhere x.f != nil ↦ Option.isSome; a use of a nilable field that is
      not dominated by such a test is refused;
    * a statement list becomes one expression, continuation style; x := e, x = e, x += e, x++, var x T ↦
      let (one Lean name per Go variable: a second variable of the same name gets a suffix _1, …);
      the statements after an ` + "`if`" + ` / type switch are copied into every arm that falls through;
    * ` + "`for _, x := range xs { body }`" + ` ↦ forRange (fun x st' => body) xs st, st the tuple of the variables
      of the enclosing scopes that the body assigns: end of body / continue ↦ Flow.next, break ↦
      Flow.brk, return e ↦ Flow.ret e; ρ := Empty when the body does not return;
    * a method that TAKES an iterator func(x T) bool (ForEach) ↦ a definition polymorphic in the state σ
      of the iterator, (iter : T → σ → σ × Bool) (it' : σ) : σ × Bool; ` + "`return iter(x)`" + ` ↦ iter x it';
    * a direct call of a method translated here ↦ a call of its definition (callees first); a call
      that closes a cycle ↦ the Ops field rec_<name>.
  Anything outside the recognised subset appears below as  opaque <name>_unrecognised : Unit.

  Translated (%d):
    %s.
  Refused (%d):
    %s.
-/

set_option linter.unusedVariables false

namespace Geo.OGen

/-- how one pass through a loop body ends -/
inductive Flow (σ ρ : Type) where
  | next (s : σ) : Flow σ ρ
  | brk (s : σ) : Flow σ ρ
  | ret (r : ρ) : Flow σ ρ

/-- how a loop ends: normally (or by break) with the final state, or by ` + "`return r`" + ` -/
inductive Exit (σ ρ : Type) where
  | done (s : σ) : Exit σ ρ
  | ret (r : ρ) : Exit σ ρ

/-- a range loop over the list of the values of its variable -/
def forRange {ε σ ρ : Type} (body : ε → σ → Flow σ ρ) : List ε → σ → Exit σ ρ
  | [], s => Exit.done s
  | x :: xs, s =>
    match body x s with
    | Flow.next s' => forRange body xs s'
    | Flow.brk s' => Exit.done s'
    | Flow.ret r => Exit.ret r

`

// omWrap: a comma-separated list broken into lines of about 100 characters.
func omWrap(items []string, indent string) string {
	var b strings.Builder
	n := 0
	for i, it := range items {
		if i > 0 {
			b.WriteString(",")
			if n+len(it) > 96 {
				b.WriteString("\n" + indent)
				n = 0
			} else {
				b.WriteString(" ")
			}
		}
		b.WriteString(it)
		n += len(it) + 2
	}
	return b.String()
}

func translateObjMeth(repo string) (string, error) {
	t, err := omLoad(repo)
	if err != nil {
		return "", err
	}
	for _, f := range t.roots {
		if f.state == 0 {
			t.translate(f)
		}
	}
	// a method that calls a refused method was refused on the spot (direct); nothing to propagate
	var done, refused []string
	for _, f := range t.roots {
		if f.reason == "" {
			done = append(done, f.lean)
		} else {
			refused = append(refused, f.lean)
		}
	}
	var skipped []string
	for k := range omSkip {
		skipped = append(skipped, k)
	}
	sort.Strings(skipped)
	var recvs []string
	for _, r := range omRecvTypes {
		recvs = append(recvs, "*"+r)
	}
	var params []string
	for p := range t.tparams {
		if omLive(t.tpUsers[p]) {
			params = append(params, p)
		}
	}
	sort.Strings(params)
	plist := strings.Join(params, " ")
	var sb strings.Builder
	rs := omWrap(refused, "    ")
	if rs == "" {
		rs = "none"
	}
	fmt.Fprintf(&sb, omHeader, strings.Join(recvs, ", "), strings.Join(skipped, ", "), len(done), omWrap(done, "    "), len(refused), rs)
	sb.WriteString("/-- the callees of the methods at hand, one field per distinct callee / field read / type test /\n    conversion found in the source.\n")
	for _, p := range params {
		fmt.Fprintf(&sb, "    %s = %s;\n", p, t.tparams[p])
	}
	sb.WriteString("-/\n")
	fmt.Fprintf(&sb, "structure Ops (%s : Type) where\n", plist)
	var onames []string
	for n := range t.ops {
		if omLive(t.opUsers[n]) {
			onames = append(onames, n)
		}
	}
	sort.Strings(onames)
	for _, n := range onames {
		o := t.ops[n]
		fmt.Fprintf(&sb, "  /-- %s -/\n  %s : %s\n", strings.ReplaceAll(o.doc, "-/", "- /"), o.name, o.ty)
	}
	fmt.Fprintf(&sb, "\nvariable {%s : Type}\n\n", plist)
	for _, f := range t.order {
		doc := t.sigDoc(f.fn)
		if f.reason != "" {
			fmt.Fprintf(&sb, "/-- %s\n    NOT TRANSLATED: %s -/\nopaque %s_unrecognised : Unit\n\n", doc, strings.ReplaceAll(f.reason, "-/", "- /"), f.lean)
			continue
		}
		sg := ""
		if f.iter {
			sg = " {σ : Type}"
		}
		fmt.Fprintf(&sb, "/-- %s -/\ndef %s%s (ops : Ops %s) %s :=\n", doc, f.lean, sg, plist, f.head)
		for _, l := range f.lines {
			sb.WriteString("  " + l + "\n")
		}
		sb.WriteString("\n")
	}
	sb.WriteString("end Geo.OGen\n")
	return sb.String(), nil
}
