/-
  GeoProofs.Intersects.Shapes — `Geom.intersects` against `Spec.meets` for valid shapes whose
  polygons have no holes, all 16 pairs of kinds, un-indexed series.

  Both sides are reduced to "the two point sets share a point":
  * `meets_iff`: `Spec.meets A B = true ↔ ∃ x, A.member x ∧ B.member x`  (specification level:
    a vertex of one in the other, or two edges meet — complete by `regions_meet_iff` and
    `region_meets_segment_iff`);
  * `intersects_iff`: `(build A).intersects (build B) = true ↔ ∃ x, A.member x ∧ B.member x`
    (model level, from the exactness theorems of `GeoProofs.Intersects.Model`).
-/
import GeoProofs.Intersects.Model

namespace Geo
open GL Jordan IX

/-- the un-indexed geometry of the model for a shape of the specification -/
def build : Spec.Shape → Geom
  | .point p => .point p
  | .rect lo hi => .rect ⟨lo, hi⟩
  | .line pts => .line (mkSeries pts.toArray false .none 0)
  | .poly ext holes =>
    .poly ⟨some (.ser (mkSeries ext.toArray true .none 0)),
      holes.map (fun h => Ring.ser (mkSeries h.toArray true .none 0))⟩

/-- the polygon (if the shape is one) has no holes -/
def Spec.Shape.noHoles : Spec.Shape → Prop
  | .poly _ hs => hs = []
  | _ => True

namespace IX

/-! ### facts about the four kinds of shapes -/

structure ShapeFacts (S : Spec.Shape) : Prop where
  ne : S.nonEmpty = true
  vmem : ∀ v ∈ S.vertices, S.member v = true
  ends : ∀ e ∈ S.edges, e.1 ∈ S.vertices ∧ e.2 ∈ S.vertices
  emem : ∀ e ∈ S.edges, ∀ x, OnSeg e.1 e.2 x → S.member x = true
  kind : (∀ x, S.member x = Spec.onBoundary S.edges x) ∨
    (∃ C, S.edges = Spec.edges C true ∧ ∀ x, S.member x = Spec.inRing (Spec.edges C true) x)

theorem edges_ends (pts : List Pt) (closed : Bool) (e : Pt × Pt) (he : e ∈ Spec.edges pts closed) :
    e.1 ∈ pts ∧ e.2 ∈ pts := by
  obtain ⟨i, hi, rfl⟩ := edges_mem_segmentAt pts.toArray closed e he
  exact segmentAt_mem pts.toArray closed i hi

theorem vertex_onBoundary (pts : List Pt) (closed : Bool)
    (hne : ((closed && decide (pts.length < 3)) || decide (pts.length < 2)) = false)
    (v : Pt) (hv : v ∈ pts) : Spec.onBoundary (Spec.edges pts closed) v = true := by
  obtain ⟨j, hj, rfl⟩ := List.getElem_of_mem hv
  have he : (mkSeries pts.toArray closed .none 0).empty = false := by
    unfold Series.empty
    simpa using hne
  obtain ⟨i, hi, hon⟩ := vertex_on_segment (mkSeries pts.toArray closed .none 0) he j (by simpa using hj)
  have : (mkSeries pts.toArray closed .none 0).pts[j]! = pts[j] := by
    show pts.toArray[j]! = _
    rw [getElem!_pos pts.toArray j (by simpa using hj)]
    simp
  rw [this] at hon
  exact onBoundary_of_onSeg (segmentAt_mem_edges pts.toArray closed i hi) hon

theorem facts_point (a : Pt) : ShapeFacts (.point a) where
  ne := rfl
  vmem := by
    intro v hv
    simp only [Spec.Shape.vertices, List.mem_cons, List.not_mem_nil, or_false] at hv
    subst hv
    simp [Spec.Shape.member]
  ends := by
    intro e he
    simp only [Spec.Shape.edges, List.mem_cons, List.not_mem_nil, or_false] at he
    subst he
    simp [Spec.Shape.vertices]
  emem := by
    intro e he x hx
    simp only [Spec.Shape.edges, List.mem_cons, List.not_mem_nil, or_false] at he
    subst he
    have := K.onSeg_degenerate.1 hx
    simp [Spec.Shape.member, this]
  kind := by
    left
    intro x
    rw [Bool.eq_iff_iff, Geo.onBoundary_iff]
    simp only [Spec.Shape.member, decide_eq_true_eq, Spec.Shape.edges, List.mem_cons, List.not_mem_nil,
      or_false, exists_eq_left]
    constructor
    · rintro rfl; exact K.onSeg_left _ _
    · intro h; exact (K.onSeg_degenerate.1 h).symm

theorem rect_member (lo hi : Pt) (hv : (Spec.Shape.rect lo hi).valid = true) (x : Pt) :
    (Spec.Shape.rect lo hi).member x = Spec.inRing (Spec.edges (Spec.rectPts lo hi) true) x := by
  simp only [Spec.Shape.valid, Bool.and_eq_true, decide_eq_true_eq] at hv
  rw [← rectContainsPoint_spec]
  exact (inRing_rect ⟨lo, hi⟩ hv x).symm

theorem facts_region (S : Spec.Shape) (C : List Pt) (hne : S.nonEmpty = true)
    (hE : S.edges = Spec.edges C true)
    (hm : ∀ x, S.member x = Spec.inRing (Spec.edges C true) x)
    (hV : ∀ v ∈ S.vertices, Spec.onBoundary (Spec.edges C true) v = true)
    (hends : ∀ e ∈ Spec.edges C true, e.1 ∈ S.vertices ∧ e.2 ∈ S.vertices) : ShapeFacts S where
  ne := hne
  vmem := fun v hv => by rw [hm]; exact inRing_of_onBoundary (hV v hv)
  ends := fun e he => hends e (hE ▸ he)
  emem := fun e he x hx => by
    rw [hm]; exact inRing_of_onBoundary (onBoundary_of_onSeg (hE ▸ he) hx)
  kind := Or.inr ⟨C, hE, hm⟩

theorem facts_rect (lo hi : Pt) (hv : (Spec.Shape.rect lo hi).valid = true) :
    ShapeFacts (.rect lo hi) := by
  refine facts_region _ (Spec.rectPts lo hi) rfl rfl (rect_member lo hi hv) ?_ ?_
  · intro v hv
    have h0 : Spec.onBoundary (Spec.edges (Spec.rectPts lo hi) true) lo = true :=
      onBoundary_of_onSeg (e := (lo, ⟨hi.x, lo.y⟩)) (by rw [rect_edges]; simp) (K.onSeg_left _ _)
    have h1 : Spec.onBoundary (Spec.edges (Spec.rectPts lo hi) true) ⟨hi.x, lo.y⟩ = true :=
      onBoundary_of_onSeg (e := (lo, ⟨hi.x, lo.y⟩)) (by rw [rect_edges]; simp) (K.onSeg_right _ _)
    have h2 : Spec.onBoundary (Spec.edges (Spec.rectPts lo hi) true) hi = true :=
      onBoundary_of_onSeg (e := (hi, ⟨lo.x, hi.y⟩)) (by rw [rect_edges]; simp) (K.onSeg_left _ _)
    have h3 : Spec.onBoundary (Spec.edges (Spec.rectPts lo hi) true) ⟨lo.x, hi.y⟩ = true :=
      onBoundary_of_onSeg (e := (hi, ⟨lo.x, hi.y⟩)) (by rw [rect_edges]; simp) (K.onSeg_right _ _)
    simp only [Spec.Shape.vertices, Spec.rectPts, List.mem_cons, List.not_mem_nil, or_false] at hv
    rcases hv with rfl | rfl | rfl | rfl | rfl <;> assumption
  · intro e he
    exact edges_ends _ _ e he

theorem facts_line (pts : List Pt) (hv : (Spec.Shape.line pts).valid = true) :
    ShapeFacts (.line pts) := by
  have hlen : 2 ≤ pts.length := by
    simp only [Spec.Shape.valid, Spec.validLine, Bool.and_eq_true, decide_eq_true_eq] at hv
    exact hv.1
  exact {
    ne := by simp [Spec.Shape.nonEmpty, hlen]
    vmem := fun v hv => vertex_onBoundary pts false (by simp; omega) v hv
    ends := fun e he => edges_ends pts false e he
    emem := fun e he x hx => onBoundary_of_onSeg he hx
    kind := Or.inl (fun _ => rfl) }

theorem simpleRing_length {pts : List Pt} (h : Spec.simpleRing pts = true) : 3 ≤ pts.length := by
  by_contra hc
  have he : Spec.edges pts true = [] := by
    unfold Spec.edges
    simp [show pts.length < 3 by omega]
  unfold Spec.simpleRing at h
  rw [he] at h
  simp at h

theorem facts_poly (ext : List Pt) (hv : (Spec.Shape.poly ext []).valid = true) :
    ShapeFacts (.poly ext []) := by
  have hs : Spec.simpleRing ext = true := by
    simp only [Spec.Shape.valid, Bool.and_eq_true] at hv
    exact hv.1.1.1
  have hlen := simpleRing_length hs
  refine facts_region _ ext ?_ ?_ ?_ ?_ ?_
  · simp [Spec.Shape.nonEmpty, hlen]
  · simp [Spec.Shape.edges]
  · intro x; simp [Spec.Shape.member]
  · intro v hv
    simp only [Spec.Shape.vertices, List.flatten_nil, List.append_nil] at hv
    exact vertex_onBoundary ext true (by simp; omega) v hv
  · intro e he
    simp only [Spec.Shape.vertices, List.flatten_nil, List.append_nil]
    exact edges_ends ext true e he

theorem facts_of_valid (S : Spec.Shape) (hv : S.valid = true) (hnh : S.noHoles) : ShapeFacts S := by
  cases S with
  | point a => exact facts_point a
  | rect lo hi => exact facts_rect lo hi hv
  | line pts => exact facts_line pts hv
  | poly ext hs =>
    have : hs = [] := hnh
    subst this
    exact facts_poly ext hv

/-! ### `Spec.meets` is "share a point" -/

theorem segsMeet_comm (a b c d : Pt) : Spec.segsMeet a b c d = Spec.segsMeet c d a b := by
  rw [Bool.eq_iff_iff, spec_segsMeet_iff, spec_segsMeet_iff]
  exact K.segsMeet_symm _ _ _ _

/-- a point of the curve `EA` in the closed region of the chain `C`: an endpoint of an edge of
    the curve lies in the region, or an edge of the curve meets an edge of the chain -/
theorem curve_region (EA : List (Pt × Pt)) (C : List Pt) (x : Pt)
    (hx : Spec.onBoundary EA x = true) (hin : Spec.inRing (Spec.edges C true) x = true) :
    (∃ e ∈ EA, Spec.inRing (Spec.edges C true) e.1 = true ∨ Spec.inRing (Spec.edges C true) e.2 = true) ∨
    (∃ e ∈ EA, ∃ f ∈ Spec.edges C true, Spec.segsMeet e.1 e.2 f.1 f.2 = true) := by
  obtain ⟨e, he, hon⟩ := (Geo.onBoundary_iff _ _).1 hx
  rcases (region_meets_segment_iff C e.1 e.2).1 ⟨x, hon, hin⟩ with h | h | ⟨f, hf, hm⟩
  · exact Or.inl ⟨e, he, Or.inl h⟩
  · exact Or.inl ⟨e, he, Or.inr h⟩
  · exact Or.inr ⟨e, he, f, hf, by rw [segsMeet_comm]; exact hm⟩

/-- a boundary / curve point of `A` that belongs to `B` is witnessed by `Spec.meets` -/
theorem half_meets {A B : Spec.Shape} (hA : ShapeFacts A) (hB : ShapeFacts B) (x : Pt)
    (hx : Spec.onBoundary A.edges x = true) (hin : B.member x = true) :
    (A.vertices.any (fun p => B.member p) ||
     A.edges.any (fun e => B.edges.any (fun f => Spec.segsMeet e.1 e.2 f.1 f.2))) = true := by
  rw [Bool.or_eq_true, List.any_eq_true, List.any_eq_true]
  rcases hB.kind with hk | ⟨C, hE, hm⟩
  · right
    rw [hk] at hin
    obtain ⟨e, he, hon⟩ := (Geo.onBoundary_iff _ _).1 hx
    obtain ⟨f, hf, hon'⟩ := (Geo.onBoundary_iff _ _).1 hin
    exact ⟨e, he, List.any_eq_true.2 ⟨f, hf, (spec_segsMeet_iff _ _ _ _).2 ⟨x, hon, hon'⟩⟩⟩
  · rw [hm] at hin
    rcases curve_region A.edges C x hx hin with ⟨e, he, h | h⟩ | ⟨e, he, f, hf, h⟩
    · exact Or.inl ⟨e.1, (hA.ends e he).1, by rw [hm]; exact h⟩
    · exact Or.inl ⟨e.2, (hA.ends e he).2, by rw [hm]; exact h⟩
    · exact Or.inr ⟨e, he, List.any_eq_true.2 ⟨f, hE ▸ hf, h⟩⟩

theorem meets_iff {A B : Spec.Shape} (hA : ShapeFacts A) (hB : ShapeFacts B) :
    Spec.meets A B = true ↔ ∃ x, A.member x = true ∧ B.member x = true := by
  unfold Spec.meets
  rw [hA.ne, hB.ne, Bool.true_and, Bool.true_and]
  constructor
  · intro h
    rw [Bool.or_eq_true, Bool.or_eq_true, List.any_eq_true, List.any_eq_true, List.any_eq_true] at h
    rcases h with (⟨v, hv, hm⟩ | ⟨v, hv, hm⟩) | ⟨e, he, hm⟩
    · exact ⟨v, hA.vmem v hv, hm⟩
    · exact ⟨v, hm, hB.vmem v hv⟩
    · rw [List.any_eq_true] at hm
      obtain ⟨f, hf, hm⟩ := hm
      obtain ⟨x, h1, h2⟩ := (spec_segsMeet_iff _ _ _ _).1 hm
      exact ⟨x, hA.emem e he x h1, hB.emem f hf x h2⟩
  · rintro ⟨x, hxA, hxB⟩
    -- reduce to: a curve/boundary point of one lies in the other
    have key : (∃ y, Spec.onBoundary A.edges y = true ∧ B.member y = true) ∨
        (∃ y, Spec.onBoundary B.edges y = true ∧ A.member y = true) := by
      rcases hA.kind with hk | ⟨C, hE, hm⟩
      · exact Or.inl ⟨x, by rw [← hk]; exact hxA, hxB⟩
      · rcases hB.kind with hk' | ⟨C', hE', hm'⟩
        · exact Or.inr ⟨x, by rw [← hk']; exact hxB, hxA⟩
        · rw [hm] at hxA
          rw [hm'] at hxB
          rcases (regions_meet_iff _ _).1 ⟨x, hxA, hxB⟩ with ⟨v, h1, h2⟩ | ⟨v, h1, h2⟩
          · exact Or.inl ⟨v, by rw [hE]; exact h1, by rw [hm']; exact h2⟩
          · exact Or.inr ⟨v, by rw [hE']; exact h1, by rw [hm]; exact h2⟩
    rcases key with ⟨y, h1, h2⟩ | ⟨y, h1, h2⟩
    · have := half_meets hA hB y h1 h2
      rw [Bool.or_eq_true] at this
      rcases this with h | h
      · simp [h]
      · simp [h]
    · have := half_meets hB hA y h1 h2
      rw [Bool.or_eq_true] at this
      rcases this with h | h
      · simp [h]
      · -- swap the roles of the edges
        rw [Bool.or_eq_true]
        right
        rw [List.any_eq_true] at h ⊢
        obtain ⟨f, hf, h⟩ := h
        rw [List.any_eq_true] at h
        obtain ⟨e, he, h⟩ := h
        exact ⟨e, he, List.any_eq_true.2 ⟨f, hf, by rw [segsMeet_comm]; exact h⟩⟩

/-! ### the model side -/

theorem line_member_iff (pts : List Pt) (x : Pt) :
    (Spec.Shape.line pts).member x = true ↔
      ∃ i, i < (mkSeries pts.toArray false .none 0).numSegments ∧
        OnSeg ((mkSeries pts.toArray false .none 0).segmentAt i).a
          ((mkSeries pts.toArray false .none 0).segmentAt i).b x := by
  show Spec.onBoundary (Spec.edges pts false) x = true ↔ _
  rw [Geo.onBoundary_iff]
  constructor
  · rintro ⟨e, he, hon⟩
    obtain ⟨i, hi, rfl⟩ := edges_mem_segmentAt pts.toArray false e he
    exact ⟨i, hi, hon⟩
  · rintro ⟨i, hi, hon⟩
    exact ⟨_, segmentAt_mem_edges pts.toArray false i hi, hon⟩

/-- ring × line string against the specification -/
theorem ringLine_iff {r : Ring} {C : List Pt} (hr : RingSpec r C) (pts : List Pt) :
    ringIntersectsLine r (mkSeries pts.toArray false .none 0) true = true ↔
      ∃ x, Spec.inRing (Spec.edges C true) x = true ∧ (Spec.Shape.line pts).member x = true := by
  rw [ringIntersectsLine_exact_of_spec hr _ rfl]
  constructor
  · rintro ⟨i, hi, x, hon, hx⟩
    exact ⟨x, hx, (line_member_iff pts x).2 ⟨i, hi, hon⟩⟩
  · rintro ⟨x, hx, hm⟩
    obtain ⟨i, hi, hon⟩ := (line_member_iff pts x).1 hm
    exact ⟨i, hi, x, hon, hx⟩

theorem poly_member (ext : List Pt) (x : Pt) :
    (Spec.Shape.poly ext []).member x = Spec.inRing (Spec.edges ext true) x := by
  simp [Spec.Shape.member]

theorem ringSpec_ext (ext : List Pt) : RingSpec (.ser (mkSeries ext.toArray true .none 0)) ext :=
  ringSpec_mk ext.toArray 0

theorem ringSpec_rect (lo hi : Pt) (hv : (Spec.Shape.rect lo hi).valid = true) :
    RingSpec (.bx ⟨lo, hi⟩) (Spec.rectPts lo hi) := by
  simp only [Spec.Shape.valid, Bool.and_eq_true, decide_eq_true_eq] at hv
  exact ringSpec_bx ⟨lo, hi⟩ hv

theorem exists_comm' {P Q : Pt → Prop} : (∃ x, P x ∧ Q x) ↔ ∃ x, Q x ∧ P x := by
  constructor <;> rintro ⟨x, h1, h2⟩ <;> exact ⟨x, h2, h1⟩

/-- membership of a point, all four kinds of argument -/
theorem point_intersects (a : Pt) (B : Spec.Shape) (hB : B.noHoles) :
    (build (.point a)).intersects (build B) = B.member a ∧
    (build B).intersects (build (.point a)) = B.member a := by
  cases B with
  | point b =>
    refine ⟨?_, rfl⟩
    simp only [build, Geom.intersects, Spec.Shape.member]
    rw [Bool.eq_iff_iff, decide_eq_true_eq, decide_eq_true_eq]
    exact eq_comm
  | rect lo hi => exact ⟨rectContainsPoint_spec lo hi a, rectContainsPoint_spec lo hi a⟩
  | line pts =>
    have := lineContainsPoint_spec pts.toArray .none 0 (series_search_exact_kind_none _ _ _) a
    exact ⟨this, this⟩
  | poly ext hs =>
    have : hs = [] := hB
    subst this
    have := polyContainsPoint_iff ext.toArray .none 0 [] (series_search_exact_kind_none _ _ _)
      (fun h hh => by simp at hh) a
    exact ⟨this, this⟩

theorem point_common (a : Pt) (B : Spec.Shape) :
    (∃ x, (Spec.Shape.point a).member x = true ∧ B.member x = true) ↔ B.member a = true := by
  simp only [Spec.Shape.member, decide_eq_true_eq]
  constructor
  · rintro ⟨x, rfl, h⟩; exact h
  · intro h; exact ⟨a, rfl, h⟩

theorem intersects_iff (A B : Spec.Shape) (hA : A.valid = true) (hB : B.valid = true)
    (hnA : A.noHoles) (hnB : B.noHoles) :
    (build A).intersects (build B) = true ↔ ∃ x, A.member x = true ∧ B.member x = true := by
  cases A with
  | point a => rw [(point_intersects a B hnB).1, point_common]
  | rect lo hi =>
    cases B with
    | point b => rw [(point_intersects b _ hnA).2, exists_comm', point_common]
    | rect lo' hi' =>
      have h1 := hA
      have h2 := hB
      simp only [Spec.Shape.valid, Bool.and_eq_true, decide_eq_true_eq] at h1 h2
      show (Box.mk lo hi).intersects ⟨lo', hi'⟩ = true ↔ _
      rw [rect_intersects_rect_iff _ _ h1 h2]
      simp only [rectContainsPoint_spec]
    | line pts =>
      show ringIntersectsLine (.bx ⟨lo, hi⟩) _ true = true ↔ _
      rw [ringLine_iff (ringSpec_rect lo hi hA)]
      simp only [rect_member lo hi hA]
    | poly ext hs =>
      have : hs = [] := hnB
      subst this
      have e : (build (.rect lo hi)).intersects (build (.poly ext [])) =
          ringIntersectsRing (.bx ⟨lo, hi⟩) (.ser (mkSeries ext.toArray true .none 0)) true := by
        simp [build, Geom.intersects, Box.intersectsPoly, Poly.intersectsRect, Poly.intersectsPoly,
          Box.asPoly]
      rw [e, ringIntersectsRing_exact_of_spec (ringSpec_rect lo hi hA) (ringSpec_ext ext)]
      simp only [rect_member lo hi hA, poly_member]
  | line pts =>
    cases B with
    | point b => rw [(point_intersects b _ hnA).2, exists_comm', point_common]
    | rect lo hi =>
      show ringIntersectsLine (.bx ⟨lo, hi⟩) _ true = true ↔ _
      rw [ringLine_iff (ringSpec_rect lo hi hB), exists_comm']
      simp only [rect_member lo hi hB]
    | line qts =>
      show Line.intersectsLine _ _ = true ↔ _
      rw [lineIntersectsLine_iff _ _ (mkSeries_plain _ _ _) (mkSeries_plain _ _ _)]
      constructor
      · rintro ⟨i, hi, j, hj, x, h1, h2⟩
        exact ⟨x, (line_member_iff pts x).2 ⟨i, hi, h1⟩, (line_member_iff qts x).2 ⟨j, hj, h2⟩⟩
      · rintro ⟨x, h1, h2⟩
        obtain ⟨i, hi, h1⟩ := (line_member_iff pts x).1 h1
        obtain ⟨j, hj, h2⟩ := (line_member_iff qts x).1 h2
        exact ⟨i, hi, j, hj, x, h1, h2⟩
    | poly ext hs =>
      have : hs = [] := hnB
      subst this
      have e : (build (.line pts)).intersects (build (.poly ext [])) =
          ringIntersectsLine (.ser (mkSeries ext.toArray true .none 0))
            (mkSeries pts.toArray false .none 0) true := by
        simp [build, Geom.intersects, Line.intersectsPoly, Poly.intersectsLine]
      rw [e, ringLine_iff (ringSpec_ext ext), exists_comm']
      simp only [poly_member]
  | poly ext hs =>
    have : hs = [] := hnA
    subst this
    cases B with
    | point b => rw [(point_intersects b _ hnA).2, exists_comm', point_common]
    | rect lo hi =>
      have e : (build (.poly ext [])).intersects (build (.rect lo hi)) =
          ringIntersectsRing (.bx ⟨lo, hi⟩) (.ser (mkSeries ext.toArray true .none 0)) true := by
        simp [build, Geom.intersects, Poly.intersectsRect, Poly.intersectsPoly, Box.asPoly]
      rw [e, ringIntersectsRing_exact_of_spec (ringSpec_rect lo hi hB) (ringSpec_ext ext), exists_comm']
      simp only [rect_member lo hi hB, poly_member]
    | line pts =>
      have e : (build (.poly ext [])).intersects (build (.line pts)) =
          ringIntersectsLine (.ser (mkSeries ext.toArray true .none 0))
            (mkSeries pts.toArray false .none 0) true := by
        simp [build, Geom.intersects, Poly.intersectsLine]
      rw [e, ringLine_iff (ringSpec_ext ext)]
      simp only [poly_member]
    | poly ext' hs' =>
      have : hs' = [] := hnB
      subst this
      have e : (build (.poly ext [])).intersects (build (.poly ext' [])) =
          ringIntersectsRing (.ser (mkSeries ext'.toArray true .none 0))
            (.ser (mkSeries ext.toArray true .none 0)) true := by
        simp [build, Geom.intersects, Poly.intersectsPoly]
      rw [e, ringIntersectsRing_exact_of_spec (ringSpec_ext ext') (ringSpec_ext ext), exists_comm']
      simp only [poly_member]

end IX
end Geo
