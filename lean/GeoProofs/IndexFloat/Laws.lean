/-
  GeoProofs.IndexFloat.Laws — the laws the index proofs need, for ALL finite doubles:
  `LawfulCarrier Dbl` (the order of doubles is the order of their values) and
  `SignExactSub Dbl` (IEEE subtraction never loses the sign of the exact difference: two distinct
  doubles differ by a non-zero multiple of 2^-1074, so the difference does not underflow to 0, and
  an overflowing difference becomes ±Inf — here ±maxF — of the right sign).
  No magnitude hypothesis.
-/
import GeoProofs.IndexFloat.Dbl
import GeoProofs.Index.RTreeSub

namespace Geo.DF
open Geo.F

/-! ### two doubles are equal or at least 2^-1074 apart -/

/-- every double is an integer multiple of 2^-1074 -/
theorem F64.int_mul_tiny {x : ℚ} (h : F64 x) : ∃ k : ℤ, x = k * (2 : ℚ) ^ (-1074 : ℤ) := by
  obtain ⟨m, e, _, he, _, rfl⟩ := h
  refine ⟨m * (2 : ℤ) ^ (e - (-1074)).toNat, ?_⟩
  rw [zpow_eq_int_mul he]
  rw [Int.cast_mul, mul_assoc]

theorem int_mul_tiny_gap (k : ℤ) :
    (k : ℚ) * (2 : ℚ) ^ (-1074 : ℤ) = 0 ∨ (2 : ℚ) ^ (-1074 : ℤ) ≤ |(k : ℚ) * (2 : ℚ) ^ (-1074 : ℤ)| := by
  have hp := two_zpow_pos (-1074)
  by_cases hk : k = 0
  · left; rw [hk]; simp
  · right
    rw [abs_mul, abs_of_pos hp]
    have h1 : (1 : ℤ) ≤ |k| := Int.one_le_abs hk
    have h2 : (1 : ℚ) ≤ |(k : ℚ)| := by
      rw [← Int.cast_abs]; exact_mod_cast h1
    nlinarith

/-- the exact difference of two doubles is zero or does not underflow -/
theorem F64.sub_gap {a b : ℚ} (ha : F64 a) (hb : F64 b) :
    a - b = 0 ∨ (2 : ℚ) ^ (-1074 : ℤ) ≤ |a - b| := by
  obtain ⟨k, rfl⟩ := F64.int_mul_tiny ha
  obtain ⟨l, rfl⟩ := F64.int_mul_tiny hb
  have e : (k : ℚ) * (2 : ℚ) ^ (-1074 : ℤ) - l * (2 : ℚ) ^ (-1074 : ℤ)
      = ((k - l : ℤ) : ℚ) * (2 : ℚ) ^ (-1074 : ℤ) := by rw [Int.cast_sub, sub_mul]
  rw [e]
  exact int_mul_tiny_gap (k - l)

/-! ### the saturating rounding keeps the sign of anything that does not underflow -/

theorem rs_neg_iff {x : ℚ} (h : x = 0 ∨ (2 : ℚ) ^ (-1074 : ℤ) ≤ |x|) : rs x < 0 ↔ x < 0 := by
  have hM := maxF_pos
  unfold rs
  split
  · constructor
    · intro hr
      by_contra hx
      have := rn_nonneg (not_lt.mp hx)
      linarith
    · intro hx
      rcases h with h | h
      · rw [h] at hx; exact absurd hx (lt_irrefl _)
      · rw [abs_of_neg hx] at h
        exact rn_neg_of_neg (by linarith)
  · next hr =>
    have hx0 : x ≠ 0 := by rintro rfl; exact hr inRange_zero
    split
    · next hpos => constructor <;> intro h' <;> linarith
    · next hnp =>
      have : x < 0 := lt_of_le_of_ne (not_lt.mp hnp) hx0
      constructor <;> intro _ <;> linarith

theorem rs_neg (x : ℚ) : rs (-x) = -rs x := by
  have hi : InRange (-x) ↔ InRange x := by unfold InRange; rw [abs_neg]
  unfold rs
  by_cases h : InRange x
  · rw [if_pos h, if_pos (hi.mpr h), rn_neg]
  · have hx0 : x ≠ 0 := by rintro rfl; exact h inRange_zero
    rw [if_neg h, if_neg (fun h' => h (hi.mp h'))]
    rcases lt_or_gt_of_ne hx0 with hx | hx
    · rw [if_pos (by linarith : 0 < -x), if_neg (by linarith : ¬ 0 < x)]; ring
    · rw [if_neg (by linarith : ¬ 0 < -x), if_pos hx]

theorem rs_pos_iff {x : ℚ} (h : x = 0 ∨ (2 : ℚ) ^ (-1074 : ℤ) ≤ |x|) : 0 < rs x ↔ 0 < x := by
  have h' : -x = 0 ∨ (2 : ℚ) ^ (-1074 : ℤ) ≤ |-x| := by
    rw [abs_neg, neg_eq_zero]; exact h
  have := rs_neg_iff h'
  rw [rs_neg] at this
  constructor
  · intro hr; have := this.mp (by linarith); linarith
  · intro hx; have := this.mpr (by linarith); linarith

/-! ### the instances -/

instance : LawfulCarrier Dbl where
  asymm a b h := by
    rw [lt_def, decide_eq_true_eq] at h
    rw [lt_def, decide_eq_false_iff_not]
    exact not_lt.mpr h.le
  le_trans a b c h1 h2 := by
    rw [lt_def, decide_eq_false_iff_not, not_lt] at h1 h2
    rw [lt_def, decide_eq_false_iff_not, not_lt]
    exact h1.trans h2

/-- **IEEE-754 subtraction has an exact sign on all finite doubles** (overflow included:
    ±Inf, modelled by ±maxF, has the sign of the exact difference). -/
instance : SignExactSub Dbl where
  sub_neg a b := by
    rw [lt_def, lt_def, sub_val, zero_val, decide_eq_decide,
      rs_neg_iff (F64.sub_gap a.isF64 b.isF64)]
    exact sub_neg
  sub_pos a b := by
    rw [lt_def, lt_def, sub_val, zero_val, decide_eq_decide,
      rs_pos_iff (F64.sub_gap a.isF64 b.isF64)]
    exact sub_pos

end Geo.DF
