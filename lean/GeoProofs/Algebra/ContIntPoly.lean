/-
  GeoProofs.Algebra.ContIntPoly — Polygon receivers: Contains ⇒ Intersects by direct computation
  from the ring-level lemmas (no exactness needed); the argument must stay below the 16-point
  rectangle shortcut (finding D19).
-/
import GeoProofs.Algebra.ContInt

namespace Geo
open GL

theorem Poly.containsLine_imp_intersectsLine (p : Poly) (l : Line)
    (hsmall : l.numPoints < complexRingMinPoints) (hwf : l.rect.WFb)
    (h : p.containsLine l = true) : p.intersectsLine l = true := by
  unfold Poly.containsLine at h
  unfold Poly.intersectsLine
  cases he : p.ext with
  | none => rw [he] at h; cases h
  | some e =>
    rw [he] at h
    simp only at h ⊢
    by_cases h1 : ringContainsLine e l true = true
    · rw [h1] at h
      simp only [Bool.not_true, Bool.false_eq_true, if_false, Bool.not_eq_true', List.any_eq_false] at h
      rw [ringContainsLine_imp_intersects e l true hsmall hwf h1]
      simp only [Bool.not_true, Bool.false_eq_true, if_false, Bool.not_eq_true', List.any_eq_false]
      intro hh hmem hc
      exact h hh hmem (ringContainsLine_imp_intersects hh l false hsmall hwf hc)
    · simp [h1] at h

/-- hypotheses: the argument's exterior is small and has a well-formed rectangle; ring × ring is
    symmetric on the two exteriors; the argument's holes have a strictly smaller rectangle than
    its exterior -/
theorem Poly.containsPoly_imp_intersectsPoly (p q : Poly)
    (hsmall : ∀ oe, q.ext = some oe → oe.numPoints < complexRingMinPoints ∧ oe.rect.WFb)
    (hsym : ∀ e oe, p.ext = some e → q.ext = some oe →
      ringIntersectsRing e oe true = true → ringIntersectsRing oe e true = true)
    (hnest : ∀ oe, q.ext = some oe → ∀ oh ∈ q.holes, oh.rect.area < oe.rect.area)
    (h : p.containsPoly q = true) : p.intersectsPoly q = true := by
  unfold Poly.containsPoly at h
  unfold Poly.intersectsPoly
  cases he : p.ext with
  | none => rw [he] at h; cases h
  | some e =>
    cases ho : q.ext with
    | none => rw [he, ho] at h; cases h
    | some oe =>
      rw [he, ho] at h
      obtain ⟨hsm, hwf⟩ := hsmall oe ho
      simp only at h ⊢
      by_cases h1 : ringContainsRing e oe true = true
      swap
      · simp [h1] at h
      rw [h1] at h
      simp only [Bool.not_true, Bool.false_eq_true, if_false, List.all_eq_true] at h
      have hr1 := ringContainsRing_rect e oe true h1
      rw [hsym e oe he ho (ringContains_imp_intersects e oe true hsm hwf h1)]
      simp only [Bool.not_true, Bool.false_eq_true, if_false]
      have hA : (p.holes.any fun hh => ringContainsRing hh oe false) = false := by
        rw [List.any_eq_false]
        intro hh hmem hc
        have hi := ringContains_imp_intersects hh oe false hsm hwf hc
        have := h hh hmem
        rw [hi, if_pos rfl, List.any_eq_true] at this
        obtain ⟨oh, hoh, hcc⟩ := this
        have r1 := ringContainsRing_rect hh oe false hc
        have r2 := ringContainsRing_rect oh hh true hcc
        have := containsBox_area hwf (Box.containsBox_trans r2 r1)
        exact this (hnest oe ho oh hoh)
      have hB : (q.holes.any fun hh => ringContainsRing hh e false) = false := by
        rw [List.any_eq_false]
        intro hh hmem hc
        have r1 := ringContainsRing_rect hh e false hc
        have := containsBox_area hwf (Box.containsBox_trans r1 hr1)
        exact this (hnest oe ho hh hmem)
      rw [hA, hB]
      rfl

end Geo
