package main

// veriftranslate: regenerates Lean files from /repo's current Go source.
//   translate <name> <repo-dir>   prints the generated Lean file on stdout.
// Each translator registers itself in `translators` from an init() in its own file.
// What a translator does not recognise it must emit as an `opaque` definition (or fail with a
// non-zero exit), so that an unrecognised rewrite of the code breaks the dependent proofs
// instead of passing silently.

import (
	"fmt"
	"os"
)

var translators = map[string]func(repo string) (string, error){}

func main() {
	if len(os.Args) != 3 {
		fmt.Fprintln(os.Stderr, "usage: translate <name> <repo-dir>")
		os.Exit(2)
	}
	t, ok := translators[os.Args[1]]
	if !ok {
		fmt.Fprintln(os.Stderr, "unknown translator", os.Args[1])
		os.Exit(2)
	}
	out, err := t(os.Args[2])
	if err != nil {
		fmt.Fprintln(os.Stderr, "translator failed:", err)
		os.Exit(1)
	}
	fmt.Print(out)
}
