/-
  GENERATED FILE — do not edit.  Regenerate with
      cd /verif/translate && go build -o bin/translate . && \\
        ./bin/translate seriesmeth /repo > /verif/lean/GeoModel/Generated/SeriesMethGen.lean

  Syntactic translation (translate/seriesmeth.go) of geometry/series.go: the methods of *baseSeries
  (Empty, Valid, Rect, Convex, Closed, Clockwise, NumPoints, PointAt, NumSegments, SegmentAt, Index,
  clearIndex, setCompressed, buildIndex, Search, Move) and makeSeries.  (processPoints: SeriesGen.)

  Conventions:
    * the Go structs baseSeries and IndexOptions are generated structures (field lists and order from the
      source), the IndexKind constants generated Int definitions (iota), DefaultIndexOptions a definition;
    * every other callee is a field of  ops : Ops P B S F X D T Q  — method T.M as tM, function f as f, a
      field read x.f as tF, a field store v.f = e as tSetF, the zero value as tZero, new(T) as tNew,
      float64 operations as f64Add/…, == on Points as pointEq; P = Point, B = Rect, S = Segment,
      F = float64, X = a non-nil interface{} value, D = []byte, T = *rTree, Q = *qNode; int, byte,
      uint32, IndexKind ↦ Int (conversions are ops toInt/toUint32/toByte); callees are taken to be pure;
      a void method of *rTree / *qNode called as a statement returns the updated receiver;
    * *baseSeries / baseSeries / the interface Series ↦ BaseSeries P B X (the non-nil value; Option when
      the body tests the receiver against nil); interface{} ↦ Option X, *IndexOptions ↦ Option
      IndexOptions (none = nil);  x == nil  on a variable ↦ match, the some arm rebinds the value;
    * []Point ↦ List P: len ↦ length, s[i] ↦ arrAt zero s i and s[i] = e ↦ arrSet (out of range is a Go
      panic: here the zero Point / no change), make ↦ List.replicate, copy ↦ sliceCopy, slices share
      nothing (aliasing between a slice and its copy is not modelled: nothing here writes through one);
    * []byte ↦ D, abstract: READS (b[i], b[lo:], b[lo:hi:max], LittleEndian.Uint32) are partial ops
      (Option, none = Go panic) bound with Option.bind in evaluation order; a function containing one
      returns Option; writes (PutUint32, copy) return the new value;
    * a method that stores through its pointer receiver and returns nothing returns the new receiver;
      v.f = e ↦ { v with f := e }, s[i].f = e ↦ arrSet s i (ops.tSetF (arrAt … s i) e);
    * Search's callback  iter func(seg Segment, idx int) bool  ↦  iter : σ → S → Int → σ × Bool  and a state
      st' : σ threaded through the body (a call of iter is  match iter st' seg i with | (st', c') => …);
      the method returns the final state;  return  inside the loop ↦ Flow.ret;
    * a statement list becomes one expression; an if / switch containing return/break/continue is
      translated in continuation style (the following statements are copied into the arms), any other as
      let (assigned variables) := if … then … else …;  switch on a value ↦ if/else-if chain in source
      order;  switch v := x.(type) with case []byte ↦ match x.bind ops.dynAsBytes;
    * for v := lo; v < hi; v++ ↦ forRange body (intRange lo hi) state;  for _, v := range xs ↦ forRange
      body xs state;  state = the outer variables the body assigns; end / continue ↦ Flow.next,
      break ↦ Flow.brk, return e ↦ Flow.ret e.
  Anything outside the recognised subset appears below as  opaque <name>_unrecognised : Unit.
-/

set_option linter.unusedVariables false

namespace Geo.SMGen

/-- how one pass through a loop body ends -/
inductive Flow (σ ρ : Type) where
  | next (s : σ) : Flow σ ρ
  | brk (s : σ) : Flow σ ρ
  | ret (r : ρ) : Flow σ ρ

/-- how a loop ends: normally (or by break) with the final state, or by return r -/
inductive Exit (σ ρ : Type) where
  | done (s : σ) : Exit σ ρ
  | ret (r : ρ) : Exit σ ρ

/-- a loop over the elements of a list: structural recursion. -/
def forRange {ε σ ρ : Type} (body : ε → σ → Flow σ ρ) : List ε → σ → Exit σ ρ
  | [], s => Exit.done s
  | x :: xs, s =>
    match body x s with
    | Flow.next s' => forRange body xs s'
    | Flow.brk s' => Exit.done s'
    | Flow.ret r => Exit.ret r

/-- the values lo, lo+1, …, hi-1 of a counted loop -/
def intRange (lo hi : Int) : List Int := (List.range (hi - lo).toNat).map (fun k => lo + Int.ofNat k)

/-- s[i] on a slice; zero when out of range (a Go panic) -/
def arrAt {α : Type} (zero : α) (xs : List α) (i : Int) : α :=
  if i < 0 then zero else xs.getD i.toNat zero

/-- s[i] = v on a slice; no change when out of range (a Go panic) -/
def arrSet {α : Type} (xs : List α) (i : Int) (v : α) : List α :=
  if i < 0 then xs else xs.set i.toNat v

/-- copy(dst, src): the first min(len dst, len src) elements of dst are overwritten -/
def sliceCopy {α : Type} (dst src : List α) : List α :=
  (src.take dst.length) ++ dst.drop src.length

/-- Go: constant `None` of type IndexKind (iota) — geometry/series.go -/
def kindNone : Int := 0

/-- Go: constant `RTree` of type IndexKind (iota) — geometry/series.go -/
def kindRTree : Int := 1

/-- Go: constant `QuadTree` of type IndexKind (iota) — geometry/series.go -/
def kindQuadTree : Int := 2

/-- Go: `type IndexOptions struct` — geometry/series.go:34 -/
structure IndexOptions where
  /-- Go: field `Kind` — geometry/series.go:35 -/
  kind : Int
  /-- Go: field `MinPoints` — geometry/series.go:36 -/
  minPoints : Int

/-- Go: `type baseSeries struct` — geometry/series.go:70 -/
structure BaseSeries (P B X : Type) where
  /-- Go: field `closed` — geometry/series.go:71 -/
  closed : Bool
  /-- Go: field `clockwise` — geometry/series.go:72 -/
  clockwise : Bool
  /-- Go: field `convex` — geometry/series.go:73 -/
  convex : Bool
  /-- Go: field `indexKind` — geometry/series.go:74 -/
  indexKind : Int
  /-- Go: field `index` — geometry/series.go:75 -/
  index : Option X
  /-- Go: field `rect` — geometry/series.go:76 -/
  rect : B
  /-- Go: field `points` — geometry/series.go:77 -/
  points : List P

/-- Go: `var DefaultIndexOptions = &IndexOptions{…}` — geometry/series.go:39 -/
def defaultIndexOptions : IndexOptions := { kind := kindQuadTree, minPoints := 64 }

/-- the callees of the translated functions, one field per distinct callee found in the source -/
structure Ops (P B S F X D T Q : Type) where
  /-- Go: `b[i]` on a []byte; none = index out of range (a Go panic) -/
  bytesAt : D → Int → Option Int
  /-- Go: `copy(dst, src)` on []byte: the op returns the new dst -/
  bytesCopy : D → D → D
  /-- Go: `len(b)` of a []byte -/
  bytesLen : D → Int
  /-- Go: a literal `[]byte{…}` -/
  bytesLit : List Int → D
  /-- Go: `make([]byte, n)` -/
  bytesMake : Int → D
  /-- Go: `binary.LittleEndian.PutUint32(b[lo:], v)`: the op returns the new b (Go panics when fewer than 4 bytes follow lo) -/
  bytesPutUint32 : D → Int → Int → D
  /-- Go: `b[lo:hi:max]` on a []byte; none = bounds out of range (a Go panic) -/
  bytesSlice3 : D → Int → Int → Int → Option D
  /-- Go: `b[lo:]` on a []byte; none = bound out of range (a Go panic) -/
  bytesSliceFrom : D → Int → Option D
  /-- Go: the type test `v.(type) == []byte` on a non-nil interface{} value; none = another dynamic type -/
  dynAsBytes : X → Option D
  /-- Go: a []byte stored into an interface{} value -/
  dynOfBytes : D → X
  /-- Go: float64 `+` -/
  f64Add : F → F → F
  /-- Go: `binary.LittleEndian.Uint32(b)`; none = fewer than 4 bytes (a Go panic) -/
  leUint32 : D → Option Int
  /-- Go: `==` on struct `Point` (field-wise float64 `==`) — geometry/point.go:7 -/
  pointEq : P → P → Bool
  /-- Go: store into field `X` of a `Point` value — geometry/point.go:8 -/
  pointSetX : P → F → P
  /-- Go: store into field `Y` of a `Point` value — geometry/point.go:8 -/
  pointSetY : P → F → P
  /-- Go: `func (point Point) Valid() bool` — geometry/point.go:19 -/
  pointValid : P → Bool
  /-- Go: field `X` of struct `Point` — geometry/point.go:8 -/
  pointX : P → F
  /-- Go: field `Y` of struct `Point` — geometry/point.go:8 -/
  pointY : P → F
  /-- Go: the zero value of struct `Point` — geometry/point.go:7 -/
  pointZero : P
  /-- Go: `func processPoints(points []Point, closed bool) ( convex bool, rect Rect, clockwise bool, )` — geometry/series.go:225 -/
  processPoints : (List P) → Bool → Bool × B × Bool
  /-- Go: `func qCompressSearch( data []byte, addr int, series *baseSeries, bounds, rect Rect, iter func(seg Segment, item int) bool, ) bool` — geometry/qtree.go:215; the callback threads a state σ; none = a Go panic (out-of-range read of the index bytes) -/
  qCompressSearch : {σ : Type} → D → Int → (BaseSeries P B X) → B → B → (σ → S → Int → σ × Bool) → σ → Option (σ × Bool)
  /-- Go: `func (n *qNode) compress(dst []byte, bounds Rect) []byte` — geometry/qtree.go:173 -/
  qNodeCompress : Q → D → B → D
  /-- Go: `func (n *qNode) insert(series *baseSeries, bounds, rect Rect, item, depth int)` — geometry/qtree.go:16; stores through its pointer receiver: the op returns the updated receiver -/
  qNodeInsert : Q → (BaseSeries P B X) → B → B → Int → Int → Q
  /-- Go: `new(qNode)` — geometry/qtree.go:10 -/
  qNodeNew : Q
  /-- Go: `func rCompressSearch( data []byte, addr int, series *baseSeries, rect Rect, iter func(seg Segment, item int) bool, ) bool` — geometry/rtree.go:321; the callback threads a state σ; none = a Go panic (out-of-range read of the index bytes) -/
  rCompressSearch : {σ : Type} → D → Int → (BaseSeries P B X) → B → (σ → S → Int → σ × Bool) → σ → Option (σ × Bool)
  /-- Go: `func (tr *rTree) compress(dst []byte) []byte` — geometry/rtree.go:280 -/
  rTreeCompress : T → D → D
  /-- Go: `func (tr *rTree) Insert(min, max []float64, value interface{})` — geometry/rtree.go:40; stores through its pointer receiver: the op returns the updated receiver -/
  rTreeInsert : T → (List F) → (List F) → Int → T
  /-- Go: `new(rTree)` — geometry/rtree.go:21 -/
  rTreeNew : T
  /-- Go: `func (rect Rect) IntersectsRect(other Rect) bool` — geometry/rect.go:135 -/
  rectIntersectsRect : B → B → Bool
  /-- Go: field `Max` of struct `Rect` — geometry/rect.go:8 -/
  rectMax : B → P
  /-- Go: field `Min` of struct `Rect` — geometry/rect.go:8 -/
  rectMin : B → P
  /-- Go: the zero value of struct `Rect` — geometry/rect.go:7 -/
  rectZero : B
  /-- Go: `func (seg Segment) Rect() Rect` — geometry/segment.go:25 -/
  segRect : S → B
  /-- Go: store into field `A` of a `Segment` value — geometry/segment.go:13 -/
  segSetA : S → P → S
  /-- Go: store into field `B` of a `Segment` value — geometry/segment.go:13 -/
  segSetB : S → P → S
  /-- Go: the zero value of struct `Segment` — geometry/segment.go:12 -/
  segZero : S
  /-- Go: the conversion `uint32(x)` of an integer -/
  toUint32 : Int → Int

/-- Go: the zero value of struct `baseSeries` (`var x baseSeries`) -/
def baseSeriesZero {P B S F X D T Q : Type} (ops : Ops P B S F X D T Q) : BaseSeries P B X :=
  { closed := false, clockwise := false, convex := false, indexKind := 0, index := none, rect := ops.rectZero, points := [] }

/-- Go: `func (series *baseSeries) Empty() bool` — geometry/series.go:126 -/
def seriesEmpty {P B S F X D T Q : Type} (ops : Ops P B S F X D T Q) (series : Option (BaseSeries P B X)) : Bool :=
  match series with
  | none =>
    true
  | some series =>
    ((series.closed && (decide (Int.ofNat series.points.length < 3))) || (decide (Int.ofNat series.points.length < 2)))

/-- Go: `func (series *baseSeries) Valid() bool` — geometry/series.go:133 -/
def seriesValid {P B S F X D T Q : Type} (ops : Ops P B S F X D T Q) (series : BaseSeries P B X) : Bool :=
  match forRange (σ := Unit) (ρ := Bool) (fun (point : P) (_ : Unit) =>
      if !(ops.pointValid point) then
        Flow.ret false
      else
        Flow.next ()) series.points () with
  | Exit.done _ =>
    true
  | Exit.ret r' => r'

/-- Go: `func (series *baseSeries) Rect() Rect` — geometry/series.go:143 -/
def seriesRect {P B S F X D T Q : Type} (ops : Ops P B S F X D T Q) (series : BaseSeries P B X) : B :=
  series.rect

/-- Go: `func (series *baseSeries) Convex() bool` — geometry/series.go:148 -/
def seriesConvex {P B S F X D T Q : Type} (ops : Ops P B S F X D T Q) (series : BaseSeries P B X) : Bool :=
  series.convex

/-- Go: `func (series *baseSeries) Closed() bool` — geometry/series.go:153 -/
def seriesClosed {P B S F X D T Q : Type} (ops : Ops P B S F X D T Q) (series : BaseSeries P B X) : Bool :=
  series.closed

/-- Go: `func (series *baseSeries) Clockwise() bool` — geometry/series.go:107 -/
def seriesClockwise {P B S F X D T Q : Type} (ops : Ops P B S F X D T Q) (series : BaseSeries P B X) : Bool :=
  series.clockwise

/-- Go: `func (series *baseSeries) NumPoints() int` — geometry/series.go:158 -/
def seriesNumPoints {P B S F X D T Q : Type} (ops : Ops P B S F X D T Q) (series : BaseSeries P B X) : Int :=
  Int.ofNat series.points.length

/-- Go: `func (series *baseSeries) PointAt(index int) Point` — geometry/series.go:163 -/
def seriesPointAt {P B S F X D T Q : Type} (ops : Ops P B S F X D T Q) (series : BaseSeries P B X) (index : Int) : P :=
  arrAt ops.pointZero series.points index

/-- Go: `func (series *baseSeries) NumSegments() int` — geometry/series.go:196 -/
def seriesNumSegments {P B S F X D T Q : Type} (ops : Ops P B S F X D T Q) (series : BaseSeries P B X) : Int :=
  if series.closed then
    if decide (Int.ofNat series.points.length < 3) then
      0
    else
      if ops.pointEq (arrAt ops.pointZero series.points ((Int.ofNat series.points.length) - 1)) (arrAt ops.pointZero series.points 0) then
        ((Int.ofNat series.points.length) - 1)
      else
        Int.ofNat series.points.length
  else
    if decide (Int.ofNat series.points.length < 2) then
      0
    else
      ((Int.ofNat series.points.length) - 1)

/-- Go: `func (series *baseSeries) SegmentAt(index int) Segment` — geometry/series.go:212 -/
def seriesSegmentAt {P B S F X D T Q : Type} (ops : Ops P B S F X D T Q) (series : BaseSeries P B X) (index : Int) : S :=
  let seg : S := ops.segZero
  let seg : S := ops.segSetA seg (arrAt ops.pointZero series.points index)
  let seg : S :=
    if decide (index = ((Int.ofNat series.points.length) - 1)) then
      let seg : S := ops.segSetB seg (arrAt ops.pointZero series.points 0)
      seg
    else
      let seg : S := ops.segSetB seg (arrAt ops.pointZero series.points (index + 1))
      seg
  seg

/-- Go: `func (series *baseSeries) Index() interface{}` — geometry/series.go:103 -/
def seriesIndex {P B S F X D T Q : Type} (ops : Ops P B S F X D T Q) (series : BaseSeries P B X) : Option X :=
  series.index

/-- Go: `func (series *baseSeries) clearIndex()` — geometry/series.go:300; stores through its receiver: returns the updated receiver -/
def seriesClearIndex {P B S F X D T Q : Type} (ops : Ops P B S F X D T Q) (series : BaseSeries P B X) : BaseSeries P B X :=
  let series : BaseSeries P B X := { series with index := none }
  series

/-- Go: `func (series *baseSeries) setCompressed(data []byte)` — geometry/series.go:304; stores through its receiver: returns the updated receiver -/
def seriesSetCompressed {P B S F X D T Q : Type} (ops : Ops P B S F X D T Q) (series : BaseSeries P B X) (data : D) : BaseSeries P B X :=
  let data : D := ops.bytesPutUint32 data 1 (ops.toUint32 (ops.bytesLen data))
  let smaller : D := ops.bytesMake (ops.bytesLen data)
  let smaller : D := ops.bytesCopy smaller data
  let series : BaseSeries P B X := { series with index := (some (ops.dynOfBytes smaller)) }
  series

/-- Go: `func (series *baseSeries) buildIndex()` — geometry/series.go:311; stores through its receiver: returns the updated receiver -/
def seriesBuildIndex {P B S F X D T Q : Type} (ops : Ops P B S F X D T Q) (series : BaseSeries P B X) : BaseSeries P B X :=
  if series.index.isSome then
    series
  else
    let series : BaseSeries P B X :=
      if decide (series.indexKind = kindRTree) then
        let tr : T := ops.rTreeNew
        let n : Int := seriesNumSegments ops series
        match forRange (σ := T) (ρ := Empty) (fun (i : Int) (tr : T) =>
            let rect : B := ops.segRect (seriesSegmentAt ops series i)
            let tr : T := ops.rTreeInsert tr [ops.pointX (ops.rectMin rect), ops.pointY (ops.rectMin rect)] [ops.pointX (ops.rectMax rect), ops.pointY (ops.rectMax rect)] i
            Flow.next tr) (intRange 0 n) tr with
        | Exit.done tr =>
          let series : BaseSeries P B X := seriesSetCompressed ops series (ops.rTreeCompress tr (ops.bytesLit [1, 0, 0, 0, 0]))
          series
        | Exit.ret r' => nomatch r'
      else if decide (series.indexKind = kindQuadTree) then
        let root : Q := ops.qNodeNew
        let n : Int := seriesNumSegments ops series
        match forRange (σ := Q) (ρ := Empty) (fun (i : Int) (root : Q) =>
            let seg : S := seriesSegmentAt ops series i
            let root : Q := ops.qNodeInsert root series series.rect (ops.segRect seg) i 0
            Flow.next root) (intRange 0 n) root with
        | Exit.done root =>
          let series : BaseSeries P B X := seriesSetCompressed ops series (ops.qNodeCompress root (ops.bytesLit [2, 0, 0, 0, 0]) series.rect)
          series
        | Exit.ret r' => nomatch r'
      else
        series
    series

/-- Go: `func (series *baseSeries) Search( rect Rect, iter func(seg Segment, idx int) bool, )` — geometry/series.go:168; returns the final state of the callback; none = a Go panic in a read of the index bytes -/
def seriesSearch {P B S F X D T Q : Type} {σ : Type} (ops : Ops P B S F X D T Q) (series : BaseSeries P B X) (rect : B) (iter : σ → S → Int → σ × Bool) (st' : σ) : Option σ :=
  match series.index.bind ops.dynAsBytes with
  | some v =>
    let data : D := v
    (ops.bytesSliceFrom data 1).bind fun t1' =>
    (ops.leUint32 t1').bind fun t2' =>
    let n : Int := t2'
    (ops.bytesSlice3 data 0 n n).bind fun t3' =>
    let data : D := t3'
    (ops.bytesAt data 0).bind fun t4' =>
    if decide (t4' = 1) then
      (ops.rCompressSearch data 5 series rect iter st').bind fun t5' =>
      let st' := t5'.1
      some st'
    else if decide (t4' = 2) then
      (ops.qCompressSearch data 5 series series.rect rect iter st').bind fun t6' =>
      let st' := t6'.1
      some st'
    else
      some st'
  | none =>
    let n : Int := seriesNumSegments ops series
    match forRange (σ := σ) (ρ := Option σ) (fun (i : Int) (st' : σ) =>
        let seg : S := seriesSegmentAt ops series i
        if ops.rectIntersectsRect (ops.segRect seg) rect then
          match iter st' seg i with
          | (st', c') =>
            if !c' then
              Flow.ret (some st')
            else
              Flow.next st'
        else
          Flow.next st') (intRange 0 n) st' with
    | Exit.done st' =>
      some st'
    | Exit.ret r' => r'

/-- Go: `func makeSeries( points []Point, copyPoints, closed bool, opts *IndexOptions, ) baseSeries` — geometry/series.go:81 -/
def makeSeries {P B S F X D T Q : Type} (ops : Ops P B S F X D T Q) (points : List P) (copyPoints : Bool) (closed : Bool) (opts : Option IndexOptions) : BaseSeries P B X :=
  let opts : IndexOptions :=
    match opts with
    | none =>
      let opts : IndexOptions := defaultIndexOptions
      opts
    | some opts =>
      opts
  let series : BaseSeries P B X := (baseSeriesZero ops)
  let series : BaseSeries P B X := { series with closed := closed }
  let series : BaseSeries P B X :=
    if copyPoints then
      let series : BaseSeries P B X := { series with points := List.replicate (Int.toNat (Int.ofNat points.length)) ops.pointZero }
      let series : BaseSeries P B X := { series with points := sliceCopy series.points points }
      series
    else
      let series : BaseSeries P B X := { series with points := points }
      series
  let t1' : Bool × B × Bool := ops.processPoints points closed
  let series : BaseSeries P B X := { series with convex := t1'.1 }
  let series : BaseSeries P B X := { series with rect := t1'.2.1 }
  let series : BaseSeries P B X := { series with clockwise := t1'.2.2 }
  let series : BaseSeries P B X :=
    if ((decide (opts.minPoints ≠ 0)) && (decide (Int.ofNat points.length ≥ opts.minPoints))) then
      let series : BaseSeries P B X := { series with indexKind := opts.kind }
      let series : BaseSeries P B X := seriesBuildIndex ops series
      series
    else
      series
  series

/-- Go: `func (series *baseSeries) Move(deltaX, deltaY float64) Series` — geometry/series.go:111 -/
def seriesMove {P B S F X D T Q : Type} (ops : Ops P B S F X D T Q) (series : BaseSeries P B X) (deltaX : F) (deltaY : F) : BaseSeries P B X :=
  let points : List P := List.replicate (Int.toNat (Int.ofNat series.points.length)) ops.pointZero
  match forRange (σ := List P) (ρ := Empty) (fun (i : Int) (points : List P) =>
      let points : List P := arrSet points i (ops.pointSetX (arrAt ops.pointZero points i) (ops.f64Add (ops.pointX (arrAt ops.pointZero series.points i)) deltaX))
      let points : List P := arrSet points i (ops.pointSetY (arrAt ops.pointZero points i) (ops.f64Add (ops.pointY (arrAt ops.pointZero series.points i)) deltaY))
      Flow.next points) (intRange 0 (Int.ofNat series.points.length)) points with
  | Exit.done points =>
    let nseries : BaseSeries P B X := makeSeries ops points false series.closed none
    let nseries : BaseSeries P B X := { nseries with indexKind := series.indexKind }
    let nseries : BaseSeries P B X :=
      if (seriesIndex ops series).isSome then
        let nseries : BaseSeries P B X := seriesBuildIndex ops nseries
        nseries
      else
        nseries
    nseries
  | Exit.ret r' => nomatch r'

end Geo.SMGen
