/-
  C09, everything: Props/C09.lean (the algebra reduced to leaf-level facts, transparency, pinned
  dispatch) and Props/C09Leaf.lean (the leaf-level facts for all five leaf kinds, lifted to all
  objects; the D4 / D19 counterexamples).
-/
import GeoProofs.Props.C09
import GeoProofs.Props.C09Leaf
