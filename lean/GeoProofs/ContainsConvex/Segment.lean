/-
  GeoProofs.ContainsConvex.Segment — `ringContainsSegment` on a ring with the convex flag
  (inclusive reading): the answer is "both end points are members", for every index kind; for a
  SIMPLE ring this is "every point of the segment is a member".
-/
import GeoProofs.ContainsConvex.Inner
import GeoProofs.Contains.BoxRing

namespace Geo
namespace CC
open GL Jordan Contains

theorem inRing_false_of_outside' (pts : Array Pt) (p : Pt)
    (hp : (processPoints pts true).rect.containsPt p = false) :
    Spec.inRing (Spec.edges pts.toList true) p = false :=
  inRing_false_of_outside pts p hp

theorem inRing_in_rect (pts : Array Pt) (p : Pt)
    (hp : Spec.inRing (Spec.edges pts.toList true) p = true) :
    (processPoints pts true).rect.containsPt p = true := by
  cases h : (processPoints pts true).rect.containsPt p with
  | true => rfl
  | false => rw [inRing_false_of_outside' pts p h] at hp; cases hp

/-- the code on a convex-flagged ring: sites 1–5 only -/
theorem ringContainsSegment_convex (pts : Array Pt) (kind : IndexKind) (m : Nat)
    (hvis : (mkSeries pts true kind m).SearchExact)
    (hcv : (processPoints pts true).convex = true) (seg : Seg) :
    ringContainsSegment (.ser (mkSeries pts true kind m)) seg true =
      (Spec.inRing (Spec.edges pts.toList true) seg.a &&
       Spec.inRing (Spec.edges pts.toList true) seg.b) := by
  have hA := ringContainsPoint_inclusive pts kind m hvis seg.a
  have hB := ringContainsPoint_inclusive pts kind m hvis seg.b
  have hcv' : (Ring.ser (mkSeries pts true kind m)).convex = true := hcv
  have hr : (Ring.ser (mkSeries pts true kind m)).rect = (processPoints pts true).rect := rfl
  unfold ringContainsSegment ringContainsSegmentS
  simp only [hA, hB, hcv', hr]
  by_cases ha : Spec.inRing (Spec.edges pts.toList true) seg.a = true
  · by_cases hb : Spec.inRing (Spec.edges pts.toList true) seg.b = true
    · simp only [ha, hb, inRing_in_rect pts _ ha, inRing_in_rect pts _ hb]
      by_cases hab : seg.b = seg.a <;> simp [hab]
    · have hb' : Spec.inRing (Spec.edges pts.toList true) seg.b = false := by simpa using hb
      have hne : seg.b ≠ seg.a := fun h => by rw [h, ha] at hb'; cases hb'
      simp only [ha, hb', inRing_in_rect pts _ ha]
      cases (processPoints pts true).rect.containsPt seg.b <;> simp [hne]
  · have ha' : Spec.inRing (Spec.edges pts.toList true) seg.a = false := by simpa using ha
    simp only [ha']
    cases (processPoints pts true).rect.containsPt seg.a <;>
      cases (processPoints pts true).rect.containsPt seg.b <;> simp

/-- the closed region of the chain is convex -/
def ClosedConvex (L : List Pt) : Prop :=
  ∀ p q x, Spec.inRing (Spec.edges L true) p = true → Spec.inRing (Spec.edges L true) q = true →
    OnSeg p q x → Spec.inRing (Spec.edges L true) x = true

theorem closedConvex_of_simple (pts : Array Pt) (hs : Spec.simpleRing pts.toList = true)
    (hcv : (processPoints pts true).convex = true) : ClosedConvex pts.toList := by
  intro p q x hp hq hx
  exact closed_convex_of_simple pts.toList hs (by rw [Array.toArray_toList]; exact hcv) p q x hp hq hx

/-- **ring ⊇ segment, convex simple ring, inclusive**: every point of the segment is a member -/
theorem ringContainsSegment_convex_all (pts : Array Pt) (kind : IndexKind) (m : Nat)
    (hvis : (mkSeries pts true kind m).SearchExact)
    (hs : Spec.simpleRing pts.toList = true)
    (hcv : (processPoints pts true).convex = true) (seg : Seg) :
    ringContainsSegment (.ser (mkSeries pts true kind m)) seg true = true ↔
      ∀ x, OnSeg seg.a seg.b x → Spec.inRing (Spec.edges pts.toList true) x = true := by
  rw [ringContainsSegment_convex pts kind m hvis hcv seg, Bool.and_eq_true]
  constructor
  · rintro ⟨ha, hb⟩ x hx
    exact closedConvex_of_simple pts hs hcv _ _ x ha hb hx
  · intro h
    exact ⟨h _ (K.onSeg_left _ _), h _ (K.onSeg_right _ _)⟩

end CC
end Geo
