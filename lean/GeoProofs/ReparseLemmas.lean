/-
  GeoProofs.ReparseLemmas — helper lemmas for C06 (Parse → JSON → Parse is a fixpoint):
  `scanKeys`, the document well-formedness predicate `DocOK`, per-type equations of `parse`,
  and the round trip of the coordinate parsers.
-/
import GeoProofs.WriteLemmas

namespace Geo

/-! ### scanKeys -/

def isSpecialKey (s : String) : Bool :=
  s == "type" || s == "coordinates" || s == "geometries" || s == "geometry" || s == "features"

/-- one step of `scanKeys` -/
def scanStep (k : Keys) (m : Member) : Keys :=
  match m.2.1 with
  | "type" => { k with type := some m.2.2 }
  | "coordinates" => { k with coordinates := some m.2.2 }
  | "geometries" => { k with geometries := some m.2.2 }
  | "geometry" => { k with geometry := some m.2.2 }
  | "features" => { k with features := some m.2.2 }
  | _ => { k with foreign := k.foreign ++ [m] }

theorem scanKeys_eq (ms : List Member) : scanKeys ms = ms.foldl scanStep {} := rfl

theorem scanStep_foreign (k : Keys) (m : Member) :
    (scanStep k m).foreign = k.foreign ++ (if isSpecialKey m.2.1 then [] else [m]) := by
  unfold scanStep
  split <;> rename_i h <;> simp_all [isSpecialKey]

theorem scanStep_nonspecial (k : Keys) (m : Member) (h : isSpecialKey m.2.1 = false) :
    scanStep k m = { k with foreign := k.foreign ++ [m] } := by
  unfold scanStep
  simp only [isSpecialKey, Bool.or_eq_false_iff, beq_eq_false_iff_ne, ne_eq] at h
  split <;> simp_all

theorem foldl_scanStep_foreign (ms : List Member) (k : Keys) :
    (ms.foldl scanStep k).foreign = k.foreign ++ ms.filter (fun m => !isSpecialKey m.2.1) := by
  induction ms generalizing k with
  | nil => simp
  | cons m ms ih =>
    rw [List.foldl_cons, ih, scanStep_foreign, List.filter_cons]
    cases isSpecialKey m.2.1 <;> simp

/-- the foreign members are the members with a non-standard key, in document order -/
theorem scanKeys_foreign (ms : List Member) :
    (scanKeys ms).foreign = ms.filter (fun m => !isSpecialKey m.2.1) := by
  rw [scanKeys_eq, foldl_scanStep_foreign]; rfl

theorem foldl_scanStep_nonspecial (fm : List Member) (k : Keys)
    (h : ∀ m ∈ fm, isSpecialKey m.2.1 = false) :
    fm.foldl scanStep k = { k with foreign := k.foreign ++ fm } := by
  induction fm generalizing k with
  | nil => simp
  | cons m fm ih =>
    rw [List.foldl_cons, scanStep_nonspecial k m (h m (by simp)), ih _ (fun m' hm' => h m' (by simp [hm']))]
    simp

/-- every standard member found by `scanKeys` is a member of the document -/
theorem foldl_scanStep_mem (P : JVal → Prop) (ms : List Member) (k : Keys)
    (hms : ∀ m ∈ ms, P m.2.2)
    (hk : (∀ v, k.type = some v → P v) ∧ (∀ v, k.coordinates = some v → P v) ∧
      (∀ v, k.geometries = some v → P v) ∧ (∀ v, k.geometry = some v → P v) ∧
      (∀ v, k.features = some v → P v)) :
    let k' := ms.foldl scanStep k
    (∀ v, k'.type = some v → P v) ∧ (∀ v, k'.coordinates = some v → P v) ∧
      (∀ v, k'.geometries = some v → P v) ∧ (∀ v, k'.geometry = some v → P v) ∧
      (∀ v, k'.features = some v → P v) := by
  induction ms generalizing k with
  | nil => exact hk
  | cons m ms ih =>
    rw [List.foldl_cons]
    apply ih _ (fun m' hm' => hms m' (by simp [hm']))
    have hm := hms m (by simp)
    obtain ⟨h1, h2, h3, h4, h5⟩ := hk
    unfold scanStep
    split <;> refine ⟨?_, ?_, ?_, ?_, ?_⟩ <;> intro v hv <;> simp only [Option.some.injEq] at hv <;>
      first
      | (subst hv; exact hm)
      | exact h1 v hv | exact h2 v hv | exact h3 v hv | exact h4 v hv | exact h5 v hv

theorem scanKeys_mem (P : JVal → Prop) (ms : List Member) (hms : ∀ m ∈ ms, P m.2.2) :
    (∀ v, (scanKeys ms).type = some v → P v) ∧ (∀ v, (scanKeys ms).coordinates = some v → P v) ∧
      (∀ v, (scanKeys ms).geometries = some v → P v) ∧ (∀ v, (scanKeys ms).geometry = some v → P v) ∧
      (∀ v, (scanKeys ms).features = some v → P v) := by
  rw [scanKeys_eq]
  exact foldl_scanStep_mem P ms {} hms ⟨by simp, by simp, by simp, by simp, by simp⟩

/-- `scanKeys` of a written document -/
theorem scanKeys_written (tv : JVal) (key : String) (c : JVal) (fm : List Member)
    (hfm : ∀ m ∈ fm, isSpecialKey m.2.1 = false) :
    scanKeys (mem "type" tv :: mem key c :: fm) =
      { (scanStep (scanStep {} (mem "type" tv)) (mem key c)) with
        foreign := (scanStep (scanStep {} (mem "type" tv)) (mem key c)).foreign ++ fm } := by
  rw [scanKeys_eq, List.foldl_cons, List.foldl_cons, foldl_scanStep_nonspecial _ _ hfm]

end Geo

namespace Geo

/-! ### well-formed documents (tokens + number codec contract) -/

mutual
/-- the leaves are tokens, and (number codec contract) the canonical texts `canon`, `canonK` of a
    finite number are number tokens -/
def JVal.DocOK : JVal → Prop
  | .num fin _ canon canonK raw =>
    IsNumTok raw.toList ∧ (fin = true → IsNumTok canon.toList ∧ IsNumTok canonK.toList)
  | .str raw _ => IsStrTok raw.toList
  | .arr items => DocOKL items
  | .obj ms => DocOKM ms
  | _ => True
def DocOKL : List JVal → Prop
  | [] => True
  | v :: vs => v.DocOK ∧ DocOKL vs
def DocOKM : List Member → Prop
  | [] => True
  | (k, _, v) :: ms => IsStrTok k.toList ∧ v.DocOK ∧ DocOKM ms
end

theorem docOKL_iff : ∀ {vs : List JVal}, DocOKL vs ↔ ∀ v ∈ vs, v.DocOK
  | [] => by simp [DocOKL]
  | v :: vs => by rw [DocOKL, docOKL_iff (vs := vs)]; simp

theorem docOKM_iff : ∀ {ms : List Member}, DocOKM ms ↔ ∀ m ∈ ms, IsStrTok m.1.toList ∧ m.2.2.DocOK
  | [] => by simp [DocOKM]
  | (k, d, v) :: ms => by rw [DocOKM, docOKM_iff (ms := ms)]; simp [and_assoc]

mutual
theorem JVal.DocOK.tokOK : ∀ {v : JVal}, v.DocOK → v.TokOK
  | .null, _ => trivial
  | .tru, _ => trivial
  | .fls, _ => trivial
  | .num _ _ _ _ _, h => by simp only [JVal.DocOK] at h; simpa [JVal.TokOK] using h.1
  | .str _ _, h => by simpa [JVal.DocOK, JVal.TokOK] using h
  | .arr items, h => by
    simp only [JVal.DocOK] at h; simp only [JVal.TokOK]; exact docOKL_tokOK h
  | .obj ms, h => by
    simp only [JVal.DocOK] at h; simp only [JVal.TokOK]; exact docOKM_tokOK h
theorem docOKL_tokOK : ∀ {vs : List JVal}, DocOKL vs → TokOKL vs
  | [], _ => trivial
  | v :: vs, h => by rw [DocOKL] at h; rw [TokOKL]; exact ⟨h.1.tokOK, docOKL_tokOK h.2⟩
theorem docOKM_tokOK : ∀ {ms : List Member}, DocOKM ms → TokOKM ms
  | [], _ => trivial
  | (k, d, v) :: ms, h => by rw [DocOKM] at h; rw [TokOKM]; exact ⟨h.1, h.2.1.tokOK, docOKM_tokOK h.2.2⟩
end

theorem JVal.DocOK.elems {v : JVal} (h : v.DocOK) : ∀ e ∈ v.elems, e.DocOK := by
  cases v with
  | arr items => simp only [JVal.DocOK] at h; simpa [JVal.elems] using docOKL_iff.mp h
  | obj ms =>
    simp only [JVal.DocOK] at h
    intro e he
    simp only [JVal.elems, List.mem_map] at he
    obtain ⟨m, hm, rfl⟩ := he
    exact (docOKM_iff.mp h m hm).2
  | _ => intro e he; simp only [JVal.elems, List.mem_singleton] at he; subst he; exact h

theorem DocOKM.filter {ms : List Member} (h : DocOKM ms) (p : Member → Bool) : DocOKM (ms.filter p) :=
  docOKM_iff.mpr (fun m hm => docOKM_iff.mp h m (List.mem_filter.mp hm).1)

theorem DocOKM.foreign {ms : List Member} (h : DocOKM ms) : DocOKM (scanKeys ms).foreign := by
  rw [scanKeys_foreign]; exact h.filter _

theorem foreign_nonspecial (ms : List Member) : ∀ m ∈ (scanKeys ms).foreign, isSpecialKey m.2.1 = false := by
  rw [scanKeys_foreign]
  intro m hm
  simpa using (List.mem_filter.mp hm).2

/-! ### finiteness of an object -/

def ExFin : Option Extra → Prop
  | none => True
  | some e => ∀ t ∈ e.values, t ≠ "null"

mutual
/-- all positions (ordinates and z/m values, radius of a circle) are finite -/
def AllFin : Obj → Prop
  | .point pos ex => pos.fin = true ∧ ExFin ex
  | .spoint pos => pos.fin = true
  | .lineString _ poss ex => (∀ p ∈ poss, p.fin = true) ∧ ExFin ex
  | .polygon _ rings ex => (∀ r ∈ rings, ∀ p ∈ r, p.fin = true) ∧ ExFin ex
  | .rectO _ lo hi => lo.fin = true ∧ hi.fin = true
  | .coll _ cs _ _ => AllFinL cs
  | .feature b _ => AllFin b
  | .circle c r => c.fin = true ∧ r ≠ "null"
def AllFinL : List Obj → Prop
  | [] => True
  | c :: cs => AllFin c ∧ AllFinL cs
end

theorem allFinL_iff : ∀ {cs : List Obj}, AllFinL cs ↔ ∀ c ∈ cs, AllFin c
  | [] => by simp [AllFinL]
  | c :: cs => by rw [AllFinL, allFinL_iff (cs := cs)]; simp

/-! ### ordinates -/

/-- what a parsed ordinate of a well-formed document satisfies -/
def OrdOK (o : Ord) : Prop := (o.fin = true → IsNumTok o.canon.toList) ∧ (o.fin = false → o.canon = "null")

theorem OrdOK.fin_of_ne {o : Ord} (h : OrdOK o) (hne : o.canon ≠ "null") : o.fin = true := by
  cases hf : o.fin with
  | true => rfl
  | false => exact absurd (h.2 hf) hne

theorem OrdOK.tok_of_ne {o : Ord} (h : OrdOK o) (hne : o.canon ≠ "null") : IsNumTok o.canon.toList :=
  h.1 (h.fin_of_ne hne)

theorem takeNums_ok (a : Bool) : ∀ (vs : List JVal) (c : Nat) (nums : List Ord),
    takeNums a vs c = .ok nums → c ≤ 4 → DocOKL vs → (∀ o ∈ nums, OrdOK o) ∧ nums.length + c ≤ 4
  | [], c, nums, h, hc, _ => by
    simp only [takeNums] at h; cases h; exact ⟨by simp, by simpa using hc⟩
  | v :: vs, c, nums, h, hc, hd => by
    rw [DocOKL] at hd
    by_cases h4 : (c == 4) = true
    · unfold takeNums at h; rw [if_pos h4] at h; cases h; exact ⟨by simp, by simpa using hc⟩
    · have hc' : c + 1 ≤ 4 := by simp at h4; omega
      cases v with
      | num fin val canon canonK raw =>
        unfold takeNums at h; rw [if_neg h4] at h
        simp only at h
        cases hr : takeNums a vs (c + 1) with
        | error e => simp [hr, bind, Except.bind] at h
        | ok rest =>
          simp only [hr, bind, Except.bind, pure, Except.pure, Except.ok.injEq] at h
          subst h
          have ih := takeNums_ok a vs (c + 1) rest hr hc' hd.2
          refine ⟨?_, by simp; omega⟩
          intro o ho
          rcases List.mem_cons.mp ho with rfl | ho
          · have := hd.1
            simp only [JVal.DocOK] at this
            cases fin with
            | true => exact ⟨fun _ => by simpa using (this.2 rfl).1, fun h => by cases h⟩
            | false => exact ⟨fun h => by cases h, fun _ => by simp⟩
          · exact ih.1 o ho
      | null =>
        unfold takeNums at h; rw [if_neg h4] at h
        simp only at h
        cases a with
        | false => simp at h
        | true =>
          simp only [if_true] at h
          cases hr : takeNums true vs (c + 1) with
          | error e => simp [hr, bind, Except.bind] at h
          | ok rest =>
            simp only [hr, bind, Except.bind, pure, Except.pure, Except.ok.injEq] at h
            subst h
            have ih := takeNums_ok true vs (c + 1) rest hr hc' hd.2
            refine ⟨?_, by simp; omega⟩
            intro o ho
            rcases List.mem_cons.mp ho with rfl | ho
            · exact ⟨fun h => by cases h, fun _ => rfl⟩
            · exact ih.1 o ho
      | tru => unfold takeNums at h; rw [if_neg h4] at h; cases h
      | fls => unfold takeNums at h; rw [if_neg h4] at h; cases h
      | str _ _ => unfold takeNums at h; rw [if_neg h4] at h; cases h
      | arr _ => unfold takeNums at h; rw [if_neg h4] at h; cases h
      | obj _ => unfold takeNums at h; rw [if_neg h4] at h; cases h

section Nodes
variable (vf : String → Rat) (kf : String → String)

/-- the number node written for a finite ordinate with value `v` and canonical text `t`
    (`kf` = the ×1000 text a decoder computes; irrelevant to `parse` of written documents) -/
def numN (v : Rat) (t : String) : JVal := .num true v t (kf t) t

/-- node of a z/m text (`vf` = the value a decoder computes) -/
def extraN (t : String) : JVal := numN kf (vf t) t

/-- the written position -/
def posNode (p : Pos) (ts : List String) : JVal :=
  .arr (numN kf p.p.x p.xs :: numN kf p.p.y p.ys :: ts.map (extraN vf kf))

theorem takeNums_nodes (a : Bool) : ∀ (os : List Ord) (c : Nat), c + os.length ≤ 4 →
    (∀ o ∈ os, o.fin = true) →
    takeNums a (os.map (fun o => numN kf o.val o.canon)) c = .ok os
  | [], _, _, _ => rfl
  | o :: os, c, hc, hf => by
    have h4 : ¬ (c == 4) = true := by simp at hc ⊢; omega
    rw [List.map_cons, numN, takeNums, if_neg h4]
    simp only
    have := takeNums_nodes a os (c + 1) (by simp at hc; omega) (fun o' ho' => hf o' (by simp [ho']))
    simp only [numN] at this
    rw [this]
    have hfo := hf o (by simp)
    obtain ⟨f, v, t⟩ := o
    simp only at hfo
    subst hfo
    simp [bind, Except.bind, pure, Except.pure]

/-- the ordinates read back from a written position -/
def posOrds (p : Pos) (ts : List String) : List Ord :=
  ⟨true, p.p.x, p.xs⟩ :: ⟨true, p.p.y, p.ys⟩ :: ts.map (fun t => ⟨true, vf t, t⟩)

theorem takeNums_posNode (a : Bool) (p : Pos) (ts : List String) (h : ts.length ≤ 2) :
    takeNums a (posNode vf kf p ts).elems 0 = .ok (posOrds vf p ts) := by
  have := takeNums_nodes kf a (posOrds vf p ts) 0 (by simp [posOrds]; omega)
    (by intro o ho; simp only [posOrds, List.mem_cons, List.mem_map] at ho
        rcases ho with rfl | rfl | ⟨t, _, rfl⟩ <;> rfl)
  have e : ts.map (extraN vf kf) = ts.map (fun x => numN kf (vf x) x) := rfl
  simpa [posNode, posOrds, JVal.elems, e, List.map_map, Function.comp_def] using this

theorem mkPos_posOrds (p : Pos) (hf : p.fin = true) :
    mkPos ⟨true, p.p.x, p.xs⟩ ⟨true, p.p.y, p.ys⟩ = p := by
  obtain ⟨⟨x, y⟩, f, xs, ys⟩ := p
  simp only at hf
  subst hf
  rfl

theorem posV_posNode {p : Pos} {ex : Option Extra} {i : Nat} {ts : List String}
    (hx : IsNumTok p.xs.toList) (hy : IsNumTok p.ys.toList) (hts : extrasAt ex i = some ts)
    (htok : ∀ t ∈ ts, IsNumTok t.toList) : PosV p ex i (posNode vf kf p ts) := by
  refine ⟨_, _, ts, ts.map (extraN vf kf), .inr ⟨hx, _, rfl⟩, .inr ⟨hy, _, rfl⟩, hts, ?_, rfl⟩
  clear hts
  induction ts with
  | nil => exact .nil
  | cons t ts ih =>
    exact .cons (.inr ⟨htok t (by simp), _, _, rfl⟩) (ih (fun t' ht' => htok t' (by simp [ht'])))

end Nodes

end Geo
