/-
  GeoProofs.Props.RingBridge — the ring-level predicates of geometry/ring.go, REGENERATED from the
  current Go source (GeoModel/Generated/RingGen.lean, `translate ring`), instantiated with the
  operations of the hand model (`RGlue.mops`, GeoProofs/Glue/RingGlue.lean), compute the hand
  model GeoModel/Geom.lean — for every ring whose searches are early-exit folds over a visit
  list (`RGlue.Exact`: every Rect, every series without index, every series whose index search
  is exact, `Series.SearchExact`; the model's "decoding panic" branch has no visit list).

  ringContainsRing is recursive in Go: its translation is the recursion equation, with the
  recursive call as the operation `rec_ringContainsRing`.  `ringContainsRing_bridge`: the model
  satisfies the equation; `ringContainsRing_unique`: it is the only function that does.
-/
import GeoProofs.Glue.RingGlueLoops

namespace Geo.RingBridge
open Geo Geo.RGlue

/-- ringContainsPoint: hit -/
theorem ringContainsPoint_hit_bridge {r : Ring} (hr : Exact r) (p : Pt) (b : Bool) :
    (RGen.ringContainsPoint mops r (EPt.ofPt p) b).hit = (Geo.ringContainsPoint r p b).hit :=
  ringContainsPoint_hit _ hr p b

/-- ringContainsPoint: idx (-1 = none) -/
theorem ringContainsPoint_idx_bridge {r : Ring} (hr : Exact r) (p : Pt) (b : Bool) :
    (RGen.ringContainsPoint mops r (EPt.ofPt p) b).idx =
      (match (Geo.ringContainsPoint r p b).idx with | none => -1 | some i => (i : Int)) := by
  rw [show mops = mopsR Geo.ringContainsRing from rfl, ringContainsPoint_idx _ hr p b]
  cases (Geo.ringContainsPoint r p b).idx <;> rfl

theorem ringIntersectsPoint_bridge {r : Ring} (hr : Exact r) (p : Pt) (b : Bool) :
    RGen.ringIntersectsPoint mops r (EPt.ofPt p) b =
      ⟨(Geo.ringContainsPoint r p b).hit, encIdx (Geo.ringContainsPoint r p b).idx⟩ :=
  ringContainsPoint_gen _ hr p b

theorem ringContainsSegment_bridge {r : Ring} (hr : Exact r) (s : Seg) (b : Bool) :
    RGen.ringContainsSegment mops r s b = (Geo.ringContainsSegmentS r s b).val :=
  ringContainsSegment_gen _ hr s b

theorem ringIntersectsSegment_bridge {r : Ring} (hr : Exact r) (s : Seg) (b : Bool) :
    RGen.ringIntersectsSegment mops r s b = (Geo.ringIntersectsSegmentS r s b).val :=
  ringIntersectsSegment_gen _ hr s b

/-- the model satisfies the recursion equation read off the Go source -/
theorem ringContainsRing_bridge {r : Ring} (hr : Exact r) (o : Ring) (b : Bool) :
    RGen.ringContainsRing mops r o b = Geo.ringContainsRing r o b := by
  rw [show mops = mopsR Geo.ringContainsRing from rfl, ringContainsRing_gen _ hr]
  by_cases he : (r.empty || o.empty) = true
  · unfold Geo.ringContainsRing
    simp only [he, ↓reduceIte]
  · have he' : r.empty = false := by
      cases h : r.empty
      · rfl
      · simp [h] at he
    rw [model_bx r o.rect b he']
    unfold Geo.ringContainsRing
    simp only [he, Bool.false_eq_true, ↓reduceIte]

/-- … and is the only function that does: whatever the recursive call computes, if the result
    obeys the translated equation it is the model -/
theorem ringContainsRing_unique (f : Ring → Ring → Bool → Bool)
    (hf : ∀ r o b, Exact r → RGen.ringContainsRing (mopsR f) r o b = f r o b)
    {r : Ring} (hr : Exact r) (o : Ring) (b : Bool) : f r o b = Geo.ringContainsRing r o b := by
  have hbx : ∀ bb : Box, f r (.bx bb) b = Geo.ringContainsRing r (.bx bb) b := by
    intro bb
    rw [← hf r (.bx bb) b hr, ringContainsRing_gen f hr]
    have h1 : (Ring.bx bb).empty = false := rfl
    have h2 : (Ring.bx bb).numPoints = 5 := rfl
    unfold Geo.ringContainsRing
    simp [h1, h2, Geo.complexRingMinPoints]
  rw [← hf r o b hr, ringContainsRing_gen f hr, hbx]
  exact (ringContainsRing_gen Geo.ringContainsRing hr o b).symm.trans (ringContainsRing_bridge hr o b)

theorem ringIntersectsRing_bridge {r o : Ring} (hr : Exact r) (ho : Exact o) (b : Bool) :
    RGen.ringIntersectsRing mops r o b = Geo.ringIntersectsRing r o b :=
  ringIntersectsRing_gen _ hr ho b

theorem ringContainsLine_bridge {r : Ring} (hr : Exact r) (l : Line) (b : Bool) :
    RGen.ringContainsLine mops r l b = Geo.ringContainsLine r l b := by
  rw [show mops = mopsR Geo.ringContainsRing from rfl, ringContainsLine_gen]
  exact ringContainsRing_bridge hr (.ser l) b

theorem ringIntersectsLine_bridge {r : Ring} (hr : Exact r) (l : Line) (b : Bool) :
    RGen.ringIntersectsLine mops r l b = Geo.ringIntersectsLine r l b :=
  ringIntersectsLine_gen _ hr l b

/-- where the hypothesis holds -/
theorem exact_rect (bb : Box) : Exact (.bx bb) := exact_bx bb
theorem exact_series {s : Series} (hs : s.SearchExact) : Exact (.ser s) := exact_ser hs
theorem exact_unindexed (s : Series) (h : s.index = none) : Exact (.ser s) := exact_of_index_none s h

end Geo.RingBridge

#print axioms Geo.RingBridge.ringContainsPoint_hit_bridge
#print axioms Geo.RingBridge.ringContainsPoint_idx_bridge
#print axioms Geo.RingBridge.ringIntersectsPoint_bridge
#print axioms Geo.RingBridge.ringContainsSegment_bridge
#print axioms Geo.RingBridge.ringIntersectsSegment_bridge
#print axioms Geo.RingBridge.ringContainsRing_bridge
#print axioms Geo.RingBridge.ringContainsRing_unique
#print axioms Geo.RingBridge.ringIntersectsRing_bridge
#print axioms Geo.RingBridge.ringContainsLine_bridge
#print axioms Geo.RingBridge.ringIntersectsLine_bridge
#print axioms Geo.RingBridge.exact_rect
#print axioms Geo.RingBridge.exact_series
#print axioms Geo.RingBridge.exact_unindexed
