/-
  GeoProofs.Glue.PolyGlue — the glue regenerated from the CURRENT Go source
  (GeoModel/Generated/GlueGen.lean: hole loops of poly.go, forwards of rect.go / line.go),
  instantiated with the hand model's ring-level functions, IS the hand model (GeoModel/Geom.lean).

  `modelOps` lists every callee the translator found in the source; a new or vanished callee
  changes the structure `GGen.RingOps` and this file stops compiling.
-/
import GeoModel.Geom
import GeoModel.Generated.GlueGen

set_option linter.unusedSimpArgs false

namespace Geo.Glue
open Geo Geo.GGen

/-- the hand model's `Poly` as the generated record, and back -/
def toG (p : Poly) : GPoly Ring := ⟨p.ext, p.holes⟩
def ofG (g : GPoly Ring) : Poly := ⟨g.ext, g.holes⟩

theorem ofG_toG (p : Poly) : ofG (toG p) = p := rfl
theorem toG_ofG (g : GPoly Ring) : toG (ofG g) = g := rfl

/-- the callees of the glue, as modelled by hand in GeoModel/Geom.lean -/
def modelOps : RingOps Ring Line Box Pt where
  lineContainsPoint := Line.containsPoint
  lineContainsPoly := fun l g => Line.containsPoly l (ofG g)
  lineEmpty := fun l => l.empty
  lineRect := fun l => l.rect
  rectContainsRect := Box.containsBox
  rectZero := ⟨⟨0, 0⟩, ⟨0, 0⟩⟩
  ringContainsLine := Geo.ringContainsLine
  ringContainsPoint_hit := fun r p b => (Geo.ringContainsPoint r p b).hit
  ringContainsRing := Geo.ringContainsRing
  ringEmpty := Ring.empty
  ringIntersectsLine := Geo.ringIntersectsLine
  ringIntersectsRing := Geo.ringIntersectsRing
  ringOfRect := Ring.bx
  ringRect := Ring.rect

/-! ### the loop shapes of the current source, as facts about `forRange`

The loop body is a hypothesis (`hb`), so that the lemmas apply up to definitional unfolding of
the generated lambda. -/

/-- `for _, h := range hs { if f h { return false } }` -/
theorem forRange_retFalse {ε : Type} (f : ε → Bool) {body : ε → Unit → Flow Unit Bool}
    {hs : List ε} (hb : ∀ h u, body h u = if f h then Flow.ret false else Flow.next ()) :
    forRange body hs () = if hs.any f then Exit.ret false else Exit.done () := by
  induction hs with
  | nil => rfl
  | cons h hs ih =>
    by_cases hf : f h = true
    · simp [forRange, hb, hf]
    · simp [forRange, hb, hf, ih]

/-- `for _, h := range hs { if f h { c = v; break } }` -/
theorem forRange_setBreak {ε ρ : Type} (f : ε → Bool) (v : Bool) {body : ε → Bool → Flow Bool ρ}
    {hs : List ε} {c : Bool} (hb : ∀ h c, body h c = if f h then Flow.brk v else Flow.next c) :
    forRange body hs c = Exit.done (if hs.any f then v else c) := by
  induction hs generalizing c with
  | nil => rfl
  | cons h hs ih =>
    by_cases hf : f h = true
    · simp [forRange, hb, hf]
    · simp [forRange, hb, hf, ih]

/-- the outer loop of `ContainsPoly`, once the inner loop has been evaluated (`g`): a hole that
    meets the other exterior (`i`) must be covered, the first one that is not ends the loop -/
theorem forRange_allCovered {ε ρ : Type} (i g : ε → Bool) {body : ε → Bool → Flow Bool ρ}
    {hs : List ε}
    (hb : ∀ h c, body h c =
      if i h then (if !(g h) then Flow.brk (g h) else Flow.next (g h)) else Flow.next c) :
    forRange body hs true = Exit.done (hs.all (fun h => if i h then g h else true)) := by
  induction hs with
  | nil => rfl
  | cons h hs ih =>
    by_cases hi : i h = true
    · by_cases hg : g h = true
      · simpa [forRange, hb, hi, hg] using ih
      · simp [forRange, hb, hi, hg]
    · simpa [forRange, hb, hi] using ih

/-! ### Poly -/

theorem polyEmpty_eq (p : Poly) : polyEmpty modelOps (some (toG p)) = p.empty := by
  cases p with | mk ext holes => cases ext <;> rfl

theorem polyRect_eq (p : Poly) : polyRect modelOps (some (toG p)) = p.rect := by
  cases p with | mk ext holes => cases ext <;> rfl

theorem polyContainsPoint_eq (p : Poly) (pt : Pt) :
    polyContainsPoint modelOps (some (toG p)) pt = p.containsPoint pt := by
  cases p with | mk ext holes =>
  cases ext with
  | none => rfl
  | some e =>
    dsimp only [polyContainsPoint, toG]
    rw [forRange_setBreak (fun h => (Geo.ringContainsPoint h pt false).hit) false]
    · by_cases h1 : (Geo.ringContainsPoint e pt true).hit = true <;>
        cases h2 : holes.any (fun h => (Geo.ringContainsPoint h pt false).hit) <;>
        simp [modelOps, Poly.containsPoint, h1, h2]
    · intro h c; rfl

theorem polyIntersectsPoint_eq (p : Poly) (pt : Pt) :
    polyIntersectsPoint modelOps (some (toG p)) pt = p.containsPoint pt :=
  polyContainsPoint_eq p pt

theorem polyContainsLine_eq (p : Poly) (l : Line) :
    polyContainsLine modelOps (some (toG p)) (some l) = p.containsLine l := by
  cases p with | mk ext holes =>
  cases ext with
  | none => rfl
  | some e =>
    dsimp only [polyContainsLine, toG]
    rw [forRange_retFalse (fun h => Geo.ringIntersectsLine h l false)]
    · by_cases h1 : Geo.ringContainsLine e l true = true <;>
        cases h2 : holes.any (fun h => Geo.ringIntersectsLine h l false) <;>
        simp [modelOps, Poly.containsLine, h1, h2]
    · intro h u; rfl

theorem polyIntersectsLine_eq (p : Poly) (l : Line) :
    polyIntersectsLine modelOps (some (toG p)) (some l) = p.intersectsLine l := by
  cases p with | mk ext holes =>
  cases ext with
  | none => rfl
  | some e =>
    dsimp only [polyIntersectsLine, toG]
    rw [forRange_retFalse (fun h => Geo.ringContainsLine h l false)]
    · by_cases h1 : Geo.ringIntersectsLine e l true = true <;>
        cases h2 : holes.any (fun h => Geo.ringContainsLine h l false) <;>
        simp [modelOps, Poly.intersectsLine, h1, h2]
    · intro h u; rfl

theorem polyContainsPoly_eq (p o : Poly) :
    polyContainsPoly modelOps (some (toG p)) (some (toG o)) = p.containsPoly o := by
  cases p with | mk ext holes =>
  cases o with | mk oext oholes =>
  cases ext with
  | none => rfl
  | some e =>
  cases oext with
  | none => rfl
  | some oe =>
    dsimp only [polyContainsPoly, toG]
    rw [forRange_allCovered (fun h => Geo.ringIntersectsRing h oe false)
      (fun h => oholes.any (fun oh => Geo.ringContainsRing oh h true))]
    · by_cases h1 : Geo.ringContainsRing e oe true = true <;>
        simp [modelOps, Poly.containsPoly, h1]
    · intro h c
      rw [forRange_setBreak (fun oh => Geo.ringContainsRing oh h true) true]
      · by_cases h2 : Geo.ringIntersectsRing h oe false = true <;>
          cases h3 : oholes.any (fun oh => Geo.ringContainsRing oh h true) <;>
          simp [modelOps, h2, h3]
      · intro oh c; rfl

theorem polyIntersectsPoly_eq (p o : Poly) :
    polyIntersectsPoly modelOps (some (toG p)) (some (toG o)) = p.intersectsPoly o := by
  cases p with | mk ext holes =>
  cases o with | mk oext oholes =>
  cases ext with
  | none => rfl
  | some e =>
  cases oext with
  | none => rfl
  | some oe =>
    dsimp only [polyIntersectsPoly, toG]
    rw [forRange_retFalse (fun h => Geo.ringContainsRing h oe false),
      forRange_retFalse (fun h => Geo.ringContainsRing h e false)]
    · by_cases h1 : Geo.ringIntersectsRing oe e true = true <;>
        cases h2 : holes.any (fun h => Geo.ringContainsRing h oe false) <;>
        cases h3 : oholes.any (fun h => Geo.ringContainsRing h e false) <;>
        simp [modelOps, Poly.intersectsPoly, h1, h2, h3]
    · intro h u; rfl
    · intro h u; rfl

theorem polyContainsRect_eq (p : Poly) (r : Box) :
    polyContainsRect modelOps (some (toG p)) r = p.containsRect r :=
  polyContainsPoly_eq p r.asPoly

theorem polyIntersectsRect_eq (p : Poly) (r : Box) :
    polyIntersectsRect modelOps (some (toG p)) r = p.intersectsRect r :=
  polyIntersectsPoly_eq p r.asPoly

/-! ### Rect -/

theorem rectContainsLine_eq (r : Box) (l : Line) :
    rectContainsLine modelOps r (some l) = r.containsLine l := rfl

theorem rectIntersectsLine_eq (r : Box) (l : Line) :
    rectIntersectsLine modelOps r (some l) = r.intersectsLine l := rfl

theorem rectContainsPoly_eq (r : Box) (p : Poly) :
    rectContainsPoly modelOps r (some (toG p)) = r.containsPoly p := by
  show (!(polyEmpty modelOps (some (toG p))) && r.containsBox (polyRect modelOps (some (toG p)))) = _
  rw [polyEmpty_eq, polyRect_eq]; rfl

theorem rectIntersectsPoly_eq (r : Box) (p : Poly) :
    rectIntersectsPoly modelOps r (some (toG p)) = r.intersectsPoly p :=
  polyIntersectsRect_eq p r

/-! ### Line (the forwards only) -/

theorem lineIntersectsPoint_eq (l : Line) (pt : Pt) :
    lineIntersectsPoint modelOps (some l) pt = l.containsPoint pt := rfl

theorem lineContainsRect_eq (l : Line) (r : Box) :
    lineContainsRect modelOps (some l) r = l.containsRect r := rfl

theorem lineIntersectsRect_eq (l : Line) (r : Box) :
    lineIntersectsRect modelOps (some l) r = l.intersectsRect r := rfl

theorem lineIntersectsPoly_eq (l : Line) (p : Poly) :
    lineIntersectsPoly modelOps (some l) (some (toG p)) = l.intersectsPoly p :=
  polyIntersectsLine_eq p l

end Geo.Glue
