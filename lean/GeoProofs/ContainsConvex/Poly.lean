/-
  GeoProofs.ContainsConvex.Poly — `(build A).contains (build B) = Spec.covers A B` for a polygon
  `A` without holes whose exterior is a simple ring with the convex flag; no general-position
  hypothesis.
-/
import GeoProofs.ContainsConvex.Verts

namespace Geo
namespace CC
open GL Jordan Contains

section
variable (ext : List Pt) (hs : Spec.simpleRing ext = true)
  (hcv : (processPoints ext.toArray true).convex = true)

theorem polyA_member (p : Pt) :
    (Spec.Shape.poly ext []).member p = Spec.inRing (Spec.edges ext true) p := by
  simp [Spec.Shape.member]

include hs in
theorem ext_len : 3 ≤ ext.length := (Cvx.ring_data ext hs).1

include hs hcv

theorem ext_convex : ClosedConvex ext := closedConvex_of_simple ext.toArray hs hcv

theorem polyA_segInside (a b : Pt) :
    Spec.segInside (Spec.Shape.poly ext []).member (Spec.Shape.poly ext []).edges a b =
      (Spec.inRing (Spec.edges ext true) a && Spec.inRing (Spec.edges ext true) b) := by
  have : (Spec.Shape.poly ext []).member = fun p => Spec.inRing (Spec.edges ext true) p :=
    funext (polyA_member ext)
  rw [this]
  exact segInside_of_convex _ _ a b (fun ha hb x hx => ext_convex ext hs hcv a b x ha hb hx)

/-- all edges of a list of edges pass the specification's test iff both ends of each are members -/
theorem polyA_all (es : List (Pt × Pt)) :
    es.all (fun e => Spec.segInside (Spec.Shape.poly ext []).member
      (Spec.Shape.poly ext []).edges e.1 e.2) = true ↔
    ∀ e ∈ es, Spec.inRing (Spec.edges ext true) e.1 = true ∧
      Spec.inRing (Spec.edges ext true) e.2 = true := by
  rw [List.all_eq_true]
  refine forall_congr' (fun e => forall_congr' (fun _ => ?_))
  rw [polyA_segInside ext hs hcv, Bool.and_eq_true]

omit hcv in
theorem convex_contains_point (p : Pt) :
    (build (.poly ext [])).contains (build (.point p)) = Spec.covers (.poly ext []) (.point p) := by
  have h := polyContainsPoint_iff ext.toArray .none 0 [] (series_search_exact_kind_none _ true 0)
    (fun h hh => by cases hh) p
  have hc : Spec.covers (.poly ext []) (.point p) =
      (decide (ext.length ≥ 3) && true && (Spec.Shape.poly ext []).member p) := rfl
  rw [hc]
  show Poly.containsPoint ⟨some (.ser (mkSeries ext.toArray true .none 0)), []⟩ p = _
  simp only [List.map_nil] at h
  rw [h]
  have := ext_len ext hs
  simp [this]

omit hs hcv in
theorem ringContainsRing_bx (R : Ring) (b : Box) (allow : Bool) :
    ringContainsRing R (.bx b) allow = (!R.empty && ringContainsRingBody R (.bx b) allow) := by
  unfold ringContainsRing
  simp only [Ring.empty, Ring.numPoints, complexRingMinPoints, Bool.or_false]
  cases R.empty <;> simp

omit hcv in
theorem ext_nonempty : (Ring.ser (mkSeries ext.toArray true .none 0)).empty = false := by
  have := ext_len ext hs
  show ((true && decide (ext.toArray.size < 3)) || decide (ext.toArray.size < 2)) = false
  simp; omega

theorem convex_contains_rect (lo hi : Pt) :
    (build (.poly ext [])).contains (build (.rect lo hi)) =
      Spec.covers (.poly ext []) (.rect lo hi) := by
  have hc : Spec.covers (.poly ext []) (.rect lo hi) =
      (decide (ext.length ≥ 3) && (Spec.edges (Spec.rectPts lo hi) true).all (fun e =>
        Spec.segInside (Spec.Shape.poly ext []).member (Spec.Shape.poly ext []).edges e.1 e.2)) := by
    unfold Spec.covers
    have h1 : Spec.isRegion (.poly ext []) = true := rfl
    simp only [h1, Spec.Shape.nonEmpty, Spec.Shape.holes, List.all_nil, Bool.and_true,
      Bool.not_true, Bool.and_false, Bool.false_eq_true, if_false]
    cases Spec.isRegion (.rect lo hi) <;> simp [Spec.Shape.edges]
  rw [hc]
  show Poly.containsRect ⟨some (.ser (mkSeries ext.toArray true .none 0)), []⟩ ⟨lo, hi⟩ = _
  unfold Poly.containsRect Poly.containsPoly Box.asPoly
  simp only [List.all_nil]
  rw [ringContainsRing_bx, ext_nonempty ext hs, Bool.eq_iff_iff]
  have hb := body_convex_bx ext.toArray .none 0 (series_search_exact_kind_none _ true 0) hcv ⟨lo, hi⟩
  have h3 : decide (ext.length ≥ 3) = true := by simpa using ext_len ext hs
  rw [h3, Bool.true_and, polyA_all ext hs hcv, rect_edges]
  simp only [Bool.not_false, Bool.true_and, Bool.not_eq_true']
  constructor
  · intro h
    have hbody : ringContainsRingBody (.ser (mkSeries ext.toArray true .none 0)) (.bx ⟨lo, hi⟩) true
        = true := by
      cases hh : ringContainsRingBody (.ser (mkSeries ext.toArray true .none 0)) (.bx ⟨lo, hi⟩) true
      · rw [hh] at h; simp at h
      · rfl
    obtain ⟨h0, h1, h2, h3⟩ := hb.1 hbody
    intro e he
    simp only [List.mem_cons, List.not_mem_nil, or_false] at he
    rcases he with rfl | rfl | rfl | rfl
    · exact ⟨h0, h1⟩
    · exact ⟨h1, h2⟩
    · exact ⟨h2, h3⟩
    · exact ⟨h3, h0⟩
  · intro h
    have e0 := h (lo, ⟨hi.x, lo.y⟩) (by simp)
    have e2 := h (hi, ⟨lo.x, hi.y⟩) (by simp)
    rw [hb.2 ⟨e0.1, e0.2, e2.1, e2.2⟩]
    simp

end

end CC
end Geo
