/-
  GeoProofs.Reencode.Edges — edge lists up to cyclic rotation and reversal of the traversal.

  `ECyc es es'`: `es'` is obtained from `es` by cyclic rotations and by traversing the chain
  the other way round (every edge flipped, the list reversed).  Everything the specification
  computes from the edge list of a ring — boundary membership, crossing parity, the closed and
  the open region, `any`/`all` of orientation-blind edge predicates — is invariant.
-/
import GeoModel.Spec
import Mathlib.Data.List.Rotate
import Mathlib.Tactic.Linarith
import Mathlib.Tactic.Ring
import Mathlib.Algebra.Order.Field.Rat

namespace Geo
namespace RE
open Spec

abbrev Edge := Pt × Pt

/-! ### an edge and its reverse -/

theorem cross_swap (a b p : Pt) : cross b a p = - cross a b p := by
  unfold cross; ring

theorem onSeg_swap (a b p : Pt) : onSeg b a p = onSeg a b p := by
  unfold onSeg
  rw [cross_swap, min_comm b.x, max_comm b.x, min_comm b.y, max_comm b.y]
  congr 5
  apply propext
  constructor <;> intro h <;> linarith

theorem crosses_swap (a b p : Pt) : crosses b a p = crosses a b p := by
  unfold crosses
  rcases lt_trichotomy a.y b.y with h | h | h
  · rw [if_pos h, if_neg (not_lt.2 h.le), bne_comm]
  · rw [h]; simp
  · rw [if_pos h, if_neg (not_lt.2 h.le), bne_comm]

theorem segsMeet_swap_left (a b c d : Pt) : segsMeet b a c d = segsMeet a b c d := by
  unfold segsMeet
  simp only [cross_swap b a, onSeg_swap b a]
  rw [Bool.eq_iff_iff]
  simp only [Bool.or_eq_true, Bool.and_eq_true, decide_eq_true_eq, neg_mul_neg]
  rw [mul_comm (cross c d b)]
  tauto

theorem segsMeet_swap_right (a b c d : Pt) : segsMeet a b d c = segsMeet a b c d := by
  unfold segsMeet
  simp only [cross_swap d c, onSeg_swap d c]
  rw [Bool.eq_iff_iff]
  simp only [Bool.or_eq_true, Bool.and_eq_true, decide_eq_true_eq, neg_mul_neg]
  rw [mul_comm (cross a b d)]
  tauto

theorem segsMeet_comm (a b c d : Pt) : segsMeet c d a b = segsMeet a b c d := by
  unfold segsMeet
  rw [Bool.eq_iff_iff]
  simp only [Bool.or_eq_true, Bool.and_eq_true, decide_eq_true_eq]
  tauto

/-! ### the relation -/

inductive ECyc : List Edge → List Edge → Prop
  | refl (es) : ECyc es es
  | rot (es) (k : Nat) : ECyc es (es.rotate k)
  | flip (es) : ECyc es (es.map Prod.swap).reverse
  | symm {es es'} : ECyc es es' → ECyc es' es
  | trans {a b c} : ECyc a b → ECyc b c → ECyc a c

/-- a predicate on edges that does not see the orientation -/
def Blind (f : Edge → Bool) : Prop := ∀ e, f e.swap = f e

theorem ECyc.perm {es es' : List Edge} (h : ECyc es es') :
    ∀ f : Edge → Bool, Blind f → (es'.filter f).length = (es.filter f).length := by
  induction h with
  | refl es => intro f _; rfl
  | rot es k => intro f _; exact ((List.rotate_perm es k).filter f).length_eq
  | flip es =>
    intro f hf
    rw [← List.map_reverse, List.filter_map, List.length_map]
    have : (f ∘ Prod.swap) = f := funext hf
    rw [this]
    exact ((List.reverse_perm es).filter f).length_eq
  | symm _ ih => intro f hf; exact (ih f hf).symm
  | trans _ _ ih1 ih2 => intro f hf; exact (ih2 f hf).trans (ih1 f hf)

theorem ECyc.any_eq {es es' : List Edge} (h : ECyc es es') (f : Edge → Bool) (hf : Blind f) :
    es'.any f = es.any f := by
  have := h.perm f hf
  rw [Bool.eq_iff_iff]
  simp only [List.any_eq_true]
  have key : ∀ l : List Edge, (∃ x ∈ l, f x = true) ↔ 0 < (l.filter f).length := by
    intro l
    rw [List.length_pos_iff_exists_mem]
    simp [List.mem_filter]
  rw [key, key, this]

theorem ECyc.all_eq {es es' : List Edge} (h : ECyc es es') (f : Edge → Bool) (hf : Blind f) :
    es'.all f = es.all f := by
  have := h.any_eq (fun e => !f e) (fun e => by simp [hf e])
  have e : ∀ l : List Edge, l.all f = !l.any (fun e => !f e) := by
    intro l; induction l with
    | nil => rfl
    | cons a t ih => simp only [List.all_cons, List.any_cons, ih]; cases f a <;> simp
  rw [e, e, this]

theorem ECyc.length_eq {es es' : List Edge} (h : ECyc es es') : es'.length = es.length := by
  simpa using h.perm (fun _ => true) (fun _ => rfl)

theorem ECyc.mem_iff {es es' : List Edge} (h : ECyc es es') (e : Edge) :
    (e ∈ es' ∨ e.swap ∈ es') ↔ (e ∈ es ∨ e.swap ∈ es) := by
  have := h.any_eq (fun x => decide (x = e) || decide (x = e.swap))
    (fun x => by
      rcases x with ⟨a, b⟩; rcases e with ⟨c, d⟩
      simp only [Prod.swap, Prod.mk.injEq, Bool.decide_and]
      rw [Bool.or_comm]
      congr 1 <;> rw [Bool.and_comm])
  rw [Bool.eq_iff_iff] at this
  simp only [List.any_eq_true, Bool.or_eq_true, decide_eq_true_eq] at this
  constructor
  · intro h1
    have : ∃ x ∈ es, x = e ∨ x = e.swap := this.1 (by
      rcases h1 with h1 | h1
      · exact ⟨e, h1, Or.inl rfl⟩
      · exact ⟨e.swap, h1, Or.inr rfl⟩)
    obtain ⟨x, hx, rfl | rfl⟩ := this
    · exact Or.inl hx
    · exact Or.inr hx
  · intro h1
    have : ∃ x ∈ es', x = e ∨ x = e.swap := this.2 (by
      rcases h1 with h1 | h1
      · exact ⟨e, h1, Or.inl rfl⟩
      · exact ⟨e.swap, h1, Or.inr rfl⟩)
    obtain ⟨x, hx, rfl | rfl⟩ := this
    · exact Or.inl hx
    · exact Or.inr hx

/-! ### what the specification computes from the edge list of a ring -/

theorem ECyc.onBoundary_eq {es es' : List Edge} (h : ECyc es es') (p : Pt) :
    onBoundary es' p = onBoundary es p :=
  h.any_eq _ (fun e => onSeg_swap e.1 e.2 p)

theorem ECyc.parity_eq {es es' : List Edge} (h : ECyc es es') (p : Pt) :
    parity es' p = parity es p := by
  unfold parity
  rw [h.perm _ (fun e => crosses_swap e.1 e.2 p)]

theorem ECyc.inRing_eq {es es' : List Edge} (h : ECyc es es') (p : Pt) :
    inRing es' p = inRing es p := by
  unfold inRing; rw [h.onBoundary_eq, h.parity_eq]

theorem ECyc.strictIn_eq {es es' : List Edge} (h : ECyc es es') (p : Pt) :
    strictIn es' p = strictIn es p := by
  unfold strictIn; rw [h.onBoundary_eq, h.parity_eq]

/-- "no edge of the one list meets an edge of the other" -/
theorem ECyc.noMeet_eq {es es' fs fs' : List Edge} (h : ECyc es es') (g : ECyc fs fs') :
    es'.all (fun e => fs'.all (fun f => !(segsMeet e.1 e.2 f.1 f.2))) =
      es.all (fun e => fs.all (fun f => !(segsMeet e.1 e.2 f.1 f.2))) := by
  have h1 : ∀ e : Edge, fs'.all (fun f => !(segsMeet e.1 e.2 f.1 f.2)) =
      fs.all (fun f => !(segsMeet e.1 e.2 f.1 f.2)) := fun e =>
    g.all_eq _ (fun f => by simp only [Prod.fst_swap, Prod.snd_swap, segsMeet_swap_right])
  simp only [h1]
  exact h.all_eq _ (fun e => by simp only [Prod.fst_swap, Prod.snd_swap, segsMeet_swap_left])

theorem ECyc.anyMeet_eq {es es' fs fs' : List Edge} (h : ECyc es es') (g : ECyc fs fs') :
    es'.any (fun e => fs'.any (fun f => segsMeet e.1 e.2 f.1 f.2)) =
      es.any (fun e => fs.any (fun f => segsMeet e.1 e.2 f.1 f.2)) := by
  have h1 : ∀ e : Edge, fs'.any (fun f => segsMeet e.1 e.2 f.1 f.2) =
      fs.any (fun f => segsMeet e.1 e.2 f.1 f.2) := fun e =>
    g.any_eq _ (fun f => by simp only [Prod.fst_swap, Prod.snd_swap, segsMeet_swap_right])
  simp only [h1]
  exact h.any_eq _ (fun e => by simp only [Prod.fst_swap, Prod.snd_swap, segsMeet_swap_left])

end RE
end Geo
