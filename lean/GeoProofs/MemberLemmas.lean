/-
  GeoProofs.MemberLemmas — helper lemmas for property C01 (point membership):
  (a) the early-exit toggle fold of `ringContainsPoint` over a visit list,
  (b) the strip filter does not lose any "on" nor any crossing,
  (c) a point outside the bounding box of a closed chain is on no edge and sees an even
      number of crossings (telescoping),
  and the bridge from `Series` segments to `Spec.edges`.
-/
import GeoProofs.SeriesSearch

namespace Geo

/-! ### (a) the callback fold -/

/-- the callback of `ringContainsPoint` -/
def cpStep (p : Pt) (allow : Bool) (st : Bool × Option Nat) (seg : Seg) (index : Nat) :
    (Bool × Option Nat) × Bool :=
  if (seg.raycast p).on then ((allow, some index), false)
  else if (seg.raycast p).inn then ((!st.1, st.2), true)
  else (st, true)

theorem ringContainsPoint_eq (ring : Ring) (p : Pt) (allow : Bool) :
    ringContainsPoint ring p allow =
      if !ring.rect.containsPt p then ⟨false, none⟩
      else ⟨(ring.search (stripBox ring p) (cpStep p allow) (false, none)).1,
            (ring.search (stripBox ring p) (cpStep p allow) (false, none)).2⟩ := rfl

/-- the fold of the callback over a visit list (what `Series.search` computes) -/
def cpFold (segAt : Nat → Seg) (p : Pt) (allow : Bool) (st : Bool × Option Nat) (visit : List Nat) :
    Bool × Option Nat :=
  (foldUntil (fun st i => cpStep p allow st (segAt i) i) st visit).1

def onAt (segAt : Nat → Seg) (p : Pt) (i : Nat) : Bool := ((segAt i).raycast p).on
def innAt (segAt : Nat → Seg) (p : Pt) (i : Nat) : Bool := ((segAt i).raycast p).inn

theorem cpFold_nil (segAt : Nat → Seg) (p : Pt) (allow : Bool) (st : Bool × Option Nat) :
    cpFold segAt p allow st [] = st := rfl

theorem cpFold_cons (segAt : Nat → Seg) (p : Pt) (allow : Bool) (st : Bool × Option Nat) (x : Nat)
    (xs : List Nat) :
    cpFold segAt p allow st (x :: xs) =
      if onAt segAt p x then (allow, some x)
      else if innAt segAt p x then cpFold segAt p allow (!st.1, st.2) xs
      else cpFold segAt p allow st xs := by
  unfold cpFold onAt innAt
  rw [foldUntil_cons]
  unfold cpStep
  by_cases hon : ((segAt x).raycast p).on = true
  · simp [hon]
  · by_cases hin : ((segAt x).raycast p).inn = true
    · simp [hon, hin]
    · simp [hon, hin]

theorem parity_succ (b0 : Bool) (L : Nat) :
    ((!b0) != decide (L % 2 = 1)) = (b0 != decide ((L + 1) % 2 = 1)) := by
  rcases Nat.mod_two_eq_zero_or_one L with h | h
  · have : (L + 1) % 2 = 1 := by omega
    rw [h, this]; cases b0 <;> rfl
  · have : (L + 1) % 2 = 0 := by omega
    rw [h, this]; cases b0 <;> rfl

/-- (a) the hit bit: `allow` if some visited segment carries the point, else the initial bit
    toggled once per visited segment the ray crosses. -/
theorem cpFold_hit (segAt : Nat → Seg) (p : Pt) (allow : Bool) (visit : List Nat) (b0 : Bool)
    (o0 : Option Nat) :
    (cpFold segAt p allow (b0, o0) visit).1 =
      if visit.any (onAt segAt p) then allow
      else (b0 != decide ((visit.filter (innAt segAt p)).length % 2 = 1)) := by
  induction visit generalizing b0 o0 with
  | nil => simp [cpFold_nil]
  | cons x xs ih =>
    rw [cpFold_cons]
    by_cases hon : onAt segAt p x = true
    · simp [hon]
    · by_cases hin : innAt segAt p x = true
      · simp only [hon, hin, if_true, Bool.false_eq_true, if_false, List.any_cons, Bool.false_or,
          List.filter_cons, List.length_cons]
        rw [ih, parity_succ]
      · simp only [hon, hin, Bool.false_eq_true, if_false, List.any_cons, Bool.false_or,
          List.filter_cons]
        rw [ih]

/-- the reported index: some visited segment that carries the point -/
theorem cpFold_idx (segAt : Nat → Seg) (p : Pt) (allow : Bool) (visit : List Nat) (b0 : Bool)
    (i : Nat) (h : (cpFold segAt p allow (b0, none) visit).2 = some i) :
    i ∈ visit ∧ onAt segAt p i = true := by
  induction visit generalizing b0 with
  | nil => simp [cpFold_nil] at h
  | cons x xs ih =>
    rw [cpFold_cons] at h
    by_cases hon : onAt segAt p x = true
    · simp only [hon, if_true, Option.some.injEq] at h
      subst h
      exact ⟨by simp, hon⟩
    · by_cases hin : innAt segAt p x = true
      · simp only [hon, hin, if_true, Bool.false_eq_true, if_false] at h
        have := ih _ h
        exact ⟨by simp [this.1], this.2⟩
      · simp only [hon, hin, Bool.false_eq_true, if_false] at h
        have := ih _ h
        exact ⟨by simp [this.1], this.2⟩

/-- an index is reported iff some visited segment carries the point -/
theorem cpFold_idx_isSome (segAt : Nat → Seg) (p : Pt) (allow : Bool) (visit : List Nat) (b0 : Bool) :
    (cpFold segAt p allow (b0, none) visit).2.isSome = visit.any (onAt segAt p) := by
  induction visit generalizing b0 with
  | nil => simp [cpFold_nil]
  | cons x xs ih =>
    rw [cpFold_cons]
    by_cases hon : onAt segAt p x = true
    · simp [hon]
    · by_cases hin : innAt segAt p x = true
      · simp only [hon, hin, if_true, Bool.false_eq_true, if_false, List.any_cons, Bool.false_or]
        exact ih _
      · simp only [hon, hin, Bool.false_eq_true, if_false, List.any_cons, Bool.false_or]
        exact ih _

/-- the hit bit only depends on the multiset of visited segments -/
theorem cpFold_hit_perm (segAt : Nat → Seg) (p : Pt) (allow : Bool) (v1 v2 : List Nat)
    (h : List.Perm v1 v2) (b0 : Bool) (o0 o0' : Option Nat) :
    (cpFold segAt p allow (b0, o0) v1).1 = (cpFold segAt p allow (b0, o0') v2).1 := by
  rw [cpFold_hit, cpFold_hit, h.any_eq, (h.filter _).length_eq]

/-! ### (b) the strip filter -/

theorem raycast_off_yrange (a b p : Pt) (h : p.y < min a.y b.y ∨ max a.y b.y < p.y) :
    (raycast a b p).on = false ∧ (raycast a b p).inn = false := by
  have hon : ¬ OnSeg a b p := by
    rintro ⟨-, -, -, h1, h2⟩
    rcases h with h | h <;> linarith
  have hcr : ¬ Cross a b p := by
    rintro ⟨h1, -⟩
    apply h1
    rcases h with h | h
    · have ha : ¬ a.y ≤ p.y := not_le.2 (lt_of_lt_of_le h (min_le_left _ _))
      have hb : ¬ b.y ≤ p.y := not_le.2 (lt_of_lt_of_le h (min_le_right _ _))
      exact propext (iff_of_false ha hb)
    · have ha : a.y ≤ p.y := (le_trans (le_max_left _ _) h.le)
      have hb : b.y ≤ p.y := (le_trans (le_max_right _ _) h.le)
      exact propext (iff_of_true ha hb)
  constructor
  · cases h1 : (raycast a b p).on with
    | false => rfl
    | true => exact absurd ((raycast_on_iff a b p).1 h1) hon
  · cases h1 : (raycast a b p).inn with
    | false => rfl
    | true => exact absurd ((raycast_in_iff a b p hon).1 h1) hcr

/-- a segment whose box misses a horizontal degenerate box at height `p.y` that is at least as
    wide as the segment, has `p.y` outside its y-range -/
theorem strip_miss (seg : Seg) (lo hi : Rat) (p : Pt)
    (hlo : lo ≤ min seg.a.x seg.b.x) (hhi : max seg.a.x seg.b.x ≤ hi)
    (h : seg.box.intersects ⟨⟨lo, p.y⟩, ⟨hi, p.y⟩⟩ = false) :
    p.y < min seg.a.y seg.b.y ∨ max seg.a.y seg.b.y < p.y := by
  rw [segBox_tight] at h
  unfold Box.intersects at h
  simp only at h
  split_ifs at h with h1 h2
  · simp only [Bool.or_eq_true, decide_eq_true_eq, gt_iff_lt] at h1
    exact h1
  · simp only [Bool.or_eq_true, decide_eq_true_eq, gt_iff_lt] at h2
    have m1 := min_le_left seg.a.x seg.b.x
    have m2 := le_max_left seg.a.x seg.b.x
    rcases h2 with h2 | h2 <;> linarith

theorem strip_miss_off (seg : Seg) (lo hi : Rat) (p : Pt)
    (hlo : lo ≤ min seg.a.x seg.b.x) (hhi : max seg.a.x seg.b.x ≤ hi)
    (h : seg.box.intersects ⟨⟨lo, p.y⟩, ⟨hi, p.y⟩⟩ = false) :
    (seg.raycast p).on = false ∧ (seg.raycast p).inn = false :=
  raycast_off_yrange _ _ _ (strip_miss seg lo hi p hlo hhi h)

/-- filtering a visit list by a test that keeps every "on" and every "inn" segment changes
    neither the existence of an "on" nor the number of "inn" -/
theorem filter_keep (segAt : Nat → Seg) (p : Pt) (l : List Nat) (keep : Nat → Bool)
    (hk : ∀ i ∈ l, keep i = false → onAt segAt p i = false ∧ innAt segAt p i = false) :
    (l.filter keep).any (onAt segAt p) = l.any (onAt segAt p) ∧
    ((l.filter keep).filter (innAt segAt p)).length = (l.filter (innAt segAt p)).length := by
  induction l with
  | nil => simp
  | cons x xs ih =>
    have ih' := ih (fun i hi => hk i (by simp [hi]))
    by_cases hx : keep x = true
    · simp only [List.filter_cons, hx, if_true, List.any_cons, ih'.1]
      refine ⟨trivial, ?_⟩
      by_cases hin : innAt segAt p x = true
      · simp only [hin, if_true, List.length_cons, ih'.2]
      · simp only [hin, Bool.false_eq_true, if_false, ih'.2]
    · have hx' : keep x = false := by simpa using hx
      obtain ⟨h1, h2⟩ := hk x (by simp) hx'
      simp only [List.filter_cons, hx', Bool.false_eq_true, if_false, List.any_cons, h1, h2,
        Bool.false_or]
      exact ih'

/-! ### bridge to `Spec.edges` -/

theorem edges_eq_map (pts : Array Pt) (closed : Bool) :
    Spec.edges pts.toList closed =
      (List.range (numSegmentsOf pts closed)).map
        (fun i => ((segmentAtOf pts i).a, (segmentAtOf pts i).b)) := by
  apply List.ext_getElem?
  intro i
  by_cases hi : i < numSegmentsOf pts closed
  · rw [segmentAt_spec pts closed i hi]
    simp [hi]
  · rw [List.getElem?_eq_none (by rw [← numSegments_spec]; omega),
      List.getElem?_eq_none (by simp; omega)]

theorem spec_onSeg_eq_on (a b p : Pt) : Spec.onSeg a b p = (raycast a b p).on := by
  rw [Bool.eq_iff_iff, spec_onSeg_iff, raycast_on_iff]

theorem onBoundary_eq_any (pts : Array Pt) (closed : Bool) (p : Pt) :
    Spec.onBoundary (Spec.edges pts.toList closed) p =
      (List.range (numSegmentsOf pts closed)).any (onAt (segmentAtOf pts) p) := by
  rw [edges_eq_map]
  unfold Spec.onBoundary
  rw [List.any_map]
  apply List.any_congr rfl
  intro i
  simp only [Function.comp, spec_onSeg_eq_on]
  rfl

theorem parity_eq_count (pts : Array Pt) (closed : Bool) (p : Pt)
    (hoff : Spec.onBoundary (Spec.edges pts.toList closed) p = false) :
    Spec.parity (Spec.edges pts.toList closed) p =
      ((List.range (numSegmentsOf pts closed)).filter (innAt (segmentAtOf pts) p)).length % 2 := by
  rw [onBoundary_eq_any] at hoff
  rw [edges_eq_map]
  unfold Spec.parity
  rw [List.filter_map, List.length_map]
  congr 2
  apply List.filter_congr
  intro i hi
  have hoffi : onAt (segmentAtOf pts) p i = false := by
    rw [List.any_eq_false] at hoff
    simpa using hoff i hi
  have hns : ¬ OnSeg (segmentAtOf pts i).a (segmentAtOf pts i).b p := by
    intro h
    have := (raycast_on_iff _ _ _).2 h
    unfold onAt Seg.raycast at hoffi
    rw [hoffi] at this
    cases this
  simp only [Function.comp]
  rw [Bool.eq_iff_iff, spec_crosses_iff]
  exact (raycast_in_iff _ _ _ hns).symm

/-! ### (c) a point outside the bounding box of a closed chain -/

def b2n (b : Bool) : Nat := if b then 1 else 0

theorem filter_length_eq_sum (l : List Nat) (f : Nat → Bool) :
    (l.filter f).length = (l.map (fun i => b2n (f i))).sum := by
  induction l with
  | nil => rfl
  | cons x xs ih =>
    by_cases h : f x = true
    · simp [h, ih, b2n]; omega
    · simp [h, ih, b2n]

theorem sum_range_shift_nat (f : Nat → Nat) (n : Nat) :
    ((List.range n).map (fun i => f ((i + 1) % n))).sum = ((List.range n).map f).sum := by
  rw [SeriesL.map_range_rotate]
  exact (List.rotate_perm _ _).sum_eq

/-- telescoping: a closed chain changes side of a level an even number of times -/
theorem cyc_straddle_even (Y : Nat → Bool) (n : Nat) :
    ((List.range n).filter (fun i => Y i != Y ((i + 1) % n))).length % 2 = 0 := by
  rw [filter_length_eq_sum]
  have key : ∀ b c : Bool, b2n (b != c) + (b2n b * b2n c + b2n b * b2n c) = b2n b + b2n c := by
    intro b c; cases b <;> cases c <;> rfl
  have h1 : ((List.range n).map (fun i => b2n (Y i != Y ((i + 1) % n)))).sum +
      (((List.range n).map (fun i => b2n (Y i) * b2n (Y ((i + 1) % n)))).sum +
       ((List.range n).map (fun i => b2n (Y i) * b2n (Y ((i + 1) % n)))).sum) =
      ((List.range n).map (fun i => b2n (Y i))).sum +
      ((List.range n).map (fun i => b2n (Y ((i + 1) % n)))).sum := by
    rw [← List.sum_map_add, ← List.sum_map_add, ← List.sum_map_add]
    congr 1
    apply List.map_congr_left
    intro i _
    exact key _ _
  have h2 := sum_range_shift_nat (fun i => b2n (Y i)) n
  omega

/-- strictly to the left of both endpoints, inside the y-range: the ray crosses -/
theorem cross_pos_of_left {lo hi p : Pt} (h1 : lo.y ≤ p.y) (h2 : p.y < hi.y)
    (hx1 : p.x < lo.x) (hx2 : p.x < hi.x) : 0 < Spec.cross lo hi p := by
  rw [K.cross_def]
  nlinarith [mul_nonneg (sub_nonneg.2 h1) (sub_nonneg.2 hx2.le),
    mul_pos (sub_pos.2 h2) (sub_pos.2 hx1)]

/-- `Spec.crosses` for a point outside a box containing both endpoints -/
theorem crosses_outside (a b p : Pt) (r : Box)
    (ha : r.min.x ≤ a.x ∧ a.x ≤ r.max.x ∧ r.min.y ≤ a.y ∧ a.y ≤ r.max.y)
    (hb : r.min.x ≤ b.x ∧ b.x ≤ r.max.x ∧ r.min.y ≤ b.y ∧ b.y ≤ r.max.y) :
    (p.x < r.min.x → Spec.crosses a b p = (decide (a.y ≤ p.y) != decide (b.y ≤ p.y))) ∧
    (r.max.x < p.x → Spec.crosses a b p = false) ∧
    (p.y < r.min.y → Spec.crosses a b p = false) ∧
    (r.max.y < p.y → Spec.crosses a b p = false) := by
  obtain ⟨a1, a2, a3, a4⟩ := ha
  obtain ⟨b1, b2, b3, b4⟩ := hb
  have hfalse : ¬ Cross a b p → Spec.crosses a b p = false := by
    intro h
    cases hc : Spec.crosses a b p with
    | false => rfl
    | true => exact absurd ((spec_crosses_iff a b p).1 hc) h
  refine ⟨?_, ?_, ?_, ?_⟩
  · intro hx
    rw [Bool.eq_iff_iff, spec_crosses_iff]
    have hstr : ((decide (a.y ≤ p.y) != decide (b.y ≤ p.y)) = true) ↔
        ((a.y ≤ p.y) ≠ (b.y ≤ p.y)) := by
      rw [bne_iff_ne, Ne, decide_eq_decide, Ne, eq_iff_iff]
    rw [hstr]
    rcases lt_trichotomy a.y b.y with h | h | h
    · rw [cross_iff_K, K.cross_iff_up h, K.prop_ne_iff]
      constructor
      · rintro ⟨h1, h2, -⟩
        exact Or.inl ⟨h1, not_le.2 h2⟩
      · rintro (⟨h1, h2⟩ | ⟨h1, h2⟩)
        · exact ⟨h1, not_le.1 h2, cross_pos_of_left h1 (not_le.1 h2) (by linarith) (by linarith)⟩
        · exact absurd (le_trans h.le h2) h1
    · refine iff_of_false (K.not_cross_horiz h) ?_
      rw [h]; exact fun h => h rfl
    · rw [cross_iff_K, K.cross_iff_down h, K.prop_ne_iff]
      constructor
      · rintro ⟨h1, h2, -⟩
        exact Or.inr ⟨not_le.2 h2, h1⟩
      · rintro (⟨h1, h2⟩ | ⟨h1, h2⟩)
        · exact absurd (le_trans h.le h1) h2
        · exact ⟨h2, not_le.1 h1, cross_pos_of_left h2 (not_le.1 h1) (by linarith) (by linarith)⟩
  · intro hx
    apply hfalse
    rcases lt_trichotomy a.y b.y with h | h | h
    · rw [cross_iff_K, K.cross_iff_up h]
      rintro ⟨h1, h2, h3⟩
      have := K.cross_le_of_right h1 h2 (by linarith) (by linarith : b.x ≤ p.x)
      linarith
    · exact K.not_cross_horiz h
    · rw [cross_iff_K, K.cross_iff_down h]
      rintro ⟨h1, h2, h3⟩
      have := K.cross_le_of_right h1 h2 (by linarith) (by linarith : a.x ≤ p.x)
      linarith
  · intro hy
    apply hfalse
    rintro ⟨h1, -⟩
    exact h1 (propext (iff_of_false (not_le.2 (by linarith)) (not_le.2 (by linarith))))
  · intro hy
    apply hfalse
    rintro ⟨h1, -⟩
    exact h1 (propext (iff_of_true (by linarith) (by linarith)))

theorem onSeg_outside (a b p : Pt) (r : Box)
    (ha : r.min.x ≤ a.x ∧ a.x ≤ r.max.x ∧ r.min.y ≤ a.y ∧ a.y ≤ r.max.y)
    (hb : r.min.x ≤ b.x ∧ b.x ≤ r.max.x ∧ r.min.y ≤ b.y ∧ b.y ≤ r.max.y)
    (hp : r.containsPt p = false) : Spec.onSeg a b p = false := by
  cases hc : Spec.onSeg a b p with
  | false => rfl
  | true =>
    exfalso
    obtain ⟨-, h1, h2, h3, h4⟩ := (spec_onSeg_iff a b p).1 hc
    obtain ⟨a1, a2, a3, a4⟩ := ha
    obtain ⟨b1, b2, b3, b4⟩ := hb
    have : r.containsPt p = true := by
      unfold Box.containsPt
      simp only [Bool.and_eq_true, decide_eq_true_eq, ge_iff_le]
      exact ⟨⟨⟨le_trans (le_min a1 b1) h1, le_trans h2 (max_le a2 b2)⟩,
        le_trans (le_min a3 b3) h3⟩, le_trans h4 (max_le a4 b4)⟩
    rw [hp] at this
    cases this

/-- (c): a point outside the rectangle of a closed series is on no edge and sees an even number
    of crossings (all vertex lists, including fewer than 3 points: then there is no edge). -/
theorem outside_rect (pts : Array Pt) (p : Pt)
    (hp : (processPoints pts true).rect.containsPt p = false) :
    Spec.onBoundary (Spec.edges pts.toList true) p = false ∧
    Spec.parity (Spec.edges pts.toList true) p = 0 := by
  by_cases h3 : pts.size < 3
  · have : Spec.edges pts.toList true = [] := by
      unfold Spec.edges
      simp [h3]
    rw [this]
    exact ⟨rfl, rfl⟩
  · have hne : ¬ ((true && decide (pts.size < 3)) || decide (pts.size < 2)) = true := by
      simp; omega
    obtain ⟨L⟩ := pts
    simp only [List.size_toArray, not_lt] at h3
    have hin := mem_rect L.toArray true hne
    generalize (processPoints L.toArray true).rect = r at hin hp
    simp only at hin ⊢
    rw [SeriesL.edges_cyc L h3]
    have hn := SeriesL.nptsL_le L
    have hn2 := SeriesL.nptsL_ge L h3
    generalize SeriesL.nptsL L = n at hn hn2
    have hP : ∀ i, i < n → r.min.x ≤ (L[i]!).x ∧ (L[i]!).x ≤ r.max.x ∧ r.min.y ≤ (L[i]!).y ∧ (L[i]!).y ≤ r.max.y := by
      intro i hi
      apply hin
      have hi' : i < L.length := by omega
      rw [getElem!_pos L i hi']
      exact List.getElem_mem hi'
    have hP' : ∀ i, i < n → r.min.x ≤ (L[(i+1) % n]!).x ∧ (L[(i+1) % n]!).x ≤ r.max.x ∧
        r.min.y ≤ (L[(i+1) % n]!).y ∧ (L[(i+1) % n]!).y ≤ r.max.y :=
      fun i _ => hP _ (Nat.mod_lt _ (by omega))
    constructor
    · unfold Spec.onBoundary
      rw [List.any_map, List.any_eq_false]
      intro i hi
      have hi' := List.mem_range.1 hi
      simp only [Function.comp, onSeg_outside _ _ p r (hP i hi') (hP' i hi') hp]
      exact Bool.false_ne_true
    · unfold Spec.parity
      rw [List.filter_map, List.length_map]
      have hout : p.x < r.min.x ∨ r.max.x < p.x ∨ p.y < r.min.y ∨ r.max.y < p.y := by
        unfold Box.containsPt at hp
        simp only [Bool.and_eq_false_iff, decide_eq_false_iff_not, ge_iff_le, not_le] at hp
        tauto
      have hall : ∀ (g : Nat → Bool), (∀ i, i < n → Spec.crosses L[i]! L[(i+1) % n]! p = g i) →
          ((List.range n).filter ((fun e : Pt × Pt => Spec.crosses e.1 e.2 p) ∘
            (fun i => (L[i]!, L[(i + 1) % n]!)))) = (List.range n).filter g := by
        intro g hg
        apply List.filter_congr
        intro i hi
        exact hg i (List.mem_range.1 hi)
      have hzero : (∀ i, i < n → Spec.crosses L[i]! L[(i+1) % n]! p = false) →
          ((List.range n).filter ((fun e : Pt × Pt => Spec.crosses e.1 e.2 p) ∘
            (fun i => (L[i]!, L[(i + 1) % n]!)))).length % 2 = 0 := by
        intro h
        rw [hall (fun _ => false) h]
        simp
      rcases hout with h | h | h | h
      · rw [hall (fun i => decide ((L[i]!).y ≤ p.y) != decide ((L[(i+1) % n]!).y ≤ p.y))
          (fun i hi => (crosses_outside _ _ p r (hP i hi) (hP' i hi)).1 h)]
        exact cyc_straddle_even (fun i => decide ((L[i]!).y ≤ p.y)) n
      · exact hzero (fun i hi => (crosses_outside _ _ p r (hP i hi) (hP' i hi)).2.1 h)
      · exact hzero (fun i hi => (crosses_outside _ _ p r (hP i hi) (hP' i hi)).2.2.1 h)
      · exact hzero (fun i hi => (crosses_outside _ _ p r (hP i hi) (hP' i hi)).2.2.2 h)

/-! ### a ring given by a series -/

theorem ring_search_ser (s : Series) (q : Box) {σ : Type} (f : σ → Seg → Nat → σ × Bool) (st : σ) :
    (Ring.ser s).search q f st = (s.search q f st).get st := rfl

theorem segBox_x_of_subset (seg : Seg) (r : Box) (h : seg.box.g ⊆ r.g) :
    r.min.x ≤ min seg.a.x seg.b.x ∧ max seg.a.x seg.b.x ≤ r.max.x := by
  rw [gbox_subset_iff, segBox_tight] at h
  exact ⟨h.1, h.2.2.1⟩

/-- what `ringContainsPoint` computes on a series whose search is exact and whose segment boxes
    lie in its rectangle: the callback fold over a visit list that has the same "on" existence
    and the same crossing count as the full list of segments. -/
theorem ser_search_core (s : Series) (hs : s.SearchExact)
    (hbox : ∀ i, i < s.numSegments → (s.segmentAt i).box.g ⊆ s.rect.g) (p : Pt) (allow : Bool) :
    ∃ visit : List Nat,
      visit.any (onAt s.segmentAt p) = (List.range s.numSegments).any (onAt s.segmentAt p) ∧
      (visit.filter (innAt s.segmentAt p)).length =
        ((List.range s.numSegments).filter (innAt s.segmentAt p)).length ∧
      (∀ i ∈ visit, i < s.numSegments) ∧
      (Ring.ser s).search (stripBox (.ser s) p) (cpStep p allow) (false, none) =
        cpFold s.segmentAt p allow (false, none) visit := by
  obtain ⟨visit, hperm, hv⟩ := hs (stripBox (.ser s) p)
  have hk := filter_keep s.segmentAt p (List.range s.numSegments)
    (fun i => (s.segmentAt i).box.intersects (stripBox (.ser s) p)) (by
      intro i hi hmiss
      obtain ⟨h1, h2⟩ := segBox_x_of_subset _ _ (hbox i (List.mem_range.1 hi))
      have m1 := min_le_left s.rect.min.x p.x
      have m2 := le_max_left s.rect.max.x p.x
      exact strip_miss_off (s.segmentAt i) (min s.rect.min.x p.x - 1) (max s.rect.max.x p.x + 1) p
        (by linarith) (by linarith) hmiss)
  refine ⟨visit, ?_, ?_, ?_, ?_⟩
  · rw [hperm.any_eq]; exact hk.1
  · rw [(hperm.filter _).length_eq]; exact hk.2
  · intro i hi
    have := (hperm.mem_iff.1 hi)
    exact List.mem_range.1 (List.mem_filter.1 this).1
  · rw [ring_search_ser, hv]
    rfl

theorem ser_ringContainsPoint (s : Series) (hs : s.SearchExact)
    (hbox : ∀ i, i < s.numSegments → (s.segmentAt i).box.g ⊆ s.rect.g) (p : Pt) (allow : Bool)
    (hc : s.rect.containsPt p = true) :
    (ringContainsPoint (.ser s) p allow).hit =
      (if (List.range s.numSegments).any (onAt s.segmentAt p) then allow
       else decide (((List.range s.numSegments).filter (innAt s.segmentAt p)).length % 2 = 1)) ∧
    (∀ i, (ringContainsPoint (.ser s) p allow).idx = some i →
      i < s.numSegments ∧ onAt s.segmentAt p i = true) ∧
    (ringContainsPoint (.ser s) p allow).idx.isSome =
      (List.range s.numSegments).any (onAt s.segmentAt p) := by
  obtain ⟨visit, h1, h2, h3, h4⟩ := ser_search_core s hs hbox p allow
  rw [ringContainsPoint_eq]
  have hc' : (!(Ring.ser s).rect.containsPt p) = false := by
    change (!s.rect.containsPt p) = false
    rw [hc]; rfl
  rw [hc']
  simp only [Bool.false_eq_true, if_false, h4]
  refine ⟨?_, ?_, ?_⟩
  · rw [cpFold_hit, h1, h2]
    simp
  · intro i hi
    obtain ⟨m, o⟩ := cpFold_idx _ _ _ _ _ _ hi
    exact ⟨h3 i m, o⟩
  · rw [cpFold_idx_isSome, h1]

theorem ringContainsPoint_outside (ring : Ring) (p : Pt) (allow : Bool)
    (hc : ring.rect.containsPt p = false) : ringContainsPoint ring p allow = ⟨false, none⟩ := by
  rw [ringContainsPoint_eq, hc]; rfl

theorem mkSeries_hbox (pts : Array Pt) (closed : Bool) (kind : IndexKind) (m : Nat) :
    ∀ i, i < (mkSeries pts closed kind m).numSegments →
      ((mkSeries pts closed kind m).segmentAt i).box.g ⊆ (mkSeries pts closed kind m).rect.g :=
  fun i hi => segBox_inside_rect' pts closed i hi

/-! ### `Line.containsPoint` -/

theorem anyFold (on : Nat → Bool) (visit : List Nat) (b0 : Bool) :
    (foldUntil (fun (st : Bool) i => if on i then (true, false) else (st, true)) b0 visit).1 =
      (b0 || visit.any on) := by
  induction visit generalizing b0 with
  | nil => simp [foldUntil]
  | cons x xs ih =>
    rw [foldUntil_cons]
    by_cases h : on x = true
    · simp [h]
    · simp [h, ih]

/-- the box of a segment that carries `p` meets the degenerate box of `p` -/
theorem on_imp_box_meets (seg : Seg) (p : Pt) (h : (seg.raycast p).on = true) :
    seg.box.intersects p.box = true := by
  obtain ⟨-, h1, h2, h3, h4⟩ := (raycast_on_iff _ _ _).1 h
  rw [segBox_tight]
  unfold Box.intersects Pt.box
  simp only [gt_iff_lt]
  rw [if_neg (by simp only [Bool.or_eq_true, decide_eq_true_eq, not_or, not_lt]; exact ⟨h3, h4⟩),
    if_neg (by simp only [Bool.or_eq_true, decide_eq_true_eq, not_or, not_lt]; exact ⟨h1, h2⟩)]

theorem line_containsPoint_any (s : Series) (hs : s.SearchExact) (p : Pt) :
    Line.containsPoint s p = (List.range s.numSegments).any (onAt s.segmentAt p) := by
  obtain ⟨visit, hperm, hv⟩ := hs p.box
  unfold Line.containsPoint
  rw [hv]
  change (foldUntil (fun (st : Bool) i => if onAt s.segmentAt p i then (true, false) else (st, true))
    false visit).1 = _
  rw [anyFold, Bool.false_or, hperm.any_eq, List.any_filter]
  apply List.any_congr rfl
  intro i
  by_cases h : onAt s.segmentAt p i = true
  · rw [h, on_imp_box_meets _ _ h]; rfl
  · simp [h]

/-! ### a rectangle used as a ring -/

theorem foldUntil_filter {σ : Type} (g : σ → Nat → σ × Bool) (k : Nat → Bool) (s : σ) (l : List Nat) :
    foldUntil (fun s i => if k i then g s i else (s, true)) s l = foldUntil g s (l.filter k) := by
  induction l generalizing s with
  | nil => rfl
  | cons x xs ih =>
    rw [foldUntil_cons, List.filter_cons]
    by_cases h : k x = true
    · simp only [h, if_true]
      rw [foldUntil_cons]
      split
      · exact ih _
      · rfl
    · simp only [h, Bool.false_eq_true, if_false]
      exact ih _

theorem bx_search (b q : Box) {σ : Type} (f : σ → Seg → Nat → σ × Bool) (st : σ) :
    (Ring.bx b).search q f st =
      (foldUntil (fun st i => f st (b.segmentAt i) i) st
        ([0, 1, 2, 3].filter (fun i => (b.segmentAt i).box.intersects q))).1 := by
  rw [← foldUntil_filter]
  rfl

theorem onSeg_horiz {a b p : Pt} (h1 : a.y = b.y) (h2 : p.y = a.y)
    (h3 : min a.x b.x ≤ p.x) (h4 : p.x ≤ max a.x b.x) : OnSeg a b p := by
  refine ⟨?_, h3, h4, ?_, ?_⟩
  · unfold Spec.cross; rw [h2, ← h1]; ring
  · rw [h2, ← h1, min_self]
  · rw [h2, ← h1, max_self]

theorem onSeg_vert {a b p : Pt} (h1 : a.x = b.x) (h2 : p.x = a.x)
    (h3 : min a.y b.y ≤ p.y) (h4 : p.y ≤ max a.y b.y) : OnSeg a b p := by
  refine ⟨?_, ?_, ?_, h3, h4⟩
  · unfold Spec.cross; rw [h2, ← h1]; ring
  · rw [h2, ← h1, min_self]
  · rw [h2, ← h1, max_self]

theorem inn_false_of {a b p : Pt} (h : ¬ Cross a b p) : (raycast a b p).inn = false := by
  cases hc : (raycast a b p).inn with
  | false => rfl
  | true => exact absurd ((K.raycast_good a b p).2.1 hc).2 h

/-- a point of the closed box that is on none of its four sides is crossed exactly by side 1 -/
theorem bx_inn (b : Box) (p : Pt) (hc : b.containsPt p = true)
    (hoff : [0, 1, 2, 3].any (onAt b.segmentAt p) = false) :
    innAt b.segmentAt p 0 = false ∧ innAt b.segmentAt p 1 = true ∧
    innAt b.segmentAt p 2 = false ∧ innAt b.segmentAt p 3 = false := by
  unfold Box.containsPt at hc
  simp only [Bool.and_eq_true, decide_eq_true_eq, ge_iff_le] at hc
  obtain ⟨⟨⟨x1, x2⟩, y1⟩, y2⟩ := hc
  rw [List.any_eq_false] at hoff
  have off : ∀ i, i ∈ [0, 1, 2, 3] → ¬ OnSeg (b.segmentAt i).a (b.segmentAt i).b p := by
    intro i hi h
    exact hoff i hi ((raycast_on_iff _ _ _).2 h)
  have o0 := off 0 (by simp)
  have o1 := off 1 (by simp)
  have o2 := off 2 (by simp)
  have o3 := off 3 (by simp)
  simp only [Box.segmentAt] at o0 o1 o2 o3
  have hy1 : b.min.y < p.y := by
    refine lt_of_le_of_ne y1 (fun h => o0 (onSeg_horiz rfl h.symm ?_ ?_))
    · exact le_trans (min_le_left _ _) x1
    · exact le_trans x2 (le_max_right _ _)
  have hy2 : p.y < b.max.y := by
    refine lt_of_le_of_ne y2 (fun h => o2 (onSeg_horiz rfl h ?_ ?_))
    · exact le_trans (min_le_right _ _) x1
    · exact le_trans x2 (le_max_left _ _)
  have hx2 : p.x < b.max.x := by
    refine lt_of_le_of_ne x2 (fun h => o1 (onSeg_vert rfl h ?_ ?_))
    · exact le_trans (min_le_left _ _) y1
    · exact le_trans y2 (le_max_right _ _)
  have hx1 : b.min.x < p.x := by
    refine lt_of_le_of_ne x1 (fun h => o3 (onSeg_vert rfl h.symm ?_ ?_))
    · exact le_trans (min_le_right _ _) y1
    · exact le_trans y2 (le_max_left _ _)
  unfold innAt Seg.raycast
  simp only [Box.segmentAt]
  refine ⟨inn_false_of (K.not_cross_horiz rfl), ?_, inn_false_of (K.not_cross_horiz rfl), ?_⟩
  · rw [raycast_in_iff _ _ _ o1, cross_iff_K, K.cross_iff_up (by simp only; linarith)]
    refine ⟨y1, hy2, ?_⟩
    rw [K.cross_def]
    simp only
    nlinarith [mul_pos (sub_pos.2 hx2) (sub_pos.2 (lt_trans hy1 hy2))]
  · apply inn_false_of
    rw [cross_iff_K, K.cross_iff_down (by simp only; linarith)]
    rintro ⟨-, -, h3⟩
    rw [K.cross_def] at h3
    simp only at h3
    nlinarith [mul_pos (sub_pos.2 hx1) (sub_pos.2 (lt_trans hy1 hy2))]

theorem bx_ringContainsPoint (b : Box) (p : Pt) (allow : Bool) (hc : b.containsPt p = true) :
    (ringContainsPoint (.bx b) p allow).hit =
      (if [0, 1, 2, 3].any (onAt b.segmentAt p) then allow else true) := by
  have hc0 := hc
  unfold Box.containsPt at hc
  simp only [Bool.and_eq_true, decide_eq_true_eq, ge_iff_le] at hc
  obtain ⟨⟨⟨x1, x2⟩, y1⟩, y2⟩ := hc
  have hxx : b.min.x ≤ b.max.x := le_trans x1 x2
  have hk := filter_keep b.segmentAt p [0, 1, 2, 3]
    (fun i => (b.segmentAt i).box.intersects (stripBox (.bx b) p)) (by
      intro i hi hmiss
      have m1 := min_le_left b.min.x p.x
      have m2 := le_max_left b.max.x p.x
      refine strip_miss_off (b.segmentAt i) (min b.min.x p.x - 1) (max b.max.x p.x + 1) p
        ?_ ?_ hmiss
      · have : b.min.x ≤ min (b.segmentAt i).a.x (b.segmentAt i).b.x := by
          simp only [List.mem_cons, List.not_mem_nil, or_false] at hi
          rcases hi with rfl | rfl | rfl | rfl <;> simp only [Box.segmentAt] <;>
            exact le_min (by linarith) (by linarith)
        linarith
      · have : max (b.segmentAt i).a.x (b.segmentAt i).b.x ≤ b.max.x := by
          simp only [List.mem_cons, List.not_mem_nil, or_false] at hi
          rcases hi with rfl | rfl | rfl | rfl <;> simp only [Box.segmentAt] <;>
            exact max_le (by linarith) (by linarith)
        linarith)
  rw [ringContainsPoint_eq]
  have hc' : (!(Ring.bx b).rect.containsPt p) = false := by
    change (!b.containsPt p) = false
    rw [hc0]; rfl
  rw [hc']
  simp only [Bool.false_eq_true, if_false]
  rw [bx_search]
  change (cpFold b.segmentAt p allow (false, none) _).1 = _
  rw [cpFold_hit, hk.1, hk.2]
  by_cases hon : [0, 1, 2, 3].any (onAt b.segmentAt p) = true
  · simp only [hon, if_true]
  · have hon' : [0, 1, 2, 3].any (onAt b.segmentAt p) = false := by simpa using hon
    obtain ⟨i0, i1, i2, i3⟩ := bx_inn b p hc0 hon'
    simp only [hon', Bool.false_eq_true, if_false]
    simp [i0, i1, i2, i3]

end Geo
