/-
  GeoProofs.Glue.RingGluePoint — ringContainsPoint / ringIntersectsPoint: the translation of the
  Go source, over the model operations, computes the hand model `Geo.ringContainsPoint`.
-/
import GeoProofs.Glue.RingGlueFold
set_option linter.unusedSimpArgs false

namespace Geo.RGlue
open Geo

/-- Go's edge index: -1 = none -/
def encIdx : Option Nat → Int
  | none => -1
  | some i => i

/-- the generated search state (idx, in) as a function of the model's (in, idx) -/
def cpPhi (st : Bool × Option Nat) : Int × Bool := (encIdx st.2, st.1)

/-- the query rectangle built by the source: Rect{{-Inf, y}, {+Inf, y}} -/
def stripE (p : Pt) : EBox := ⟨⟨.inf true, .fin p.y⟩, ⟨.inf false, .fin p.y⟩⟩

/-- under the rectangle guard, the clamped ±∞ strip is the model's `stripBox` -/
theorem clamp_strip (r : Ring) (p : Pt) (h : r.rect.containsPt p = true) :
    (stripE p).clamp r.rect = stripBox r p := by
  unfold Box.containsPt at h
  simp only [Bool.and_eq_true, decide_eq_true_eq] at h
  obtain ⟨⟨⟨h1, h2⟩, _⟩, _⟩ := h
  unfold stripE EBox.clamp ENum.clamp stripBox
  simp only
  rw [min_eq_left h1, max_eq_left h2]

theorem cp_step (f : Ring → Ring → Bool → Bool) (p : Pt) (b : Bool) (s : Bool × Option Nat)
    (seg : Seg) (i : Nat) :
    let c := RGen.containsPointSearcher (mopsR f) (EPt.ofPt p) b (cpPhi s).1 (cpPhi s).2 seg (i : Int)
    (c.2.1, c.2.2) = cpPhi (cpStep p b s seg i).1 ∧ (cpStep p b s seg i).2 = c.1 := by
  unfold RGen.containsPointSearcher cpStep cpPhi
  simp only [mopsR, toPt_ofPt]
  by_cases h1 : (seg.raycast p).on = true
  · simp [h1, encIdx]
  · by_cases h2 : (seg.raycast p).inn = true
    · simp [h1, h2, encIdx]
    · simp [h1, h2, encIdx]

theorem cp_search (f : Ring → Ring → Bool → Bool) {r : Ring} (hr : Exact r) (p : Pt) (b : Bool)
    (q : Box) :
    RGen.searchFold (fun (x' : Seg × Int) (st' : Int × Bool) =>
      let c' := RGen.containsPointSearcher (mopsR f) (EPt.ofPt p) b st'.1 st'.2 x'.1 x'.2
      ((c'.2.1, c'.2.2), c'.1)) (visits r q) (-1, false) =
    cpPhi (r.search q (cpStep p b) (false, none)) := by
  have := search_eq hr q cpPhi (cpStep p b) (fun (x' : Seg × Int) (st' : Int × Bool) =>
      let c' := RGen.containsPointSearcher (mopsR f) (EPt.ofPt p) b st'.1 st'.2 x'.1 x'.2
      ((c'.2.1, c'.2.2), c'.1))
    (fun s seg i => ⟨(cp_step f p b s seg i).1, (cp_step f p b s seg i).2⟩) (false, none)
  exact this

/-- **ringContainsPoint** (hit and idx) -/
theorem ringContainsPoint_gen (f : Ring → Ring → Bool → Bool) {r : Ring} (hr : Exact r) (p : Pt)
    (b : Bool) :
    RGen.ringContainsPoint (mopsR f) r (EPt.ofPt p) b =
      ⟨(Geo.ringContainsPoint r p b).hit, encIdx (Geo.ringContainsPoint r p b).idx⟩ := by
  rw [ringContainsPoint_eq]
  unfold RGen.ringContainsPoint
  have hg : (mopsR f).rectContainsPoint ((mopsR f).ringRect r) (EPt.ofPt p) = r.rect.containsPt p := rfl
  rw [hg]
  by_cases hc : r.rect.containsPt p = true
  · have hrect : (mopsR f).mkRect ((mopsR f).mkPoint ((mopsR f).mathInf (-1)) ((mopsR f).pointY (EPt.ofPt p)))
        ((mopsR f).mkPoint ((mopsR f).mathInf 1) ((mopsR f).pointY (EPt.ofPt p))) = stripE p := rfl
    simp only [hc, Bool.not_true, Bool.false_eq_true, ↓reduceIte, hrect]
    cases r with
    | ser s =>
      have h1 : (mopsR f).ringAsBaseSeries (.ser s) = some s := rfl
      have h2 : (mopsR f).baseSeriesSearch s (stripE p) = visits (.ser s) (stripBox (.ser s) p) := by
        show visits (.ser s) ((stripE p).clamp (Ring.ser s).rect) = _
        rw [clamp_strip _ p hc]
      simp only [h1, RGen.ringContainsPointBaseSeries, h2]
      rw [cp_search f hr p b]
      rfl
    | bx bb =>
      have h1 : (mopsR f).ringAsBaseSeries (.bx bb) = none := rfl
      have h2 : (mopsR f).ringSearch (.bx bb) (stripE p) = visits (.bx bb) (stripBox (.bx bb) p) := by
        show visits (.bx bb) ((stripE p).clamp (Ring.bx bb).rect) = _
        rw [clamp_strip _ p hc]
      simp only [h1, RGen.ringContainsPointGeneric, h2]
      rw [cp_search f hr p b]
      rfl
  · have hc' : r.rect.containsPt p = false := by simpa using hc
    simp [hc', encIdx]

theorem ringContainsPoint_hit (f : Ring → Ring → Bool → Bool) {r : Ring} (hr : Exact r) (p : Pt)
    (b : Bool) :
    (RGen.ringContainsPoint (mopsR f) r (EPt.ofPt p) b).hit = (Geo.ringContainsPoint r p b).hit := by
  rw [ringContainsPoint_gen f hr]

theorem ringContainsPoint_idx (f : Ring → Ring → Bool → Bool) {r : Ring} (hr : Exact r) (p : Pt)
    (b : Bool) :
    (RGen.ringContainsPoint (mopsR f) r (EPt.ofPt p) b).idx = encIdx (Geo.ringContainsPoint r p b).idx := by
  rw [ringContainsPoint_gen f hr]

end Geo.RGlue
