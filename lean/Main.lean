import GeoModel.Driver
open Geo Driver

partial def loop (hin : IO.FS.Stream) (hout : IO.FS.Stream) (env : Env) : IO Unit := do
  let line ← hin.getLine
  if line.isEmpty then return ()
  let (env', out) := step env line
  hout.putStrLn out
  loop hin hout env'

def main : IO Unit := do
  let hin ← IO.getStdin
  let hout ← IO.getStdout
  loop hin hout {}
  hout.flush
