/-
  GeoProofs.Glue.ParseGlueFColl — generated parseJSONFeatureCollection = the "FeatureCollection" arm of the
  model's parse (same proof as ParseGlueGColl, for the other struct / closure / key).
-/
import GeoProofs.Glue.ParseGlueGColl

set_option linter.unusedSimpArgs false

namespace Geo.PGlue
open Geo Geo.PGen

abbrev GFC := PGen.FeatureCollection MF GRect Obj (List Obj) MStr

theorem fcoll_fold (rec : RecT) (o : POpts) (fuel : Nat) (hrec : RecOK rec o fuel) :
    ∀ (items : List JVal) (xs : List RPair), xs.map (·.2) = items.map some → (∀ v ∈ items, JOK v = true) → ∀ (g : GFC),
    match parseList o fuel items with
    | .ok children =>
      searchFold (PGen.parseJSONFeatureCollection_lit1 (mops rec) (some (optsG o))) xs (g, none) =
        ({ g with collection := { g.collection with children := g.collection.children ++ children } }, none)
    | .error e => errU (searchFold (PGen.parseJSONFeatureCollection_lit1 (mops rec) (some (optsG o))) xs (g, none)).2 e := by
  intro items
  induction items with
  | nil => intro xs h _ g; simp at h; subst h; simp [parseList, searchFold]
  | cons v vs ih =>
    intro xs h hJ g
    cases xs with
    | nil => simp at h
    | cons x xs =>
      simp only [List.map_cons, List.cons.injEq] at h
      obtain ⟨hx, hxs⟩ := h
      obtain ⟨k, x2⟩ := x
      simp only at hx; subst hx
      have hr := hrec v (hJ v (by simp))
      rw [parseList]
      have hstep : PGen.parseJSONFeatureCollection_lit1 (mops rec) (some (optsG o)) (k, some v) (g, none) =
          (if !(rec [Piece.doc v] (some (optsG o))).2.isNone then ((g, (rec [Piece.doc v] (some (optsG o))).2), false)
           else (({ g with collection := { g.collection with children := g.collection.children ++ [(rec [Piece.doc v] (some (optsG o))).1] } },
                  (rec [Piece.doc v] (some (optsG o))).2), true)) := by
        rfl
      cases hp : parse o fuel v with
      | error e =>
        rw [hp] at hr
        simp only
        cases hn : (rec [Piece.doc v] (some (optsG o))).2 with
        | none =>
          -- only possible when the model declined (unmodelled)
          cases e <;> simp [AgreeU, errU, hn] at hr ⊢
        | some ge =>
          rw [searchFold, hstep]; simp only [hn, Option.isNone_some, Bool.not_false, if_true]
          simpa [AgreeU, hn] using hr
      | ok c =>
        rw [hp] at hr
        simp only [AgreeU] at hr
        have hstep' : PGen.parseJSONFeatureCollection_lit1 (mops rec) (some (optsG o)) (k, some v) (g, none) =
            (({ g with collection := { g.collection with children := g.collection.children ++ [c] } }, none), true) := by
          rw [hstep, hr]; rfl
        rw [searchFold_cons_true _ _ _ _ _ hstep']
        have := ih xs hxs (fun v' h' => hJ v' (by simp [h'])) { g with collection := { g.collection with children := g.collection.children ++ [c] } }
        cases hl : parseList o fuel vs with
        | error e => rw [hl] at this; simpa using this
        | ok cs => rw [hl] at this; simp only at this ⊢; rw [this]; simp

/-- the "FeatureCollection" arm of the model's parse (fuel = the fuel of the recursive calls) -/
def mFColl (o : POpts) (fuel : Nat) (k : Keys) : Except PErr Obj :=
  match reqArray k.features .featuresMissing .featuresInvalid with
  | .error e => .error e
  | .ok (.arr items) =>
    match parseList o fuel items with
    | .error e => .error e
    | .ok children => .ok (mkColl o .featureCollection children (withMembers none k))
  | .ok _ => .error .featuresInvalid

theorem fcoll_eq (rec : RecT) (o : POpts) (fuel : Nat) (hrec : RecOK rec o fuel) (gk : GKeys) (k : Keys) (hk : KeysRel gk k)
    (hJ : ∀ items, k.features = some (.arr items) → ∀ v ∈ items, JOK v = true) :
    AgreeU (PGen.parseJSONFeatureCollection (mops rec) (some gk) (some (optsG o))) (mFColl o fuel k) := by
  unfold PGen.parseJSONFeatureCollection mFColl reqArray
  simp only [m_gjsonResultExists, m_gjsonResultIsArray, m_gjsonResultForEach, m_nilObject, m_objectOfFeatureCollection,
    deref_some, hk.feats]
  cases hc : k.features with
  | none => simp [AgreeU, errU, errG]
  | some rc =>
    cases rc with
    | arr items =>
      have hf := fcoll_fold rec o fuel hrec items (forEach (some (.arr items))) (by simp [forEach]) (hJ items hc) (PGen.zeroFeatureCollection (mops rec))
      simp only [Option.isSome_some, Bool.not_true, Bool.false_eq_true, if_false, JVal.isArray, ↓reduceIte]
      cases hl : parseList o fuel items with
      | error e =>
        rw [hl] at hf
        simp only [AgreeU]
        generalize searchFold (PGen.parseJSONFeatureCollection_lit1 (mops rec) (some (optsG o))) (forEach (some (JVal.arr items)))
          (PGen.zeroFeatureCollection (mops rec), none) = R at hf ⊢
        cases hR : R.2 with
        | none => cases e <;> simp [errU, hR] at hf ⊢
        | some ge => simpa [hR] using hf
      | ok children =>
        rw [hl] at hf
        simp only at hf
        rw [hf]
        simp only [Option.isNone_none, Bool.not_true, Bool.false_eq_true, if_false]
        have hb := bbox_eq rec none gk (some (optsG o)) k hk
        have hz : (PGen.zeroFeatureCollection (mops rec)).collection.extra = none := rfl
        simp only [hz]
        generalize PGen.parseBBoxAndExtras (mops rec) none (some gk) (some (optsG o)) = B at hb ⊢
        obtain ⟨hb1, hb2⟩ := hb
        simp only [hb1, Option.isNone_none, Bool.not_true, Bool.false_eq_true, if_false, AgreeU]
        rw [initRect_obj rec .featureCollection _ o rfl]
        simp [hb2, PGen.zeroFeatureCollection]
    | null => simp [AgreeU, errU, errG, JVal.isArray]
    | tru => simp [AgreeU, errU, errG, JVal.isArray]
    | fls => simp [AgreeU, errU, errG, JVal.isArray]
    | num _ _ _ _ _ => simp [AgreeU, errU, errG, JVal.isArray]
    | str _ _ => simp [AgreeU, errU, errG, JVal.isArray]
    | obj _ => simp [AgreeU, errU, errG, JVal.isArray]

#print axioms fcoll_eq


end Geo.PGlue
