/-
  Float bridge, part 2: the kernels GENERATED from rect.go, point.go and Segment.Rect/Move
  (`GeoModel/Generated/KernelGen.lean`, regenerated from the Go source on every run) evaluated at
  the exact binary64 model `instKNumFQ : KNum FQ` equal the hand-written `Rat` model.

  * comparison-only kernels — NO hypothesis, every finite rational coordinate (`up`, `upB`, `upS`
    embed model points/boxes/segments as finite doubles):
      `kgen_segmentRect_float_exact`        Segment.Rect       = Seg.box   (= min/max, `segBox_tight`)
      `kgen_rectContainsPoint_float_exact`  Rect.ContainsPoint = Box.containsPt
      `kgen_rectIntersectsPoint_float_exact`
      `kgen_rectContainsRect_float_exact`   Rect.ContainsRect  = Box.containsBox
      `kgen_rectIntersectsRect_float_exact` Rect.IntersectsRect = Box.intersects
      `kgen_pointValid_float_exact`, `kgen_rectValid_float_exact`   = Pt.valid, Obj.boxValid
      `kgen_pointContainsPoint_float_exact`, `kgen_pointIntersectsPoint_float_exact` = decide (p = q)
      `kgen_pointContainsRect_float_exact`  = Pt.containsRect,
      `kgen_pointIntersectsRect_float_exact` = Pt.intersectsRect
      `kgen_pointRect_float_exact` = Pt.box, `kgen_rectRect_float_exact`
  * computing kernels — exact when every intermediate exact result is a double (`CenterExact`,
    `AreaExact`, `MoveExact`, all implied by E):
      `kgen_rectCenter_float_exact(_E)`, `kgen_rectArea_float_exact(_E)`,
      `kgen_pointMove_float_exact(_E)`, `kgen_rectMove_float_exact(_E)`,
      `kgen_segmentMove_float_exact(_E)`
-/
import GeoProofs.Float.KGenRectArith

namespace Geo
open Geo.F

theorem kgen_segmentRect_float_exact (s : Seg) :
    KGen.segmentRect (α := FQ) (upS s) = upB s.box := kgen_segmentRect s

/-- with the tight description of the box: min/max of the endpoint coordinates -/
theorem kgen_segmentRect_float_minmax (a b : Pt) :
    KGen.segmentRect (α := FQ) ⟨up a, up b⟩
      = upB ⟨⟨min a.x b.x, min a.y b.y⟩, ⟨max a.x b.x, max a.y b.y⟩⟩ := by
  have h := kgen_segmentRect ⟨a, b⟩
  rw [show upS ⟨a, b⟩ = (⟨up a, up b⟩ : KSegment FQ) from rfl] at h
  rw [h]; congr 1
  unfold Seg.box
  by_cases hx : a.x > b.x <;> by_cases hy : a.y > b.y <;>
    simp [hx, hy, le_of_lt, not_lt.mp]

theorem kgen_rectContainsPoint_float_exact (r : Box) (p : Pt) :
    KGen.rectContainsPoint (α := FQ) (upB r) (up p) = r.containsPt p := kgen_rectContainsPoint r p

theorem kgen_rectIntersectsPoint_float_exact (r : Box) (p : Pt) :
    KGen.rectIntersectsPoint (α := FQ) (upB r) (up p) = r.containsPt p :=
  kgen_rectIntersectsPoint r p

theorem kgen_rectContainsRect_float_exact (r o : Box) :
    KGen.rectContainsRect (α := FQ) (upB r) (upB o) = r.containsBox o := kgen_rectContainsRect r o

theorem kgen_rectIntersectsRect_float_exact (r o : Box) :
    KGen.rectIntersectsRect (α := FQ) (upB r) (upB o) = r.intersects o :=
  kgen_rectIntersectsRect r o

theorem kgen_rectRect_float_exact (r : Box) : KGen.rectRect (α := FQ) (upB r) = upB r := rfl

theorem kgen_pointValid_float_exact (p : Pt) : KGen.pointValid (α := FQ) (up p) = p.valid :=
  kgen_pointValid p

theorem kgen_rectValid_float_exact (r : Box) :
    KGen.rectValid (α := FQ) (upB r) = Obj.boxValid r := kgen_rectValid r

theorem kgen_pointRect_float_exact (p : Pt) : KGen.pointRect (α := FQ) (up p) = upB p.box := rfl

theorem kgen_pointContainsPoint_float_exact (p q : Pt) :
    KGen.pointContainsPoint (α := FQ) (up p) (up q) = Geom.contains (.point p) (.point q) :=
  kgen_pointContainsPoint p q

theorem kgen_pointIntersectsPoint_float_exact (p q : Pt) :
    KGen.pointIntersectsPoint (α := FQ) (up p) (up q) = Geom.intersects (.point p) (.point q) :=
  kgen_pointIntersectsPoint p q

theorem kgen_pointContainsRect_float_exact (p : Pt) (r : Box) :
    KGen.pointContainsRect (α := FQ) (up p) (upB r) = p.containsRect r :=
  kgen_pointContainsRect p r

theorem kgen_pointIntersectsRect_float_exact (p : Pt) (r : Box) :
    KGen.pointIntersectsRect (α := FQ) (up p) (upB r) = p.intersectsRect r :=
  kgen_pointIntersectsRect p r

/-! ### the computing kernels -/

theorem kgen_rectCenter_float_exact {r : Box} (h : CenterExact r) :
    KGen.rectCenter (α := FQ) (upB r) = up r.center := kgen_rectCenter h

theorem kgen_rectCenter_float_exact_E {r : Box} (h1 : PtE r.min) (h2 : PtE r.max) :
    KGen.rectCenter (α := FQ) (upB r) = up r.center := kgen_rectCenter (.of_E h1 h2)

theorem kgen_rectArea_float_exact {r : Box} (h : AreaExact r) :
    KGen.rectArea (α := FQ) (upB r) = .fin r.area := kgen_rectArea h

theorem kgen_rectArea_float_exact_E {r : Box} (h1 : PtE r.min) (h2 : PtE r.max) :
    KGen.rectArea (α := FQ) (upB r) = .fin r.area := kgen_rectArea (.of_E h1 h2)

theorem kgen_pointMove_float_exact {p : Pt} {dx dy : ℚ} (h : MoveExact p dx dy) :
    KGen.pointMove (α := FQ) (up p) (.fin dx) (.fin dy) = up ⟨p.x + dx, p.y + dy⟩ :=
  kgen_pointMove h

theorem kgen_pointMove_float_exact_E {p : Pt} {dx dy : ℚ} (hp : PtE p) (hx : InE dx)
    (hy : InE dy) :
    KGen.pointMove (α := FQ) (up p) (.fin dx) (.fin dy) = up ⟨p.x + dx, p.y + dy⟩ :=
  kgen_pointMove (.of_E hp hx hy)

theorem kgen_rectMove_float_exact {r : Box} {dx dy : ℚ} (h1 : MoveExact r.min dx dy)
    (h2 : MoveExact r.max dx dy) :
    KGen.rectMove (α := FQ) (upB r) (.fin dx) (.fin dy)
      = upB ⟨⟨r.min.x + dx, r.min.y + dy⟩, ⟨r.max.x + dx, r.max.y + dy⟩⟩ := kgen_rectMove h1 h2

theorem kgen_rectMove_float_exact_E {r : Box} {dx dy : ℚ} (h1 : PtE r.min) (h2 : PtE r.max)
    (hx : InE dx) (hy : InE dy) :
    KGen.rectMove (α := FQ) (upB r) (.fin dx) (.fin dy)
      = upB ⟨⟨r.min.x + dx, r.min.y + dy⟩, ⟨r.max.x + dx, r.max.y + dy⟩⟩ :=
  kgen_rectMove (.of_E h1 hx hy) (.of_E h2 hx hy)

theorem kgen_segmentMove_float_exact {s : Seg} {dx dy : ℚ} (h1 : MoveExact s.a dx dy)
    (h2 : MoveExact s.b dx dy) :
    KGen.segmentMove (α := FQ) (upS s) (.fin dx) (.fin dy)
      = upS ⟨⟨s.a.x + dx, s.a.y + dy⟩, ⟨s.b.x + dx, s.b.y + dy⟩⟩ := kgen_segmentMove h1 h2

theorem kgen_segmentMove_float_exact_E {s : Seg} {dx dy : ℚ} (h1 : PtE s.a) (h2 : PtE s.b)
    (hx : InE dx) (hy : InE dy) :
    KGen.segmentMove (α := FQ) (upS s) (.fin dx) (.fin dy)
      = upS ⟨⟨s.a.x + dx, s.a.y + dy⟩, ⟨s.b.x + dx, s.b.y + dy⟩⟩ :=
  kgen_segmentMove (.of_E h1 hx hy) (.of_E h2 hx hy)

/-! ### non-vacuity -/

/-- a rect and a point with non-integer coordinates: the generated `Rect.ContainsPoint`,
    run in the binary64 model, says `true` (and the statement above makes that the model value) -/
example : KGen.rectContainsPoint (α := FQ) (upB ⟨⟨-1 / 3, 1 / 16⟩, ⟨5 / 2, 7 / 10⟩⟩)
    (up ⟨1 / 7, 1 / 5⟩) = true := by
  rw [kgen_rectContainsPoint_float_exact]; norm_num [Box.containsPt]

example : KGen.rectContainsPoint (α := FQ) (upB ⟨⟨-1 / 3, 1 / 16⟩, ⟨5 / 2, 7 / 10⟩⟩)
    (up ⟨1 / 7, 71 / 100⟩) = false := by
  rw [kgen_rectContainsPoint_float_exact]; norm_num [Box.containsPt]

/-- point kernels on a non-integer point -/
example : KGen.pointIntersectsRect (α := FQ) (up ⟨1 / 7, 1 / 5⟩)
    (upB ⟨⟨-1 / 3, 1 / 16⟩, ⟨5 / 2, 7 / 10⟩⟩) = true := by
  rw [kgen_pointIntersectsRect_float_exact]; norm_num [Pt.intersectsRect, Box.containsPt]

example : KGen.pointValid (α := FQ) (up ⟨-180, 181 / 2⟩) = false := by
  rw [kgen_pointValid_float_exact]; norm_num [Pt.valid]

example : KGen.pointContainsRect (α := FQ) (up ⟨1 / 7, 1 / 5⟩) (upB ⟨⟨1 / 7, 1 / 5⟩, ⟨1 / 7, 1 / 5⟩⟩)
    = true := by
  rw [kgen_pointContainsRect_float_exact]; simp [Pt.containsRect, Pt.box]

/-- the exactness hypotheses of the computing kernels are satisfiable off the integers -/
example : CenterExact ⟨⟨-3 / 16, 1 / 16⟩, ⟨5 / 2, 7 / 16⟩⟩ :=
  .of_E ⟨⟨-3, by norm_num, by norm_num⟩, ⟨1, by norm_num, by norm_num⟩⟩
    ⟨⟨40, by norm_num, by norm_num⟩, ⟨7, by norm_num, by norm_num⟩⟩

example : MoveExact ⟨-3 / 16, 1 / 16⟩ (5 / 2) (7 / 16) :=
  .of_E ⟨⟨-3, by norm_num, by norm_num⟩, ⟨1, by norm_num, by norm_num⟩⟩
    ⟨40, by norm_num, by norm_num⟩ ⟨7, by norm_num, by norm_num⟩

end Geo

#print axioms Geo.kgen_segmentRect_float_exact
#print axioms Geo.kgen_segmentRect_float_minmax
#print axioms Geo.kgen_rectContainsPoint_float_exact
#print axioms Geo.kgen_rectIntersectsPoint_float_exact
#print axioms Geo.kgen_rectContainsRect_float_exact
#print axioms Geo.kgen_rectIntersectsRect_float_exact
#print axioms Geo.kgen_rectRect_float_exact
#print axioms Geo.kgen_pointValid_float_exact
#print axioms Geo.kgen_rectValid_float_exact
#print axioms Geo.kgen_pointRect_float_exact
#print axioms Geo.kgen_pointContainsPoint_float_exact
#print axioms Geo.kgen_pointIntersectsPoint_float_exact
#print axioms Geo.kgen_pointContainsRect_float_exact
#print axioms Geo.kgen_pointIntersectsRect_float_exact
#print axioms Geo.kgen_rectCenter_float_exact
#print axioms Geo.kgen_rectCenter_float_exact_E
#print axioms Geo.kgen_rectArea_float_exact
#print axioms Geo.kgen_rectArea_float_exact_E
#print axioms Geo.kgen_pointMove_float_exact
#print axioms Geo.kgen_pointMove_float_exact_E
#print axioms Geo.kgen_rectMove_float_exact
#print axioms Geo.kgen_rectMove_float_exact_E
#print axioms Geo.kgen_segmentMove_float_exact
#print axioms Geo.kgen_segmentMove_float_exact_E
#print axioms Geo.F.ofRat_F64
#print axioms Geo.F.kofNat_small
