/-
  C12 with the discrete Jordan lemma: Props/C12.lean plus `parity_left_eq_right` (left-ray and
  right-ray crossing parities agree off the boundary: membership is invariant under x ↦ -x).
-/
import GeoProofs.Props.C12
import GeoProofs.Jordan.Parity
