/-
  GeoProofs.ContainsConvex.Points — "every vertex is a member" against "every point of the
  argument is a member" for a convex closed region.
-/
import GeoProofs.ContainsConvex.Verts

namespace Geo
namespace CC
open GL Jordan Contains

theorem verts_iff_edge_points {L : List Pt} (hC : ClosedConvex L) (pts : Array Pt) (closed : Bool)
    (hne : ((closed && pts.size < 3) || pts.size < 2) = false) :
    (∀ p ∈ pts.toList, Spec.inRing (Spec.edges L true) p = true) ↔
      ∀ e ∈ Spec.edges pts.toList closed, ∀ x, OnSeg e.1 e.2 x →
        Spec.inRing (Spec.edges L true) x = true := by
  constructor
  · intro h e he x hx
    obtain ⟨h1, h2⟩ := Sym.edges_ends pts.toList closed e he
    exact hC _ _ x (h _ h1) (h _ h2) hx
  · intro h
    exact (edges_all_iff pts closed hne (fun p => Spec.inRing (Spec.edges L true) p = true)).1
      (fun e he => ⟨h e he _ (K.onSeg_left _ _), h e he _ (K.onSeg_right _ _)⟩)

theorem verts_iff_region {L : List Pt} {P : Nat → Pt} {n : Nat} {σ : Rat} (R : CvxRing L P n σ)
    (C : Array Pt) (h3 : 3 ≤ C.size) :
    (∀ p ∈ C.toList, Spec.inRing (Spec.edges L true) p = true) ↔
      ∀ x, Spec.inRing (Spec.edges C.toList true) x = true →
        Spec.inRing (Spec.edges L true) x = true := by
  constructor
  · exact fun h x hx => R.region_sub C.toList h x hx
  · intro h p hp
    have hne : ((true && decide (C.size < 3)) || decide (C.size < 2)) = false := by simp; omega
    obtain ⟨e, he, h1⟩ := vertex_on_edge C true hne p hp
    apply h
    unfold Spec.inRing Spec.onBoundary
    rw [Bool.or_eq_true, List.any_eq_true]
    left
    refine ⟨e, he, (spec_onSeg_iff _ _ _).2 ?_⟩
    rcases h1 with h1 | h1
    · rw [← h1]; exact K.onSeg_left _ _
    · rw [← h1]; exact K.onSeg_right _ _

end CC
end Geo
