/-
  GeoProofs.ObjLemmas — helper lemmas for the object layer (properties C09, C10, C11):
  an induction principle for the nested inductive `Obj`, the list-level characterisations
  of the mutually recursive helper functions of GeoModel.Object (`allEmpty`, `sumPoints`,
  `leavesL`, `collRect`, `within*L`, `intersects*L`, `containsAll/Some`,
  `intersectsParts/Some`), and box algebra (`unionBox`, `Box.containsBox`, `Box.intersects`).
-/
import GeoModel.Object
import Mathlib.Algebra.Order.Field.Rat
import Mathlib.Tactic.Linarith
import Mathlib.Tactic.SplitIfs

namespace Geo
open Obj

/-! ### kinds of objects -/

/-- the five planar geometry leaves (Point, SimplePoint, LineString, Polygon, Rect) -/
def Obj.isLeaf : Obj → Bool
  | .point _ _ => true
  | .spoint _ => true
  | .lineString _ _ _ => true
  | .polygon _ _ _ => true
  | .rectO _ _ _ => true
  | _ => false

/-- not a collection, and not a feature (of a feature …) of a collection -/
def Obj.isLeafDeep : Obj → Bool
  | .coll _ _ _ _ => false
  | .feature b _ => b.isLeafDeep
  | _ => true

/-! ### induction principle -/

section ind
set_option linter.unusedSectionVars false
variable {P : Obj → Prop}
  (hpoint : ∀ pos ex, P (.point pos ex))
  (hspoint : ∀ pos, P (.spoint pos))
  (hline : ∀ l poss ex, P (.lineString l poss ex))
  (hpoly : ∀ p rings ex, P (.polygon p rings ex))
  (hrect : ∀ b lo hi, P (.rectO b lo hi))
  (hcircle : ∀ c r, P (.circle c r))
  (hfeat : ∀ b ex, P b → P (.feature b ex))
  (hcoll : ∀ k cs ex idx, (∀ c ∈ cs, P c) → P (.coll k cs ex idx))
include hpoint hspoint hline hpoly hrect hcircle hfeat hcoll

mutual
theorem Obj.ind : ∀ o : Obj, P o
  | .point pos ex => hpoint pos ex
  | .spoint pos => hspoint pos
  | .lineString l poss ex => hline l poss ex
  | .polygon p rings ex => hpoly p rings ex
  | .rectO b lo hi => hrect b lo hi
  | .circle c r => hcircle c r
  | .feature b ex => hfeat b ex (Obj.ind b)
  | .coll k cs ex idx => hcoll k cs ex idx (Obj.indL cs)
theorem Obj.indL : ∀ cs : List Obj, ∀ c ∈ cs, P c
  | [] => by intro c h; cases h
  | d :: ds => by
    intro c h
    rcases List.mem_cons.1 h with h | h
    · exact h ▸ Obj.ind d
    · exact Obj.indL ds c h
end
end ind

/-! ### list-level characterisations of the mutual helpers -/

theorem allEmpty_eq (cs : List Obj) : allEmpty cs = cs.all (fun c => c.empty) := by
  induction cs with
  | nil => simp [allEmpty]
  | cons c cs ih => simp [allEmpty, ih]

theorem allEmpty_iff (cs : List Obj) : allEmpty cs = true ↔ ∀ c ∈ cs, c.empty = true := by
  simp [allEmpty_eq]

theorem allEmpty_false_iff (cs : List Obj) : allEmpty cs = false ↔ ∃ c ∈ cs, c.empty = false := by
  simp [allEmpty_eq]

theorem allValid_eq (cs : List Obj) : allValid cs = cs.all (fun c => c.valid) := by
  induction cs with
  | nil => simp [allValid]
  | cons c cs ih => simp [allValid, ih]

theorem sumPoints_eq (cs : List Obj) : sumPoints cs = (cs.map Obj.numPoints).sum := by
  induction cs with
  | nil => simp [sumPoints]
  | cons c cs ih => simp [sumPoints, ih]

theorem leavesL_eq (cs : List Obj) : leavesL cs = (cs.map Obj.leaves).flatten := by
  induction cs with
  | nil => simp [leavesL]
  | cons c cs ih => simp [leavesL, ih]

theorem mem_leavesL (cs : List Obj) (g : Obj) : g ∈ leavesL cs ↔ ∃ c ∈ cs, g ∈ c.leaves := by
  simp [leavesL_eq]

/-- the non-empty children -/
def nonEmptyKids (cs : List Obj) : List Obj := cs.filter (fun c => !c.empty)

theorem mem_nonEmptyKids {cs : List Obj} {c : Obj} :
    c ∈ nonEmptyKids cs ↔ c ∈ cs ∧ c.empty = false := by
  simp [nonEmptyKids]

theorem collRect_false (cs : List Obj) (acc : Option Box) :
    collRect cs false acc =
      ((nonEmptyKids cs).map Obj.rect).foldl
        (fun (a : Option Box) r => match a with | none => some r | some a => some (unionBox a r)) acc := by
  induction cs generalizing acc with
  | nil => simp [collRect, nonEmptyKids]
  | cons c cs ih =>
    by_cases hc : c.empty = true
    · simp [collRect, hc, ih, nonEmptyKids]
    · cases acc with
      | none => simp [collRect, ih, nonEmptyKids, hc]
      | some a => simp [collRect, ih, nonEmptyKids, hc]

theorem foldl_optUnion_some (rs : List Box) (a : Box) :
    rs.foldl (fun (a : Option Box) r => match a with | none => some r | some a => some (unionBox a r)) (some a)
      = some (rs.foldl unionBox a) := by
  induction rs generalizing a with
  | nil => rfl
  | cons r rs ih => simp [ih]

/-- the fold of `parseInitRectIndex` as a plain left fold -/
def foldRects : List Box → Box
  | [] => zeroBox
  | r :: rs => rs.foldl unionBox r

theorem collRect_getD (cs : List Obj) :
    (collRect cs (cs.length == 1) none).getD zeroBox = foldRects ((nonEmptyKids cs).map Obj.rect) := by
  by_cases h1 : cs.length = 1
  · obtain ⟨c, rfl⟩ := List.length_eq_one_iff.1 h1
    by_cases hc : c.empty = true
    · simp [collRect, hc, nonEmptyKids, foldRects]
    · simp [collRect, hc, nonEmptyKids, foldRects]
  · have : (cs.length == 1) = false := by simpa using h1
    rw [this, collRect_false]
    cases h : (nonEmptyKids cs).map Obj.rect with
    | nil => simp [foldRects]
    | cons r rs => simp [foldRects, foldl_optUnion_some]

/-! ### the counting loops of `Within*` -/

theorem withinCount_le (found : List Obj) (g : Obj → Bool) : withinCount found g ≤ found.length := by
  induction found with
  | nil => simp [withinCount]
  | cons c cs ih =>
    simp only [withinCount, List.length_cons]
    split <;> omega

theorem withinCount_eq_length_iff (found : List Obj) (g : Obj → Bool) :
    withinCount found g = found.length ↔ ∀ c ∈ found, g c = true := by
  induction found with
  | nil => simp [withinCount]
  | cons c cs ih =>
    simp only [withinCount, List.length_cons, List.forall_mem_cons]
    by_cases hg : g c = true
    · simp only [hg, if_true, true_and]
      rw [← ih]; omega
    · simp [hg]

/-- count over `cs` = `withinCount` over the filtered list, compared with the FULL length -/
theorem withinCount_filter_eq_length_iff (cs : List Obj) (f g : Obj → Bool) :
    withinCount (cs.filter f) g = cs.length ↔ ∀ c ∈ cs, f c = true ∧ g c = true := by
  constructor
  · intro h
    have h1 := withinCount_le (cs.filter f) g
    have h2 := List.length_filter_le f cs
    have h3 : (cs.filter f).length = cs.length := by omega
    have h4 : cs.filter f = cs := List.filter_eq_self.2 (List.length_filter_eq_length_iff.1 h3)
    rw [h4] at h
    have h5 := (withinCount_eq_length_iff cs g).1 h
    have h6 := List.length_filter_eq_length_iff.1 h3
    exact fun c hc => ⟨h6 c hc, h5 c hc⟩
  · intro h
    have h4 : cs.filter f = cs := List.filter_eq_self.2 (fun c hc => (h c hc).1)
    rw [h4]
    exact (withinCount_eq_length_iff cs g).2 (fun c hc => (h c hc).2)

theorem withinRectL_eq (cs : List Obj) (q r : Box) :
    withinRectL cs q r = withinCount (searchChildren cs q) (fun c => c.withinRect r) := by
  induction cs with
  | nil => simp [withinRectL, searchChildren, withinCount]
  | cons c cs ih =>
    simp only [searchChildren] at ih
    by_cases hf : (!c.empty && c.rect.intersects q) = true
    · simp [withinRectL, searchChildren, hf, withinCount, ih]
    · simp [withinRectL, searchChildren, hf, ih]

theorem withinPointL_eq (cs : List Obj) (q : Pt) :
    withinPointL cs q = withinCount (searchChildren cs q.box) (fun c => c.withinPoint q) := by
  induction cs with
  | nil => simp [withinPointL, searchChildren, withinCount]
  | cons c cs ih =>
    simp only [searchChildren] at ih
    by_cases hf : (!c.empty && c.rect.intersects q.box) = true
    · simp [withinPointL, searchChildren, hf, withinCount, ih]
    · simp [withinPointL, searchChildren, hf, ih]

theorem withinLineL_eq (cs : List Obj) (l : Line) :
    withinLineL cs l = withinCount (searchChildren cs l.rect) (fun c => c.withinLine l) := by
  induction cs with
  | nil => simp [withinLineL, searchChildren, withinCount]
  | cons c cs ih =>
    simp only [searchChildren] at ih
    by_cases hf : (!c.empty && c.rect.intersects l.rect) = true
    · simp [withinLineL, searchChildren, hf, withinCount, ih]
    · simp [withinLineL, searchChildren, hf, ih]

theorem withinPolyL_eq (cs : List Obj) (p : Poly) :
    withinPolyL cs p = withinCount (searchChildren cs p.rect) (fun c => c.withinPoly p) := by
  induction cs with
  | nil => simp [withinPolyL, searchChildren, withinCount]
  | cons c cs ih =>
    simp only [searchChildren] at ih
    by_cases hf : (!c.empty && c.rect.intersects p.rect) = true
    · simp [withinPolyL, searchChildren, hf, withinCount, ih]
    · simp [withinPolyL, searchChildren, hf, ih]

/-- the shape shared by the four `Within*` methods of a collection -/
theorem within_count_iff (cs : List Obj) (q : Box) (g : Obj → Bool) :
    (withinCount (searchChildren cs q) g == cs.length) = true ↔
      ∀ c ∈ cs, c.empty = false ∧ c.rect.intersects q = true ∧ g c = true := by
  rw [beq_iff_eq, searchChildren, withinCount_filter_eq_length_iff]
  simp [and_assoc]

/-! ### the any-loops of `Intersects*` -/

theorem intersectsRectL_iff (cs : List Obj) (r : Box) :
    intersectsRectL cs r = true ↔
      ∃ c ∈ cs, c.empty = false ∧ c.rect.intersects r = true ∧ c.intersectsRect r = true := by
  induction cs with
  | nil => simp [intersectsRectL]
  | cons c cs ih => simp [intersectsRectL, ih, and_assoc]

theorem intersectsPointL_iff (cs : List Obj) (q : Pt) :
    intersectsPointL cs q = true ↔
      ∃ c ∈ cs, c.empty = false ∧ c.rect.intersects q.box = true ∧ c.intersectsPoint q = true := by
  induction cs with
  | nil => simp [intersectsPointL]
  | cons c cs ih => simp [intersectsPointL, ih, and_assoc]

theorem intersectsLineL_iff (cs : List Obj) (l : Line) :
    intersectsLineL cs l = true ↔
      ∃ c ∈ cs, c.empty = false ∧ c.rect.intersects l.rect = true ∧ c.intersectsLine l = true := by
  induction cs with
  | nil => simp [intersectsLineL]
  | cons c cs ih => simp [intersectsLineL, ih, and_assoc]

theorem intersectsPolyL_iff (cs : List Obj) (p : Poly) :
    intersectsPolyL cs p = true ↔
      ∃ c ∈ cs, c.empty = false ∧ c.rect.intersects p.rect = true ∧ c.intersectsPoly p = true := by
  induction cs with
  | nil => simp [intersectsPolyL]
  | cons c cs ih => simp [intersectsPolyL, ih, and_assoc]

/-! ### `containsAll/Some`, `intersectsParts/Some` -/

theorem containsSome_iff (cs : List Obj) (g : Obj) :
    containsSome cs g = true ↔
      ∃ c ∈ cs, c.empty = false ∧ c.rect.intersects g.rect = true ∧ c.contains g = true := by
  induction cs with
  | nil => simp [containsSome]
  | cons c cs ih => simp [containsSome, ih, and_assoc]

theorem containsAll_iff (cs gs : List Obj) :
    containsAll cs gs = true ↔ ∀ g ∈ gs, containsSome cs g = true := by
  induction gs with
  | nil => simp [containsAll]
  | cons g gs ih => simp [containsAll, ih]

theorem intersectsSome_iff (cs : List Obj) (g : Obj) :
    intersectsSome cs g = true ↔
      ∃ c ∈ cs, c.empty = false ∧ c.rect.intersects g.rect = true ∧ c.intersects g = true := by
  induction cs with
  | nil => simp [intersectsSome]
  | cons c cs ih => simp [intersectsSome, ih, and_assoc]

theorem intersectsParts_iff (cs gs : List Obj) :
    intersectsParts cs gs = true ↔ ∃ g ∈ gs, intersectsSome cs g = true := by
  induction gs with
  | nil => simp [intersectsParts]
  | cons g gs ih => simp [intersectsParts, ih]

/-! ### box algebra -/

theorem Box.containsBox_iff (r o : Box) : r.containsBox o = true ↔
    r.min.x ≤ o.min.x ∧ o.max.x ≤ r.max.x ∧ r.min.y ≤ o.min.y ∧ o.max.y ≤ r.max.y := by
  simp only [Box.containsBox, gt_iff_lt, Bool.or_eq_true, decide_eq_true_eq]
  split_ifs with h1 h2
  · simp only [false_iff]; rintro ⟨a, b, c, d⟩; rcases h1 with h | h <;> linarith
  · simp only [false_iff]; rintro ⟨a, b, c, d⟩; rcases h2 with h | h <;> linarith
  · simp only [true_iff]; push Not at h1 h2; exact ⟨h1.1, h1.2, h2.1, h2.2⟩

theorem Box.intersects_iff (r o : Box) : r.intersects o = true ↔
    r.min.x ≤ o.max.x ∧ o.min.x ≤ r.max.x ∧ r.min.y ≤ o.max.y ∧ o.min.y ≤ r.max.y := by
  simp only [Box.intersects, gt_iff_lt, Bool.or_eq_true, decide_eq_true_eq]
  split_ifs with h1 h2
  · simp only [false_iff]; rintro ⟨a, b, c, d⟩; rcases h1 with h | h <;> linarith
  · simp only [false_iff]; rintro ⟨a, b, c, d⟩; rcases h2 with h | h <;> linarith
  · simp only [true_iff]; push Not at h1 h2; exact ⟨h2.1, h2.2, h1.1, h1.2⟩

theorem Box.containsPt_iff (r : Box) (p : Pt) : r.containsPt p = true ↔
    r.min.x ≤ p.x ∧ p.x ≤ r.max.x ∧ r.min.y ≤ p.y ∧ p.y ≤ r.max.y := by
  simp [Box.containsPt, and_assoc]

theorem Box.intersects_comm (r o : Box) : r.intersects o = o.intersects r := by
  rw [Bool.eq_iff_iff, Box.intersects_iff, Box.intersects_iff]
  constructor <;> rintro ⟨a, b, c, d⟩ <;> exact ⟨b, a, d, c⟩

theorem Box.containsBox_refl (r : Box) : r.containsBox r = true := by
  rw [Box.containsBox_iff]; exact ⟨le_refl _, le_refl _, le_refl _, le_refl _⟩

theorem Box.containsBox_trans {a b c : Box} (h1 : a.containsBox b = true) (h2 : b.containsBox c = true) :
    a.containsBox c = true := by
  rw [Box.containsBox_iff] at *
  obtain ⟨p1, p2, p3, p4⟩ := h1
  obtain ⟨q1, q2, q3, q4⟩ := h2
  exact ⟨le_trans p1 q1, le_trans q2 p2, le_trans p3 q3, le_trans q4 p4⟩

/-- `Box.intersects` is monotone in both arguments w.r.t. `containsBox` (no well-formedness needed) -/
theorem Box.intersects_mono {A B a b : Box} (hA : A.containsBox a = true) (hB : B.containsBox b = true)
    (h : a.intersects b = true) : A.intersects B = true := by
  rw [Box.containsBox_iff] at hA hB
  rw [Box.intersects_iff] at *
  obtain ⟨p1, p2, p3, p4⟩ := hA
  obtain ⟨q1, q2, q3, q4⟩ := hB
  obtain ⟨h1, h2, h3, h4⟩ := h
  refine ⟨?_, ?_, ?_, ?_⟩ <;> linarith

theorem unionBox_eq (a b : Box) : unionBox a b =
    ⟨⟨min a.min.x b.min.x, min a.min.y b.min.y⟩, ⟨max a.max.x b.max.x, max a.max.y b.max.y⟩⟩ := by
  have hmin : ∀ x y : Rat, (if y < x then y else x) = min x y := by
    intro x y; split_ifs with h
    · exact (min_eq_right (le_of_lt h)).symm
    · exact (min_eq_left (not_lt.1 h)).symm
  have hmax : ∀ x y : Rat, (if y > x then y else x) = max x y := by
    intro x y; split_ifs with h
    · exact (max_eq_right (le_of_lt h)).symm
    · exact (max_eq_left (not_lt.1 h)).symm
  simp only [unionBox, hmin, hmax]

theorem unionBox_covers_left (a b : Box) : (unionBox a b).containsBox a = true := by
  rw [unionBox_eq, Box.containsBox_iff]
  exact ⟨min_le_left _ _, le_max_left _ _, min_le_left _ _, le_max_left _ _⟩

theorem unionBox_covers_right (a b : Box) : (unionBox a b).containsBox b = true := by
  rw [unionBox_eq, Box.containsBox_iff]
  exact ⟨min_le_right _ _, le_max_right _ _, min_le_right _ _, le_max_right _ _⟩

theorem unionBox_least {R a b : Box} (ha : R.containsBox a = true) (hb : R.containsBox b = true) :
    R.containsBox (unionBox a b) = true := by
  rw [unionBox_eq]
  rw [Box.containsBox_iff] at *
  obtain ⟨p1, p2, p3, p4⟩ := ha
  obtain ⟨q1, q2, q3, q4⟩ := hb
  exact ⟨le_min p1 q1, max_le p2 q2, le_min p3 q3, max_le p4 q4⟩

/-- the fold covers its seed and every folded box -/
theorem foldl_unionBox_covers (rs : List Box) (a : Box) :
    (rs.foldl unionBox a).containsBox a = true ∧ ∀ r ∈ rs, (rs.foldl unionBox a).containsBox r = true := by
  induction rs generalizing a with
  | nil => exact ⟨Box.containsBox_refl a, by intro r h; cases h⟩
  | cons r rs ih =>
    obtain ⟨h1, h2⟩ := ih (unionBox a r)
    refine ⟨Box.containsBox_trans h1 (unionBox_covers_left a r), ?_⟩
    intro r' hr'
    rcases List.mem_cons.1 hr' with rfl | hr'
    · exact Box.containsBox_trans h1 (unionBox_covers_right a r')
    · exact h2 r' hr'

/-- … and is the least such box -/
theorem foldl_unionBox_least (rs : List Box) (a R : Box) (ha : R.containsBox a = true)
    (hrs : ∀ r ∈ rs, R.containsBox r = true) : R.containsBox (rs.foldl unionBox a) = true := by
  induction rs generalizing a with
  | nil => exact ha
  | cons r rs ih =>
    exact ih (unionBox a r) (unionBox_least ha (hrs r (by simp))) (fun r' h => hrs r' (by simp [h]))

/-- … and each of its four ordinates is attained -/
theorem foldl_unionBox_attained (rs : List Box) (a : Box) :
    (∃ r ∈ a :: rs, (rs.foldl unionBox a).min.x = r.min.x) ∧
    (∃ r ∈ a :: rs, (rs.foldl unionBox a).min.y = r.min.y) ∧
    (∃ r ∈ a :: rs, (rs.foldl unionBox a).max.x = r.max.x) ∧
    (∃ r ∈ a :: rs, (rs.foldl unionBox a).max.y = r.max.y) := by
  induction rs generalizing a with
  | nil => simp
  | cons r rs ih =>
    obtain ⟨h1, h2, h3, h4⟩ := ih (unionBox a r)
    have key : ∀ (f : Box → Rat), (f (unionBox a r) = f a ∨ f (unionBox a r) = f r) →
        (∃ r' ∈ unionBox a r :: rs, f (List.foldl unionBox (unionBox a r) rs) = f r') →
        ∃ r' ∈ a :: r :: rs, f (List.foldl unionBox (unionBox a r) rs) = f r' := by
      intro f hf ⟨r', hr', e⟩
      rcases List.mem_cons.1 hr' with rfl | hr'
      · rcases hf with hf | hf
        · exact ⟨a, by simp, e.trans hf⟩
        · exact ⟨r, by simp, e.trans hf⟩
      · exact ⟨r', by simp [hr'], e⟩
    simp only [List.foldl_cons]
    refine ⟨key (fun b => b.min.x) ?_ h1, key (fun b => b.min.y) ?_ h2,
      key (fun b => b.max.x) ?_ h3, key (fun b => b.max.y) ?_ h4⟩
    · simp only [unionBox_eq]; exact min_choice _ _
    · simp only [unionBox_eq]; exact min_choice _ _
    · simp only [unionBox_eq]; exact max_choice _ _
    · simp only [unionBox_eq]; exact max_choice _ _

theorem foldRects_covers (rs : List Box) : ∀ r ∈ rs, (foldRects rs).containsBox r = true := by
  cases rs with
  | nil => intro r h; cases h
  | cons a rs =>
    intro r hr
    obtain ⟨h1, h2⟩ := foldl_unionBox_covers rs a
    rcases List.mem_cons.1 hr with rfl | hr
    · exact h1
    · exact h2 r hr

theorem foldRects_least (rs : List Box) (hne : rs ≠ []) (R : Box) (h : ∀ r ∈ rs, R.containsBox r = true) :
    R.containsBox (foldRects rs) = true := by
  cases rs with
  | nil => exact absurd rfl hne
  | cons a rs =>
    exact foldl_unionBox_least rs a R (h a (by simp)) (fun r hr => h r (by simp [hr]))

/-! ### the rectangle of a collection -/

theorem coll_rect_eq (k : CollKind) (cs : List Obj) (ex : Option Extra) (idx : Bool) :
    (Obj.coll k cs ex idx).rect = foldRects ((nonEmptyKids cs).map Obj.rect) := by
  rw [Obj.rect, collRect_getD]

theorem coll_rect_covers_child {k : CollKind} {cs : List Obj} {ex : Option Extra} {idx : Bool}
    {c : Obj} (hc : c ∈ cs) (hce : c.empty = false) :
    (Obj.coll k cs ex idx).rect.containsBox c.rect = true := by
  rw [coll_rect_eq]
  exact foldRects_covers _ _ (List.mem_map.2 ⟨c, mem_nonEmptyKids.2 ⟨hc, hce⟩, rfl⟩)

theorem coll_rect_least {k : CollKind} {cs : List Obj} {ex : Option Extra} {idx : Bool} {R : Box}
    (hne : (Obj.coll k cs ex idx).empty = false)
    (h : ∀ c ∈ cs, c.empty = false → R.containsBox c.rect = true) :
    R.containsBox (Obj.coll k cs ex idx).rect = true := by
  rw [coll_rect_eq]
  apply foldRects_least
  · rw [Obj.empty, allEmpty_false_iff] at hne
    obtain ⟨c, hc, hce⟩ := hne
    intro h0
    have : c.rect ∈ (nonEmptyKids cs).map Obj.rect := List.mem_map.2 ⟨c, mem_nonEmptyKids.2 ⟨hc, hce⟩, rfl⟩
    rw [h0] at this; cases this
  · intro r hr
    obtain ⟨c, hc, rfl⟩ := List.mem_map.1 hr
    obtain ⟨hc1, hc2⟩ := mem_nonEmptyKids.1 hc
    exact h c hc1 hc2

/-! ### emptiness and leaves -/

theorem empty_iff_leaves : ∀ x : Obj, x.empty = true ↔ ∀ g ∈ x.leaves, g.empty = true := by
  intro x
  induction x using Obj.ind with
  | hcoll k cs ex idx ih =>
    rw [Obj.empty, allEmpty_iff, Obj.leaves]
    constructor
    · intro h g hg
      obtain ⟨c, hc, hgc⟩ := (mem_leavesL cs g).1 hg
      exact (ih c hc).1 (h c hc) g hgc
    · intro h c hc
      exact (ih c hc).2 (fun g hg => h g ((mem_leavesL cs g).2 ⟨c, hc, hg⟩))
  | _ => simp [Obj.leaves]

theorem nonempty_of_leaf {x g : Obj} (hg : g ∈ x.leaves) (hge : g.empty = false) : x.empty = false := by
  cases h : x.empty with
  | false => rfl
  | true => rw [(empty_iff_leaves x).1 h g hg] at hge; cases hge

theorem exists_leaf_of_nonempty {x : Obj} (h : x.empty = false) : ∃ g ∈ x.leaves, g.empty = false := by
  by_contra hn
  push Not at hn
  have : x.empty = true := (empty_iff_leaves x).2 (fun g hg => by simpa using hn g hg)
  rw [this] at h; cases h

/-- the rectangle of `x` covers the rectangle of each of its non-empty leaves -/
theorem rect_covers_leaf : ∀ x : Obj, ∀ g ∈ x.leaves, g.empty = false → x.rect.containsBox g.rect = true := by
  intro x
  induction x using Obj.ind with
  | hcoll k cs ex idx ih =>
    intro g hg hge
    rw [Obj.leaves] at hg
    obtain ⟨c, hc, hgc⟩ := (mem_leavesL cs g).1 hg
    exact Box.containsBox_trans (coll_rect_covers_child hc (nonempty_of_leaf hgc hge)) (ih c hc g hgc hge)
  | _ =>
    intro g hg hge
    simp only [Obj.leaves, List.mem_singleton] at hg
    subst hg
    exact Box.containsBox_refl _

/-- … and is the least box doing so (for a non-empty `x`) -/
theorem rect_least_of_leaves : ∀ x : Obj, ∀ R : Box, x.empty = false →
    (∀ g ∈ x.leaves, g.empty = false → R.containsBox g.rect = true) → R.containsBox x.rect = true := by
  intro x
  induction x using Obj.ind with
  | hcoll k cs ex idx ih =>
    intro R hne h
    apply coll_rect_least hne
    intro c hc hce
    apply ih c hc R hce
    intro g hg hge
    exact h g (by rw [Obj.leaves]; exact (mem_leavesL cs g).2 ⟨c, hc, hg⟩) hge
  | _ =>
    intro R hne h
    exact h _ (by simp [Obj.leaves]) hne

/-! ### collections as receivers -/

section collrecv
variable {k : CollKind} {cs : List Obj} {ex : Option Extra} {idx : Bool}

theorem collR_intersects_iff (x : Obj) : (Obj.coll k cs ex idx).intersects x = true ↔
    ∃ c ∈ cs, c.empty = false ∧ ∃ g ∈ x.leaves, g.empty = false ∧
      c.rect.intersects g.rect = true ∧ c.intersects g = true := by
  rw [Obj.intersects, intersectsParts_iff]
  simp only [intersectsSome_iff, List.mem_filter, Bool.not_eq_true']
  constructor
  · rintro ⟨g, ⟨hg, hge⟩, c, hc, hce, hr, hi⟩
    exact ⟨c, hc, hce, g, hg, hge, hr, hi⟩
  · rintro ⟨c, hc, hce, g, hg, hge, hr, hi⟩
    exact ⟨g, ⟨hg, hge⟩, c, hc, hce, hr, hi⟩

theorem collR_contains_iff (x : Obj) : (Obj.coll k cs ex idx).contains x = true ↔
    (Obj.coll k cs ex idx).empty = false ∧ (∃ g ∈ x.leaves, g.empty = false) ∧
    ∀ g ∈ x.leaves, g.empty = false →
      ∃ c ∈ cs, c.empty = false ∧ c.rect.intersects g.rect = true ∧ c.contains g = true := by
  rw [Obj.contains]
  by_cases he : (Obj.coll k cs ex idx).empty = true
  · simp [he]
  · simp only [he, Bool.false_eq_true, if_false, Bool.and_eq_true, Bool.not_eq_true',
      List.isEmpty_eq_false_iff_exists_mem, containsAll_iff, containsSome_iff, List.mem_filter]
    simp only [true_and]
    constructor
    · rintro ⟨⟨g, hg, hge⟩, h⟩
      exact ⟨⟨g, hg, hge⟩, fun g hg hge => h g ⟨hg, hge⟩⟩
    · rintro ⟨⟨g, hg, hge⟩, h⟩
      exact ⟨⟨g, hg, hge⟩, fun g hg => h g hg.1 hg.2⟩

theorem collR_withinRect_iff (r : Box) : (Obj.coll k cs ex idx).withinRect r = true ↔
    (Obj.coll k cs ex idx).empty = false ∧
    ∀ c ∈ cs, c.empty = false ∧ c.rect.intersects r = true ∧ c.withinRect r = true := by
  rw [Obj.withinRect, withinRectL_eq]
  by_cases he : (Obj.coll k cs ex idx).empty = true
  · simp [he]
  · simp only [he, Bool.false_eq_true, if_false, within_count_iff]
    simp

theorem collR_withinPoint_iff (q : Pt) : (Obj.coll k cs ex idx).withinPoint q = true ↔
    (Obj.coll k cs ex idx).empty = false ∧
    ∀ c ∈ cs, c.empty = false ∧ c.rect.intersects q.box = true ∧ c.withinPoint q = true := by
  rw [Obj.withinPoint, withinPointL_eq]
  by_cases he : (Obj.coll k cs ex idx).empty = true
  · simp [he]
  · simp only [he, Bool.false_eq_true, if_false, within_count_iff]
    simp

theorem collR_withinLine_iff (l : Line) : (Obj.coll k cs ex idx).withinLine l = true ↔
    (Obj.coll k cs ex idx).empty = false ∧
    ∀ c ∈ cs, c.empty = false ∧ c.rect.intersects l.rect = true ∧ c.withinLine l = true := by
  rw [Obj.withinLine, withinLineL_eq]
  by_cases he : (Obj.coll k cs ex idx).empty = true
  · simp [he]
  · simp only [he, Bool.false_eq_true, if_false, within_count_iff]
    simp

theorem collR_withinPoly_iff (p : Poly) : (Obj.coll k cs ex idx).withinPoly p = true ↔
    (Obj.coll k cs ex idx).empty = false ∧
    ∀ c ∈ cs, c.empty = false ∧ c.rect.intersects p.rect = true ∧ c.withinPoly p = true := by
  rw [Obj.withinPoly, withinPolyL_eq]
  by_cases he : (Obj.coll k cs ex idx).empty = true
  · simp [he]
  · simp only [he, Bool.false_eq_true, if_false, within_count_iff]
    simp

theorem collR_intersectsRect_iff (r : Box) : (Obj.coll k cs ex idx).intersectsRect r = true ↔
    ∃ c ∈ cs, c.empty = false ∧ c.rect.intersects r = true ∧ c.intersectsRect r = true := by
  rw [Obj.intersectsRect, intersectsRectL_iff]

theorem collR_intersectsPoint_iff (q : Pt) : (Obj.coll k cs ex idx).intersectsPoint q = true ↔
    ∃ c ∈ cs, c.empty = false ∧ c.rect.intersects q.box = true ∧ c.intersectsPoint q = true := by
  rw [Obj.intersectsPoint, intersectsPointL_iff]

theorem collR_intersectsLine_iff (l : Line) : (Obj.coll k cs ex idx).intersectsLine l = true ↔
    ∃ c ∈ cs, c.empty = false ∧ c.rect.intersects l.rect = true ∧ c.intersectsLine l = true := by
  rw [Obj.intersectsLine, intersectsLineL_iff]

theorem collR_intersectsPoly_iff (p : Poly) : (Obj.coll k cs ex idx).intersectsPoly p = true ↔
    ∃ c ∈ cs, c.empty = false ∧ c.rect.intersects p.rect = true ∧ c.intersectsPoly p = true := by
  rw [Obj.intersectsPoly, intersectsPolyL_iff]

end collrecv

/-! ### atoms (the five geometry leaves and Circle) as receivers -/

/-- neither a collection nor a feature -/
def Obj.isAtom : Obj → Bool
  | .coll _ _ _ _ => false
  | .feature _ _ => false
  | _ => true

theorem isAtom_of_isLeaf {a : Obj} (h : a.isLeaf = true) : a.isAtom = true := by
  cases a <;> simp_all [Obj.isLeaf, Obj.isAtom]

/-- induction with the six atoms in one case -/
theorem Obj.ind' {P : Obj → Prop}
    (hatom : ∀ a, a.isAtom = true → P a)
    (hfeat : ∀ b ex, P b → P (.feature b ex))
    (hcoll : ∀ k cs ex idx, (∀ c ∈ cs, P c) → P (.coll k cs ex idx)) : ∀ o, P o := by
  intro o
  induction o using Obj.ind with
  | hfeat b ex ih => exact hfeat b ex ih
  | hcoll k cs ex idx ih => exact hcoll k cs ex idx ih
  | _ => exact hatom _ rfl

theorem atom_leaves {a : Obj} (ha : a.isAtom = true) : a.leaves = [a] := by
  cases a <;> simp_all [Obj.isAtom, Obj.leaves]

theorem atom_contains_feature {a : Obj} (ha : a.isAtom = true) (b : Obj) (ex : Option Extra) :
    a.contains (.feature b ex) = a.contains b := by
  cases a <;> simp_all [Obj.isAtom, Obj.contains, Obj.withinPoint, Obj.withinLine, Obj.withinPoly,
    Obj.withinRect]

theorem atom_intersects_feature {a : Obj} (ha : a.isAtom = true) (b : Obj) (ex : Option Extra) :
    a.intersects (.feature b ex) = a.intersects b := by
  cases a <;> simp_all [Obj.isAtom, Obj.intersects, Obj.intersectsPoint, Obj.intersectsLine,
    Obj.intersectsPoly, Obj.intersectsRect]

theorem atom_contains_circle {a : Obj} (ha : a.isAtom = true) (c : Pos) (r : String) :
    a.contains (.circle c r) = false := by
  cases a <;> simp_all [Obj.isAtom, Obj.contains, Obj.withinPoint, Obj.withinLine, Obj.withinPoly,
    Obj.withinRect]

theorem atom_intersects_circle {a : Obj} (ha : a.isAtom = true) (c : Pos) (r : String) :
    a.intersects (.circle c r) = false := by
  cases a <;> simp_all [Obj.isAtom, Obj.intersects, Obj.intersectsPoint, Obj.intersectsLine,
    Obj.intersectsPoly, Obj.intersectsRect]

theorem atom_contains_coll_iff {a : Obj} (ha : a.isAtom = true) (k : CollKind) (cs : List Obj)
    (ex : Option Extra) (idx : Bool) :
    a.contains (.coll k cs ex idx) = true ↔
      (Obj.coll k cs ex idx).empty = false ∧
      ∀ c ∈ cs, c.empty = false ∧ c.rect.intersects a.rect = true ∧ a.contains c = true := by
  cases a with
  | point pos e => simp only [Obj.contains, collR_withinPoint_iff, Obj.rect]
  | spoint pos => simp only [Obj.contains, collR_withinPoint_iff, Obj.rect]
  | lineString l poss e => simp only [Obj.contains, collR_withinLine_iff, Obj.rect]
  | polygon p rings e => simp only [Obj.contains, collR_withinPoly_iff, Obj.rect]
  | rectO b lo hi => simp only [Obj.contains, collR_withinRect_iff, Obj.rect]
  | circle c r =>
    simp only [Obj.contains, Bool.false_eq_true, and_false, false_iff, not_and]
    intro hne h
    rw [Obj.empty, allEmpty_false_iff] at hne
    obtain ⟨c, hc, _⟩ := hne
    exact absurd (h c hc) (by simp)
  | coll => simp [Obj.isAtom] at ha
  | feature => simp [Obj.isAtom] at ha

theorem atom_intersects_coll_iff {a : Obj} (ha : a.isAtom = true) (k : CollKind) (cs : List Obj)
    (ex : Option Extra) (idx : Bool) :
    a.intersects (.coll k cs ex idx) = true ↔
      ∃ c ∈ cs, c.empty = false ∧ c.rect.intersects a.rect = true ∧ a.intersects c = true := by
  cases a with
  | point pos e => simp only [Obj.intersects, collR_intersectsPoint_iff, Obj.rect]
  | spoint pos => simp only [Obj.intersects, collR_intersectsPoint_iff, Obj.rect]
  | lineString l poss e => simp only [Obj.intersects, collR_intersectsLine_iff, Obj.rect]
  | polygon p rings e => simp only [Obj.intersects, collR_intersectsPoly_iff, Obj.rect]
  | rectO b lo hi => simp only [Obj.intersects, collR_intersectsRect_iff, Obj.rect]
  | circle c r => simp [Obj.intersects]
  | coll => simp [Obj.isAtom] at ha
  | feature => simp [Obj.isAtom] at ha

/-! ### an empty argument is within nothing -/

theorem ringContainsRing_of_empty_right (r o : Ring) (b : Bool) (h : o.empty = true) :
    ringContainsRing r o b = false := by
  simp [ringContainsRing, h]

theorem withinPoint_of_empty : ∀ b : Obj, b.empty = true → ∀ q, b.withinPoint q = false := by
  intro b
  induction b using Obj.ind with
  | hline l poss ex => intro h q; simp only [Obj.empty] at h; simp [Obj.withinPoint, Pt.containsLine, h]
  | hpoly p rings ex => intro h q; simp only [Obj.empty] at h; simp [Obj.withinPoint, Pt.containsPoly, h]
  | hfeat b ex ih => intro h q; rw [Obj.withinPoint]; exact ih (by simpa [Obj.empty] using h) q
  | hcoll k cs ex idx ih => intro h q; rw [Obj.withinPoint, h]; rfl
  | _ => intro h; simp [Obj.empty] at h

theorem withinRect_of_empty : ∀ b : Obj, b.empty = true → ∀ q, b.withinRect q = false := by
  intro b
  induction b using Obj.ind with
  | hline l poss ex => intro h q; simp only [Obj.empty] at h; simp [Obj.withinRect, Box.containsLine, h]
  | hpoly p rings ex => intro h q; simp only [Obj.empty] at h; simp [Obj.withinRect, Box.containsPoly, h]
  | hfeat b ex ih => intro h q; rw [Obj.withinRect]; exact ih (by simpa [Obj.empty] using h) q
  | hcoll k cs ex idx ih => intro h q; rw [Obj.withinRect, h]; rfl
  | _ => intro h; simp [Obj.empty] at h

theorem withinLine_of_empty : ∀ b : Obj, b.empty = true → ∀ q, b.withinLine q = false := by
  intro b
  induction b using Obj.ind with
  | hline l poss ex =>
    intro h q; simp only [Obj.empty] at h
    simp [Obj.withinLine, Line.containsLine, Line.containsLineO, h]
  | hpoly p rings ex =>
    intro h q; simp only [Obj.empty] at h
    simp [Obj.withinLine, Line.containsPoly, h]
  | hfeat b ex ih => intro h q; rw [Obj.withinLine]; exact ih (by simpa [Obj.empty] using h) q
  | hcoll k cs ex idx ih => intro h q; rw [Obj.withinLine, h]; rfl
  | _ => intro h; simp [Obj.empty] at h

theorem withinPoly_of_empty : ∀ b : Obj, b.empty = true → ∀ q, b.withinPoly q = false := by
  intro b
  induction b using Obj.ind with
  | hline l poss ex =>
    intro h q; simp only [Obj.empty] at h
    simp only [Obj.withinPoly, Poly.containsLine]
    cases q.ext with
    | none => rfl
    | some e => simp [ringContainsLine, ringContainsRing_of_empty_right _ (.ser l) true (by simpa [Ring.empty] using h)]
  | hpoly p rings ex =>
    intro h q; simp only [Obj.empty, Poly.empty] at h
    simp only [Obj.withinPoly, Poly.containsPoly]
    cases hq : q.ext with
    | none => rfl
    | some e =>
      cases hp : p.ext with
      | none => rfl
      | some oe =>
        rw [hp] at h
        simp [ringContainsRing_of_empty_right _ oe true h]
  | hfeat b ex ih => intro h q; rw [Obj.withinPoly]; exact ih (by simpa [Obj.empty] using h) q
  | hcoll k cs ex idx ih => intro h q; rw [Obj.withinPoly, h]; rfl
  | _ => intro h; simp [Obj.empty] at h

/-! ### features and circles; nothing contains an empty object -/

theorem feature_rect (b : Obj) (ex : Option Extra) : (Obj.feature b ex).rect = b.rect := by rw [Obj.rect]
theorem feature_empty (b : Obj) (ex : Option Extra) : (Obj.feature b ex).empty = b.empty := by rw [Obj.empty]
theorem feature_contains (b : Obj) (ex : Option Extra) (x : Obj) :
    (Obj.feature b ex).contains x = b.contains x := by rw [Obj.contains]
theorem feature_intersects (b : Obj) (ex : Option Extra) (x : Obj) :
    (Obj.feature b ex).intersects x = b.intersects x := by rw [Obj.intersects]
theorem circle_contains (c : Pos) (r : String) (x : Obj) : (Obj.circle c r).contains x = false := by
  rw [Obj.contains]
theorem circle_intersects (c : Pos) (r : String) (x : Obj) : (Obj.circle c r).intersects x = false := by
  rw [Obj.intersects]

theorem isLeaf_or_circle {a : Obj} (ha : a.isAtom = true) : a.isLeaf = true ∨ ∃ c r, a = .circle c r := by
  cases a <;> simp_all [Obj.isAtom, Obj.isLeaf]

/-- whatever the leaf predicates do, nothing contains an empty object -/
theorem contains_of_empty_arg : ∀ a b : Obj, b.empty = true → a.contains b = false := by
  intro a
  induction a using Obj.ind with
  | hpoint pos ex => intro b h; rw [Obj.contains]; exact withinPoint_of_empty b h _
  | hspoint pos => intro b h; rw [Obj.contains]; exact withinPoint_of_empty b h _
  | hline l poss ex => intro b h; rw [Obj.contains]; exact withinLine_of_empty b h _
  | hpoly p rings ex => intro b h; rw [Obj.contains]; exact withinPoly_of_empty b h _
  | hrect r lo hi => intro b h; rw [Obj.contains]; exact withinRect_of_empty b h _
  | hcircle c r => intro b h; rw [Obj.contains]
  | hfeat b' ex ih => intro b h; rw [Obj.contains]; exact ih b h
  | hcoll k cs ex idx ih =>
    intro b h
    cases hc : (Obj.coll k cs ex idx).contains b with
    | false => rfl
    | true =>
      obtain ⟨_, ⟨g, hg, hge⟩, _⟩ := (collR_contains_iff b).1 hc
      rw [(empty_iff_leaves b).1 h g hg] at hge; cases hge

/-! ### the geometry atoms of an object (through collections AND features) -/

mutual
/-- the atoms reached through collections and features, in document order -/
def Obj.geoLeaves : Obj → List Obj
  | .coll _ cs _ _ => geoLeavesL cs
  | .feature b _ => b.geoLeaves
  | o => [o]
def geoLeavesL : List Obj → List Obj
  | [] => []
  | c :: cs => c.geoLeaves ++ geoLeavesL cs
end

theorem mem_geoLeavesL (cs : List Obj) (g : Obj) : g ∈ geoLeavesL cs ↔ ∃ c ∈ cs, g ∈ c.geoLeaves := by
  induction cs with
  | nil => simp [geoLeavesL]
  | cons c cs ih => simp [geoLeavesL, ih]

theorem atom_geoLeaves {a : Obj} (ha : a.isAtom = true) : a.geoLeaves = [a] := by
  cases a <;> simp_all [Obj.isAtom, Obj.geoLeaves]

theorem geoLeaves_atom : ∀ x : Obj, ∀ g ∈ x.geoLeaves, g.isAtom = true := by
  intro x
  induction x using Obj.ind' with
  | hatom a ha => intro g hg; rw [atom_geoLeaves ha] at hg; simp at hg; subst hg; exact ha
  | hfeat b ex ih => intro g hg; rw [Obj.geoLeaves] at hg; exact ih g hg
  | hcoll k cs ex idx ih =>
    intro g hg; rw [Obj.geoLeaves] at hg
    obtain ⟨c, hc, hgc⟩ := (mem_geoLeavesL cs g).1 hg
    exact ih c hc g hgc

/-- the geometry atoms of `x` are those of its `ForEach` leaves -/
theorem mem_geoLeaves_iff_leaves : ∀ x g : Obj, g ∈ x.geoLeaves ↔ ∃ l ∈ x.leaves, g ∈ l.geoLeaves := by
  intro x
  induction x using Obj.ind with
  | hcoll k cs ex idx ih =>
    intro g
    rw [Obj.geoLeaves, Obj.leaves, mem_geoLeavesL]
    constructor
    · rintro ⟨c, hc, hg⟩
      obtain ⟨l, hl, hgl⟩ := (ih c hc g).1 hg
      exact ⟨l, (mem_leavesL cs l).2 ⟨c, hc, hl⟩, hgl⟩
    · rintro ⟨l, hl, hgl⟩
      obtain ⟨c, hc, hlc⟩ := (mem_leavesL cs l).1 hl
      exact ⟨c, hc, (ih c hc g).2 ⟨l, hlc, hgl⟩⟩
  | _ => intro g; simp [Obj.leaves]


/-! ### lifting leaf-level laws to all objects

The hypotheses range over pairs of geometry leaves in a class `C` (e.g. all leaves, or only points
and well-formed rectangles); the conclusions hold for all objects whose geometry atoms (through
collections and features) are in `C`.  Circle atoms are not restricted: every planar method of a
Circle answers `false`. -/

/-- every geometry leaf (`isLeaf`) among the atoms of `x` is in the class `C` -/
def Obj.AllLeaves (C : Obj → Prop) (x : Obj) : Prop := ∀ g ∈ x.geoLeaves, g.isLeaf = true → C g

theorem allLeaves_atom {C : Obj → Prop} {a : Obj} (ha : a.isAtom = true) (h : Obj.AllLeaves C a)
    (hl : a.isLeaf = true) : C a :=
  h a (by rw [atom_geoLeaves ha]; simp) hl

theorem allLeaves_feature {C : Obj → Prop} {b : Obj} {ex : Option Extra}
    (h : Obj.AllLeaves C (.feature b ex)) : Obj.AllLeaves C b := by
  intro g hg; exact h g (by rw [Obj.geoLeaves]; exact hg)

theorem allLeaves_child {C : Obj → Prop} {k : CollKind} {cs : List Obj} {ex : Option Extra} {idx : Bool}
    (h : Obj.AllLeaves C (.coll k cs ex idx)) {c : Obj} (hc : c ∈ cs) : Obj.AllLeaves C c := by
  intro g hg; exact h g (by rw [Obj.geoLeaves]; exact (mem_geoLeavesL cs g).2 ⟨c, hc, hg⟩)

theorem allLeaves_leaf {C : Obj → Prop} {x : Obj} (h : Obj.AllLeaves C x) {l : Obj} (hl : l ∈ x.leaves) :
    Obj.AllLeaves C l := by
  intro g hg; exact h g ((mem_geoLeaves_iff_leaves x g).2 ⟨l, hl, hg⟩)

theorem allLeaves_true (x : Obj) : Obj.AllLeaves (fun _ => True) x := fun _ _ _ => trivial

section lift
variable {C : Obj → Prop}

/-- from a hypothesis on leaf×leaf pairs to atom×atom pairs (Circle answers `false` everywhere) -/
theorem atoms_of_leaves_contains {Q : Obj → Obj → Prop}
    (hleaf : ∀ a b : Obj, a.isLeaf = true → b.isLeaf = true → C a → C b → a.contains b = true → Q a b) :
    ∀ a b : Obj, a.isAtom = true → b.isAtom = true → Obj.AllLeaves C a → Obj.AllLeaves C b →
      a.contains b = true → Q a b := by
  intro a b ha hb ca cb h
  rcases isLeaf_or_circle ha with la | ⟨c, r, rfl⟩
  · rcases isLeaf_or_circle hb with lb | ⟨c, r, rfl⟩
    · exact hleaf a b la lb (allLeaves_atom ha ca la) (allLeaves_atom hb cb lb) h
    · rw [atom_contains_circle ha] at h; cases h
  · rw [circle_contains] at h; cases h

theorem atoms_of_leaves_intersects {Q : Obj → Obj → Prop}
    (hleaf : ∀ a b : Obj, a.isLeaf = true → b.isLeaf = true → C a → C b → a.intersects b = true → Q a b) :
    ∀ a b : Obj, a.isAtom = true → b.isAtom = true → Obj.AllLeaves C a → Obj.AllLeaves C b →
      a.intersects b = true → Q a b := by
  intro a b ha hb ca cb h
  rcases isLeaf_or_circle ha with la | ⟨c, r, rfl⟩
  · rcases isLeaf_or_circle hb with lb | ⟨c, r, rfl⟩
    · exact hleaf a b la lb (allLeaves_atom ha ca la) (allLeaves_atom hb cb lb) h
    · rw [atom_intersects_circle ha] at h; cases h
  · rw [circle_intersects] at h; cases h

/-- Contains ⇒ the receiver's rectangle covers the argument's -/
theorem contains_rect_covers_lift_on
    (hleaf : ∀ a b : Obj, a.isLeaf = true → b.isLeaf = true → C a → C b → a.contains b = true →
      a.rect.containsBox b.rect = true) :
    ∀ a b : Obj, Obj.AllLeaves C a → Obj.AllLeaves C b → a.contains b = true →
      a.rect.containsBox b.rect = true := by
  have hatom := atoms_of_leaves_contains hleaf
  have step1 : ∀ a : Obj, a.isAtom = true → Obj.AllLeaves C a → ∀ b : Obj, Obj.AllLeaves C b →
      a.contains b = true → a.rect.containsBox b.rect = true := by
    intro a ha ca b
    induction b using Obj.ind' with
    | hatom b hb => intro cb; exact hatom a b ha hb ca cb
    | hfeat b ex ih =>
      intro cb; rw [atom_contains_feature ha, feature_rect]; exact ih (allLeaves_feature cb)
    | hcoll k cs ex idx ih =>
      intro cb h
      obtain ⟨hne, hall⟩ := (atom_contains_coll_iff ha k cs ex idx).1 h
      exact coll_rect_least hne (fun c hc _ => ih c hc (allLeaves_child cb hc) (hall c hc).2.2)
  intro a
  induction a using Obj.ind' with
  | hatom a ha => intro b ca; exact step1 a ha ca b
  | hfeat a ex ih =>
    intro b ca; rw [feature_contains, feature_rect]; exact ih b (allLeaves_feature ca)
  | hcoll k cs ex idx ih =>
    intro b ca cb h
    obtain ⟨_, ⟨g0, hg0, hg0e⟩, hall⟩ := (collR_contains_iff b).1 h
    apply rect_least_of_leaves b _ (nonempty_of_leaf hg0 hg0e)
    intro g hg hge
    obtain ⟨c, hc, hce, _, hcg⟩ := hall g hg hge
    exact Box.containsBox_trans (coll_rect_covers_child hc hce)
      (ih c hc g (allLeaves_child ca hc) (allLeaves_leaf cb hg) hcg)

/-- Contains ⇒ Intersects -/
theorem contains_intersects_lift_on
    (hleaf : ∀ a b : Obj, a.isLeaf = true → b.isLeaf = true → C a → C b → a.contains b = true →
      a.intersects b = true) :
    ∀ a b : Obj, Obj.AllLeaves C a → Obj.AllLeaves C b → a.contains b = true →
      a.intersects b = true := by
  have hatom := atoms_of_leaves_contains hleaf
  have step1 : ∀ a : Obj, a.isAtom = true → Obj.AllLeaves C a → ∀ b : Obj, Obj.AllLeaves C b →
      a.contains b = true → a.intersects b = true := by
    intro a ha ca b
    induction b using Obj.ind' with
    | hatom b hb => intro cb; exact hatom a b ha hb ca cb
    | hfeat b ex ih =>
      intro cb; rw [atom_contains_feature ha, atom_intersects_feature ha]; exact ih (allLeaves_feature cb)
    | hcoll k cs ex idx ih =>
      intro cb h
      obtain ⟨hne, hall⟩ := (atom_contains_coll_iff ha k cs ex idx).1 h
      rw [Obj.empty, allEmpty_false_iff] at hne
      obtain ⟨c, hc, hce⟩ := hne
      exact (atom_intersects_coll_iff ha k cs ex idx).2
        ⟨c, hc, hce, (hall c hc).2.1, ih c hc (allLeaves_child cb hc) (hall c hc).2.2⟩
  intro a
  induction a using Obj.ind' with
  | hatom a ha => intro b ca; exact step1 a ha ca b
  | hfeat a ex ih =>
    intro b ca; rw [feature_contains, feature_intersects]; exact ih b (allLeaves_feature ca)
  | hcoll k cs ex idx ih =>
    intro b ca cb h
    obtain ⟨_, ⟨g, hg, hge⟩, hall⟩ := (collR_contains_iff b).1 h
    obtain ⟨c, hc, hce, hr, hcg⟩ := hall g hg hge
    exact (collR_intersects_iff b).2 ⟨c, hc, hce, g, hg, hge, hr,
      ih c hc g (allLeaves_child ca hc) (allLeaves_leaf cb hg) hcg⟩

/-- Intersects ⇒ the rectangles meet -/
theorem intersects_rects_meet_lift_on
    (hleaf : ∀ a b : Obj, a.isLeaf = true → b.isLeaf = true → C a → C b → a.intersects b = true →
      a.rect.intersects b.rect = true) :
    ∀ a b : Obj, Obj.AllLeaves C a → Obj.AllLeaves C b → a.intersects b = true →
      a.rect.intersects b.rect = true := by
  have hatom := atoms_of_leaves_intersects hleaf
  have step1 : ∀ a : Obj, a.isAtom = true → Obj.AllLeaves C a → ∀ b : Obj, Obj.AllLeaves C b →
      a.intersects b = true → a.rect.intersects b.rect = true := by
    intro a ha ca b
    induction b using Obj.ind' with
    | hatom b hb => intro cb; exact hatom a b ha hb ca cb
    | hfeat b ex ih =>
      intro cb; rw [atom_intersects_feature ha, feature_rect]; exact ih (allLeaves_feature cb)
    | hcoll k cs ex idx ih =>
      intro _ h
      obtain ⟨c, hc, hce, hr, _⟩ := (atom_intersects_coll_iff ha k cs ex idx).1 h
      rw [Box.intersects_comm] at hr
      exact Box.intersects_mono (Box.containsBox_refl _) (coll_rect_covers_child hc hce) hr
  intro a
  induction a using Obj.ind' with
  | hatom a ha => intro b ca; exact step1 a ha ca b
  | hfeat a ex ih =>
    intro b ca; rw [feature_intersects, feature_rect]; exact ih b (allLeaves_feature ca)
  | hcoll k cs ex idx ih =>
    intro b _ _ h
    obtain ⟨c, hc, hce, g, hg, hge, hr, _⟩ := (collR_intersects_iff b).1 h
    exact Box.intersects_mono (coll_rect_covers_child hc hce) (rect_covers_leaf b g hg hge) hr

/-- an empty object intersects nothing and nothing intersects it (given that for leaves) -/
theorem intersects_of_empty_lift_on
    (hempty : ∀ a b : Obj, a.isLeaf = true → b.isLeaf = true → C a → C b →
      (a.empty = true ∨ b.empty = true) → a.intersects b = false) :
    ∀ a b : Obj, Obj.AllLeaves C a → Obj.AllLeaves C b → (a.empty = true ∨ b.empty = true) →
      a.intersects b = false := by
  have hatom : ∀ a b : Obj, a.isAtom = true → b.isAtom = true → Obj.AllLeaves C a → Obj.AllLeaves C b →
      (a.empty = true ∨ b.empty = true) → a.intersects b = false := by
    intro a b ha hb ca cb h
    rcases isLeaf_or_circle ha with la | ⟨c, r, rfl⟩
    · rcases isLeaf_or_circle hb with lb | ⟨c, r, rfl⟩
      · exact hempty a b la lb (allLeaves_atom ha ca la) (allLeaves_atom hb cb lb) h
      · exact atom_intersects_circle ha _ _
    · exact circle_intersects _ _ _
  have step1 : ∀ a : Obj, a.isAtom = true → Obj.AllLeaves C a → ∀ b : Obj, Obj.AllLeaves C b →
      (a.empty = true ∨ b.empty = true) → a.intersects b = false := by
    intro a ha ca b
    induction b using Obj.ind' with
    | hatom b hb => intro cb; exact hatom a b ha hb ca cb
    | hfeat b ex ih =>
      intro cb; rw [atom_intersects_feature ha, feature_empty]; exact ih (allLeaves_feature cb)
    | hcoll k cs ex idx ih =>
      intro cb h
      cases hi : a.intersects (Obj.coll k cs ex idx) with
      | false => rfl
      | true =>
        obtain ⟨c, hc, hce, _, hac⟩ := (atom_intersects_coll_iff ha k cs ex idx).1 hi
        rcases h with h | h
        · rw [ih c hc (allLeaves_child cb hc) (Or.inl h)] at hac; cases hac
        · rw [Obj.empty, allEmpty_iff] at h
          rw [h c hc] at hce; cases hce
  intro a
  induction a using Obj.ind' with
  | hatom a ha => intro b ca; exact step1 a ha ca b
  | hfeat a ex ih =>
    intro b ca; rw [feature_intersects, feature_empty]; exact ih b (allLeaves_feature ca)
  | hcoll k cs ex idx ih =>
    intro b _ _ h
    cases hi : (Obj.coll k cs ex idx).intersects b with
    | false => rfl
    | true =>
      obtain ⟨c, hc, hce, g, hg, hge, _, _⟩ := (collR_intersects_iff b).1 hi
      rcases h with h | h
      · rw [Obj.empty, allEmpty_iff] at h
        rw [h c hc] at hce; cases hce
      · rw [(empty_iff_leaves b).1 h g hg] at hge; cases hge

/-- Under the two leaf-level laws (Intersects ⇒ rectangles meet; empty leaves intersect nothing)
    the rectangle prefilters and the Feature boundary are invisible: `a.intersects b` holds iff
    some geometry atom of `a` intersects some geometry atom of `b`. -/
theorem intersects_iff_geoLeaves_on
    (hmeet : ∀ a b : Obj, a.isLeaf = true → b.isLeaf = true → C a → C b → a.intersects b = true →
      a.rect.intersects b.rect = true)
    (hempty : ∀ a b : Obj, a.isLeaf = true → b.isLeaf = true → C a → C b →
      (a.empty = true ∨ b.empty = true) → a.intersects b = false) :
    ∀ a b : Obj, Obj.AllLeaves C a → Obj.AllLeaves C b → (a.intersects b = true ↔
      ∃ la ∈ a.geoLeaves, ∃ lb ∈ b.geoLeaves, la.intersects lb = true) := by
  have hM := intersects_rects_meet_lift_on hmeet
  have hE := intersects_of_empty_lift_on hempty
  have ne_l : ∀ a b : Obj, Obj.AllLeaves C a → Obj.AllLeaves C b → a.intersects b = true →
      a.empty = false := by
    intro a b ca cb h
    cases he : a.empty with
    | false => rfl
    | true => rw [hE a b ca cb (Or.inl he)] at h; cases h
  have ne_r : ∀ a b : Obj, Obj.AllLeaves C a → Obj.AllLeaves C b → a.intersects b = true →
      b.empty = false := by
    intro a b ca cb h
    cases he : b.empty with
    | false => rfl
    | true => rw [hE a b ca cb (Or.inr he)] at h; cases h
  have step1 : ∀ a : Obj, a.isAtom = true → Obj.AllLeaves C a → ∀ b : Obj, Obj.AllLeaves C b →
      (a.intersects b = true ↔ ∃ lb ∈ b.geoLeaves, a.intersects lb = true) := by
    intro a ha ca b
    induction b using Obj.ind' with
    | hatom b hb => intro _; rw [atom_geoLeaves hb]; simp
    | hfeat b ex ih =>
      intro cb; rw [atom_intersects_feature ha, Obj.geoLeaves]; exact ih (allLeaves_feature cb)
    | hcoll k cs ex idx ih =>
      intro cb
      rw [atom_intersects_coll_iff ha, Obj.geoLeaves]
      constructor
      · rintro ⟨c, hc, _, _, hac⟩
        obtain ⟨lb, hlb, h⟩ := (ih c hc (allLeaves_child cb hc)).1 hac
        exact ⟨lb, (mem_geoLeavesL cs lb).2 ⟨c, hc, hlb⟩, h⟩
      · rintro ⟨lb, hlb, h⟩
        obtain ⟨c, hc, hlc⟩ := (mem_geoLeavesL cs lb).1 hlb
        have cc := allLeaves_child cb hc
        have hac : a.intersects c = true := (ih c hc cc).2 ⟨lb, hlc, h⟩
        refine ⟨c, hc, ne_r a c ca cc hac, ?_, hac⟩
        rw [Box.intersects_comm]; exact hM a c ca cc hac
  intro a
  induction a using Obj.ind' with
  | hatom a ha => intro b ca cb; rw [atom_geoLeaves ha, step1 a ha ca b cb]; simp
  | hfeat a ex ih =>
    intro b ca; rw [feature_intersects, Obj.geoLeaves]; exact ih b (allLeaves_feature ca)
  | hcoll k cs ex idx ih =>
    intro b ca cb
    rw [collR_intersects_iff, Obj.geoLeaves]
    constructor
    · rintro ⟨c, hc, _, g, hg, _, _, hcg⟩
      obtain ⟨la, hla, lb, hlb, h⟩ := (ih c hc g (allLeaves_child ca hc) (allLeaves_leaf cb hg)).1 hcg
      exact ⟨la, (mem_geoLeavesL cs la).2 ⟨c, hc, hla⟩, lb,
        (mem_geoLeaves_iff_leaves b lb).2 ⟨g, hg, hlb⟩, h⟩
    · rintro ⟨la, hla, lb, hlb, h⟩
      obtain ⟨c, hc, hlac⟩ := (mem_geoLeavesL cs la).1 hla
      obtain ⟨g, hg, hlbg⟩ := (mem_geoLeaves_iff_leaves b lb).1 hlb
      have cc := allLeaves_child ca hc
      have cg := allLeaves_leaf cb hg
      have hcg : c.intersects g = true := (ih c hc g cc cg).2 ⟨la, hlac, lb, hlbg, h⟩
      exact ⟨c, hc, ne_l c g cc cg hcg, g, hg, ne_r c g cc cg hcg, hM c g cc cg hcg, hcg⟩

end lift

/-! ### Intersects without the rectangle law: symmetry needs only symmetry and emptiness on leaves -/

theorem leafDeep_geoLeaves_rect : ∀ x : Obj, x.isLeafDeep = true → ∀ l ∈ x.geoLeaves, l.rect = x.rect := by
  intro x
  induction x using Obj.ind' with
  | hatom a ha => intro _ l hl; rw [atom_geoLeaves ha] at hl; simp at hl; rw [hl]
  | hfeat b ex ih =>
    intro h l hl
    rw [feature_rect]
    exact ih (by simpa [Obj.isLeafDeep] using h) l (by rw [Obj.geoLeaves] at hl; exact hl)
  | hcoll k cs ex idx ih => intro h; simp [Obj.isLeafDeep] at h

/-- the rectangle of `x` covers the rectangle of each non-empty geometry atom of `x` (and then `x`
    is not empty) -/
theorem rect_covers_geoLeaf : ∀ x : Obj, ∀ l ∈ x.geoLeaves, l.empty = false →
    x.rect.containsBox l.rect = true ∧ x.empty = false := by
  intro x
  induction x using Obj.ind' with
  | hatom a ha =>
    intro l hl hle; rw [atom_geoLeaves ha] at hl; simp at hl; subst hl
    exact ⟨Box.containsBox_refl _, hle⟩
  | hfeat b ex ih =>
    intro l hl hle
    rw [feature_rect, feature_empty]
    exact ih l (by rw [Obj.geoLeaves] at hl; exact hl) hle
  | hcoll k cs ex idx ih =>
    intro l hl hle
    rw [Obj.geoLeaves] at hl
    obtain ⟨c, hc, hlc⟩ := (mem_geoLeavesL cs l).1 hl
    obtain ⟨h1, h2⟩ := ih c hc l hlc hle
    refine ⟨Box.containsBox_trans (coll_rect_covers_child hc h2) h1, ?_⟩
    rw [Obj.empty, allEmpty_false_iff]
    exact ⟨c, hc, h2⟩

section symm2
variable {C : Obj → Prop}

/-- Given only that empty leaves intersect nothing: `a.intersects b` holds iff some geometry atom of
    `a` intersects some geometry atom of `b` AND their rectangles meet — the rectangle condition
    being waived when no collection is involved on either side (then no `Search` ever runs). -/
theorem intersects_iff_geoLeaves_rect_on
    (hempty : ∀ a b : Obj, a.isLeaf = true → b.isLeaf = true → C a → C b →
      (a.empty = true ∨ b.empty = true) → a.intersects b = false) :
    ∀ a b : Obj, Obj.AllLeaves C a → Obj.AllLeaves C b → (a.intersects b = true ↔
      ∃ la ∈ a.geoLeaves, ∃ lb ∈ b.geoLeaves,
        (la.rect.intersects lb.rect = true ∨ (a.isLeafDeep = true ∧ b.isLeafDeep = true)) ∧
        la.intersects lb = true) := by
  have hE := intersects_of_empty_lift_on hempty
  have ne_l : ∀ a b : Obj, Obj.AllLeaves C a → Obj.AllLeaves C b → a.intersects b = true →
      a.empty = false := by
    intro a b ca cb h
    cases he : a.empty with
    | false => rfl
    | true => rw [hE a b ca cb (Or.inl he)] at h; cases h
  have ne_r : ∀ a b : Obj, Obj.AllLeaves C a → Obj.AllLeaves C b → a.intersects b = true →
      b.empty = false := by
    intro a b ca cb h
    cases he : b.empty with
    | false => rfl
    | true => rw [hE a b ca cb (Or.inr he)] at h; cases h
  -- atoms of objects over `C` are over `C`
  have catom : ∀ x : Obj, Obj.AllLeaves C x → ∀ l ∈ x.geoLeaves, Obj.AllLeaves C l := by
    intro x cx l hl g hg
    rw [atom_geoLeaves (geoLeaves_atom x l hl)] at hg; simp at hg; subst hg
    exact cx g hl
  have step1 : ∀ a : Obj, a.isAtom = true → Obj.AllLeaves C a → ∀ b : Obj, Obj.AllLeaves C b →
      (a.intersects b = true ↔ ∃ lb ∈ b.geoLeaves,
        (a.rect.intersects lb.rect = true ∨ b.isLeafDeep = true) ∧ a.intersects lb = true) := by
    intro a ha ca b
    induction b using Obj.ind' with
    | hatom b hb =>
      intro _; rw [atom_geoLeaves hb]
      have : b.isLeafDeep = true := by cases b <;> simp_all [Obj.isAtom, Obj.isLeafDeep]
      simp [this]
    | hfeat b ex ih =>
      intro cb; rw [atom_intersects_feature ha, Obj.geoLeaves, Obj.isLeafDeep]
      exact ih (allLeaves_feature cb)
    | hcoll k cs ex idx ih =>
      intro cb
      rw [atom_intersects_coll_iff ha, Obj.geoLeaves]
      simp only [Obj.isLeafDeep, Bool.false_eq_true, or_false]
      constructor
      · rintro ⟨c, hc, _, hr, hac⟩
        obtain ⟨lb, hlb, hor, h⟩ := (ih c hc (allLeaves_child cb hc)).1 hac
        refine ⟨lb, (mem_geoLeavesL cs lb).2 ⟨c, hc, hlb⟩, ?_, h⟩
        rcases hor with hor | hor
        · exact hor
        · rw [leafDeep_geoLeaves_rect c hor lb hlb, Box.intersects_comm]; exact hr
      · rintro ⟨lb, hlb, hr, h⟩
        obtain ⟨c, hc, hlc⟩ := (mem_geoLeavesL cs lb).1 hlb
        have cc := allLeaves_child cb hc
        have hac : a.intersects c = true := (ih c hc cc).2 ⟨lb, hlc, Or.inl hr, h⟩
        refine ⟨c, hc, ne_r a c ca cc hac, ?_, hac⟩
        have hlbe : lb.empty = false := ne_r a lb ca (catom c cc lb hlc) h
        rw [Box.intersects_comm]
        exact Box.intersects_mono (Box.containsBox_refl _) (rect_covers_geoLeaf c lb hlc hlbe).1 hr
  intro a
  induction a using Obj.ind' with
  | hatom a ha =>
    intro b ca cb
    have : a.isLeafDeep = true := by cases a <;> simp_all [Obj.isAtom, Obj.isLeafDeep]
    rw [atom_geoLeaves ha, step1 a ha ca b cb]; simp [this]
  | hfeat a ex ih =>
    intro b ca; rw [feature_intersects, Obj.geoLeaves, Obj.isLeafDeep]; exact ih b (allLeaves_feature ca)
  | hcoll k cs ex idx ih =>
    intro b ca cb
    rw [collR_intersects_iff, Obj.geoLeaves]
    simp only [Obj.isLeafDeep, Bool.false_eq_true, false_and, or_false]
    constructor
    · rintro ⟨c, hc, _, g, hg, _, hr, hcg⟩
      obtain ⟨la, hla, lb, hlb, hor, h⟩ :=
        (ih c hc g (allLeaves_child ca hc) (allLeaves_leaf cb hg)).1 hcg
      refine ⟨la, (mem_geoLeavesL cs la).2 ⟨c, hc, hla⟩, lb,
        (mem_geoLeaves_iff_leaves b lb).2 ⟨g, hg, hlb⟩, ?_, h⟩
      rcases hor with hor | ⟨d1, d2⟩
      · exact hor
      · rw [leafDeep_geoLeaves_rect c d1 la hla, leafDeep_geoLeaves_rect g d2 lb hlb]; exact hr
    · rintro ⟨la, hla, lb, hlb, hr, h⟩
      obtain ⟨c, hc, hlac⟩ := (mem_geoLeavesL cs la).1 hla
      obtain ⟨g, hg, hlbg⟩ := (mem_geoLeaves_iff_leaves b lb).1 hlb
      have cc := allLeaves_child ca hc
      have cg := allLeaves_leaf cb hg
      have hcg : c.intersects g = true := (ih c hc g cc cg).2 ⟨la, hlac, lb, hlbg, Or.inl hr, h⟩
      have hlae : la.empty = false := ne_l la lb (catom c cc la hlac) (catom g cg lb hlbg) h
      have hlbe : lb.empty = false := ne_r la lb (catom c cc la hlac) (catom g cg lb hlbg) h
      exact ⟨c, hc, ne_l c g cc cg hcg, g, hg, ne_r c g cc cg hcg,
        Box.intersects_mono (rect_covers_geoLeaf c la hlac hlae).1 (rect_covers_geoLeaf g lb hlbg hlbe).1 hr,
        hcg⟩

/-- symmetry of Intersects on all objects over `C`, from symmetry on leaf pairs (plus: empty leaves
    intersect nothing) -/
theorem intersects_symm_lift_on
    (hempty : ∀ a b : Obj, a.isLeaf = true → b.isLeaf = true → C a → C b →
      (a.empty = true ∨ b.empty = true) → a.intersects b = false)
    (hsym : ∀ a b : Obj, a.isLeaf = true → b.isLeaf = true → C a → C b →
      a.intersects b = b.intersects a) :
    ∀ a b : Obj, Obj.AllLeaves C a → Obj.AllLeaves C b → a.intersects b = b.intersects a := by
  have hatom : ∀ (x y la lb : Obj), Obj.AllLeaves C x → Obj.AllLeaves C y → la ∈ x.geoLeaves →
      lb ∈ y.geoLeaves → la.intersects lb = lb.intersects la := by
    intro x y la lb cx cy hla hlb
    have ha := geoLeaves_atom x la hla
    have hb := geoLeaves_atom y lb hlb
    rcases isLeaf_or_circle ha with lla | ⟨c, r, rfl⟩
    · rcases isLeaf_or_circle hb with llb | ⟨c, r, rfl⟩
      · exact hsym la lb lla llb (cx la hla lla) (cy lb hlb llb)
      · rw [atom_intersects_circle ha, circle_intersects]
    · rw [atom_intersects_circle hb, circle_intersects]
  intro a b ca cb
  rw [Bool.eq_iff_iff, intersects_iff_geoLeaves_rect_on hempty a b ca cb,
    intersects_iff_geoLeaves_rect_on hempty b a cb ca]
  constructor
  · rintro ⟨la, hla, lb, hlb, hor, h⟩
    refine ⟨lb, hlb, la, hla, ?_, by rw [← hatom a b la lb ca cb hla hlb]; exact h⟩
    rcases hor with hor | ⟨d1, d2⟩
    · left; rw [Box.intersects_comm]; exact hor
    · right; exact ⟨d2, d1⟩
  · rintro ⟨lb, hlb, la, hla, hor, h⟩
    refine ⟨la, hla, lb, hlb, ?_, by rw [hatom a b la lb ca cb hla hlb]; exact h⟩
    rcases hor with hor | ⟨d1, d2⟩
    · left; rw [Box.intersects_comm]; exact hor
    · right; exact ⟨d2, d1⟩

end symm2

/-! ### the unrestricted forms (class = all leaves) -/

theorem contains_rect_covers_lift
    (hleaf : ∀ a b : Obj, a.isLeaf = true → b.isLeaf = true → a.contains b = true →
      a.rect.containsBox b.rect = true) :
    ∀ a b : Obj, a.contains b = true → a.rect.containsBox b.rect = true :=
  fun a b => contains_rect_covers_lift_on (C := fun _ => True)
    (fun a b ha hb _ _ => hleaf a b ha hb) a b (allLeaves_true a) (allLeaves_true b)

theorem contains_intersects_lift
    (hleaf : ∀ a b : Obj, a.isLeaf = true → b.isLeaf = true → a.contains b = true →
      a.intersects b = true) :
    ∀ a b : Obj, a.contains b = true → a.intersects b = true :=
  fun a b => contains_intersects_lift_on (C := fun _ => True)
    (fun a b ha hb _ _ => hleaf a b ha hb) a b (allLeaves_true a) (allLeaves_true b)

theorem intersects_rects_meet_lift
    (hleaf : ∀ a b : Obj, a.isLeaf = true → b.isLeaf = true → a.intersects b = true →
      a.rect.intersects b.rect = true) :
    ∀ a b : Obj, a.intersects b = true → a.rect.intersects b.rect = true :=
  fun a b => intersects_rects_meet_lift_on (C := fun _ => True)
    (fun a b ha hb _ _ => hleaf a b ha hb) a b (allLeaves_true a) (allLeaves_true b)

theorem intersects_of_empty_lift
    (hempty : ∀ a b : Obj, a.isLeaf = true → b.isLeaf = true → (a.empty = true ∨ b.empty = true) →
      a.intersects b = false) :
    ∀ a b : Obj, (a.empty = true ∨ b.empty = true) → a.intersects b = false :=
  fun a b => intersects_of_empty_lift_on (C := fun _ => True)
    (fun a b ha hb _ _ => hempty a b ha hb) a b (allLeaves_true a) (allLeaves_true b)

theorem intersects_iff_geoLeaves
    (hmeet : ∀ a b : Obj, a.isLeaf = true → b.isLeaf = true → a.intersects b = true →
      a.rect.intersects b.rect = true)
    (hempty : ∀ a b : Obj, a.isLeaf = true → b.isLeaf = true → (a.empty = true ∨ b.empty = true) →
      a.intersects b = false) :
    ∀ a b : Obj, a.intersects b = true ↔
      ∃ la ∈ a.geoLeaves, ∃ lb ∈ b.geoLeaves, la.intersects lb = true :=
  fun a b => intersects_iff_geoLeaves_on (C := fun _ => True)
    (fun a b ha hb _ _ => hmeet a b ha hb) (fun a b ha hb _ _ => hempty a b ha hb)
    a b (allLeaves_true a) (allLeaves_true b)

theorem intersects_symm_lift
    (hempty : ∀ a b : Obj, a.isLeaf = true → b.isLeaf = true → (a.empty = true ∨ b.empty = true) →
      a.intersects b = false)
    (hsym : ∀ a b : Obj, a.isLeaf = true → b.isLeaf = true → a.intersects b = b.intersects a) :
    ∀ a b : Obj, a.intersects b = b.intersects a :=
  fun a b => intersects_symm_lift_on (C := fun _ => True)
    (fun a b ha hb _ _ => hempty a b ha hb)
    (fun a b ha hb _ _ => hsym a b ha hb) a b (allLeaves_true a) (allLeaves_true b)

/-! ### interchangeable atoms; empty arguments and Intersects -/

theorem containsSome_congr (cs : List Obj) (g1 g2 : Obj) (hr : g1.rect = g2.rect)
    (h : ∀ c ∈ cs, c.contains g1 = c.contains g2) : containsSome cs g1 = containsSome cs g2 := by
  induction cs with
  | nil => simp [containsSome]
  | cons c cs ih =>
    simp only [containsSome, hr, h c (by simp), ih (fun c hc => h c (by simp [hc]))]

theorem intersectsSome_congr (cs : List Obj) (g1 g2 : Obj) (hr : g1.rect = g2.rect)
    (h : ∀ c ∈ cs, c.intersects g1 = c.intersects g2) : intersectsSome cs g1 = intersectsSome cs g2 := by
  induction cs with
  | nil => simp [intersectsSome]
  | cons c cs ih =>
    simp only [intersectsSome, hr, h c (by simp), ih (fun c hc => h c (by simp [hc]))]

/-- two atoms that every Spatial method cannot tell apart are interchangeable as arguments -/
theorem atom_argument_congr {g1 g2 : Obj} (h1 : g1.isAtom = true) (h2 : g2.isAtom = true)
    (he : g1.empty = g2.empty) (hr : g1.rect = g2.rect)
    (hwr : ∀ r, g1.withinRect r = g2.withinRect r) (hwp : ∀ q, g1.withinPoint q = g2.withinPoint q)
    (hwl : ∀ l, g1.withinLine l = g2.withinLine l) (hwy : ∀ p, g1.withinPoly p = g2.withinPoly p)
    (hir : ∀ r, g1.intersectsRect r = g2.intersectsRect r)
    (hip : ∀ q, g1.intersectsPoint q = g2.intersectsPoint q)
    (hil : ∀ l, g1.intersectsLine l = g2.intersectsLine l)
    (hiy : ∀ p, g1.intersectsPoly p = g2.intersectsPoly p) :
    ∀ x : Obj, x.contains g1 = x.contains g2 ∧ x.intersects g1 = x.intersects g2 := by
  intro x
  induction x using Obj.ind with
  | hpoint pos ex => exact ⟨by rw [Obj.contains, Obj.contains]; exact hwp _, by rw [Obj.intersects, Obj.intersects]; exact hip _⟩
  | hspoint pos => exact ⟨by rw [Obj.contains, Obj.contains]; exact hwp _, by rw [Obj.intersects, Obj.intersects]; exact hip _⟩
  | hline l poss ex => exact ⟨by rw [Obj.contains, Obj.contains]; exact hwl _, by rw [Obj.intersects, Obj.intersects]; exact hil _⟩
  | hpoly p rings ex => exact ⟨by rw [Obj.contains, Obj.contains]; exact hwy _, by rw [Obj.intersects, Obj.intersects]; exact hiy _⟩
  | hrect b lo hi => exact ⟨by rw [Obj.contains, Obj.contains]; exact hwr _, by rw [Obj.intersects, Obj.intersects]; exact hir _⟩
  | hcircle c r => exact ⟨by rw [Obj.contains, Obj.contains], by rw [Obj.intersects, Obj.intersects]⟩
  | hfeat b ex ih => exact ⟨by rw [Obj.contains, Obj.contains]; exact ih.1, by rw [Obj.intersects, Obj.intersects]; exact ih.2⟩
  | hcoll k cs ex idx ih =>
    constructor
    · rw [Obj.contains, Obj.contains, atom_leaves h1, atom_leaves h2]
      simp only [List.filter_cons, List.filter_nil, he]
      cases g2.empty with
      | true => simp
      | false =>
        simp only [Bool.not_false, if_true, containsAll, Bool.and_true]
        rw [containsSome_congr cs g1 g2 hr (fun c hc => (ih c hc).1)]
        simp
    · rw [Obj.intersects, Obj.intersects, atom_leaves h1, atom_leaves h2]
      simp only [List.filter_cons, List.filter_nil, he]
      cases g2.empty with
      | true => simp
      | false =>
        simp only [Bool.not_false, if_true, intersectsParts, Bool.or_false]
        rw [intersectsSome_congr cs g1 g2 hr (fun c hc => (ih c hc).2)]
        try simp

/-! ### an empty argument intersects no line, polygon or rectangle -/

theorem ringIntersectsLine_of_empty (r : Ring) (l : Line) (b : Bool) (h : r.empty = true ∨ l.empty = true) :
    ringIntersectsLine r l b = false := by
  rcases h with h | h <;> simp [ringIntersectsLine, h]

theorem ringIntersectsRing_of_empty (r o : Ring) (b : Bool) (h : r.empty = true ∨ o.empty = true) :
    ringIntersectsRing r o b = false := by
  rcases h with h | h <;> simp [ringIntersectsRing, h]

theorem intersectsLine_of_empty : ∀ b : Obj, b.empty = true → ∀ l, b.intersectsLine l = false := by
  intro b
  induction b using Obj.ind with
  | hline m poss ex =>
    intro h l; simp only [Obj.empty] at h
    simp [Obj.intersectsLine, Line.intersectsLine, h]
  | hpoly p rings ex =>
    intro h l; simp only [Obj.empty, Poly.empty] at h
    simp only [Obj.intersectsLine, Poly.intersectsLine]
    cases hp : p.ext with
    | none => rfl
    | some e => rw [hp] at h; simp [ringIntersectsLine_of_empty e l true (Or.inl h)]
  | hfeat b ex ih => intro h l; rw [Obj.intersectsLine]; exact ih (by simpa [Obj.empty] using h) l
  | hcoll k cs ex idx ih =>
    intro h l
    cases hi : (Obj.coll k cs ex idx).intersectsLine l with
    | false => rfl
    | true =>
      obtain ⟨c, hc, hce, _⟩ := (collR_intersectsLine_iff l).1 hi
      rw [Obj.empty, allEmpty_iff] at h
      rw [h c hc] at hce; cases hce
  | _ => intro h; simp [Obj.empty] at h

theorem intersectsPoly_of_empty : ∀ b : Obj, b.empty = true → ∀ q, b.intersectsPoly q = false := by
  intro b
  induction b using Obj.ind with
  | hline m poss ex =>
    intro h q; simp only [Obj.empty] at h
    simp only [Obj.intersectsPoly, Line.intersectsPoly, Poly.intersectsLine]
    cases hq : q.ext with
    | none => rfl
    | some e => simp [ringIntersectsLine_of_empty e m true (Or.inr h)]
  | hpoly p rings ex =>
    intro h q; simp only [Obj.empty, Poly.empty] at h
    simp only [Obj.intersectsPoly, Poly.intersectsPoly]
    cases hp : p.ext with
    | none => rfl
    | some e =>
      cases hq : q.ext with
      | none => rfl
      | some oe => rw [hp] at h; simp [ringIntersectsRing_of_empty oe e true (Or.inr h)]
  | hfeat b ex ih => intro h l; rw [Obj.intersectsPoly]; exact ih (by simpa [Obj.empty] using h) l
  | hcoll k cs ex idx ih =>
    intro h l
    cases hi : (Obj.coll k cs ex idx).intersectsPoly l with
    | false => rfl
    | true =>
      obtain ⟨c, hc, hce, _⟩ := (collR_intersectsPoly_iff l).1 hi
      rw [Obj.empty, allEmpty_iff] at h
      rw [h c hc] at hce; cases hce
  | _ => intro h; simp [Obj.empty] at h

theorem intersectsRect_of_empty : ∀ b : Obj, b.empty = true → ∀ r, b.intersectsRect r = false := by
  intro b
  induction b using Obj.ind with
  | hline m poss ex =>
    intro h r; simp only [Obj.empty] at h
    simp [Obj.intersectsRect, Line.intersectsRect, Box.intersectsLine,
      ringIntersectsLine_of_empty (.bx r) m true (Or.inr h)]
  | hpoly p rings ex =>
    intro h r; simp only [Obj.empty, Poly.empty] at h
    simp only [Obj.intersectsRect, Poly.intersectsRect, Poly.intersectsPoly, Box.asPoly]
    cases hp : p.ext with
    | none => rfl
    | some e => rw [hp] at h; simp [ringIntersectsRing_of_empty (.bx r) e true (Or.inr h)]
  | hfeat b ex ih => intro h l; rw [Obj.intersectsRect]; exact ih (by simpa [Obj.empty] using h) l
  | hcoll k cs ex idx ih =>
    intro h l
    cases hi : (Obj.coll k cs ex idx).intersectsRect l with
    | false => rfl
    | true =>
      obtain ⟨c, hc, hce, _⟩ := (collR_intersectsRect_iff l).1 hi
      rw [Obj.empty, allEmpty_iff] at h
      rw [h c hc] at hce; cases hce
  | _ => intro h; simp [Obj.empty] at h

/-- a point receiver (through features) -/
def Obj.isPointDeep : Obj → Bool
  | .point _ _ => true
  | .spoint _ => true
  | .feature b _ => b.isPointDeep
  | _ => false

/-- every receiver other than a Point/SimplePoint (or a feature of one) intersects no empty object,
    whatever the leaf predicates do -/
theorem intersects_of_empty_arg : ∀ a b : Obj, a.isPointDeep = false → b.empty = true →
    a.intersects b = false := by
  intro a
  induction a using Obj.ind with
  | hpoint pos ex => intro b h; simp [Obj.isPointDeep] at h
  | hspoint pos => intro b h; simp [Obj.isPointDeep] at h
  | hline l poss ex => intro b _ h; rw [Obj.intersects]; exact intersectsLine_of_empty b h _
  | hpoly p rings ex => intro b _ h; rw [Obj.intersects]; exact intersectsPoly_of_empty b h _
  | hrect r lo hi => intro b _ h; rw [Obj.intersects]; exact intersectsRect_of_empty b h _
  | hcircle c r => intro b _ h; rw [Obj.intersects]
  | hfeat b' ex ih => intro b hp h; rw [Obj.intersects]; exact ih b (by simpa [Obj.isPointDeep] using hp) h
  | hcoll k cs ex idx ih =>
    intro b _ h
    cases hi : (Obj.coll k cs ex idx).intersects b with
    | false => rfl
    | true =>
      obtain ⟨c, hc, hce, g, hg, hge, _⟩ := (collR_intersects_iff b).1 hi
      rw [(empty_iff_leaves b).1 h g hg] at hge; cases hge

/-! ### the point index of an empty, unindexed series -/

theorem Series.numSegments_of_empty (s : Series) (h : s.empty = true) : s.numSegments = 0 := by
  simp only [Series.empty, Bool.or_eq_true, Bool.and_eq_true, decide_eq_true_eq] at h
  simp only [Series.numSegments, numSegmentsOf]
  rcases h with ⟨hc, h⟩ | h
  · simp [hc, h]
  · cases s.closed <;> simp <;> omega

theorem Line.containsPoint_of_empty (l : Line) (q : Pt) (h : l.empty = true) (hi : l.index = none) :
    l.containsPoint q = false := by
  simp [Line.containsPoint, Series.search, hi, Series.numSegments_of_empty l h, visitItems, foldUntil,
    Outcome.get]

theorem ringContainsPoint_of_empty (s : Series) (q : Pt) (b : Bool) (h : s.empty = true)
    (hi : s.index = none) : (ringContainsPoint (.ser s) q b).hit = false := by
  simp only [ringContainsPoint]
  split
  · rfl
  · simp [Ring.search, Series.search, hi, Series.numSegments_of_empty s h, visitItems, foldUntil,
      Outcome.get]

/-! ### the leaf-level laws on Point/Rect pairs -/

/-- Point, SimplePoint or Rect -/
def Obj.isPointOrRect : Obj → Bool
  | .point _ _ => true
  | .spoint _ => true
  | .rectO _ _ _ => true
  | _ => false

theorem Box.containsBox_ptbox (r : Box) (p : Pt) : r.containsBox p.box = r.containsPt p := by
  rw [Bool.eq_iff_iff, Box.containsBox_iff, Box.containsPt_iff]; simp [Pt.box]

theorem Box.intersects_ptbox (r : Box) (p : Pt) : r.intersects p.box = r.containsPt p := by
  rw [Bool.eq_iff_iff, Box.intersects_iff, Box.containsPt_iff]; rfl

theorem pr_contains_rect_covers (a b : Obj) (ha : a.isPointOrRect = true) (hb : b.isPointOrRect = true)
    (h : a.contains b = true) : a.rect.containsBox b.rect = true := by
  cases a <;> simp [Obj.isPointOrRect] at ha <;> cases b <;> simp [Obj.isPointOrRect] at hb <;>
    simp only [Obj.contains, Obj.withinPoint, Obj.withinRect, Obj.rect, Pt.containsRect,
      decide_eq_true_eq] at h ⊢ <;>
    first
      | (rw [h]; exact Box.containsBox_refl _)
      | (rw [Box.containsBox_ptbox]; exact h)
      | exact h

theorem pr_intersects_rects_meet (a b : Obj) (ha : a.isPointOrRect = true) (hb : b.isPointOrRect = true)
    (h : a.intersects b = true) : a.rect.intersects b.rect = true := by
  cases a <;> simp [Obj.isPointOrRect] at ha <;> cases b <;> simp [Obj.isPointOrRect] at hb <;>
    simp only [Obj.intersects, Obj.intersectsPoint, Obj.intersectsRect, Obj.rect,
      decide_eq_true_eq] at h ⊢ <;>
    first
      | (rw [h, Box.intersects_ptbox]; simp [Box.containsPt, Pt.box])
      | (rw [Box.intersects_ptbox]; exact h)
      | (rw [Box.intersects_comm, Box.intersects_ptbox]; exact h)
      | exact h
      | (rw [Box.intersects_comm]; exact h)

theorem pr_intersects_symm (a b : Obj) (ha : a.isPointOrRect = true) (hb : b.isPointOrRect = true) :
    a.intersects b = b.intersects a := by
  cases a <;> simp [Obj.isPointOrRect] at ha <;> cases b <;> simp [Obj.isPointOrRect] at hb <;>
    simp only [Obj.intersects, Obj.intersectsPoint, Obj.intersectsRect] <;>
    first
      | rfl
      | (rw [Bool.eq_iff_iff]; simp only [decide_eq_true_eq]; exact eq_comm)
      | exact Box.intersects_comm _ _

/-- Contains ⇒ Intersects on Point/Rect pairs; a Rect ARGUMENT must be well-formed (min ≤ max) -/
theorem pr_contains_intersects (a b : Obj) (ha : a.isPointOrRect = true) (hb : b.isPointOrRect = true)
    (hwf : b.rect.min.x ≤ b.rect.max.x ∧ b.rect.min.y ≤ b.rect.max.y)
    (h : a.contains b = true) : a.intersects b = true := by
  cases a <;> simp [Obj.isPointOrRect] at ha <;> cases b <;> simp [Obj.isPointOrRect] at hb <;>
    simp only [Obj.contains, Obj.withinPoint, Obj.withinRect, Obj.intersects, Obj.intersectsPoint,
      Obj.intersectsRect, Obj.rect, Pt.containsRect, decide_eq_true_eq] at h hwf ⊢ <;>
    first
      | exact h.symm
      | exact h
      | (rw [← h]; simp [Box.containsPt, Pt.box])
      | (rw [Box.containsBox_iff] at h; rw [Box.intersects_iff]
         obtain ⟨h1, h2, h3, h4⟩ := h
         obtain ⟨w1, w2⟩ := hwf
         refine ⟨?_, ?_, ?_, ?_⟩ <;> linarith)

/-! ### the loops as `Search` followed by any -/
theorem containsSome_eq_any (cs : List Obj) (g : Obj) :
    containsSome cs g = (searchChildren cs g.rect).any (fun c => c.contains g) := by
  induction cs with
  | nil => simp [containsSome, searchChildren]
  | cons c cs ih =>
    simp only [searchChildren] at ih
    by_cases hf : (!c.empty && c.rect.intersects g.rect) = true
    · simp [containsSome, searchChildren, hf, ih]
    · simp [containsSome, searchChildren, hf, ih]

theorem intersectsSome_eq_any (cs : List Obj) (g : Obj) :
    intersectsSome cs g = (searchChildren cs g.rect).any (fun c => c.intersects g) := by
  induction cs with
  | nil => simp [intersectsSome, searchChildren]
  | cons c cs ih =>
    simp only [searchChildren] at ih
    by_cases hf : (!c.empty && c.rect.intersects g.rect) = true
    · simp [intersectsSome, searchChildren, hf, ih]
    · simp [intersectsSome, searchChildren, hf, ih]

theorem intersectsRectL_eq_any (cs : List Obj) (r : Box) :
    intersectsRectL cs r = (searchChildren cs r).any (fun c => c.intersectsRect r) := by
  induction cs with
  | nil => simp [intersectsRectL, searchChildren]
  | cons c cs ih =>
    simp only [searchChildren] at ih
    by_cases hf : (!c.empty && c.rect.intersects r) = true
    · simp [intersectsRectL, searchChildren, hf, ih]
    · simp [intersectsRectL, searchChildren, hf, ih]
/-! ### evaluating concrete point/rect/collection/feature examples

`Obj.contains` / `Obj.intersects` are compiled by well-founded recursion, so `decide` cannot
unfold them; this macro unfolds the model by `simp` and decides the remaining rational
comparisons. -/
macro "obj_eval" : tactic => `(tactic|
  (simp (config := {decide := true}) [Obj.contains, Obj.intersects, Obj.within, Obj.leaves, leavesL,
    containsAll, containsSome, intersectsParts, intersectsSome, searchChildren,
    Obj.empty, allEmpty, Obj.rect, collRect, unionBox, zeroBox,
    Obj.withinRect, withinRectL, Obj.withinPoint, withinPointL, Obj.intersectsRect, intersectsRectL,
    Obj.intersectsPoint, intersectsPointL, Box.intersects, Box.containsPt, Box.containsBox, Pt.box,
    Pt.containsRect]))

end Geo
