package main

// kray / ksegint / kcoll: the planar kernels on arbitrary binary64 inputs (bit patterns in hex),
// compared with the kernels regenerated from the Go source and evaluated at Lean's Float.

import (
	"math"
	"strconv"

	"github.com/tidwall/geojson/geometry"
)

func kbits(s string) (float64, bool) {
	if len(s) != 16 {
		return 0, false
	}
	u, err := strconv.ParseUint(s, 16, 64)
	if err != nil {
		return 0, false
	}
	return math.Float64frombits(u), true
}

func kpts(toks []string, n int) ([]geometry.Point, bool) {
	if len(toks) != 2*n {
		return nil, false
	}
	pts := make([]geometry.Point, n)
	for i := 0; i < n; i++ {
		x, ok1 := kbits(toks[2*i])
		y, ok2 := kbits(toks[2*i+1])
		if !ok1 || !ok2 {
			return nil, false
		}
		pts[i] = geometry.Point{X: x, Y: y}
	}
	return pts, true
}

// inputs on which Segment.Raycast did not return before the D22 repair (its Nextafter loop reached
// +Inf while an end point had Y = +Inf); kept only to bias the generator towards them
func kRisky(pts []geometry.Point) bool {
	inf, top := 0, 0
	for _, p := range pts {
		if math.IsInf(p.Y, 1) {
			inf++
		} else if p.Y == math.MaxFloat64 {
			top++
		}
	}
	return inf >= 1 && inf+top >= 2
}

func kernOp(toks []string) (string, bool) {
	switch toks[0] {
	case "kray":
		pts, ok := kpts(toks[1:], 3)
		if !ok {
			return "bad-op", true
		}
		r := geometry.Segment{A: pts[0], B: pts[1]}.Raycast(pts[2])
		r2 := geometry.Segment{A: pts[1], B: pts[0]}.Raycast(pts[2])
		return b2s(r.In) + b2s(r.On) + b2s(r2.In) + b2s(r2.On), true
	case "ksegint":
		pts, ok := kpts(toks[1:], 4)
		if !ok {
			return "bad-op", true
		}
		s := geometry.Segment{A: pts[0], B: pts[1]}
		t := geometry.Segment{A: pts[2], B: pts[3]}
		return b2s(s.IntersectsSegment(t)) + b2s(t.IntersectsSegment(s)) + b2s(s.ContainsSegment(t)) + b2s(t.ContainsSegment(s)), true
	case "kcoll":
		pts, ok := kpts(toks[1:], 3)
		if !ok {
			return "bad-op", true
		}
		return b2s(geometry.Segment{A: pts[0], B: pts[1]}.CollinearPoint(pts[2])), true
	}
	return "", false
}

// kproc <closed> <n> x1 y1 ... : processPoints on arbitrary doubles (hook VerifProcessPoints),
// compared with the definition regenerated from geometry/series.go evaluated at Lean's Float
func kprocOp(toks []string) (string, bool) {
	if toks[0] != "kproc" {
		return "", false
	}
	if len(toks) < 3 {
		return "bad-op", true
	}
	n, err := strconv.Atoi(toks[2])
	if err != nil || n < 0 || (toks[1] != "0" && toks[1] != "1") {
		return "bad-op", true
	}
	pts, ok := kpts(toks[3:], n)
	if !ok {
		return "bad-op", true
	}
	convex, rect, cw := geometry.VerifProcessPoints(pts, toks[1] == "1")
	h := func(f float64) string {
		if f != f {
			return "7ff8000000000000" // Lean's Float.toBits does not keep NaN payloads
		}
		return hexF(f)
	}
	return b2s(convex) + b2s(cw) + " " + h(rect.Min.X) + " " + h(rect.Min.Y) + " " + h(rect.Max.X) + " " + h(rect.Max.Y), true
}
