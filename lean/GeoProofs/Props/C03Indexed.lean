/-
  GeoProofs.Props.C03Indexed — the un-indexed exactness results of `contains` (C03General: general
  position; C03Convex: rectangle receiver) lifted to shapes carrying ANY segment-index
  configuration (`GCfg`: vertex lists + index kind + build threshold).

  NOT HERE: the general-position lift (`poly_contains_exact_of_no_contact`, C03General): C03General
  (via Contains.PolyLine) and C03Convex (via Intersects.Shapes) each DEFINE `Geo.build`, so the
  two modules cannot be imported into one file.
  * `geom_contains_indexed_any_valid`      two index configurations of the same valid vertex lists
                                            answer the same
  * `geom_contains_exact_rect_indexed`     rectangle receiver, any valid argument
  * `…_sized`                              with `GCfg.Sized` in place of `GCfg.Exact`
-/
import GeoProofs.Props.C03Convex
import GeoProofs.Props.C04Indep

namespace Geo
namespace C03Indexed
open GL CC

/-- **the index configuration never matters on valid shapes** -/
theorem geom_contains_indexed_any_valid (a b a' b' : GCfg) (ha : a.Exact) (hb : b.Exact)
    (ha' : a'.Exact) (hb' : b'.Exact)
    (hva : (shapeOf a).valid = true) (hvb : (shapeOf b).valid = true)
    (hsa : shapeOf a' = shapeOf a) (hsb : shapeOf b' = shapeOf b) :
    a'.build.contains b'.build = a.build.contains b.build := by
  rw [geom_contains_index_indep_valid a' b' ha' hb' (hsa ▸ hva) (hsb ▸ hvb),
    geom_contains_index_indep_valid a b ha hb hva hvb,
    plain_eq_build, plain_eq_build, plain_eq_build, plain_eq_build, hsa, hsb]

/-- **the Rect receiver, every index configuration of the argument** -/
theorem geom_contains_exact_rect_indexed (r : Box) (b : GCfg) (hb : b.Exact)
    (hva : (shapeOf (.rect r)).valid = true) (hvb : (shapeOf b).valid = true) :
    (GCfg.rect r).build.contains b.build = Spec.covers (shapeOf (.rect r)) (shapeOf b) := by
  rw [geom_contains_index_indep_valid (GCfg.rect r) b trivial hb hva hvb, plain_eq_build, plain_eq_build]
  exact rect_contains_exact_valid r.min r.max (shapeOf b) hva hvb

theorem geom_contains_indexed_any_valid_sized (a b a' b' : GCfg) (ha : a.Sized) (hb : b.Sized)
    (ha' : a'.Sized) (hb' : b'.Sized)
    (hva : (shapeOf a).valid = true) (hvb : (shapeOf b).valid = true)
    (hsa : shapeOf a' = shapeOf a) (hsb : shapeOf b' = shapeOf b) :
    a'.build.contains b'.build = a.build.contains b.build :=
  geom_contains_indexed_any_valid a b a' b' ha.exact hb.exact ha'.exact hb'.exact hva hvb hsa hsb

theorem geom_contains_exact_rect_indexed_sized (r : Box) (b : GCfg) (hb : b.Sized)
    (hva : (shapeOf (.rect r)).valid = true) (hvb : (shapeOf b).valid = true) :
    (GCfg.rect r).build.contains b.build = Spec.covers (shapeOf (.rect r)) (shapeOf b) :=
  geom_contains_exact_rect_indexed r b hb.exact hva hvb

/-! ### non-vacuity -/

example (m : Nat) :
    (GCfg.rect ⟨⟨0,0⟩, ⟨4,4⟩⟩).build.contains
        (GCfg.line ⟨#[⟨1,1⟩,⟨3,2⟩], .none, m⟩).build =
      Spec.covers (.rect ⟨0,0⟩ ⟨4,4⟩) (.line [⟨1,1⟩,⟨3,2⟩]) :=
  geom_contains_exact_rect_indexed ⟨⟨0,0⟩, ⟨4,4⟩⟩ (.line ⟨#[⟨1,1⟩,⟨3,2⟩], .none, m⟩)
    (series_search_exact_kind_none _ _ _)
    (by show (Spec.Shape.rect ⟨0,0⟩ ⟨4,4⟩).valid = true
        decide +kernel)
    (by show (Spec.Shape.line [⟨1,1⟩,⟨3,2⟩]).valid = true
        decide +kernel)

end C03Indexed
end Geo
