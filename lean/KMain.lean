/-
  kgendriver: the planar kernels REGENERATED from the Go source (GeoModel/Generated/KernelGen.lean),
  evaluated at `Float`.  A separate executable so that an unrecognised rewrite of the kernels (the
  translator then emits `opaque`, and this file stops compiling) does not take the hand-written
  model's driver down with it.  Answers the ops kray / ksegint / kcoll, prints `skip` otherwise.
-/
import GeoModel.KernelGenDriver
open Geo

def kgenLine (line : String) : String :=
  let toks := (line.trimAscii.toString.splitOn " ").filter (· ≠ "")
  match toks with
  | op :: _ =>
    if op == "kray" || op == "ksegint" || op == "kcoll" then
      match kgenStep toks with
      | some s => s ++ " | - | kg:" ++ op
      | none => "bad-op"
    else "skip"
  | [] => "skip"

partial def kloop (hin : IO.FS.Stream) (hout : IO.FS.Stream) : IO Unit := do
  let line ← hin.getLine
  if line.isEmpty then return ()
  hout.putStrLn (kgenLine line)
  kloop hin hout

def main : IO Unit := do
  let hin ← IO.getStdin
  let hout ← IO.getStdout
  kloop hin hout
  hout.flush
