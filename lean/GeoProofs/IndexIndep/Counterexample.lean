/-
  GeoProofs.IndexIndep.Counterexample — `ringContainsSegment` (inclusive reading, concave ring)
  DOES depend on the visit order when a query endpoint lies on several ring edges without being
  an end of all of them.

  `ringContainsSegmentL s ord seg allow` is `ringContainsSegmentS` with the search replaced by
  the early-exit fold over `ord` filtered by the query box (a hypothetical index that stores the
  segments in the order `ord`); `ringContainsSegmentS_eq_L` links it to the model function for
  every ring whose search is that fold.  By `Series.SearchExact` alone, every permutation `ord`
  of the segment numbers is a legitimate index order.

  The ring is a "pinched" polygon: vertex (4,0) touches the interior of the edge (0,0)-(8,0).
  The query segment (4,0)-(8,6) leaves the polygon through the notch at (6,2).  In index order
  the first edge carrying (4,0) is edge 0 (not an end) and the crossing is found: `false`, site
  9.  In reversed order it is edge 4 (an end): the shared-endpoint shortcut answers `true`,
  site 7.  (`Experiment.lean`: a 17-segment subdivision of the same ring on which the REAL
  R-tree of the model produces the second order.)
-/
import GeoProofs.IndexIndep.Segment

namespace Geo

/-- visit list of a hypothetical index storing the segments in the order `ord` -/
def visitL (s : Series) (ord : List Nat) (q : Box) : List Nat :=
  ord.filter (fun i => (s.segmentAt i).box.intersects q)

/-- `ringContainsPoint` for a ring whose search with query `q` visits the list `v q` -/
def containsPointV (s : Series) (v : Box → List Nat) (p : Pt) (allow : Bool) : RingRes :=
  if !s.rect.containsPt p then ⟨false, none⟩
  else ⟨(cpFold s.segmentAt p allow (false, none) (v (stripBox (.ser s) p))).1,
        (cpFold s.segmentAt p allow (false, none) (v (stripBox (.ser s) p))).2⟩

def searchAnyV (s : Series) (v : Box → List Nat) (q : Box) (pred : Seg → Nat → Bool) : Bool :=
  (v q).any (fun i => pred (s.segmentAt i) i)

/-- `csTail` with the ∃-search as a parameter -/
def csTailG (segAt : Nat → Seg) (cw : Bool) (sa : Box → (Seg → Nat → Bool) → Bool) (seg : Seg)
    (ia ib : Option Nat) : BoolSite :=
  match ia, ib with
  | some ia, some ib =>
    if ib = ia then ⟨true, 6⟩
    else
      let rSegA := segAt ia
      let rSegB := segAt ib
      if rSegA.a = seg.a || rSegA.b = seg.a || rSegB.a = seg.a || rSegB.b = seg.a ||
         rSegA.a = seg.b || rSegA.b = seg.b || rSegB.a = seg.b || rSegB.b = seg.b then ⟨true, 7⟩
      else
        let (rSegA, rSegB) := if ib < ia then (rSegB, rSegA) else (rSegA, rSegB)
        let pts := [rSegA.a, rSegA.b, rSegB.a, rSegB.b, rSegA.a]
        let cwc := (pts.zip pts.tail).foldl (fun acc (ab : Pt × Pt) =>
          acc + (ab.2.x - ab.1.x) * (ab.2.y + ab.1.y)) (0 : Rat)
        let clockwise := decide (cwc > 0)
        if clockwise != cw then ⟨false, 8⟩
        else
          let inter := sa seg.box (fun seg2 _ =>
            seg.intersects seg2 && !(seg2.raycast seg.a).on && !(seg2.raycast seg.b).on)
          ⟨!inter, 9⟩
  | some _, none =>
    let inter := sa seg.box (fun seg2 _ => seg.intersects seg2 && !(seg2.raycast seg.a).on)
    ⟨!inter, 10⟩
  | none, some _ =>
    let inter := sa seg.box (fun seg2 _ => seg.intersects seg2 && !(seg2.raycast seg.b).on)
    ⟨!inter, 11⟩
  | none, none =>
    let inter := sa seg.box (fun seg2 _ =>
      seg.intersects seg2 && !(seg.raycast seg2.a).on && !(seg.raycast seg2.b).on)
    ⟨!inter, 12⟩

theorem csTail_eq_G (ring : Ring) (seg : Seg) (ia ib : Option Nat) :
    csTail ring seg ia ib = csTailG ring.segmentAt ring.clockwise ring.searchAny seg ia ib := rfl

/-- `ringContainsSegmentS` for a ring whose search with query `q` visits the list `v q` -/
def ringContainsSegmentV (s : Series) (v : Box → List Nat) (seg : Seg) (allowOnEdge : Bool) : BoolSite :=
  if !s.rect.containsPt seg.a || !s.rect.containsPt seg.b then ⟨false, 1⟩
  else if !(containsPointV s v seg.a allowOnEdge).hit then ⟨false, 2⟩
  else if seg.b = seg.a then ⟨true, 3⟩
  else if !(containsPointV s v seg.b allowOnEdge).hit then ⟨false, 4⟩
  else if s.convex then ⟨true, 5⟩
  else if allowOnEdge then
    csTailG s.segmentAt s.clockwise (searchAnyV s v) seg (containsPointV s v seg.a allowOnEdge).idx
      (containsPointV s v seg.b allowOnEdge).idx
  else ⟨!(searchAnyV s v seg.box (fun seg2 _ => seg.intersects seg2)), 13⟩

/-- **link**: on every series whose search is the early-exit fold over `v q`, the model function
    IS the list-level function -/
theorem ringContainsSegmentS_eq_V (s : Series) (v : Box → List Nat)
    (h : ∀ q, (Ring.ser s).FoldOn q (v q)) (seg : Seg) (allowOnEdge : Bool) :
    ringContainsSegmentS (.ser s) seg allowOnEdge = ringContainsSegmentV s v seg allowOnEdge := by
  have hp : ∀ p allow, ringContainsPoint (.ser s) p allow = containsPointV s v p allow :=
    fun p allow => (h _).containsPoint allow
  have hsa : (Ring.ser s).searchAny = searchAnyV s v := by
    funext q pred
    exact (h q).searchAny pred
  rw [ringContainsSegmentS_eq, csTail_eq_G, hp, hp, hsa]
  rfl

/-- the instance "a hypothetical index that stores the segments in the order `ord`" -/
def containsPointL (s : Series) (ord : List Nat) (p : Pt) (allow : Bool) : RingRes :=
  containsPointV s (visitL s ord) p allow

def ringContainsSegmentL (s : Series) (ord : List Nat) (seg : Seg) (allowOnEdge : Bool) : BoolSite :=
  ringContainsSegmentV s (visitL s ord) seg allowOnEdge

theorem ringContainsSegmentS_eq_L (s : Series) (ord : List Nat)
    (h : ∀ q, (Ring.ser s).FoldOn q (visitL s ord q)) (seg : Seg) (allowOnEdge : Bool) :
    ringContainsSegmentS (.ser s) seg allowOnEdge = ringContainsSegmentL s ord seg allowOnEdge :=
  ringContainsSegmentS_eq_V s (visitL s ord) h seg allowOnEdge

/-- a permutation of the segment numbers yields, for every query, a permutation of the
    brute-force filter: as far as `Series.SearchExact` says, a legitimate index order -/
theorem visitL_perm (s : Series) (ord : List Nat) (h : List.Perm ord (List.range s.numSegments))
    (q : Box) :
    List.Perm (visitL s ord q)
      ((List.range s.numSegments).filter (fun i => (s.segmentAt i).box.intersects q)) :=
  h.filter _

/-- the un-indexed series is the instance `ord = [0, …, n-1]` -/
theorem foldOn_none (s : Series) (hidx : s.index = none) (q : Box) :
    (Ring.ser s).FoldOn q (visitL s (List.range s.numSegments) q) := by
  refine ⟨fun i hi => List.mem_range.1 (List.mem_filter.1 hi).1, fun f st => ?_⟩
  rw [ring_search_ser, series_search_exact_none s hidx]
  rfl

/-! ### the counterexample -/

/-- pinched polygon: the vertex (4,0) touches the interior of the edge (0,0)-(8,0);
    concave at (6,2) -/
def pinched : Array Pt := #[⟨0,0⟩, ⟨8,0⟩, ⟨8,8⟩, ⟨6,2⟩, ⟨4,0⟩, ⟨0,8⟩]

def pinchedSeg : Seg := ⟨⟨4,0⟩, ⟨8,6⟩⟩

/-- **order dependence** (kernel-checked): the same ring, the same query, two visit orders that
    are both permutations of the segment numbers; the answers differ.  Index order: `false`
    (the correct answer, the segment leaves the polygon), site 9; reversed order: `true`, site 7
    (shared-endpoint shortcut). -/
theorem ringContainsSegment_order_dependent_counterexample :
    List.Perm [5, 4, 3, 2, 1, 0] (List.range (mkSeries pinched true .none 0).numSegments) ∧
    ringContainsSegmentL (mkSeries pinched true .none 0) (List.range 6) pinchedSeg true = ⟨false, 9⟩ ∧
    ringContainsSegmentL (mkSeries pinched true .none 0) [5, 4, 3, 2, 1, 0] pinchedSeg true = ⟨true, 7⟩ ∧
    -- the edge reported for the endpoint (4,0): edge 0 (interior point) / edge 4 (end point)
    (containsPointL (mkSeries pinched true .none 0) (List.range 6) ⟨4,0⟩ true).idx = some 0 ∧
    (containsPointL (mkSeries pinched true .none 0) [5, 4, 3, 2, 1, 0] ⟨4,0⟩ true).idx = some 4 := by
  refine ⟨?_, ?_, ?_, ?_, ?_⟩
  · decide
  all_goals decide +kernel

/-- the first answer is the answer of the model on the un-indexed ring -/
theorem pinched_unindexed :
    ringContainsSegmentS (.ser (mkSeries pinched true .none 0)) pinchedSeg true = ⟨false, 9⟩ := by
  rw [ringContainsSegmentS_eq_L _ (List.range 6) (fun q => foldOn_none _ rfl q)]
  exact ringContainsSegment_order_dependent_counterexample.2.1

/-- consequently `Ring.Sim` (= what `SearchExact` gives) does NOT imply equal answers: any ring
    with the data of `pinched` whose search visits the segments in reversed order answers
    `true` where the un-indexed ring answers `false` -/
theorem ringContainsSegment_not_sim_invariant (s : Series)
    (hs : s.Same (mkSeries pinched true .none 0))
    (hv : ∀ q, (Ring.ser s).FoldOn q (visitL s [5, 4, 3, 2, 1, 0] q)) :
    (Ring.ser s).Sim (.ser (mkSeries pinched true .none 0)) ∧
    ringContainsSegment (.ser s) pinchedSeg true = true ∧
    ringContainsSegment (.ser (mkSeries pinched true .none 0)) pinchedSeg true = false := by
  have hn : s.numSegments = 6 := hs.numSegments
  refine ⟨⟨hs.data, fun q => ?_⟩, ?_, ?_⟩
  · refine ⟨_, _, ?_, hv q, foldOn_none _ rfl q⟩
    unfold visitL
    rw [hs.segmentAt]
    exact List.Perm.filter _ (by decide)
  · unfold ringContainsSegment
    rw [ringContainsSegmentS_eq_L s _ hv]
    have : ringContainsSegmentL s [5, 4, 3, 2, 1, 0] pinchedSeg true =
        ringContainsSegmentL (mkSeries pinched true .none 0) [5, 4, 3, 2, 1, 0] pinchedSeg true := by
      unfold ringContainsSegmentL ringContainsSegmentV containsPointV searchAnyV visitL stripBox Ring.rect
      simp only [hs.segmentAt, hs.2.2.2.2, hs.2.2.1, hs.2.2.2.1]
    rw [this, ringContainsSegment_order_dependent_counterexample.2.2.1]
  · unfold ringContainsSegment
    rw [pinched_unindexed]

end Geo
