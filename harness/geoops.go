package main

import (
	"strings"
	"encoding/json"
	"fmt"
	"math"
	"strconv"

	"github.com/tidwall/geojson"
	"github.com/tidwall/geojson/geo"
	"github.com/tidwall/geojson/geometry"
)

// implementation-side numeric oracles for the spherical properties C13–C15, and method
// totality (C05). The reference distance is independent of the haversine formulas: the
// angle between 3-D unit vectors via atan2(|a×b|, a·b), well conditioned at every range.

const earthR = 6371e3

func unitVec(lat, lon float64) [3]float64 {
	φ, λ := lat*math.Pi/180, lon*math.Pi/180
	return [3]float64{math.Cos(φ) * math.Cos(λ), math.Cos(φ) * math.Sin(λ), math.Sin(φ)}
}

func refDist(latA, lonA, latB, lonB float64) float64 {
	a, b := unitVec(latA, lonA), unitVec(latB, lonB)
	cx := a[1]*b[2] - a[2]*b[1]
	cy := a[2]*b[0] - a[0]*b[2]
	cz := a[0]*b[1] - a[1]*b[0]
	return earthR * math.Atan2(math.Sqrt(cx*cx+cy*cy+cz*cz), a[0]*b[0]+a[1]*b[1]+a[2]*b[2])
}

func tolDist(d float64) float64 { return math.Max(1e-3, 1e-6*d) }

func randLatLon(r *rng) (float64, float64) {
	switch r.intn(8) {
	case 0:
		return 90 - float64(r.intn(1000))*1e-6, float64(r.rangeI(-1800000, 1800000)) / 10000
	case 1:
		return -90 + float64(r.intn(1000))*1e-6, float64(r.rangeI(-1800000, 1800000)) / 10000
	case 2:
		return float64(r.rangeI(-890000, 890000)) / 10000, 180 - float64(r.intn(1000))*1e-5
	case 3:
		return float64(r.rangeI(-890000, 890000)) / 10000, -180 + float64(r.intn(1000))*1e-5
	case 4:
		return 0, 0
	}
	return float64(r.rangeI(-900000, 900000)) / 10000, float64(r.rangeI(-1800000, 1800000)) / 10000
}

func randRadius(r *rng) float64 {
	switch r.intn(7) {
	case 0:
		return float64(r.rangeI(1, 1000)) / 1000 // sub-metre .. metre
	case 1:
		return float64(r.rangeI(1, 1000))
	case 2:
		return float64(r.rangeI(1, 1000)) * 1000
	case 3:
		return float64(r.rangeI(1000, 20000)) * 1000
	case 4:
		return math.Pi * earthR * float64(r.rangeI(900, 1000)) / 1000
	case 5:
		return 0
	}
	return math.Exp(float64(r.rangeI(0, 16000)) / 1000)
}

// C15
func xgeo15(seed uint64) string {
	r := &rng{s: seed}
	latA, lonA := randLatLon(r)
	latB, lonB := randLatLon(r)
	if r.coin(0.2) {
		// exactly antipodal pairs on the whole-degree and on the decimal lattice: the haversine may round to 1 + 2^-52
		if r.coin(0.5) {
			latA, lonA = float64(r.rangeI(-89, 89)), float64(r.rangeI(-179, 179))
		} else {
			latA, lonA = float64(r.rangeI(-8900, 8900))/100, float64(r.rangeI(-17900, 17900))/100
		}
		latB = -latA
		lonB = lonA + 180
		if lonB > 180 {
			lonB = lonA - 180
		}
	}
	d := geo.DistanceTo(latA, lonA, latB, lonB)
	d2 := geo.DistanceTo(latB, lonB, latA, lonA)
	if d != d2 && math.Abs(d-d2) > tolDist(d) {
		return fmt.Sprintf("FAIL distance not symmetric %v %v", d, d2)
	}
	if !(d >= 0) || d > math.Pi*earthR*(1+1e-12) {
		return fmt.Sprintf("FAIL distance out of range %v", d)
	}
	if z := geo.DistanceTo(latA, lonA, latA, lonA); z != 0 {
		return fmt.Sprintf("FAIL distance to self %v", z)
	}
	if ref := refDist(latA, lonA, latB, lonB); math.Abs(d-ref) > tolDist(ref) && ref < math.Pi*earthR*0.999 {
		return fmt.Sprintf("FAIL distance %v vs reference %v at %v,%v %v,%v", d, ref, latA, lonA, latB, lonB)
	}
	// destination
	dist := randRadius(r)
	if dist >= math.Pi*earthR {
		dist = math.Pi * earthR * 0.98
	}
	brg := float64(r.intn(3600000)) / 10000
	lat2, lon2 := geo.DestinationPoint(latA, lonA, dist, brg)
	if !(lat2 >= -90 && lat2 <= 90) || !(lon2 >= -180 && lon2 <= 180) {
		return fmt.Sprintf("FAIL destination out of range %v,%v", lat2, lon2)
	}
	back := geo.DistanceTo(latA, lonA, lat2, lon2)
	if math.Abs(back-dist) > tolDist(dist) {
		return fmt.Sprintf("FAIL distance back %v vs %v from %v,%v bearing %v", back, dist, latA, lonA, brg)
	}
	// bearing round trip: d >= 1 m, away from the poles and the antipode
	if dist >= 1 && math.Abs(latA) < 89 && math.Abs(lat2) < 89.9 && dist < math.Pi*earthR*0.99 {
		b := geo.BearingTo(latA, lonA, lat2, lon2)
		diff := math.Abs(math.Mod(b-brg+540, 360) - 180)
		// conditioning: a perturbation of the end point by the position tolerance changes the
		// bearing by about tol/(R sin(d/R)) radians
		cond := (tolDist(dist) / (earthR * math.Abs(math.Sin(dist/earthR)))) * 180 / math.Pi
		if diff > 1e-6+cond {
			return fmt.Sprintf("FAIL bearing %v vs %v (dist %v from %v,%v)", b, brg, dist, latA, lonA)
		}
	}
	// haversine strictly increasing in distance, conversions inverse
	m1 := randRadius(r)
	m2 := m1 * (1 + float64(r.rangeI(1, 1000))*1e-6)
	if m2 < math.Pi*earthR && m1 > 0 && m2-m1 > 1e-3 {
		if !(geo.DistanceToHaversine(m1) < geo.DistanceToHaversine(m2)) {
			return fmt.Sprintf("FAIL haversine not increasing at %v %v", m1, m2)
		}
	}
	if m1 < math.Pi*earthR*0.999 {
		if rt := geo.DistanceFromHaversine(geo.DistanceToHaversine(m1)); math.Abs(rt-m1) > tolDist(m1) {
			return fmt.Sprintf("FAIL haversine conversion round trip %v -> %v", m1, rt)
		}
	}
	big := m1 * float64(r.rangeI(1, 50))
	n1 := geo.NormalizeDistance(big)
	if n2 := geo.NormalizeDistance(n1); n2 != n1 {
		return fmt.Sprintf("FAIL normalise not idempotent %v %v", n1, n2)
	}
	if h1, h2 := geo.DistanceToHaversine(big), geo.DistanceToHaversine(n1); math.Abs(h1-h2) > 1e-9 {
		return fmt.Sprintf("FAIL normalise changes haversine %v %v", h1, h2)
	}
	// semicircles: within 2 cm on the ground (180/2^31 degrees is 9.3 mm)
	for _, deg := range []float64{latA, lonA, latB, lonB} {
		if deg >= 180 {
			continue // 180° itself does not fit int32 semicircles
		}
		back := geo.SemiToDegs(geo.DegsToSemi(deg))
		if math.Abs(back-deg)*math.Pi/180*earthR > 0.02 {
			return fmt.Sprintf("FAIL semicircle round trip %v -> %v", deg, back)
		}
	}
	return "ok"
}

// C14
func xgeo14(seed uint64) string {
	r := &rng{s: seed}
	lat, lon := randLatLon(r)
	meters := randRadius(r)
	if meters > math.Pi*earthR {
		meters = math.Pi * earthR
	}
	minLat, minLon, maxLat, maxLon := geo.RectFromCenter(lat, lon, meters)
	for _, v := range []float64{minLat, minLon, maxLat, maxLon} {
		if math.IsNaN(v) {
			return fmt.Sprintf("FAIL NaN in rect for %v,%v r=%v", lat, lon, meters)
		}
	}
	if minLat < -90 || maxLat > 90 || minLon < -180 || maxLon > 180 {
		return fmt.Sprintf("FAIL rect outside world bounds %v %v %v %v", minLat, minLon, maxLat, maxLon)
	}
	if meters < 1 {
		return "ok" // coverage is claimed for radii of at least one metre
	}
	// one centimetre on the ground, in degrees (latitude; longitude scaled by cos lat)
	epsLat := 0.01 / earthR * 180 / math.Pi
	full := minLon <= -180 && maxLon >= 180
	for k := 0; k < 64; k++ {
		brg := float64(k) * 360 / 64
		if k%4 == 1 {
			brg = float64(r.intn(3600000)) / 10000
		}
		for _, frac := range []float64{1, 0.999999, 0.5, float64(r.intn(1000)) / 1000} {
			plat, plon := geo.DestinationPoint(lat, lon, meters*frac, brg)
			if refDist(lat, lon, plat, plon) > meters+1e-3 {
				continue // the sampler overshot: not a point of the disc
			}
			if plat < minLat-epsLat || plat > maxLat+epsLat {
				return fmt.Sprintf("FAIL latitude %v outside [%v,%v] centre %v,%v r=%v bearing %v", plat, minLat, maxLat, lat, lon, meters, brg)
			}
			if !full {
				epsLon := epsLat / math.Max(math.Cos(plat*math.Pi/180), 1e-9)
				if plon < minLon-epsLon || plon > maxLon+epsLon {
					return fmt.Sprintf("FAIL longitude %v outside [%v,%v] centre %v,%v r=%v bearing %v", plon, minLon, maxLon, lat, lon, meters, brg)
				}
			}
		}
	}
	// reaches a pole or crosses the antimeridian => full longitude range
	ang := meters / earthR * 180 / math.Pi
	if (lat+ang > 90+1e-9 || lat-ang < -90-1e-9) && !full {
		return fmt.Sprintf("FAIL disc reaches a pole but longitudes are [%v,%v]", minLon, maxLon)
	}
	return "ok"
}

// C13
func xgeo13(seed uint64) string {
	r := &rng{s: seed}
	lat, lon := randLatLon(r)
	meters := randRadius(r)
	if meters > math.Pi*earthR {
		meters = math.Pi * earthR * 0.999
	}
	c := geojson.NewCircle(geometry.Point{X: lon, Y: lat}, meters, 64)
	tol := math.Max(1e-3, 1e-8*meters)
	for k := 0; k < 24; k++ {
		brg := float64(r.intn(3600000)) / 10000
		e := math.Pow(10, -float64(r.rangeI(1, 9)))
		for _, f := range []float64{1 - e, 1 + e, 0.5, 1.5, 0} {
			d := meters * f
			if d >= math.Pi*earthR {
				continue
			}
			plat, plon := geo.DestinationPoint(lat, lon, d, brg)
			p := geometry.Point{X: plon, Y: plat}
			ref := refDist(lat, lon, plat, plon)
			pt, sp := geojson.NewPoint(p), geojson.NewSimplePoint(p)
			a1, a2, a3, a4 := c.Contains(pt), c.Contains(sp), c.Intersects(pt), c.Intersects(sp)
			a5, a6, a7, a8 := pt.Within(c), sp.Within(c), pt.Intersects(c), sp.Intersects(c)
			if !(a1 == a2 && a2 == a3 && a3 == a4 && a4 == a5 && a5 == a6 && a6 == a7 && a7 == a8) {
				return fmt.Sprintf("FAIL point kinds / operand order disagree at %v,%v r=%v probe %v: %v", lat, lon, meters, p, []bool{a1, a2, a3, a4, a5, a6, a7, a8})
			}
			if ref <= meters-tol && !a1 {
				return fmt.Sprintf("FAIL point at %v m not contained, radius %v (centre %v,%v)", ref, meters, lat, lon)
			}
			if ref >= meters+tol && a1 {
				return fmt.Sprintf("FAIL point at %v m contained, radius %v (centre %v,%v)", ref, meters, lat, lon)
			}
			// monotone in the radius
			if a1 {
				bigger := geojson.NewCircle(geometry.Point{X: lon, Y: lat}, math.Min(meters*1.5+1, math.Pi*earthR*0.9999), 64)
				if meters*1.5+1 < math.Pi*earthR && !bigger.Contains(pt) {
					return fmt.Sprintf("FAIL containment not monotone in radius at r=%v", meters)
				}
			}
		}
	}
	// circle-circle
	lat2, lon2 := geo.DestinationPoint(lat, lon, meters*float64(r.intn(3000))/1000, float64(r.intn(360)))
	m2 := randRadius(r)
	if m2 > math.Pi*earthR {
		m2 = 1000
	}
	if r.coin(0.15) { // two large circles
		m2 = math.Pi * earthR * float64(r.rangeI(500, 999)) / 1000
	}
	c2 := geojson.NewCircle(geometry.Point{X: lon2, Y: lat2}, m2, 64)
	dd := refDist(lat, lon, lat2, lon2)
	ctol := math.Max(1e-3, 1e-6*(dd+meters+m2))
	if c.Contains(c2) && dd+m2 > meters+ctol {
		return fmt.Sprintf("FAIL circle contains circle with d+rB=%v > rA=%v", dd+m2, meters)
	}
	if meters+m2 >= math.Pi*earthR*1.001 && meters <= math.Pi*earthR && m2 <= math.Pi*earthR {
		// every centre distance is at most half the circumference, hence at most the sum of the radii
		if !c.Intersects(c2) || !c2.Intersects(c) {
			return fmt.Sprintf("FAIL circles whose radii sum to %v (more than half the circumference) do not intersect, d=%v", meters+m2, dd)
		}
	}
	if dd+meters+m2 < math.Pi*earthR {
		i1, i2 := c.Intersects(c2), c2.Intersects(c)
		if dd < meters+m2-ctol && !(i1 && i2) {
			return fmt.Sprintf("FAIL circles within reach do not intersect d=%v rA+rB=%v", dd, meters+m2)
		}
		if dd > meters+m2+ctol && (i1 || i2) {
			return fmt.Sprintf("FAIL distant circles intersect d=%v rA+rB=%v", dd, meters+m2)
		}
	}
	// JSON round trip
	j := c.JSON()
	if !json.Valid([]byte(j)) {
		return "FAIL circle JSON invalid"
	}
	o2, err := geojson.Parse(j, nil)
	if err != nil {
		return "FAIL circle JSON rejected: " + err.Error()
	}
	cc, ok := o2.(*geojson.Circle)
	if !ok || cc.Center() != c.Center() || cc.Meters() != c.Meters() {
		return fmt.Sprintf("FAIL circle JSON round trip %v", j)
	}
	return "ok"
}

// polygon approximation: closed ring, rect contains centre, every step count
func xcirclepoly(toks []string) string {
	steps, _ := strconv.Atoi(toks[1])
	seed, _ := strconv.ParseUint(toks[2], 10, 64)
	r := &rng{s: seed}
	lat, lon := float64(r.rangeI(-800000, 800000))/10000, float64(r.rangeI(-1700000, 1700000))/10000
	meters := []float64{1, 1000, 50000, 0, -5}[r.intn(5)]
	c := geojson.NewCircle(geometry.Point{X: lon, Y: lat}, meters, steps)
	pg, ok := c.Polygon().(*geojson.Polygon)
	if !ok {
		return "FAIL polygon approximation is not a Polygon"
	}
	ext := pg.Base().Exterior
	n := ext.NumPoints()
	if n < 4 || ext.PointAt(0) != ext.PointAt(n-1) {
		return fmt.Sprintf("FAIL polygon approximation not a closed ring (steps=%d, %d points)", steps, n)
	}
	if !pg.Rect().ContainsPoint(geometry.Point{X: lon, Y: lat}) {
		return fmt.Sprintf("FAIL polygon rect does not contain the centre (steps=%d)", steps)
	}
	return "ok"
}

// C05: every query method on a pair, outcome only
func xmethods(toks []string) string {
	a, ok := oenv[toks[1]]
	b, ok2 := oenv[toks[2]]
	if !ok || !ok2 {
		return "ok"
	}
	_ = a.Empty()
	_ = a.Valid()
	_ = a.Rect()
	_ = a.Center()
	_ = a.Contains(b)
	_ = a.Within(b)
	_ = a.Intersects(b)
	_ = a.Distance(b)
	_ = a.NumPoints()
	_ = a.JSON()
	_ = a.String()
	_, _ = a.MarshalJSON()
	_ = a.Members()
	a.ForEach(func(g geojson.Object) bool { return true })
	sp := a.Spatial()
	r := b.Rect()
	_ = sp.WithinRect(r)
	_ = sp.IntersectsRect(r)
	_ = sp.WithinPoint(r.Min)
	_ = sp.IntersectsPoint(r.Min)
	_ = sp.DistanceRect(r)
	_ = sp.DistancePoint(r.Min)
	line := geometry.NewLine([]geometry.Point{r.Min, r.Max}, nil)
	_ = sp.WithinLine(line)
	_ = sp.IntersectsLine(line)
	_ = sp.DistanceLine(line)
	poly := geometry.NewPoly([]geometry.Point{r.Min, {X: r.Max.X, Y: r.Min.Y}, r.Max, r.Min}, nil, nil)
	_ = sp.WithinPoly(poly)
	_ = sp.IntersectsPoly(poly)
	_ = sp.DistancePoly(poly)
	if c, ok := a.(geojson.Collection); ok {
		c.Search(r, func(geojson.Object) bool { return true })
		_ = c.Children()
		_ = c.Indexed()
	}
	c := geojson.NewCircle(r.Min, 1000, 12)
	_ = c.Contains(a)
	_ = c.Intersects(a)
	_ = a.Intersects(c)
	_ = a.Contains(c)
	_ = a.Within(c)
	return "ok"
}

// C09 on circles (implementation-only): within = contains swapped, intersects symmetric
func xcircle(seed uint64) string {
	r := &rng{s: seed}
	lat, lon := float64(r.rangeI(-600000, 600000))/10000, float64(r.rangeI(-1700000, 1700000))/10000
	c := geojson.NewCircle(geometry.Point{X: lon, Y: lat}, float64(r.rangeI(1, 100000)), 64)
	mk := func() geojson.Object {
		plat, plon := geo.DestinationPoint(lat, lon, float64(r.rangeI(0, 200000)), float64(r.intn(360)))
		p := geometry.Point{X: plon, Y: plat}
		switch r.intn(6) {
		case 0:
			return geojson.NewPoint(p)
		case 1:
			return geojson.NewSimplePoint(p)
		case 2:
			return geojson.NewRect(geometry.Rect{Min: p, Max: geometry.Point{X: p.X + 0.1, Y: p.Y + 0.1}})
		case 3:
			return geojson.NewLineString(geometry.NewLine([]geometry.Point{p, {X: p.X + 0.3, Y: p.Y - 0.2}}, nil))
		case 4:
			return geojson.NewCircle(p, float64(r.rangeI(1, 100000)), 32)
		}
		return geojson.NewFeature(geojson.NewPoint(p), "")
	}
	var made []geojson.Object
	for i := 0; i < 8; i++ {
		x := mk()
		made = append(made, x)
		if c.Within(x) != x.Contains(c) || x.Within(c) != c.Contains(x) {
			return fmt.Sprintf("FAIL within != contains swapped for circle and %s", kindName(x))
		}
		switch x.(type) {
		case *geojson.Point, *geojson.SimplePoint, *geojson.Circle:
			if c.Intersects(x) != x.Intersects(c) {
				return fmt.Sprintf("FAIL intersects not symmetric for circle and %s %s", kindName(x), x.JSON())
			}
		}
	}
	// a collection composes its children for a circle receiver as well: Intersects = some child, Contains = every child
	for _, k := range []int{1, 2, 3} {
		children := made[:k*2]
		coll := geojson.NewGeometryCollection(children)
		anyI, allC := false, true
		for _, ch := range children {
			anyI = anyI || c.Intersects(ch)
			allC = allC && c.Contains(ch)
		}
		if got := c.Intersects(coll); got != anyI {
			return fmt.Sprintf("FAIL circle.Intersects(collection)=%v but some-child=%v (%d children)", got, anyI, len(children))
		}
		if got := c.Contains(coll); got != allC {
			return fmt.Sprintf("FAIL circle.Contains(collection)=%v but every-child=%v (%d children)", got, allC, len(children))
		}
	}
	// wrappers are transparent for a circle too: a point just inside the rim (in the sliver between
	// the circle and its polygon approximation) as Point, SimplePoint, Feature and collection of one
	for i := 0; i < 6; i++ {
		plat, plon := geo.DestinationPoint(lat, lon, c.Meters()*(0.9990+0.0009*float64(r.intn(10))/10), float64(r.intn(3600))/10)
		p := geometry.Point{X: plon, Y: plat}
		pt := geojson.NewPoint(p)
		want := c.Intersects(pt)
		variants := []geojson.Object{geojson.NewSimplePoint(p), geojson.NewFeature(pt, ""), geojson.NewFeature(geojson.NewSimplePoint(p), `{"id":1}`),
			geojson.NewFeatureCollection([]geojson.Object{geojson.NewFeature(pt, "")}), geojson.NewGeometryCollection([]geojson.Object{pt})}
		for _, v := range variants {
			if cv, vc := c.Intersects(v), v.Intersects(c); cv != want || vc != want {
				return fmt.Sprintf("FAIL circle intersects %s differently from the bare point (%v) at %v [circle.Intersects(x)=%v x.Intersects(circle)=%v centre=%v,%v meters=%v circle-rect=%v point-outside-circle-rect=%v]", kindName(v), want, p, cv, vc, lat, lon, c.Meters(), c.Rect(), !c.Rect().ContainsPoint(p))
			}
		}
	}
	return "ok"
}

func fhex(f float64) string { return fmt.Sprintf("%016x", math.Float64bits(f)) }

// gfn Name <arg bits>... : the Go function on the same IEEE inputs, results as bit patterns
func gfn(toks []string) string {
	var a []float64
	for _, t := range toks[2:] {
		u, err := strconv.ParseUint(t, 16, 64)
		if err != nil {
			return "bad-op"
		}
		a = append(a, math.Float64frombits(u))
	}
	out := func(vs ...float64) string {
		var s []string
		for _, v := range vs {
			s = append(s, fhex(v))
		}
		return strings.Join(s, " ")
	}
	b := func(x bool) float64 {
		if x {
			return 1
		}
		return 0
	}
	switch toks[1] {
	case "Haversine":
		return out(geo.Haversine(a[0], a[1], a[2], a[3]))
	case "NormalizeDistance":
		return out(geo.NormalizeDistance(a[0]))
	case "DistanceToHaversine":
		return out(geo.DistanceToHaversine(a[0]))
	case "DistanceFromHaversine":
		return out(geo.DistanceFromHaversine(a[0]))
	case "DistanceTo":
		return out(geo.DistanceTo(a[0], a[1], a[2], a[3]))
	case "DestinationPoint":
		x, y := geo.DestinationPoint(a[0], a[1], a[2], a[3])
		return out(x, y)
	case "BearingTo":
		return out(geo.BearingTo(a[0], a[1], a[2], a[3]))
	case "RectFromCenter":
		p, q, r, s := geo.RectFromCenter(a[0], a[1], a[2])
		return out(p, q, r, s)
	case "circleContainsPoint":
		// (threshold, cx, cy, px, py): the comparison of Circle.containsPoint
		return out(b(geo.Haversine(a[4], a[3], a[2], a[1]) <= a[0]))
	case "newCircleHaversine":
		return out(geojson.NewCircle(geometry.Point{}, a[0], 12).Haversine())
	}
	return "bad-op"
}

func geoOp(toks []string) (string, bool) {
	seed := uint64(0)
	if len(toks) > 1 {
		seed, _ = strconv.ParseUint(toks[1], 10, 64)
	}
	switch toks[0] {
	case "xgeo13":
		return xgeo13(seed), true
	case "xgeo14":
		return xgeo14(seed), true
	case "xgeo15":
		return xgeo15(seed), true
	case "xcirclepoly":
		return xcirclepoly(toks), true
	case "xmethods":
		return xmethods(toks), true
	case "xcircle":
		return xcircle(seed), true
	case "xconc":
		return xconc(seed), true
	case "gfn":
		return gfn(toks), true
	}
	return "", false
}

func genGeo(suite string, o *out, r *rng, thorough bool) bool {
	n := 20000
	if thorough {
		n = 1000000
	}
	gf := func(name string, vs ...float64) {
		var hs []string
		for _, v := range vs {
			hs = append(hs, fhex(v))
		}
		o.op("gfn %s %s", name, strings.Join(hs, " "))
	}
	// numeric correspondence of the formulas (Lean Float vs Go): libm differences of a few ulps are
	// amplified without bound next to the poles (asin/acos near 1), so these ops stay 0.1° away;
	// the poles are exercised by the implementation-side oracles (xgeo13/14/15)
	randLL := func() (float64, float64) {
		la, lo := randLatLon(r)
		if la > 89.9 {
			la = 89.9
		}
		if la < -89.9 {
			la = -89.9
		}
		return la, lo
	}
	rad := func() float64 {
		m := randRadius(r)
		if m > 0.25 && m < 0.32 { // the tiny-radius branch boundary of RectFromCenter (0.285 m): libm ulps may flip it
			m = 0.5
		}
		return m
	}
	switch suite {
	case "c13":
		for i := 0; i < n/20; i++ {
			lat, lon := randLL()
			lat2, lon2 := randLL()
			m := rad()
			gf("newCircleHaversine", m)
			if m > 1 { // away from the decision boundary (libm ulps): probes at 0.9 r and 1.1 r
				for _, f := range []float64{0.9, 1.1} {
					if m*f < math.Pi*earthR {
						plat, plon := geo.DestinationPoint(lat, lon, m*f, float64(r.intn(360)))
						gf("circleContainsPoint", geo.DistanceToHaversine(geo.NormalizeDistance(m)), lon, lat, plon, plat)
					}
				}
			}
			gf("Haversine", lat, lon, lat2, lon2)
		}
		for i := 0; i < n/10; i++ {
			o.op("xgeo13 %d", r.next()%(1<<62))
		}
		for s := 0; s <= 4096; s++ {
			if s > 70 && !thorough && s%37 != 0 {
				continue
			}
			o.op("xcirclepoly %d %d", s, r.next()%(1<<62))
		}
		o.op("xcirclepoly -3 1")
	case "c14":
		for i := 0; i < n/8; i++ {
			lat, lon := randLL()
			m := rad()
			if m < 10 { // cos(m/R) is within 1e-12 of 1: the tangent-longitude formula amplifies libm ulps
				m += 10
			}
			gf("RectFromCenter", lat, lon, m)
		}
		for i := 0; i < n/4; i++ {
			o.op("xgeo14 %d", r.next()%(1<<62))
		}
	case "c15":
		for i := 0; i < n/8; i++ {
			lat, lon := randLL()
			lat2, lon2 := randLL()
			m := rad()
			gf("Haversine", lat, lon, lat2, lon2)
			gf("DistanceTo", lat, lon, lat2, lon2)
			gf("DestinationPoint", lat, lon, m, float64(r.intn(3600000))/10000)
			gf("BearingTo", lat, lon, lat2, lon2)
			gf("NormalizeDistance", m*float64(r.rangeI(1, 40)))
			gf("DistanceToHaversine", m)
			gf("DistanceFromHaversine", float64(r.intn(1000001))/1000000)
		}
		for i := 0; i < n; i++ {
			o.op("xgeo15 %d", r.next()%(1<<62))
		}
	case "c16":
		m := 40
		if thorough {
			m = 2000
		}
		for i := 0; i < m; i++ {
			o.op("xconc %d", r.next()%(1<<62))
		}
	default:
		return false
	}
	return true
}
