package main

// ring: translates the RING-LEVEL predicates of <repo>/geometry/ring.go (ringContainsPoint and
// its searcher, ringIntersectsPoint, ringContainsSegment, ringIntersectsSegment,
// ringContainsRing, ringIntersectsRing, ringContainsLine, ringIntersectsLine) into a Lean file
// (namespace Geo.RGen, core Lean only) whose definitions are PARAMETRISED by what they call:
// every callee that is not itself translated becomes a field of the generated structure
// `Ops R L BS N P S B` (R: Ring, L: *Line, BS: *baseSeries, N: float64, P: Point, S: Segment,
// B: Rect), found in the source.
//
// The translation is purely syntactic (go/parser + go/ast, a small local type inference) and
// deterministic.  The header of the generated file (rgHeader) lists the recognised subset and
// the conventions.  Whatever is not recognised is emitted as `opaque <name>_unrecognised : Unit`
// preceded by the reason; functions that call an unrecognised function become unrecognised
// themselves.

import (
	"bytes"
	"fmt"
	"go/ast"
	"go/parser"
	"go/printer"
	"go/token"
	"os"
	"path/filepath"
	"sort"
	"strings"
	"unicode"
)

func init() { translators["ring"] = translateRing }

// the ring-level functions, in output order (callees are translated on demand, before callers)
var rgTargets = []string{
	"ringContainsPoint", "ringIntersectsPoint", "ringContainsSegment", "ringIntersectsSegment",
	"ringContainsRing", "ringIntersectsRing", "ringContainsLine", "ringIntersectsLine",
}

// ---------------------------------------------------------------------------------------------
// types of the subset

type rgKind int

const (
	rgBad    rgKind = iota
	rgBool          // bool            -> Bool
	rgInt           // int             -> Int (unbounded)
	rgUInt          // untyped integer constant (becomes Int or N by context)
	rgF64           // float64         -> N
	rgPoint         // Point           -> P
	rgSeg           // Segment         -> S
	rgRect          // Rect            -> B
	rgRing          // Ring (= Series) -> R
	rgLine          // *Line           -> L
	rgBS            // *baseSeries     -> BS
	rgStruct        // a struct with bool / int fields only -> generated Lean structure
	rgArray         // [n]T            -> List T
	rgTuple         // several results -> product
	rgPtr           // *bool, *int parameters -> value in, value out
	rgIter          // func(...) bool, the iterator parameter of a Search method
	rgVoid          // no result
)

type rgTy struct {
	k    rgKind
	name string // rgStruct: Go name
	el   []rgTy // rgArray / rgPtr: one element; rgTuple, rgIter: components
	n    int    // rgArray: length
}

var rgAbsName = map[rgKind][2]string{ // Go name, Lean type variable
	rgF64: {"float64", "N"}, rgPoint: {"Point", "P"}, rgSeg: {"Segment", "S"}, rgRect: {"Rect", "B"},
	rgRing: {"Ring", "R"}, rgLine: {"*Line", "L"}, rgBS: {"*baseSeries", "BS"},
}

func rgUpperFirst(s string) string {
	if s == "" {
		return s
	}
	r := []rune(s)
	r[0] = unicode.ToUpper(r[0])
	return string(r)
}

func rgLowerFirst(s string) string {
	if s == "" {
		return s
	}
	r := []rune(s)
	r[0] = unicode.ToLower(r[0])
	return string(r)
}

func (t rgTy) lean() string {
	switch t.k {
	case rgBool:
		return "Bool"
	case rgInt, rgUInt:
		return "Int"
	case rgStruct:
		return rgUpperFirst(t.name)
	case rgArray:
		return "List " + rgAtomTy(t.el[0].lean())
	case rgPtr:
		return t.el[0].lean()
	case rgVoid:
		return "Unit"
	case rgTuple:
		var parts []string
		for _, e := range t.el {
			parts = append(parts, rgAtomTy(e.lean()))
		}
		return strings.Join(parts, " × ")
	}
	if n, ok := rgAbsName[t.k]; ok {
		return n[1]
	}
	return "?"
}

func (t rgTy) goName() string {
	switch t.k {
	case rgBool:
		return "bool"
	case rgInt:
		return "int"
	case rgUInt:
		return "untyped integer constant"
	case rgStruct:
		return t.name
	case rgArray:
		return fmt.Sprintf("[%d]%s", t.n, t.el[0].goName())
	case rgPtr:
		return "*" + t.el[0].goName()
	case rgVoid:
		return "no value"
	case rgIter:
		return "func"
	case rgTuple:
		var parts []string
		for _, e := range t.el {
			parts = append(parts, e.goName())
		}
		return "(" + strings.Join(parts, ", ") + ")"
	}
	if n, ok := rgAbsName[t.k]; ok {
		return n[0]
	}
	return "invalid"
}

func (t rgTy) same(u rgTy) bool { return t.goName() == u.goName() }

func rgAtomTy(s string) string {
	if strings.Contains(s, " ") {
		return "(" + s + ")"
	}
	return s
}

func rgTupleTy(ts []rgTy) rgTy {
	switch len(ts) {
	case 0:
		return rgTy{k: rgVoid}
	case 1:
		return ts[0]
	}
	return rgTy{k: rgTuple, el: ts}
}

// rgProj: the Lean projection of component i of an n-tuple (right-nested products).
func rgProj(v string, i, n int) string {
	if n == 1 {
		return v
	}
	s := v
	for j := 0; j < i; j++ {
		s += ".2"
	}
	if i < n-1 {
		s += ".1"
	}
	return s
}

func rgTupleStr(parts []string) string {
	switch len(parts) {
	case 0:
		return "()"
	case 1:
		return parts[0]
	}
	return "(" + strings.Join(parts, ", ") + ")"
}

func rgIndent(lines []string) []string {
	out := make([]string, len(lines))
	for i, l := range lines {
		out[i] = "  " + l
	}
	return out
}

func rgIfLines(cond string, th, el []string) []string {
	out := append([]string{"if " + cond + " then"}, rgIndent(th)...)
	if len(el) > 0 && strings.HasPrefix(el[0], "if ") {
		out = append(out, "else "+el[0])
		return append(out, el[1:]...)
	}
	out = append(out, "else")
	return append(out, rgIndent(el)...)
}

// ---------------------------------------------------------------------------------------------
// the parsed package

type rgOp struct {
	name    string
	params  []rgTy
	result  string // Lean type
	comment string
}

func (o *rgOp) leanType() string {
	var parts []string
	for _, p := range o.params {
		parts = append(parts, rgAtomTy(p.lean()))
	}
	parts = append(parts, rgAtomTy(o.result))
	return strings.Join(parts, " → ")
}

type rgParam struct {
	lean string // "" for an unnamed / blank parameter
	ty   rgTy
}

type rgFunc struct {
	key      string
	leanName string
	decl     *ast.FuncDecl
	state    int // 0 not visited, 1 in progress, 2 done
	params   []rgParam
	result   rgTy  // the Go results (rgVoid, one type, or a tuple)
	ptrOuts  []int // indexes of the pointer parameters (returned after the result)
	full     rgTy  // result followed by the pointer parameters
	err      error
	lines    []string
	comment  string
	selfRec  bool
	inh      map[string]bool // Lean types that need [Inhabited _]
	usesRec  map[string]bool
}

type rgPkg struct {
	fset    *token.FileSet
	funcs   map[string]*rgFunc
	types   map[string]*ast.TypeSpec
	consts  map[string]ast.Expr
	imports map[string]bool
	srcs    map[string][]byte
	order   []*rgFunc
	ops     map[string]*rgOp
	structs []string // generated structures, in order of first use
	constsU []string // package constants used, in order of first use
}

func rgRecvName(e ast.Expr) string {
	if s, ok := e.(*ast.StarExpr); ok {
		e = s.X
	}
	if id, ok := e.(*ast.Ident); ok {
		return id.Name
	}
	return "?"
}

func rgLoad(repo string) (*rgPkg, error) {
	dir := filepath.Join(repo, "geometry")
	ents, err := os.ReadDir(dir)
	if err != nil {
		return nil, err
	}
	var names []string
	for _, e := range ents {
		n := e.Name()
		if !e.IsDir() && strings.HasSuffix(n, ".go") && !strings.HasSuffix(n, "_test.go") {
			names = append(names, n)
		}
	}
	sort.Strings(names)
	p := &rgPkg{fset: token.NewFileSet(), funcs: map[string]*rgFunc{}, types: map[string]*ast.TypeSpec{},
		consts: map[string]ast.Expr{}, imports: map[string]bool{}, srcs: map[string][]byte{}, ops: map[string]*rgOp{}}
	for _, n := range names {
		src, err := os.ReadFile(filepath.Join(dir, n))
		if err != nil {
			return nil, err
		}
		f, err := parser.ParseFile(p.fset, n, src, parser.SkipObjectResolution)
		if err != nil {
			return nil, err
		}
		p.srcs[n] = src
		for _, im := range f.Imports {
			if im.Name == nil {
				p.imports[strings.Trim(im.Path.Value, `"`)] = true
			}
		}
		for _, d := range f.Decls {
			switch d := d.(type) {
			case *ast.FuncDecl:
				key := d.Name.Name
				if d.Recv != nil && len(d.Recv.List) == 1 {
					key = rgRecvName(d.Recv.List[0].Type) + "." + key
				}
				if _, dup := p.funcs[key]; !dup {
					p.funcs[key] = &rgFunc{key: key, leanName: key, decl: d}
				}
			case *ast.GenDecl:
				for _, sp := range d.Specs {
					switch sp := sp.(type) {
					case *ast.TypeSpec:
						if _, dup := p.types[sp.Name.Name]; !dup {
							p.types[sp.Name.Name] = sp
						}
					case *ast.ValueSpec:
						if d.Tok == token.CONST && sp.Type == nil && len(sp.Names) == len(sp.Values) {
							for i, n := range sp.Names {
								p.consts[n.Name] = sp.Values[i]
							}
						}
					}
				}
			}
		}
	}
	return p, nil
}

func (p *rgPkg) pos(n ast.Node) string {
	q := p.fset.Position(n.Pos())
	return fmt.Sprintf("%s:%d", q.Filename, q.Line)
}

// declText: the source text of a declaration (a function up to its body), on one line.
func (p *rgPkg) declText(n ast.Node) string {
	a, b := p.fset.Position(n.Pos()), p.fset.Position(n.End())
	if d, ok := n.(*ast.FuncDecl); ok && d.Body != nil {
		b = p.fset.Position(d.Body.Lbrace)
	}
	src := p.srcs[a.Filename]
	if a.Offset < 0 || b.Offset > len(src) || a.Offset >= b.Offset {
		return "?"
	}
	return strings.Join(strings.Fields(string(src[a.Offset:b.Offset])), " ")
}

// resolve follows alias declarations (`type Ring = Series`).
func (p *rgPkg) resolve(name string) string {
	for i := 0; i < 8; i++ {
		ts := p.types[name]
		if ts == nil || !ts.Assign.IsValid() {
			return name
		}
		id, ok := ts.Type.(*ast.Ident)
		if !ok {
			return name
		}
		name = id.Name
	}
	return name
}

// structFields: the fields of a named struct type of the package, in declaration order
// (embedded fields under their type name).
func (p *rgPkg) structFields(name string) ([]string, []ast.Expr, bool) {
	ts := p.types[p.resolve(name)]
	if ts == nil {
		return nil, nil, false
	}
	st, ok := ts.Type.(*ast.StructType)
	if !ok {
		return nil, nil, false
	}
	var names []string
	var tys []ast.Expr
	for _, f := range st.Fields.List {
		if len(f.Names) == 0 {
			names = append(names, rgRecvName(f.Type))
			tys = append(tys, f.Type)
		}
		for _, n := range f.Names {
			names = append(names, n.Name)
			tys = append(tys, f.Type)
		}
	}
	return names, tys, true
}

// plainStruct: a struct all of whose fields are bool or int becomes a Lean structure.
func (p *rgPkg) plainStruct(name string) bool {
	names, tys, ok := p.structFields(name)
	if !ok || len(names) == 0 {
		return false
	}
	for _, t := range tys {
		id, isId := t.(*ast.Ident)
		if !isId || (id.Name != "bool" && id.Name != "int") || p.types[id.Name] != nil {
			return false
		}
	}
	return true
}

func (p *rgPkg) parseType(e ast.Expr) (rgTy, bool) {
	switch e := e.(type) {
	case *ast.ParenExpr:
		return p.parseType(e.X)
	case *ast.Ident:
		n := p.resolve(e.Name)
		if p.types[n] == nil {
			switch n {
			case "bool":
				return rgTy{k: rgBool}, true
			case "int":
				return rgTy{k: rgInt}, true
			case "float64":
				return rgTy{k: rgF64}, true
			}
			return rgTy{}, false
		}
		switch ts := p.types[n]; {
		case n == "Series":
			if _, ok := ts.Type.(*ast.InterfaceType); ok {
				return rgTy{k: rgRing}, true
			}
		case n == "Point" || n == "Segment" || n == "Rect":
			if _, ok := ts.Type.(*ast.StructType); ok && !p.plainStruct(n) {
				return rgTy{k: map[string]rgKind{"Point": rgPoint, "Segment": rgSeg, "Rect": rgRect}[n]}, true
			}
		case p.plainStruct(n):
			return rgTy{k: rgStruct, name: n}, true
		}
	case *ast.StarExpr:
		if id, ok := e.X.(*ast.Ident); ok {
			n := p.resolve(id.Name)
			if _, isStruct := p.types[n]; isStruct && (n == "Line" || n == "baseSeries") {
				if _, _, ok := p.structFields(n); ok {
					return rgTy{k: map[string]rgKind{"Line": rgLine, "baseSeries": rgBS}[n]}, true
				}
			}
			if t, ok := p.parseType(e.X); ok && (t.k == rgBool || t.k == rgInt) {
				return rgTy{k: rgPtr, el: []rgTy{t}}, true
			}
		}
	case *ast.ArrayType:
		if lit, ok := e.Len.(*ast.BasicLit); ok && lit.Kind == token.INT {
			var n int
			if _, err := fmt.Sscanf(lit.Value, "%d", &n); err == nil && fmt.Sprint(n) == lit.Value {
				if t, ok := p.parseType(e.Elt); ok && t.k != rgPtr && t.k != rgIter {
					return rgTy{k: rgArray, el: []rgTy{t}, n: n}, true
				}
			}
		}
	case *ast.FuncType:
		if e.TypeParams != nil || e.Results == nil || len(e.Results.List) != 1 || len(e.Results.List[0].Names) > 1 {
			return rgTy{}, false
		}
		if r, ok := p.parseType(e.Results.List[0].Type); !ok || r.k != rgBool {
			return rgTy{}, false
		}
		var el []rgTy
		for _, f := range e.Params.List {
			t, ok := p.parseType(f.Type)
			if !ok || t.k == rgPtr || t.k == rgIter {
				return rgTy{}, false
			}
			for i := 0; i < len(f.Names) || i == 0; i++ {
				el = append(el, t)
			}
		}
		return rgTy{k: rgIter, el: el}, true
	}
	return rgTy{}, false
}

var rgRecvTypeName = map[rgKind]string{rgRing: "Ring", rgRect: "Rect", rgSeg: "Segment", rgPoint: "Point",
	rgBS: "baseSeries", rgLine: "Line"}

// method finds the declaration of method m on a value of kind k: an interface method of Ring
// (= Series), or a method of Rect / Segment / Point / *baseSeries / *Line (through one level of
// embedding).
func (p *rgPkg) method(k rgKind, m string) (*ast.FuncType, ast.Node) {
	tn, ok := rgRecvTypeName[k]
	if !ok {
		return nil, nil
	}
	if k == rgRing {
		ts := p.types["Series"]
		if ts == nil {
			return nil, nil
		}
		it, ok := ts.Type.(*ast.InterfaceType)
		if !ok {
			return nil, nil
		}
		for _, f := range it.Methods.List {
			ft, ok := f.Type.(*ast.FuncType)
			if ok && len(f.Names) == 1 && f.Names[0].Name == m {
				return ft, f
			}
		}
		return nil, nil
	}
	if f := p.funcs[tn+"."+m]; f != nil {
		return f.decl.Type, f.decl
	}
	if ts := p.types[tn]; ts != nil {
		if st, ok := ts.Type.(*ast.StructType); ok {
			for _, fld := range st.Fields.List {
				if len(fld.Names) == 0 {
					if f := p.funcs[rgRecvName(fld.Type)+"."+m]; f != nil {
						return f.decl.Type, f.decl
					}
				}
			}
		}
	}
	return nil, nil
}

// useOp registers a field of Ops (first registration wins; the order of discovery is fixed).
func (p *rgPkg) useOp(name string, params []rgTy, result, comment string) {
	if _, ok := p.ops[name]; !ok {
		p.ops[name] = &rgOp{name: name, params: params, result: result, comment: comment}
	}
}

func (p *rgPkg) useStruct(name string) {
	for _, s := range p.structs {
		if s == name {
			return
		}
	}
	p.structs = append(p.structs, name)
}

var rgReserved = map[string]bool{
	"at": true, "from": true, "end": true, "then": true, "else": true, "fun": true, "show": true,
	"have": true, "let": true, "in": true, "do": true, "if": true, "by": true, "with": true,
	"match": true, "open": true, "def": true, "theorem": true, "where": true, "using": true,
	"Type": true, "Prop": true, "Sort": true, "instance": true, "class": true, "structure": true,
	"namespace": true, "section": true, "variable": true, "universe": true, "import": true,
	"deriving": true, "extends": true, "mutual": true, "export": true, "local": true, "private": true,
	"protected": true, "macro": true, "syntax": true, "notation": true, "infix": true, "prefix": true,
	"postfix": true, "example": true, "lemma": true, "axiom": true, "opaque": true, "abbrev": true,
	"inductive": true, "calc": true, "suffices": true, "obtain": true, "return": true, "for": true,
	"unless": true, "try": true, "catch": true, "finally": true, "nomatch": true, "nofun": true,
	"true": true, "false": true, "some": true, "none": true, "not": true, "decide": true,
	"Geo": true, "RGen": true, "Bool": true, "Int": true, "Option": true, "Nat": true, "List": true,
	"Unit": true, "Inhabited": true, "ops": true, "Ops": true, "Flow": true, "Exit": true,
	"forRange": true, "searchFold": true, "intRange": true, "arrAt": true,
	"R": true, "L": true, "BS": true, "N": true, "P": true, "S": true, "B": true,
}

func (p *rgPkg) ident(name string) (string, error) {
	for _, r := range name {
		if !(r < 128 && (r == '_' || r >= '0' && r <= '9' || r >= 'a' && r <= 'z' || r >= 'A' && r <= 'Z')) {
			return "", fmt.Errorf("identifier %q: unsupported character %q", name, r)
		}
	}
	if name == "_" {
		return "", fmt.Errorf("blank identifier used as a value")
	}
	if rgReserved[name] || p.funcs[name] != nil || p.consts[name] != nil || p.types[name] != nil {
		return name + "_", nil
	}
	return name, nil
}

type rgVar struct {
	lean string
	ty   rgTy
}

type rgEnv struct{ vars map[string]rgVar }

func (e *rgEnv) copy() *rgEnv {
	n := &rgEnv{vars: map[string]rgVar{}}
	for k, v := range e.vars {
		n.vars[k] = v
	}
	return n
}

type rgTr struct {
	pkg      *rgPkg
	fn       *rgFunc
	n        int                          // translated statement lists (bound on the copies made by `if`)
	scopeEnd map[ast.Stmt]map[string]bool // synthetic end-of-block markers: the names that stay
}

func (t *rgTr) errf(n ast.Node, format string, args ...interface{}) error {
	return fmt.Errorf("%s: %s", t.pkg.pos(n), fmt.Sprintf(format, args...))
}

// ---------------------------------------------------------------------------------------------
// expressions

type rgExpr struct {
	s      string
	atomic bool
	ty     rgTy
}

func (e rgExpr) atom() string {
	if e.atomic {
		return e.s
	}
	return "(" + e.s + ")"
}

// coerce converts v to the type want (untyped constants, the implicit conversion Rect → Ring).
func (t *rgTr) coerce(n ast.Node, v rgExpr, want rgTy) (rgExpr, error) {
	switch {
	case v.ty.k == rgUInt && (want.k == rgInt || want.k == rgUInt):
		return rgExpr{s: v.s, atomic: v.atomic, ty: want}, nil
	case v.ty.k == rgUInt && want.k == rgF64:
		t.pkg.useOp("f64OfInt", []rgTy{{k: rgInt}}, "N", "the conversion of an untyped integer constant to float64")
		return rgExpr{s: "ops.f64OfInt " + v.atom(), ty: want}, nil
	case v.ty.k == rgRect && want.k == rgRing:
		t.pkg.useOp("ringOfRect", []rgTy{{k: rgRect}}, "R", "the implicit conversion of a Rect to the interface Ring (= Series)")
		return rgExpr{s: "ops.ringOfRect " + v.atom(), ty: want}, nil
	case v.ty.same(want):
		return v, nil
	}
	return rgExpr{}, t.errf(n, "%s used where %s is expected", v.ty.goName(), want.goName())
}

func (t *rgTr) boolExpr(e ast.Expr, env *rgEnv) (rgExpr, error) {
	v, err := t.expr(e, env)
	if err != nil {
		return v, err
	}
	if v.ty.k != rgBool {
		return v, t.errf(e, "%s used as a condition", v.ty.goName())
	}
	return v, nil
}

func rgFieldName(goName string) string {
	n := rgLowerFirst(goName)
	if rgReserved[n] {
		n += "_"
	}
	return n
}

func (t *rgTr) expr(e ast.Expr, env *rgEnv) (rgExpr, error) {
	switch e := e.(type) {
	case *ast.ParenExpr:
		return t.expr(e.X, env)
	case *ast.Ident:
		if v, ok := env.vars[e.Name]; ok {
			if v.ty.k == rgPtr {
				return rgExpr{}, t.errf(e, "pointer %s used as a value", e.Name)
			}
			return rgExpr{s: v.lean, atomic: true, ty: v.ty}, nil
		}
		switch e.Name {
		case "true", "false":
			return rgExpr{s: e.Name, atomic: true, ty: rgTy{k: rgBool}}, nil
		}
		if c, ok := t.pkg.consts[e.Name]; ok {
			if lit, isLit := c.(*ast.BasicLit); isLit && lit.Kind == token.INT && rgDecimal(lit.Value) {
				t.pkg.useConst(e.Name)
				return rgExpr{s: e.Name, atomic: true, ty: rgTy{k: rgUInt}}, nil
			}
			return rgExpr{}, t.errf(e, "constant %s is not a decimal integer literal", e.Name)
		}
		return rgExpr{}, t.errf(e, "identifier %s is not a local variable or a package constant", e.Name)
	case *ast.BasicLit:
		if e.Kind == token.INT && rgDecimal(e.Value) {
			return rgExpr{s: e.Value, atomic: true, ty: rgTy{k: rgUInt}}, nil
		}
		return rgExpr{}, t.errf(e, "literal %s outside the subset", e.Value)
	case *ast.UnaryExpr:
		return t.unary(e, env)
	case *ast.StarExpr:
		if id, ok := e.X.(*ast.Ident); ok {
			if v, ok := env.vars[id.Name]; ok && v.ty.k == rgPtr {
				return rgExpr{s: v.lean, atomic: true, ty: v.ty.el[0]}, nil
			}
		}
		return rgExpr{}, t.errf(e, "dereference of something that is not a pointer parameter")
	case *ast.BinaryExpr:
		return t.binary(e, env)
	case *ast.CompositeLit:
		return t.composite(e, env)
	case *ast.CallExpr:
		return t.call(e, env)
	case *ast.SelectorExpr:
		return t.field(e, env)
	case *ast.IndexExpr:
		return t.index(e, env)
	}
	return rgExpr{}, t.errf(e, "expression outside the subset (%T)", e)
}

func rgDecimal(s string) bool {
	if s == "" || (len(s) > 1 && s[0] == '0') || len(s) > 9 {
		return false
	}
	for _, c := range s {
		if c < '0' || c > '9' {
			return false
		}
	}
	return true
}

func (p *rgPkg) useConst(name string) {
	for _, s := range p.constsU {
		if s == name {
			return
		}
	}
	p.constsU = append(p.constsU, name)
}

func (t *rgTr) unary(e *ast.UnaryExpr, env *rgEnv) (rgExpr, error) {
	switch e.Op {
	case token.NOT:
		v, err := t.boolExpr(e.X, env)
		if err != nil {
			return v, err
		}
		return rgExpr{s: "!" + v.atom(), ty: rgTy{k: rgBool}}, nil
	case token.SUB, token.ADD:
		v, err := t.expr(e.X, env)
		if err != nil {
			return v, err
		}
		if v.ty.k != rgInt && v.ty.k != rgUInt {
			return v, t.errf(e, "unary %s on a %s", e.Op, v.ty.goName())
		}
		if e.Op == token.ADD {
			return v, nil
		}
		return rgExpr{s: "-" + v.atom(), ty: v.ty}, nil
	case token.AND:
		// &line.baseSeries: the *baseSeries embedded in a *Line
		if sel, ok := e.X.(*ast.SelectorExpr); ok {
			x, err := t.expr(sel.X, env)
			if err != nil {
				return x, err
			}
			if x.ty.k == rgLine {
				names, tys, _ := t.pkg.structFields("Line")
				for i, n := range names {
					if id, isId := tys[i].(*ast.Ident); isId && n == sel.Sel.Name && t.pkg.resolve(id.Name) == "baseSeries" {
						op := "line" + rgUpperFirst(n)
						t.pkg.useOp(op, []rgTy{x.ty}, "BS", fmt.Sprintf("`&line.%s`: the *baseSeries inside a *Line — geometry/%s", n, t.pkg.pos(t.pkg.types["Line"])))
						return rgExpr{s: "ops." + op + " " + x.atom(), ty: rgTy{k: rgBS}}, nil
					}
				}
			}
		}
		return rgExpr{}, t.errf(e, "& outside the subset (allowed: &x for a pointer parameter, &line.baseSeries)")
	}
	return rgExpr{}, t.errf(e, "unary operator %s outside the subset", e.Op)
}

var rgF64Ops = map[token.Token]string{token.ADD: "f64Add", token.SUB: "f64Sub", token.MUL: "f64Mul",
	token.QUO: "f64Div", token.LSS: "f64Lt", token.GTR: "f64Gt", token.LEQ: "f64Le", token.GEQ: "f64Ge",
	token.EQL: "f64Eq", token.NEQ: "f64Ne"}

func (t *rgTr) binary(e *ast.BinaryExpr, env *rgEnv) (rgExpr, error) {
	b := rgTy{k: rgBool}
	if e.Op == token.LAND || e.Op == token.LOR {
		x, err := t.boolExpr(e.X, env)
		if err != nil {
			return x, err
		}
		y, err := t.boolExpr(e.Y, env)
		if err != nil {
			return y, err
		}
		op := map[token.Token]string{token.LAND: "&&", token.LOR: "||"}[e.Op]
		// && and || are printed left-nested without parentheses, as Go parses them
		xs := x.atom()
		if bx, ok := e.X.(*ast.BinaryExpr); ok && bx.Op == e.Op {
			xs = x.s
		}
		return rgExpr{s: xs + " " + op + " " + y.atom(), ty: b}, nil
	}
	x, err := t.expr(e.X, env)
	if err != nil {
		return x, err
	}
	y, err := t.expr(e.Y, env)
	if err != nil {
		return y, err
	}
	// operand types: untyped constants take the type of the other side
	if x.ty.k == rgUInt && y.ty.k != rgUInt {
		if x, err = t.coerce(e.X, x, y.ty); err != nil {
			return x, err
		}
	} else if y.ty.k == rgUInt && x.ty.k != rgUInt {
		if y, err = t.coerce(e.Y, y, x.ty); err != nil {
			return y, err
		}
	}
	if !x.ty.same(y.ty) {
		return x, t.errf(e, "operator %s on %s and %s", e.Op, x.ty.goName(), y.ty.goName())
	}
	cmp := map[token.Token]string{token.EQL: "==", token.NEQ: "!=", token.LSS: "<", token.GTR: ">",
		token.LEQ: "≤", token.GEQ: "≥"}
	ari := map[token.Token]string{token.ADD: "+", token.SUB: "-", token.MUL: "*"}
	switch x.ty.k {
	case rgBool:
		if e.Op == token.EQL || e.Op == token.NEQ {
			return rgExpr{s: x.atom() + " " + cmp[e.Op] + " " + y.atom(), ty: b}, nil
		}
	case rgInt, rgUInt:
		ty := x.ty
		if op, ok := ari[e.Op]; ok {
			return rgExpr{s: x.atom() + " " + op + " " + y.atom(), ty: ty}, nil
		}
		if e.Op == token.EQL || e.Op == token.NEQ {
			return rgExpr{s: x.atom() + " " + cmp[e.Op] + " " + y.atom(), ty: b}, nil
		}
		if op, ok := cmp[e.Op]; ok {
			return rgExpr{s: "decide (" + x.s + " " + op + " " + y.s + ")", ty: b}, nil
		}
	case rgF64:
		if op, ok := rgF64Ops[e.Op]; ok {
			res, resL := rgTy{k: rgF64}, "N"
			if _, isCmp := cmp[e.Op]; isCmp {
				res, resL = b, "Bool"
			}
			t.pkg.useOp(op, []rgTy{{k: rgF64}, {k: rgF64}}, resL, "float64 operator `"+e.Op.String()+"`")
			return rgExpr{s: "ops." + op + " " + x.atom() + " " + y.atom(), ty: res}, nil
		}
	case rgPoint, rgSeg, rgRect:
		if e.Op == token.EQL || e.Op == token.NEQ {
			op := rgLowerFirst(rgRecvTypeName[x.ty.k]) + "Eq"
			t.pkg.useOp(op, []rgTy{x.ty, x.ty}, "Bool", "Go's `==` on "+x.ty.goName()+" (field by field)")
			s := "ops." + op + " " + x.atom() + " " + y.atom()
			if e.Op == token.NEQ {
				return rgExpr{s: "!(" + s + ")", ty: b}, nil
			}
			return rgExpr{s: s, ty: b}, nil
		}
	}
	return rgExpr{}, t.errf(e, "operator %s on %s outside the subset", e.Op, x.ty.goName())
}

// field: x.f on a generated structure (projection) or on Point / Segment / Rect (an Ops field).
func (t *rgTr) field(e *ast.SelectorExpr, env *rgEnv) (rgExpr, error) {
	x, err := t.expr(e.X, env)
	if err != nil {
		return x, err
	}
	var tn string
	switch x.ty.k {
	case rgStruct:
		tn = x.ty.name
	case rgPoint, rgSeg, rgRect:
		tn = rgRecvTypeName[x.ty.k]
	default:
		return x, t.errf(e, "field %s of a %s: outside the subset", e.Sel.Name, x.ty.goName())
	}
	names, tys, _ := t.pkg.structFields(tn)
	for i, n := range names {
		if n != e.Sel.Name {
			continue
		}
		ft, ok := t.pkg.parseType(tys[i])
		if !ok {
			return x, t.errf(e, "field %s.%s: type outside the subset", tn, n)
		}
		if x.ty.k == rgStruct {
			t.pkg.useStruct(tn)
			return rgExpr{s: x.atom() + "." + rgFieldName(n), atomic: true, ty: ft}, nil
		}
		op := rgLowerFirst(tn) + n
		t.pkg.useOp(op, []rgTy{x.ty}, ft.lean(), fmt.Sprintf("field %s of %s — geometry/%s", n, tn, t.pkg.pos(t.pkg.types[tn])))
		return rgExpr{s: "ops." + op + " " + x.atom(), ty: ft}, nil
	}
	return x, t.errf(e, "no field %s in %s", e.Sel.Name, tn)
}

// index: a[i] on a fixed-size array (out of range, a panic in Go, is `default` here).
func (t *rgTr) index(e *ast.IndexExpr, env *rgEnv) (rgExpr, error) {
	x, err := t.expr(e.X, env)
	if err != nil {
		return x, err
	}
	if x.ty.k != rgArray {
		return x, t.errf(e, "index of a %s", x.ty.goName())
	}
	i, err := t.expr(e.Index, env)
	if err != nil {
		return i, err
	}
	if i, err = t.coerce(e.Index, i, rgTy{k: rgInt}); err != nil {
		return i, err
	}
	t.fn.inh[x.ty.el[0].lean()] = true
	return rgExpr{s: "arrAt " + x.atom() + " " + i.atom(), ty: x.ty.el[0]}, nil
}

// composite: T{…} for a generated structure, Point{…} / Segment{…} / Rect{…} (Ops field mkT, all
// fields given, in declaration order) and a fixed-size array.
func (t *rgTr) composite(c *ast.CompositeLit, env *rgEnv) (rgExpr, error) {
	if c.Type == nil {
		return rgExpr{}, t.errf(c, "composite literal without a type")
	}
	ty, ok := t.pkg.parseType(c.Type)
	if !ok {
		return rgExpr{}, t.errf(c, "composite literal type outside the subset")
	}
	if ty.k == rgArray {
		if len(c.Elts) != ty.n {
			return rgExpr{}, t.errf(c, "array literal with %d of %d elements", len(c.Elts), ty.n)
		}
		var parts []string
		for _, el := range c.Elts {
			if _, isKV := el.(*ast.KeyValueExpr); isKV {
				return rgExpr{}, t.errf(el, "keyed array literal")
			}
			v, err := t.expr(el, env)
			if err != nil {
				return v, err
			}
			if v, err = t.coerce(el, v, ty.el[0]); err != nil {
				return v, err
			}
			parts = append(parts, v.s)
		}
		return rgExpr{s: "[" + strings.Join(parts, ", ") + "]", atomic: true, ty: ty}, nil
	}
	var tn string
	switch ty.k {
	case rgStruct:
		tn = ty.name
	case rgPoint, rgSeg, rgRect:
		tn = rgRecvTypeName[ty.k]
	default:
		return rgExpr{}, t.errf(c, "composite literal of %s", ty.goName())
	}
	names, tys, _ := t.pkg.structFields(tn)
	vals := make([]rgExpr, len(names))
	set := make([]bool, len(names))
	for i, el := range c.Elts {
		idx, val := i, el
		if kv, ok := el.(*ast.KeyValueExpr); ok {
			k, isId := kv.Key.(*ast.Ident)
			idx = -1
			for j, n := range names {
				if isId && n == k.Name {
					idx = j
				}
			}
			val = kv.Value
		} else if i >= len(names) {
			idx = -1
		}
		if idx < 0 || set[idx] {
			return rgExpr{}, t.errf(el, "%s literal: bad element", tn)
		}
		ft, ok := t.pkg.parseType(tys[idx])
		if !ok {
			return rgExpr{}, t.errf(el, "field %s.%s: type outside the subset", tn, names[idx])
		}
		v, err := t.expr(val, env)
		if err != nil {
			return v, err
		}
		if v, err = t.coerce(val, v, ft); err != nil {
			return v, err
		}
		vals[idx], set[idx] = v, true
	}
	for i := range names {
		if !set[i] {
			return rgExpr{}, t.errf(c, "%s literal without field %s (zero values are outside the subset)", tn, names[i])
		}
	}
	if ty.k == rgStruct {
		t.pkg.useStruct(tn)
		var parts []string
		for i, n := range names {
			parts = append(parts, rgFieldName(n)+" := "+vals[i].s)
		}
		return rgExpr{s: "{ " + strings.Join(parts, ", ") + " : " + ty.lean() + " }", atomic: true, ty: ty}, nil
	}
	op, s := "mk"+tn, ""
	var ptys []rgTy
	for i := range names {
		ft, _ := t.pkg.parseType(tys[i])
		ptys = append(ptys, ft)
		s += " " + vals[i].atom()
	}
	t.pkg.useOp(op, ptys, ty.lean(), fmt.Sprintf("the literal `%s{%s}` — geometry/%s", tn, strings.Join(names, ", "), t.pkg.pos(t.pkg.types[tn])))
	return rgExpr{s: "ops." + op + s, ty: ty}, nil
}

// signatures of the functions of other packages that may be called
var rgExtern = map[string]struct {
	params []rgTy
	result rgTy
	doc    string
}{
	"math.Inf": {[]rgTy{{k: rgInt}}, rgTy{k: rgF64}, "`func Inf(sign int) float64` of package math"},
}

// opSig: the parameter and result types of a callee that becomes an Ops field.  A method whose
// last parameter is an iterator `func(…) bool` and that returns nothing (Search) becomes a field
// returning the LIST of the argument tuples the iterator is offered, in order.
func (t *rgTr) opSig(ft *ast.FuncType) (params []rgTy, result rgTy, iter *rgTy, err error) {
	for _, f := range ft.Params.List {
		if _, ok := f.Type.(*ast.Ellipsis); ok {
			return nil, rgTy{}, nil, fmt.Errorf("variadic callee")
		}
		ty, ok := t.pkg.parseType(f.Type)
		if !ok || ty.k == rgPtr {
			return nil, rgTy{}, nil, fmt.Errorf("callee parameter type outside the subset")
		}
		for i := 0; i < len(f.Names) || i == 0; i++ {
			params = append(params, ty)
		}
	}
	for i, p := range params {
		if p.k == rgIter {
			if i != len(params)-1 || ft.Results != nil {
				return nil, rgTy{}, nil, fmt.Errorf("iterator parameter outside the subset")
			}
			it := p
			return params[:i], rgTy{k: rgVoid}, &it, nil
		}
	}
	if ft.Results == nil || len(ft.Results.List) != 1 || len(ft.Results.List[0].Names) > 1 {
		return nil, rgTy{}, nil, fmt.Errorf("callee must have exactly one result")
	}
	result, ok := t.pkg.parseType(ft.Results.List[0].Type)
	if !ok || result.k == rgPtr || result.k == rgIter {
		return nil, rgTy{}, nil, fmt.Errorf("callee result type outside the subset")
	}
	return params, result, nil, nil
}

func (t *rgTr) args(c *ast.CallExpr, env *rgEnv) ([]rgExpr, error) {
	if c.Ellipsis.IsValid() {
		return nil, t.errf(c, "variadic call")
	}
	var args []rgExpr
	for _, a := range c.Args {
		v, err := t.expr(a, env)
		if err != nil {
			return nil, err
		}
		args = append(args, v)
	}
	return args, nil
}

func (t *rgTr) apply(c *ast.CallExpr, head string, args []rgExpr, params []rgTy, what string) (string, error) {
	if len(args) != len(params) {
		return "", t.errf(c, "%s: %d arguments for %d parameters", what, len(args), len(params))
	}
	s := head
	for i := range args {
		a, err := t.coerce(c, args[i], params[i])
		if err != nil {
			return "", err
		}
		s += " " + a.atom()
	}
	return s, nil
}

// methodOp: receiver.M(args) as the Ops field <type>M; withIter: the Search form.
func (t *rgTr) methodOp(c *ast.CallExpr, f *ast.SelectorExpr, args []rgExpr, env *rgEnv, withIter bool) (rgExpr, *rgTy, error) {
	recv, err := t.expr(f.X, env)
	if err != nil {
		return recv, nil, err
	}
	tn, ok := rgRecvTypeName[recv.ty.k]
	if !ok {
		return recv, nil, t.errf(c, "method call on a %s", recv.ty.goName())
	}
	ft, node := t.pkg.method(recv.ty.k, f.Sel.Name)
	if ft == nil {
		return recv, nil, t.errf(c, "method %s not found on %s", f.Sel.Name, recv.ty.goName())
	}
	what := t.pkg.declText(node)
	params, res, iter, err := t.opSig(ft)
	if err != nil {
		return recv, nil, t.errf(c, "%s: %v", what, err)
	}
	if (iter != nil) != withIter {
		return recv, nil, t.errf(c, "%s: a method with an iterator parameter must be called as a statement, with a function literal", what)
	}
	resL := res.lean()
	if iter != nil {
		resL = "List " + rgAtomTy(rgTupleTy(iter.el).lean())
	}
	opName := rgLowerFirst(tn) + f.Sel.Name
	s, err := t.apply(c, "ops."+opName, append([]rgExpr{recv}, args...), append([]rgTy{recv.ty}, params...), what)
	if err != nil {
		return recv, nil, err
	}
	comment := "Go: `" + what + "` — geometry/" + t.pkg.pos(node)
	if iter != nil {
		comment += "; the list of the " + rgTupleTy(iter.el).goName() + " the iterator is offered, in order (searchFold cuts it where the iterator returns false)"
	}
	t.pkg.useOp(opName, append([]rgTy{recv.ty}, params...), resL, comment)
	if res.k == rgStruct {
		t.pkg.useStruct(res.name)
	}
	return rgExpr{s: s, ty: res}, iter, nil
}

func (t *rgTr) call(c *ast.CallExpr, env *rgEnv) (rgExpr, error) {
	switch f := c.Fun.(type) {
	case *ast.Ident:
		if _, local := env.vars[f.Name]; local {
			return rgExpr{}, t.errf(c, "call of a local value")
		}
		if f.Name == "len" && t.pkg.funcs["len"] == nil && len(c.Args) == 1 {
			x, err := t.expr(c.Args[0], env)
			if err != nil {
				return x, err
			}
			if x.ty.k != rgArray {
				return x, t.errf(c, "len of a %s", x.ty.goName())
			}
			return rgExpr{s: fmt.Sprint(x.ty.n), atomic: true, ty: rgTy{k: rgUInt}}, nil
		}
		if ty, isType := t.pkg.parseType(f); isType && t.pkg.funcs[f.Name] == nil && len(c.Args) == 1 {
			// conversion T(x)
			x, err := t.expr(c.Args[0], env)
			if err != nil {
				return x, err
			}
			if ty.k == rgRing && x.ty.k == rgBS {
				t.pkg.useOp("ringOfBaseSeries", []rgTy{x.ty}, "R", "the conversion of a *baseSeries to the interface Ring (= Series)")
				return rgExpr{s: "ops.ringOfBaseSeries " + x.atom(), ty: ty}, nil
			}
			return t.coerce(c, x, ty)
		}
		args, err := t.args(c, env)
		if err != nil {
			return rgExpr{}, err
		}
		d := t.pkg.funcs[f.Name]
		if d == nil {
			return rgExpr{}, t.errf(c, "call of %s: not a function of package geometry", f.Name)
		}
		if d == t.fn { // direct recursion: the function itself becomes an Ops field
			var ptys []rgTy
			for _, p := range d.params {
				ptys = append(ptys, p.ty)
			}
			if len(d.ptrOuts) != 0 {
				return rgExpr{}, t.errf(c, "recursion with pointer parameters")
			}
			op := "rec_" + d.leanName
			s, err := t.apply(c, "ops."+op, args, ptys, d.key)
			if err != nil {
				return rgExpr{}, err
			}
			t.pkg.useOp(op, ptys, d.result.lean(), "RECURSION: the Go function "+d.key+" itself, as called from its own body — geometry/"+t.pkg.pos(d.decl))
			d.selfRec = true
			return rgExpr{s: s, ty: d.result}, nil
		}
		g := t.pkg.request(f.Name)
		switch {
		case g.state == 1:
			return rgExpr{}, t.errf(c, "mutual recursion through %s", f.Name)
		case g.err != nil:
			return rgExpr{}, t.errf(c, "calls %s, which is not recognised", f.Name)
		case len(g.ptrOuts) != 0:
			return rgExpr{}, t.errf(c, "call of %s (pointer parameters) in a position outside the subset", f.Name)
		}
		return t.callFn(c, g, args)
	case *ast.SelectorExpr:
		if id, ok := f.X.(*ast.Ident); ok {
			if _, local := env.vars[id.Name]; !local && t.pkg.imports[id.Name] {
				x, known := rgExtern[id.Name+"."+f.Sel.Name]
				if !known {
					return rgExpr{}, t.errf(c, "call of %s.%s: not in the table of known external functions", id.Name, f.Sel.Name)
				}
				args, err := t.args(c, env)
				if err != nil {
					return rgExpr{}, err
				}
				op := id.Name + f.Sel.Name
				s, err := t.apply(c, "ops."+op, args, x.params, id.Name+"."+f.Sel.Name)
				if err != nil {
					return rgExpr{}, err
				}
				t.pkg.useOp(op, x.params, x.result.lean(), x.doc)
				return rgExpr{s: s, ty: x.result}, nil
			}
		}
		args, err := t.args(c, env)
		if err != nil {
			return rgExpr{}, err
		}
		v, _, err := t.methodOp(c, f, args, env, false)
		return v, err
	}
	return rgExpr{}, t.errf(c, "call outside the subset")
}

// callFn: a call of another translated function (no pointer parameters).
func (t *rgTr) callFn(c *ast.CallExpr, g *rgFunc, args []rgExpr) (rgExpr, error) {
	var ptys []rgTy
	for _, p := range g.params {
		ptys = append(ptys, p.ty)
	}
	s, err := t.apply(c, g.leanName+" ops", args, ptys, g.key)
	if err != nil {
		return rgExpr{}, err
	}
	for k := range g.inh {
		t.fn.inh[k] = true
	}
	return rgExpr{s: s, ty: g.full}, nil
}

// ---------------------------------------------------------------------------------------------
// statements (continuation style: a statement list becomes one expression)

const (
	rgFn      = iota // function body: `return e` is the value
	rgLoop           // body of a counting loop: Flow
	rgClosure        // body of an iterator literal: (state, continue?)
	rgJoin           // arm of an `if` that is joined through the variables it assigns
)

type rgMode struct {
	kind  int
	state []string // Go names of the threaded variables (not rgFn)
}

func (t *rgTr) stateTuple(names []string, env *rgEnv) string {
	var parts []string
	for _, n := range names {
		parts = append(parts, env.vars[n].lean)
	}
	return rgTupleStr(parts)
}

func (t *rgTr) stateType(names []string, env *rgEnv) rgTy {
	var tys []rgTy
	for _, n := range names {
		tys = append(tys, env.vars[n].ty)
	}
	return rgTupleTy(tys)
}

// bindState: `let x : T := v.i` for every state variable.
func (t *rgTr) bindState(names []string, env *rgEnv, v string) []string {
	var out []string
	for i, n := range names {
		x := env.vars[n]
		out = append(out, "let "+x.lean+" : "+x.ty.lean()+" := "+rgProj(v, i, len(names)))
	}
	return out
}

// fnResult: the value of the function at `return vals` (the results, then the pointer outputs).
func (t *rgTr) fnResult(vals []string, env *rgEnv) string {
	parts := append([]string{}, vals...)
	for _, i := range t.fn.ptrOuts {
		parts = append(parts, t.fn.params[i].lean)
	}
	return rgTupleStr(parts)
}

func (t *rgTr) wrapRet(m rgMode, v string) string {
	if m.kind == rgLoop {
		return "Flow.ret " + rgAtom(v)
	}
	return v
}

func rgAtom(s string) string {
	if strings.ContainsAny(s, " ") && !(strings.HasPrefix(s, "(") && strings.HasSuffix(s, ")") && rgBalanced(s[1:len(s)-1])) {
		return "(" + s + ")"
	}
	return s
}

func rgBalanced(s string) bool {
	d := 0
	for _, c := range s {
		switch c {
		case '(':
			d++
		case ')':
			if d--; d < 0 {
				return false
			}
		}
	}
	return d == 0
}

// liftCall: a call of a translated function with pointer parameters, `g(…, &x, …)`.  The call
// is bound to c', the variables behind the pointers are rebound to the values g leaves in them,
// and the value of the call is c'.1 .
func (t *rgTr) liftCall(e ast.Expr, env *rgEnv) ([]string, rgExpr, bool, error) {
	for {
		p, ok := e.(*ast.ParenExpr)
		if !ok {
			break
		}
		e = p.X
	}
	c, ok := e.(*ast.CallExpr)
	if !ok {
		return nil, rgExpr{}, false, nil
	}
	id, ok := c.Fun.(*ast.Ident)
	if !ok || env.vars[id.Name].lean != "" || t.pkg.funcs[id.Name] == nil || t.pkg.funcs[id.Name] == t.fn {
		return nil, rgExpr{}, false, nil
	}
	g := t.pkg.request(id.Name)
	if g.state == 1 || g.err != nil || len(g.ptrOuts) == 0 {
		return nil, rgExpr{}, false, nil
	}
	if c.Ellipsis.IsValid() || len(c.Args) != len(g.params) {
		return nil, rgExpr{}, true, t.errf(c, "%s: wrong number of arguments", g.key)
	}
	s := g.leanName + " ops"
	var outs []string
	seen := map[string]bool{}
	for i, a := range c.Args {
		want := g.params[i].ty
		if want.k != rgPtr {
			v, err := t.expr(a, env)
			if err != nil {
				return nil, rgExpr{}, true, err
			}
			if v, err = t.coerce(a, v, want); err != nil {
				return nil, rgExpr{}, true, err
			}
			s += " " + v.atom()
			continue
		}
		name := ""
		if u, ok := a.(*ast.UnaryExpr); ok && u.Op == token.AND {
			if x, ok := u.X.(*ast.Ident); ok && env.vars[x.Name].lean != "" && env.vars[x.Name].ty.same(want.el[0]) {
				name = x.Name
			}
		} else if x, ok := a.(*ast.Ident); ok && env.vars[x.Name].ty.same(want) {
			name = x.Name
		}
		if name == "" || seen[name] {
			return nil, rgExpr{}, true, t.errf(a, "argument for a pointer parameter must be &x for a distinct local variable x (or a pointer parameter)")
		}
		seen[name] = true
		outs = append(outs, name)
		s += " " + env.vars[name].lean
	}
	for k := range g.inh {
		t.fn.inh[k] = true
	}
	lines := []string{"let c' : " + g.full.lean() + " := " + s}
	n := len(outs) + 1
	for j, name := range outs {
		v := env.vars[name]
		lines = append(lines, "let "+v.lean+" : "+v.ty.lean()+" := "+rgProj("c'", j+1, n))
	}
	return lines, rgExpr{s: rgProj("c'", 0, n), atomic: true, ty: g.result}, true, nil
}

// value: an expression in statement position (lifting a call with pointer arguments).
func (t *rgTr) value(e ast.Expr, env *rgEnv) ([]string, rgExpr, error) {
	if pre, v, is, err := t.liftCall(e, env); is {
		return pre, v, err
	}
	v, err := t.expr(e, env)
	return nil, v, err
}

// assignedIn lists, in order of first appearance, the variables of env that the nodes assign
// (x = …, x op= …, x++, *p = …, &x or a pointer passed as an argument; function literals included).
func (t *rgTr) assignedIn(env *rgEnv, nodes ...ast.Node) []string {
	var names []string
	seen := map[string]bool{}
	add := func(e ast.Expr) {
		if s, ok := e.(*ast.StarExpr); ok {
			e = s.X
		}
		if id, ok := e.(*ast.Ident); ok {
			if _, isVar := env.vars[id.Name]; isVar && !seen[id.Name] {
				seen[id.Name] = true
				names = append(names, id.Name)
			}
		}
	}
	for _, n := range nodes {
		if n == nil {
			continue
		}
		ast.Inspect(n, func(n ast.Node) bool {
			switch n := n.(type) {
			case *ast.AssignStmt:
				for _, l := range n.Lhs {
					add(l)
				}
			case *ast.IncDecStmt:
				add(n.X)
			case *ast.CallExpr:
				for _, a := range n.Args {
					if u, ok := a.(*ast.UnaryExpr); ok && u.Op == token.AND {
						add(u.X)
					} else if id, ok := a.(*ast.Ident); ok && env.vars[id.Name].ty.k == rgPtr {
						add(id)
					}
				}
			}
			return true
		})
	}
	return names
}

// escapes: does the statement contain return / break / continue / goto (outside of function
// literals, whose returns are their own)?
func rgEscapes(n ast.Node) bool {
	found := false
	ast.Inspect(n, func(n ast.Node) bool {
		switch n.(type) {
		case *ast.FuncLit:
			return false
		case *ast.ReturnStmt, *ast.BranchStmt:
			found = true
		}
		return !found
	})
	return found
}

func (t *rgTr) declare(n ast.Node, name string, ty rgTy, env *rgEnv) (string, error) {
	if _, exists := env.vars[name]; exists {
		return "", t.errf(n, "redeclaration of %s (shadowing is outside the subset)", name)
	}
	if ty.k == rgUInt {
		ty = rgTy{k: rgInt}
	}
	if ty.k == rgVoid || ty.k == rgTuple || ty.k == rgIter || ty.k == rgPtr {
		return "", t.errf(n, "variable %s of type %s", name, ty.goName())
	}
	id, err := t.pkg.ident(name)
	if err != nil {
		return "", t.errf(n, "%v", err)
	}
	env.vars[name] = rgVar{lean: id, ty: ty}
	return id, nil
}

func (t *rgTr) block(list []ast.Stmt, env *rgEnv, m rgMode) ([]string, error) {
	if t.n++; t.n > 4000 {
		return nil, fmt.Errorf("%s: too many copies made by `if` statements that fall through", t.fn.key)
	}
	if len(list) == 0 {
		switch m.kind {
		case rgLoop:
			return []string{"Flow.next " + rgAtom(t.stateTuple(m.state, env))}, nil
		case rgJoin:
			return []string{t.stateTuple(m.state, env)}, nil
		case rgClosure:
			return nil, fmt.Errorf("%s: control reaches the end of a function literal", t.fn.key)
		}
		return nil, fmt.Errorf("%s: control reaches the end of the function", t.fn.key)
	}
	rest := list[1:]
	then := func(pre []string) ([]string, error) {
		tail, err := t.block(rest, env, m)
		if err != nil {
			return nil, err
		}
		return append(pre, tail...), nil
	}
	switch s := list[0].(type) {
	case *ast.EmptyStmt:
		if keep, ok := t.scopeEnd[s]; ok { // end of a block: its variables go out of scope
			for k := range env.vars {
				if !keep[k] {
					delete(env.vars, k)
				}
			}
		}
		return t.block(rest, env, m)
	case *ast.ReturnStmt:
		return t.returnStmt(s, env, m)
	case *ast.BranchStmt:
		if s.Label != nil || m.kind != rgLoop || (s.Tok != token.BREAK && s.Tok != token.CONTINUE) {
			return nil, t.errf(s, "%s outside the subset", s.Tok)
		}
		if s.Tok == token.BREAK {
			return []string{"Flow.brk " + rgAtom(t.stateTuple(m.state, env))}, nil
		}
		return []string{"Flow.next " + rgAtom(t.stateTuple(m.state, env))}, nil
	case *ast.AssignStmt:
		pre, err := t.assign(s, env)
		if err != nil {
			return nil, err
		}
		return then(pre)
	case *ast.IncDecStmt:
		id, ok := s.X.(*ast.Ident)
		v := env.vars[""]
		if ok {
			v, ok = env.vars[id.Name]
		}
		if !ok || v.ty.k != rgInt {
			return nil, t.errf(s, "%s on something that is not an int variable", s.Tok)
		}
		op := map[token.Token]string{token.INC: "+", token.DEC: "-"}[s.Tok]
		return then([]string{"let " + v.lean + " : Int := " + v.lean + " " + op + " 1"})
	case *ast.DeclStmt:
		pre, err := t.declStmt(s, env)
		if err != nil {
			return nil, err
		}
		return then(pre)
	case *ast.ExprStmt:
		if c, ok := s.X.(*ast.CallExpr); ok && len(c.Args) > 0 {
			if lit, ok := c.Args[len(c.Args)-1].(*ast.FuncLit); ok {
				pre, err := t.searchStmt(c, lit, env)
				if err != nil {
					return nil, err
				}
				return then(pre)
			}
		}
		pre, _, is, err := t.liftCall(s.X, env)
		if err != nil {
			return nil, err
		}
		if !is {
			return nil, t.errf(s, "expression statement outside the subset")
		}
		return then(pre)
	case *ast.IfStmt:
		return t.ifStmt(s, rest, env, m)
	case *ast.ForStmt:
		return t.forStmt(s, rest, env, m)
	}
	return nil, t.errf(list[0], "statement outside the subset (%T)", list[0])
}

func (t *rgTr) returnStmt(s *ast.ReturnStmt, env *rgEnv, m rgMode) ([]string, error) {
	if m.kind == rgJoin {
		return nil, t.errf(s, "internal: return in a joined if")
	}
	if m.kind == rgClosure {
		if len(s.Results) != 1 {
			return nil, t.errf(s, "function literal must return one bool")
		}
		pre, v, err := t.value(s.Results[0], env)
		if err != nil {
			return nil, err
		}
		if v.ty.k != rgBool {
			return nil, t.errf(s, "function literal returns %s", v.ty.goName())
		}
		return append(pre, "("+t.stateTuple(m.state, env)+", "+v.s+")"), nil
	}
	var want []rgTy
	switch t.fn.result.k {
	case rgVoid:
	case rgTuple:
		want = t.fn.result.el
	default:
		want = []rgTy{t.fn.result}
	}
	if len(s.Results) != len(want) {
		return nil, t.errf(s, "return with %d values for %d results", len(s.Results), len(want))
	}
	var pre, vals []string
	for i, r := range s.Results {
		var p []string
		var v rgExpr
		var err error
		if len(s.Results) == 1 {
			p, v, err = t.value(r, env)
		} else {
			v, err = t.expr(r, env)
		}
		if err != nil {
			return nil, err
		}
		if v, err = t.coerce(r, v, want[i]); err != nil {
			return nil, err
		}
		pre, vals = append(pre, p...), append(vals, v.s)
	}
	return append(pre, t.wrapRet(m, t.fnResult(vals, env))), nil
}

// assign: x := e, x = e, x op= e, *p = e, parallel assignment, results of a multi-valued call.
func (t *rgTr) assign(s *ast.AssignStmt, env *rgEnv) ([]string, error) {
	target := func(l ast.Expr, ty rgTy) (rgVar, error) {
		if st, ok := l.(*ast.StarExpr); ok && s.Tok == token.ASSIGN {
			if id, ok := st.X.(*ast.Ident); ok && env.vars[id.Name].ty.k == rgPtr {
				v := env.vars[id.Name]
				return rgVar{lean: v.lean, ty: v.ty.el[0]}, nil
			}
		}
		id, ok := l.(*ast.Ident)
		if !ok {
			return rgVar{}, t.errf(l, "assignment to something that is not a plain variable")
		}
		if id.Name == "_" {
			return rgVar{lean: "_", ty: ty}, nil
		}
		if s.Tok == token.DEFINE {
			if _, exists := env.vars[id.Name]; !exists || len(s.Lhs) == 1 {
				name, err := t.declare(s, id.Name, ty, env)
				return rgVar{lean: name, ty: env.vars[id.Name].ty}, err
			}
		}
		v, exists := env.vars[id.Name]
		if !exists || v.ty.k == rgPtr {
			return rgVar{}, t.errf(l, "assignment to %s, which is not a local variable", id.Name)
		}
		return v, nil
	}
	bind := func(l ast.Expr, v rgExpr) (string, error) {
		x, err := target(l, v.ty)
		if err != nil {
			return "", err
		}
		if v, err = t.coerce(l, v, x.ty); err != nil {
			return "", err
		}
		return "let " + x.lean + " : " + x.ty.lean() + " := " + v.s, nil
	}
	if op, isOp := map[token.Token]token.Token{token.ADD_ASSIGN: token.ADD, token.SUB_ASSIGN: token.SUB,
		token.MUL_ASSIGN: token.MUL}[s.Tok]; isOp && len(s.Lhs) == 1 && len(s.Rhs) == 1 {
		id, ok := s.Lhs[0].(*ast.Ident)
		if !ok || env.vars[id.Name].lean == "" || env.vars[id.Name].ty.k == rgPtr {
			return nil, t.errf(s, "%s on something that is not a local variable", s.Tok)
		}
		v, err := t.binary(&ast.BinaryExpr{X: id, OpPos: s.TokPos, Op: op, Y: &ast.ParenExpr{Lparen: s.Rhs[0].Pos(), X: s.Rhs[0]}}, env)
		if err != nil {
			return nil, err
		}
		x := env.vars[id.Name]
		if v, err = t.coerce(s, v, x.ty); err != nil {
			return nil, err
		}
		return []string{"let " + x.lean + " : " + x.ty.lean() + " := " + v.s}, nil
	}
	if s.Tok != token.DEFINE && s.Tok != token.ASSIGN {
		return nil, t.errf(s, "assignment operator %s outside the subset", s.Tok)
	}
	switch {
	case len(s.Lhs) == 1 && len(s.Rhs) == 1:
		pre, v, err := t.value(s.Rhs[0], env)
		if err != nil {
			return nil, err
		}
		line, err := bind(s.Lhs[0], v)
		return append(pre, line), err
	case len(s.Rhs) == 1: // a, b = f(…)
		pre, v, err := t.value(s.Rhs[0], env)
		if err != nil {
			return nil, err
		}
		if v.ty.k != rgTuple || len(v.ty.el) != len(s.Lhs) {
			return nil, t.errf(s, "assignment of %s to %d variables", v.ty.goName(), len(s.Lhs))
		}
		pre = append(pre, "let r' : "+v.ty.lean()+" := "+v.s)
		for i, l := range s.Lhs {
			line, err := bind(l, rgExpr{s: rgProj("r'", i, len(s.Lhs)), atomic: true, ty: v.ty.el[i]})
			if err != nil {
				return nil, err
			}
			pre = append(pre, line)
		}
		return pre, nil
	case len(s.Lhs) == len(s.Rhs): // parallel assignment: all right-hand sides first
		var vals []rgExpr
		var parts []string
		var tys []rgTy
		for _, r := range s.Rhs {
			v, err := t.expr(r, env)
			if err != nil {
				return nil, err
			}
			if v.ty.k == rgUInt {
				v.ty = rgTy{k: rgInt}
			}
			vals, parts, tys = append(vals, v), append(parts, v.s), append(tys, v.ty)
		}
		pre := []string{"let r' : " + rgTupleTy(tys).lean() + " := " + rgTupleStr(parts)}
		for i, l := range s.Lhs {
			line, err := bind(l, rgExpr{s: rgProj("r'", i, len(s.Lhs)), atomic: true, ty: vals[i].ty})
			if err != nil {
				return nil, err
			}
			pre = append(pre, line)
		}
		return pre, nil
	}
	return nil, t.errf(s, "assignment outside the subset")
}

func (t *rgTr) declStmt(s *ast.DeclStmt, env *rgEnv) ([]string, error) {
	g, ok := s.Decl.(*ast.GenDecl)
	if !ok || g.Tok != token.VAR || len(g.Specs) != 1 {
		return nil, t.errf(s, "declaration outside the subset")
	}
	sp := g.Specs[0].(*ast.ValueSpec)
	if len(sp.Names) != 1 || len(sp.Values) > 1 || (sp.Type == nil && len(sp.Values) == 0) {
		return nil, t.errf(s, "var declaration outside the subset")
	}
	var pre []string
	var v rgExpr
	var err error
	if len(sp.Values) == 1 {
		if pre, v, err = t.value(sp.Values[0], env); err != nil {
			return nil, err
		}
	}
	ty := v.ty
	if sp.Type != nil {
		if ty, ok = t.pkg.parseType(sp.Type); !ok {
			return nil, t.errf(s, "variable type outside the subset")
		}
		if len(sp.Values) == 1 {
			if v, err = t.coerce(s, v, ty); err != nil {
				return nil, err
			}
		} else {
			switch ty.k {
			case rgBool:
				v = rgExpr{s: "false"}
			case rgInt:
				v = rgExpr{s: "0"}
			case rgF64:
				if v, err = t.coerce(s, rgExpr{s: "0", atomic: true, ty: rgTy{k: rgUInt}}, ty); err != nil {
					return nil, err
				}
			default:
				return nil, t.errf(s, "zero value of %s outside the subset", ty.goName())
			}
		}
	}
	name, err := t.declare(s, sp.Names[0].Name, ty, env)
	if err != nil {
		return nil, err
	}
	return append(pre, "let "+name+" : "+env.vars[sp.Names[0].Name].ty.lean()+" := "+v.s), nil
}

func rgElse(s *ast.IfStmt) []ast.Stmt {
	switch e := s.Else.(type) {
	case *ast.BlockStmt:
		return e.List
	case *ast.IfStmt:
		return []ast.Stmt{e}
	}
	return nil
}

// scoped: body ++ [end-of-block marker] ++ rest
func (t *rgTr) scoped(body, rest []ast.Stmt, env *rgEnv) []ast.Stmt {
	keep := map[string]bool{}
	for k := range env.vars {
		keep[k] = true
	}
	mark := &ast.EmptyStmt{Implicit: true}
	t.scopeEnd[mark] = keep
	out := append(append([]ast.Stmt{}, body...), mark)
	return append(out, rest...)
}

func (t *rgTr) ifStmt(s *ast.IfStmt, rest []ast.Stmt, env *rgEnv, m rgMode) ([]string, error) {
	if s.Init != nil {
		return t.typeAssertIf(s, rest, env, m)
	}
	c, err := t.boolExpr(s.Cond, env)
	if err != nil {
		return nil, err
	}
	els := rgElse(s)
	if len(rest) > 0 && !rgEscapes(s) {
		// joined: neither arm leaves; the variables the arms assign are the value of the `if`
		state := t.assignedIn(env, s.Body, s.Else)
		jm := rgMode{kind: rgJoin, state: state}
		th, err := t.block(t.scoped(s.Body.List, nil, env), env.copy(), jm)
		if err != nil {
			return nil, err
		}
		el, err := t.block(t.scoped(els, nil, env), env.copy(), jm)
		if err != nil {
			return nil, err
		}
		lines := rgIfLines(c.s, th, el)
		lines[0] = "let j' : " + t.stateType(state, env).lean() + " := " + lines[0]
		out := append([]string{lines[0]}, rgIndent(lines[1:])...)
		out = append(out, t.bindState(state, env, "j'")...)
		tail, err := t.block(rest, env, m)
		if err != nil {
			return nil, err
		}
		return append(out, tail...), nil
	}
	th, err := t.block(t.scoped(s.Body.List, rest, env), env.copy(), m)
	if err != nil {
		return nil, err
	}
	el, err := t.block(t.scoped(els, rest, env), env.copy(), m)
	if err != nil {
		return nil, err
	}
	return rgIfLines(c.s, th, el), nil
}

// typeAssertIf: `if v, ok := x.(*baseSeries); ok { A } else { B }` ↦ match on ops.ringAsBaseSeries x.
func (t *rgTr) typeAssertIf(s *ast.IfStmt, rest []ast.Stmt, env *rgEnv, m rgMode) ([]string, error) {
	as, ok := s.Init.(*ast.AssignStmt)
	if !ok || as.Tok != token.DEFINE || len(as.Lhs) != 2 || len(as.Rhs) != 1 {
		return nil, t.errf(s, "if with an init statement that is not `v, ok := x.(T)`")
	}
	ta, isTA := as.Rhs[0].(*ast.TypeAssertExpr)
	v, ok1 := as.Lhs[0].(*ast.Ident)
	okv, ok2 := as.Lhs[1].(*ast.Ident)
	cond, ok3 := s.Cond.(*ast.Ident)
	if !isTA || ta.Type == nil || !ok1 || !ok2 || !ok3 || cond.Name != okv.Name || okv.Name == "_" {
		return nil, t.errf(s, "if with an init statement that is not `v, ok := x.(T); ok`")
	}
	x, err := t.expr(ta.X, env)
	if err != nil {
		return nil, err
	}
	ty, okT := t.pkg.parseType(ta.Type)
	if !okT || x.ty.k != rgRing || ty.k != rgBS {
		return nil, t.errf(s, "type assertion other than Ring.(*baseSeries)")
	}
	t.pkg.useOp("ringAsBaseSeries", []rgTy{x.ty}, "Option BS",
		"the type assertion `ring.(*baseSeries)`: some bs when the dynamic type of the Ring is *baseSeries")
	someEnv, noneEnv := env.copy(), env.copy()
	bindV := "_"
	if v.Name != "_" {
		if bindV, err = t.declare(s, v.Name, ty, someEnv); err != nil {
			return nil, err
		}
	}
	okS, err := t.declare(s, okv.Name, rgTy{k: rgBool}, someEnv)
	if err != nil {
		return nil, err
	}
	if _, err = t.declare(s, okv.Name, rgTy{k: rgBool}, noneEnv); err != nil {
		return nil, err
	}
	th, err := t.block(t.scoped(s.Body.List, rest, env), someEnv, m)
	if err != nil {
		return nil, err
	}
	el, err := t.block(t.scoped(rgElse(s), rest, env), noneEnv, m)
	if err != nil {
		return nil, err
	}
	out := []string{"(match ops.ringAsBaseSeries " + x.atom() + " with", "| some " + bindV + " =>", "  let " + okS + " : Bool := true"}
	out = append(out, rgIndent(th)...)
	out = append(out, "| none =>", "  let "+okS+" : Bool := false")
	out = append(out, rgIndent(el)...)
	out[len(out)-1] += ")"
	return out, nil
}

func rgUses(e ast.Expr, names []string) bool {
	found := false
	ast.Inspect(e, func(n ast.Node) bool {
		if id, ok := n.(*ast.Ident); ok {
			for _, x := range names {
				found = found || x == id.Name
			}
		}
		return !found
	})
	return found
}

// forStmt: `for i := lo; i < hi; i++ { body }` with hi not assigned in the body.
func (t *rgTr) forStmt(s *ast.ForStmt, rest []ast.Stmt, env *rgEnv, m rgMode) ([]string, error) {
	init, ok1 := s.Init.(*ast.AssignStmt)
	cond, ok2 := s.Cond.(*ast.BinaryExpr)
	post, ok3 := s.Post.(*ast.IncDecStmt)
	if !ok1 || !ok2 || !ok3 || init.Tok != token.DEFINE || len(init.Lhs) != 1 || len(init.Rhs) != 1 ||
		cond.Op != token.LSS || post.Tok != token.INC {
		return nil, t.errf(s, "loop that is not `for i := lo; i < hi; i++`")
	}
	iv, ok1 := init.Lhs[0].(*ast.Ident)
	cv, ok2 := cond.X.(*ast.Ident)
	pv, ok3 := post.X.(*ast.Ident)
	if !ok1 || !ok2 || !ok3 || cv.Name != iv.Name || pv.Name != iv.Name || iv.Name == "_" {
		return nil, t.errf(s, "loop that is not `for i := lo; i < hi; i++`")
	}
	returns := false
	ast.Inspect(s.Body, func(n ast.Node) bool {
		switch n.(type) {
		case *ast.FuncLit:
			return false
		case *ast.ReturnStmt:
			returns = true
		}
		return true
	})
	if returns && m.kind != rgFn && m.kind != rgLoop {
		return nil, t.errf(s, "loop with a return inside a function literal")
	}
	lo, err := t.expr(init.Rhs[0], env)
	if err != nil {
		return nil, err
	}
	if lo, err = t.coerce(s, lo, rgTy{k: rgInt}); err != nil {
		return nil, err
	}
	hi, err := t.expr(cond.Y, env)
	if err != nil {
		return nil, err
	}
	if hi, err = t.coerce(s, hi, rgTy{k: rgInt}); err != nil {
		return nil, err
	}
	inner := env.copy()
	ivar, err := t.declare(s, iv.Name, rgTy{k: rgInt}, inner)
	if err != nil {
		return nil, err
	}
	state := t.assignedIn(env, s.Body)
	if len(t.assignedIn(inner, s.Body)) != len(state) {
		return nil, t.errf(s, "loop body assigns the loop variable")
	}
	if rgUses(cond.Y, state) || rgUses(cond.Y, []string{iv.Name}) {
		return nil, t.errf(s, "loop bound depends on a variable assigned in the body")
	}
	sigma := t.stateType(state, env).lean()
	rho := "Empty"
	if returns {
		rho = t.fn.full.lean()
	}
	body, err := t.block(t.scoped(s.Body.List, nil, inner), inner, rgMode{kind: rgLoop, state: state})
	if err != nil {
		return nil, err
	}
	out := []string{"(match forRange (σ := " + sigma + ") (ρ := " + rho + ") (fun (" + ivar + " : Int) (st' : " + sigma + ") =>"}
	out = append(out, rgIndent(rgIndent(t.bindState(state, env, "st'")))...)
	out = append(out, rgIndent(rgIndent(body))...)
	out[len(out)-1] += ") (intRange " + lo.atom() + " " + hi.atom() + ") " + rgAtom(t.stateTuple(state, env)) + " with"
	if returns {
		out = append(out, "| Exit.ret r' => "+t.wrapRet(m, "r'"))
	} else {
		out = append(out, "| Exit.ret r' => nomatch r'")
	}
	out = append(out, "| Exit.done st' =>")
	tail, err := t.block(rest, env, m)
	if err != nil {
		return nil, err
	}
	out = append(out, rgIndent(t.bindState(state, env, "st'"))...)
	out = append(out, rgIndent(tail)...)
	out[len(out)-1] += ")"
	return out, nil
}

// searchStmt: `x.Search(args, func(seg Segment, index int) bool { body })` ↦ searchFold of the
// translated body over the list ops.<type>Search x args; the state is the tuple of the captured
// variables the literal assigns; `return e` ↦ (state, e): e = false stops the search.
func (t *rgTr) searchStmt(c *ast.CallExpr, lit *ast.FuncLit, env *rgEnv) ([]string, error) {
	f, ok := c.Fun.(*ast.SelectorExpr)
	if !ok || c.Ellipsis.IsValid() {
		return nil, t.errf(c, "function literal passed to something that is not a method")
	}
	var args []rgExpr
	for _, a := range c.Args[:len(c.Args)-1] {
		v, err := t.expr(a, env)
		if err != nil {
			return nil, err
		}
		args = append(args, v)
	}
	list, iter, err := t.methodOp(c, f, args, env, true)
	if err != nil {
		return nil, err
	}
	litTy, ok := t.pkg.parseType(lit.Type)
	if !ok || !litTy.same(*iter) || len(litTy.el) != len(iter.el) {
		return nil, t.errf(lit, "function literal does not have the iterator's type")
	}
	for i := range litTy.el {
		if !litTy.el[i].same(iter.el[i]) {
			return nil, t.errf(lit, "function literal does not have the iterator's type")
		}
	}
	state := t.assignedIn(env, lit.Body)
	inner := env.copy()
	var binds []string
	i, n := 0, len(iter.el)
	for _, fld := range lit.Type.Params.List {
		for _, name := range fld.Names {
			if name.Name != "_" {
				id, err := t.declare(lit, name.Name, iter.el[i], inner)
				if err != nil {
					return nil, err
				}
				binds = append(binds, "let "+id+" : "+iter.el[i].lean()+" := "+rgProj("x'", i, n))
			}
			i++
		}
		if len(fld.Names) == 0 {
			i++
		}
	}
	if len(t.assignedIn(inner, lit.Body)) != len(state) {
		return nil, t.errf(lit, "function literal assigns its parameters")
	}
	for _, st := range state {
		if env.vars[st].ty.k == rgPtr {
			return nil, t.errf(lit, "function literal assigns through a pointer parameter")
		}
	}
	sigma := t.stateType(state, env).lean()
	body, err := t.block(t.scoped(lit.Body.List, nil, inner), inner, rgMode{kind: rgClosure, state: state})
	if err != nil {
		return nil, err
	}
	out := []string{"let st' : " + sigma + " := searchFold (fun (x' : " + rgTupleTy(iter.el).lean() + ") (st' : " + sigma + ") =>"}
	out = append(out, rgIndent(rgIndent(binds))...)
	out = append(out, rgIndent(rgIndent(t.bindState(state, env, "st'")))...)
	out = append(out, rgIndent(rgIndent(body))...)
	out[len(out)-1] += ") " + list.atom() + " " + rgAtom(t.stateTuple(state, env))
	return append(out, t.bindState(state, env, "st'")...), nil
}

// ---------------------------------------------------------------------------------------------
// functions

func (p *rgPkg) request(key string) *rgFunc {
	f := p.funcs[key]
	if f == nil {
		return nil
	}
	if f.state != 0 {
		return f
	}
	f.state = 1
	f.inh = map[string]bool{}
	t := &rgTr{pkg: p, fn: f, scopeEnd: map[ast.Stmt]map[string]bool{}}
	f.lines, f.err = t.function()
	f.state = 2
	p.order = append(p.order, f)
	return f
}

func (t *rgTr) function() ([]string, error) {
	f, d := t.fn, t.fn.decl
	f.comment = fmt.Sprintf("/-- Go: `%s` — geometry/%s -/", t.pkg.declText(d), t.pkg.pos(d))
	if d.Body == nil {
		return nil, t.errf(d, "function without a body")
	}
	if d.Type.TypeParams != nil || d.Recv != nil {
		return nil, t.errf(d, "generic function or method")
	}
	env := &rgEnv{vars: map[string]rgVar{}}
	var binders []string
	for _, fld := range d.Type.Params.List {
		if _, ok := fld.Type.(*ast.Ellipsis); ok {
			return nil, t.errf(fld, "variadic parameter")
		}
		ty, ok := t.pkg.parseType(fld.Type)
		if !ok || ty.k == rgIter || ty.k == rgArray {
			return nil, t.errf(fld.Type, "parameter type outside the subset")
		}
		for i := 0; i < len(fld.Names) || i == 0; i++ {
			if ty.k == rgPtr {
				f.ptrOuts = append(f.ptrOuts, len(f.params))
			}
			if len(fld.Names) == 0 || fld.Names[i].Name == "_" {
				if ty.k == rgPtr {
					return nil, t.errf(fld, "unnamed pointer parameter")
				}
				f.params = append(f.params, rgParam{ty: ty})
				binders = append(binders, "(_ : "+ty.lean()+")")
				continue
			}
			n := fld.Names[i]
			if _, dup := env.vars[n.Name]; dup {
				return nil, t.errf(n, "duplicate parameter %s", n.Name)
			}
			id, err := t.pkg.ident(n.Name)
			if err != nil {
				return nil, t.errf(n, "%v", err)
			}
			env.vars[n.Name] = rgVar{lean: id, ty: ty}
			f.params = append(f.params, rgParam{lean: id, ty: ty})
			binders = append(binders, "("+id+" : "+ty.lean()+")")
		}
	}
	var results []rgTy
	if d.Type.Results != nil {
		for _, fld := range d.Type.Results.List {
			if len(fld.Names) != 0 {
				return nil, t.errf(d, "named results")
			}
			ty, ok := t.pkg.parseType(fld.Type)
			if !ok || ty.k == rgPtr || ty.k == rgIter || ty.k == rgArray {
				return nil, t.errf(fld.Type, "result type outside the subset")
			}
			if ty.k == rgStruct {
				t.pkg.useStruct(ty.name)
			}
			results = append(results, ty)
		}
	}
	if len(results) == 0 {
		return nil, t.errf(d, "function without a result")
	}
	f.result = rgTupleTy(results)
	all := append([]rgTy{}, results...)
	for _, i := range f.ptrOuts {
		all = append(all, f.params[i].ty.el[0])
	}
	f.full = rgTupleTy(all)
	body, err := t.block(d.Body.List, env, rgMode{kind: rgFn})
	if err != nil {
		return nil, err
	}
	var inh []string
	for k := range f.inh {
		inh = append(inh, k)
	}
	sort.Strings(inh)
	inst := ""
	for _, k := range inh {
		inst += " [Inhabited " + rgAtomTy(k) + "]"
	}
	head := "def " + f.leanName + " {R L BS N P S B : Type}" + inst + " (ops : Ops R L BS N P S B) " +
		strings.Join(binders, " ") + " : " + f.full.lean() + " :="
	return append([]string{head}, rgIndent(body)...), nil
}

// bodyText: the body of a function as printed by go/printer (comments dropped), with the
// names of the parameters replaced positionally by $0, $1, … (whole identifiers only).
func (p *rgPkg) bodyText(f *rgFunc) string {
	var buf bytes.Buffer
	if f.decl.Body == nil || printer.Fprint(&buf, token.NewFileSet(), f.decl.Body) != nil {
		return ""
	}
	ren := map[string]string{}
	i := 0
	for _, fld := range f.decl.Type.Params.List {
		for _, n := range fld.Names {
			ren[n.Name] = fmt.Sprintf("$%d", i)
			i++
		}
	}
	var out strings.Builder
	word := ""
	flush := func() {
		if r, ok := ren[word]; ok {
			out.WriteString(r)
		} else {
			out.WriteString(word)
		}
		word = ""
	}
	for _, c := range buf.String() {
		if c == '_' || unicode.IsLetter(c) || unicode.IsDigit(c) {
			word += string(c)
			continue
		}
		flush()
		out.WriteRune(c)
	}
	flush()
	return strings.Join(strings.Fields(out.String()), " ")
}

const rgHeader = `/-
  GENERATED FILE — do not edit.  Regenerate with
      cd /verif/translate && go build -o bin/translate . && \
        ./bin/translate ring /repo > /verif/lean/GeoModel/Generated/RingGen.lean

  Syntactic translation (translate/ring.go) of the ring-level predicates of package geometry
  (ring.go): ringContainsPoint with its searcher and its two search wrappers, ringIntersectsPoint,
  ringContainsSegment, ringIntersectsSegment, ringContainsRing, ringIntersectsRing,
  ringContainsLine, ringIntersectsLine.

  Conventions:
    * the definitions are parametrised by ` + "`ops : Ops R L BS N P S B`" + `: one field per distinct callee
      that is not itself translated here, found in the source.  R = Ring (= Series, taken to be
      non-nil), L = *Line, BS = *baseSeries, N = float64, P = Point, S = Segment, B = Rect.
      Method T.M ↦ field tM; field F of Point / Segment / Rect ↦ field tF; the literal T{…} ↦ mkT
      (all fields, declaration order); == on Point ↦ pointEq; float64 operators ↦ f64Add, f64Gt, …;
      an untyped integer constant used as a float64 ↦ f64OfInt; math.Inf ↦ mathInf; the implicit
      conversion Rect → Ring ↦ ringOfRect; Ring(bs) ↦ ringOfBaseSeries; &line.baseSeries ↦
      lineBaseSeries.  The callees are taken to be pure;
    * SEARCH: a method with an iterator parameter, ` + "`x.Search(rect, func(seg Segment, index int) bool {…})`" + `,
      ↦ field tSearch : T → B → List (S × Int), the list of the (segment, index) pairs the iterator
      is offered, in order; the call becomes  searchFold (fun x' st' => body) (ops.tSearch x rect) st
      where st is the tuple of the captured variables the literal assigns and ` + "`return e`" + ` in the
      literal ↦ (st, e): the fold stops at the first element for which e is false;
    * a struct whose fields are all bool / int (ringResult, RaycastResult) ↦ a Lean structure with
      the same fields (lower-case first letter; In ↦ in_); int ↦ Int (unbounded: no wrap-around);
      a package constant ↦ a def of type Int; [n]T ↦ List T, a[i] ↦ arrAt a i (out of range, a
      panic in Go, is ` + "`default`" + `), len(a) ↦ n;
    * pointer parameters (*bool, *int) ↦ the value comes in as a parameter and goes out as an
      extra component of the result (result first); a call g(…, &x, …) ↦ let c' := g …, then x is
      rebound to the component of c';
    * ` + "`if v, ok := ring.(*baseSeries); ok {A} else {B}`" + ` ↦ match ops.ringAsBaseSeries ring with
      | some v => A | none => B: BOTH branches are translated;
    * a statement list becomes one expression, continuation style; x := e, x = e, x += e, x++ ↦ let
      (shadowing); the statements after an ` + "`if`" + ` are copied into every arm that falls through,
      except that an ` + "`if`" + ` neither arm of which leaves (no return / break / continue) and that is
      followed by more statements is joined: let j' := if c then (…; vars) else (…; vars), vars
      the variables it assigns;
    * ` + "`for i := lo; i < hi; i++ { body }`" + ` (hi not assigned in the body) ↦ forRange (fun i st' => body)
      (intRange lo hi) st: end of body / continue ↦ Flow.next, break ↦ Flow.brk, return e ↦ Flow.ret e;
      ρ := Empty when the body does not return;
    * RECURSION: a call of the function being translated from its own body ↦ the Ops field
      rec_<name> (the definition is the recursion equation of the Go function).
  Anything outside the recognised subset appears below as  opaque <name>_unrecognised : Unit.
-/

set_option linter.unusedVariables false

namespace Geo.RGen

/-- how one pass through a loop body ends -/
inductive Flow (σ ρ : Type) where
  | next (s : σ) : Flow σ ρ
  | brk (s : σ) : Flow σ ρ
  | ret (r : ρ) : Flow σ ρ

/-- how a loop ends: normally (or by break) with the final state, or by ` + "`return r`" + ` -/
inductive Exit (σ ρ : Type) where
  | done (s : σ) : Exit σ ρ
  | ret (r : ρ) : Exit σ ρ

/-- a counting loop over the list of the values of its variable -/
def forRange {ε σ ρ : Type} (body : ε → σ → Flow σ ρ) : List ε → σ → Exit σ ρ
  | [], s => Exit.done s
  | x :: xs, s =>
    match body x s with
    | Flow.next s' => forRange body xs s'
    | Flow.brk s' => Exit.done s'
    | Flow.ret r => Exit.ret r

/-- the values of i in ` + "`for i := lo; i < hi; i++`" + ` -/
def intRange (lo hi : Int) : List Int := (List.range (hi - lo).toNat).map (fun k => lo + Int.ofNat k)

/-- a Search with iterator f over the list of what the iterator is offered: stops after the first
    element for which f answers false -/
def searchFold {ε σ : Type} (f : ε → σ → σ × Bool) : List ε → σ → σ
  | [], s => s
  | x :: xs, s =>
    match f x s with
    | (s', true) => searchFold f xs s'
    | (s', false) => s'

/-- a[i] on a fixed-size array -/
def arrAt {α : Type} [Inhabited α] (xs : List α) (i : Int) : α :=
  if i < 0 then default else xs.getD i.toNat default
`

func translateRing(repo string) (string, error) {
	pkg, err := rgLoad(repo)
	if err != nil {
		return "", err
	}
	var missing []string
	for _, key := range rgTargets {
		if pkg.request(key) == nil {
			missing = append(missing, key)
		}
	}
	var b strings.Builder
	b.WriteString(rgHeader)
	for _, n := range pkg.structs {
		names, tys, _ := pkg.structFields(n)
		ts := pkg.types[pkg.resolve(n)]
		fmt.Fprintf(&b, "\n/-- Go: `type %s struct` — geometry/%s -/\nstructure %s where\n", n, pkg.pos(ts), rgUpperFirst(n))
		for i, f := range names {
			ty, _ := pkg.parseType(tys[i])
			fmt.Fprintf(&b, "  %s : %s\n", rgFieldName(f), ty.lean())
		}
	}
	for _, n := range pkg.constsU {
		lit := pkg.consts[n].(*ast.BasicLit)
		fmt.Fprintf(&b, "\n/-- Go: `const %s = %s` — geometry/%s -/\ndef %s : Int := %s\n", n, lit.Value, pkg.pos(lit), n, lit.Value)
	}
	var names []string
	for n := range pkg.ops {
		names = append(names, n)
	}
	sort.Strings(names)
	b.WriteString("\n/-- the callees of the ring-level predicates, one field per distinct callee found in the source -/\n")
	b.WriteString("structure Ops (R L BS N P S B : Type) where\n")
	for _, n := range names {
		fmt.Fprintf(&b, "  /-- %s -/\n  %s : %s\n", pkg.ops[n].comment, n, pkg.ops[n].leanType())
	}
	texts := map[*rgFunc]string{}
	for i, f := range pkg.order {
		b.WriteString("\n")
		if f.err != nil {
			fmt.Fprintf(&b, "-- %s: NOT RECOGNISED: %s\n", f.key, strings.ReplaceAll(f.err.Error(), "\n", " "))
			if f.comment != "" {
				b.WriteString(f.comment + "\n")
			}
			fmt.Fprintf(&b, "opaque %s_unrecognised : Unit\n", f.leanName)
			continue
		}
		texts[f] = pkg.bodyText(f)
		for _, g := range pkg.order[:i] {
			if g.err == nil && texts[g] != "" && texts[g] == texts[f] {
				fmt.Fprintf(&b, "-- NOTE (checked mechanically): the body of %s is the body of %s, token for token, up to the\n"+
					"-- names of the parameters (go/printer text, parameters renamed by position); only the parameter types differ.\n", f.key, g.key)
			}
		}
		b.WriteString(f.comment + "\n")
		b.WriteString(strings.Join(f.lines, "\n") + "\n")
	}
	for _, key := range missing {
		fmt.Fprintf(&b, "\n-- %s: NOT RECOGNISED: no such function in package geometry\n", key)
		fmt.Fprintf(&b, "opaque %s_unrecognised : Unit\n", key)
	}
	b.WriteString("\nend Geo.RGen\n")
	return b.String(), nil
}
