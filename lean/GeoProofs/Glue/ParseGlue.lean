/-
  GeoProofs.Glue.ParseGlue — the hand model (GeoModel/Json.lean) as an instance of the operations
  the generated parsers (GeoModel/Generated/ParseGen.lean, `translate parsers`) are parametrised by.

  Instance `PGlue.mops rec`:
    GjsonResult := Option JVal (none = the non-existent Result{});  GjsonType := JType;
    Str = Bytes := List Piece, a text made of characters and of whole JSON values (`Piece.doc v` = the
      raw text of v: only its value matters; pretty.Ugly is the identity on it; the text a value is
      printed to is `JVal.render`; its first byte is the one its kind dictates (`headByte`) and it is not
      empty (`mlen`): gjson's Raw is the trimmed text of the value);
    F := MF (finite flag, exact value, canonical text, canonical text of value·1000 — the two texts are
      the harness-supplied number codec, as in the hand model);  NaN = ⟨false, 0, "null", "null"⟩, an
      overflowing literal (±Inf) = ⟨false, v, "null", "null"⟩ with v its exact (non-zero) value;
    GeometryPoint := MF × MF, GeometryRect := Pos × Pos, GeometryLine := Line × List Pos,
    GeometryPoly := Poly × List (List Pos), GeometryIndexOptions := IndexKind × Int;
    Object = Circle = Rect := Geo.Obj: the objectOf… fields are the abstraction functions from the
      regenerated Go structs to the model's objects (positions through `toPos`, extras through `exM`);
    RtreeRTree := List Obj (the inserted items).
  Limits of the instance (trusted): objectAsPoint / objectAsSimplePoint give back the position only
  (extra := none; the generated parseJSONFeature reads `.base` / `.Point` only); the child R-tree,
  prect and pempty of a collection are forgotten by objectOf<Collection> (the model recomputes them).
-/
import GeoModel.Generated.ParseGen
import GeoModel.Json

namespace Geo.PGlue
open Geo Geo.PGen

inductive Piece where
  | ch (c : Char)
  | doc (v : JVal)
deriving Inhabited

abbrev MStr := List Piece

def flat : MStr → List Char
  | [] => []
  | .ch c :: r => c :: flat r
  | .doc v :: r => v.render.toList ++ flat r

def lit (s : String) : MStr := s.toList.map Piece.ch

/-- gjson.Type -/
inductive JType where
  | null | fls | num | str | tru | json
deriving DecidableEq, Inhabited

def typeOf : Option JVal → JType
  | none => .null
  | some .null => .null
  | some .fls => .fls
  | some .tru => .tru
  | some (.num ..) => .num
  | some (.str ..) => .str
  | some _ => .json

structure MF where
  fin : Bool
  val : Rat
  canon : String
  canonK : String
deriving Inhabited

def MF.ord (f : MF) : Ord := ⟨f.fin, f.val, f.canon⟩
def MF.isNaN (f : MF) : Bool := !f.fin && f.val == 0
def mfInt (n : Int) : MF := ⟨true, n, toString n, toString (n * 1000)⟩
def mfNaN : MF := ⟨false, 0, "null", "null"⟩

/-- Go's == on float64: NaN is unequal to everything; two infinities are equal when of the same sign -/
def mfEq (a b : MF) : Bool :=
  if a.isNaN || b.isNaN then false
  else if a.fin && b.fin then a.val == b.val
  else if !a.fin && !b.fin then decide (0 < a.val) == decide (0 < b.val)
  else false

/-- Go's < on float64 (an infinity carries its exact, huge, value) -/
def mfLt (a b : MF) : Bool :=
  if a.isNaN || b.isNaN then false
  else if !a.fin && !b.fin then decide (a.val < 0) && decide (0 < b.val)
  else decide (a.val < b.val)

def mfFloat : Option JVal → MF
  | some (.num fin val canon canonK _) => ⟨fin, val, if fin then canon else "null", if fin then canonK else "null"⟩
  | some .tru => ⟨true, 1, "1", "1000"⟩
  | _ => ⟨true, 0, "0", "0"⟩

/-- the text of a product is known for ·1000 only (harness-supplied) -/
def mfMul (a b : MF) : MF :=
  if b.val == 1000 then ⟨a.fin, a.val * 1000, a.canonK, a.canonK⟩ else ⟨a.fin && b.fin, a.val * b.val, "?", "?"⟩

abbrev FP := MF × MF
def toPos (p : FP) : Pos := mkPos p.1.ord p.2.ord
def unPos (p : Pos) : FP := (⟨p.fin, p.p.x, p.xs, "?"⟩, ⟨p.fin, p.p.y, p.ys, "?"⟩)
def ptPos (p : Pt) : Pos := ⟨p, true, "?", "?"⟩

def forEach : Option JVal → List (Option JVal × Option JVal)
  | none => []
  | some (.arr items) => items.map (fun v => (none, some v))
  | some (.obj ms) => ms.map (fun m => (some (.str m.1 m.2.1), some m.2.2))
  | some v => [(none, some v)]

def resString : Option JVal → MStr
  | some (.str _ dec) => lit dec
  | r => lit (strOf r)

/-- the members of the object a text built by parseJSON denotes: `{` k `:` v (`,` k `:` v)* `}` -/
def decodeMembers : MStr → Option (List (String × String × JVal))
  | [.ch '}'] => some []
  | .ch _ :: .doc (.str raw dec) :: .ch ':' :: .doc v :: r =>
    (decodeMembers r).map (fun ms => (raw, dec, v) :: ms)
  | _ => none

def decodeObj (m : MStr) : Option JVal :=
  match m with
  | [.doc v] => some v
  | .ch '{' :: _ => (decodeMembers m).map JVal.obj
  | _ => none

def getPath : Option JVal → List String → Option JVal
  | r, [] => r
  | r, k :: ks => getPath (r.bind (fun v => v.get k)) ks

/-- the components of a gjson path (split at '.') -/
def splitDotsL : List Char → List (List Char)
  | [] => [[]]
  | c :: r =>
    if c = '.' then [] :: splitDotsL r
    else match splitDotsL r with
      | h :: t => (c :: h) :: t
      | [] => [[c]]

def splitDots (cs : List Char) : List String := (splitDotsL cs).map String.ofList

def mGet (m path : MStr) : Option JVal := getPath (decodeObj m) (splitDots (flat path))

def hasPropsOf (m : MStr) : Bool :=
  match decodeObj m with
  | some (.obj ms) => ms.any (fun x => x.2.1 == "properties")
  | _ => false

abbrev GExtra := PGen.Extra MF MStr
def exM (e : GExtra) : Geo.Extra := ⟨e.dims.toNat, e.values.map (·.canon), String.ofList (flat e.members), hasPropsOf e.members⟩

abbrev GOpts := PGen.ParseOptions IndexKind
def optsG (o : POpts) : GOpts :=
  ⟨o.indexChildren, o.indexGeometry, o.indexKind, o.requireValid, o.allowSimplePoints, o.disableCircle, o.allowRects⟩

abbrev GLine := Line × List Pos
abbrev GPoly := Poly × List (List Pos)
abbrev GRect := Pos × Pos
def boxOf (r : GRect) : Box := ⟨r.1.p, r.2.p⟩
def rectOfBox (b : Box) : GRect := (ptPos b.min, ptPos b.max)
abbrev GColl := PGen.Collection MF GRect Obj (List Obj) MStr

def newLine (pts : List FP) (o : Option (IndexKind × Int)) : GLine :=
  let k := (o.getD (.quadtree, 64))
  let ps := pts.map toPos
  (mkSeries (ptsOf ps) false k.1 k.2.toNat, ps)

def newPoly (ext : List FP) (holes : List (List FP)) (o : Option (IndexKind × Int)) : GPoly :=
  let k := (o.getD (.quadtree, 64))
  let e := ext.map toPos
  let hs := holes.map (·.map toPos)
  (⟨some (.ser (mkSeries (ptsOf e) true k.1 k.2.toNat)), hs.map (fun h => .ser (mkSeries (ptsOf h) true k.1 k.2.toNat))⟩, e :: hs)

def collObj (kind : CollKind) (c : GColl) : Obj := .coll kind c.children (c.extra.map exM) c.tree.isSome

/-- first byte of the raw text of a value: the character its kind dictates (gjson contract: Raw is the
    trimmed text of the value) -/
def headByte : JVal → UInt8
  | .obj _ => 123
  | .arr _ => 91
  | .str _ _ => 34
  | .num .. => 48
  | .tru => 116
  | .fls => 102
  | .null => 110

def byteAt (m : MStr) : UInt8 :=
  match m with
  | [] => 0
  | .ch c :: _ => c.toNat.toUInt8
  | .doc v :: _ => headByte v

/-- len of a text: the raw text of a value is not empty -/
def mlen : MStr → Nat
  | [] => 0
  | .ch _ :: r => 1 + mlen r
  | .doc v :: r => (max 1 v.render.toList.length) + mlen r

abbrev MOps := PGen.Ops MStr Obj MF IndexKind (IndexKind × Int) GLine FP GPoly GRect (Option JVal) JType Obj Obj (List Obj) MStr
abbrev RecT := MStr → Option GOpts → Obj × Option (PGen.Err MStr)

def mops (rec : RecT) : MOps where
  bytesAppend := fun a b => a ++ b
  bytesLen := fun b => Int.ofNat (flat b).length
  bytesOfStr := id
  bytesPush := fun b c => b ++ [Piece.ch (Char.ofNat c.toNat)]
  f64Eq := mfEq
  f64Gt := fun a b => mfLt b a
  f64Lt := mfLt
  f64Mul := mfMul
  f64OfInt := mfInt
  geometryDefaultIndexOptions := some (.quadtree, 64)
  geometryIndexOptionsSetKind := fun o k => (k, o.2)
  geometryIndexOptionsSetMinPoints := fun o n => (o.1, n)
  geometryNewLine := fun pts o => some (newLine pts o)
  geometryNewPoly := fun e hs o => some (newPoly e hs o)
  geometryPointEq := fun a b => mfEq a.1 b.1 && mfEq a.2 b.2
  geometryPointX := fun p => p.1
  geometryPointY := fun p => p.2
  geometryQuadTree := .quadtree
  geometryRectMax := fun r => unPos r.2
  geometryRectMin := fun r => unPos r.1
  gjsonGet := mGet
  gjsonNull := .null
  gjsonNumber := .num
  gjsonParse := decodeObj
  gjsonResultExists := Option.isSome
  gjsonResultFloat := mfFloat
  gjsonResultForEach := forEach
  gjsonResultIsArray := fun r => match r with | some v => v.isArray | none => false
  gjsonResultRaw := fun r => match r with | some v => [Piece.doc v] | none => []
  gjsonResultString := resString
  gjsonResultType := typeOf
  gjsonString := .str
  gjsonTypeEq := fun a b => decide (a = b)
  gjsonValid := fun m => (decodeObj m).isSome
  lineStringValid := fun g => (Obj.lineString g.base.1 g.base.2 (g.extra.map exM)).valid
  mathNaN := mfNaN
  mkGeometryPoint := fun x y => (x, y)
  mkGeometryRect := fun a b => (toPos a, toPos b)
  multiLineStringValid := fun g => (collObj .multiLineString g.collection).valid
  multiPolygonValid := fun g => (collObj .multiPolygon g.collection).valid
  newCircle := fun c r _ => some (.circle (toPos c) r.canon)
  newRect := fun r => some (.rectO (boxOf r) r.1 r.2)
  nilBytes := []
  nilObject := default
  objectAsPoint := fun o => match o with | .point pos _ => some ⟨unPos pos, none⟩ | _ => none
  objectAsSimplePoint := fun o => match o with | .spoint pos => some ⟨unPos pos⟩ | _ => none
  objectEmpty := Obj.empty
  objectOfCircle := id
  objectOfFeature := fun g => .feature g.base (g.extra.map exM)
  objectOfFeatureCollection := fun g => collObj .featureCollection g.collection
  objectOfGeometryCollection := fun g => collObj .geometryCollection g.collection
  objectOfLineString := fun g => .lineString g.base.1 g.base.2 (g.extra.map exM)
  objectOfMultiLineString := fun g => collObj .multiLineString g.collection
  objectOfMultiPoint := fun g => collObj .multiPoint g.collection
  objectOfMultiPolygon := fun g => collObj .multiPolygon g.collection
  objectOfPoint := fun g => .point (toPos g.base) (g.extra.map exM)
  objectOfPolygon := fun g => .polygon g.base.1 g.base.2 (g.extra.map exM)
  objectOfRect := id
  objectOfSimplePoint := fun g => .spoint (toPos g.point)
  objectRect := fun o => rectOfBox o.rect
  objectValid := Obj.valid
  prettyUgly := id
  rec_Parse := rec
  rtreeRTreeInsert := fun t _ _ o => t ++ [o]
  strAt := fun m i => if i == 0 then byteAt m else 0
  strEq := fun a b => flat a == flat b
  strLen := fun m => Int.ofNat (mlen m)
  strLit := lit
  strOfBytes := id
  strSliceFrom := fun m i => if i == 1 then m.drop 1 else m
  unionRects := fun a b => rectOfBox (Obj.unionBox (boxOf a) (boxOf b))
  zeroCircle := default
  zeroGeometryIndexKind := .none
  zeroGeometryIndexOptions := (.none, 0)
  zeroGeometryLine := (mkSeries #[] false .none 0, [])
  zeroGeometryPoint := (mfInt 0, mfInt 0)
  zeroGeometryPoly := (⟨none, []⟩, [])
  zeroGeometryRect := (toPos (mfInt 0, mfInt 0), toPos (mfInt 0, mfInt 0))
  zeroGjsonResult := none
  zeroRect := default
  zeroRtreeRTree := []


/-! projections of the instance (rfl): the proofs never unfold `mops` itself -/
@[simp] theorem m_bytesAppend (rec : RecT) : (mops rec).bytesAppend = (fun a b => a ++ b) := rfl
@[simp] theorem m_bytesLen (rec : RecT) : (mops rec).bytesLen = (fun b => Int.ofNat (flat b).length) := rfl
@[simp] theorem m_bytesOfStr (rec : RecT) : (mops rec).bytesOfStr = (id) := rfl
@[simp] theorem m_bytesPush (rec : RecT) : (mops rec).bytesPush = (fun b c => b ++ [Piece.ch (Char.ofNat c.toNat)]) := rfl
@[simp] theorem m_f64Eq (rec : RecT) : (mops rec).f64Eq = (mfEq) := rfl
@[simp] theorem m_f64Gt (rec : RecT) : (mops rec).f64Gt = (fun a b => mfLt b a) := rfl
@[simp] theorem m_f64Lt (rec : RecT) : (mops rec).f64Lt = (mfLt) := rfl
@[simp] theorem m_f64Mul (rec : RecT) : (mops rec).f64Mul = (mfMul) := rfl
@[simp] theorem m_f64OfInt (rec : RecT) : (mops rec).f64OfInt = (mfInt) := rfl
@[simp] theorem m_geometryDefaultIndexOptions (rec : RecT) : (mops rec).geometryDefaultIndexOptions = (some (.quadtree, 64)) := rfl
@[simp] theorem m_geometryIndexOptionsSetKind (rec : RecT) : (mops rec).geometryIndexOptionsSetKind = (fun o k => (k, o.2)) := rfl
@[simp] theorem m_geometryIndexOptionsSetMinPoints (rec : RecT) : (mops rec).geometryIndexOptionsSetMinPoints = (fun o n => (o.1, n)) := rfl
@[simp] theorem m_geometryNewLine (rec : RecT) : (mops rec).geometryNewLine = (fun pts o => some (newLine pts o)) := rfl
@[simp] theorem m_geometryNewPoly (rec : RecT) : (mops rec).geometryNewPoly = (fun e hs o => some (newPoly e hs o)) := rfl
@[simp] theorem m_geometryPointEq (rec : RecT) : (mops rec).geometryPointEq = (fun a b => mfEq a.1 b.1 && mfEq a.2 b.2) := rfl
@[simp] theorem m_geometryPointX (rec : RecT) : (mops rec).geometryPointX = (fun p => p.1) := rfl
@[simp] theorem m_geometryPointY (rec : RecT) : (mops rec).geometryPointY = (fun p => p.2) := rfl
@[simp] theorem m_geometryQuadTree (rec : RecT) : (mops rec).geometryQuadTree = (.quadtree) := rfl
@[simp] theorem m_geometryRectMax (rec : RecT) : (mops rec).geometryRectMax = (fun r => unPos r.2) := rfl
@[simp] theorem m_geometryRectMin (rec : RecT) : (mops rec).geometryRectMin = (fun r => unPos r.1) := rfl
@[simp] theorem m_gjsonGet (rec : RecT) : (mops rec).gjsonGet = (mGet) := rfl
@[simp] theorem m_gjsonNull (rec : RecT) : (mops rec).gjsonNull = (.null) := rfl
@[simp] theorem m_gjsonNumber (rec : RecT) : (mops rec).gjsonNumber = (.num) := rfl
@[simp] theorem m_gjsonParse (rec : RecT) : (mops rec).gjsonParse = (decodeObj) := rfl
@[simp] theorem m_gjsonResultExists (rec : RecT) : (mops rec).gjsonResultExists = (Option.isSome) := rfl
@[simp] theorem m_gjsonResultFloat (rec : RecT) : (mops rec).gjsonResultFloat = (mfFloat) := rfl
@[simp] theorem m_gjsonResultForEach (rec : RecT) : (mops rec).gjsonResultForEach = (forEach) := rfl
@[simp] theorem m_gjsonResultIsArray (rec : RecT) : (mops rec).gjsonResultIsArray = (fun r => match r with | some v => v.isArray | none => false) := rfl
@[simp] theorem m_gjsonResultRaw (rec : RecT) : (mops rec).gjsonResultRaw = (fun r => match r with | some v => [Piece.doc v] | none => []) := rfl
@[simp] theorem m_gjsonResultString (rec : RecT) : (mops rec).gjsonResultString = (resString) := rfl
@[simp] theorem m_gjsonResultType (rec : RecT) : (mops rec).gjsonResultType = (typeOf) := rfl
@[simp] theorem m_gjsonString (rec : RecT) : (mops rec).gjsonString = (.str) := rfl
@[simp] theorem m_gjsonTypeEq (rec : RecT) : (mops rec).gjsonTypeEq = (fun a b => decide (a = b)) := rfl
@[simp] theorem m_gjsonValid (rec : RecT) : (mops rec).gjsonValid = (fun m => (decodeObj m).isSome) := rfl
@[simp] theorem m_lineStringValid (rec : RecT) : (mops rec).lineStringValid = (fun g => (Obj.lineString g.base.1 g.base.2 (g.extra.map exM)).valid) := rfl
@[simp] theorem m_mathNaN (rec : RecT) : (mops rec).mathNaN = (mfNaN) := rfl
@[simp] theorem m_mkGeometryPoint (rec : RecT) : (mops rec).mkGeometryPoint = (fun x y => (x, y)) := rfl
@[simp] theorem m_mkGeometryRect (rec : RecT) : (mops rec).mkGeometryRect = (fun a b => (toPos a, toPos b)) := rfl
@[simp] theorem m_multiLineStringValid (rec : RecT) : (mops rec).multiLineStringValid = (fun g => (collObj .multiLineString g.collection).valid) := rfl
@[simp] theorem m_multiPolygonValid (rec : RecT) : (mops rec).multiPolygonValid = (fun g => (collObj .multiPolygon g.collection).valid) := rfl
@[simp] theorem m_newCircle (rec : RecT) : (mops rec).newCircle = (fun c r _ => some (.circle (toPos c) r.canon)) := rfl
@[simp] theorem m_newRect (rec : RecT) : (mops rec).newRect = (fun r => some (.rectO (boxOf r) r.1 r.2)) := rfl
@[simp] theorem m_nilBytes (rec : RecT) : (mops rec).nilBytes = ([]) := rfl
@[simp] theorem m_nilObject (rec : RecT) : (mops rec).nilObject = (default) := rfl
@[simp] theorem m_objectAsPoint (rec : RecT) : (mops rec).objectAsPoint = (fun o => match o with | .point pos _ => some ⟨unPos pos, none⟩ | _ => none) := rfl
@[simp] theorem m_objectAsSimplePoint (rec : RecT) : (mops rec).objectAsSimplePoint = (fun o => match o with | .spoint pos => some ⟨unPos pos⟩ | _ => none) := rfl
@[simp] theorem m_objectEmpty (rec : RecT) : (mops rec).objectEmpty = (Obj.empty) := rfl
@[simp] theorem m_objectOfCircle (rec : RecT) : (mops rec).objectOfCircle = (id) := rfl
@[simp] theorem m_objectOfFeature (rec : RecT) : (mops rec).objectOfFeature = (fun g => .feature g.base (g.extra.map exM)) := rfl
@[simp] theorem m_objectOfFeatureCollection (rec : RecT) : (mops rec).objectOfFeatureCollection = (fun g => collObj .featureCollection g.collection) := rfl
@[simp] theorem m_objectOfGeometryCollection (rec : RecT) : (mops rec).objectOfGeometryCollection = (fun g => collObj .geometryCollection g.collection) := rfl
@[simp] theorem m_objectOfLineString (rec : RecT) : (mops rec).objectOfLineString = (fun g => .lineString g.base.1 g.base.2 (g.extra.map exM)) := rfl
@[simp] theorem m_objectOfMultiLineString (rec : RecT) : (mops rec).objectOfMultiLineString = (fun g => collObj .multiLineString g.collection) := rfl
@[simp] theorem m_objectOfMultiPoint (rec : RecT) : (mops rec).objectOfMultiPoint = (fun g => collObj .multiPoint g.collection) := rfl
@[simp] theorem m_objectOfMultiPolygon (rec : RecT) : (mops rec).objectOfMultiPolygon = (fun g => collObj .multiPolygon g.collection) := rfl
@[simp] theorem m_objectOfPoint (rec : RecT) : (mops rec).objectOfPoint = (fun g => .point (toPos g.base) (g.extra.map exM)) := rfl
@[simp] theorem m_objectOfPolygon (rec : RecT) : (mops rec).objectOfPolygon = (fun g => .polygon g.base.1 g.base.2 (g.extra.map exM)) := rfl
@[simp] theorem m_objectOfRect (rec : RecT) : (mops rec).objectOfRect = (id) := rfl
@[simp] theorem m_objectOfSimplePoint (rec : RecT) : (mops rec).objectOfSimplePoint = (fun g => .spoint (toPos g.point)) := rfl
@[simp] theorem m_objectRect (rec : RecT) : (mops rec).objectRect = (fun o => rectOfBox o.rect) := rfl
@[simp] theorem m_objectValid (rec : RecT) : (mops rec).objectValid = (Obj.valid) := rfl
@[simp] theorem m_prettyUgly (rec : RecT) : (mops rec).prettyUgly = (id) := rfl
@[simp] theorem m_rec_Parse (rec : RecT) : (mops rec).rec_Parse = (rec) := rfl
@[simp] theorem m_rtreeRTreeInsert (rec : RecT) : (mops rec).rtreeRTreeInsert = (fun t _ _ o => t ++ [o]) := rfl
@[simp] theorem m_strAt (rec : RecT) : (mops rec).strAt = (fun m i => if i == 0 then byteAt m else 0) := rfl
@[simp] theorem m_strEq (rec : RecT) : (mops rec).strEq = (fun a b => flat a == flat b) := rfl
@[simp] theorem m_strLen (rec : RecT) : (mops rec).strLen = (fun m => Int.ofNat (mlen m)) := rfl
@[simp] theorem m_strLit (rec : RecT) : (mops rec).strLit = (lit) := rfl
@[simp] theorem m_strOfBytes (rec : RecT) : (mops rec).strOfBytes = (id) := rfl
@[simp] theorem m_strSliceFrom (rec : RecT) : (mops rec).strSliceFrom = (fun m i => if i == 1 then m.drop 1 else m) := rfl
@[simp] theorem m_unionRects (rec : RecT) : (mops rec).unionRects = (fun a b => rectOfBox (Obj.unionBox (boxOf a) (boxOf b))) := rfl
@[simp] theorem m_zeroCircle (rec : RecT) : (mops rec).zeroCircle = (default) := rfl
@[simp] theorem m_zeroGeometryIndexKind (rec : RecT) : (mops rec).zeroGeometryIndexKind = (.none) := rfl
@[simp] theorem m_zeroGeometryIndexOptions (rec : RecT) : (mops rec).zeroGeometryIndexOptions = ((.none, 0)) := rfl
@[simp] theorem m_zeroGeometryLine (rec : RecT) : (mops rec).zeroGeometryLine = ((mkSeries #[] false .none 0, [])) := rfl
@[simp] theorem m_zeroGeometryPoint (rec : RecT) : (mops rec).zeroGeometryPoint = ((mfInt 0, mfInt 0)) := rfl
@[simp] theorem m_zeroGeometryPoly (rec : RecT) : (mops rec).zeroGeometryPoly = ((⟨none, []⟩, [])) := rfl
@[simp] theorem m_zeroGeometryRect (rec : RecT) : (mops rec).zeroGeometryRect = ((toPos (mfInt 0, mfInt 0), toPos (mfInt 0, mfInt 0))) := rfl
@[simp] theorem m_zeroGjsonResult (rec : RecT) : (mops rec).zeroGjsonResult = (none) := rfl
@[simp] theorem m_zeroRect (rec : RecT) : (mops rec).zeroRect = (default) := rfl
@[simp] theorem m_zeroRtreeRTree (rec : RecT) : (mops rec).zeroRtreeRTree = ([]) := rfl

@[simp] theorem m_zeroParseKeys (rec : RecT) : PGen.zeroParseKeys (mops rec) = ⟨none, none, none, none, []⟩ := rfl
@[simp] theorem m_zeroExtra (rec : RecT) : PGen.zeroExtra (mops rec) = ⟨0, [], []⟩ := rfl
@[simp] theorem m_zeroParseOptions (rec : RecT) : PGen.zeroParseOptions (mops rec) = ⟨0, 0, .none, false, false, false, false⟩ := rfl
@[simp] theorem m_zeroCollection (rec : RecT) : PGen.zeroCollection (mops rec) = ⟨[], none, none, (toPos (mfInt 0, mfInt 0), toPos (mfInt 0, mfInt 0)), false⟩ := rfl
@[simp] theorem deref_some {α : Type} (z v : α) : PGen.deref z (some v) = v := rfl
@[simp] theorem deref_none {α : Type} (z : α) : PGen.deref z none = z := rfl

end Geo.PGlue
