/-
  GENERATED FILE — do not edit.  Regenerate with
      cd /verif/translate && go build -o bin/translate . && \
        ./bin/translate ring /repo > /verif/lean/GeoModel/Generated/RingGen.lean

  Syntactic translation (translate/ring.go) of the ring-level predicates of package geometry
  (ring.go): ringContainsPoint with its searcher and its two search wrappers, ringIntersectsPoint,
  ringContainsSegment, ringIntersectsSegment, ringContainsRing, ringIntersectsRing,
  ringContainsLine, ringIntersectsLine.

  Conventions:
    * the definitions are parametrised by `ops : Ops R L BS N P S B`: one field per distinct callee
      that is not itself translated here, found in the source.  R = Ring (= Series, taken to be
      non-nil), L = *Line, BS = *baseSeries, N = float64, P = Point, S = Segment, B = Rect.
      Method T.M ↦ field tM; field F of Point / Segment / Rect ↦ field tF; the literal T{…} ↦ mkT
      (all fields, declaration order); == on Point ↦ pointEq; float64 operators ↦ f64Add, f64Gt, …;
      an untyped integer constant used as a float64 ↦ f64OfInt; math.Inf ↦ mathInf; the implicit
      conversion Rect → Ring ↦ ringOfRect; Ring(bs) ↦ ringOfBaseSeries; &line.baseSeries ↦
      lineBaseSeries.  The callees are taken to be pure;
    * SEARCH: a method with an iterator parameter, `x.Search(rect, func(seg Segment, index int) bool {…})`,
      ↦ field tSearch : T → B → List (S × Int), the list of the (segment, index) pairs the iterator
      is offered, in order; the call becomes  searchFold (fun x' st' => body) (ops.tSearch x rect) st
      where st is the tuple of the captured variables the literal assigns and `return e` in the
      literal ↦ (st, e): the fold stops at the first element for which e is false;
    * a struct whose fields are all bool / int (ringResult, RaycastResult) ↦ a Lean structure with
      the same fields (lower-case first letter; In ↦ in_); int ↦ Int (unbounded: no wrap-around);
      a package constant ↦ a def of type Int; [n]T ↦ List T, a[i] ↦ arrAt a i (out of range, a
      panic in Go, is `default`), len(a) ↦ n;
    * pointer parameters (*bool, *int) ↦ the value comes in as a parameter and goes out as an
      extra component of the result (result first); a call g(…, &x, …) ↦ let c' := g …, then x is
      rebound to the component of c';
    * `if v, ok := ring.(*baseSeries); ok {A} else {B}` ↦ match ops.ringAsBaseSeries ring with
      | some v => A | none => B: BOTH branches are translated;
    * a statement list becomes one expression, continuation style; x := e, x = e, x += e, x++ ↦ let
      (shadowing); the statements after an `if` are copied into every arm that falls through,
      except that an `if` neither arm of which leaves (no return / break / continue) and that is
      followed by more statements is joined: let j' := if c then (…; vars) else (…; vars), vars
      the variables it assigns;
    * `for i := lo; i < hi; i++ { body }` (hi not assigned in the body) ↦ forRange (fun i st' => body)
      (intRange lo hi) st: end of body / continue ↦ Flow.next, break ↦ Flow.brk, return e ↦ Flow.ret e;
      ρ := Empty when the body does not return;
    * RECURSION: a call of the function being translated from its own body ↦ the Ops field
      rec_<name> (the definition is the recursion equation of the Go function).
  Anything outside the recognised subset appears below as  opaque <name>_unrecognised : Unit.
-/

set_option linter.unusedVariables false

namespace Geo.RGen

/-- how one pass through a loop body ends -/
inductive Flow (σ ρ : Type) where
  | next (s : σ) : Flow σ ρ
  | brk (s : σ) : Flow σ ρ
  | ret (r : ρ) : Flow σ ρ

/-- how a loop ends: normally (or by break) with the final state, or by `return r` -/
inductive Exit (σ ρ : Type) where
  | done (s : σ) : Exit σ ρ
  | ret (r : ρ) : Exit σ ρ

/-- a counting loop over the list of the values of its variable -/
def forRange {ε σ ρ : Type} (body : ε → σ → Flow σ ρ) : List ε → σ → Exit σ ρ
  | [], s => Exit.done s
  | x :: xs, s =>
    match body x s with
    | Flow.next s' => forRange body xs s'
    | Flow.brk s' => Exit.done s'
    | Flow.ret r => Exit.ret r

/-- the values of i in `for i := lo; i < hi; i++` -/
def intRange (lo hi : Int) : List Int := (List.range (hi - lo).toNat).map (fun k => lo + Int.ofNat k)

/-- a Search with iterator f over the list of what the iterator is offered: stops after the first
    element for which f answers false -/
def searchFold {ε σ : Type} (f : ε → σ → σ × Bool) : List ε → σ → σ
  | [], s => s
  | x :: xs, s =>
    match f x s with
    | (s', true) => searchFold f xs s'
    | (s', false) => s'

/-- a[i] on a fixed-size array -/
def arrAt {α : Type} [Inhabited α] (xs : List α) (i : Int) : α :=
  if i < 0 then default else xs.getD i.toNat default

/-- Go: `type ringResult struct` — geometry/ring.go:20 -/
structure RingResult where
  hit : Bool
  idx : Int

/-- Go: `type RaycastResult struct` — geometry/raycast.go:6 -/
structure RaycastResult where
  in_ : Bool
  on : Bool

/-- Go: `const complexRingMinPoints = 16` — geometry/ring.go:11 -/
def complexRingMinPoints : Int := 16

/-- the callees of the ring-level predicates, one field per distinct callee found in the source -/
structure Ops (R L BS N P S B : Type) where
  /-- Go: `func (series *baseSeries) Search( rect Rect, iter func(seg Segment, idx int) bool, )` — geometry/series.go:168; the list of the (Segment, int) the iterator is offered, in order (searchFold cuts it where the iterator returns false) -/
  baseSeriesSearch : BS → B → (List (S × Int))
  /-- float64 operator `+` -/
  f64Add : N → N → N
  /-- float64 operator `>` -/
  f64Gt : N → N → Bool
  /-- float64 operator `*` -/
  f64Mul : N → N → N
  /-- the conversion of an untyped integer constant to float64 -/
  f64OfInt : Int → N
  /-- float64 operator `-` -/
  f64Sub : N → N → N
  /-- `&line.baseSeries`: the *baseSeries inside a *Line — geometry/line.go:8 -/
  lineBaseSeries : L → BS
  /-- Go: `func (series *baseSeries) Empty() bool` — geometry/series.go:126 -/
  lineEmpty : L → Bool
  /-- Go: `func (series *baseSeries) NumPoints() int` — geometry/series.go:158 -/
  lineNumPoints : L → Int
  /-- Go: `func (series *baseSeries) NumSegments() int` — geometry/series.go:196 -/
  lineNumSegments : L → Int
  /-- Go: `func (series *baseSeries) PointAt(index int) Point` — geometry/series.go:163 -/
  linePointAt : L → Int → P
  /-- Go: `func (series *baseSeries) Rect() Rect` — geometry/series.go:143 -/
  lineRect : L → B
  /-- Go: `func (series *baseSeries) SegmentAt(index int) Segment` — geometry/series.go:212 -/
  lineSegmentAt : L → Int → S
  /-- `func Inf(sign int) float64` of package math -/
  mathInf : Int → N
  /-- the literal `Point{X, Y}` — geometry/point.go:7 -/
  mkPoint : N → N → P
  /-- the literal `Rect{Min, Max}` — geometry/rect.go:7 -/
  mkRect : P → P → B
  /-- Go's `==` on Point (field by field) -/
  pointEq : P → P → Bool
  /-- field X of Point — geometry/point.go:7 -/
  pointX : P → N
  /-- field Y of Point — geometry/point.go:7 -/
  pointY : P → N
  /-- RECURSION: the Go function ringContainsRing itself, as called from its own body — geometry/ring.go:292 -/
  rec_ringContainsRing : R → R → Bool → Bool
  /-- Go: `func (rect Rect) Area() float64` — geometry/rect.go:30 -/
  rectArea : B → N
  /-- Go: `func (rect Rect) ContainsPoint(point Point) bool` — geometry/rect.go:116 -/
  rectContainsPoint : B → P → Bool
  /-- Go: `func (rect Rect) ContainsRect(other Rect) bool` — geometry/rect.go:125 -/
  rectContainsRect : B → B → Bool
  /-- Go: `func (rect Rect) IntersectsRect(other Rect) bool` — geometry/rect.go:135 -/
  rectIntersectsRect : B → B → Bool
  /-- the type assertion `ring.(*baseSeries)`: some bs when the dynamic type of the Ring is *baseSeries -/
  ringAsBaseSeries : R → (Option BS)
  /-- Go: `Clockwise() bool` — geometry/series.go:51 -/
  ringClockwise : R → Bool
  /-- Go: `Convex() bool` — geometry/series.go:50 -/
  ringConvex : R → Bool
  /-- Go: `Empty() bool` — geometry/series.go:49 -/
  ringEmpty : R → Bool
  /-- Go: `NumPoints() int` — geometry/series.go:52 -/
  ringNumPoints : R → Int
  /-- Go: `NumSegments() int` — geometry/series.go:53 -/
  ringNumSegments : R → Int
  /-- the conversion of a *baseSeries to the interface Ring (= Series) -/
  ringOfBaseSeries : BS → R
  /-- the implicit conversion of a Rect to the interface Ring (= Series) -/
  ringOfRect : B → R
  /-- Go: `PointAt(index int) Point` — geometry/series.go:54 -/
  ringPointAt : R → Int → P
  /-- Go: `Rect() Rect` — geometry/series.go:48 -/
  ringRect : R → B
  /-- Go: `Search(rect Rect, iter func(seg Segment, index int) bool)` — geometry/series.go:56; the list of the (Segment, int) the iterator is offered, in order (searchFold cuts it where the iterator returns false) -/
  ringSearch : R → B → (List (S × Int))
  /-- Go: `SegmentAt(index int) Segment` — geometry/series.go:55 -/
  ringSegmentAt : R → Int → S
  /-- field A of Segment — geometry/segment.go:12 -/
  segmentA : S → P
  /-- field B of Segment — geometry/segment.go:12 -/
  segmentB : S → P
  /-- Go: `func (seg Segment) CollinearPoint(point Point) bool` — geometry/segment.go:38 -/
  segmentCollinearPoint : S → P → Bool
  /-- Go: `func (seg Segment) IntersectsSegment(other Segment) bool` — geometry/segment.go:54 -/
  segmentIntersectsSegment : S → S → Bool
  /-- Go: `func (seg Segment) Raycast(point Point) RaycastResult` — geometry/raycast.go:12 -/
  segmentRaycast : S → P → RaycastResult
  /-- Go: `func (seg Segment) Rect() Rect` — geometry/segment.go:25 -/
  segmentRect : S → B

/-- Go: `func containsPointSearcher(point Point, allowOnEdge bool, idx *int, in *bool, seg Segment, index int) bool` — geometry/ring.go:44 -/
def containsPointSearcher {R L BS N P S B : Type} (ops : Ops R L BS N P S B) (point : P) (allowOnEdge : Bool) (idx : Int) (in_ : Bool) (seg : S) (index : Int) : Bool × Int × Bool :=
  let res : RaycastResult := ops.segmentRaycast seg point
  if res.on then
    let in_ : Bool := allowOnEdge
    let idx : Int := index
    (false, idx, in_)
  else
    let j' : Bool := if res.in_ then
        let in_ : Bool := !in_
        in_
      else
        in_
    let in_ : Bool := j'
    (true, idx, in_)

/-- Go: `func ringContainsPointBaseSeries(rect Rect, ring *baseSeries, point Point, allowOnEdge bool) (bool, int)` — geometry/ring.go:63 -/
def ringContainsPointBaseSeries {R L BS N P S B : Type} (ops : Ops R L BS N P S B) (rect : B) (ring : BS) (point : P) (allowOnEdge : Bool) : Bool × Int :=
  let idx : Int := -1
  let in_ : Bool := false
  let st' : Int × Bool := searchFold (fun (x' : S × Int) (st' : Int × Bool) =>
      let seg : S := x'.1
      let index : Int := x'.2
      let idx : Int := st'.1
      let in_ : Bool := st'.2
      let c' : Bool × Int × Bool := containsPointSearcher ops point allowOnEdge idx in_ seg index
      let idx : Int := c'.2.1
      let in_ : Bool := c'.2.2
      ((idx, in_), c'.1)) (ops.baseSeriesSearch ring rect) (idx, in_)
  let idx : Int := st'.1
  let in_ : Bool := st'.2
  (in_, idx)

-- NOTE (checked mechanically): the body of ringContainsPointGeneric is the body of ringContainsPointBaseSeries, token for token, up to the
-- names of the parameters (go/printer text, parameters renamed by position); only the parameter types differ.
/-- Go: `func ringContainsPointGeneric(rect Rect, ring Ring, point Point, allowOnEdge bool) (bool, int)` — geometry/ring.go:76 -/
def ringContainsPointGeneric {R L BS N P S B : Type} (ops : Ops R L BS N P S B) (rect : B) (ring : R) (point : P) (allowOnEdge : Bool) : Bool × Int :=
  let idx : Int := -1
  let in_ : Bool := false
  let st' : Int × Bool := searchFold (fun (x' : S × Int) (st' : Int × Bool) =>
      let seg : S := x'.1
      let index : Int := x'.2
      let idx : Int := st'.1
      let in_ : Bool := st'.2
      let c' : Bool × Int × Bool := containsPointSearcher ops point allowOnEdge idx in_ seg index
      let idx : Int := c'.2.1
      let in_ : Bool := c'.2.2
      ((idx, in_), c'.1)) (ops.ringSearch ring rect) (idx, in_)
  let idx : Int := st'.1
  let in_ : Bool := st'.2
  (in_, idx)

/-- Go: `func ringContainsPoint(ring Ring, point Point, allowOnEdge bool) ringResult` — geometry/ring.go:25 -/
def ringContainsPoint {R L BS N P S B : Type} (ops : Ops R L BS N P S B) (ring : R) (point : P) (allowOnEdge : Bool) : RingResult :=
  if !(ops.rectContainsPoint (ops.ringRect ring) point) then
    { hit := false, idx := -1 : RingResult }
  else
    let in_ : Bool := false
    let idx : Int := 0
    let rect : B := ops.mkRect (ops.mkPoint (ops.mathInf (-1)) (ops.pointY point)) (ops.mkPoint (ops.mathInf 1) (ops.pointY point))
    (match ops.ringAsBaseSeries ring with
    | some bs =>
      let ok : Bool := true
      let r' : Bool × Int := ringContainsPointBaseSeries ops rect bs point allowOnEdge
      let in_ : Bool := r'.1
      let idx : Int := r'.2
      { hit := in_, idx := idx : RingResult }
    | none =>
      let ok : Bool := false
      let r' : Bool × Int := ringContainsPointGeneric ops rect ring point allowOnEdge
      let in_ : Bool := r'.1
      let idx : Int := r'.2
      { hit := in_, idx := idx : RingResult })

/-- Go: `func ringIntersectsPoint(ring Ring, point Point, allowOnEdge bool) ringResult` — geometry/ring.go:88 -/
def ringIntersectsPoint {R L BS N P S B : Type} (ops : Ops R L BS N P S B) (ring : R) (point : P) (allowOnEdge : Bool) : RingResult :=
  ringContainsPoint ops ring point allowOnEdge

/-- Go: `func ringContainsSegment(ring Ring, seg Segment, allowOnEdge bool) bool` — geometry/ring.go:99 -/
def ringContainsSegment {R L BS N P S B : Type} [Inhabited P] (ops : Ops R L BS N P S B) (ring : R) (seg : S) (allowOnEdge : Bool) : Bool :=
  if (!(ops.rectContainsPoint (ops.ringRect ring) (ops.segmentA seg))) || (!(ops.rectContainsPoint (ops.ringRect ring) (ops.segmentB seg))) then
    false
  else
    let resA : RingResult := ringContainsPoint ops ring (ops.segmentA seg) allowOnEdge
    if !resA.hit then
      false
    else if ops.pointEq (ops.segmentB seg) (ops.segmentA seg) then
      true
    else
      let resB : RingResult := ringContainsPoint ops ring (ops.segmentB seg) allowOnEdge
      if !resB.hit then
        false
      else if ops.ringConvex ring then
        true
      else if allowOnEdge then
        if resA.idx != (-1) then
          if resB.idx != (-1) then
            if resB.idx == resA.idx then
              true
            else
              let rSegA : S := ops.ringSegmentAt ring resA.idx
              let rSegB : S := ops.ringSegmentAt ring resB.idx
              if (ops.pointEq (ops.segmentA rSegA) (ops.segmentA seg)) || (ops.pointEq (ops.segmentB rSegA) (ops.segmentA seg)) || (ops.pointEq (ops.segmentA rSegB) (ops.segmentA seg)) || (ops.pointEq (ops.segmentB rSegB) (ops.segmentA seg)) || (ops.pointEq (ops.segmentA rSegA) (ops.segmentB seg)) || (ops.pointEq (ops.segmentB rSegA) (ops.segmentB seg)) || (ops.pointEq (ops.segmentA rSegB) (ops.segmentB seg)) || (ops.pointEq (ops.segmentB rSegB) (ops.segmentB seg)) then
                true
              else
                let j' : S × S := if decide (resB.idx < resA.idx) then
                    let r' : S × S := (rSegB, rSegA)
                    let rSegA : S := r'.1
                    let rSegB : S := r'.2
                    (rSegA, rSegB)
                  else
                    (rSegA, rSegB)
                let rSegA : S := j'.1
                let rSegB : S := j'.2
                let pts : List P := [ops.segmentA rSegA, ops.segmentB rSegA, ops.segmentA rSegB, ops.segmentB rSegB, ops.segmentA rSegA]
                let cwc : N := ops.f64OfInt 0
                (match forRange (σ := N) (ρ := Empty) (fun (i : Int) (st' : N) =>
                    let cwc : N := st'
                    let r' : P × P := (arrAt pts i, arrAt pts (i + 1))
                    let a : P := r'.1
                    let b : P := r'.2
                    let cwc : N := ops.f64Add cwc (ops.f64Mul (ops.f64Sub (ops.pointX b) (ops.pointX a)) (ops.f64Add (ops.pointY b) (ops.pointY a)))
                    Flow.next cwc) (intRange 0 (5 - 1)) cwc with
                | Exit.ret r' => nomatch r'
                | Exit.done st' =>
                  let cwc : N := st'
                  let clockwise : Bool := ops.f64Gt cwc (ops.f64OfInt 0)
                  if clockwise != (ops.ringClockwise ring) then
                    false
                  else
                    let intersects : Bool := false
                    let st' : Bool := searchFold (fun (x' : S × Int) (st' : Bool) =>
                        let seg2 : S := x'.1
                        let index : Int := x'.2
                        let intersects : Bool := st'
                        if ops.segmentIntersectsSegment seg seg2 then
                          if (!(ops.segmentRaycast seg2 (ops.segmentA seg)).on) && (!(ops.segmentRaycast seg2 (ops.segmentB seg)).on) then
                            let intersects : Bool := true
                            (intersects, false)
                          else
                            (intersects, true)
                        else
                          (intersects, true)) (ops.ringSearch ring (ops.segmentRect seg)) intersects
                    let intersects : Bool := st'
                    !intersects)
          else
            let intersects : Bool := false
            let st' : Bool := searchFold (fun (x' : S × Int) (st' : Bool) =>
                let seg2 : S := x'.1
                let index : Int := x'.2
                let intersects : Bool := st'
                if ops.segmentIntersectsSegment seg seg2 then
                  if !(ops.segmentRaycast seg2 (ops.segmentA seg)).on then
                    let intersects : Bool := true
                    (intersects, false)
                  else
                    (intersects, true)
                else
                  (intersects, true)) (ops.ringSearch ring (ops.segmentRect seg)) intersects
            let intersects : Bool := st'
            !intersects
        else if resB.idx != (-1) then
          let intersects : Bool := false
          let st' : Bool := searchFold (fun (x' : S × Int) (st' : Bool) =>
              let seg2 : S := x'.1
              let index : Int := x'.2
              let intersects : Bool := st'
              if ops.segmentIntersectsSegment seg seg2 then
                if !(ops.segmentRaycast seg2 (ops.segmentB seg)).on then
                  let intersects : Bool := true
                  (intersects, false)
                else
                  (intersects, true)
              else
                (intersects, true)) (ops.ringSearch ring (ops.segmentRect seg)) intersects
          let intersects : Bool := st'
          !intersects
        else
          let intersects : Bool := false
          let st' : Bool := searchFold (fun (x' : S × Int) (st' : Bool) =>
              let seg2 : S := x'.1
              let index : Int := x'.2
              let intersects : Bool := st'
              if ops.segmentIntersectsSegment seg seg2 then
                if (!(ops.segmentRaycast seg (ops.segmentA seg2)).on) && (!(ops.segmentRaycast seg (ops.segmentB seg2)).on) then
                  let intersects : Bool := true
                  (intersects, false)
                else
                  (intersects, true)
              else
                (intersects, true)) (ops.ringSearch ring (ops.segmentRect seg)) intersects
          let intersects : Bool := st'
          !intersects
      else
        let intersects : Bool := false
        let st' : Bool := searchFold (fun (x' : S × Int) (st' : Bool) =>
            let seg2 : S := x'.1
            let index : Int := x'.2
            let intersects : Bool := st'
            if ops.segmentIntersectsSegment seg seg2 then
              let intersects : Bool := true
              (intersects, false)
            else
              (intersects, true)) (ops.ringSearch ring (ops.segmentRect seg)) intersects
        let intersects : Bool := st'
        !intersects

/-- Go: `func ringIntersectsSegment(ring Ring, seg Segment, allowOnEdge bool) bool` — geometry/ring.go:246 -/
def ringIntersectsSegment {R L BS N P S B : Type} (ops : Ops R L BS N P S B) (ring : R) (seg : S) (allowOnEdge : Bool) : Bool :=
  if !(ops.rectIntersectsRect (ops.segmentRect seg) (ops.ringRect ring)) then
    false
  else if (ringContainsPoint ops ring (ops.segmentA seg) allowOnEdge).hit then
    true
  else if (ringContainsPoint ops ring (ops.segmentB seg) allowOnEdge).hit then
    true
  else
    let count : Int := 0
    let segAOn : Bool := false
    let segBOn : Bool := false
    let st' : Bool × Bool × Int := searchFold (fun (x' : S × Int) (st' : Bool × Bool × Int) =>
        let seg2 : S := x'.1
        let index : Int := x'.2
        let segAOn : Bool := st'.1
        let segBOn : Bool := st'.2.1
        let count : Int := st'.2.2
        if ops.segmentIntersectsSegment seg seg2 then
          if !allowOnEdge then
            if !((ops.segmentCollinearPoint seg (ops.segmentA seg2)) && (ops.segmentCollinearPoint seg (ops.segmentB seg2))) then
              if !segAOn then
                if (ops.pointEq (ops.segmentA seg) (ops.segmentA seg2)) || (ops.pointEq (ops.segmentA seg) (ops.segmentB seg2)) then
                  let segAOn : Bool := true
                  ((segAOn, segBOn, count), true)
                else if !segBOn then
                  if (ops.pointEq (ops.segmentB seg) (ops.segmentA seg2)) || (ops.pointEq (ops.segmentB seg) (ops.segmentB seg2)) then
                    let segBOn : Bool := true
                    ((segAOn, segBOn, count), true)
                  else
                    let count : Int := count + 1
                    ((segAOn, segBOn, count), decide (count < 2))
                else
                  let count : Int := count + 1
                  ((segAOn, segBOn, count), decide (count < 2))
              else if !segBOn then
                if (ops.pointEq (ops.segmentB seg) (ops.segmentA seg2)) || (ops.pointEq (ops.segmentB seg) (ops.segmentB seg2)) then
                  let segBOn : Bool := true
                  ((segAOn, segBOn, count), true)
                else
                  let count : Int := count + 1
                  ((segAOn, segBOn, count), decide (count < 2))
              else
                let count : Int := count + 1
                ((segAOn, segBOn, count), decide (count < 2))
            else
              ((segAOn, segBOn, count), decide (count < 2))
          else
            let count : Int := count + 1
            ((segAOn, segBOn, count), decide (count < 2))
        else
          ((segAOn, segBOn, count), decide (count < 2))) (ops.ringSearch ring (ops.segmentRect seg)) (segAOn, segBOn, count)
    let segAOn : Bool := st'.1
    let segBOn : Bool := st'.2.1
    let count : Int := st'.2.2
    decide (count ≥ 2)

/-- Go: `func ringContainsRing(ring, other Ring, allowOnEdge bool) bool` — geometry/ring.go:292 -/
def ringContainsRing {R L BS N P S B : Type} [Inhabited P] (ops : Ops R L BS N P S B) (ring : R) (other : R) (allowOnEdge : Bool) : Bool :=
  if (ops.ringEmpty ring) || (ops.ringEmpty other) then
    false
  else if decide (ops.ringNumPoints other ≥ complexRingMinPoints) then
    if ops.rec_ringContainsRing ring (ops.ringOfRect (ops.ringRect other)) allowOnEdge then
      true
    else if !(ops.rectContainsRect (ops.ringRect ring) (ops.ringRect other)) then
      false
    else if ops.ringConvex ring then
      let otherNumPoints : Int := ops.ringNumPoints other
      (match forRange (σ := Unit) (ρ := Bool) (fun (i : Int) (st' : Unit) =>
          if !(ringContainsPoint ops ring (ops.ringPointAt other i) allowOnEdge).hit then
            Flow.ret false
          else
            Flow.next ()) (intRange 0 otherNumPoints) () with
      | Exit.ret r' => r'
      | Exit.done st' =>
        true)
    else
      let otherNumSegments : Int := ops.ringNumSegments other
      (match forRange (σ := Unit) (ρ := Bool) (fun (i : Int) (st' : Unit) =>
          if !(ringContainsSegment ops ring (ops.ringSegmentAt other i) allowOnEdge) then
            Flow.ret false
          else
            Flow.next ()) (intRange 0 otherNumSegments) () with
      | Exit.ret r' => r'
      | Exit.done st' =>
        true)
  else if !(ops.rectContainsRect (ops.ringRect ring) (ops.ringRect other)) then
    false
  else if ops.ringConvex ring then
    let otherNumPoints : Int := ops.ringNumPoints other
    (match forRange (σ := Unit) (ρ := Bool) (fun (i : Int) (st' : Unit) =>
        if !(ringContainsPoint ops ring (ops.ringPointAt other i) allowOnEdge).hit then
          Flow.ret false
        else
          Flow.next ()) (intRange 0 otherNumPoints) () with
    | Exit.ret r' => r'
    | Exit.done st' =>
      true)
  else
    let otherNumSegments : Int := ops.ringNumSegments other
    (match forRange (σ := Unit) (ρ := Bool) (fun (i : Int) (st' : Unit) =>
        if !(ringContainsSegment ops ring (ops.ringSegmentAt other i) allowOnEdge) then
          Flow.ret false
        else
          Flow.next ()) (intRange 0 otherNumSegments) () with
    | Exit.ret r' => r'
    | Exit.done st' =>
      true)

/-- Go: `func ringIntersectsRing(ring, other Ring, allowOnEdge bool) bool` — geometry/ring.go:333 -/
def ringIntersectsRing {R L BS N P S B : Type} (ops : Ops R L BS N P S B) (ring : R) (other : R) (allowOnEdge : Bool) : Bool :=
  if (ops.ringEmpty ring) || (ops.ringEmpty other) then
    false
  else if !(ops.rectIntersectsRect (ops.ringRect ring) (ops.ringRect other)) then
    false
  else
    let j' : R × R := if ops.f64Gt (ops.rectArea (ops.ringRect other)) (ops.rectArea (ops.ringRect ring)) then
        let r' : R × R := (other, ring)
        let ring : R := r'.1
        let other : R := r'.2
        (ring, other)
      else
        (ring, other)
    let ring : R := j'.1
    let other : R := j'.2
    let otherNumSegments : Int := ops.ringNumSegments other
    (match forRange (σ := Unit) (ρ := Bool) (fun (i : Int) (st' : Unit) =>
        if ringIntersectsSegment ops ring (ops.ringSegmentAt other i) allowOnEdge then
          Flow.ret true
        else
          Flow.next ()) (intRange 0 otherNumSegments) () with
    | Exit.ret r' => r'
    | Exit.done st' =>
      false)

/-- Go: `func ringContainsLine(ring Ring, line *Line, allowOnEdge bool) bool` — geometry/ring.go:355 -/
def ringContainsLine {R L BS N P S B : Type} [Inhabited P] (ops : Ops R L BS N P S B) (ring : R) (line : L) (allowOnEdge : Bool) : Bool :=
  ringContainsRing ops ring (ops.ringOfBaseSeries (ops.lineBaseSeries line)) allowOnEdge

/-- Go: `func ringIntersectsLine(ring Ring, line *Line, allowOnEdge bool) bool` — geometry/ring.go:360 -/
def ringIntersectsLine {R L BS N P S B : Type} (ops : Ops R L BS N P S B) (ring : R) (line : L) (allowOnEdge : Bool) : Bool :=
  if (ops.ringEmpty ring) || (ops.lineEmpty line) then
    false
  else if !(ops.rectIntersectsRect (ops.ringRect ring) (ops.lineRect line)) then
    false
  else
    let lineNumPoints : Int := ops.lineNumPoints line
    (match forRange (σ := Unit) (ρ := Bool) (fun (i : Int) (st' : Unit) =>
        if (ringContainsPoint ops ring (ops.linePointAt line i) allowOnEdge).hit then
          Flow.ret true
        else
          Flow.next ()) (intRange 0 lineNumPoints) () with
    | Exit.ret r' => r'
    | Exit.done st' =>
      let lineNumSegments : Int := ops.lineNumSegments line
      (match forRange (σ := Unit) (ρ := Bool) (fun (i : Int) (st' : Unit) =>
          if ringIntersectsSegment ops ring (ops.lineSegmentAt line i) allowOnEdge then
            Flow.ret true
          else
            Flow.next ()) (intRange 0 lineNumSegments) () with
      | Exit.ret r' => r'
      | Exit.done st' =>
        false))

end Geo.RGen
