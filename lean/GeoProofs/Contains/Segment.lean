/-
  GeoProofs.Contains.Segment — `ringContainsSegment` is EXACT when the segment has no contact
  with the ring's boundary (no edge of the ring meets the closed segment).  Holds for every
  closed chain, simple or not, and both values of `allowOnEdge`: every return site of
  `ringContainsSegmentS` that can be reached gives the right answer (the on-edge case analysis,
  sites 6–11, is unreachable because neither endpoint lies on an edge).
-/
import GeoProofs.Props.C01
import GeoProofs.Props.C03
import GeoProofs.Jordan.Parity

namespace Geo
open GL Jordan

/-- no boundary contact between a closed chain and a segment -/
def Avoids (pts : List Pt) (seg : Seg) : Prop :=
  ∀ e ∈ Spec.edges pts true, Spec.segsMeet e.1 e.2 seg.a seg.b = false

namespace Contains

/-- the abstract core: a ring (series or rectangle) whose point test gives the same answer `I`
    at both endpoints, reports no edge index for either, and has no segment meeting `seg`. -/
theorem rcs_core (ring : Ring) (seg : Seg) (allow : Bool) (I : Bool)
    (hu : Unindexed ring)
    (hA : (ringContainsPoint ring seg.a allow).hit = I)
    (hB : (ringContainsPoint ring seg.b allow).hit = I)
    (hiA : (ringContainsPoint ring seg.a allow).idx = none)
    (hiB : (ringContainsPoint ring seg.b allow).idx = none)
    (hno : ∀ i, i < ring.numSegments → seg.intersects (ring.segmentAt i) = false) :
    ringContainsSegment ring seg allow = I := by
  have hs : ∀ pred : Seg → Nat → Bool, (∀ s i, pred s i = true → seg.intersects s = true) →
      ring.searchAny seg.box pred = false := by
    intro pred hp
    cases h : ring.searchAny seg.box pred with
    | false => rfl
    | true =>
      obtain ⟨i, hi, -, hpi⟩ := (ring_searchAny_iff ring hu _ _).1 h
      have := hp _ _ hpi
      rw [hno i hi] at this
      cases this
  unfold ringContainsSegment ringContainsSegmentS
  by_cases hr : (!ring.rect.containsPt seg.a || !ring.rect.containsPt seg.b) = true
  · rw [if_pos hr]
    simp only [Bool.or_eq_true, Bool.not_eq_true'] at hr
    rcases hr with hr | hr
    · rw [ringContainsPoint_outside ring _ allow hr] at hA
      exact hA
    · rw [ringContainsPoint_outside ring _ allow hr] at hB
      exact hB
  · rw [if_neg hr]
    simp only [hA, hB, hiA, hiB]
    cases I with
    | false => simp
    | true =>
      simp only [Bool.not_true, Bool.false_eq_true, if_false]
      split_ifs
      · rfl
      · rfl
      · simp only [Bool.not_eq_true']
        exact hs _ (fun s i h => by simp only [Bool.and_eq_true] at h; exact h.1.1)
      · simp only [Bool.not_eq_true']
        exact hs _ (fun s i h => h)

/-- the un-indexed closed series built from a vertex array -/
abbrev ringOf (pts : Array Pt) : Ring := .ser (mkSeries pts true .none 0)

theorem ringOf_unindexed (pts : Array Pt) : Unindexed (ringOf pts) := (mkSeries_plain pts true 0).1

theorem ringOf_numSegments (pts : Array Pt) : (ringOf pts).numSegments = numSegmentsOf pts true := rfl
theorem ringOf_segmentAt (pts : Array Pt) (i : Nat) : (ringOf pts).segmentAt i = segmentAtOf pts i := rfl
theorem ringOf_rect (pts : Array Pt) : (ringOf pts).rect = (processPoints pts true).rect := rfl

/-- off the boundary the point test is the crossing parity, whatever `allowOnEdge` -/
theorem hit_of_offBoundary (pts : Array Pt) (p : Pt) (allow : Bool)
    (hb : Spec.onBoundary (Spec.edges pts.toList true) p = false) :
    (ringContainsPoint (ringOf pts) p allow).hit = Spec.inRing (Spec.edges pts.toList true) p ∧
    (ringContainsPoint (ringOf pts) p allow).hit = Spec.strictIn (Spec.edges pts.toList true) p ∧
    (ringContainsPoint (ringOf pts) p allow).idx = none := by
  refine ⟨?_, ?_, ?_⟩
  · rw [ringContainsPoint_hit_iff_none pts 0 p allow]
    unfold Spec.inRing
    rw [hb]; simp
  · rw [ringContainsPoint_hit_iff_none pts 0 p allow]
    unfold Spec.strictIn
    rw [hb]; simp
  · have := ringContainsPoint_idx_isSome pts .none 0 (series_search_exact_kind_none pts true 0) p allow
    rw [hb] at this
    cases h : (ringContainsPoint (ringOf pts) p allow).idx with
    | none => rfl
    | some i => rw [h] at this; cases this

/-- a segment that meets no edge of the chain is not intersected by any segment of the series -/
theorem no_intersect_of_avoids (pts : Array Pt) (seg : Seg) (hav : Avoids pts.toList seg) :
    ∀ i, i < (ringOf pts).numSegments → seg.intersects ((ringOf pts).segmentAt i) = false := by
  intro i hi
  cases h : seg.intersects ((ringOf pts).segmentAt i) with
  | false => rfl
  | true =>
    rw [segIntersects_iff, ringOf_segmentAt] at h
    have hm := hav _ (segmentAt_mem_edges pts true i hi)
    rw [segsMeet_eq_false_iff] at hm
    exact absurd ((K.segsMeet_symm _ _ _ _).1 h) hm

end Contains

open Contains

/-- **`ringContainsSegment` is exact without boundary contact** (any closed chain, any
    `allowOnEdge`): the answer is the membership of the first endpoint. -/
theorem ringContainsSegment_of_avoids (pts : Array Pt) (seg : Seg) (allowOnEdge : Bool)
    (hav : Avoids pts.toList seg) :
    ringContainsSegment (.ser (mkSeries pts true .none 0)) seg allowOnEdge = true ↔
      Spec.inRing (Spec.edges pts.toList true) seg.a = true := by
  obtain ⟨hba, hbb⟩ := onBoundary_false_of_avoids hav
  obtain ⟨ha1, -, ha3⟩ := hit_of_offBoundary pts seg.a allowOnEdge hba
  obtain ⟨hb1, -, hb3⟩ := hit_of_offBoundary pts seg.b allowOnEdge hbb
  rw [← (inRing_const_of_avoids pts.toList seg.a seg.b hav).1] at hb1
  rw [rcs_core (ringOf pts) seg allowOnEdge _ (ringOf_unindexed pts) ha1 hb1 ha3 hb3
    (no_intersect_of_avoids pts seg hav)]

/-- … and then every point of the segment is strictly inside (Jordan lemma) -/
theorem ringContainsSegment_of_avoids_all (pts : Array Pt) (seg : Seg) (allowOnEdge : Bool)
    (hav : Avoids pts.toList seg) :
    ringContainsSegment (.ser (mkSeries pts true .none 0)) seg allowOnEdge = true ↔
      ∀ x, OnSeg seg.a seg.b x → Spec.strictIn (Spec.edges pts.toList true) x = true := by
  rw [ringContainsSegment_of_avoids pts seg allowOnEdge hav]
  constructor
  · exact fun h => segment_inside_of_avoids pts.toList seg.a seg.b hav h
  · intro h
    have := h seg.a (K.onSeg_left _ _)
    unfold Spec.strictIn at this
    unfold Spec.inRing
    simp only [Bool.and_eq_true] at this
    rw [this.2]; simp

/-- the `false` answers: every point of the segment is outside -/
theorem ringContainsSegment_false_of_avoids (pts : Array Pt) (seg : Seg) (allowOnEdge : Bool)
    (hav : Avoids pts.toList seg) :
    ringContainsSegment (.ser (mkSeries pts true .none 0)) seg allowOnEdge = false ↔
      ∀ x, OnSeg seg.a seg.b x → Spec.inRing (Spec.edges pts.toList true) x = false := by
  rw [← Bool.not_eq_true, ringContainsSegment_of_avoids pts seg allowOnEdge hav, Bool.not_eq_true]
  constructor
  · exact fun h => segment_outside_of_avoids pts.toList seg.a seg.b hav h
  · exact fun h => h seg.a (K.onSeg_left _ _)

end Geo
