/-
  GeoProofs.ContainsConvex.Ring — `ringContainsRing` / `ringContainsLine` on a ring with the
  convex flag, inclusive reading, INCLUDING the ≥ 16-point bounding-rectangle shortcut.
-/
import GeoProofs.ContainsConvex.Segment

namespace Geo
namespace CC
open GL Jordan Contains

/-- a convex closed region that has the four corners of a box has the whole box -/
theorem box_in_of_corners {L : List Pt} (hC : ClosedConvex L) (b : Box)
    (h0 : Spec.inRing (Spec.edges L true) ⟨b.min.x, b.min.y⟩ = true)
    (h1 : Spec.inRing (Spec.edges L true) ⟨b.max.x, b.min.y⟩ = true)
    (h2 : Spec.inRing (Spec.edges L true) ⟨b.max.x, b.max.y⟩ = true)
    (h3 : Spec.inRing (Spec.edges L true) ⟨b.min.x, b.max.y⟩ = true)
    (p : Pt) (hp : b.containsPt p = true) : Spec.inRing (Spec.edges L true) p = true := by
  obtain ⟨x1, x2, y1, y2⟩ := (containsPt_iff _ _).1 hp
  have hu : Spec.inRing (Spec.edges L true) ⟨p.x, b.min.y⟩ = true := by
    refine hC _ _ _ h0 h1 ⟨?_, ?_, ?_, ?_, ?_⟩
    · rw [K.cross_def]; simp
    · exact min_le_of_left_le x1
    · exact le_max_of_le_right x2
    · simp
    · simp
  have hw : Spec.inRing (Spec.edges L true) ⟨p.x, b.max.y⟩ = true := by
    refine hC _ _ _ h3 h2 ⟨?_, ?_, ?_, ?_, ?_⟩
    · rw [K.cross_def]; simp
    · exact min_le_of_left_le x1
    · exact le_max_of_le_right x2
    · simp
    · simp
  refine hC _ _ _ hu hw ⟨?_, ?_, ?_, ?_, ?_⟩
  · rw [K.cross_def]; simp
  · simp
  · simp
  · exact min_le_of_left_le y1
  · exact le_max_of_le_right y2

section
variable (pts : Array Pt) (kind : IndexKind) (m : Nat)
  (hvis : (mkSeries pts true kind m).SearchExact) (hcv : (processPoints pts true).convex = true)
include hvis hcv

/-- the body on a series argument: every vertex is a member -/
theorem body_convex_ser (o : Series) (hrect : o.rect = (processPoints o.pts o.closed).rect)
    (hne : o.empty = false) :
    ringContainsRingBody (.ser (mkSeries pts true kind m)) (.ser o) true = true ↔
      ∀ p ∈ o.pts.toList, Spec.inRing (Spec.edges pts.toList true) p = true := by
  have hcv' : (Ring.ser (mkSeries pts true kind m)).convex = true := hcv
  have hr : (Ring.ser (mkSeries pts true kind m)).rect = (processPoints pts true).rect := rfl
  have hne' : ¬ ((o.closed && o.pts.size < 3) || o.pts.size < 2) = true := by
    unfold Series.empty at hne; simp [hne]
  unfold ringContainsRingBody
  simp only [hcv', hr, if_true]
  show (if (!(processPoints pts true).rect.containsBox o.rect) = true then false
    else (List.range o.pts.size).all (fun i =>
      (ringContainsPoint (.ser (mkSeries pts true kind m)) o.pts[i]! true).hit)) = true ↔ _
  simp only [ringContainsPoint_inclusive pts kind m hvis]
  constructor
  · intro h p hp
    split_ifs at h with hb
    rw [List.all_eq_true] at h
    obtain ⟨i, hi, rfl⟩ := List.getElem_of_mem hp
    have := h i (List.mem_range.2 (by simpa using hi))
    rw [getElem!_pos o.pts i (by simpa using hi)] at this
    simpa using this
  · intro h
    have hbox : (processPoints pts true).rect.containsBox o.rect = true := by
      rw [hrect, box_contains_seriesRect_iff _ o.pts o.closed hne']
      exact fun q hq => inRing_in_rect pts q (h q hq)
    rw [hbox]
    simp only [Bool.not_true, Bool.false_eq_true, if_false, List.all_eq_true, List.mem_range]
    intro i hi
    rw [getElem!_pos o.pts i hi]
    exact h _ (Array.getElem_mem_toList hi)

/-- the body on a rectangle argument: the four corners are members -/
theorem body_convex_bx (b : Box) :
    ringContainsRingBody (.ser (mkSeries pts true kind m)) (.bx b) true = true ↔
      (Spec.inRing (Spec.edges pts.toList true) ⟨b.min.x, b.min.y⟩ = true ∧
       Spec.inRing (Spec.edges pts.toList true) ⟨b.max.x, b.min.y⟩ = true ∧
       Spec.inRing (Spec.edges pts.toList true) ⟨b.max.x, b.max.y⟩ = true ∧
       Spec.inRing (Spec.edges pts.toList true) ⟨b.min.x, b.max.y⟩ = true) := by
  have hcv' : (Ring.ser (mkSeries pts true kind m)).convex = true := hcv
  have hr : (Ring.ser (mkSeries pts true kind m)).rect = (processPoints pts true).rect := rfl
  unfold ringContainsRingBody
  simp only [hcv', hr, if_true]
  show (if (!(processPoints pts true).rect.containsBox b) = true then false
    else [0, 1, 2, 3, 4].all (fun i =>
      (ringContainsPoint (.ser (mkSeries pts true kind m)) (b.pointAt i) true).hit)) = true ↔ _
  simp only [ringContainsPoint_inclusive pts kind m hvis, List.all_cons, List.all_nil, Box.pointAt,
    Bool.and_true]
  constructor
  · intro h
    split_ifs at h with hb
    simp only [Bool.and_eq_true] at h
    exact ⟨h.1, h.2.1, h.2.2.1, h.2.2.2.1⟩
  · rintro ⟨h0, h1, h2, h3⟩
    have hbox : (processPoints pts true).rect.containsBox b = true := by
      have a0 := (containsPt_iff _ _).1 (inRing_in_rect pts _ h0)
      have a2 := (containsPt_iff _ _).1 (inRing_in_rect pts _ h2)
      rw [containsBox_iff]
      exact ⟨a0.1, a2.2.1, a0.2.2.1, a2.2.2.2⟩
    rw [hbox]
    simp [h0, h1, h2, h3]

/-- **`ringContainsRing` on a convex SIMPLE ring, inclusive, any number of points**: the
    argument is not empty and every vertex of it is a member -/
theorem ringContainsRing_convex (hs : Spec.simpleRing pts.toList = true) (o : Series)
    (hrect : o.rect = (processPoints o.pts o.closed).rect) :
    ringContainsRing (.ser (mkSeries pts true kind m)) (.ser o) true = true ↔
      (o.empty = false ∧ ∀ p ∈ o.pts.toList, Spec.inRing (Spec.edges pts.toList true) p = true) := by
  have h3 : 3 ≤ pts.size := by
    have := (Cvx.ring_data pts.toList hs).1
    simpa using this
  have hemp : (Ring.ser (mkSeries pts true kind m)).empty = false := by
    show ((true && decide (pts.size < 3)) || decide (pts.size < 2)) = false
    simp; omega
  unfold ringContainsRing
  rw [hemp]
  by_cases he : o.empty = true
  · have : (Ring.ser o).empty = true := he
    simp [this, he]
  · have he' : o.empty = false := by simpa using he
    have : (Ring.ser o).empty = false := he'
    simp only [this, Bool.or_self, Bool.false_eq_true, if_false, he', true_and]
    have hne' : ¬ ((o.closed && o.pts.size < 3) || o.pts.size < 2) = true := by
      unfold Series.empty at he'; simp [he']
    have hbody := body_convex_ser pts kind m hvis hcv o hrect he'
    split_ifs with hsc
    · simp only [true_iff]
      rw [Bool.and_eq_true] at hsc
      obtain ⟨h0, h1, h2, h3⟩ := (body_convex_bx pts kind m hvis hcv _).1 hsc.2
      intro p hp
      refine box_in_of_corners (closedConvex_of_simple pts hs hcv) _ h0 h1 h2 h3 p ?_
      show o.rect.containsPt p = true
      rw [hrect]
      exact GL.mem_rect o.pts o.closed hne' p hp
    · exact hbody

end

end CC
end Geo
