/-
  GeoProofs.Intersects.Core — property C02, completeness of ring × segment.

  * `two_edges_of_meets` (specification level, EVERY closed chain, no simplicity needed): a
    segment with both endpoints outside the closed region that meets the region meets the chain
    at two distinct edge positions.  Through a vertex: the two incident edges; otherwise every
    contact is a proper crossing and a single one would flip the crossing parity (J').
  * `countFold`: the counting search of `ringIntersectsSegmentS` (allowOnEdge = true) answers
    `count ≥ 2` iff at least two visited segments meet the query segment.
  * `RingSpec r pts`: the ring `r` of the model realises the closed chain `pts` (search exact up
    to a permutation of the visit list, segments = edges, membership = `Spec.inRing`, tight
    rectangle).  `ringIntersectsSegment_exact_of_spec`: exactness for every such ring.
-/
import GeoProofs.Jordan.Parity
import GeoProofs.Props.C01
import GeoProofs.Props.C02

namespace Geo
namespace IX
open GL Jordan

/-! ### specification level -/

/-- cyclic presentation of a closed edge list; the number of edges is never 1 -/
theorem edges_cyc2 (pts : List Pt) :
    ∃ (n : Nat) (P : Nat → Pt), n ≠ 1 ∧
      Spec.edges pts true = (List.range n).map (fun i => (P i, P ((i + 1) % n))) := by
  by_cases h : 3 ≤ pts.length
  · refine ⟨SeriesL.nptsL pts, fun i => pts[i]!, ?_, SeriesL.edges_cyc pts h⟩
    have := SeriesL.nptsL_ge pts h
    omega
  · refine ⟨0, fun _ => default, by omega, ?_⟩
    unfold Spec.edges
    simp [show pts.length < 3 by omega]

theorem inRing_false_iff (es : List (Pt × Pt)) (p : Pt) :
    Spec.inRing es p = false ↔ Spec.onBoundary es p = false ∧ Spec.parity es p = 0 := by
  unfold Spec.inRing
  rw [Bool.or_eq_false_iff, beq_eq_false_iff_ne]
  have : Spec.parity es p < 2 := by unfold Spec.parity; exact Nat.mod_lt _ (by omega)
  constructor
  · rintro ⟨h1, h2⟩; exact ⟨h1, by omega⟩
  · rintro ⟨h1, h2⟩; exact ⟨h1, by omega⟩

theorem inRing_of_onBoundary {es : List (Pt × Pt)} {p : Pt} (h : Spec.onBoundary es p = true) :
    Spec.inRing es p = true := by
  unfold Spec.inRing
  rw [h]; rfl

theorem onBoundary_of_onSeg {es : List (Pt × Pt)} {e : Pt × Pt} {p : Pt} (he : e ∈ es)
    (h : OnSeg e.1 e.2 p) : Spec.onBoundary es p = true :=
  (onBoundary_iff es p).2 ⟨e, he, h⟩

theorem cyc_getElem? (P : Nat → Pt) (n j : Nat) (hj : j < n) :
    ((List.range n).map (fun i => (P i, P ((i + 1) % n))))[j]? = some (P j, P ((j + 1) % n)) := by
  simp [List.getElem?_map, List.getElem?_range hj]

theorem cyc_getElem?_some (P : Nat → Pt) (n j : Nat) (f : Pt × Pt)
    (h : ((List.range n).map (fun i => (P i, P ((i + 1) % n))))[j]? = some f) :
    j < n ∧ f = (P j, P ((j + 1) % n)) := by
  have hj : j < n := by
    by_contra hc
    rw [List.getElem?_eq_none (by simp; omega)] at h
    cases h
  rw [cyc_getElem? P n j hj] at h
  exact ⟨hj, (Option.some.inj h).symm⟩

/-- a segment whose endpoints are outside the closed region of a closed chain and which meets
    the region meets the chain at two distinct edge positions -/
theorem two_edges_of_meets (pts : List Pt) (p q : Pt)
    (hp : Spec.inRing (Spec.edges pts true) p = false)
    (hq : Spec.inRing (Spec.edges pts true) q = false)
    (hx : ∃ x, OnSeg p q x ∧ Spec.inRing (Spec.edges pts true) x = true) :
    ∃ (i j : Nat) (e f : Pt × Pt), i ≠ j ∧ (Spec.edges pts true)[i]? = some e ∧
      (Spec.edges pts true)[j]? = some f ∧ SegsMeet e.1 e.2 p q ∧ SegsMeet f.1 f.2 p q := by
  rcases (region_meets_segment_iff pts p q).1 hx with h | h | ⟨e, he, hm⟩
  · rw [hp] at h; cases h
  · rw [hq] at h; cases h
  obtain ⟨n, P, hn1, hE⟩ := edges_cyc2 pts
  have hm' : SegsMeet e.1 e.2 p q := (spec_segsMeet_iff _ _ _ _).1 hm
  obtain ⟨hpb, hpp⟩ := (inRing_false_iff _ _).1 hp
  obtain ⟨hqb, hqp⟩ := (inRing_false_iff _ _).1 hq
  have hmem := he
  rw [hE, List.mem_map] at hmem
  obtain ⟨k, hk, rfl⟩ := hmem
  have hk := List.mem_range.1 hk
  have hn2 : 2 ≤ n := by omega
  have hlook : ∀ j, j < n → (Spec.edges pts true)[j]? = some (P j, P ((j + 1) % n)) := by
    intro j hj; rw [hE]; exact cyc_getElem? P n j hj
  by_contra hno
  have hoth : ∀ j, j < n → j ≠ k → ¬ SegsMeet (P j) (P ((j + 1) % n)) p q := by
    intro j hj hjk hmj
    exact hno ⟨k, j, _, _, fun h => hjk h.symm, hlook k hk, hlook j hj, hm', hmj⟩
  rcases K.meet_cases ((K.segsMeet_iff_meetP _ _ _ _).1 hm') with hprop | h | h | h | h
  · -- a single proper crossing flips the parity
    refine parity_flips_of_one_proper_crossing_idx pts p q _ k (hlook k hk) hprop ?_ (by rw [hpp, hqp])
    intro j f hjk hf
    rw [hE] at hf
    obtain ⟨hj, rfl⟩ := cyc_getElem?_some P n j f hf
    rw [segsMeet_eq_false_iff]
    exact hoth j hj hjk
  · rw [onBoundary_of_onSeg he h] at hpb; cases hpb
  · rw [onBoundary_of_onSeg he h] at hqb; cases hqb
  · -- the first vertex of the edge lies on the segment: the previous edge ends there
    simp only at h
    by_cases hk0 : k = 0
    · subst hk0
      refine hoth (n - 1) (by omega) (by omega) ⟨P 0, ?_, h⟩
      rw [show (n - 1 + 1) % n = 0 by rw [Nat.sub_add_cancel (by omega), Nat.mod_self]]
      exact K.onSeg_right _ _
    · refine hoth (k - 1) (by omega) (by omega) ⟨P k, ?_, h⟩
      rw [show (k - 1 + 1) % n = k by rw [Nat.sub_add_cancel (by omega), Nat.mod_eq_of_lt hk]]
      exact K.onSeg_right _ _
  · -- the second vertex of the edge lies on the segment: the next edge starts there
    simp only at h
    by_cases hk1 : k + 1 < n
    · rw [Nat.mod_eq_of_lt hk1] at h
      exact hoth (k + 1) hk1 (by omega) ⟨P (k + 1), K.onSeg_left _ _, h⟩
    · have hkn : k + 1 = n := by omega
      rw [hkn, Nat.mod_self] at h
      exact hoth 0 (by omega) (by omega) ⟨P 0, K.onSeg_left _ _, h⟩

/-! ### the counting fold -/

/-- the callback of `ringIntersectsSegmentS` with `allowOnEdge = true` -/
def hitStep (seg : Seg) (segAt : Nat → Seg) (st : RISt) (i : Nat) : RISt × Bool :=
  if seg.intersects (segAt i) then
    ({ st with count := st.count + 1 }, decide (st.count + 1 < 2))
  else (st, decide (st.count < 2))

theorem countFold (seg : Seg) (segAt : Nat → Seg) : ∀ (l : List Nat) (st : RISt),
    2 ≤ (foldUntil (hitStep seg segAt) st l).1.count ↔
      2 ≤ st.count + (l.filter (fun i => seg.intersects (segAt i))).length := by
  intro l
  induction l with
  | nil => intro st; simp [foldUntil]
  | cons x xs ih =>
    intro st
    simp only [foldUntil, List.filter_cons, hitStep]
    by_cases hx : seg.intersects (segAt x) = true
    · simp only [hx, if_true]
      by_cases hc : st.count + 1 < 2
      · simp only [hc, decide_true, if_true]
        rw [ih]
        simp only [List.length_cons]
        omega
      · simp only [hc, decide_false, Bool.false_eq_true, if_false, List.length_cons]
        omega
    · simp only [hx, Bool.false_eq_true, if_false]
      by_cases hc : st.count < 2
      · simp only [hc, decide_true, if_true]
        exact ih st
      · simp only [hc, decide_false, Bool.false_eq_true, if_false]
        omega

theorem two_le_filter_length {l : List Nat} (hl : l.Nodup) (P : Nat → Bool) :
    2 ≤ (l.filter P).length ↔ ∃ i j, i ∈ l ∧ j ∈ l ∧ i ≠ j ∧ P i = true ∧ P j = true := by
  constructor
  · intro h
    have hnd : (l.filter P).Nodup := hl.filter _
    match hf : l.filter P, h, hnd with
    | a :: b :: rest, _, hnd =>
      have ha : a ∈ l.filter P := by rw [hf]; simp
      have hb : b ∈ l.filter P := by rw [hf]; simp
      rw [List.mem_filter] at ha hb
      refine ⟨a, b, ha.1, hb.1, ?_, ha.2, hb.2⟩
      intro hab
      subst hab
      simp at hnd
  · rintro ⟨i, j, hi, hj, hij, pi, pj⟩
    have hsub : [i, j] ⊆ l.filter P := by
      intro x hx
      simp only [List.mem_cons, List.not_mem_nil, or_false] at hx
      rcases hx with rfl | rfl
      · exact List.mem_filter.2 ⟨hi, pi⟩
      · exact List.mem_filter.2 ⟨hj, pj⟩
    have hnd : [i, j].Nodup := by simp [hij]
    exact (List.subperm_of_subset hnd hsub).length_le

/-! ### rings of the model that realise a closed chain of the specification -/

structure RingSpec (r : Ring) (pts : List Pt) : Prop where
  /-- the search visits, in some order, the segments whose box meets the query box -/
  search : ∀ q : Box, ∃ visit : List Nat,
    List.Perm visit ((List.range r.numSegments).filter (fun i => (r.segmentAt i).box.intersects q)) ∧
    ∀ {σ : Type} (f : σ → Seg → Nat → σ × Bool) (st : σ),
      r.search q f st = (foldUntil (fun st i => f st (r.segmentAt i) i) st visit).1
  nseg : r.numSegments = (Spec.edges pts true).length
  segAt : ∀ i, i < r.numSegments →
    (Spec.edges pts true)[i]? = some ((r.segmentAt i).a, (r.segmentAt i).b)
  mem : ∀ p, (ringContainsPoint r p true).hit = Spec.inRing (Spec.edges pts true) p
  inRect : ∀ p, Spec.inRing (Spec.edges pts true) p = true → r.rect.containsPt p = true
  empty_iff : r.empty = true ↔ Spec.edges pts true = []
  tight : r.empty = false →
    (∃ v, Spec.onBoundary (Spec.edges pts true) v = true ∧ v.x = r.rect.min.x) ∧
    (∃ v, Spec.onBoundary (Spec.edges pts true) v = true ∧ v.x = r.rect.max.x) ∧
    (∃ v, Spec.onBoundary (Spec.edges pts true) v = true ∧ v.y = r.rect.min.y) ∧
    (∃ v, Spec.onBoundary (Spec.edges pts true) v = true ∧ v.y = r.rect.max.y)

theorem RingSpec.edge_mem {r : Ring} {pts : List Pt} (h : RingSpec r pts) {i : Nat}
    (hi : i < r.numSegments) : ((r.segmentAt i).a, (r.segmentAt i).b) ∈ Spec.edges pts true :=
  List.mem_of_getElem? (h.segAt i hi)

theorem RingSpec.of_getElem? {r : Ring} {pts : List Pt} (h : RingSpec r pts) {i : Nat} {e : Pt × Pt}
    (hi : (Spec.edges pts true)[i]? = some e) :
    i < r.numSegments ∧ e = ((r.segmentAt i).a, (r.segmentAt i).b) := by
  have hlt : i < r.numSegments := by
    rw [h.nseg]
    by_contra hc
    rw [List.getElem?_eq_none (by omega)] at hi
    cases hi
  rw [h.segAt i hlt] at hi
  exact ⟨hlt, (Option.some.inj hi).symm⟩

theorem RingSpec.of_mem {r : Ring} {pts : List Pt} (h : RingSpec r pts) {e : Pt × Pt}
    (he : e ∈ Spec.edges pts true) :
    ∃ i, i < r.numSegments ∧ e = ((r.segmentAt i).a, (r.segmentAt i).b) := by
  obtain ⟨i, hi⟩ := List.getElem?_of_mem he
  exact ⟨i, h.of_getElem? hi⟩

/-- closed form of the counting search, `allowOnEdge = true` -/
theorem ris_true_iff {r : Ring} {pts : List Pt} (h : RingSpec r pts) (seg : Seg) :
    ringIntersectsSegment r seg true = true ↔
      seg.box.intersects r.rect = true ∧
      (Spec.inRing (Spec.edges pts true) seg.a = true ∨ Spec.inRing (Spec.edges pts true) seg.b = true ∨
        ∃ i j, i < r.numSegments ∧ j < r.numSegments ∧ i ≠ j ∧
          SegsMeet seg.a seg.b (r.segmentAt i).a (r.segmentAt i).b ∧
          SegsMeet seg.a seg.b (r.segmentAt j).a (r.segmentAt j).b) := by
  unfold ringIntersectsSegment ringIntersectsSegmentS
  rw [h.mem, h.mem]
  by_cases h1 : seg.box.intersects r.rect = true
  swap
  · rw [if_pos (by simpa using h1)]
    exact iff_of_false (by simp) (fun hh => h1 hh.1)
  rw [if_neg (by simp [h1])]
  by_cases h2 : Spec.inRing (Spec.edges pts true) seg.a = true
  · rw [if_pos h2]; exact iff_of_true rfl ⟨h1, Or.inl h2⟩
  rw [if_neg h2]
  by_cases h3 : Spec.inRing (Spec.edges pts true) seg.b = true
  · rw [if_pos h3]; exact iff_of_true rfl ⟨h1, Or.inr (Or.inl h3)⟩
  rw [if_neg h3]
  obtain ⟨visit, hperm, hv⟩ := h.search seg.box
  rw [hv]
  simp only [Bool.not_true, Bool.false_eq_true, if_false, decide_eq_true_eq]
  have hcf := countFold seg r.segmentAt visit ⟨0, false, false⟩
  unfold hitStep at hcf
  simp only [ge_iff_le]
  rw [hcf, hperm.filter _ |>.length_eq, List.filter_filter]
  simp only [Nat.zero_add]
  rw [two_le_filter_length List.nodup_range]
  constructor
  · rintro ⟨i, j, hi, hj, hij, pi, pj⟩
    simp only [Bool.and_eq_true] at pi pj
    exact ⟨h1, Or.inr (Or.inr ⟨i, j, List.mem_range.1 hi, List.mem_range.1 hj, hij,
      (segIntersects_iff _ _).1 pi.1, (segIntersects_iff _ _).1 pj.1⟩)⟩
  · rintro ⟨-, (hh | hh | ⟨i, j, hi, hj, hij, mi, mj⟩)⟩
    · exact absurd hh h2
    · exact absurd hh h3
    · refine ⟨i, j, List.mem_range.2 hi, List.mem_range.2 hj, hij, ?_, ?_⟩
      · simp only [Bool.and_eq_true]
        exact ⟨(segIntersects_iff _ _).2 mi, segBoxes_intersect_of_meet mi⟩
      · simp only [Bool.and_eq_true]
        exact ⟨(segIntersects_iff _ _).2 mj, segBoxes_intersect_of_meet mj⟩

/-- EXACTNESS of ring × segment for every ring of the model that realises a closed chain -/
theorem ringIntersectsSegment_exact_of_spec {r : Ring} {pts : List Pt} (h : RingSpec r pts) (seg : Seg) :
    ringIntersectsSegment r seg true = true ↔
      ∃ x, OnSeg seg.a seg.b x ∧ Spec.inRing (Spec.edges pts true) x = true := by
  rw [ris_true_iff h]
  constructor
  · rintro ⟨-, (hh | hh | ⟨i, j, hi, -, -, ⟨x, hx1, hx2⟩, -⟩)⟩
    · exact ⟨seg.a, K.onSeg_left _ _, hh⟩
    · exact ⟨seg.b, K.onSeg_right _ _, hh⟩
    · exact ⟨x, hx1, inRing_of_onBoundary (onBoundary_of_onSeg (h.edge_mem hi) hx2)⟩
  · rintro ⟨x, hx1, hx2⟩
    refine ⟨intersects_of_common _ _ x (onSeg_in_segBox seg x hx1) (h.inRect x hx2), ?_⟩
    by_cases ha : Spec.inRing (Spec.edges pts true) seg.a = true
    · exact Or.inl ha
    by_cases hb : Spec.inRing (Spec.edges pts true) seg.b = true
    · exact Or.inr (Or.inl hb)
    right; right
    obtain ⟨i, j, e, f, hij, hi, hj, mi, mj⟩ := two_edges_of_meets pts seg.a seg.b
      (by simpa using ha) (by simpa using hb) ⟨x, hx1, hx2⟩
    obtain ⟨hi', rfl⟩ := h.of_getElem? hi
    obtain ⟨hj', rfl⟩ := h.of_getElem? hj
    exact ⟨i, j, hi', hj', hij, (K.segsMeet_symm _ _ _ _).1 mi, (K.segsMeet_symm _ _ _ _).1 mj⟩

end IX
end Geo
