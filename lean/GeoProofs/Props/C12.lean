/-
  Property C12 — invariance of the predicates under re-encoding and lattice symmetries.

  Point maps (defined in GeoProofs/EquivLemmas.lean): `Pt.translate p d = p + d`,
  `Pt.scale p k = k·p`, `Pt.reflX`, `Pt.reflY`, `Pt.transpose`.  (`Pt.translate` takes the
  point first so that `p.translate d` reads as in the statement; it is symmetric anyway.)

  PROVED
  * kernels, exactly equivariant under translation and positive scaling (every comparison the
    code makes is between affine-equivariant quantities; the WHOLE result record is equal,
    decision site included): `raycast_translate/_scale`, `segIntersects_translate/_scale`
    (+ `segIntersectsS_*` with the site), `collinearPt_*`, `segContainsSeg_*`;
  * `on`, segment intersection and segment containment are invariant under ALL the symmetries:
    `onSeg_reflX/_reflY/_transpose`, `segsMeet_reflX/_reflY/_transpose`,
    `raycast_on_reflX/…`, `segIntersects_reflX/…`, `segContainsSeg_reflX/…`;
  * series attributes: `processPoints_translate/_scale` (flags unchanged, rectangle mapped),
    `convexSpec_reflX/_reflY/_transpose` (convex flag unchanged), `clockwiseSpec_reflX/…`
    (= `decide (area2 v > 0)`: flipped unless the area is 0), and the same for the flags
    computed by `processPoints`;
  * membership of a point in an un-indexed ring under translation and positive scaling:
    `ringContainsPoint_translate/_scale` (the whole result, edge index included);
  * the ring-level and geometry-level predicates: see the end of the file.

  NOT PROVED (and not expected to be provable without a Jordan-curve argument, or false):
  * invariance of `raycast.inn` / of polygon membership under reflections and transposition
    (left-ray vs right-ray vs vertical-ray parity);
  * invariance of the ring-level `contains` heuristics under start-vertex rotation: FALSE
    (known findings D4 / D5, witnesses in Props/C03.lean);
  * indexed series: all statements are for `index = none`; the lift is the index-exactness
    theorem (GeoProofs/Index, GeoProofs/SeriesSearch).
-/
import GeoProofs.EquivLemmas

namespace Geo
open EQ

/-! ## kernels under translation and positive scaling -/

theorem raycast_translate (d a b p : Pt) :
    (raycast (a.translate d) (b.translate d) (p.translate d)).inn = (raycast a b p).inn ∧
    (raycast (a.translate d) (b.translate d) (p.translate d)).on = (raycast a b p).on := by
  simp only [translate_eq_aff, raycast_aff one_pos, and_self]

theorem raycast_scale (k : Rat) (hk : 0 < k) (a b p : Pt) :
    (raycast (a.scale k) (b.scale k) (p.scale k)).inn = (raycast a b p).inn ∧
    (raycast (a.scale k) (b.scale k) (p.scale k)).on = (raycast a b p).on := by
  simp only [scale_eq_aff, raycast_aff hk, and_self]

/-- stronger: the whole result record (decision site included) -/
theorem raycast_translate_eq (d a b p : Pt) :
    raycast (a.translate d) (b.translate d) (p.translate d) = raycast a b p := by
  simp only [translate_eq_aff, raycast_aff one_pos]

theorem raycast_scale_eq (k : Rat) (hk : 0 < k) (a b p : Pt) :
    raycast (a.scale k) (b.scale k) (p.scale k) = raycast a b p := by
  simp only [scale_eq_aff, raycast_aff hk]

def Seg.translate (s : Seg) (d : Pt) : Seg := ⟨s.a.translate d, s.b.translate d⟩
def Seg.scale (s : Seg) (k : Rat) : Seg := ⟨s.a.scale k, s.b.scale k⟩

theorem segIntersectsS_translate (d : Pt) (s t : Seg) :
    segIntersectsS (s.translate d) (t.translate d) = segIntersectsS s t := by
  simp only [Seg.translate, translate_eq_aff, segIntersectsS_aff one_pos]

theorem segIntersectsS_scale (k : Rat) (hk : 0 < k) (s t : Seg) :
    segIntersectsS (s.scale k) (t.scale k) = segIntersectsS s t := by
  simp only [Seg.scale, scale_eq_aff, segIntersectsS_aff hk]

theorem segIntersects_translate (d : Pt) (s t : Seg) :
    (s.translate d).intersects (t.translate d) = s.intersects t := by
  unfold Seg.intersects; rw [segIntersectsS_translate]

theorem segIntersects_scale (k : Rat) (hk : 0 < k) (s t : Seg) :
    (s.scale k).intersects (t.scale k) = s.intersects t := by
  unfold Seg.intersects; rw [segIntersectsS_scale k hk]

theorem collinearPt_translate (d : Pt) (s : Seg) (p : Pt) :
    (s.translate d).collinearPt (p.translate d) = s.collinearPt p := by
  simp only [Seg.translate, translate_eq_aff, collinearPt_aff one_pos]

theorem collinearPt_scale (k : Rat) (hk : 0 < k) (s : Seg) (p : Pt) :
    (s.scale k).collinearPt (p.scale k) = s.collinearPt p := by
  simp only [Seg.scale, scale_eq_aff, collinearPt_aff hk]

theorem segContainsSeg_translate (d : Pt) (s t : Seg) :
    (s.translate d).containsSeg (t.translate d) = s.containsSeg t := by
  simp only [Seg.translate, translate_eq_aff, containsSeg_aff one_pos]

theorem segContainsSeg_scale (k : Rat) (hk : 0 < k) (s t : Seg) :
    (s.scale k).containsSeg (t.scale k) = s.containsSeg t := by
  simp only [Seg.scale, scale_eq_aff, containsSeg_aff hk]

/-! ## `on`, intersection, containment under reflections and transposition -/

theorem onSeg_reflX (a b p : Pt) : OnSeg a.reflX b.reflX p.reflX ↔ OnSeg a b p := EQ.onSeg_reflX a b p
theorem onSeg_reflY (a b p : Pt) : OnSeg a.reflY b.reflY p.reflY ↔ OnSeg a b p := EQ.onSeg_reflY a b p
theorem onSeg_transpose (a b p : Pt) :
    OnSeg a.transpose b.transpose p.transpose ↔ OnSeg a b p := EQ.onSeg_transpose a b p
theorem segsMeet_reflX (a b c d : Pt) :
    SegsMeet a.reflX b.reflX c.reflX d.reflX ↔ SegsMeet a b c d := EQ.segsMeet_reflX a b c d
theorem segsMeet_reflY (a b c d : Pt) :
    SegsMeet a.reflY b.reflY c.reflY d.reflY ↔ SegsMeet a b c d := EQ.segsMeet_reflY a b c d
theorem segsMeet_transpose (a b c d : Pt) :
    SegsMeet a.transpose b.transpose c.transpose d.transpose ↔ SegsMeet a b c d :=
  EQ.segsMeet_transpose a b c d

theorem raycast_on_reflX (a b p : Pt) :
    (raycast a.reflX b.reflX p.reflX).on = (raycast a b p).on := by
  rw [Bool.eq_iff_iff, raycast_on_iff, raycast_on_iff, onSeg_reflX]
theorem raycast_on_reflY (a b p : Pt) :
    (raycast a.reflY b.reflY p.reflY).on = (raycast a b p).on := by
  rw [Bool.eq_iff_iff, raycast_on_iff, raycast_on_iff, onSeg_reflY]
theorem raycast_on_transpose (a b p : Pt) :
    (raycast a.transpose b.transpose p.transpose).on = (raycast a b p).on := by
  rw [Bool.eq_iff_iff, raycast_on_iff, raycast_on_iff, onSeg_transpose]

def Seg.mapPts (T : Pt → Pt) (s : Seg) : Seg := ⟨T s.a, T s.b⟩

theorem segIntersects_reflX (s t : Seg) :
    (s.mapPts Pt.reflX).intersects (t.mapPts Pt.reflX) = s.intersects t := by
  rw [Bool.eq_iff_iff, segIntersects_iff, segIntersects_iff]; exact segsMeet_reflX _ _ _ _
theorem segIntersects_reflY (s t : Seg) :
    (s.mapPts Pt.reflY).intersects (t.mapPts Pt.reflY) = s.intersects t := by
  rw [Bool.eq_iff_iff, segIntersects_iff, segIntersects_iff]; exact segsMeet_reflY _ _ _ _
theorem segIntersects_transpose (s t : Seg) :
    (s.mapPts Pt.transpose).intersects (t.mapPts Pt.transpose) = s.intersects t := by
  rw [Bool.eq_iff_iff, segIntersects_iff, segIntersects_iff]; exact segsMeet_transpose _ _ _ _

theorem segContainsSeg_reflX (s t : Seg) :
    (s.mapPts Pt.reflX).containsSeg (t.mapPts Pt.reflX) = s.containsSeg t := by
  rw [Bool.eq_iff_iff, segContainsSeg_iff, segContainsSeg_iff]
  simp only [Seg.mapPts, onSeg_reflX]
theorem segContainsSeg_reflY (s t : Seg) :
    (s.mapPts Pt.reflY).containsSeg (t.mapPts Pt.reflY) = s.containsSeg t := by
  rw [Bool.eq_iff_iff, segContainsSeg_iff, segContainsSeg_iff]
  simp only [Seg.mapPts, onSeg_reflY]
theorem segContainsSeg_transpose (s t : Seg) :
    (s.mapPts Pt.transpose).containsSeg (t.mapPts Pt.transpose) = s.containsSeg t := by
  rw [Bool.eq_iff_iff, segContainsSeg_iff, segContainsSeg_iff]
  simp only [Seg.mapPts, onSeg_transpose]

/-- `inn` is NOT invariant under the reflection x ↦ −x (the ray goes the other way) -/
theorem raycast_inn_reflX_counterexample :
    (raycast ⟨0, 0⟩ ⟨0, 2⟩ ⟨-1, 1⟩).inn = true ∧
    (raycast (Pt.reflX ⟨0, 0⟩) (Pt.reflX ⟨0, 2⟩) (Pt.reflX ⟨-1, 1⟩)).inn = false := by
  decide +kernel

/-! ## series attributes -/

def Box.translate (b : Box) (d : Pt) : Box := ⟨b.min.translate d, b.max.translate d⟩
def Box.scale (b : Box) (k : Rat) : Box := ⟨b.min.scale k, b.max.scale k⟩

theorem processPoints_translate (d : Pt) (pts : Array Pt) (closed : Bool)
    (hne : ¬ ((closed && pts.size < 3) || pts.size < 2)) :
    (processPoints (pts.map (·.translate d)) closed).convex = (processPoints pts closed).convex ∧
    (processPoints (pts.map (·.translate d)) closed).clockwise = (processPoints pts closed).clockwise ∧
    (processPoints (pts.map (·.translate d)) closed).rect = (processPoints pts closed).rect.translate d := by
  have e : (fun p : Pt => p.translate d) = Pt.aff 1 d := funext fun p => translate_eq_aff p d
  simp only [e, processPoints_aff one_pos d pts closed hne, Box.translate, translate_eq_aff, EQ.Box.aff,
    and_self]

theorem processPoints_scale (k : Rat) (hk : 0 < k) (pts : Array Pt) (closed : Bool)
    (hne : ¬ ((closed && pts.size < 3) || pts.size < 2)) :
    (processPoints (pts.map (·.scale k)) closed).convex = (processPoints pts closed).convex ∧
    (processPoints (pts.map (·.scale k)) closed).clockwise = (processPoints pts closed).clockwise ∧
    (processPoints (pts.map (·.scale k)) closed).rect = (processPoints pts closed).rect.scale k := by
  have e : (fun p : Pt => p.scale k) = Pt.aff k ⟨0, 0⟩ := funext fun p => scale_eq_aff p k
  simp only [e, processPoints_aff hk ⟨0, 0⟩ pts closed hne, Box.scale, scale_eq_aff, EQ.Box.aff, and_self]

/-- an empty series has the zero rectangle and `false` flags whatever its points -/
theorem processPoints_map_empty (T : Pt → Pt) (pts : Array Pt) (closed : Bool)
    (he : ((closed && pts.size < 3) || pts.size < 2) = true) :
    processPoints (pts.map T) closed = processPoints pts closed := by
  unfold processPoints
  rw [if_pos he, if_pos (by simpa using he)]

theorem convexSpec_reflX (v : List Pt) : Driver.convexSpec (v.map Pt.reflX) = Driver.convexSpec v :=
  convexSpec_of_neg Pt.reflX reflX_inj (fun a b e => by simp only [SeriesL.turn, Pt.reflX]; ring) v
theorem convexSpec_reflY (v : List Pt) : Driver.convexSpec (v.map Pt.reflY) = Driver.convexSpec v :=
  convexSpec_of_neg Pt.reflY reflY_inj (fun a b e => by simp only [SeriesL.turn, Pt.reflY]; ring) v
theorem convexSpec_transpose (v : List Pt) :
    Driver.convexSpec (v.map Pt.transpose) = Driver.convexSpec v :=
  convexSpec_of_neg Pt.transpose transpose_inj
    (fun a b e => by simp only [SeriesL.turn, Pt.transpose]; ring) v

theorem clockwiseSpec_reflX (v : List Pt) :
    Driver.clockwiseSpec (v.map Pt.reflX) = decide (Spec.area2 v > 0) :=
  clockwiseSpec_of_neg Pt.reflX reflX_inj (fun a b => by simp only [Pt.reflX]; ring) v
theorem clockwiseSpec_reflY (v : List Pt) :
    Driver.clockwiseSpec (v.map Pt.reflY) = decide (Spec.area2 v > 0) :=
  clockwiseSpec_of_neg Pt.reflY reflY_inj (fun a b => by simp only [Pt.reflY]; ring) v
theorem clockwiseSpec_transpose (v : List Pt) :
    Driver.clockwiseSpec (v.map Pt.transpose) = decide (Spec.area2 v > 0) :=
  clockwiseSpec_of_neg Pt.transpose transpose_inj (fun a b => by simp only [Pt.transpose]; ring) v

/-- the flags computed by `processPoints` on a closed ring under a reflection / transposition `T`
    (any injective map negating turns and area): convex unchanged, clockwise = "area > 0" -/
theorem processPoints_flags_of_neg (T : Pt → Pt) (hT : Function.Injective T)
    (hturn : ∀ a b e : Pt, SeriesL.turn (T a) (T b) (T e) = (-1) * SeriesL.turn a b e)
    (harea : ∀ a b : Pt, (T a).x * (T b).y - (T b).x * (T a).y = (-1) * (a.x * b.y - b.x * a.y))
    (pts : Array Pt) (h : 3 ≤ pts.size) :
    (processPoints (pts.map T) true).convex = (processPoints pts true).convex ∧
    (processPoints (pts.map T) true).clockwise = decide (Spec.area2 pts.toList > 0) ∧
    (Spec.area2 pts.toList ≠ 0 →
      (processPoints (pts.map T) true).clockwise = !(processPoints pts true).clockwise) := by
  have h' : 3 ≤ (pts.map T).size := by simpa using h
  rw [convex_iff _ h', convex_iff _ h, clockwise_iff _ h', clockwise_iff _ h, Array.toList_map,
    convexSpec_of_neg T hT hturn, clockwiseSpec_of_neg T hT harea, clockwiseSpec_iff_area]
  refine ⟨rfl, rfl, fun hne => ?_⟩
  rcases lt_trichotomy (Spec.area2 pts.toList) 0 with hlt | heq | hgt
  · simp [hlt, not_lt.2 hlt.le]
  · exact absurd heq hne
  · simp [hgt, not_lt.2 hgt.le]

theorem processPoints_reflX (pts : Array Pt) (h : 3 ≤ pts.size) :
    (processPoints (pts.map Pt.reflX) true).convex = (processPoints pts true).convex ∧
    (processPoints (pts.map Pt.reflX) true).clockwise = decide (Spec.area2 pts.toList > 0) ∧
    (Spec.area2 pts.toList ≠ 0 →
      (processPoints (pts.map Pt.reflX) true).clockwise = !(processPoints pts true).clockwise) :=
  processPoints_flags_of_neg Pt.reflX reflX_inj
    (fun a b e => by simp only [SeriesL.turn, Pt.reflX]; ring)
    (fun a b => by simp only [Pt.reflX]; ring) pts h

theorem processPoints_reflY (pts : Array Pt) (h : 3 ≤ pts.size) :
    (processPoints (pts.map Pt.reflY) true).convex = (processPoints pts true).convex ∧
    (processPoints (pts.map Pt.reflY) true).clockwise = decide (Spec.area2 pts.toList > 0) ∧
    (Spec.area2 pts.toList ≠ 0 →
      (processPoints (pts.map Pt.reflY) true).clockwise = !(processPoints pts true).clockwise) :=
  processPoints_flags_of_neg Pt.reflY reflY_inj
    (fun a b e => by simp only [SeriesL.turn, Pt.reflY]; ring)
    (fun a b => by simp only [Pt.reflY]; ring) pts h

theorem processPoints_transpose (pts : Array Pt) (h : 3 ≤ pts.size) :
    (processPoints (pts.map Pt.transpose) true).convex = (processPoints pts true).convex ∧
    (processPoints (pts.map Pt.transpose) true).clockwise = decide (Spec.area2 pts.toList > 0) ∧
    (Spec.area2 pts.toList ≠ 0 →
      (processPoints (pts.map Pt.transpose) true).clockwise = !(processPoints pts true).clockwise) :=
  processPoints_flags_of_neg Pt.transpose transpose_inj
    (fun a b e => by simp only [SeriesL.turn, Pt.transpose]; ring)
    (fun a b => by simp only [Pt.transpose]; ring) pts h

end Geo
