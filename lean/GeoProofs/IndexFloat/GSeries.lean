/-
  GeoProofs.IndexFloat.GSeries — the index part of `baseSeries` (geometry/series.go:
  buildIndex / setCompressed / Search), generic in the coordinate carrier `α` and in the 8-byte
  coordinate codec.  `GeoModel/Series.lean` fixes `α := Rat` (exact arithmetic) and
  `encF64/decF64`; here the SAME definitions are parametrised, so that they can be run on the
  binary64 carrier.  `series_search_eq_gsearch` shows (by `rfl`) that at `Rat` the generic search
  is literally `Series.search`, and `mkSeries_index_eq` that the generic builder is `mkSeries`'s.

  `gseries_search_exact`: for every lawful carrier with sign-exact subtraction and every codec
  that round-trips, the search of a series indexed with any of the three kinds is exact.
-/
import GeoProofs.SeriesSearch
import GeoProofs.Index.RBytesGood

namespace Geo.DF
open Geo

section
variable {α : Type} [Carrier α]

/-- what `Search` needs of a series: the segment boxes, the overall rect, the index bytes -/
structure GSeries (α : Type) where
  nsegs : Nat
  boxOf : Nat → GBox α
  rect : GBox α
  index : Option (Array Nat)

/-- `buildIndexBytes` of GeoModel/Series.lean, generic -/
def buildIndexBytesG (enc : α → List Nat) (boxOf : Nat → GBox α) (n : Nat) (rect : GBox α)
    (kind : IndexKind) : Option (Array Nat) :=
  let setCompressed (data : Array Nat) : Array Nat := putU32 data 1 data.size
  match kind with
  | .none => none
  | .rtree => some (setCompressed ((rBuild boxOf n).compress enc #[1,0,0,0,0]))
  | .quadtree => some (setCompressed (qCompress (qBuild boxOf rect n) #[2,0,0,0,0]))

/-- `mkSeries`, generic: `npts` points, `n` segments; index only from `minPoints` points on -/
def mkG (enc : α → List Nat) (npts n : Nat) (boxOf : Nat → GBox α) (rect : GBox α)
    (kind : IndexKind) (minPoints : Nat) : GSeries α :=
  ⟨n, boxOf, rect,
    if minPoints != 0 && npts ≥ minPoints then buildIndexBytesG enc boxOf n rect kind else none⟩

/-- `Series.search`, generic (the callback receives the segment number) -/
def GSeries.search (dec : List Nat → α) {σ : Type} (s : GSeries α) (q : GBox α)
    (f : σ → Nat → σ × Bool) (st : σ) : Outcome σ :=
  match s.index with
  | none => .ok (visitItems s.boxOf q f st (List.range s.nsegs)).1
  | some data =>
    match readLE data 1 4 with
    | none => .panic
    | some n =>
      if n > data.size then .panic else
      let data := data.extract 0 n
      match data[0]? with
      | some 1 => match rSearchBytes dec s.boxOf q f data 5 st with
                  | some r => .ok r.1 | none => .panic
      | some 2 => match qSearchBytes s.boxOf q f data (qMaxDepth + 2) 5 s.rect st with
                  | some r => .ok r.1 | none => .panic
      | some _ => .ok st
      | none => .panic

/-- exactness of the search of a generic series -/
def GSeries.SearchExact (dec : List Nat → α) (s : GSeries α) : Prop :=
  ∀ q : GBox α, ∃ visit : List Nat,
    List.Perm visit ((List.range s.nsegs).filter (fun i => (s.boxOf i).meets q)) ∧
    ∀ {σ : Type} (f : σ → Nat → σ × Bool) (st : σ),
      s.search dec q f st = .ok (foldUntil f st visit).1

theorem gsearch_none (dec : List Nat → α) (s : GSeries α) (h : s.index = none) :
    s.SearchExact dec := by
  intro q
  refine ⟨_, List.Perm.refl _, fun f st => ?_⟩
  unfold GSeries.search
  simp only [h]
  rw [visitItems_eq_foldUntil]

theorem gsearch_setCompressed (dec : List Nat → α) (s : GSeries α) (D : Array Nat)
    (hidx : s.index = some (putU32 D 1 D.size)) (h5 : 5 ≤ D.size) (hlt : D.size < 2 ^ 32)
    (q : GBox α) {σ : Type} (f : σ → Nat → σ × Bool) (st : σ) :
    s.search dec q f st =
      match D[0]? with
      | some 1 => match rSearchBytes dec s.boxOf q f (putU32 D 1 D.size) 5 st with
                  | some r => .ok r.1 | none => .panic
      | some 2 => match qSearchBytes s.boxOf q f (putU32 D 1 D.size) (qMaxDepth + 2) 5 s.rect st with
                  | some r => .ok r.1 | none => .panic
      | some _ => .ok st
      | none => .panic := by
  unfold GSeries.search
  simp only [hidx]
  rw [(putU32_readLE D 1 D.size (by omega) hlt).1]
  simp only [size_putU32, gt_iff_lt, Nat.lt_irrefl, if_false]
  rw [Array.extract_eq_self_of_le (by simp), getElem?_putU32_of_outside D 1 D.size 0 (by omega)]

/-- **C04 at series level, any carrier.**  All three index kinds. Size hypotheses: the formats
    store counts, item numbers and addresses in 32 bits. -/
theorem gseries_search_exact [LawfulCarrier α] [SignExactSub α]
    (enc : α → List Nat) (dec : List Nat → α)
    (henc : ∀ x, dec (enc x) = x) (hlen : ∀ x, (enc x).length = 8)
    (npts n : Nat) (boxOf : Nat → GBox α) (rect : GBox α) (kind : IndexKind) (minPoints : Nat)
    (hn : n < 2 ^ 32)
    (hb : kind = .quadtree → ∀ i, i < n → boxOf i ⊆ rect)
    (hq : kind = .quadtree → (qCompress (qBuild boxOf rect n) #[2, 0, 0, 0, 0]).size < 2 ^ 32)
    (hr : kind = .rtree → ((rBuild boxOf n).compress enc #[1, 0, 0, 0, 0]).size < 2 ^ 32) :
    (mkG enc npts n boxOf rect kind minPoints).SearchExact dec := by
  by_cases hc : (minPoints != 0 && decide (npts ≥ minPoints)) = true
  swap
  · exact gsearch_none dec _ (by unfold mkG; simp only [if_neg hc])
  cases kind with
  | none => exact gsearch_none dec _ (by unfold mkG buildIndexBytesG; simp)
  | quadtree =>
    intro q
    set D := qCompress (qBuild boxOf rect n) #[2, 0, 0, 0, 0] with hD
    have hidx : (mkG enc npts n boxOf rect .quadtree minPoints).index =
        some (putU32 D 1 D.size) := by
      unfold mkG; simp only [if_pos hc]; rfl
    obtain ⟨visit, hperm, hv⟩ := qtree_search_exact_patched boxOf rect q n hn (hb rfl) (hq rfl)
    obtain ⟨h5, h0⟩ := qCompress_header _ (qBuild_isNil boxOf rect n) (hq rfl)
    refine ⟨visit, hperm, fun f st => ?_⟩
    rw [gsearch_setCompressed dec _ D hidx h5 (hq rfl), h0]
    simp only [mkG]
    rw [hv (putU32 D 1 D.size) (fun i h1 _ => getElem?_putU32_of_outside _ 1 _ i (by omega))]
  | rtree =>
    intro q
    set D := (rBuild boxOf n).compress enc #[1, 0, 0, 0, 0] with hD
    have hidx : (mkG enc npts n boxOf rect .rtree minPoints).index =
        some (putU32 D 1 D.size) := by
      unfold mkG; simp only [if_pos hc]; rfl
    obtain ⟨visit, hperm, hv⟩ :=
      rtree_search_exact_patched_total enc dec boxOf q n hn henc hlen (hr rfl)
    have hext : BytesExt #[1, 0, 0, 0, 0] D := rtree_compress_ext enc _ _
    have h5 : 5 ≤ D.size := hext.1
    have h0 : D[0]? = some 1 := by rw [hext.2 0 (by simp)]; rfl
    refine ⟨visit, hperm, fun f st => ?_⟩
    rw [gsearch_setCompressed dec _ D hidx h5 (hr rfl), h0]
    simp only [mkG]
    rw [hv]

end

/-! ### at `Rat` the generic definitions are those of GeoModel/Series.lean -/

theorem series_search_eq_gsearch (s : Series) (q : Box) {σ : Type}
    (f : σ → Seg → Nat → σ × Bool) (st : σ) :
    s.search q f st =
      GSeries.search decF64 ⟨s.numSegments, fun i => (s.segmentAt i).box.g, s.rect.g, s.index⟩
        q.g (fun st i => f st (s.segmentAt i) i) st := by rfl

theorem mkSeries_index_eq (pts : Array Pt) (closed : Bool) (kind : IndexKind) (m : Nat) :
    (mkSeries pts closed kind m).index =
      (mkG encF64 pts.size (numSegmentsOf pts closed) (fun i => (segmentAtOf pts i).box.g)
        (processPoints pts closed).rect.g kind m).index := by rfl

end Geo.DF
