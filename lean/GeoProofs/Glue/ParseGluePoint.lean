/-
  GeoProofs.Glue.ParseGluePoint — generated parseJSONPointCoords = the model's parsePointCoords.
-/
import GeoProofs.Glue.ParseGlueNums

set_option linter.unusedSimpArgs false

namespace Geo.PGlue
open Geo Geo.PGen

theorem forEach_vals (rc : JVal) : (forEach (some rc)).map (·.2) = rc.elems.map some := by
  cases rc <;> simp [forEach, JVal.elems]

/-- takeNums in terms of takeMF -/
theorem takeNums_eq (a : Bool) : ∀ (vs : List JVal) (xs : List RPair) (c : Nat), xs.map (·.2) = vs.map some →
    takeNums a vs c = match takeMF a xs c with
      | some os => .ok (os.map MF.ord)
      | none => .error .coordsInvalid := by
  intro vs
  induction vs with
  | nil => intro xs c h; simp at h; subst h; simp [takeNums, takeMF]
  | cons v vs ih =>
    intro xs c h
    cases xs with
    | nil => simp at h
    | cons x xs =>
      simp only [List.map_cons, List.cons.injEq] at h
      obtain ⟨hx, hxs⟩ := h
      have := ih xs (c + 1) hxs
      rw [takeMF]
      by_cases h4 : c = 4
      · cases v <;> simp [takeNums, h4]
      · have hne : (c == 4) = false := by simpa using h4
        cases v <;> simp only [takeNums, hne, hx, typeOf] <;> simp <;>
          (try (rw [this]; cases a <;> cases takeMF _ xs (c+1) <;> simp [MF.ord, mfFloat, mfNaN, bind, Except.bind, pure, Except.pure, Functor.map, Except.map]))

def errG : PErr → PGen.Err MStr
  | .dataInvalid => .errDataInvalid
  | .typeInvalid => .errTypeInvalid
  | .typeMissing => .errTypeMissing
  | .typeUnknown => .fmtErrTypeIsUnknown []
  | .coordsInvalid => .errCoordinatesInvalid
  | .coordsMissing => .errCoordinatesMissing
  | .geometryMissing => .errGeometryMissing
  | .featuresMissing => .errFeaturesMissing
  | .featuresInvalid => .errFeaturesInvalid
  | .geometriesMissing => .errGeometriesMissing
  | .geometriesInvalid => .errGeometriesInvalid
  | .circleUnits => .errCircleRadiusUnitsInvalid
  | .unmodelled => .errDataInvalid

theorem pointCoords_some (rec : RecT) (keys : Option (PGen.ParseKeys (Option JVal) MStr)) (opts : Option GOpts) (rc : JVal) :
    match parsePointCoords rc with
    | .ok (pos, ex) =>
      toPos (PGen.parseJSONPointCoords (mops rec) keys (some rc) opts).1 = pos ∧
      (PGen.parseJSONPointCoords (mops rec) keys (some rc) opts).2.1.map exM = ex ∧
      (PGen.parseJSONPointCoords (mops rec) keys (some rc) opts).2.2 = none
    | .error e => e = .coordsInvalid ∧
      (PGen.parseJSONPointCoords (mops rec) keys (some rc) opts).2.2 = some .errCoordinatesInvalid := by
  have hnum := takeNums_eq true rc.elems (forEach (some rc)) 0 (forEach_vals rc)
  have key := numFold0 true (numStep true) (forEach (some rc)) _ rfl (fun _ _ => rfl)
  have hlit : PGen.parseJSONPointCoords_lit1 (mops rec) = numStep true := by funext x st; rfl
  have hrep : List.replicate 4 (mfInt 0) = [mfInt 0, mfInt 0, mfInt 0, mfInt 0] := rfl
  rw [hrep] at key
  unfold parsePointCoords
  unfold PGen.parseJSONPointCoords
  simp only [m_gjsonResultExists, m_gjsonResultForEach, m_zeroGeometryPoint, m_f64OfInt, Option.isSome_some, Bool.not_true,
    Bool.false_eq_true, if_false, hlit, hrep]
  rw [hnum]
  cases hr : takeMF true (forEach (some rc)) 0 with
  | none =>
    rw [hr] at key
    simp only at key
    simp [key, bind, Except.bind]
  | some os =>
    rw [hr] at key
    obtain ⟨hk, hlen⟩ := key
    simp only [hk]
    clear hk hnum hr
    unfold PGen.parseJSONPointCoords_body2
    rcases os with _ | ⟨a, _ | ⟨b, _ | ⟨c, _ | ⟨d, _ | ⟨e, t⟩⟩⟩⟩⟩
    · simp [bind, Except.bind]
    · simp [bind, Except.bind]
    · simp [bind, Except.bind, pure, Except.pure, pad, arrAt, toPos, MF.ord, zf]
    · simp [bind, Except.bind, pure, Except.pure, pad, arrAt, arrSet, toPos, MF.ord, zf, intRange, forRange, exM, flat, hasPropsOf, decodeObj]
    · simp [bind, Except.bind, pure, Except.pure, pad, arrAt, arrSet, toPos, MF.ord, zf, intRange, forRange, exM, flat, hasPropsOf, decodeObj,
        (by decide : List.range 2 = [0, 1])]
    · simp at hlen

#print axioms pointCoords_some

abbrev GKeys := PGen.ParseKeys (Option JVal) MStr

/-- the generated keys record `gk` carries the same information as the model's `k` -/
structure KeysRel (gk : GKeys) (k : Keys) : Prop where
  coords : gk.rCoordinates = k.coordinates
  geoms : gk.rGeometries = k.geometries
  geom : gk.rGeometry = k.geometry
  feats : gk.rFeatures = k.features
  members : String.ofList (flat gk.members) = k.members
  props : hasPropsOf gk.members = k.hasProps
  dec : k.foreign ≠ [] → decodeObj gk.members = some (.obj k.foreign)
  mem0 : k.foreign = [] → gk.members = []

theorem ofList_eq_empty (l : List Char) : (String.ofList l == "") = (l == []) := by
  cases l with
  | nil => rfl
  | cons c t =>
    have : String.ofList (c :: t) ≠ "" := by
      intro h
      have := congrArg String.toList h
      simp at this
    simp [this]

theorem bbox_eq (rec : RecT) (ex : Option GExtra) (gk : GKeys) (opts : Option GOpts) (k : Keys) (hk : KeysRel gk k) :
    (PGen.parseBBoxAndExtras (mops rec) ex (some gk) opts).1 = none ∧
    (PGen.parseBBoxAndExtras (mops rec) ex (some gk) opts).2.map exM = withMembers (ex.map exM) k := by
  unfold PGen.parseBBoxAndExtras withMembers
  simp only [m_strEq, m_strLit, deref_some, m_zeroExtra]
  have h1 : (k.members == "") = (flat gk.members == flat (lit "")) := by
    rw [← hk.members, ofList_eq_empty]; rfl
  rw [h1]
  by_cases h : (flat gk.members == flat (lit "")) = true
  · simp [h]
  · simp only [h]
    cases ex with
    | none => simp [exM, hk.members, hk.props, flat]
    | some e => simp [exM, hk.members, hk.props]

#print axioms bbox_eq

end Geo.PGlue
