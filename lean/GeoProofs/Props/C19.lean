/-
  GeoProofs.Props.C19 — the segment kernel (Raycast, IntersectsSegment, ContainsSegment,
  CollinearPoint, Rect) meets its exact planar specification, for ALL rational inputs
  (zero-length, horizontal and vertical segments included).

  The stage-by-stage lemmas live in `GeoProofs/KernelLemmas.lean` (namespace `Geo.K`); the
  predicates `OnSeg`, `Cross`, `SegsMeet` below have literally the same bodies as
  `K.OnSeg`, `K.Cross`, `K.SegsMeet`, so the lemmas transfer by definitional unfolding.
-/
import GeoProofs.KernelLemmas
import GeoProofs.Kernel.Intersect

namespace Geo

def OnSeg (a b p : Pt) : Prop :=
  Spec.cross a b p = 0 ∧ min a.x b.x ≤ p.x ∧ p.x ≤ max a.x b.x ∧ min a.y b.y ≤ p.y ∧ p.y ≤ max a.y b.y

/-- half-open crossing rule: the rightward horizontal ray from p crosses ab; an endpoint level with p counts as below it -/
def Cross (a b p : Pt) : Prop :=
  ((a.y ≤ p.y) ≠ (b.y ≤ p.y)) ∧ (if a.y < b.y then 0 < Spec.cross a b p else 0 < Spec.cross b a p)

def SegsMeet (a b c d : Pt) : Prop := ∃ p : Pt, OnSeg a b p ∧ OnSeg c d p

theorem onSeg_iff_K (a b p : Pt) : OnSeg a b p ↔ K.OnSeg a b p := Iff.rfl
theorem cross_iff_K (a b p : Pt) : Cross a b p ↔ K.Cross a b p := Iff.rfl
theorem segsMeet_iff_K (a b c d : Pt) : SegsMeet a b c d ↔ K.SegsMeet a b c d := Iff.rfl

theorem onSeg_iff_param (a b p : Pt) :
    OnSeg a b p ↔ ∃ t : Rat, 0 ≤ t ∧ t ≤ 1 ∧ p.x = a.x + t * (b.x - a.x) ∧ p.y = a.y + t * (b.y - a.y) :=
  K.onSeg_iff_param a b p

theorem raycast_on_iff (a b p : Pt) : (raycast a b p).on = true ↔ OnSeg a b p :=
  (K.raycast_good a b p).1

theorem raycast_in_iff (a b p : Pt) (h : ¬ OnSeg a b p) : (raycast a b p).inn = true ↔ Cross a b p :=
  (K.raycast_good a b p).2.trans ⟨fun hc => hc.2, fun hc => ⟨h, hc⟩⟩

theorem raycast_on_not_in (a b p : Pt) : (raycast a b p).on = true → (raycast a b p).inn = false := by
  intro hon
  have hs := (raycast_on_iff a b p).1 hon
  cases hin : (raycast a b p).inn with
  | false => rfl
  | true => exact absurd hs ((K.raycast_good a b p).2.1 hin).1

theorem raycast_symm (a b p : Pt) :
    (raycast a b p).inn = (raycast b a p).inn ∧ (raycast a b p).on = (raycast b a p).on := by
  have h1 := K.raycast_good a b p
  have h2 := K.raycast_good b a p
  constructor
  · rw [Bool.eq_iff_iff, h1.2, h2.2, K.onSeg_symm a b p, K.cross_symm a b p]
  · rw [Bool.eq_iff_iff, h1.1, h2.1, K.onSeg_symm a b p]

/-! ### IntersectsSegment -/

theorem segIntersects_iff (s t : Seg) : s.intersects t = true ↔ SegsMeet s.a s.b t.a t.b := by
  unfold Seg.intersects segIntersectsS
  simp only []
  split_ifs with h1 h2 h3 h4 h5 h6 h7
  · -- site 1: y-ranges disjoint
    refine iff_of_false (by simp) ?_
    rintro ⟨p, ⟨-, -, -, e1, e2⟩, ⟨-, -, -, e3, e4⟩⟩
    exact K.axisReject_sound h1 e1 e2 e3 e4
  · -- site 2: x-ranges disjoint
    refine iff_of_false (by simp) ?_
    rintro ⟨p, ⟨-, e1, e2, -, -⟩, ⟨-, e3, e4, -, -⟩⟩
    exact K.axisReject_sound h2 e1 e2 e3 e4
  · -- site 3: a shared endpoint
    refine iff_of_true rfl ?_
    simp only [Bool.or_eq_true, decide_eq_true_eq] at h3
    rcases h3 with ((h | h) | h) | h
    · exact ⟨s.a, K.onSeg_left _ _, h ▸ K.onSeg_left _ _⟩
    · exact ⟨s.a, K.onSeg_left _ _, h ▸ K.onSeg_right _ _⟩
    · exact ⟨s.b, K.onSeg_right _ _, h ▸ K.onSeg_left _ _⟩
    · exact ⟨s.b, K.onSeg_right _ _, h ▸ K.onSeg_right _ _⟩
  · -- site 4: collinear, decided by the three on-tests
    exact K.collinear_leaf h4
  · -- site 5: collinear, `t.a` inside the half-open coordinate range of `s`
    refine iff_of_true rfl ?_
    rw [Bool.not_eq_true, Bool.not_eq_false'] at h5
    exact K.segsMeet_of_onSeg_left (K.onSeg_of_halfopen h4 h5)
  · -- site 6: parallel, not collinear
    exact iff_of_false (by simp) (K.parallel_leaf h4 h6)
  · -- site 7: Cramer parameters outside [0,1]
    refine iff_of_false (by simp) ?_
    rw [Bool.not_eq_true'] at h7
    intro hm
    rw [(K.cramer_leaf h6).2 hm] at h7
    exact absurd h7 (by simp)
  · -- site 8: Cramer parameters inside [0,1]
    exact iff_of_true rfl ((K.cramer_leaf h6).1 (by simpa using h7))

theorem segIntersects_symm (s t : Seg) : s.intersects t = t.intersects s := by
  rw [Bool.eq_iff_iff, segIntersects_iff, segIntersects_iff]
  exact K.segsMeet_symm _ _ _ _

/-! ### ContainsSegment, CollinearPoint, Rect -/

theorem segContainsSeg_iff (s t : Seg) :
    s.containsSeg t = true ↔ (OnSeg s.a s.b t.a ∧ OnSeg s.a s.b t.b) := by
  unfold Seg.containsSeg Seg.raycast
  rw [Bool.and_eq_true, raycast_on_iff, raycast_on_iff]

theorem segContainsSeg_iff_subset (s t : Seg) :
    s.containsSeg t = true ↔ ∀ p, OnSeg t.a t.b p → OnSeg s.a s.b p := by
  rw [segContainsSeg_iff]
  constructor
  · rintro ⟨ha, hb⟩ p hp
    exact K.onSeg_convex ha hb hp
  · intro h
    exact ⟨h _ (K.onSeg_left _ _), h _ (K.onSeg_right _ _)⟩

theorem collinearPt_iff (s : Seg) (p : Pt) : s.collinearPt p = true ↔ Spec.cross s.a s.b p = 0 := by
  unfold Seg.collinearPt
  simp only [decide_eq_true_eq]
  rw [K.cross_def]
  constructor <;> intro h <;> linear_combination -h

theorem segBox_tight (s : Seg) :
    s.box = ⟨⟨min s.a.x s.b.x, min s.a.y s.b.y⟩, ⟨max s.a.x s.b.x, max s.a.y s.b.y⟩⟩ := by
  unfold Seg.box
  simp only [K.ite_gt_min, K.ite_gt_max]

/-! ### the executable specification functions agree with the Prop-level specification -/

theorem spec_onSeg_iff (a b p : Pt) : Spec.onSeg a b p = true ↔ OnSeg a b p := by
  unfold Spec.onSeg OnSeg
  simp only [Bool.and_eq_true, decide_eq_true_eq, and_assoc]

theorem spec_crosses_iff (a b p : Pt) : Spec.crosses a b p = true ↔ Cross a b p := by
  unfold Spec.crosses Cross
  have e : ((a.y ≤ p.y) ≠ (b.y ≤ p.y)) ↔ ¬ ((a.y ≤ p.y) ↔ (b.y ≤ p.y)) := by rw [Ne, eq_iff_iff]
  rw [Bool.and_eq_true, bne_iff_ne, Ne, decide_eq_decide, e]
  split_ifs <;> simp only [decide_eq_true_eq]

theorem spec_segsMeet_iff (a b c d : Pt) : Spec.segsMeet a b c d = true ↔ SegsMeet a b c d := by
  unfold Spec.segsMeet
  simp only [Bool.or_eq_true, Bool.and_eq_true, decide_eq_true_eq, spec_onSeg_iff]
  constructor
  · rintro ((((⟨h1, h2⟩ | h) | h) | h) | h)
    · exact K.proper_cross_meet h1 h2
    · exact K.segsMeet_of_onSeg_left h
    · exact K.segsMeet_of_onSeg_right h
    · exact (K.segsMeet_symm _ _ _ _).1 (K.segsMeet_of_onSeg_left h)
    · exact (K.segsMeet_symm _ _ _ _).1 (K.segsMeet_of_onSeg_right h)
  · intro h
    rcases K.meet_cases ((K.segsMeet_iff_meetP _ _ _ _).1 h) with h | h | h | h | h
    · exact Or.inl (Or.inl (Or.inl (Or.inl h)))
    · exact Or.inl (Or.inl (Or.inl (Or.inr h)))
    · exact Or.inl (Or.inl (Or.inr h))
    · exact Or.inl (Or.inr h)
    · exact Or.inr h

/-! ### non-vacuity: the hypotheses and predicates are inhabited by non-trivial values -/

/-- a point off the segment whose ray crosses it (hypothesis of `raycast_in_iff` + `Cross`) -/
theorem ex_off_cross : ¬ OnSeg ⟨0, 0⟩ ⟨2, 4⟩ ⟨0, 1⟩ ∧ Cross ⟨0, 0⟩ ⟨2, 4⟩ ⟨0, 1⟩ := by
  unfold OnSeg Cross Spec.cross
  constructor
  · norm_num
  · refine ⟨?_, by norm_num⟩
    rw [K.prop_ne_iff]; norm_num

/-- ... so the model answers `inn = true`, `on = false` there -/
example : (raycast ⟨0, 0⟩ ⟨2, 4⟩ ⟨0, 1⟩).inn = true ∧ (raycast ⟨0, 0⟩ ⟨2, 4⟩ ⟨0, 1⟩).on = false := by
  refine ⟨(raycast_in_iff _ _ _ ex_off_cross.1).2 ex_off_cross.2, ?_⟩
  cases h : (raycast ⟨0, 0⟩ ⟨2, 4⟩ ⟨0, 1⟩).on with
  | false => rfl
  | true => exact absurd ((raycast_on_iff _ _ _).1 h) ex_off_cross.1

/-- a point off the segment whose ray misses it (to the right of the segment) -/
example : ¬ OnSeg ⟨0, 0⟩ ⟨2, 4⟩ ⟨3, 1⟩ ∧ ¬ Cross ⟨0, 0⟩ ⟨2, 4⟩ ⟨3, 1⟩ := by
  unfold OnSeg Cross Spec.cross
  constructor <;> norm_num

/-- a vertex level with the point counts as below it: the upper endpoint's level is not crossed,
    the lower endpoint's level is -/
example : ¬ Cross ⟨0, 0⟩ ⟨2, 4⟩ ⟨-1, 4⟩ ∧ Cross ⟨0, 0⟩ ⟨2, 4⟩ ⟨-1, 0⟩ := by
  unfold Cross Spec.cross
  constructor
  · norm_num
  · refine ⟨?_, by norm_num⟩
    rw [K.prop_ne_iff]; norm_num

/-- an interior point of a sloped segment -/
example : OnSeg ⟨0, 0⟩ ⟨2, 4⟩ ⟨1, 2⟩ := by
  unfold OnSeg Spec.cross; norm_num

/-- a collinear point beyond the end of the segment is not on it -/
example : Spec.cross ⟨0, 0⟩ ⟨2, 4⟩ ⟨3, 6⟩ = 0 ∧ ¬ OnSeg ⟨0, 0⟩ ⟨2, 4⟩ ⟨3, 6⟩ := by
  unfold OnSeg Spec.cross; norm_num

/-- a proper crossing -/
example : SegsMeet ⟨0, 0⟩ ⟨2, 2⟩ ⟨0, 2⟩ ⟨2, 0⟩ :=
  ⟨⟨1, 1⟩, by unfold OnSeg Spec.cross; norm_num, by unfold OnSeg Spec.cross; norm_num⟩

example : Seg.intersects ⟨⟨0, 0⟩, ⟨2, 2⟩⟩ ⟨⟨0, 2⟩, ⟨2, 0⟩⟩ = true :=
  (segIntersects_iff _ _).2 ⟨⟨1, 1⟩, by unfold OnSeg Spec.cross; norm_num, by unfold OnSeg Spec.cross; norm_num⟩

/-- parallel disjoint segments do not meet -/
example : ¬ SegsMeet ⟨0, 0⟩ ⟨2, 2⟩ ⟨1, 0⟩ ⟨3, 2⟩ := by
  rintro ⟨p, ⟨h1, -⟩, ⟨h2, -⟩⟩
  unfold Spec.cross at h1 h2
  norm_num at h1 h2
  linarith

/-- nested collinear segments: the hypothesis of `segContainsSeg_iff` is satisfiable non-trivially -/
example : Seg.containsSeg ⟨⟨0, 0⟩, ⟨4, 8⟩⟩ ⟨⟨1, 2⟩, ⟨3, 6⟩⟩ = true :=
  (segContainsSeg_iff _ _).2 ⟨by unfold OnSeg Spec.cross; norm_num, by unfold OnSeg Spec.cross; norm_num⟩

#print axioms onSeg_iff_param
#print axioms raycast_on_iff
#print axioms raycast_in_iff
#print axioms raycast_on_not_in
#print axioms raycast_symm
#print axioms segIntersects_iff
#print axioms segIntersects_symm
#print axioms segContainsSeg_iff
#print axioms segContainsSeg_iff_subset
#print axioms collinearPt_iff
#print axioms segBox_tight
#print axioms spec_onSeg_iff
#print axioms spec_crosses_iff
#print axioms spec_segsMeet_iff

end Geo
