/-
  C04, everything: Props/C04.lean (each index kind visits exactly the segments whose box meets the
  query) and Props/C04Indep.lean (the predicates built on those searches do not depend on the
  index kind; the counterexamples for inclusive contains on self-touching rings, D20).
-/
import GeoProofs.Props.C04
import GeoProofs.Props.C04Indep
import GeoProofs.Props.C04Float
