/-
  GeoProofs.Glue.ParseGlueTop — generated Parse (nil options, the leading-byte loop) on the raw text of a
  value, preceded by JSON whitespace: one level of the model's parse.
-/
import GeoProofs.Glue.ParseGlueJSON

set_option linter.unusedSimpArgs false

namespace Geo.PGlue
open Geo Geo.PGen

def isWs (c : Char) : Bool := c == ' ' || c == '\t' || c == '\n' || c == '\r'

theorem body_doc (rec : RecT) (opts : Option GOpts) (v : JVal) (r : MStr) (i : Int) :
    PGen.Parse_body1 (mops rec) opts (Piece.doc v :: r, i) =
      Flow.ret (some (match v with
        | .obj _ => PGen.parseJSON (mops rec) (Piece.doc v :: r) opts
        | _ => (default, some .errDataInvalid))) := by
  unfold PGen.Parse_body1
  have hl : ¬ ((Int.ofNat (mlen (Piece.doc v :: r)) == 0) = true) := by
    simp [mlen]; omega
  simp only [m_strLen, m_strAt, m_nilObject, hl, if_false, byteAt, beq_self_eq_true, if_true]
  cases v <;> simp [headByte]

theorem body_ws (rec : RecT) (opts : Option GOpts) (c : Char) (hc : isWs c = true) (r : MStr) (i : Int) :
    PGen.Parse_body1 (mops rec) opts (Piece.ch c :: r, i) = Flow.next (r, i + 1) := by
  unfold PGen.Parse_body1
  have hl : ¬ ((Int.ofNat (mlen (Piece.ch c :: r)) == 0) = true) := by
    simp [mlen]; omega
  simp only [m_strLen, m_strAt, m_strSliceFrom, m_nilObject, hl, if_false, byteAt, beq_self_eq_true, if_true]
  simp only [isWs, Bool.or_eq_true, beq_iff_eq] at hc
  rcases hc with ((h | h) | h) | h <;> subst h <;> simp <;> decide

theorem loop_ws (rec : RecT) (opts : Option GOpts) (v : JVal) : ∀ (ws : List Char), (∀ c ∈ ws, isWs c = true) → ∀ (n : Nat) (i : Int),
    loopFuel (PGen.Parse_body1 (mops rec) opts) (ws.length + 1 + n) (ws.map Piece.ch ++ [Piece.doc v], i) =
      some (Exit.ret (some (match v with
        | .obj _ => PGen.parseJSON (mops rec) [Piece.doc v] opts
        | _ => (default, some .errDataInvalid)))) := by
  intro ws
  induction ws with
  | nil => intro _ n i; simp only [List.length_nil, List.map_nil, List.nil_append]; rw [show 0 + 1 + n = n + 1 by omega, loopFuel, body_doc]
  | cons c t ih =>
    intro h n i
    have hc := h c (by simp)
    simp only [List.length_cons, List.map_cons, List.cons_append]
    rw [show t.length + 1 + 1 + n = (t.length + 1 + n) + 1 by omega, loopFuel, body_ws rec opts c hc]
    exact ih (fun c' h' => h c' (by simp [h'])) n (i + 1)

/-- generated Parse on (whitespace, then the raw text of v): with a recursion parameter that is right at
    `fuel`, the result is right at `fuel + 1` -/
theorem Parse_level (rec : RecT) (o : POpts) (fuel : Nat) (hrec : RecOK rec o fuel)
    (ws : List Char) (hws : ∀ c ∈ ws, isWs c = true) (v : JVal) (hk : ∀ ms, v = .obj ms → KindHyps rec o fuel ms) (hfin : ∀ ms, v = .obj ms → PolyFin ms)
    (hJg : ∀ ms items, v = .obj ms → (scanKeys ms).geometries = some (.arr items) → ∀ x ∈ items, JOK x = true)
    (hJf : ∀ ms items, v = .obj ms → (scanKeys ms).features = some (.arr items) → ∀ x ∈ items, JOK x = true) (n : Nat) :
    ∃ g, PGen.Parse (mops rec) (ws.length + 1 + n) (ws.map Piece.ch ++ [Piece.doc v]) (some (optsG o)) = some g ∧
      AgreeU g (parse o (fuel + 1) v) := by
  unfold PGen.Parse
  simp only [Option.isNone_some, Bool.false_eq_true, if_false]
  rw [loop_ws rec (some (optsG o)) v ws hws n 0]
  simp only
  refine ⟨_, rfl, ?_⟩
  cases v with
  | obj ms => exact parseJSON_eq rec o fuel hrec ms (hk ms rfl) (hfin ms rfl) (fun items => hJg ms items rfl) (fun items => hJf ms items rfl)
  | null => simp [parse, AgreeU, errU, errG]
  | tru => simp [parse, AgreeU, errU, errG]
  | fls => simp [parse, AgreeU, errU, errG]
  | num _ _ _ _ _ => simp [parse, AgreeU, errU, errG]
  | str _ _ => simp [parse, AgreeU, errU, errG]
  | arr _ => simp [parse, AgreeU, errU, errG]

#print axioms Parse_level

end Geo.PGlue
