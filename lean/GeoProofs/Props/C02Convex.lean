/-
  GeoProofs.Props.C02Convex — the hypothesis `IX.ConvexOK` of the exactness theorem for polygons
  with holes, discharged for SIMPLE rings.

  "A simple closed polygon all of whose turns have the same orientation (zero turns allowed)
  bounds a convex region", in the crossing-parity formulation.  Simplicity is necessary (a
  pentagram has the convex flag and a non-convex parity interior, see `pentagram_*`).

  * `convexOK_of_support`: every vertex on one closed side of every edge line (`Cvx.SupportOK`,
    decidable) implies `ConvexOK` (GeoProofs.Convex.Support: the Jordan lemma along a segment
    to a far point of the outer half-plane).
  * `supportOK_of_simple`: LEMMA S, `Spec.simpleRing` and the convex flag imply `SupportOK`
    (GeoProofs.Convex.{Chain,OneTop,Tops,Monotone,General,Bridge}: after a generic shear the
    ring has no horizontal edge; the open-chain Jordan identity shows that a simple chain with
    left turns has a single local top; a monotone chain with left turns has ordered slopes, so
    the signed distance to any edge line is unimodal).
  * `convexOK_of_simple`, `holesConvexOK_of_valid`, `geom_intersects_exact_holes`,
    `geom_intersects_symm_holes`: exactness and symmetry of `intersects` for ALL valid shapes.
-/
import GeoProofs.Props.C02Exact
import GeoProofs.Convex.Bridge

namespace Geo
open GL IX

theorem convexOK_of_support (r : Ring) (pts : List Pt) (h : Cvx.SupportOK pts = true) :
    ConvexOK r pts := Cvx.convexOK_of_support r pts h

theorem supportOK_of_simple (pts : List Pt) (hs : Spec.simpleRing pts = true)
    (hc : (processPoints pts.toArray true).convex = true) : Cvx.SupportOK pts = true :=
  Cvx.supportOK_of_simple pts hs hc

/-- the convex flag of a SIMPLE ring is only raised when the strict interior is convex -/
theorem convexOK_of_simple (pts : Array Pt) (hs : Spec.simpleRing pts.toList = true) :
    ConvexOK (.ser (mkSeries pts true .none 0)) pts.toList := by
  intro hcv
  have hc : (processPoints pts.toList.toArray true).convex = true := by
    rw [Array.toArray_toList]; exact hcv
  exact Cvx.convex_of_support pts.toList (Cvx.supportOK_of_simple pts.toList hs hc)

/-- the hole rings of a valid shape are simple, hence satisfy `ConvexOK` -/
theorem holesConvexOK_of_valid (S : Spec.Shape) (hS : S.valid = true) : HolesConvexOK S := by
  intro h hh
  cases S with
  | poly ext hs =>
    simp only [Spec.Shape.valid, Bool.and_eq_true, List.all_eq_true] at hS
    have hsim : Spec.simpleRing h = true := hS.1.1.2 h hh
    have := convexOK_of_simple h.toArray (by simpa using hsim)
    simpa [ringOfL] using this
  | point a => simp [Spec.Shape.holes] at hh
  | rect lo hi => simp [Spec.Shape.holes] at hh
  | line pts => simp [Spec.Shape.holes] at hh

/-- EXACTNESS of `intersects` for all valid shapes, polygons with holes included -/
theorem geom_intersects_exact_holes (A B : Spec.Shape) (hA : A.valid = true) (hB : B.valid = true) :
    (build A).intersects (build B) = Spec.meets A B :=
  geom_intersects_exact_holes_of_convexOK A B hA hB (holesConvexOK_of_valid A hA)
    (holesConvexOK_of_valid B hB)

theorem geom_intersects_symm_holes (A B : Spec.Shape) (hA : A.valid = true) (hB : B.valid = true) :
    (build A).intersects (build B) = (build B).intersects (build A) :=
  geom_intersects_symm_holes_of_convexOK A B hA hB (holesConvexOK_of_valid A hA)
    (holesConvexOK_of_valid B hB)

end Geo

namespace Geo

/-! ### simplicity is necessary; `SupportOK` is decidable on concrete rings -/

/-- a pentagram: all turns of one orientation, not simple -/
def pentagram : List Pt := [⟨0,3⟩, ⟨4,0⟩, ⟨2,5⟩, ⟨0,0⟩, ⟨4,3⟩]

/-- the convex flag of the pentagram is raised, it is not simple, not `SupportOK`, and its
    crossing-parity interior is not convex: two tips are strictly inside, the centre is not -/
theorem pentagram_not_convex :
    Driver.convexSpec pentagram = true ∧ Spec.simpleRing pentagram = false ∧
    Cvx.SupportOK pentagram = false ∧
    Spec.strictIn (Spec.edges pentagram true) ⟨1/2, 1/2⟩ = true ∧
    Spec.strictIn (Spec.edges pentagram true) ⟨7/2, 1/2⟩ = true ∧
    Spec.onSeg ⟨1/2, 1/2⟩ ⟨7/2, 1/2⟩ ⟨2, 1/2⟩ = true ∧
    Spec.strictIn (Spec.edges pentagram true) ⟨2, 1/2⟩ = false := by
  decide +kernel

/-- a hexagon with two zero turns, closed encoding: `SupportOK` by evaluation -/
example : Cvx.SupportOK [⟨0,0⟩, ⟨1,0⟩, ⟨2,0⟩, ⟨2,2⟩, ⟨1,2⟩, ⟨0,2⟩, ⟨0,0⟩] = true := by decide +kernel

end Geo

#print axioms Geo.convexOK_of_support
#print axioms Geo.supportOK_of_simple
#print axioms Geo.convexOK_of_simple
#print axioms Geo.holesConvexOK_of_valid
#print axioms Geo.geom_intersects_exact_holes
#print axioms Geo.geom_intersects_symm_holes
#print axioms Geo.pentagram_not_convex
