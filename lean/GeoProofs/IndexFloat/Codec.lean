/-
  GeoProofs.IndexFloat.Codec — the IEEE-754 binary64 bit pattern of EVERY finite double
  (normal, subnormal, zero), as 8 little-endian bytes (`math.Float64bits` + `PutUint64`), and
  its inverse (`Float64frombits`):  `decD (encD a) = a` for all `a : Dbl`.
  (The codec of GeoModel/Series.lean, `encF64`/`decF64`, covers the normal range only.)
-/
import GeoProofs.IndexFloat.Laws
import GeoProofs.IndexFloat.CodecNat
import GeoProofs.Index.F64Codec

namespace Geo.DF
open Geo.F

/-- the value in units of 2^-1074 (an integer) -/
def Dbl.units (a : Dbl) : ℤ := ⌊a.val * 2 ^ (1074 : ℕ)⌋

theorem tiny_mul : (2 : ℚ) ^ (-1074 : ℤ) * 2 ^ (1074 : ℕ) = 1 := by
  rw [← zpow_natCast, ← zpow_add₀ (by norm_num)]; norm_num

theorem F64.rep {x : ℚ} (h : F64 x) :
    ∃ k : ℤ, x = k * (2 : ℚ) ^ (-1074 : ℤ) ∧ Rep k.natAbs := by
  obtain ⟨m, e, hm, he1, he2, rfl⟩ := h
  refine ⟨m * (2 : ℤ) ^ (e - (-1074)).toNat, ?_, m.natAbs, (e - (-1074)).toNat, ?_, ?_, ?_⟩
  · rw [zpow_eq_int_mul he1, Int.cast_mul, mul_assoc]
  · have : (m.natAbs : ℤ) = |m| := Int.natCast_natAbs m
    omega
  · omega
  · rw [Int.natAbs_mul, Int.natAbs_pow]; rfl

theorem Dbl.units_spec (a : Dbl) :
    a.val = (a.units : ℚ) * (2 : ℚ) ^ (-1074 : ℤ) ∧ Rep a.units.natAbs := by
  obtain ⟨k, hk, hr⟩ := F64.rep a.isF64
  have : a.units = k := by
    unfold Dbl.units
    rw [hk, mul_assoc, tiny_mul, mul_one, Int.floor_intCast]
  rw [this]; exact ⟨hk, hr⟩

/-- `math.Float64bits` -/
def bitsD (a : Dbl) : Nat := (if a.val < 0 then 2 ^ 63 else 0) + magBits a.units.natAbs

def encD (a : Dbl) : List Nat := leBytes (bitsD a) 8

theorem encD_length (a : Dbl) : (encD a).length = 8 := by simp [encD]

theorem Rep.F64 {n : Nat} (h : Rep n) : F64 ((n : ℚ) * (2 : ℚ) ^ (-1074 : ℤ)) := by
  obtain ⟨M, j, hM, hj, rfl⟩ := h
  refine ⟨M, (j : ℤ) - 1074, ?_, by omega, by omega, ?_⟩
  · rw [Int.abs_natCast]; exact_mod_cast hM
  · rw [Nat.cast_mul, Nat.cast_pow, Nat.cast_ofNat, Int.cast_natCast, zpow_sub₀ (by norm_num),
      zpow_natCast, zpow_neg, div_eq_mul_inv, mul_assoc]

theorem rep_magOf {r : Nat} (h : r / 2 ^ 52 < 2047) : Rep (magOf r) := by
  unfold magOf
  have hm : r % 2 ^ 52 < 2 ^ 52 := Nat.mod_lt _ (by norm_num)
  split
  · exact ⟨r % 2 ^ 52, 0, by omega, by norm_num, by simp⟩
  · exact ⟨r % 2 ^ 52 + 2 ^ 52, r / 2 ^ 52 - 1, by omega, by omega, rfl⟩

/-- `math.Float64frombits` on the patterns of finite doubles (±Inf/NaN patterns, which the
    index never stores, are sent to 0) -/
def ofBits (B : Nat) : Dbl :=
  if h : (B % 2 ^ 63) / 2 ^ 52 < 2047 then
    if B / 2 ^ 63 = 1 then
      ⟨-((magOf (B % 2 ^ 63) : ℚ) * (2 : ℚ) ^ (-1074 : ℤ)), F64_neg (rep_magOf h).F64⟩
    else ⟨(magOf (B % 2 ^ 63) : ℚ) * (2 : ℚ) ^ (-1074 : ℤ), (rep_magOf h).F64⟩
  else Dbl.zero

def decD (bs : List Nat) : Dbl := ofBits (bs.foldr (fun b acc => b + 256 * acc) 0)

theorem ofBits_bitsD (a : Dbl) : ofBits (bitsD a) = a := by
  obtain ⟨hv, hr⟩ := a.units_spec
  have hlt := magBits_lt hr
  have hmag := magOf_magBits hr
  have h63 : magBits a.units.natAbs < 2 ^ 63 := by omega
  have hb : magBits a.units.natAbs / 2 ^ 52 < 2047 :=
    (Nat.div_lt_iff_lt_mul (by norm_num)).mpr hlt
  have hp := two_zpow_pos (-1074)
  unfold bitsD ofBits
  by_cases hneg : a.val < 0
  · rw [if_pos hneg]
    have hmod : (2 ^ 63 + magBits a.units.natAbs) % 2 ^ 63 = magBits a.units.natAbs := by
      rw [Nat.add_mod_left, Nat.mod_eq_of_lt h63]
    have hdiv : (2 ^ 63 + magBits a.units.natAbs) / 2 ^ 63 = 1 := by omega
    rw [dif_pos (by rw [hmod]; exact hb), if_pos hdiv]
    apply Dbl.ext
    show -((magOf ((2 ^ 63 + magBits a.units.natAbs) % 2 ^ 63) : ℚ) * _) = a.val
    rw [hmod, hmag]
    have hk : a.units < 0 := by
      by_contra hc
      have : (0 : ℚ) ≤ a.units := by exact_mod_cast not_lt.mp hc
      have := mul_nonneg this hp.le
      rw [← hv] at this; linarith
    have : ((a.units.natAbs : ℕ) : ℚ) = -(a.units : ℚ) := by
      rw [Nat.cast_natAbs, abs_of_neg hk, Int.cast_neg]
    rw [this, neg_mul, neg_neg, ← hv]
  · rw [if_neg hneg, Nat.zero_add]
    have hmod : magBits a.units.natAbs % 2 ^ 63 = magBits a.units.natAbs := Nat.mod_eq_of_lt h63
    have hdiv : ¬ magBits a.units.natAbs / 2 ^ 63 = 1 := by
      rw [Nat.div_eq_of_lt h63]; norm_num
    rw [dif_pos (by rw [hmod]; exact hb), if_neg hdiv]
    apply Dbl.ext
    show (magOf (magBits a.units.natAbs % 2 ^ 63) : ℚ) * _ = a.val
    rw [hmod, hmag]
    have hk : 0 ≤ a.units := by
      by_contra hc
      have : (a.units : ℚ) < 0 := by exact_mod_cast not_le.mp hc
      have := mul_neg_of_neg_of_pos this hp
      rw [← hv] at this; exact hneg this
    have : ((a.units.natAbs : ℕ) : ℚ) = (a.units : ℚ) := by
      rw [Nat.cast_natAbs, abs_of_nonneg hk]
    rw [this, ← hv]

theorem bitsD_lt (a : Dbl) : bitsD a < 256 ^ 8 := by
  have := magBits_lt a.units_spec.2
  unfold bitsD
  split <;> omega

/-- **the binary64 codec round-trips on every finite double** -/
theorem decD_encD (a : Dbl) : decD (encD a) = a := by
  unfold decD encD
  rw [foldr_leBytes, Nat.mod_eq_of_lt (bitsD_lt a), ofBits_bitsD]

end Geo.DF
