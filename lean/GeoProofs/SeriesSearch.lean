/-
  GeoProofs.SeriesSearch — series-level glue: the generic index theorems (quadtree; R-tree
  taken as a hypothesis) instantiated at the concrete `Series` of GeoModel.Series (carrier
  `Rat`).  `Series.search` = early-exit fold of the callback over a visit list that is a
  permutation of the brute-force filter; never a decoding panic.
-/
import GeoProofs.Props.C18
import GeoProofs.Props.C19
import GeoProofs.Index.QBytes

namespace Geo

/-! ### the Rat carrier is lawful -/

theorem rat_lt_def (a b : Rat) : Carrier.lt a b = decide (a < b) := rfl

instance : LawfulCarrier Rat where
  asymm a b h := by
    rw [rat_lt_def] at h ⊢
    simp only [decide_eq_true_eq, decide_eq_false_iff_not, not_lt] at h ⊢
    exact h.le
  le_trans a b c h1 h2 := by
    rw [rat_lt_def] at h1 h2 ⊢
    simp only [decide_eq_false_iff_not, not_lt] at h1 h2 ⊢
    exact le_trans h1 h2

/-- `Box.intersects` (geometry/rect.go) is `GBox.meets` on the Rat carrier -/
theorem box_intersects_eq_meets (r o : Box) : r.intersects o = r.g.meets o.g := by
  unfold Box.intersects GBox.meets Box.g
  simp only [rat_lt_def, gt_iff_lt]

theorem gbox_subset_iff (r b : Box) :
    r.g ⊆ b.g ↔ (b.min.x ≤ r.min.x ∧ b.min.y ≤ r.min.y ∧ r.max.x ≤ b.max.x ∧ r.max.y ≤ b.max.y) := by
  rw [GBox.subset_def]
  simp only [Box.g, rat_lt_def, decide_eq_false_iff_not, not_lt]

/-! ### every segment box lies inside the series rectangle -/

theorem numSegmentsOf_le (pts : Array Pt) (closed : Bool) : numSegmentsOf pts closed ≤ pts.size := by
  unfold numSegmentsOf
  split_ifs <;> omega

theorem numSegmentsOf_empty (pts : Array Pt) (closed : Bool)
    (h : ((closed && pts.size < 3) || pts.size < 2) = true) : numSegmentsOf pts closed = 0 := by
  unfold numSegmentsOf
  cases closed <;> simp at h ⊢
  · intro h2; omega
  · intro h2; omega

/-- the two endpoints of segment `i < numSegments` are vertices of the series -/
theorem segmentAt_mem (pts : Array Pt) (closed : Bool) (i : Nat) (hi : i < numSegmentsOf pts closed) :
    (segmentAtOf pts i).a ∈ pts.toList ∧ (segmentAtOf pts i).b ∈ pts.toList := by
  have hle := numSegmentsOf_le pts closed
  have hi' : i < pts.size := by omega
  unfold segmentAtOf
  simp only
  refine ⟨?_, ?_⟩
  · rw [getElem!_pos pts i hi']
    exact Array.getElem_mem_toList hi'
  · split_ifs with h
    · rw [getElem!_pos pts 0 (by omega)]
      exact Array.getElem_mem_toList (by omega)
    · have h1 : i ≠ pts.size - 1 := by simpa using h
      have h2 : i + 1 < pts.size := by omega
      rw [getElem!_pos pts (i+1) h2]
      exact Array.getElem_mem_toList h2

/-- every vertex lies in the rectangle computed by `processPoints` -/
theorem mem_rect (pts : Array Pt) (closed : Bool)
    (h : ¬ ((closed && pts.size < 3) || pts.size < 2)) (p : Pt) (hp : p ∈ pts.toList) :
    (processPoints pts closed).rect.min.x ≤ p.x ∧ p.x ≤ (processPoints pts closed).rect.max.x ∧
    (processPoints pts closed).rect.min.y ≤ p.y ∧ p.y ≤ (processPoints pts closed).rect.max.y :=
  (bboxSpec_tight pts.toList _ (rect_tight pts closed h).symm).1 p hp

/-- every segment box lies inside the series rectangle -/
theorem segBox_inside_rect (pts : Array Pt) (closed : Bool)
    (h : ¬ ((closed && pts.size < 3) || pts.size < 2)) (i : Nat) (hi : i < numSegmentsOf pts closed) :
    (segmentAtOf pts i).box.g ⊆ (processPoints pts closed).rect.g := by
  obtain ⟨ha, hb⟩ := segmentAt_mem pts closed i hi
  obtain ⟨a1, a2, a3, a4⟩ := mem_rect pts closed h _ ha
  obtain ⟨b1, b2, b3, b4⟩ := mem_rect pts closed h _ hb
  rw [gbox_subset_iff, segBox_tight]
  simp only
  exact ⟨le_min a1 b1, le_min a3 b3, max_le a2 b2, max_le a4 b4⟩

/-- the same without the non-emptiness hypothesis (an empty series has no segment) -/
theorem segBox_inside_rect' (pts : Array Pt) (closed : Bool) (i : Nat)
    (hi : i < numSegmentsOf pts closed) :
    (segmentAtOf pts i).box.g ⊆ (processPoints pts closed).rect.g := by
  by_cases h : ((closed && pts.size < 3) || pts.size < 2) = true
  · rw [numSegmentsOf_empty pts closed h] at hi; omega
  · exact segBox_inside_rect pts closed h i hi

/-! ### un-indexed series -/

/-- brute-force reference of a series search: indexes of the segments whose box meets `q` -/
def Series.matches (s : Series) (q : Box) : List Nat :=
  (List.range s.numSegments).filter (fun i => (s.segmentAt i).box.intersects q)

theorem Series.matches_eq (s : Series) (q : Box) :
    s.matches q = (List.range s.numSegments).filter (fun i => ((s.segmentAt i).box.g).meets q.g) := by
  unfold Series.matches
  simp only [box_intersects_eq_meets]

/-- a series without index: the search is the early-exit fold over the brute-force filter, in
    index order; no panic.  (Any `Series` value, not only those built by `mkSeries`.) -/
theorem series_search_exact_none (s : Series) (hidx : s.index = none) (q : Box)
    {σ : Type} (f : σ → Seg → Nat → σ × Bool) (st : σ) :
    s.search q f st = .ok (foldUntil (fun st i => f st (s.segmentAt i) i) st
      ((List.range s.numSegments).filter (fun i => (s.segmentAt i).box.intersects q))).1 := by
  unfold Series.search
  simp only [hidx]
  rw [visitItems_eq_foldUntil]
  simp only [box_intersects_eq_meets]

/-! ### quadtree-indexed series -/

/-- `qtree_search_exact` for any byte array that agrees with the compressed tree from the end of
    the 5-byte header on (the header's bytes 1..4 are overwritten by `setCompressed`). -/
theorem qtree_search_exact_patched {α : Type} [Carrier α] [LawfulCarrier α] (boxOf : Nat → GBox α)
    (bounds q : GBox α) (nsegs : Nat) (hn : nsegs < 2 ^ 32)
    (hb : ∀ i, i < nsegs → boxOf i ⊆ bounds)
    (hsz : (qCompress (qBuild boxOf bounds nsegs) #[2, 0, 0, 0, 0]).size < 2 ^ 32) :
    ∃ visit : List Nat,
      List.Perm visit ((List.range nsegs).filter (fun i => (boxOf i).meets q)) ∧
      ∀ (data' : Array Nat),
        (∀ i, 5 ≤ i → i < (qCompress (qBuild boxOf bounds nsegs) #[2, 0, 0, 0, 0]).size →
          data'[i]? = (qCompress (qBuild boxOf bounds nsegs) #[2, 0, 0, 0, 0])[i]?) →
        ∀ (σ : Type) (f : σ → Nat → σ × Bool) (s : σ),
          qSearchBytes boxOf q f data' (qMaxDepth + 2) 5 bounds s = some (foldUntil f s visit) := by
  refine ⟨qVisit boxOf q (qBuild boxOf bounds nsegs) bounds,
    qBuild_search_exact boxOf q bounds nsegs hb, ?_⟩
  intro data' hag σ f s
  have hperm := (qBuild_spec boxOf bounds nsegs hb).2
  have hitems : ∀ i ∈ (qBuild boxOf bounds nsegs).allItems, i < 2 ^ 32 := by
    intro i hi
    have := List.mem_range.mp (hperm.mem_iff.mp hi)
    omega
  have hlen : (qBuild boxOf bounds nsegs).maxLen < 2 ^ 32 := by
    have h1 := QNode.maxLen_le_allItems (qBuild boxOf bounds nsegs)
    have h2 := hperm.length_eq
    rw [List.length_range] at h2
    omega
  have hdepth : (qBuild boxOf bounds nsegs).depth ≤ qMaxDepth + 2 := by
    have := qBuild_depth boxOf bounds nsegs
    omega
  have hnil := qBuild_isNil boxOf bounds nsegs
  obtain ⟨_, _, henc⟩ := qCompress_spec (qBuild boxOf bounds nsegs) #[2, 0, 0, 0, 0] hnil hsz
  have henc' : Enc data' 5 (qCompress (qBuild boxOf bounds nsegs) #[2, 0, 0, 0, 0]).size 5
      (qBuild boxOf bounds nsegs) :=
    henc.imp (Nat.le_refl _) (Nat.le_refl _) (fun i h1 h2 => hag i h1 h2)
  rw [← qSearchTree_eq_foldUntil]
  exact qSearchBytes_of_enc boxOf q f _ _ _ _ (qMaxDepth + 2) 5 bounds s henc' hnil hdepth hitems hlen

/-- the dispatch part of `Series.search` on an index written by `setCompressed` -/
theorem search_setCompressed (s : Series) (D : Array Nat) (hidx : s.index = some (putU32 D 1 D.size))
    (h5 : 5 ≤ D.size) (hlt : D.size < 2 ^ 32) (q : Box)
    {σ : Type} (f : σ → Seg → Nat → σ × Bool) (st : σ) :
    s.search q f st =
      match D[0]? with
      | some 1 => match rSearchBytes decF64 (fun i => (s.segmentAt i).box.g) q.g
                      (fun st i => f st (s.segmentAt i) i) (putU32 D 1 D.size) 5 st with
                  | some r => .ok r.1 | none => .panic
      | some 2 => match qSearchBytes (fun i => (s.segmentAt i).box.g) q.g
                      (fun st i => f st (s.segmentAt i) i) (putU32 D 1 D.size) (qMaxDepth + 2) 5 s.rect.g st with
                  | some r => .ok r.1 | none => .panic
      | some _ => .ok st
      | none => .panic := by
  unfold Series.search
  simp only [hidx]
  rw [(putU32_readLE D 1 D.size (by omega) hlt).1]
  simp only [size_putU32, gt_iff_lt, Nat.lt_irrefl, if_false]
  rw [Array.extract_eq_self_of_le (by simp), getElem?_putU32_of_outside D 1 D.size 0 (by omega)]
  rfl

theorem qCompress_header (n : QNode) (hn : n.isNil = false)
    (hsz : (qCompress n #[2, 0, 0, 0, 0]).size < 2 ^ 32) :
    5 ≤ (qCompress n #[2, 0, 0, 0, 0]).size ∧ (qCompress n #[2, 0, 0, 0, 0])[0]? = some 2 := by
  obtain ⟨h1, h2, _⟩ := qCompress_spec n #[2, 0, 0, 0, 0] hn hsz
  exact ⟨h1, by rw [h2 0 (by simp)]; rfl⟩

/-! ### search exactness as a predicate on a series -/

/-- `Series.search` on `s` is exact: for every query box there is a visit list, a permutation of
    the brute-force filter (each matching segment exactly once), such that the search with ANY
    callback is the early-exit fold of the callback over that list — in particular never a
    decoding panic. -/
def Series.SearchExact (s : Series) : Prop :=
  ∀ q : Box, ∃ visit : List Nat,
    List.Perm visit ((List.range s.numSegments).filter (fun i => (s.segmentAt i).box.intersects q)) ∧
    ∀ {σ : Type} (f : σ → Seg → Nat → σ × Bool) (st : σ),
      s.search q f st = .ok (foldUntil (fun st i => f st (s.segmentAt i) i) st visit).1

theorem searchExact_of_index_none (s : Series) (hidx : s.index = none) : s.SearchExact :=
  fun q => ⟨_, List.Perm.refl _, fun f st => series_search_exact_none s hidx q f st⟩

@[simp] theorem mkSeries_pts (pts : Array Pt) (closed : Bool) (kind : IndexKind) (m : Nat) :
    (mkSeries pts closed kind m).pts = pts := rfl
@[simp] theorem mkSeries_closed (pts : Array Pt) (closed : Bool) (kind : IndexKind) (m : Nat) :
    (mkSeries pts closed kind m).closed = closed := rfl
@[simp] theorem mkSeries_rect (pts : Array Pt) (closed : Bool) (kind : IndexKind) (m : Nat) :
    (mkSeries pts closed kind m).rect = (processPoints pts closed).rect := rfl
@[simp] theorem mkSeries_numSegments (pts : Array Pt) (closed : Bool) (kind : IndexKind) (m : Nat) :
    (mkSeries pts closed kind m).numSegments = numSegmentsOf pts closed := rfl
@[simp] theorem mkSeries_segmentAt (pts : Array Pt) (closed : Bool) (kind : IndexKind) (m : Nat) (i : Nat) :
    (mkSeries pts closed kind m).segmentAt i = segmentAtOf pts i := rfl

theorem mkSeries_index (pts : Array Pt) (closed : Bool) (kind : IndexKind) (m : Nat) :
    (mkSeries pts closed kind m).index =
      if m != 0 && pts.size ≥ m then buildIndexBytes pts closed (processPoints pts closed).rect kind
      else none := rfl

theorem mkSeries_index_kind_none (pts : Array Pt) (closed : Bool) (m : Nat) :
    (mkSeries pts closed .none m).index = none := by
  rw [mkSeries_index]; split <;> rfl

/-- no index requested, or fewer points than the threshold -/
theorem series_search_exact_kind_none (pts : Array Pt) (closed : Bool) (minPoints : Nat) :
    (mkSeries pts closed .none minPoints).SearchExact :=
  searchExact_of_index_none _ (mkSeries_index_kind_none pts closed minPoints)

/-- the compressed quadtree bytes of a series (before `setCompressed` patches the length) -/
def qBytesOf (pts : Array Pt) (closed : Bool) : Array Nat :=
  qCompress (qBuild (fun i => (segmentAtOf pts i).box.g) (processPoints pts closed).rect.g
    (numSegmentsOf pts closed)) #[2, 0, 0, 0, 0]

/-- a quadtree-indexed series (any threshold; below the threshold no index is built):
    the search is exact, never a decoding panic. Size hypotheses: the formats store counts,
    item numbers and addresses in at most 32 bits. -/
theorem series_search_exact_quadtree (pts : Array Pt) (closed : Bool) (minPoints : Nat)
    (hn : pts.size < 2 ^ 32) (hsz : (qBytesOf pts closed).size < 2 ^ 32) :
    (mkSeries pts closed .quadtree minPoints).SearchExact := by
  by_cases hc : (minPoints != 0 && decide (pts.size ≥ minPoints)) = true
  · intro q
    have hidx : (mkSeries pts closed .quadtree minPoints).index =
        some (putU32 (qBytesOf pts closed) 1 (qBytesOf pts closed).size) := by
      rw [mkSeries_index, if_pos hc]; rfl
    have hns : numSegmentsOf pts closed < 2 ^ 32 := by
      have := numSegmentsOf_le pts closed; omega
    obtain ⟨visit, hperm, hv⟩ := qtree_search_exact_patched (fun i => (segmentAtOf pts i).box.g)
      (processPoints pts closed).rect.g q.g (numSegmentsOf pts closed) hns
      (fun i hi => segBox_inside_rect' pts closed i hi) hsz
    have hhd : 5 ≤ (qBytesOf pts closed).size ∧ (qBytesOf pts closed)[0]? = some 2 :=
      qCompress_header _ (qBuild_isNil _ _ _) hsz
    obtain ⟨h5, h0⟩ := hhd
    refine ⟨visit, ?_, ?_⟩
    · simp only [mkSeries_numSegments, mkSeries_segmentAt, box_intersects_eq_meets]
      exact hperm
    · intro σ f st
      rw [search_setCompressed _ _ hidx h5 hsz]
      rw [h0]
      simp only [mkSeries_segmentAt, mkSeries_rect]
      rw [hv (putU32 (qBytesOf pts closed) 1 (qBytesOf pts closed).size)
        (fun i h1 _ => getElem?_putU32_of_outside _ 1 _ i (by omega))]
  · exact searchExact_of_index_none _ (by rw [mkSeries_index, if_neg hc])

/-! ### the R-tree compressor only appends to / patches behind its input (header facts) -/

section rprefix
variable {α : Type} (enc : α → List Nat)

/-- `d'` extends `d`: at least as long, same cells below `d.size` -/
def BytesExt (d d' : Array Nat) : Prop := d.size ≤ d'.size ∧ ∀ i, i < d.size → d'[i]? = d[i]?

theorem BytesExt.refl (d : Array Nat) : BytesExt d d := ⟨Nat.le_refl _, fun _ _ => rfl⟩

theorem BytesExt.trans {a b c : Array Nat} (h1 : BytesExt a b) (h2 : BytesExt b c) : BytesExt a c :=
  ⟨Nat.le_trans h1.1 h2.1, fun i hi => by rw [h2.2 i (by have := h1.1; omega), h1.2 i hi]⟩

theorem BytesExt.append (d e : Array Nat) : BytesExt d (d ++ e) :=
  ⟨by simp, fun _ hi => Array.getElem?_append_left hi⟩

theorem BytesExt.push (d : Array Nat) (b : Nat) : BytesExt d (d.push b) := by
  have : d.push b = d ++ #[b] := by simp
  rw [this]; exact BytesExt.append d _

theorem BytesExt.appendNum (d : Array Nat) (n w : Nat) : BytesExt d (appendNum d n w) := by
  unfold Geo.appendNum
  split <;> exact BytesExt.append d _

theorem BytesExt.foldl {β : Type} (g : Array Nat → β → Array Nat) (hg : ∀ d b, BytesExt d (g d b))
    (l : List β) (d : Array Nat) : BytesExt d (l.foldl g d) := by
  induction l generalizing d with
  | nil => exact BytesExt.refl d
  | cons x xs ih => exact (hg d x).trans (ih _)

theorem BytesExt.appendBox (d : Array Nat) (b : GBox α) : BytesExt d (appendBox enc d b) := by
  unfold Geo.appendBox
  exact (((BytesExt.append d _).trans (BytesExt.append _ _)).trans (BytesExt.append _ _)).trans (BytesExt.append _ _)

/-- weaker relation used through the child loop: cells below `k` are kept -/
def BytesKeeps (k : Nat) (d d' : Array Nat) : Prop := d.size ≤ d'.size ∧ ∀ i, i < k → d'[i]? = d[i]?

theorem BytesExt.keeps {d d' : Array Nat} (h : BytesExt d d') (k : Nat) (hk : k ≤ d.size) : BytesKeeps k d d' :=
  ⟨h.1, fun i hi => h.2 i (by omega)⟩

theorem BytesKeeps.trans {k : Nat} {a b c : Array Nat} (h1 : BytesKeeps k a b) (h2 : BytesKeeps k b c) : BytesKeeps k a c :=
  ⟨Nat.le_trans h1.1 h2.1, fun i hi => by rw [h2.2 i hi, h1.2 i hi]⟩

theorem keeps_putU32 (k : Nat) (d : Array Nat) (pos v : Nat) (h : k ≤ pos) : BytesKeeps k d (putU32 d pos v) :=
  ⟨by simp, fun i hi => getElem?_putU32_of_outside d pos v i (by omega)⟩

theorem rnode_ind {motive : RNode α → Prop}
    (leaf : ∀ es, motive (.leaf es))
    (inner : ∀ es : List (GBox α × RNode α), (∀ e ∈ es, motive e.2) → motive (.inner es)) :
    ∀ n, motive n := by
  intro n
  refine RNode.rec (motive_1 := motive) (motive_2 := fun es => ∀ e ∈ es, motive e.2)
    (motive_3 := fun e => motive e.2) leaf inner ?_ ?_ ?_ n
  · intro e he; cases he
  · intro hd tl h1 h2 e he
    rcases List.mem_cons.1 he with rfl | he
    · exact h1
    · exact h2 e he
  · intro _ _ h; exact h

theorem rCompress_go_keeps (markBase : Nat) (es : List (GBox α × RNode α))
    (ih : ∀ e ∈ es, ∀ (nb : GBox α) (dst : Array Nat), BytesExt dst (rCompressNode enc nb e.2 dst)) :
    ∀ (i : Nat) (D : Array Nat), markBase ≤ D.size →
      BytesKeeps markBase D (rCompressNode.go enc markBase es i D) := by
  induction es with
  | nil =>
    intro i D _
    rw [rCompressNode.go]
    exact ⟨Nat.le_refl _, fun _ _ => rfl⟩
  | cons e rest ihr =>
    intro i D hD
    obtain ⟨cb, cn⟩ := e
    rw [rCompressNode.go]
    have h1 := keeps_putU32 markBase D (markBase + 4 * i) D.size (by omega)
    have h2 := (ih (cb, cn) (by simp) cb (putU32 D (markBase + 4 * i) D.size)).keeps markBase
      (by simp; omega)
    have h3 := ihr (fun e he => ih e (by simp [he])) (i + 1)
      (rCompressNode enc cb cn (putU32 D (markBase + 4 * i) D.size)) (by have := h2.1; simp at this; omega)
    exact (h1.trans h2).trans h3

theorem rCompressNode_ext (n : RNode α) :
    ∀ (nb : GBox α) (dst : Array Nat), BytesExt dst (rCompressNode enc nb n dst) := by
  induction n using rnode_ind with
  | leaf es =>
    intro nb dst
    rw [rCompressNode]
    exact (((BytesExt.appendBox enc dst nb).trans (BytesExt.push _ _)).trans (BytesExt.push _ _)).trans
      (BytesExt.foldl _ (fun d e => BytesExt.appendNum d _ _) es _)
  | inner es ih =>
    intro nb dst
    rw [rCompressNode]
    have e1 : BytesExt dst (es.foldl (fun d _ => d ++ #[0, 0, 0, 0]) ((appendBox enc dst nb).push es.length)) :=
      ((BytesExt.appendBox enc dst nb).trans (BytesExt.push _ _)).trans
        (BytesExt.foldl _ (fun d _ => BytesExt.append d _) es _)
    have hmb : dst.size ≤ ((appendBox enc dst nb).push es.length).size :=
      ((BytesExt.appendBox enc dst nb).trans (BytesExt.push _ _)).1
    have hmb2 : ((appendBox enc dst nb).push es.length).size ≤
        (es.foldl (fun d _ => d ++ #[0, 0, 0, 0]) ((appendBox enc dst nb).push es.length)).size :=
      (BytesExt.foldl _ (fun d _ => BytesExt.append d _) es _).1
    have k := rCompress_go_keeps enc ((appendBox enc dst nb).push es.length).size es ih 0 _ hmb2
    exact ⟨Nat.le_trans e1.1 k.1, fun i hi => by rw [k.2 i (by omega), e1.2 i hi]⟩

theorem rtree_compress_ext (tr : RTree α) (dst : Array Nat) : BytesExt dst (tr.compress enc dst) := by
  unfold RTree.compress
  split
  · exact BytesExt.refl dst
  · exact (BytesExt.push dst _).trans (rCompressNode_ext enc _ _ _)

end rprefix

/-! ### R-tree-indexed series (byte-level exactness of the R-tree taken as a hypothesis) -/

/-- the compressed R-tree bytes of a series (before `setCompressed` patches the length) -/
def rBytesOf (pts : Array Pt) (closed : Bool) : Array Nat :=
  (rBuild (fun i => (segmentAtOf pts i).box.g) (numSegmentsOf pts closed)).compress encF64 #[1, 0, 0, 0, 0]

/-- An R-tree-indexed series, given the byte-level exactness of the compressed R-tree `hR`
    (shaped like `qtree_search_exact`, for the bytes as stored, i.e. after `setCompressed` has
    patched the length into header bytes 1..4). -/
theorem series_search_exact_rtree (pts : Array Pt) (closed : Bool) (minPoints : Nat)
    (hsz : (rBytesOf pts closed).size < 2 ^ 32)
    (hR : ∀ q : GBox Rat, ∃ visit : List Nat,
      List.Perm visit ((List.range (numSegmentsOf pts closed)).filter
        (fun i => ((segmentAtOf pts i).box.g).meets q)) ∧
      ∀ (σ : Type) (f : σ → Nat → σ × Bool) (s : σ),
        rSearchBytes decF64 (fun i => (segmentAtOf pts i).box.g) q f
          (putU32 (rBytesOf pts closed) 1 (rBytesOf pts closed).size) 5 s =
            some (foldUntil f s visit)) :
    (mkSeries pts closed .rtree minPoints).SearchExact := by
  by_cases hc : (minPoints != 0 && decide (pts.size ≥ minPoints)) = true
  · intro q
    have hidx : (mkSeries pts closed .rtree minPoints).index =
        some (putU32 (rBytesOf pts closed) 1 (rBytesOf pts closed).size) := by
      rw [mkSeries_index, if_pos hc]; rfl
    obtain ⟨visit, hperm, hv⟩ := hR q.g
    have hext : BytesExt #[1, 0, 0, 0, 0] (rBytesOf pts closed) := rtree_compress_ext encF64 _ _
    have h5 : 5 ≤ (rBytesOf pts closed).size := hext.1
    have h0 : (rBytesOf pts closed)[0]? = some 1 := by rw [hext.2 0 (by simp)]; rfl
    refine ⟨visit, ?_, ?_⟩
    · simp only [mkSeries_numSegments, mkSeries_segmentAt, box_intersects_eq_meets]
      exact hperm
    · intro σ f st
      rw [search_setCompressed _ _ hidx h5 hsz]
      rw [h0]
      simp only [mkSeries_segmentAt]
      rw [hv]
  · exact searchExact_of_index_none _ (by rw [mkSeries_index, if_neg hc])

/-- all three kinds at once -/
theorem series_search_exact (pts : Array Pt) (closed : Bool) (kind : IndexKind) (minPoints : Nat)
    (hn : pts.size < 2 ^ 32)
    (hq : kind = .quadtree → (qBytesOf pts closed).size < 2 ^ 32)
    (hr : kind = .rtree → (mkSeries pts closed .rtree minPoints).SearchExact) :
    (mkSeries pts closed kind minPoints).SearchExact := by
  cases kind with
  | none => exact series_search_exact_kind_none pts closed minPoints
  | rtree => exact hr rfl
  | quadtree => exact series_search_exact_quadtree pts closed minPoints hn (hq rfl)

/-! ### non-vacuity -/

/-- a 40-vertex zig-zag ring -/
def exRing40 : Array Pt :=
  ((List.range 20).map (fun (i : Nat) => (⟨(i : Rat), if i % 2 = 0 then 0 else 1⟩ : Pt)) ++
   (List.range 20).map (fun (i : Nat) => (⟨19 - (i : Rat), if i % 2 = 0 then 5 else 4⟩ : Pt))).toArray

/-- the hypotheses of `series_search_exact_quadtree` hold for a concrete 40-vertex ring whose
    index is really built (40 ≥ threshold 16, the root node splits) -/
example : (mkSeries exRing40 true .quadtree 16).SearchExact :=
  series_search_exact_quadtree exRing40 true 16 (by decide +kernel) (by decide +kernel)

example : (mkSeries exRing40 true .quadtree 16).index.isSome = true := by decide +kernel
/-- the size hypothesis of `series_search_exact_rtree` on the same ring -/
example : (rBytesOf exRing40 true).size < 2 ^ 32 := by decide +kernel

end Geo

#print axioms Geo.segBox_inside_rect
#print axioms Geo.series_search_exact_none
#print axioms Geo.qtree_search_exact_patched
#print axioms Geo.series_search_exact_quadtree
#print axioms Geo.series_search_exact_rtree
#print axioms Geo.series_search_exact
