/-
  GeoProofs.OptPred.Sim — the object-level relation `Obj.Sim`, its basic attributes, and the
  bridge from `ObsEq` + `SearchOK`.
-/
import GeoProofs.OptPred.Base

namespace Geo

mutual
/-- same object up to the index of every series inside and the child-index flag of every
    collection: leaves related by `Line.Sim` / `Poly.Sim` -/
inductive Obj.Sim : Obj → Obj → Prop
  | point (pos : Pos) (ex : Option Extra) : Obj.Sim (.point pos ex) (.point pos ex)
  | spoint (pos : Pos) : Obj.Sim (.spoint pos) (.spoint pos)
  | lineString (l l' : Line) (poss : List Pos) (ex : Option Extra) (h : Line.Sim l l') :
      Obj.Sim (.lineString l poss ex) (.lineString l' poss ex)
  | polygon (p p' : Poly) (rings : List (List Pos)) (ex : Option Extra) (h : Poly.Sim p p') :
      Obj.Sim (.polygon p rings ex) (.polygon p' rings ex)
  | rectO (b : Box) (lo hi : Pos) : Obj.Sim (.rectO b lo hi) (.rectO b lo hi)
  | coll (kind : CollKind) (cs cs' : List Obj) (ex : Option Extra) (idx idx' : Bool)
      (h : Obj.SimL cs cs') : Obj.Sim (.coll kind cs ex idx) (.coll kind cs' ex idx')
  | feature (b b' : Obj) (ex : Option Extra) (h : Obj.Sim b b') : Obj.Sim (.feature b ex) (.feature b' ex)
  | circle (c : Pos) (r : String) : Obj.Sim (.circle c r) (.circle c r)
inductive Obj.SimL : List Obj → List Obj → Prop
  | nil : Obj.SimL [] []
  | cons (c c' : Obj) (cs cs' : List Obj) (h : Obj.Sim c c') (hs : Obj.SimL cs cs') :
      Obj.SimL (c :: cs) (c' :: cs')
end

/-! ### the bridge -/

theorem Ring.ObsEq.sim {a b : Ring} (h : a.ObsEq b) (ha : a.AllSer Series.SearchExact)
    (hb : b.AllSer Series.SearchExact) : a.Sim b := by
  cases a <;> cases b <;> simp only [Ring.ObsEq] at h
  · exact Series.Same.sim h ha hb
  · subst h; exact Ring.Sim.bx _

theorem forall2_ring_sim {l l' : List Ring} (h : Forall2 Ring.ObsEq l l')
    (hl : ∀ r ∈ l, r.AllSer Series.SearchExact) (hl' : ∀ r ∈ l', r.AllSer Series.SearchExact) :
    List.Forall₂ Ring.Sim l l' := by
  induction h with
  | nil => exact .nil
  | cons hab _ ih =>
    exact .cons (hab.sim (hl _ (by simp)) (hl' _ (by simp)))
      (ih (fun r hr => hl r (by simp [hr])) (fun r hr => hl' r (by simp [hr])))

theorem Poly.ObsEq.sim {p q : Poly} (h : p.ObsEq q) (hp : p.AllSer Series.SearchExact)
    (hq : q.AllSer Series.SearchExact) : p.Sim q := by
  obtain ⟨he, hh⟩ := h
  refine ⟨?_, forall2_ring_sim hh hp.2 hq.2⟩
  cases h1 : p.ext <;> cases h2 : q.ext <;> rw [h1, h2] at he <;> simp only at he ⊢
  exact he.sim (hp.1 _ h1) (hq.1 _ h2)

mutual
/-- **target 1**: objects equal up to index bytes whose series all search exactly are similar -/
theorem ObsEq.sim : ∀ {x x' : Obj}, ObsEq x x' → x.SearchOK → x'.SearchOK → Obj.Sim x x'
  | _, _, .point _ _, _, _ => .point _ _
  | _, _, .spoint _, _, _ => .spoint _
  | _, _, .lineString _ _ _ _ h, h1, h2 => .lineString _ _ _ _ ⟨h, h1, h2⟩
  | _, _, .polygon _ _ _ _ h, h1, h2 => .polygon _ _ _ _ (h.sim h1 h2)
  | _, _, .rectO _ _ _, _, _ => .rectO _ _ _
  | _, _, .coll _ _ _ _ _ _ h, h1, h2 => .coll _ _ _ _ _ _ (ObsEqL.simL h h1 h2)
  | _, _, .feature _ _ _ h, h1, h2 => .feature _ _ _ (ObsEq.sim h h1 h2)
  | _, _, .circle _ _, _, _ => .circle _ _
theorem ObsEqL.simL : ∀ {cs cs' : List Obj}, ObsEqL cs cs' →
    Obj.AllLeafL Series.SearchExact (Poly.AllSer Series.SearchExact) cs →
    Obj.AllLeafL Series.SearchExact (Poly.AllSer Series.SearchExact) cs' → Obj.SimL cs cs'
  | _, _, .nil, _, _ => .nil
  | _, _, .cons _ _ _ _ h hs, h1, h2 => .cons _ _ _ _ (ObsEq.sim h h1.1 h2.1) (ObsEqL.simL hs h1.2 h2.2)
end

/-! ### attributes -/

theorem Obj.SimL.length_eq {cs cs' : List Obj} (h : Obj.SimL cs cs') : cs.length = cs'.length := by
  induction cs generalizing cs' with
  | nil => cases h; rfl
  | cons c cs ih =>
    cases h with
    | cons _ c' _ cs'' _ hs => simp [ih hs]

mutual
theorem Obj.Sim.empty : ∀ {x x' : Obj}, Obj.Sim x x' → x.empty = x'.empty
  | _, _, .point _ _ => rfl
  | _, _, .spoint _ => rfl
  | _, _, .lineString _ _ _ _ h => by simp only [Obj.empty, h.same.empty]
  | _, _, .polygon _ _ _ _ h => by simp only [Obj.empty, h.empty]
  | _, _, .rectO _ _ _ => rfl
  | _, _, .coll _ _ _ _ _ _ h => by simp only [Obj.empty]; exact Obj.SimL.allEmpty h
  | _, _, .feature _ _ _ h => by simp only [Obj.empty]; exact Obj.Sim.empty h
  | _, _, .circle _ _ => rfl
theorem Obj.SimL.allEmpty : ∀ {cs cs' : List Obj}, Obj.SimL cs cs' → Obj.allEmpty cs = Obj.allEmpty cs'
  | _, _, .nil => rfl
  | _, _, .cons _ _ _ _ h hs => by simp only [Obj.allEmpty, Obj.Sim.empty h, Obj.SimL.allEmpty hs]
end

mutual
theorem Obj.Sim.rect : ∀ {x x' : Obj}, Obj.Sim x x' → x.rect = x'.rect
  | _, _, .point _ _ => rfl
  | _, _, .spoint _ => rfl
  | _, _, .lineString _ _ _ _ h => by simp only [Obj.rect, h.same.2.2.2.2]
  | _, _, .polygon _ _ _ _ h => by simp only [Obj.rect, h.rect]
  | _, _, .rectO _ _ _ => rfl
  | _, _, .coll _ _ _ _ _ _ h => by
    simp only [Obj.rect, h.length_eq]
    rw [Obj.SimL.collRect h]
  | _, _, .feature _ _ _ h => by simp only [Obj.rect]; exact Obj.Sim.rect h
  | _, _, .circle _ _ => rfl
theorem Obj.SimL.collRect : ∀ {cs cs' : List Obj}, Obj.SimL cs cs' → ∀ (s : Bool) (acc : Option Box),
    Obj.collRect cs s acc = Obj.collRect cs' s acc
  | _, _, .nil, _, _ => rfl
  | _, _, .cons _ _ _ _ h hs, s, acc => by
    simp only [Obj.collRect, Obj.Sim.empty h, Obj.Sim.rect h]
    split
    · exact Obj.SimL.collRect hs s acc
    · split
      · exact Obj.SimL.collRect hs s _
      · exact Obj.SimL.collRect hs s _
end

/-! ### leaves -/

theorem Obj.SimL.append {as as' bs bs' : List Obj} (ha : Obj.SimL as as') (hb : Obj.SimL bs bs') :
    Obj.SimL (as ++ bs) (as' ++ bs') := by
  induction as generalizing as' with
  | nil => cases ha; exact hb
  | cons c cs ih =>
    cases ha with
    | cons _ c' _ cs'' h hs => exact .cons _ _ _ _ h (ih hs)

mutual
theorem Obj.Sim.leaves : ∀ {x x' : Obj}, Obj.Sim x x' → Obj.SimL x.leaves x'.leaves
  | _, _, .point _ _ => .cons _ _ _ _ (.point _ _) .nil
  | _, _, .spoint _ => .cons _ _ _ _ (.spoint _) .nil
  | _, _, .lineString _ _ _ _ h => .cons _ _ _ _ (.lineString _ _ _ _ h) .nil
  | _, _, .polygon _ _ _ _ h => .cons _ _ _ _ (.polygon _ _ _ _ h) .nil
  | _, _, .rectO _ _ _ => .cons _ _ _ _ (.rectO _ _ _) .nil
  | _, _, .coll _ _ _ _ _ _ h => by rw [Obj.leaves, Obj.leaves]; exact Obj.SimL.leavesL h
  | _, _, .feature _ _ _ h => .cons _ _ _ _ (.feature _ _ _ h) .nil
  | _, _, .circle _ _ => .cons _ _ _ _ (.circle _ _) .nil
theorem Obj.SimL.leavesL : ∀ {cs cs' : List Obj}, Obj.SimL cs cs' → Obj.SimL (Obj.leavesL cs) (Obj.leavesL cs')
  | _, _, .nil => .nil
  | _, _, .cons _ _ _ _ h hs => by
    rw [Obj.leavesL, Obj.leavesL]; exact (Obj.Sim.leaves h).append (Obj.SimL.leavesL hs)
end

/-- the non-empty parts correspond -/
theorem Obj.SimL.nonEmpty {gs gs' : List Obj} (h : Obj.SimL gs gs') :
    Obj.SimL (gs.filter (fun g => !g.empty)) (gs'.filter (fun g => !g.empty)) := by
  induction gs generalizing gs' with
  | nil => cases h; exact .nil
  | cons c cs ih =>
    cases h with
    | cons _ c' _ cs'' h hs =>
      rw [List.filter_cons, List.filter_cons, h.empty]
      split
      · exact .cons _ _ _ _ h (ih hs)
      · exact ih hs

theorem Obj.SimL.isEmpty {gs gs' : List Obj} (h : Obj.SimL gs gs') : gs.isEmpty = gs'.isEmpty := by
  cases h <;> rfl

end Geo
