/-
  Property C04, last clause (also needed by C08): "consequently every geometric predicate
  returns the same answer under every index kind and build threshold".

  RESULT.
  * `Geom.intersects` (all 16 pairs), every `…Intersects…` predicate, point membership, the
    ∃-search `Ring.searchAny` and the counting fold of `ringIntersectsSegment` (both readings):
    index independent, for ARBITRARY visit permutations — i.e. from `Series.SearchExact` alone.
  * `Geom.contains`, `ringContainsSegment/Ring/Line` in the inclusive reading on CONCAVE rings:
    index independent iff the edge index reported by `ringContainsPoint` is immaterial: under
    `Ring.IdxUnique` for the query's endpoints (the point lies on one edge only, or is an end of
    every edge it lies on), in particular on rings whose edges meet only at shared vertices
    (`RingSimple`).  On self-touching / self-crossing rings the answer DOES depend on the visit
    order: `ringContainsSegment_order_dependent_counterexample` (kernel-checked, hypothetical
    order), and the dependence is REALISED by the model's real indexes, kernel-checked without
    hypothesis: `ringContainsSegment_rtree_vs_none` / `geom_contains_rtree_vs_none` (R-tree,
    17 segments), `ringContainsSegment_quadtree_vs_none` (quadtree, 37 segments).
  Proofs: GeoProofs/IndexIndep/*.lean; executable experiment: IndexIndep/Experiment.lean.
-/
import GeoProofs.IndexIndep.Matrix
import GeoProofs.IndexIndep.Counterexample
import GeoProofs.IndexIndep.RealRTree
import GeoProofs.IndexIndep.RealQTree
import GeoProofs.SeriesSearchR

namespace Geo

/-! ### similar rings from two index configurations of one vertex list -/

theorem ring_sim (pts : Array Pt) (k1 k2 : IndexKind) (m1 m2 : Nat)
    (h1 : (mkSeries pts true k1 m1).SearchExact) (h2 : (mkSeries pts true k2 m2).SearchExact) :
    (Ring.ser (mkSeries pts true k1 m1)).Sim (.ser (mkSeries pts true k2 m2)) :=
  (mkSeries_same pts true k1 k2 m1 m2).sim h1 h2

theorem line_sim (pts : Array Pt) (k1 k2 : IndexKind) (m1 m2 : Nat)
    (h1 : (mkSeries pts false k1 m1).SearchExact) (h2 : (mkSeries pts false k2 m2).SearchExact) :
    Line.Sim (mkSeries pts false k1 m1) (mkSeries pts false k2 m2) :=
  ⟨mkSeries_same pts false k1 k2 m1 m2, h1, h2⟩

/-! ### (a) the ∃-search -/

/-- the result of the ∃-search with early exit depends only on the visited multiset -/
theorem searchAny_perm (segAt : Nat → Seg) (pred : Seg → Nat → Bool) (v1 v2 : List Nat)
    (h : List.Perm v1 v2) :
    (foldUntil (fun (st : Bool) i => if pred (segAt i) i then (true, false) else (st, true)) false v1).1 =
    (foldUntil (fun (st : Bool) i => if pred (segAt i) i then (true, false) else (st, true)) false v2).1 :=
  searchAny_fold_perm segAt pred v1 v2 h

/-- hence on `SearchExact` only -/
theorem searchAny_index_indep (pts : Array Pt) (closed : Bool) (k1 k2 : IndexKind) (m1 m2 : Nat)
    (h1 : (mkSeries pts closed k1 m1).SearchExact) (h2 : (mkSeries pts closed k2 m2).SearchExact)
    (q : Box) (pred : Seg → Nat → Bool) :
    (Ring.ser (mkSeries pts closed k1 m1)).searchAny q pred =
      (Ring.ser (mkSeries pts closed k2 m2)).searchAny q pred :=
  ((mkSeries_same pts closed k1 k2 m1 m2).sim h1 h2).searchAny q pred

/-! ### (b) the counting fold -/

/-- the verdict `count ≥ 2` of the counting fold with early stop and the "first touching
    segment at each end is free" rule depends only on the visited multiset (both readings) -/
theorem intersectsSegment_fold_perm (segAt : Nat → Seg) (seg : Seg) (allowOnEdge : Bool)
    (v1 v2 : List Nat) (h : List.Perm v1 v2) :
    (2 ≤ (foldUntil (fun st i => riStep seg allowOnEdge st (segAt i)) ⟨0, false, false⟩ v1).1.count) ↔
    (2 ≤ (foldUntil (fun st i => riStep seg allowOnEdge st (segAt i)) ⟨0, false, false⟩ v2).1.count) :=
  riFold_perm segAt seg allowOnEdge v1 v2 h

theorem ringIntersectsSegment_index_indep (pts : Array Pt) (seg : Seg) (allowOnEdge : Bool)
    (k1 k2 : IndexKind) (m1 m2 : Nat)
    (h1 : (mkSeries pts true k1 m1).SearchExact) (h2 : (mkSeries pts true k2 m2).SearchExact) :
    ringIntersectsSegment (.ser (mkSeries pts true k1 m1)) seg allowOnEdge =
      ringIntersectsSegment (.ser (mkSeries pts true k2 m2)) seg allowOnEdge :=
  (ring_sim pts k1 k2 m1 m2 h1 h2).intersectsSegment seg allowOnEdge

/-- even the return site agrees -/
theorem ringIntersectsSegmentS_index_indep (pts : Array Pt) (seg : Seg) (allowOnEdge : Bool)
    (k1 k2 : IndexKind) (m1 m2 : Nat)
    (h1 : (mkSeries pts true k1 m1).SearchExact) (h2 : (mkSeries pts true k2 m2).SearchExact) :
    ringIntersectsSegmentS (.ser (mkSeries pts true k1 m1)) seg allowOnEdge =
      ringIntersectsSegmentS (.ser (mkSeries pts true k2 m2)) seg allowOnEdge :=
  (ring_sim pts k1 k2 m1 m2 h1 h2).intersectsSegmentS seg allowOnEdge

/-! ### intersects: ring × line, ring × ring, line × line, polygons -/

/-- the line's own index is never searched by `ringIntersectsLine` -/
theorem ringIntersectsLine_index_indep (pts lpts : Array Pt) (allowOnEdge : Bool)
    (k1 k2 lk1 lk2 : IndexKind) (m1 m2 lm1 lm2 : Nat)
    (h1 : (mkSeries pts true k1 m1).SearchExact) (h2 : (mkSeries pts true k2 m2).SearchExact) :
    ringIntersectsLine (.ser (mkSeries pts true k1 m1)) (mkSeries lpts false lk1 lm1) allowOnEdge =
      ringIntersectsLine (.ser (mkSeries pts true k2 m2)) (mkSeries lpts false lk2 lm2) allowOnEdge :=
  (ring_sim pts k1 k2 m1 m2 h1 h2).intersectsLine (mkSeries_same lpts false lk1 lk2 lm1 lm2) allowOnEdge

theorem ringIntersectsRing_index_indep (pts opts : Array Pt) (allowOnEdge : Bool)
    (k1 k2 ok1 ok2 : IndexKind) (m1 m2 om1 om2 : Nat)
    (h1 : (mkSeries pts true k1 m1).SearchExact) (h2 : (mkSeries pts true k2 m2).SearchExact)
    (g1 : (mkSeries opts true ok1 om1).SearchExact) (g2 : (mkSeries opts true ok2 om2).SearchExact) :
    ringIntersectsRing (.ser (mkSeries pts true k1 m1)) (.ser (mkSeries opts true ok1 om1)) allowOnEdge =
      ringIntersectsRing (.ser (mkSeries pts true k2 m2)) (.ser (mkSeries opts true ok2 om2)) allowOnEdge :=
  (ring_sim pts k1 k2 m1 m2 h1 h2).intersectsRing (ring_sim opts ok1 ok2 om1 om2 g1 g2) allowOnEdge

theorem lineIntersectsLine_index_indep (pts opts : Array Pt)
    (k1 k2 ok1 ok2 : IndexKind) (m1 m2 om1 om2 : Nat)
    (h1 : (mkSeries pts false k1 m1).SearchExact) (h2 : (mkSeries pts false k2 m2).SearchExact)
    (g1 : (mkSeries opts false ok1 om1).SearchExact) (g2 : (mkSeries opts false ok2 om2).SearchExact) :
    Line.intersectsLine (mkSeries pts false k1 m1) (mkSeries opts false ok1 om1) =
      Line.intersectsLine (mkSeries pts false k2 m2) (mkSeries opts false ok2 om2) :=
  (line_sim pts k1 k2 m1 m2 h1 h2).intersectsLine (line_sim opts ok1 ok2 om1 om2 g1 g2)

/-- `Line.containsLine` never searches: no hypothesis at all -/
theorem lineContainsLine_index_indep (pts opts : Array Pt)
    (k1 k2 ok1 ok2 : IndexKind) (m1 m2 om1 om2 : Nat) :
    Line.containsLine (mkSeries pts false k1 m1) (mkSeries opts false ok1 om1) =
      Line.containsLine (mkSeries pts false k2 m2) (mkSeries opts false ok2 om2) :=
  Line.containsLine_congr (mkSeries_same _ _ _ _ _ _) (mkSeries_same _ _ _ _ _ _)

/-- polygons: similar polygons (exteriors similar, holes pairwise similar) answer alike -/
theorem polyContainsPoint_index_indep {p p' : Poly} (h : p.Sim p') (q : Pt) :
    p.containsPoint q = p'.containsPoint q := h.containsPoint q

theorem polyIntersectsLine_index_indep {p p' : Poly} {l l' : Line} (h : p.Sim p') (hl : l.Same l') :
    p.intersectsLine l = p'.intersectsLine l' := h.intersectsLine hl

theorem polyIntersectsPoly_index_indep {p p' o o' : Poly} (h : p.Sim p') (ho : o.Sim o') :
    p.intersectsPoly o = p'.intersectsPoly o' := h.intersectsPoly ho

theorem polyIntersectsRect_index_indep {p p' : Poly} (h : p.Sim p') (r : Box) :
    p.intersectsRect r = p'.intersectsRect r := h.intersectsRect r

/-! ### (c) `ringContainsSegment` -/

/-- The edge index reported by `ringContainsPoint` is order independent exactly for a point on
    ONE edge; for a point that is an END of every edge it lies on, the index may differ but
    site 6 or site 7 fires with `true` for every choice.  `Ring.IdxUnique r p` is the
    disjunction.  Under it for both endpoints — or in the exclusive reading, or on a convex
    ring, where the index is not looked at — the answer is index independent. -/
theorem ringContainsSegment_index_indep (pts : Array Pt) (seg : Seg) (allowOnEdge : Bool)
    (k1 k2 : IndexKind) (m1 m2 : Nat)
    (h1 : (mkSeries pts true k1 m1).SearchExact) (h2 : (mkSeries pts true k2 m2).SearchExact)
    (hc : allowOnEdge = false ∨ (processPoints pts true).convex = true ∨
      ((Ring.ser (mkSeries pts true k1 m1)).IdxUnique seg.a ∧
       (Ring.ser (mkSeries pts true k1 m1)).IdxUnique seg.b)) :
    ringContainsSegment (.ser (mkSeries pts true k1 m1)) seg allowOnEdge =
      ringContainsSegment (.ser (mkSeries pts true k2 m2)) seg allowOnEdge :=
  (ring_sim pts k1 k2 m1 m2 h1 h2).containsSegment seg allowOnEdge hc

/-- in particular on rings whose edges meet only at shared vertices -/
theorem ringContainsSegment_index_indep_simple (pts : Array Pt) (seg : Seg) (allowOnEdge : Bool)
    (k1 k2 : IndexKind) (m1 m2 : Nat)
    (h1 : (mkSeries pts true k1 m1).SearchExact) (h2 : (mkSeries pts true k2 m2).SearchExact)
    (hs : RingSimple pts) :
    ringContainsSegment (.ser (mkSeries pts true k1 m1)) seg allowOnEdge =
      ringContainsSegment (.ser (mkSeries pts true k2 m2)) seg allowOnEdge :=
  ringContainsSegment_index_indep pts seg allowOnEdge k1 k2 m1 m2 h1 h2
    (Or.inr (Or.inr ⟨fun i j hi hj => hs _ i j hi hj, fun i j hi hj => hs _ i j hi hj⟩))

/-- the exclusive reading: no condition, same return site -/
theorem ringContainsSegmentS_false_index_indep (pts : Array Pt) (seg : Seg)
    (k1 k2 : IndexKind) (m1 m2 : Nat)
    (h1 : (mkSeries pts true k1 m1).SearchExact) (h2 : (mkSeries pts true k2 m2).SearchExact) :
    ringContainsSegmentS (.ser (mkSeries pts true k1 m1)) seg false =
      ringContainsSegmentS (.ser (mkSeries pts true k2 m2)) seg false :=
  (ring_sim pts k1 k2 m1 m2 h1 h2).containsSegmentS_false seg

theorem ringContainsRing_index_indep (pts opts : Array Pt) (allowOnEdge : Bool)
    (k1 k2 ok1 ok2 : IndexKind) (m1 m2 om1 om2 : Nat)
    (h1 : (mkSeries pts true k1 m1).SearchExact) (h2 : (mkSeries pts true k2 m2).SearchExact)
    (hc : allowOnEdge = false ∨ RingIdxSafe pts) :
    ringContainsRing (.ser (mkSeries pts true k1 m1)) (.ser (mkSeries opts true ok1 om1)) allowOnEdge =
      ringContainsRing (.ser (mkSeries pts true k2 m2)) (.ser (mkSeries opts true ok2 om2)) allowOnEdge :=
  (ring_sim pts k1 k2 m1 m2 h1 h2).containsRing (mkSeries_same opts true ok1 ok2 om1 om2).data
    allowOnEdge (hc.imp id (fun h => h.ring k1 m1))

theorem ringContainsLine_index_indep (pts lpts : Array Pt) (allowOnEdge : Bool)
    (k1 k2 lk1 lk2 : IndexKind) (m1 m2 lm1 lm2 : Nat)
    (h1 : (mkSeries pts true k1 m1).SearchExact) (h2 : (mkSeries pts true k2 m2).SearchExact)
    (hc : allowOnEdge = false ∨ RingIdxSafe pts) :
    ringContainsLine (.ser (mkSeries pts true k1 m1)) (mkSeries lpts false lk1 lm1) allowOnEdge =
      ringContainsLine (.ser (mkSeries pts true k2 m2)) (mkSeries lpts false lk2 lm2) allowOnEdge :=
  (ring_sim pts k1 k2 m1 m2 h1 h2).containsLine (mkSeries_same lpts false lk1 lk2 lm1 lm2)
    allowOnEdge (hc.imp id (fun h => h.ring k1 m1))

/-! ### the 4×4 matrices -/

/-- **`Geom.intersects`, all 16 pairs**: shapes built with ANY index configuration answer as the
    same shapes built without index, given `SearchExact` of every series involved. -/
theorem geom_intersects_index_indep (a b : GCfg) (ha : a.Exact) (hb : b.Exact) :
    a.build.intersects b.build = a.plain.intersects b.plain :=
  (a.sim ha).intersects (b.sim hb)

/-- two arbitrary index configurations of the same vertex lists -/
theorem geom_intersects_index_indep₂ (a a' b b' : GCfg) (ha : a.Exact) (ha' : a'.Exact)
    (hb : b.Exact) (hb' : b'.Exact) (hpa : a.plain = a'.plain) (hpb : b.plain = b'.plain) :
    a.build.intersects b.build = a'.build.intersects b'.build := by
  rw [geom_intersects_index_indep a b ha hb, geom_intersects_index_indep a' b' ha' hb', hpa, hpb]

/-- **`Geom.contains`, all 16 pairs**, under the condition that the exterior ring of the left
    polygon and the holes of the right polygon (the rings used as containers in the inclusive
    reading) are convex or have edges meeting only at shared vertices (`RingIdxSafe`).  No
    condition for the 12 pairs whose left operand is not a polygon. -/
theorem geom_contains_index_indep (a b : GCfg) (ha : a.Exact) (hb : b.Exact)
    (hsa : a.ExtSafe) (hsb : b.HolesSafe) :
    a.build.contains b.build = a.plain.contains b.plain :=
  (a.sim ha).contains (b.sim hb) (a.extSafe_build hsa) (b.holesSafe_build hsb)

theorem geom_contains_index_indep₂ (a a' b b' : GCfg) (ha : a.Exact) (ha' : a'.Exact)
    (hb : b.Exact) (hb' : b'.Exact) (hpa : a.plain = a'.plain) (hpb : b.plain = b'.plain)
    (hsa : a.ExtSafe) (hsb : b.HolesSafe) (hsa' : a'.ExtSafe) (hsb' : b'.HolesSafe) :
    a.build.contains b.build = a'.build.contains b'.build := by
  rw [geom_contains_index_indep a b ha hb hsa hsb, geom_contains_index_indep a' b' ha' hb' hsa' hsb',
    hpa, hpb]

/-! ### discharging `Exact`: the three index kinds -/

/-- size bounds of the byte formats (32-bit counts/addresses) and, for the R-tree, binary64
    coordinates -/
def SerCfg.Sized (c : SerCfg) (closed : Bool) : Prop :=
  c.pts.size < 2 ^ 32 ∧
  (c.kind = .quadtree → (qBytesOf c.pts closed).size < 2 ^ 32) ∧
  (c.kind = .rtree → (rBytesOf c.pts closed).size < 2 ^ 32 ∧
    ∀ p ∈ c.pts.toList, Dyadic53 p.x ∧ Dyadic53 p.y)

theorem SerCfg.Sized.exact {c : SerCfg} {closed : Bool} (h : c.Sized closed) :
    (mkSeries c.pts closed c.kind c.minPoints).SearchExact :=
  series_search_exact_dyadic c.pts closed c.kind c.minPoints h.1 h.2.1 h.2.2

def GCfg.Sized : GCfg → Prop
  | .point _ => True
  | .rect _ => True
  | .line c => c.Sized false
  | .poly e hs => e.Sized true ∧ ∀ h ∈ hs, h.Sized true

theorem GCfg.Sized.exact {g : GCfg} (h : g.Sized) : g.Exact := by
  cases g with
  | point p => trivial
  | rect r => trivial
  | line c => exact SerCfg.Sized.exact h
  | poly e hs => exact ⟨SerCfg.Sized.exact h.1, fun c hc => SerCfg.Sized.exact (h.2 c hc)⟩

/-- hypothesis-free on the searches: every index kind and threshold -/
theorem geom_intersects_index_indep_sized (a b : GCfg) (ha : a.Sized) (hb : b.Sized) :
    a.build.intersects b.build = a.plain.intersects b.plain :=
  geom_intersects_index_indep a b ha.exact hb.exact

theorem geom_contains_index_indep_sized (a b : GCfg) (ha : a.Sized) (hb : b.Sized)
    (hsa : a.ExtSafe) (hsb : b.HolesSafe) :
    a.build.contains b.build = a.plain.contains b.plain :=
  geom_contains_index_indep a b ha.exact hb.exact hsa hsb

/-! ### non-vacuity -/

/-- the 40-vertex zig-zag ring really indexed by a quadtree and by an R-tree, against a line:
    all three configurations answer alike -/
example (lpts : Array Pt) :
    (GCfg.poly ⟨exRing40, .rtree, 16⟩ []).build.intersects (GCfg.line ⟨lpts, .none, 0⟩).build =
    (GCfg.poly ⟨exRing40, .quadtree, 16⟩ []).build.intersects (GCfg.line ⟨lpts, .none, 0⟩).build := by
  have hr : (GCfg.poly ⟨exRing40, .rtree, 16⟩ []).Sized := by
    refine ⟨⟨by decide +kernel, fun h => (by cases h), fun _ => ⟨by decide +kernel, exRing40_dyadic⟩⟩, ?_⟩
    intro c hc; cases hc
  have hq : (GCfg.poly ⟨exRing40, .quadtree, 16⟩ []).Sized := by
    refine ⟨⟨by decide +kernel, fun _ => (by decide +kernel), fun h => (by cases h)⟩, ?_⟩
    intro c hc; cases hc
  exact geom_intersects_index_indep₂ _ _ _ _ hr.exact hq.exact
    (series_search_exact_kind_none _ _ _) (series_search_exact_kind_none _ _ _) rfl rfl

end Geo

#print axioms Geo.searchAny_perm
#print axioms Geo.searchAny_index_indep
#print axioms Geo.intersectsSegment_fold_perm
#print axioms Geo.ringIntersectsSegment_index_indep
#print axioms Geo.ringIntersectsSegmentS_index_indep
#print axioms Geo.ringIntersectsLine_index_indep
#print axioms Geo.ringIntersectsRing_index_indep
#print axioms Geo.lineIntersectsLine_index_indep
#print axioms Geo.lineContainsLine_index_indep
#print axioms Geo.lineContainsPoint_index_indep
#print axioms Geo.polyContainsPoint_index_indep
#print axioms Geo.polyIntersectsLine_index_indep
#print axioms Geo.polyIntersectsPoly_index_indep
#print axioms Geo.polyIntersectsRect_index_indep
#print axioms Geo.ringContainsSegment_index_indep
#print axioms Geo.ringContainsSegment_index_indep_simple
#print axioms Geo.ringContainsSegmentS_false_index_indep
#print axioms Geo.ringContainsRing_index_indep
#print axioms Geo.ringContainsLine_index_indep
#print axioms Geo.Geom.Sim.intersects
#print axioms Geo.Geom.Sim.contains
#print axioms Geo.geom_intersects_index_indep
#print axioms Geo.geom_intersects_index_indep₂
#print axioms Geo.geom_contains_index_indep
#print axioms Geo.geom_contains_index_indep₂
#print axioms Geo.geom_intersects_index_indep_sized
#print axioms Geo.geom_contains_index_indep_sized
#print axioms Geo.ringContainsSegmentS_eq_V
#print axioms Geo.ringContainsSegmentS_eq_L
#print axioms Geo.ringContainsSegment_order_dependent_counterexample
#print axioms Geo.pinched_unindexed
#print axioms Geo.ringContainsSegment_not_sim_invariant
#print axioms Geo.rtree_series_foldOn
#print axioms Geo.ring17_rOrder
#print axioms Geo.ringContainsSegment_rtree_vs_none
#print axioms Geo.ringContainsSegment_not_index_indep
#print axioms Geo.geom_contains_rtree_vs_none
#print axioms Geo.qtree_series_foldOn
#print axioms Geo.ring37_strip_order
#print axioms Geo.ringContainsSegment_quadtree_vs_none
