/-
  Property C02 (intersects) — the parts that are exact.

  PROVED
  * Rect × Rect: `rect_intersects_rect_iff` (⇔ a common point, for well-formed rectangles; the
    direction "common point ⇒ intersects" needs no hypothesis), `rect_intersects_symm`.
  * Line × Line (un-indexed series whose rectangle is the one of `processPoints`, i.e. built by
    `mkSeries … .none _` / `mkSeries … _ 0`: predicate `GL.Plain`): `lineIntersectsLine_iff`
    (⇔ some segment of one meets some segment of the other, `SegsMeet` = share a point),
    `lineIntersectsLine_symm`.
  * Point receiver / argument: `point_intersects_iff` (the four equations),
    `geom_intersects_symm_pointrect`.
  * `geom_intersects_dispatch_symm`: Line×Poly, Rect×Line, Rect×Poly — the two argument orders
    run THE SAME computation; `geom_intersects_symm_partial`: symmetry of `Geom.intersects` on
    every pair of kinds except Poly × Poly (lines `Plain`).
  * ring × segment, soundness of `true`: `ringIntersectsSegment_sound` — a `true` answer
    always exhibits a point of the segment lying in the closed region of the ring (membership of
    the accepted endpoint is taken from the C01 characterisation as hypothesis `hmem`).

  NOT PROVED (out of scope): completeness of the `false` answers of ring × segment
  (`ringIntersectsSegment = false → no common point`), and therefore the exactness of
  Ring×Ring, Ring×Line, Poly×anything beyond the dispatch facts: a segment with both endpoints
  outside that has no common point with the boundary misses the region — a discrete Jordan-curve
  statement.  Symmetry of Poly × Poly (depends on it as well).
-/
import GeoProofs.GeomLemmas

namespace Geo
open GL

/-! ## Rect × Rect -/

theorem rect_intersects_rect_iff (r o : Box)
    (hr : r.min.x ≤ r.max.x ∧ r.min.y ≤ r.max.y) (ho : o.min.x ≤ o.max.x ∧ o.min.y ≤ o.max.y) :
    r.intersects o = true ↔ ∃ p : Pt, r.containsPt p = true ∧ o.containsPt p = true := by
  constructor
  · intro h
    rw [intersects_iff] at h
    obtain ⟨h1, h2, h3, h4⟩ := h
    refine ⟨⟨max r.min.x o.min.x, max r.min.y o.min.y⟩, ?_, ?_⟩
    · rw [containsPt_iff]
      exact ⟨le_max_left _ _, max_le hr.1 h4, le_max_left _ _, max_le hr.2 h2⟩
    · rw [containsPt_iff]
      exact ⟨le_max_right _ _, max_le h3 ho.1, le_max_right _ _, max_le h1 ho.2⟩
  · rintro ⟨p, h1, h2⟩
    exact intersects_of_common r o p h1 h2

/-- the well-formedness hypothesis cannot be dropped -/
theorem rect_intersects_rect_illformed :
    (Box.mk ⟨2, 2⟩ ⟨1, 1⟩).intersects (Box.mk ⟨0, 0⟩ ⟨3, 3⟩) = true ∧
    ¬ ∃ p : Pt, (Box.mk ⟨2, 2⟩ ⟨1, 1⟩).containsPt p = true ∧ (Box.mk ⟨0, 0⟩ ⟨3, 3⟩).containsPt p = true := by
  refine ⟨by decide +kernel, ?_⟩
  rintro ⟨p, h, -⟩
  rw [containsPt_iff] at h
  obtain ⟨a1, a2, -, -⟩ := h
  simp only at a1 a2
  linarith

theorem rect_intersects_symm (r o : Box) : r.intersects o = o.intersects r := by
  rw [Bool.eq_iff_iff, intersects_iff, intersects_iff]
  constructor <;> rintro ⟨a, b, c, d⟩ <;> exact ⟨b, a, d, c⟩

/-! ## Line × Line -/

/-- the nested any-loop of `Line.intersectsLine` -/
theorem anyMeet_iff (l m : Line) (hm : m.index = none) :
    (List.range l.numSegments).any (fun i =>
      (Ring.ser m).searchAny (l.segmentAt i).box (fun segB _ => (l.segmentAt i).intersects segB)) = true ↔
    ∃ i, i < l.numSegments ∧ ∃ j, j < m.numSegments ∧
      SegsMeet (l.segmentAt i).a (l.segmentAt i).b (m.segmentAt j).a (m.segmentAt j).b := by
  rw [List.any_eq_true]
  constructor
  · rintro ⟨i, hi, h⟩
    rw [ring_searchAny_iff (.ser m) hm] at h
    obtain ⟨j, hj, -, hp⟩ := h
    exact ⟨i, List.mem_range.1 hi, j, hj, (segIntersects_iff _ _).1 hp⟩
  · rintro ⟨i, hi, j, hj, h⟩
    refine ⟨i, List.mem_range.2 hi, ?_⟩
    rw [ring_searchAny_iff (.ser m) hm]
    exact ⟨j, hj, segBoxes_intersect_of_meet h, (segIntersects_iff _ _).2 h⟩

theorem lineIntersectsLine_iff (l m : Line) (hl : Plain l) (hm : Plain m) :
    l.intersectsLine m = true ↔
      ∃ i, i < l.numSegments ∧ ∃ j, j < m.numSegments ∧
        SegsMeet (l.segmentAt i).a (l.segmentAt i).b (m.segmentAt j).a (m.segmentAt j).b := by
  unfold Line.intersectsLine
  split_ifs with h1 h2 hn
  · -- one of the two is empty: no segment
    refine iff_of_false (by simp) ?_
    rintro ⟨i, hi, j, hj, -⟩
    simp only [Bool.or_eq_true] at h1
    rcases h1 with h | h
    · rw [(numSegments_eq_zero_iff l).2 h] at hi; omega
    · rw [(numSegments_eq_zero_iff m).2 h] at hj; omega
  · -- disjoint rectangles: a common point would lie in both
    refine iff_of_false (by simp) ?_
    rintro ⟨i, hi, j, hj, p, hp1, hp2⟩
    have := intersects_of_common _ _ p (onSeg_in_rect l hl i hi p hp1) (onSeg_in_rect m hm j hj p hp2)
    simp [this] at h2
  · simp only
    rw [anyMeet_iff m l hl.1]
    constructor
    · rintro ⟨j, hj, i, hi, h⟩
      exact ⟨i, hi, j, hj, (K.segsMeet_symm _ _ _ _).1 h⟩
    · rintro ⟨i, hi, j, hj, h⟩
      exact ⟨j, hj, i, hi, (K.segsMeet_symm _ _ _ _).1 h⟩
  · exact anyMeet_iff l m hm.1

theorem lineIntersectsLine_symm (l m : Line) (hl : Plain l) (hm : Plain m) :
    l.intersectsLine m = m.intersectsLine l := by
  rw [Bool.eq_iff_iff, lineIntersectsLine_iff l m hl hm, lineIntersectsLine_iff m l hm hl]
  constructor
  · rintro ⟨i, hi, j, hj, h⟩
    exact ⟨j, hj, i, hi, (K.segsMeet_symm _ _ _ _).1 h⟩
  · rintro ⟨j, hj, i, hi, h⟩
    exact ⟨i, hi, j, hj, (K.segsMeet_symm _ _ _ _).1 h⟩

/-- instance for series built by `mkSeries` without index -/
theorem lineIntersectsLine_iff_mk (p q : Array Pt) :
    Line.intersectsLine (mkSeries p false .none 0) (mkSeries q false .none 0) = true ↔
      ∃ i, i < (mkSeries p false .none 0).numSegments ∧ ∃ j, j < (mkSeries q false .none 0).numSegments ∧
        SegsMeet ((mkSeries p false .none 0).segmentAt i).a ((mkSeries p false .none 0).segmentAt i).b
          ((mkSeries q false .none 0).segmentAt j).a ((mkSeries q false .none 0).segmentAt j).b :=
  lineIntersectsLine_iff _ _ (mkSeries_plain _ _ _) (mkSeries_plain _ _ _)

/-! ## Point -/

theorem point_intersects_iff (p : Pt) :
    (∀ q : Pt, (Geom.point p).intersects (.point q) = decide (p = q)) ∧
    (∀ r : Box, (Geom.point p).intersects (.rect r) = r.containsPt p) ∧
    (∀ l : Line, (Geom.point p).intersects (.line l) = l.containsPoint p) ∧
    (∀ poly : Poly, (Geom.point p).intersects (.poly poly) = poly.containsPoint p) :=
  ⟨fun _ => rfl, fun _ => rfl, fun _ => rfl, fun _ => rfl⟩

/-- Point × Rect is the specification's membership -/
theorem point_intersects_rect_spec (p : Pt) (r : Box) :
    (Geom.point p).intersects (.rect r) = (Spec.Shape.rect r.min r.max).member p := by
  simp only [Geom.intersects, Pt.intersectsRect, Box.containsPt, Spec.Shape.member, ge_iff_le]

def Geom.isPoint : Geom → Bool | .point _ => true | _ => false
def Geom.isRect : Geom → Bool | .rect _ => true | _ => false
def Geom.isPoly : Geom → Bool | .poly _ => true | _ => false

theorem geom_intersects_symm_pointrect (a b : Geom)
    (h : a.isPoint = true ∨ b.isPoint = true ∨ (a.isRect = true ∧ b.isRect = true)) :
    a.intersects b = b.intersects a := by
  cases a <;> cases b <;> simp only [Geom.isPoint, Geom.isRect, Bool.false_eq_true, or_self,
    and_self, and_false, false_and, or_false, false_or] at h <;>
    first
      | rfl
      | (simp only [Geom.intersects]; rw [Bool.eq_iff_iff, decide_eq_true_eq, decide_eq_true_eq]; exact eq_comm)
      | exact rect_intersects_symm _ _

theorem geom_intersects_dispatch_symm (r : Box) (l : Line) (p : Poly) :
    (Geom.line l).intersects (.poly p) = (Geom.poly p).intersects (.line l) ∧
    (Geom.rect r).intersects (.line l) = (Geom.line l).intersects (.rect r) ∧
    (Geom.rect r).intersects (.poly p) = (Geom.poly p).intersects (.rect r) :=
  ⟨rfl, rfl, rfl⟩

/-- every line component is un-indexed with the `processPoints` rectangle -/
def Geom.PlainLine : Geom → Prop
  | .line l => Plain l
  | _ => True

/-- `Geom.intersects` is symmetric on every pair of kinds except Poly × Poly -/
theorem geom_intersects_symm_partial (a b : Geom) (ha : a.PlainLine) (hb : b.PlainLine)
    (h : ¬ (a.isPoly = true ∧ b.isPoly = true)) : a.intersects b = b.intersects a := by
  cases a <;> cases b <;> simp only [Geom.isPoly, and_self, not_true_eq_false] at h <;>
    first
      | rfl
      | (simp only [Geom.intersects]; rw [Bool.eq_iff_iff, decide_eq_true_eq, decide_eq_true_eq]; exact eq_comm)
      | exact rect_intersects_symm _ _
      | exact lineIntersectsLine_symm _ _ ha hb

/-! ## ring × segment: a `true` answer exhibits a common point -/

/-- `s` any un-indexed series used as a ring; `hmem` is the soundness half of the C01
    characterisation of `ringContainsPoint` (proved in Props/C01.lean). -/
theorem ringIntersectsSegment_sound (s : Series) (hidx : s.index = none) (seg : Seg)
    (allowOnEdge : Bool)
    (hmem : ∀ p, (ringContainsPoint (.ser s) p allowOnEdge).hit = true →
      Spec.inRing (Spec.edges s.pts.toList s.closed) p = true) :
    ringIntersectsSegment (.ser s) seg allowOnEdge = true →
      ∃ p, OnSeg seg.a seg.b p ∧ Spec.inRing (Spec.edges s.pts.toList s.closed) p = true := by
  unfold ringIntersectsSegment ringIntersectsSegmentS
  by_cases h1 : (!seg.box.intersects (Ring.ser s).rect) = true
  · rw [if_pos h1]; intro h; cases h
  rw [if_neg h1]
  by_cases h2 : (ringContainsPoint (.ser s) seg.a allowOnEdge).hit = true
  · rw [if_pos h2]; intro _; exact ⟨seg.a, K.onSeg_left _ _, hmem _ h2⟩
  rw [if_neg h2]
  by_cases h3 : (ringContainsPoint (.ser s) seg.b allowOnEdge).hit = true
  · rw [if_pos h3]; intro _; exact ⟨seg.b, K.onSeg_right _ _, hmem _ h3⟩
  rw [if_neg h3]
  · simp only [decide_eq_true_eq]
    rw [ring_search_eq (.ser s) hidx]
    intro hc
    by_contra hne
    have hno : ∀ i ∈ visit (Ring.ser s).numSegments (Ring.ser s).segmentAt seg.box,
        seg.intersects ((Ring.ser s).segmentAt i) = false := by
      intro i hi
      cases hx : seg.intersects ((Ring.ser s).segmentAt i) with
      | false => rfl
      | true =>
        exfalso
        apply hne
        obtain ⟨p, hp1, hp2⟩ := (segIntersects_iff _ _).1 hx
        exact ⟨p, hp1, inRing_of_onEdge s i (mem_visit.1 hi).1 p hp2⟩
    rw [foldUntil_const _ _ (fun i hi st => by simp only [hno i hi, Bool.false_eq_true, if_false])] at hc
    simp only at hc
    omega

/-- the statement for a closed ring built by `mkSeries` without index -/
theorem ringIntersectsSegment_sound_mk (pts : Array Pt) (seg : Seg)
    (hmem : ∀ p, (ringContainsPoint (.ser (mkSeries pts true .none 0)) p true).hit = true ↔
      Spec.inRing (Spec.edges pts.toList true) p = true) :
    ringIntersectsSegment (.ser (mkSeries pts true .none 0)) seg true = true →
      ∃ p, OnSeg seg.a seg.b p ∧ Spec.inRing (Spec.edges pts.toList true) p = true :=
  ringIntersectsSegment_sound (mkSeries pts true .none 0) (mkSeries_plain pts true 0).1 seg true
    (fun p h => (hmem p).1 h)

end Geo

#print axioms Geo.rect_intersects_rect_iff
#print axioms Geo.rect_intersects_rect_illformed
#print axioms Geo.rect_intersects_symm
#print axioms Geo.lineIntersectsLine_iff
#print axioms Geo.lineIntersectsLine_symm
#print axioms Geo.lineIntersectsLine_iff_mk
#print axioms Geo.point_intersects_iff
#print axioms Geo.point_intersects_rect_spec
#print axioms Geo.geom_intersects_symm_pointrect
#print axioms Geo.geom_intersects_dispatch_symm
#print axioms Geo.geom_intersects_symm_partial
#print axioms Geo.ringIntersectsSegment_sound
#print axioms Geo.ringIntersectsSegment_sound_mk
