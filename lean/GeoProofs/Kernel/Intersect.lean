/-
  GeoProofs.Kernel.Intersect — lemmas about `Seg.intersects` (IntersectsSegment) for C19:
  parametric form of "two closed segments share a point", Cramer's rule both ways, the
  collinear (1-D) case, and the bounding-box cascade.
-/
import GeoProofs.KernelLemmas

namespace Geo
namespace K

/-- parametric form of "the closed segments ab and cd share a point" -/
def MeetP (a b c d : Pt) : Prop :=
  ∃ t u : Rat, 0 ≤ t ∧ t ≤ 1 ∧ 0 ≤ u ∧ u ≤ 1 ∧
    a.x + t * (b.x - a.x) = c.x + u * (d.x - c.x) ∧ a.y + t * (b.y - a.y) = c.y + u * (d.y - c.y)

theorem segsMeet_iff_meetP (a b c d : Pt) : SegsMeet a b c d ↔ MeetP a b c d := by
  constructor
  · rintro ⟨p, h1, h2⟩
    obtain ⟨t, ht0, ht1, hx, hy⟩ := (onSeg_iff_param a b p).1 h1
    obtain ⟨u, hu0, hu1, hx', hy'⟩ := (onSeg_iff_param c d p).1 h2
    exact ⟨t, u, ht0, ht1, hu0, hu1, hx ▸ hx', hy ▸ hy'⟩
  · rintro ⟨t, u, ht0, ht1, hu0, hu1, hx, hy⟩
    exact ⟨⟨a.x + t * (b.x - a.x), a.y + t * (b.y - a.y)⟩,
      onSeg_of_param ht0 ht1 rfl rfl, onSeg_of_param hu0 hu1 hx hy⟩

theorem segsMeet_symm (a b c d : Pt) : SegsMeet a b c d ↔ SegsMeet c d a b := by
  constructor <;> rintro ⟨p, h1, h2⟩ <;> exact ⟨p, h2, h1⟩

theorem segsMeet_of_onSeg_left {a b c d : Pt} (h : OnSeg a b c) : SegsMeet a b c d :=
  ⟨c, h, onSeg_left c d⟩

theorem segsMeet_of_onSeg_right {a b c d : Pt} (h : OnSeg a b d) : SegsMeet a b c d :=
  ⟨d, h, onSeg_right c d⟩

/-! ### the bounding-box cascade -/

theorem axisReject_sound {a b c d v : Rat} (h : axisReject a b c d = true)
    (h1 : min a b ≤ v) (h2 : v ≤ max a b) (h3 : min c d ≤ v) (h4 : v ≤ max c d) : False := by
  unfold axisReject at h
  split_ifs at h with hab hcd hcd <;>
    simp only [Bool.or_eq_true, decide_eq_true_eq, gt_iff_lt, not_lt] at h hab hcd
  · rw [min_eq_right hab.le] at h1; rw [max_eq_left hab.le] at h2
    rw [min_eq_right hcd.le] at h3; rw [max_eq_left hcd.le] at h4
    rcases h with h | h <;> linarith
  · rw [min_eq_right hab.le] at h1; rw [max_eq_left hab.le] at h2
    rw [min_eq_left hcd] at h3; rw [max_eq_right hcd] at h4
    rcases h with h | h <;> linarith
  · rw [min_eq_left hab] at h1; rw [max_eq_right hab] at h2
    rw [min_eq_right hcd.le] at h3; rw [max_eq_left hcd.le] at h4
    rcases h with h | h <;> linarith
  · rw [min_eq_left hab] at h1; rw [max_eq_right hab] at h2
    rw [min_eq_left hcd] at h3; rw [max_eq_right hcd] at h4
    rcases h with h | h <;> linarith

/-! ### points on the line through a ≠ b -/

theorem line_param {a b q : Pt} (hab : a ≠ b) (hc : Spec.cross a b q = 0) :
    ∃ g : Rat, q.x = a.x + g * (b.x - a.x) ∧ q.y = a.y + g * (b.y - a.y) := by
  have hN : (b.x - a.x) * (b.x - a.x) + (b.y - a.y) * (b.y - a.y) ≠ 0 := by
    intro h0
    have h1 : b.x - a.x = 0 := by nlinarith [mul_self_nonneg (b.x - a.x), mul_self_nonneg (b.y - a.y)]
    have h2 : b.y - a.y = 0 := by nlinarith [mul_self_nonneg (b.x - a.x), mul_self_nonneg (b.y - a.y)]
    exact hab ((pt_eq_iff _ _).2 ⟨by linarith, by linarith⟩)
  rw [cross_def] at hc
  generalize hNdef : (b.x - a.x) * (b.x - a.x) + (b.y - a.y) * (b.y - a.y) = N at hN
  refine ⟨((b.x - a.x) * (q.x - a.x) + (b.y - a.y) * (q.y - a.y)) / N, ?_, ?_⟩
  · field_simp
    rw [← hNdef]
    linear_combination (-(b.y - a.y)) * hc
  · field_simp
    rw [← hNdef]
    linear_combination (b.x - a.x) * hc

/-- two segments that share a point, with `c` on the line `ab`: some endpoint lies on the
    other segment (this is the 1-D interval argument) -/
theorem collinear_meet {a b c d : Pt} (hm : MeetP a b c d) (hc : Spec.cross a b c = 0) :
    OnSeg a b c ∨ OnSeg a b d ∨ OnSeg c d a := by
  obtain ⟨t, u, ht0, ht1, hu0, hu1, hx, hy⟩ := hm
  have key : u * ((b.x - a.x) * (d.y - c.y) - (b.y - a.y) * (d.x - c.x)) = 0 := by
    rw [cross_def] at hc
    linear_combination -hc - (b.x - a.x) * hy + (b.y - a.y) * hx
  rcases mul_eq_zero.1 key with hu | hrxs
  · left
    refine onSeg_of_param ht0 ht1 ?_ ?_
    · rw [hu] at hx; linear_combination -hx
    · rw [hu] at hy; linear_combination -hy
  · by_cases hab : a = b
    · right; right
      subst hab
      refine onSeg_of_param hu0 hu1 ?_ ?_
      · linear_combination hx
      · linear_combination hy
    · have hd : Spec.cross a b d = 0 := by
        rw [cross_def] at hc ⊢
        linear_combination hc + hrxs
      obtain ⟨g, hgx, hgy⟩ := line_param hab hc
      obtain ⟨e, hex, hey⟩ := line_param hab hd
      have hr : b.x - a.x ≠ 0 ∨ b.y - a.y ≠ 0 := by
        by_contra hcon
        rw [not_or, not_not, not_not] at hcon
        exact hab ((pt_eq_iff _ _).2 ⟨by linarith [hcon.1], by linarith [hcon.2]⟩)
      have ht : t = g + u * (e - g) := by
        rcases hr with hr | hr
        · apply mul_right_cancel₀ hr
          rw [hgx, hex] at hx
          linear_combination hx
        · apply mul_right_cancel₀ hr
          rw [hgy, hey] at hy
          linear_combination hy
      have hb := between_of_param g e u hu0 hu1
      rw [← ht] at hb
      by_cases hg : 0 ≤ g ∧ g ≤ 1
      · left; exact onSeg_of_param hg.1 hg.2 hgx hgy
      by_cases he : 0 ≤ e ∧ e ≤ 1
      · right; left; exact onSeg_of_param he.1 he.2 hex hey
      right; right
      have hg' : g < 0 ∨ 1 < g := by
        by_contra hcon; rw [not_or, not_lt, not_lt] at hcon; exact hg hcon
      have he' : e < 0 ∨ 1 < e := by
        by_contra hcon; rw [not_or, not_lt, not_lt] at hcon; exact he hcon
      rcases hg' with hg' | hg' <;> rcases he' with he' | he'
      · exact absurd (lt_of_le_of_lt hb.2 (max_lt hg' he')) (not_lt.2 ht0)
      · have hne : g - e ≠ 0 := by intro h0; linarith
        refine onSeg_of_param (t := g / (g - e)) (div_nonneg_of_nonpos hg'.le (by linarith))
          ((div_le_one_of_neg (by linarith)).2 (by linarith)) ?_ ?_
        · rw [hgx, hex]; field_simp; ring
        · rw [hgy, hey]; field_simp; ring
      · have hne : g - e ≠ 0 := by intro h0; linarith
        refine onSeg_of_param (t := g / (g - e)) (div_nonneg (by linarith) (by linarith))
          ((div_le_one (by linarith)).2 (by linarith)) ?_ ?_
        · rw [hgx, hex]; field_simp; ring
        · rw [hgy, hey]; field_simp; ring
      · exact absurd (lt_of_lt_of_le (lt_min hg' he') hb.1) (not_lt.2 ht1)

/-! ### Cramer's rule -/

/-- a common point pins the two parameters: `cmpxs = t * rxs`, `cmpxr = u * rxs` -/
theorem cramer_unique {a b c d : Pt} {t u : Rat}
    (hx : a.x + t * (b.x - a.x) = c.x + u * (d.x - c.x))
    (hy : a.y + t * (b.y - a.y) = c.y + u * (d.y - c.y)) :
    (c.x - a.x) * (d.y - c.y) - (c.y - a.y) * (d.x - c.x)
        = t * ((b.x - a.x) * (d.y - c.y) - (b.y - a.y) * (d.x - c.x)) ∧
    (c.x - a.x) * (b.y - a.y) - (c.y - a.y) * (b.x - a.x)
        = u * ((b.x - a.x) * (d.y - c.y) - (b.y - a.y) * (d.x - c.x)) := by
  constructor
  · linear_combination -(d.y - c.y) * hx + (d.x - c.x) * hy
  · linear_combination -(b.y - a.y) * hx + (b.x - a.x) * hy

/-- the Cramer quotients do give a common point -/
theorem cramer_sound {a b c d : Pt} {rxs : Rat}
    (hdef : rxs = (b.x - a.x) * (d.y - c.y) - (b.y - a.y) * (d.x - c.x)) (hrxs : rxs ≠ 0) :
    a.x + ((c.x - a.x) * (d.y - c.y) - (c.y - a.y) * (d.x - c.x)) / rxs * (b.x - a.x)
      = c.x + ((c.x - a.x) * (b.y - a.y) - (c.y - a.y) * (b.x - a.x)) / rxs * (d.x - c.x) ∧
    a.y + ((c.x - a.x) * (d.y - c.y) - (c.y - a.y) * (d.x - c.x)) / rxs * (b.y - a.y)
      = c.y + ((c.x - a.x) * (b.y - a.y) - (c.y - a.y) * (b.x - a.x)) / rxs * (d.y - c.y) := by
  constructor
  · field_simp
    rw [hdef]; ring
  · field_simp
    rw [hdef]; ring

/-! ### the leaves of `segIntersectsS` -/

theorem bne_decide_le {u v : Rat} (h : (decide (u ≤ 0) != decide (v ≤ 0)) = true) :
    (u ≤ 0 ∧ 0 < v) ∨ (0 < u ∧ v ≤ 0) := by
  by_cases hu : u ≤ 0 <;> by_cases hv : v ≤ 0 <;> simp [hu, hv] at h
  · exact Or.inl ⟨hu, not_le.1 hv⟩
  · exact Or.inr ⟨not_le.1 hu, hv⟩

/-- site 5: `c` on the line `ab` and strictly inside the half-open coordinate range -/
theorem onSeg_of_halfopen {a b c : Pt}
    (hc : (c.x - a.x) * (b.y - a.y) - (c.y - a.y) * (b.x - a.x) = 0)
    (h : ((decide (c.x - a.x ≤ 0) != decide (c.x - b.x ≤ 0)) ||
          (decide (c.y - a.y ≤ 0) != decide (c.y - b.y ≤ 0))) = true) : OnSeg a b c := by
  have hc' : Spec.cross a b c = 0 := by rw [cross_def]; linear_combination -hc
  rw [Bool.or_eq_true] at h
  rcases h with h | h
  · rcases bne_decide_le h with ⟨h1, h2⟩ | ⟨h1, h2⟩
    · have hlt : b.x < a.x := by linarith
      exact onSeg_of_cross_xrange hlt.ne' hc' (by rw [min_eq_right hlt.le]; linarith)
        (by rw [max_eq_left hlt.le]; linarith)
    · have hlt : a.x < b.x := by linarith
      exact onSeg_of_cross_xrange hlt.ne hc' (by rw [min_eq_left hlt.le]; linarith)
        (by rw [max_eq_right hlt.le]; linarith)
  · rcases bne_decide_le h with ⟨h1, h2⟩ | ⟨h1, h2⟩
    · have hlt : b.y < a.y := by linarith
      exact onSeg_of_cross_yrange hlt.ne' hc' (by rw [min_eq_right hlt.le]; linarith)
        (by rw [max_eq_left hlt.le]; linarith)
    · have hlt : a.y < b.y := by linarith
      exact onSeg_of_cross_yrange hlt.ne hc' (by rw [min_eq_left hlt.le]; linarith)
        (by rw [max_eq_right hlt.le]; linarith)

/-- site 4: the three on-tests decide the collinear case -/
theorem collinear_leaf {a b c d : Pt}
    (hc : (c.x - a.x) * (b.y - a.y) - (c.y - a.y) * (b.x - a.x) = 0) :
    ((raycast a b c).on || (raycast a b d).on || (raycast c d a).on) = true ↔ SegsMeet a b c d := by
  have hc' : Spec.cross a b c = 0 := by rw [cross_def]; linear_combination -hc
  rw [Bool.or_eq_true, Bool.or_eq_true, (raycast_good a b c).1, (raycast_good a b d).1,
    (raycast_good c d a).1]
  constructor
  · rintro ((h | h) | h)
    · exact segsMeet_of_onSeg_left h
    · exact segsMeet_of_onSeg_right h
    · exact (segsMeet_symm _ _ _ _).1 (segsMeet_of_onSeg_left h)
  · intro h
    rcases collinear_meet ((segsMeet_iff_meetP _ _ _ _).1 h) hc' with h | h | h
    · exact Or.inl (Or.inl h)
    · exact Or.inl (Or.inr h)
    · exact Or.inr h

/-- site 6: parallel and `c` off the line `ab` -/
theorem parallel_leaf {a b c d : Pt}
    (hc : ¬ (c.x - a.x) * (b.y - a.y) - (c.y - a.y) * (b.x - a.x) = 0)
    (hrxs : (b.x - a.x) * (d.y - c.y) - (b.y - a.y) * (d.x - c.x) = 0) : ¬ SegsMeet a b c d := by
  intro h
  obtain ⟨t, u, -, -, -, -, hx, hy⟩ := (segsMeet_iff_meetP _ _ _ _).1 h
  have := (cramer_unique hx hy).2
  rw [hrxs, mul_zero] at this
  exact hc this

/-- sites 7/8: the t/u test -/
theorem cramer_leaf {a b c d : Pt}
    (hrxs : ¬ (b.x - a.x) * (d.y - c.y) - (b.y - a.y) * (d.x - c.x) = 0) :
    (decide (((c.x - a.x) * (d.y - c.y) - (c.y - a.y) * (d.x - c.x)) /
                ((b.x - a.x) * (d.y - c.y) - (b.y - a.y) * (d.x - c.x)) ≥ 0) &&
      decide (((c.x - a.x) * (d.y - c.y) - (c.y - a.y) * (d.x - c.x)) /
                ((b.x - a.x) * (d.y - c.y) - (b.y - a.y) * (d.x - c.x)) ≤ 1) &&
      decide (((c.x - a.x) * (b.y - a.y) - (c.y - a.y) * (b.x - a.x)) /
                ((b.x - a.x) * (d.y - c.y) - (b.y - a.y) * (d.x - c.x)) ≥ 0) &&
      decide (((c.x - a.x) * (b.y - a.y) - (c.y - a.y) * (b.x - a.x)) /
                ((b.x - a.x) * (d.y - c.y) - (b.y - a.y) * (d.x - c.x)) ≤ 1)) = true
      ↔ SegsMeet a b c d := by
  simp only [Bool.and_eq_true, decide_eq_true_eq, ge_iff_le]
  rw [segsMeet_iff_meetP]
  constructor
  · rintro ⟨⟨⟨ht0, ht1⟩, hu0⟩, hu1⟩
    obtain ⟨hx, hy⟩ := cramer_sound (a := a) (b := b) (c := c) (d := d) rfl hrxs
    exact ⟨_, _, ht0, ht1, hu0, hu1, hx, hy⟩
  · rintro ⟨t, u, ht0, ht1, hu0, hu1, hx, hy⟩
    obtain ⟨e1, e2⟩ := cramer_unique hx hy
    rw [e1, e2, mul_div_assoc, mul_div_assoc, div_self hrxs, mul_one, mul_one]
    exact ⟨⟨⟨ht0, ht1⟩, hu0⟩, hu1⟩

/-! ### the orientation-test specification `Spec.segsMeet` -/

theorem frac_of_opp_sign {x y : Rat} (h : x * y < 0) : 0 ≤ x / (x - y) ∧ x / (x - y) ≤ 1 := by
  rcases lt_trichotomy x 0 with hx | hx | hx
  · have hy : 0 < y := by
      by_contra hcon
      have := mul_nonneg_of_nonpos_of_nonpos hx.le (not_lt.1 hcon)
      linarith
    exact ⟨div_nonneg_of_nonpos hx.le (by linarith), (div_le_one_of_neg (by linarith)).2 (by linarith)⟩
  · rw [hx, zero_mul] at h; exact absurd h (lt_irrefl _)
  · have hy : y < 0 := by
      by_contra hcon
      have := mul_nonneg hx.le (not_lt.1 hcon)
      linarith
    exact ⟨div_nonneg hx.le (by linarith), (div_le_one (by linarith)).2 (by linarith)⟩

/-- a proper crossing (strictly opposite orientations both ways) yields a common point -/
theorem proper_cross_meet {a b c d : Pt}
    (h12 : Spec.cross a b c * Spec.cross a b d < 0) (h34 : Spec.cross c d a * Spec.cross c d b < 0) :
    SegsMeet a b c d := by
  rw [segsMeet_iff_meetP]
  have hE : Spec.cross c d a - Spec.cross c d b
      = (b.x - a.x) * (d.y - c.y) - (b.y - a.y) * (d.x - c.x) := by
    simp only [cross_def]; ring
  have hE' : Spec.cross c d a - Spec.cross c d b = Spec.cross a b d - Spec.cross a b c := by
    simp only [cross_def]; ring
  have hne : Spec.cross c d a - Spec.cross c d b ≠ 0 := by
    intro h0
    rw [h0] at hE'
    have : Spec.cross a b d = Spec.cross a b c := by linarith
    rw [this] at h12
    nlinarith [mul_self_nonneg (Spec.cross a b c)]
  obtain ⟨hx, hy⟩ := cramer_sound (a := a) (b := b) (c := c) (d := d) hE hne
  have e3 : (c.x - a.x) * (d.y - c.y) - (c.y - a.y) * (d.x - c.x) = Spec.cross c d a := by
    simp only [cross_def]; ring
  have e1 : (c.x - a.x) * (b.y - a.y) - (c.y - a.y) * (b.x - a.x) = - Spec.cross a b c := by
    simp only [cross_def]; ring
  have ht := frac_of_opp_sign h34
  have hu := frac_of_opp_sign h12
  have hu' : - Spec.cross a b c / (Spec.cross c d a - Spec.cross c d b)
      = Spec.cross a b c / (Spec.cross a b c - Spec.cross a b d) := by
    rw [hE', ← neg_sub (Spec.cross a b c) (Spec.cross a b d), neg_div_neg_eq]
  refine ⟨_, _, ?_, ?_, ?_, ?_, hx, hy⟩
  · rw [e3]; exact ht.1
  · rw [e3]; exact ht.2
  · rw [e1, hu']; exact hu.1
  · rw [e1, hu']; exact hu.2

/-- a common point is either a proper crossing or an endpoint contact -/
theorem meet_cases {a b c d : Pt} (hm : MeetP a b c d) :
    (Spec.cross a b c * Spec.cross a b d < 0 ∧ Spec.cross c d a * Spec.cross c d b < 0) ∨
      OnSeg a b c ∨ OnSeg a b d ∨ OnSeg c d a ∨ OnSeg c d b := by
  have hm' := hm
  obtain ⟨t, u, ht0, ht1, hu0, hu1, hx, hy⟩ := hm'
  obtain ⟨e1, e2⟩ := cramer_unique hx hy
  generalize hR : (b.x - a.x) * (d.y - c.y) - (b.y - a.y) * (d.x - c.x) = R at e1 e2
  have ho1 : Spec.cross a b c = -(u * R) := by rw [cross_def]; linear_combination -e2
  have ho2 : Spec.cross a b d = (1 - u) * R := by rw [cross_def]; linear_combination -e2 + hR
  have ho3 : Spec.cross c d a = t * R := by rw [cross_def]; linear_combination e1
  have ho4 : Spec.cross c d b = -((1 - t) * R) := by rw [cross_def]; linear_combination e1 - hR
  by_cases hR0 : R = 0
  · have hc : Spec.cross a b c = 0 := by rw [ho1, hR0]; ring
    rcases collinear_meet hm hc with h | h | h
    · exact Or.inr (Or.inl h)
    · exact Or.inr (Or.inr (Or.inl h))
    · exact Or.inr (Or.inr (Or.inr (Or.inl h)))
  by_cases hu0' : u = 0
  · right; left
    refine onSeg_of_param ht0 ht1 ?_ ?_
    · rw [hu0'] at hx; linear_combination -hx
    · rw [hu0'] at hy; linear_combination -hy
  by_cases hu1' : u = 1
  · right; right; left
    refine onSeg_of_param ht0 ht1 ?_ ?_
    · rw [hu1'] at hx; linear_combination -hx
    · rw [hu1'] at hy; linear_combination -hy
  by_cases ht0' : t = 0
  · right; right; right; left
    refine onSeg_of_param hu0 hu1 ?_ ?_
    · rw [ht0'] at hx; linear_combination hx
    · rw [ht0'] at hy; linear_combination hy
  by_cases ht1' : t = 1
  · right; right; right; right
    refine onSeg_of_param hu0 hu1 ?_ ?_
    · rw [ht1'] at hx; linear_combination hx
    · rw [ht1'] at hy; linear_combination hy
  left
  have hRR : 0 < R * R := mul_self_pos.2 hR0
  have hu0s : 0 < u := lt_of_le_of_ne hu0 (Ne.symm hu0')
  have hu1s : 0 < 1 - u := sub_pos.2 (lt_of_le_of_ne hu1 hu1')
  have ht0s : 0 < t := lt_of_le_of_ne ht0 (Ne.symm ht0')
  have ht1s : 0 < 1 - t := sub_pos.2 (lt_of_le_of_ne ht1 ht1')
  constructor
  · rw [ho1, ho2]
    have := mul_pos (mul_pos hu0s hu1s) hRR
    nlinarith
  · rw [ho3, ho4]
    have := mul_pos (mul_pos ht0s ht1s) hRR
    nlinarith

/-! ### convexity, the box -/

theorem onSeg_convex {a b c d p : Pt} (hc : OnSeg a b c) (hd : OnSeg a b d) (hp : OnSeg c d p) :
    OnSeg a b p := by
  obtain ⟨u, hu0, hu1, hx, hy⟩ := (onSeg_iff_param c d p).1 hp
  obtain ⟨hcc, c1, c2, c3, c4⟩ := hc
  obtain ⟨hcd, d1, d2, d3, d4⟩ := hd
  obtain ⟨-, p1, p2, p3, p4⟩ := hp
  refine ⟨?_, ?_, ?_, ?_, ?_⟩
  · rw [cross_def] at hcc hcd ⊢
    rw [hx, hy]
    linear_combination (1 - u) * hcc + u * hcd
  · exact le_trans (le_min c1 d1) p1
  · exact le_trans p2 (max_le c2 d2)
  · exact le_trans (le_min c3 d3) p3
  · exact le_trans p4 (max_le c4 d4)

theorem ite_gt_min (a b : Rat) : (if a > b then b else a) = min a b := by
  split_ifs with h
  · exact (min_eq_right (le_of_lt h)).symm
  · exact (min_eq_left (not_lt.1 h)).symm

theorem ite_gt_max (a b : Rat) : (if a > b then a else b) = max a b := by
  split_ifs with h
  · exact (max_eq_left (le_of_lt h)).symm
  · exact (max_eq_right (not_lt.1 h)).symm

end K
end Geo
