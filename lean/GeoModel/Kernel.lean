/-
  GeoModel.Kernel — model of geometry/raycast.go and geometry/segment.go (after the D1 fix).
  Every function mirrors the Go code branch by branch; `site` fields name the return
  statement that fired (used only for coverage reporting, never by a theorem).
-/
import GeoModel.Num
namespace Geo

structure Pt where
  x : Rat
  y : Rat
deriving DecidableEq, Repr, Inhabited

structure Seg where
  a : Pt
  b : Pt
deriving DecidableEq, Repr, Inhabited

structure Box where
  min : Pt
  max : Pt
deriving DecidableEq, Repr, Inhabited

structure RayRes where
  inn : Bool
  on : Bool
  site : Nat
deriving DecidableEq, Repr, Inhabited

/-! ### Rect (geometry/rect.go) -/

def Box.containsPt (r : Box) (p : Pt) : Bool :=
  decide (p.x ≥ r.min.x) && decide (p.x ≤ r.max.x) && decide (p.y ≥ r.min.y) && decide (p.y ≤ r.max.y)

def Box.containsBox (r o : Box) : Bool :=
  if o.min.x < r.min.x || o.max.x > r.max.x then false
  else if o.min.y < r.min.y || o.max.y > r.max.y then false
  else true

def Box.intersects (r o : Box) : Bool :=
  if r.min.y > o.max.y || r.max.y < o.min.y then false
  else if r.min.x > o.max.x || r.max.x < o.min.x then false
  else true

def Box.area (r : Box) : Rat := (r.max.x - r.min.x) * (r.max.y - r.min.y)

def Box.center (r : Box) : Pt := ⟨(r.max.x + r.min.x) / 2, (r.max.y + r.min.y) / 2⟩

def Pt.box (p : Pt) : Box := ⟨p, p⟩

/-! ### Segment.Rect -/

def Seg.box (s : Seg) : Box :=
  let minx := if s.a.x > s.b.x then s.b.x else s.a.x
  let maxx := if s.a.x > s.b.x then s.a.x else s.b.x
  let miny := if s.a.y > s.b.y then s.b.y else s.a.y
  let maxy := if s.a.y > s.b.y then s.a.y else s.b.y
  ⟨⟨minx, miny⟩, ⟨maxx, maxy⟩⟩

/-! ### Raycast, staged as the code's early returns -/

/-- stage 1: the point is outside the segment's y-range (strictly sloped segments only). -/
def rcRange (a b p : Pt) : Option RayRes :=
  if a.y < b.y && (p.y < a.y || p.y > b.y) then some ⟨false, false, 1⟩
  else if a.y > b.y && (p.y < b.y || p.y > a.y) then some ⟨false, false, 2⟩
  else none

/-- stage 2: `a.Y == b.Y` block (degenerate and horizontal segments). -/
def rcHoriz (a b p : Pt) : Option RayRes :=
  if a.y = b.y then
    if a.x = b.x then
      if p = a then some ⟨false, true, 3⟩ else some ⟨false, false, 4⟩
    else if p.y = b.y then
      if a.x < b.x then
        if p.x ≥ a.x && p.x ≤ b.x then some ⟨false, true, 5⟩ else none
      else
        if p.x ≥ b.x && p.x ≤ a.x then some ⟨false, true, 6⟩ else none
    else none
  else none

/-- stage 3: vertical segment with the point on its line. -/
def rcVert (a b p : Pt) : Option RayRes :=
  if a.x = b.x && p.x = b.x then
    if a.y < b.y then
      if p.y ≥ a.y && p.y ≤ b.y then some ⟨false, true, 7⟩ else none
    else
      if p.y ≥ b.y && p.y ≤ a.y then some ⟨false, true, 8⟩ else none
  else none

/-- stage 4: the slope-equality test `(p.X-a.X)/(b.X-a.X) == (p.Y-a.Y)/(b.Y-a.Y)`. -/
def rcSlopeEq (a b p : Pt) : Option RayRes :=
  if (fdiv (p.x - a.x) (b.x - a.x)).feq (fdiv (p.y - a.y) (b.y - a.y)) then some ⟨false, true, 9⟩
  else none

/-- stage 5: the cast proper.  `nudged` models the `Nextafter` loop symbolically: the
    ordinate becomes `p.y + ε`, so `p.y' < v ↔ p.y < v` and `p.y' > v ↔ p.y ≥ v`. -/
def rcCast (a b p : Pt) : RayRes :=
  let nudged : Bool := decide (p.y = a.y) || decide (p.y = b.y)
  let gtN (v : Rat) : Bool := if nudged then decide (p.y ≥ v) else decide (p.y > v)
  let ltN (v : Rat) : Bool := decide (p.y < v)
  let rangeOut : Bool :=
    if a.y < b.y then ltN a.y || gtN b.y else ltN b.y || gtN a.y
  if rangeOut then ⟨false, false, 10⟩
  else
    -- x tests
    let xres : Option RayRes :=
      if a.x > b.x then
        if p.x ≥ a.x then some ⟨false, false, 11⟩
        else if p.x ≤ b.x then some ⟨true, false, 12⟩
        else none
      else
        if p.x ≥ b.x then some ⟨false, false, 13⟩
        else if p.x ≤ a.x then some ⟨true, false, 14⟩
        else none
    match xres with
    | some r => r
    | none =>
      -- the nudged numerator is `ε` or exact; comparing with the exact ordinate under `>=`
      -- gives the same verdict (DESIGN §3): `0 ≥ slope ↔ ε/Δ ≥ slope` for a non-zero slope.
      if a.y < b.y then
        if (fdiv (p.y - a.y) (p.x - a.x)).fge (fdiv (b.y - a.y) (b.x - a.x)) then ⟨true, false, 15⟩
        else ⟨false, false, 17⟩
      else
        if (fdiv (p.y - b.y) (p.x - b.x)).fge (fdiv (a.y - b.y) (a.x - b.x)) then ⟨true, false, 16⟩
        else ⟨false, false, 17⟩

def raycast (a b p : Pt) : RayRes :=
  match rcRange a b p with
  | some r => r
  | none =>
    match rcHoriz a b p with
    | some r => r
    | none =>
      match rcVert a b p with
      | some r => r
      | none =>
        match rcSlopeEq a b p with
        | some r => r
        | none => rcCast a b p

def Seg.raycast (s : Seg) (p : Pt) : RayRes := Geo.raycast s.a s.b p

def Seg.containsPt (s : Seg) (p : Pt) : Bool := (s.raycast p).on

def Seg.containsSeg (s o : Seg) : Bool := (s.raycast o.a).on && (s.raycast o.b).on

def Seg.collinearPt (s : Seg) (p : Pt) : Bool :=
  let cmpx := p.x - s.a.x
  let cmpy := p.y - s.a.y
  let rx := s.b.x - s.a.x
  let ry := s.b.y - s.a.y
  decide (cmpx * ry - cmpy * rx = 0)

/-- bounding-box cascade of IntersectsSegment on one axis: `true` = reject. -/
def axisReject (a b c d : Rat) : Bool :=
  if a > b then
    if c > d then decide (b > c) || decide (a < d)
    else decide (b > d) || decide (a < c)
  else
    if c > d then decide (a > c) || decide (b < d)
    else decide (a > d) || decide (b < c)

structure BoolSite where
  val : Bool
  site : Nat
deriving DecidableEq, Repr, Inhabited

def segIntersectsS (s o : Seg) : BoolSite :=
  let a := s.a; let b := s.b; let c := o.a; let d := o.b
  if axisReject a.y b.y c.y d.y then ⟨false, 1⟩
  else if axisReject a.x b.x c.x d.x then ⟨false, 2⟩
  else if a = c || a = d || b = c || b = d then ⟨true, 3⟩
  else
    let cmpx := c.x - a.x; let cmpy := c.y - a.y
    let rx := b.x - a.x; let ry := b.y - a.y
    let cmpxr := cmpx * ry - cmpy * rx
    if cmpxr = 0 then
      if !(((decide (c.x - a.x ≤ 0)) != (decide (c.x - b.x ≤ 0))) ||
           ((decide (c.y - a.y ≤ 0)) != (decide (c.y - b.y ≤ 0)))) then
        ⟨(s.raycast c).on || (s.raycast d).on || (o.raycast a).on, 4⟩
      else ⟨true, 5⟩
    else
      let sx := d.x - c.x; let sy := d.y - c.y
      let cmpxs := cmpx * sy - cmpy * sx
      let rxs := rx * sy - ry * sx
      if rxs = 0 then ⟨false, 6⟩
      else
        -- rxsr := 1 / rxs; t := cmpxs * rxsr; u := cmpxr * rxsr   (exact quotients)
        let t := cmpxs / rxs
        let u := cmpxr / rxs
        if !(decide (t ≥ 0) && decide (t ≤ 1) && decide (u ≥ 0) && decide (u ≤ 1)) then ⟨false, 7⟩
        else ⟨true, 8⟩

def Seg.intersects (s o : Seg) : Bool := (segIntersectsS s o).val

end Geo
