/-
  GeoProofs.GeomLemmas — helper lemmas for properties C02 / C03 / C12 about the geometry layer
  of GeoModel.Geom, for UN-INDEXED series (`index = none`), where `Series.search` is the
  brute-force filter (the lift to indexed series is the index-exactness theorem, elsewhere).

  PROVED here (namespace `Geo.GL`):
  * `foldUntil` over a guarded callback = `foldUntil` over the filtered list; the "any" fold;
  * `Series.search` / `Ring.search` / `Ring.searchAny` of an un-indexed ring in closed form;
  * rectangle predicates as inequalities, convexity of a box (`onSeg_in_box`), a point of a
    segment lies in the segment's box;
  * every vertex / every segment box of a series lies in the rectangle of `processPoints`
    (from C18 `rect_tight`, `bboxSpec_tight`); `numSegments = 0 ↔ empty`;
  * an edge `segmentAt i` is an element of `Spec.edges` (from C18 `segmentAt_spec`);
  * segments of a series rebuilt from mapped points (injective map); `Line.containsPoint` is
    exact (`line_containsPoint_iff`); `Line.intersectsLine` is exact (`line_meet_iff`);
  * one step of the `Line.ContainsLine` walk either returns, advances `i`, or moves `segIdx`
    strictly in its current direction (`walkStep_spec`); hence the walk returns within
    `k·(n+1) + rank + 1` steps (`walk_isSome`).
  NOT proved here: anything about crossing parity (point-in-ring), which is C01.
-/
import GeoProofs.Props.C18
import GeoProofs.Props.C19
import Mathlib.Tactic.Linarith
import Mathlib.Tactic.SplitIfs
import Mathlib.Algebra.Order.Field.Rat

namespace Geo
namespace GL

/-! ### foldUntil -/

theorem foldUntil_filter {σ β : Type} (c : β → Bool) (f : σ → β → σ × Bool) (s : σ) (l : List β) :
    foldUntil (fun s x => if c x then f s x else (s, true)) s l = foldUntil f s (l.filter c) := by
  induction l generalizing s with
  | nil => rfl
  | cons x l ih =>
    simp only [foldUntil, List.filter_cons]
    cases h : c x
    · simp [ih]
    · simp only [if_true, foldUntil]
      rcases f s x with ⟨s', cont⟩
      cases cont <;> simp [ih]

theorem foldUntil_any {β : Type} (pred : β → Bool) (b : Bool) (l : List β) :
    (foldUntil (fun (st : Bool) x => if pred x then (true, false) else (st, true)) b l).1
      = (b || l.any pred) := by
  induction l generalizing b with
  | nil => simp [foldUntil]
  | cons x l ih =>
    simp only [foldUntil, List.any_cons]
    cases h : pred x
    · simp [ih]
    · simp

/-- a callback that leaves the state alone on every element of the list: so does the fold -/
theorem foldUntil_const {σ β : Type} (F : σ → β → σ × Bool) (l : List β)
    (h : ∀ i ∈ l, ∀ st, (F st i).1 = st) (st : σ) : (foldUntil F st l).1 = st := by
  induction l generalizing st with
  | nil => rfl
  | cons i l ih =>
    simp only [foldUntil]
    have h1 := h i (by simp) st
    rcases hF : F st i with ⟨s', c⟩
    rw [hF] at h1
    simp only at h1
    subst h1
    cases c
    · rfl
    · exact ih (fun j hj => h j (by simp [hj])) _

/-! ### un-indexed search -/

theorem rat_lt_def (a b : Rat) : Carrier.lt a b = decide (a < b) := rfl

theorem box_intersects_eq_meets (r o : Box) : r.intersects o = r.g.meets o.g := by
  unfold Box.intersects GBox.meets Box.g
  simp only [rat_lt_def, gt_iff_lt]

/-- the visit list of a brute-force search -/
def visit (numSegments : Nat) (segmentAt : Nat → Seg) (q : Box) : List Nat :=
  (List.range numSegments).filter (fun i => (segmentAt i).box.intersects q)

theorem series_search_none (s : Series) (hidx : s.index = none) (q : Box)
    {σ : Type} (f : σ → Seg → Nat → σ × Bool) (st : σ) :
    s.search q f st = .ok (foldUntil (fun st i => f st (s.segmentAt i) i) st
      (visit s.numSegments s.segmentAt q)).1 := by
  unfold Series.search visitItems visit
  simp only [hidx]
  rw [foldUntil_filter]
  simp only [box_intersects_eq_meets]

/-- a ring without index: a `Rect`, or a series whose index is `nil` -/
def Unindexed : Ring → Prop
  | .ser s => s.index = none
  | .bx _ => True

theorem ring_search_eq (r : Ring) (h : Unindexed r) (q : Box)
    {σ : Type} (f : σ → Seg → Nat → σ × Bool) (st : σ) :
    r.search q f st = (foldUntil (fun st i => f st (r.segmentAt i) i) st
      (visit r.numSegments r.segmentAt q)).1 := by
  cases r with
  | ser s =>
    unfold Ring.search
    simp only [series_search_none s h, Outcome.get]
    rfl
  | bx b =>
    unfold Ring.search visit
    simp only [Ring.numSegments, Ring.segmentAt]
    rw [foldUntil_filter (fun i => (b.segmentAt i).box.intersects q)
      (fun st i => f st (b.segmentAt i) i)]
    rfl

theorem ring_searchAny_eq (r : Ring) (h : Unindexed r) (q : Box) (pred : Seg → Nat → Bool) :
    r.searchAny q pred = (visit r.numSegments r.segmentAt q).any (fun i => pred (r.segmentAt i) i) := by
  unfold Ring.searchAny
  rw [ring_search_eq r h, foldUntil_any (fun i => pred (r.segmentAt i) i)]
  simp

theorem mem_visit {n : Nat} {segAt : Nat → Seg} {q : Box} {i : Nat} :
    i ∈ visit n segAt q ↔ i < n ∧ (segAt i).box.intersects q = true := by
  unfold visit
  simp [List.mem_filter]

theorem ring_searchAny_iff (r : Ring) (h : Unindexed r) (q : Box) (pred : Seg → Nat → Bool) :
    r.searchAny q pred = true ↔
      ∃ i, i < r.numSegments ∧ (r.segmentAt i).box.intersects q = true ∧ pred (r.segmentAt i) i = true := by
  rw [ring_searchAny_eq r h, List.any_eq_true]
  constructor
  · rintro ⟨i, hi, hp⟩
    exact ⟨i, (mem_visit.1 hi).1, (mem_visit.1 hi).2, hp⟩
  · rintro ⟨i, h1, h2, h3⟩
    exact ⟨i, mem_visit.2 ⟨h1, h2⟩, h3⟩

/-! ### rectangles as inequalities -/

theorem containsPt_iff (r : Box) (p : Pt) :
    r.containsPt p = true ↔ r.min.x ≤ p.x ∧ p.x ≤ r.max.x ∧ r.min.y ≤ p.y ∧ p.y ≤ r.max.y := by
  unfold Box.containsPt
  simp only [Bool.and_eq_true, decide_eq_true_eq, ge_iff_le, and_assoc]

theorem intersects_iff (r o : Box) :
    r.intersects o = true ↔
      r.min.y ≤ o.max.y ∧ o.min.y ≤ r.max.y ∧ r.min.x ≤ o.max.x ∧ o.min.x ≤ r.max.x := by
  unfold Box.intersects
  split_ifs with h1 h2
  · simp only [Bool.or_eq_true, decide_eq_true_eq, gt_iff_lt] at h1
    refine iff_of_false (by simp) ?_
    rintro ⟨a, b, -, -⟩
    rcases h1 with h | h <;> linarith
  · simp only [Bool.or_eq_true, decide_eq_true_eq, gt_iff_lt] at h2
    refine iff_of_false (by simp) ?_
    rintro ⟨-, -, a, b⟩
    rcases h2 with h | h <;> linarith
  · simp only [Bool.or_eq_true, decide_eq_true_eq, gt_iff_lt, not_or, not_lt] at h1 h2
    exact iff_of_true rfl ⟨h1.1, h1.2, h2.1, h2.2⟩

theorem containsBox_iff (r o : Box) :
    r.containsBox o = true ↔
      r.min.x ≤ o.min.x ∧ o.max.x ≤ r.max.x ∧ r.min.y ≤ o.min.y ∧ o.max.y ≤ r.max.y := by
  unfold Box.containsBox
  split_ifs with h1 h2
  · simp only [Bool.or_eq_true, decide_eq_true_eq, gt_iff_lt] at h1
    refine iff_of_false (by simp) ?_
    rintro ⟨a, b, -, -⟩
    rcases h1 with h | h <;> linarith
  · simp only [Bool.or_eq_true, decide_eq_true_eq, gt_iff_lt] at h2
    refine iff_of_false (by simp) ?_
    rintro ⟨-, -, a, b⟩
    rcases h2 with h | h <;> linarith
  · simp only [Bool.or_eq_true, decide_eq_true_eq, gt_iff_lt, not_or, not_lt] at h1 h2
    exact iff_of_true rfl ⟨h1.1, h1.2, h2.1, h2.2⟩

/-- a box is convex -/
theorem onSeg_in_box (r : Box) (a b p : Pt) (ha : r.containsPt a = true) (hb : r.containsPt b = true)
    (hp : OnSeg a b p) : r.containsPt p = true := by
  rw [containsPt_iff] at ha hb ⊢
  obtain ⟨-, h1, h2, h3, h4⟩ := hp
  obtain ⟨a1, a2, a3, a4⟩ := ha
  obtain ⟨b1, b2, b3, b4⟩ := hb
  exact ⟨le_trans (le_min a1 b1) h1, le_trans h2 (max_le a2 b2),
    le_trans (le_min a3 b3) h3, le_trans h4 (max_le a4 b4)⟩

/-- a point of a segment lies in the segment's rectangle -/
theorem onSeg_in_segBox (s : Seg) (p : Pt) (hp : OnSeg s.a s.b p) : s.box.containsPt p = true := by
  rw [containsPt_iff, segBox_tight]
  exact hp.2

/-- two boxes with a common point intersect -/
theorem intersects_of_common (r o : Box) (p : Pt) (h1 : r.containsPt p = true)
    (h2 : o.containsPt p = true) : r.intersects o = true := by
  rw [containsPt_iff] at h1 h2
  rw [intersects_iff]
  obtain ⟨a1, a2, a3, a4⟩ := h1
  obtain ⟨b1, b2, b3, b4⟩ := h2
  exact ⟨le_trans a3 b4, le_trans b3 a4, le_trans a1 b2, le_trans b1 a2⟩

theorem segBoxes_intersect_of_meet {s t : Seg} (h : SegsMeet s.a s.b t.a t.b) :
    t.box.intersects s.box = true := by
  obtain ⟨p, h1, h2⟩ := h
  exact intersects_of_common _ _ p (onSeg_in_segBox t p h2) (onSeg_in_segBox s p h1)

/-! ### vertices and segment boxes lie in the series rectangle -/

theorem numSegmentsOf_le (pts : Array Pt) (closed : Bool) : numSegmentsOf pts closed ≤ pts.size := by
  unfold numSegmentsOf
  split_ifs <;> omega

theorem numSegmentsOf_eq_zero_iff (pts : Array Pt) (closed : Bool) :
    numSegmentsOf pts closed = 0 ↔ ((closed && pts.size < 3) || pts.size < 2) = true := by
  unfold numSegmentsOf
  cases closed
  · simp only [Bool.false_eq_true, if_false, Bool.false_and, Bool.false_or, decide_eq_true_eq]
    split_ifs <;> omega
  · simp only [if_true, Bool.true_and, Bool.or_eq_true, decide_eq_true_eq]
    split_ifs <;> omega

theorem numSegments_eq_zero_iff (s : Series) : s.numSegments = 0 ↔ s.empty = true :=
  numSegmentsOf_eq_zero_iff s.pts s.closed

theorem segmentAt_mem (pts : Array Pt) (closed : Bool) (i : Nat) (hi : i < numSegmentsOf pts closed) :
    (segmentAtOf pts i).a ∈ pts.toList ∧ (segmentAtOf pts i).b ∈ pts.toList := by
  have hle := numSegmentsOf_le pts closed
  have hi' : i < pts.size := by omega
  unfold segmentAtOf
  simp only
  refine ⟨?_, ?_⟩
  · rw [getElem!_pos pts i hi']
    exact Array.getElem_mem_toList hi'
  · split_ifs with h
    · rw [getElem!_pos pts 0 (by omega)]
      exact Array.getElem_mem_toList (by omega)
    · have h1 : i ≠ pts.size - 1 := by simpa using h
      have h2 : i + 1 < pts.size := by omega
      rw [getElem!_pos pts (i+1) h2]
      exact Array.getElem_mem_toList h2

theorem mem_rect (pts : Array Pt) (closed : Bool)
    (h : ¬ ((closed && pts.size < 3) || pts.size < 2)) (p : Pt) (hp : p ∈ pts.toList) :
    (processPoints pts closed).rect.containsPt p = true := by
  rw [containsPt_iff]
  exact (bboxSpec_tight pts.toList _ (rect_tight pts closed h).symm).1 p hp

/-- "un-indexed, with the rectangle computed by `processPoints`": every series built by
    `mkSeries … .none _` or `mkSeries … _ 0` -/
def Plain (s : Series) : Prop := s.index = none ∧ s.rect = (processPoints s.pts s.closed).rect

theorem mkSeries_plain (pts : Array Pt) (closed : Bool) (m : Nat) :
    Plain (mkSeries pts closed .none m) := by
  unfold Plain mkSeries buildIndexBytes
  simp

theorem mkSeries_plain0 (pts : Array Pt) (closed : Bool) (kind : IndexKind) :
    Plain (mkSeries pts closed kind 0) := by
  unfold Plain mkSeries
  simp

theorem vertex_in_rect (s : Series) (hs : Plain s) (he : s.empty = false) (p : Pt)
    (hp : p ∈ s.pts.toList) : s.rect.containsPt p = true := by
  rw [hs.2]
  exact mem_rect s.pts s.closed (by unfold Series.empty at he; simp [he]) p hp

theorem segEnds_in_rect (s : Series) (hs : Plain s) (i : Nat) (hi : i < s.numSegments) :
    s.rect.containsPt (s.segmentAt i).a = true ∧ s.rect.containsPt (s.segmentAt i).b = true := by
  have he : s.empty = false := by
    cases h : s.empty with
    | false => rfl
    | true => rw [(numSegments_eq_zero_iff s).2 h] at hi; omega
  obtain ⟨ha, hb⟩ := segmentAt_mem s.pts s.closed i hi
  exact ⟨vertex_in_rect s hs he _ ha, vertex_in_rect s hs he _ hb⟩

/-- every point of every segment lies in the series rectangle -/
theorem onSeg_in_rect (s : Series) (hs : Plain s) (i : Nat) (hi : i < s.numSegments) (p : Pt)
    (hp : OnSeg (s.segmentAt i).a (s.segmentAt i).b p) : s.rect.containsPt p = true :=
  onSeg_in_box _ _ _ _ (segEnds_in_rect s hs i hi).1 (segEnds_in_rect s hs i hi).2 hp

/-! ### edges of the specification -/

theorem segmentAt_mem_edges (pts : Array Pt) (closed : Bool) (i : Nat)
    (h : i < numSegmentsOf pts closed) :
    ((segmentAtOf pts i).a, (segmentAtOf pts i).b) ∈ Spec.edges pts.toList closed :=
  List.mem_of_getElem? (segmentAt_spec pts closed i h)

theorem edges_mem_segmentAt (pts : Array Pt) (closed : Bool) (e : Pt × Pt)
    (h : e ∈ Spec.edges pts.toList closed) :
    ∃ i, i < numSegmentsOf pts closed ∧ e = ((segmentAtOf pts i).a, (segmentAtOf pts i).b) := by
  obtain ⟨i, hi, rfl⟩ := List.getElem_of_mem h
  rw [← numSegments_spec] at hi
  refine ⟨i, hi, ?_⟩
  have := segmentAt_spec pts closed i hi
  rw [List.getElem?_eq_getElem (by rw [← numSegments_spec]; exact hi)] at this
  exact Option.some.inj this

/-- a point on an edge of the ring is in the closed region -/
theorem inRing_of_onEdge (s : Series) (i : Nat) (hi : i < s.numSegments) (p : Pt)
    (hp : OnSeg (s.segmentAt i).a (s.segmentAt i).b p) :
    Spec.inRing (Spec.edges s.pts.toList s.closed) p = true := by
  unfold Spec.inRing Spec.onBoundary
  rw [Bool.or_eq_true]
  left
  rw [List.any_eq_true]
  exact ⟨_, segmentAt_mem_edges s.pts s.closed i hi, (spec_onSeg_iff _ _ _).2 hp⟩


/-! ### series rebuilt from mapped points; point on a line string -/

theorem getElem!_map (T : Pt → Pt) (pts : Array Pt) (j : Nat) (hj : j < pts.size) :
    (pts.map T)[j]! = T pts[j]! := by
  rw [getElem!_pos _ j (by simpa using hj), getElem!_pos _ j hj, Array.getElem_map]

theorem numSegmentsOf_map (T : Pt → Pt) (hT : Function.Injective T) (pts : Array Pt) (closed : Bool) :
    numSegmentsOf (pts.map T) closed = numSegmentsOf pts closed := by
  unfold numSegmentsOf
  simp only [Array.size_map]
  by_cases h3 : pts.size < 3
  · simp only [h3, if_true]
  · simp only [h3, if_false]
    rw [getElem!_map T pts _ (by omega), getElem!_map T pts 0 (by omega)]
    have : (T pts[pts.size - 1]! == T pts[0]!) = (pts[pts.size - 1]! == pts[0]!) := by
      rw [Bool.eq_iff_iff, beq_iff_eq, beq_iff_eq, hT.eq_iff]
    rw [this]

theorem segmentAtOf_map (T : Pt → Pt) (pts : Array Pt) (closed : Bool) (i : Nat)
    (hi : i < numSegmentsOf pts closed) :
    segmentAtOf (pts.map T) i = ⟨T (segmentAtOf pts i).a, T (segmentAtOf pts i).b⟩ := by
  have hle := numSegmentsOf_le pts closed
  unfold segmentAtOf
  simp only [Array.size_map]
  rw [getElem!_map T pts i (by omega)]
  split_ifs with h
  · rw [getElem!_map T pts 0 (by omega)]
  · have : i ≠ pts.size - 1 := by simpa using h
    rw [getElem!_map T pts (i+1) (by omega)]

/-- point on an un-indexed line string: exact -/
theorem line_containsPoint_iff (l : Line) (hidx : l.index = none) (p : Pt) :
    l.containsPoint p = true ↔
      ∃ i, i < l.numSegments ∧ OnSeg (l.segmentAt i).a (l.segmentAt i).b p := by
  have e : l.containsPoint p = (Ring.ser l).searchAny p.box (fun seg _ => (seg.raycast p).on) := rfl
  rw [e, ring_searchAny_iff (.ser l) hidx]
  constructor
  · rintro ⟨i, hi, -, hon⟩
    exact ⟨i, hi, (raycast_on_iff _ _ _).1 hon⟩
  · rintro ⟨i, hi, hon⟩
    refine ⟨i, hi, ?_, (raycast_on_iff _ _ _).2 hon⟩
    apply intersects_of_common _ _ p (onSeg_in_segBox _ p hon)
    rw [containsPt_iff]
    exact ⟨le_refl _, le_refl _, le_refl _, le_refl _⟩

/-! ### line × line -/

/-- the nested any-loop of `Line.intersectsLine` -/
theorem anyMeet_iff (l m : Line) (hm : m.index = none) :
    (List.range l.numSegments).any (fun i =>
      (Ring.ser m).searchAny (l.segmentAt i).box (fun segB _ => (l.segmentAt i).intersects segB)) = true ↔
    ∃ i, i < l.numSegments ∧ ∃ j, j < m.numSegments ∧
      SegsMeet (l.segmentAt i).a (l.segmentAt i).b (m.segmentAt j).a (m.segmentAt j).b := by
  rw [List.any_eq_true]
  constructor
  · rintro ⟨i, hi, h⟩
    rw [ring_searchAny_iff (.ser m) hm] at h
    obtain ⟨j, hj, -, hp⟩ := h
    exact ⟨i, List.mem_range.1 hi, j, hj, (segIntersects_iff _ _).1 hp⟩
  · rintro ⟨i, hi, j, hj, h⟩
    refine ⟨i, List.mem_range.2 hi, ?_⟩
    rw [ring_searchAny_iff (.ser m) hm]
    exact ⟨j, hj, segBoxes_intersect_of_meet h, (segIntersects_iff _ _).2 h⟩

theorem line_meet_iff (l m : Line) (hl : Plain l) (hm : Plain m) :
    l.intersectsLine m = true ↔
      ∃ i, i < l.numSegments ∧ ∃ j, j < m.numSegments ∧
        SegsMeet (l.segmentAt i).a (l.segmentAt i).b (m.segmentAt j).a (m.segmentAt j).b := by
  unfold Line.intersectsLine
  split_ifs with h1 h2 hn
  · -- one of the two is empty: no segment
    refine iff_of_false (by simp) ?_
    rintro ⟨i, hi, j, hj, -⟩
    simp only [Bool.or_eq_true] at h1
    rcases h1 with h | h
    · rw [(numSegments_eq_zero_iff l).2 h] at hi; omega
    · rw [(numSegments_eq_zero_iff m).2 h] at hj; omega
  · -- disjoint rectangles: a common point would lie in both
    refine iff_of_false (by simp) ?_
    rintro ⟨i, hi, j, hj, p, hp1, hp2⟩
    have := intersects_of_common _ _ p (onSeg_in_rect l hl i hi p hp1) (onSeg_in_rect m hm j hj p hp2)
    simp [this] at h2
  · simp only
    rw [anyMeet_iff m l hl.1]
    constructor
    · rintro ⟨j, hj, i, hi, h⟩
      exact ⟨i, hi, j, hj, (K.segsMeet_symm _ _ _ _).1 h⟩
    · rintro ⟨i, hi, j, hj, h⟩
      exact ⟨j, hj, i, hi, (K.segsMeet_symm _ _ _ _).1 h⟩
  · exact anyMeet_iff l m hm.1

/-! ### the `Line.ContainsLine` walk: one step, and termination within the fuel -/

/-- steps the walk can still make in its current direction without advancing `i` -/
def walkRank (n : Nat) (st : WalkSt) : Nat :=
  if st.dir = -1 then st.segIdx else if st.dir = 1 then n - 1 - st.segIdx else n

theorem walkStep_spec (line other : Line) (n : Nat) (st : WalkSt) (hs : st.segIdx < n) :
    (∃ b, (walkStep line other n st).2 = some b) ∨
    ((walkStep line other n st).2 = none ∧
      (((walkStep line other n st).1.i = st.i + 1 ∧ (walkStep line other n st).1.dir = 0 ∧
          (walkStep line other n st).1.segIdx = st.segIdx) ∨
       ((walkStep line other n st).1.i = st.i ∧ (walkStep line other n st).1.segIdx < n ∧
          walkRank n (walkStep line other n st).1 < walkRank n st))) := by
  unfold walkStep
  simp only
  split_ifs with h1 h2 h3 h4 h5
  · exact Or.inr ⟨rfl, Or.inl ⟨rfl, rfl, rfl⟩⟩
  · exact Or.inl ⟨_, rfl⟩
  · refine Or.inr ⟨rfl, Or.inr ⟨rfl, ?_, ?_⟩⟩
    · simp only; omega
    · simp only [Bool.or_eq_true, beq_iff_eq, not_or] at h3
      unfold walkRank
      simp only [if_true]
      split_ifs <;> omega
  · exact Or.inl ⟨_, rfl⟩
  · simp only [Bool.or_eq_true, beq_iff_eq, not_or] at h5
    refine Or.inr ⟨rfl, Or.inr ⟨rfl, ?_, ?_⟩⟩
    · simp only; omega
    · unfold walkRank
      simp only [show ((1 : Int) = -1) = False from eq_false (by decide), if_false, if_true]
      split_ifs <;> omega
  · exact Or.inr ⟨rfl, Or.inl ⟨rfl, rfl, rfl⟩⟩

theorem walk_isSome (line other : Line) (n m : Nat) :
    ∀ (fuel k : Nat) (st : WalkSt), st.segIdx < n → m ≤ st.i + k →
      k * (n + 1) + walkRank n st + 1 ≤ fuel → (walk line other n m fuel st).isSome = true := by
  intro fuel
  induction fuel with
  | zero => intro k st _ _ h; omega
  | succ fuel ih =>
    intro k st hs hk hf
    rw [walk]
    split_ifs with hi
    · rcases walkStep_spec line other n st hs with ⟨b, hb⟩ | ⟨hnone, hcase⟩
      · rcases hw : walkStep line other n st with ⟨st', r⟩
        rw [hw] at hb
        simp only at hb
        subst hb
        rfl
      · rcases hw : walkStep line other n st with ⟨st', r⟩
        rw [hw] at hnone hcase
        simp only at hnone hcase
        subst hnone
        simp only
        rcases hcase with ⟨e1, e2, e3⟩ | ⟨e1, e2, e3⟩
        · obtain ⟨k', rfl⟩ : ∃ k', k = k' + 1 := ⟨k - 1, by omega⟩
          apply ih k' st' (by omega) (by omega)
          have hr : walkRank n st' = n := by
            unfold walkRank; rw [e2]; simp
          rw [hr]
          rw [Nat.succ_mul] at hf
          omega
        · apply ih k st' e2 (by omega)
          omega
    · rfl


end GL
end Geo
