/-
  GeoProofs.IndexIndep.Count — the counting fold of `ringIntersectsSegmentS`.

  Each visited ring segment is classified against the query segment: 0 = does not count
  (no intersection, or — exclusive reading — collinear), 1 = touches the query's `a` end only,
  2 = touches the `b` end only, 3 = a plain hit.  The first class-1 and the first class-2 segment
  are "free"; everything else increments the counter; the search stops once the counter is 2.
  A segment cannot be of class 1 and class 2 at once (it would be collinear with the query), so
  the final verdict `count ≥ 2` is a function of the NUMBER of visited segments of each class:
  permutation invariant.
-/
import GeoProofs.IndexIndep.Basic

namespace Geo

/-- the callback of `ringIntersectsSegmentS` -/
def riStep (seg : Seg) (allowOnEdge : Bool) (st : RISt) (seg2 : Seg) : RISt × Bool :=
  if seg.intersects seg2 then
    if !allowOnEdge then
      if !(seg.collinearPt seg2.a && seg.collinearPt seg2.b) then
        if !st.segAOn && (seg.a = seg2.a || seg.a = seg2.b) then
          ({ st with segAOn := true }, true)
        else if !st.segBOn && (seg.b = seg2.a || seg.b = seg2.b) then
          ({ st with segBOn := true }, true)
        else
          let st' := { st with count := st.count + 1 }
          (st', st'.count < 2)
      else (st, st.count < 2)
    else
      let st' := { st with count := st.count + 1 }
      (st', st'.count < 2)
  else (st, st.count < 2)

theorem ringIntersectsSegmentS_eq (ring : Ring) (seg : Seg) (allowOnEdge : Bool) :
    ringIntersectsSegmentS ring seg allowOnEdge =
      if !seg.box.intersects ring.rect then ⟨false, 1⟩
      else if (ringContainsPoint ring seg.a allowOnEdge).hit then ⟨true, 2⟩
      else if (ringContainsPoint ring seg.b allowOnEdge).hit then ⟨true, 3⟩
      else
        ⟨(ring.search seg.box (fun st seg2 _ => riStep seg allowOnEdge st seg2) ⟨0, false, false⟩).count ≥ 2,
         if (ring.search seg.box (fun st seg2 _ => riStep seg allowOnEdge st seg2) ⟨0, false, false⟩).count ≥ 2
           then 4 else 5⟩ := rfl

/-- class of a ring segment against the query segment -/
def riClass (seg : Seg) (allowOnEdge : Bool) (seg2 : Seg) : Nat :=
  if seg.intersects seg2 then
    if allowOnEdge then 3
    else if seg.collinearPt seg2.a && seg.collinearPt seg2.b then 0
    else if seg.a = seg2.a || seg.a = seg2.b then 1
    else if seg.b = seg2.a || seg.b = seg2.b then 2
    else 3
  else 0

/-- the callback on classes -/
def riAbs (st : RISt) (c : Nat) : RISt × Bool :=
  match c with
  | 0 => (st, st.count < 2)
  | 1 => if !st.segAOn then ({ st with segAOn := true }, true)
         else ({ st with count := st.count + 1 }, st.count + 1 < 2)
  | 2 => if !st.segBOn then ({ st with segBOn := true }, true)
         else ({ st with count := st.count + 1 }, st.count + 1 < 2)
  | _ => ({ st with count := st.count + 1 }, st.count + 1 < 2)

theorem collinearPt_a (seg : Seg) : seg.collinearPt seg.a = true := by
  unfold Seg.collinearPt; simp

theorem collinearPt_b (seg : Seg) : seg.collinearPt seg.b = true := by
  unfold Seg.collinearPt
  simp only [decide_eq_true_eq]
  ring

/-- a segment whose two ends are ends of the query is collinear with it -/
theorem collinear_of_both_ends (seg seg2 : Seg)
    (hA : seg.a = seg2.a ∨ seg.a = seg2.b) (hB : seg.b = seg2.a ∨ seg.b = seg2.b) :
    (seg.collinearPt seg2.a && seg.collinearPt seg2.b) = true := by
  rcases hA with hA | hA <;> rcases hB with hB | hB
  · -- seg.a = seg2.a = seg.b: the query is degenerate
    have hab : seg.b = seg.a := by rw [hA, hB]
    have h1 : ∀ p, seg.collinearPt p = true := by
      intro p; unfold Seg.collinearPt; rw [hab]; simp
    rw [h1, h1]; rfl
  · rw [← hA, ← hB, collinearPt_a, collinearPt_b]; rfl
  · rw [← hA, ← hB, collinearPt_a, collinearPt_b]; rfl
  · have hab : seg.b = seg.a := by rw [hA, hB]
    have h1 : ∀ p, seg.collinearPt p = true := by
      intro p; unfold Seg.collinearPt; rw [hab]; simp
    rw [h1, h1]; rfl

theorem riStep_eq_abs (seg : Seg) (allowOnEdge : Bool) (st : RISt) (seg2 : Seg) :
    riStep seg allowOnEdge st seg2 = riAbs st (riClass seg allowOnEdge seg2) := by
  unfold riStep riClass
  by_cases hi : seg.intersects seg2 = true
  · simp only [hi, if_true]
    cases allowOnEdge
    · simp only [Bool.not_false, if_true, Bool.false_eq_true, if_false]
      by_cases hc : (seg.collinearPt seg2.a && seg.collinearPt seg2.b) = true
      · simp only [hc, Bool.not_true, Bool.false_eq_true, if_false, if_true, riAbs]
      · have hc' : (seg.collinearPt seg2.a && seg.collinearPt seg2.b) = false := by simpa using hc
        simp only [hc', Bool.not_false, if_true, Bool.false_eq_true, if_false]
        by_cases hA : (decide (seg.a = seg2.a) || decide (seg.a = seg2.b)) = true
        · simp only [hA, if_true, Bool.and_true, riAbs]
          by_cases hao : st.segAOn = true
          · have hB : (decide (seg.b = seg2.a) || decide (seg.b = seg2.b)) = false := by
              cases hB' : (decide (seg.b = seg2.a) || decide (seg.b = seg2.b))
              · rfl
              · have := collinear_of_both_ends seg seg2
                  (by simpa only [Bool.or_eq_true, decide_eq_true_eq] using hA)
                  (by simpa only [Bool.or_eq_true, decide_eq_true_eq] using hB')
                rw [hc'] at this; cases this
            simp [hao, hB]
          · simp [hao]
        · have hA' : (decide (seg.a = seg2.a) || decide (seg.a = seg2.b)) = false := by simpa using hA
          simp only [hA', Bool.and_false, Bool.false_eq_true, if_false]
          by_cases hB : (decide (seg.b = seg2.a) || decide (seg.b = seg2.b)) = true
          · simp only [hB, Bool.and_true, if_true, riAbs]
          · have hB' : (decide (seg.b = seg2.a) || decide (seg.b = seg2.b)) = false := by simpa using hB
            simp only [hB', Bool.and_false, Bool.false_eq_true, if_false, riAbs]
    · simp only [Bool.not_true, Bool.false_eq_true, if_false, if_true, riAbs]
  · have hi' : seg.intersects seg2 = false := by simpa using hi
    simp only [hi', Bool.false_eq_true, if_false, riAbs]

/-- number of list elements of class `k` -/
def cnt (c : Nat → Nat) (k : Nat) (l : List Nat) : Nat := l.countP (fun i => c i == k)

/-- the permutation-invariant total the fold compares with 2 -/
def riTotal (c : Nat → Nat) (st : RISt) (l : List Nat) : Nat :=
  st.count + (l.countP (fun i => 3 ≤ c i)) +
    (cnt c 1 l - if st.segAOn then 0 else 1) + (cnt c 2 l - if st.segBOn then 0 else 1)

theorem riTotal_perm (c : Nat → Nat) (st : RISt) (l l' : List Nat) (h : List.Perm l l') :
    riTotal c st l = riTotal c st l' := by
  unfold riTotal cnt
  rw [h.countP_eq, h.countP_eq (fun i => c i == 1), h.countP_eq (fun i => c i == 2)]

theorem riTotal_nil (c : Nat → Nat) (st : RISt) : riTotal c st [] = st.count := by
  simp [riTotal, cnt]

theorem riTotal_ge (c : Nat → Nat) (st : RISt) (l : List Nat) : st.count ≤ riTotal c st l := by
  unfold riTotal; omega

/-- the total of `x :: xs` when `x` has class `k` -/
def consTotal (c : Nat → Nat) (st : RISt) (k : Nat) (xs : List Nat) : Nat :=
  st.count + ((if 3 ≤ k then 1 else 0) + xs.countP (fun i => 3 ≤ c i)) +
    (((if k = 1 then 1 else 0) + cnt c 1 xs) - if st.segAOn then 0 else 1) +
    (((if k = 2 then 1 else 0) + cnt c 2 xs) - if st.segBOn then 0 else 1)

theorem riTotal_cons (c : Nat → Nat) (st : RISt) (x : Nat) (xs : List Nat) :
    riTotal c st (x :: xs) = consTotal c st (c x) xs := by
  unfold riTotal consTotal cnt
  simp only [List.countP_cons, beq_iff_eq, decide_eq_true_eq]
  omega

theorem riFold_cons (c : Nat → Nat) (st : RISt) (x : Nat) (xs : List Nat) :
    foldUntil (fun st i => riAbs st (c i)) st (x :: xs) =
      if (riAbs st (c x)).2 then foldUntil (fun st i => riAbs st (c i)) (riAbs st (c x)).1 xs
      else ((riAbs st (c x)).1, false) := foldUntil_cons _ _ _ _

/-- one step: either the fold goes on and the total is unchanged, or it stops with the counter
    (hence the total) at 2 -/
theorem riAbs_step (c : Nat → Nat) (st : RISt) (k : Nat) (xs : List Nat) :
    ((riAbs st k).2 = true → riTotal c (riAbs st k).1 xs = consTotal c st k xs) ∧
    ((riAbs st k).2 = false → 2 ≤ (riAbs st k).1.count ∧ 2 ≤ consTotal c st k xs) := by
  obtain ⟨n, aOn, bOn⟩ := st
  rcases k with _ | _ | _ | k
  · have e : riAbs ⟨n, aOn, bOn⟩ 0 = (⟨n, aOn, bOn⟩, decide (n < 2)) := rfl
    rw [e]
    simp only [decide_eq_true_eq, decide_eq_false_iff_not, riTotal, consTotal]
    constructor
    · intro _; simp
    · intro h; constructor <;> omega
  · cases aOn
    · have e : riAbs ⟨n, false, bOn⟩ 1 = (⟨n, true, bOn⟩, true) := rfl
      rw [e]
      simp only [riTotal, consTotal]
      constructor
      · intro _; simp
      · intro h; cases h
    · have e : riAbs ⟨n, true, bOn⟩ 1 = (⟨n + 1, true, bOn⟩, decide (n + 1 < 2)) := rfl
      rw [e]
      simp only [decide_eq_true_eq, decide_eq_false_iff_not, riTotal, consTotal]
      constructor
      · intro _; first | omega | (simp; omega)
      · intro h; first | omega | (simp; omega)
  · cases bOn
    · have e : riAbs ⟨n, aOn, false⟩ 2 = (⟨n, aOn, true⟩, true) := rfl
      rw [e]
      simp only [riTotal, consTotal]
      constructor
      · intro _; simp
      · intro h; cases h
    · have e : riAbs ⟨n, aOn, true⟩ 2 = (⟨n + 1, aOn, true⟩, decide (n + 1 < 2)) := rfl
      rw [e]
      simp only [decide_eq_true_eq, decide_eq_false_iff_not, riTotal, consTotal]
      constructor
      · intro _; first | omega | (simp; omega)
      · intro h; first | omega | (simp; omega)
  · have e : riAbs ⟨n, aOn, bOn⟩ (k + 3) = (⟨n + 1, aOn, bOn⟩, decide (n + 1 < 2)) := rfl
    rw [e]
    simp only [decide_eq_true_eq, decide_eq_false_iff_not, riTotal, consTotal]
    constructor
    · intro _; first | omega | (simp; omega)
    · intro h; first | omega | (simp; omega)

/-- the verdict of the counting fold with early stop -/
theorem riFold_verdict (c : Nat → Nat) (l : List Nat) (st : RISt) :
    2 ≤ (foldUntil (fun st i => riAbs st (c i)) st l).1.count ↔ 2 ≤ riTotal c st l := by
  induction l generalizing st with
  | nil => rw [foldUntil_nil, riTotal_nil]
  | cons x xs ih =>
    rw [riFold_cons, riTotal_cons]
    obtain ⟨h1, h2⟩ := riAbs_step c st (c x) xs
    cases hb : (riAbs st (c x)).2
    · obtain ⟨a, b⟩ := h2 hb
      simp only [Bool.false_eq_true, if_false]
      exact ⟨fun _ => b, fun _ => a⟩
    · simp only [if_true]
      rw [ih, h1 hb]

/-- list level: the verdict of the counting fold depends only on the multiset of visited
    segments -/
theorem riFold_perm (segAt : Nat → Seg) (seg : Seg) (allowOnEdge : Bool) (v1 v2 : List Nat)
    (h : List.Perm v1 v2) :
    (2 ≤ (foldUntil (fun st i => riStep seg allowOnEdge st (segAt i)) ⟨0, false, false⟩ v1).1.count) ↔
    (2 ≤ (foldUntil (fun st i => riStep seg allowOnEdge st (segAt i)) ⟨0, false, false⟩ v2).1.count) := by
  simp only [riStep_eq_abs]
  rw [riFold_verdict (fun i => riClass seg allowOnEdge (segAt i)),
    riFold_verdict (fun i => riClass seg allowOnEdge (segAt i)), riTotal_perm _ _ _ _ h]

/-- `ringIntersectsSegmentS` (verdict and return site) is the same for similar rings -/
theorem Ring.Sim.intersectsSegmentS {r r' : Ring} (h : r.Sim r') (seg : Seg) (allowOnEdge : Bool) :
    ringIntersectsSegmentS r seg allowOnEdge = ringIntersectsSegmentS r' seg allowOnEdge := by
  rw [ringIntersectsSegmentS_eq, ringIntersectsSegmentS_eq, ← h.rect, ← h.hit, ← h.hit]
  obtain ⟨l, l', hp, h1, h2⟩ := h.search seg.box
  rw [h1.2, h2.2, ← h.segmentAt]
  have := riFold_perm r.segmentAt seg allowOnEdge l l' hp
  simp only [ge_iff_le, this]

theorem Ring.Sim.intersectsSegment {r r' : Ring} (h : r.Sim r') (seg : Seg) (allowOnEdge : Bool) :
    ringIntersectsSegment r seg allowOnEdge = ringIntersectsSegment r' seg allowOnEdge := by
  unfold ringIntersectsSegment
  rw [h.intersectsSegmentS]

end Geo
