/-
  GeoProofs.Glue.LineGlue — the loops of geometry/line.go regenerated from the CURRENT Go source
  (GeoModel/Generated/LineGen.lean: ContainsPoint, ContainsLine, IntersectsLine, ContainsPoly),
  instantiated with the hand model's callees, ARE the hand model (GeoModel/Geom.lean).

  `modelOps` lists every callee the translator found in the source; a new or vanished callee
  changes the structure `LGen.LineOps` and this file stops compiling.
-/
import GeoModel.Geom
import GeoModel.Generated.LineGen
import Mathlib.Tactic.SplitIfs

set_option linter.unusedSimpArgs false
set_option linter.unusedVariables false

namespace Geo.LineGlue
open Geo Geo.LGen

/-- the visit list of a series search: what a callback that never stops gets to see
    (`[]` if the search panics on a corrupt index). -/
def visitList (s : Series) (q : Box) : List (Seg × Int) :=
  (s.search q (fun (acc : List (Seg × Int)) seg i => (acc ++ [(seg, (i : Int))], true)) []).get []

/-- the callees of line.go's loops, as modelled by hand (GeoModel/Kernel, Series, Geom) -/
def modelOps : LineOps Line Seg Box Pt Rat Poly where
  f64Ne := fun a b => decide (a ≠ b)
  lineEmpty := fun l => l.empty
  lineNumPoints := fun l => (l.numPoints : Int)
  lineNumSegments := fun l => (l.numSegments : Int)
  lineRect := fun l => l.rect
  lineSearch := visitList
  lineSegmentAt := fun l i => l.segmentAt i.toNat
  lineSet_baseSeries_points := fun l ps => { l with pts := ps.toArray }
  lineSet_baseSeries_rect := fun l r => { l with rect := r }
  lineZero := ⟨#[], false, false, false, ⟨⟨0, 0⟩, ⟨0, 0⟩⟩, none⟩
  pointEq := fun a b => decide (a = b)
  pointX := fun p => p.x
  pointY := fun p => p.y
  polyEmpty := Poly.empty
  polyRect := Poly.rect
  rectIntersectsRect := Box.intersects
  rectMax := fun r => r.max
  rectMin := fun r => r.min
  rectMk := fun a b => ⟨a, b⟩
  segA := fun s => s.a
  segB := fun s => s.b
  segContainsSegment := Seg.containsSeg
  segIntersectsSegment := Seg.intersects
  segRaycast_On := fun s p => (s.raycast p).on
  segRect := Seg.box

/-- a series whose `Search` is, for every query, the early-exit fold of the callback over some
    list of segment indexes (in particular it never panics).  Weaker than `Series.SearchExact`
    (GeoProofs/SeriesSearch.lean), which holds for every series built by `mkSeries`. -/
def SearchList (s : Series) : Prop :=
  ∀ q : Box, ∃ visit : List Nat, ∀ {σ : Type} (f : σ → Seg → Nat → σ × Bool) (st : σ),
    s.search q f st = .ok (foldUntil (fun st i => f st (s.segmentAt i) i) st visit).1

/-! ### loop shapes of the current source, as facts about `forRange` -/

theorem intRange_zero (n : Nat) : intRange 0 (n : Int) = (List.range n).map (fun k : Nat => (k : Int)) := by
  unfold intRange
  simp

/-- `for j := 0; j < n; j++ { if f j { x = j; break } }` -/
theorem forRange_find (f : Nat → Bool) {ρ : Type} {body : Int → Int → Flow Int ρ}
    (hb : ∀ (k : Nat) s, body (k : Int) s = if f k then Flow.brk (k : Int) else Flow.next s)
    (xs : List Nat) (s0 : Int) :
    forRange body (xs.map (fun k : Nat => (k : Int))) s0 =
      Exit.done (match xs.find? f with | none => s0 | some k => (k : Int)) := by
  induction xs with
  | nil => rfl
  | cons x xs ih =>
    by_cases hf : f x = true
    · simp [forRange, hb, hf]
    · simp [forRange, hb, hf, ih]

/-- `for i := 0; i < n; i++ { if p i { return true } }` -/
theorem forRange_retTrue (p : Nat → Bool) {body : Int → Unit → Flow Unit Bool}
    (hb : ∀ (k : Nat) u, body (k : Int) u = if p k then Flow.ret true else Flow.next ())
    (xs : List Nat) :
    forRange body (xs.map (fun k : Nat => (k : Int))) () =
      if xs.any p then Exit.ret true else Exit.done () := by
  induction xs with
  | nil => rfl
  | cons x xs ih =>
    by_cases hp : p x = true
    · simp [forRange, hb, hp]
    · simp [forRange, hb, hp, ih]

/-- the Search callback `if p seg { c = true; return false }; return true` over a visit list -/
theorem forRange_search {α : Type} (g : α → Seg × Int) (p : Seg → Bool)
    {body : Seg × Int → Bool → Flow Bool Empty}
    (hb : ∀ x c, body x c = if p x.1 then Flow.brk true else Flow.next c)
    (visit : List α) (c : Bool) :
    forRange body (visit.map g) c =
      Exit.done (foldUntil (fun st i => if p (g i).1 then (true, false) else (st, true)) c visit).1 := by
  induction visit generalizing c with
  | nil => rfl
  | cons x xs ih =>
    by_cases hp : p (g x).1 = true
    · simp [forRange, foldUntil, hb, hp]
    · simp [forRange, foldUntil, hb, hp, ih]

theorem foldUntil_collect {α β : Type} (g : α → β) (visit : List α) (acc : List β) :
    foldUntil (fun (acc : List β) i => (acc ++ [g i], true)) acc visit = (acc ++ visit.map g, true) := by
  induction visit generalizing acc with
  | nil => simp [foldUntil]
  | cons x xs ih => simp [foldUntil, ih]

/-- under `SearchList`, `visitList` is the list the search folds over -/
theorem visitList_spec (s : Series) (hs : SearchList s) (q : Box) :
    ∃ visit : List Nat, visitList s q = visit.map (fun i => (s.segmentAt i, (i : Int))) ∧
      ∀ {σ : Type} (f : σ → Seg → Nat → σ × Bool) (st : σ),
        s.search q f st = .ok (foldUntil (fun st i => f st (s.segmentAt i) i) st visit).1 := by
  obtain ⟨visit, hv⟩ := hs q
  refine ⟨visit, ?_, fun f st => hv f st⟩
  unfold visitList
  rw [hv]
  have := foldUntil_collect (fun i => (s.segmentAt i, (i : Int))) visit []
  simp only [List.nil_append] at this
  simp only [Outcome.get, this]

/-! ### ContainsPoint, IntersectsLine (searches) -/

theorem lineContainsPoint_eq (l : Line) (hs : SearchList l) (p : Pt) :
    lineContainsPoint modelOps (some l) p = l.containsPoint p := by
  obtain ⟨visit, hv, hsearch⟩ := visitList_spec l hs p.box
  dsimp only [lineContainsPoint]
  have hq : modelOps.lineSearch l (modelOps.rectMk p p) = visitList l p.box := rfl
  rw [hq, hv, forRange_search (fun i => (l.segmentAt i, (i : Int))) (fun seg => (seg.raycast p).on)]
  · unfold Line.containsPoint
    rw [hsearch]
    rfl
  · intro x c; rfl

theorem lineContainsPoint_nil (p : Pt) : lineContainsPoint modelOps none p = false := rfl

/-- the inner Search of `IntersectsLine`, for one segment of the iterated line -/
theorem searchAny_eq (o : Line) (hs : SearchList o) (q : Box) (p : Seg → Bool)
    {body : Seg × Int → Bool → Flow Bool Empty}
    (hb : ∀ x c, body x c = if p x.1 then Flow.brk true else Flow.next c) :
    forRange body (visitList o q) false = Exit.done ((Ring.ser o).searchAny q (fun segB _ => p segB)) := by
  obtain ⟨visit, hv, hsearch⟩ := visitList_spec o hs q
  rw [hv, forRange_search (fun i => (o.segmentAt i, (i : Int))) p hb]
  unfold Ring.searchAny Ring.search
  simp only [hsearch, Outcome.get]

/-- the loops of `IntersectsLine` after the operands have been ordered -/
theorem intersectsLoops_eq (l o : Line) (ho : SearchList o) :
    (match forRange (ρ := Bool) (fun i () =>
        let segA : Seg := modelOps.lineSegmentAt l i
        let intersects : Bool := false
        (match forRange (ρ := Empty) (fun (segB, _) intersects =>
            if modelOps.segIntersectsSegment segA segB then
              let intersects : Bool := true
              Flow.brk intersects
            else
              Flow.next intersects) (modelOps.lineSearch o (modelOps.segRect segA)) intersects with
        | Exit.ret r' => nomatch r'
        | Exit.done intersects => if intersects then Flow.ret true else Flow.next ()))
        (intRange 0 (modelOps.lineNumSegments l)) () with
      | Exit.ret r' => r'
      | Exit.done () => false) =
    (List.range l.numSegments).any (fun i =>
      let segA := l.segmentAt i
      (Ring.ser o).searchAny segA.box (fun segB _ => segA.intersects segB)) := by
  have hn : modelOps.lineNumSegments l = (l.numSegments : Int) := rfl
  rw [hn, intRange_zero, forRange_retTrue (fun i =>
      (Ring.ser o).searchAny (l.segmentAt i).box (fun segB _ => (l.segmentAt i).intersects segB))]
  · split_ifs with h <;> simp_all
  · intro k u
    cases u
    have hk : modelOps.lineSegmentAt l (k : Int) = l.segmentAt k := by
      show l.segmentAt (Int.toNat (k : Int)) = _
      rw [Int.toNat_natCast]
    simp only [hk]
    have hq : modelOps.lineSearch o (modelOps.segRect (l.segmentAt k)) = visitList o (l.segmentAt k).box := rfl
    rw [hq, searchAny_eq o ho (l.segmentAt k).box (fun segB => (l.segmentAt k).intersects segB)]
    intro x c; rfl

theorem lineIntersectsLine_eq (l o : Line) (hl : SearchList l) (ho : SearchList o) :
    lineIntersectsLine modelOps (some l) (some o) = l.intersectsLine o := by
  dsimp only [lineIntersectsLine]
  unfold Line.intersectsLine
  have he1 : modelOps.lineEmpty l = l.empty := rfl
  have he2 : modelOps.lineEmpty o = o.empty := rfl
  have hr : modelOps.rectIntersectsRect (modelOps.lineRect l) (modelOps.lineRect o) = l.rect.intersects o.rect := rfl
  have hp : decide (modelOps.lineNumPoints l > modelOps.lineNumPoints o) = decide (l.numPoints > o.numPoints) := by
    show decide ((l.numPoints : Int) > (o.numPoints : Int)) = _
    simp
  rw [he1, he2, hr, hp]
  cases h1 : l.empty
  · cases h2 : o.empty
    · cases h3 : l.rect.intersects o.rect
      · simp
      · by_cases h4 : l.numPoints > o.numPoints
        · simp only [h4, decide_true, if_true]
          exact intersectsLoops_eq o l hl
        · simp only [h4, decide_false]
          exact intersectsLoops_eq l o ho
    · simp
  · simp

theorem lineIntersectsLine_nil_left (o : Option Line) : lineIntersectsLine modelOps none o = false := rfl
theorem lineIntersectsLine_nil_right (l : Option Line) : lineIntersectsLine modelOps l none = false := by
  cases l <;> rfl

/-! ### ContainsLine: the fuelled walk -/

/-- the model's `Line.containsLineO` with the fuel of the walk as a parameter -/
def containsLineF (line other : Line) (fuel : Nat) : Option Bool :=
  if line.empty || other.empty then some false
  else
    let n := line.numSegments
    match (List.range n).find? (fun j => (line.segmentAt j).containsSeg (other.segmentAt 0)) with
    | none => some false
    | some segIdx => walk line other n other.numSegments fuel ⟨segIdx, 1, 0⟩

theorem containsLineO_eq_F (l o : Line) :
    l.containsLineO o = containsLineF l o ((l.numSegments + 2) * (o.numSegments + 2)) := rfl

/-- what the function makes of the result of its fuelled loop -/
def outcome {σ : Type} : Option (Exit σ Bool) → Option Bool
  | none => none
  | some (Exit.ret r) => some r
  | some (Exit.done _) => some true

/-- the generated `iterate` (state `(segIdx, dir, i)` over Int) and the model's `walk` (state over
    Nat) proceed in lockstep, for EVERY fuel: same answer, same exhaustion. -/
theorem iterate_walk (l o : Line) (n m : Nat)
    {C : Int × Int × Int → Bool} {S : Int × Int × Int → Flow (Int × Int × Int) Bool}
    (hC : ∀ a d i, C (a, d, i) = decide (i < (m : Int)))
    (hS : ∀ a d i, S (a, d, i) =
      if (l.segmentAt a.toNat).containsSeg (o.segmentAt i.toNat) then Flow.next (a, 0, i + 1)
      else if decide ((o.segmentAt i.toNat).a = (l.segmentAt a.toNat).a) then
        if (a == 0) || (d == 1) then Flow.ret false else Flow.next (a - 1, -1, i - 1 + 1)
      else if decide ((o.segmentAt i.toNat).a = (l.segmentAt a.toNat).b) then
        if (a == (n : Int) - 1) || (d == -1) then Flow.ret false else Flow.next (a + 1, 1, i - 1 + 1)
      else Flow.next (a, 0, i + 1)) :
    ∀ (fuel : Nat) (st : WalkSt), st.segIdx < n →
      outcome (iterate fuel C S ((st.segIdx : Int), st.dir, (st.i : Int))) = walk l o n m fuel st := by
  intro fuel
  induction fuel with
  | zero => intro st _; rfl
  | succ fuel ih =>
    intro st hs
    obtain ⟨k, i, d⟩ := st
    simp only at hs
    rw [walk, iterate, hC]
    by_cases hi : i < m
    · have hi' : ((i : Int) < (m : Int)) := by omega
      simp only [hi, hi', decide_true, if_true, hS, walkStep, Int.toNat_natCast]
      by_cases h1 : (l.segmentAt k).containsSeg (o.segmentAt i) = true
      · simp only [h1, if_true]
        exact ih ⟨k, i + 1, 0⟩ hs
      · simp only [h1, Bool.false_eq_true, if_false]
        have hk0 : ((k : Int) == 0) = (k == 0) := by
          rw [Bool.eq_iff_iff]; simp only [beq_iff_eq]; omega
        have hkn : ((k : Int) == (n : Int) - 1) = (k == n - 1) := by
          rw [Bool.eq_iff_iff]; simp only [beq_iff_eq]; omega
        rw [hk0, hkn]
        by_cases h2 : (o.segmentAt i).a = (l.segmentAt k).a
        · simp only [h2, decide_true, if_true]
          by_cases h3 : (k == 0 || d == 1) = true
          · simp only [h3, if_true]; rfl
          · simp only [h3, if_false]
            have hk : k ≠ 0 := by
              intro h; apply h3; simp [h]
            have e1 : ((k : Int) - 1) = ((k - 1 : Nat) : Int) := by omega
            have e2 : ((i : Int) - 1 + 1) = (i : Int) := by omega
            rw [e1, e2]
            exact ih ⟨k - 1, i, -1⟩ (by simp only; omega)
        · simp only [h2, decide_false, Bool.false_eq_true, if_false]
          by_cases h4 : (o.segmentAt i).a = (l.segmentAt k).b
          · simp only [h4, decide_true, if_true]
            by_cases h5 : (k == n - 1 || d == -1) = true
            · simp only [h5, if_true]; rfl
            · simp only [h5, if_false]
              have hk : k ≠ n - 1 := by
                intro h; apply h5; simp [h]
              have e1 : ((k : Int) + 1) = ((k + 1 : Nat) : Int) := by omega
              have e2 : ((i : Int) - 1 + 1) = (i : Int) := by omega
              rw [e1, e2]
              exact ih ⟨k + 1, i, 1⟩ (by simp only; omega)
          · simp only [h4, decide_false, Bool.false_eq_true, if_false]
            exact ih ⟨k, i + 1, 0⟩ hs
    · have hi' : ¬ ((i : Int) < (m : Int)) := by omega
      simp only [hi, hi', decide_false, if_false]
      rfl

/-- generated `ContainsLine` = the model's walk, for EVERY fuel (same exhaustion behaviour) -/
theorem lineContainsLine_eq_F (fuel : Nat) (l o : Line) :
    lineContainsLine modelOps fuel (some l) (some o) = containsLineF l o fuel := by
  dsimp only [lineContainsLine]
  unfold containsLineF
  have he1 : modelOps.lineEmpty l = l.empty := rfl
  have he2 : modelOps.lineEmpty o = o.empty := rfl
  have hn : modelOps.lineNumSegments l = (l.numSegments : Int) := rfl
  rw [he1, he2, hn, intRange_zero,
    forRange_find (fun j => (l.segmentAt j).containsSeg (o.segmentAt 0))]
  · cases h1 : l.empty
    · cases h2 : o.empty
      · simp only [Bool.false_eq_true, if_false, Bool.or_self]
        cases hf : (List.range l.numSegments).find? (fun j => (l.segmentAt j).containsSeg (o.segmentAt 0)) with
        | none => simp
        | some k =>
          have hk : k < l.numSegments := by
            have := List.mem_of_find?_eq_some hf
            simpa using this
          have hne : ((k : Int) == -1) = false := by
            rw [beq_eq_false_iff_ne]; omega
          simp only [hne, Bool.false_eq_true, if_false]
          generalize hx : iterate fuel _ _ (_ : Int × Int × Int) = x
          have key : outcome x = walk l o l.numSegments o.numSegments fuel ⟨k, 1, 0⟩ := by
            rw [← hx]
            exact iterate_walk l o l.numSegments o.numSegments (fun _ _ _ => rfl) (fun _ _ _ => rfl)
              fuel ⟨k, 1, 0⟩ hk
          rw [← key]
          rcases x with _ | ⟨_ | ⟨_, _, _⟩⟩ <;> rfl
      · simp
    · simp
  · intro k s
    show (if (l.segmentAt (Int.toNat (k : Int))).containsSeg (o.segmentAt (Int.toNat 0)) then _ else _) = _
    rw [Int.toNat_natCast]
    rfl

theorem lineContainsLine_nil_left (fuel : Nat) (o : Option Line) :
    lineContainsLine modelOps fuel none o = some false := rfl
theorem lineContainsLine_nil_right (fuel : Nat) (l : Option Line) :
    lineContainsLine modelOps fuel l none = some false := by
  cases l <;> rfl

/-- with exactly the model's fuel the two are the same Option (including exhaustion) -/
theorem lineContainsLine_eq_O (l o : Line) :
    lineContainsLine modelOps ((l.numSegments + 2) * (o.numSegments + 2)) (some l) (some o) =
      l.containsLineO o := by
  rw [lineContainsLine_eq_F, containsLineO_eq_F]

/-- more fuel never changes an answer -/
theorem walk_mono (l o : Line) (n m : Nat) (b : Bool) :
    ∀ (f : Nat) (st : WalkSt), walk l o n m f st = some b → ∀ f', f ≤ f' → walk l o n m f' st = some b := by
  intro f
  induction f with
  | zero => intro st h; simp [walk] at h
  | succ f ih =>
    intro st h f' hf
    obtain ⟨g, rfl⟩ : ∃ g, f' = g + 1 := ⟨f' - 1, by omega⟩
    rw [walk] at h ⊢
    split_ifs at h ⊢ with hi
    · rcases hw : walkStep l o n st with ⟨st', _ | r⟩
      · rw [hw] at h
        simp only at h ⊢
        exact ih st' h g (by omega)
      · rw [hw] at h
        simpa using h
    · exact h

theorem containsLineF_mono (l o : Line) (b : Bool) (f f' : Nat) (hf : f ≤ f')
    (h : containsLineF l o f = some b) : containsLineF l o f' = some b := by
  unfold containsLineF at h ⊢
  split_ifs at h ⊢ with he
  · exact h
  · simp only at h ⊢
    cases hfind : (List.range l.numSegments).find? (fun j => (l.segmentAt j).containsSeg (o.segmentAt 0)) with
    | none => rw [hfind] at h; exact h
    | some k =>
      rw [hfind] at h
      exact walk_mono l o _ _ b f _ h f' hf

/-! ### ContainsPoly -/

/-- the model's `Line.containsPoly` with the fuel of the walk as a parameter -/
def containsPolyF (line : Line) (poly : Poly) (fuel : Nat) : Option Bool :=
  if line.empty || poly.empty then some false
  else
    let rect := poly.rect
    if rect.min.x ≠ rect.max.x && rect.min.y ≠ rect.max.y then some false
    else containsLineF line ⟨#[rect.min, rect.max], false, false, false, rect, none⟩ fuel

theorem lineContainsPoly_eq_F (fuel : Nat) (l : Line) (p : Poly) :
    lineContainsPoly modelOps fuel (some l) (some p) = containsPolyF l p fuel := by
  dsimp only [lineContainsPoly]
  unfold containsPolyF
  have he1 : modelOps.lineEmpty l = l.empty := rfl
  have he2 : modelOps.polyEmpty p = p.empty := rfl
  rw [he1, he2, lineContainsLine_eq_F]
  cases h1 : l.empty
  · cases h2 : p.empty
    · simp only [Bool.false_eq_true, if_false, Bool.or_self]
      rfl
    · simp
  · simp

theorem lineContainsPoly_nil_left (fuel : Nat) (p : Option Poly) :
    lineContainsPoly modelOps fuel none p = some false := rfl
theorem lineContainsPoly_nil_right (fuel : Nat) (l : Option Line) :
    lineContainsPoly modelOps fuel l none = some false := by
  cases l <;> rfl

end Geo.LineGlue
