/-
  GeoModel.Index — model of the compressed quadtree (geometry/qtree.go) and the compressed
  R-tree (geometry/rtree.go), generic in the coordinate carrier `α`.

  Nothing is assumed about `mid`, `sub`, `mul` (float rounding is irrelevant to search
  exactness); theorems only need `lt` to be a strict total order.
  The series is abstracted as `boxOf : Nat → GBox α` (= `series.SegmentAt(i).Rect()`).
  Search is written in the code's callback style: the callback is a state transformer
  returning "continue?"; a search returns the final state and "was not stopped".
-/
namespace Geo

class Carrier (α : Type) where
  lt : α → α → Bool
  mid : α → α → α      -- (a + b) / 2
  sub : α → α → α
  mul : α → α → α
  one : α
  zero : α

structure GBox (α : Type) where
  minx : α
  miny : α
  maxx : α
  maxy : α
deriving Repr, Inhabited, DecidableEq

section
variable {α : Type} [Carrier α]
open Carrier

/-- Rect.IntersectsRect -/
def GBox.meets (r o : GBox α) : Bool :=
  if lt o.maxy r.miny || lt r.maxy o.miny then false
  else if lt o.maxx r.minx || lt r.maxx o.minx then false
  else true

/-! ## variable-width numbers -/

def numBytes (n : Nat) : Nat := if n ≤ 0xFF then 1 else if n ≤ 0xFFFF then 2 else 4

def leBytes (n : Nat) : Nat → List Nat
  | 0 => []
  | k+1 => (n % 256) :: leBytes (n / 256) k

def appendNum (dst : Array Nat) (num w : Nat) : Array Nat :=
  match w with
  | 1 => dst ++ (leBytes num 1).toArray
  | 2 => dst ++ (leBytes num 2).toArray
  | _ => dst ++ (leBytes num 4).toArray

/-- little-endian read of `k` bytes at `addr`; `none` = out-of-range read (a Go panic). -/
def readLE (data : Array Nat) (addr : Nat) : Nat → Option Nat
  | 0 => some 0
  | k+1 => do
    let b ← data[addr]?
    let rest ← readLE data (addr+1) k
    pure (b + 256 * rest)

def readNum (data : Array Nat) (addr w : Nat) : Option Nat :=
  match w with
  | 1 => readLE data addr 1
  | 2 => readLE data addr 2
  | _ => readLE data addr 4

/-- overwrite 4 bytes at `pos` (binary.LittleEndian.PutUint32(dst[pos:], v)) -/
def putU32 (dst : Array Nat) (pos v : Nat) : Array Nat :=
  let bs := leBytes v 4
  (((dst.setIfInBounds pos (bs.getD 0 0)).setIfInBounds (pos+1) (bs.getD 1 0)).setIfInBounds (pos+2) (bs.getD 2 0)).setIfInBounds (pos+3) (bs.getD 3 0)

/-! ## quadtree -/

def qMaxItems : Nat := 32
def qMaxDepth : Nat := 16

inductive QNode where
  | nil
  | node (split : Bool) (items : List Nat) (q0 q1 q2 q3 : QNode)
deriving Repr, Inhabited

def QNode.empty : QNode := .node false [] .nil .nil .nil .nil

def QNode.isNil : QNode → Bool
  | .nil => true
  | _ => false

def QNode.quad : QNode → Nat → QNode
  | .nil, _ => .nil
  | .node _ _ q0 q1 q2 q3, q => match q with | 0 => q0 | 1 => q1 | 2 => q2 | _ => q3

def QNode.setQuad : QNode → Nat → QNode → QNode
  | .nil, _, _ => .nil
  | .node s it q0 q1 q2 q3, q, c =>
    match q with
    | 0 => .node s it c q1 q2 q3
    | 1 => .node s it q0 c q2 q3
    | 2 => .node s it q0 q1 c q3
    | _ => .node s it q0 q1 q2 c

def QNode.push : QNode → Nat → QNode
  | .nil, it => .node false [it] .nil .nil .nil .nil
  | .node s items q0 q1 q2 q3, it => .node s (items ++ [it]) q0 q1 q2 q3

/-- chooseQuad: `none` is the code's -1 (straddles a midline → overflow list). -/
def chooseQuad (bounds rect : GBox α) : Option Nat :=
  let midx := mid bounds.minx bounds.maxx
  let midy := mid bounds.miny bounds.maxy
  if lt rect.maxx midx then
    if lt rect.maxy midy then some 2
    else if lt rect.miny midy then none
    else some 0
  else if lt rect.minx midx then none
  else if lt rect.maxy midy then some 3
  else if lt rect.miny midy then none
  else some 1

def quadBounds (b : GBox α) (q : Nat) : GBox α :=
  let midx := mid b.minx b.maxx
  let midy := mid b.miny b.maxy
  match q with
  | 0 => ⟨b.minx, midy, midx, b.maxy⟩
  | 1 => ⟨midx, midy, b.maxx, b.maxy⟩
  | 2 => ⟨b.minx, b.miny, midx, midy⟩
  | _ => ⟨midx, b.miny, b.maxx, midy⟩

/-- `n.insert(series, bounds, rect, item, depth)` with `fuel = qMaxDepth - depth`. -/
def qInsert (boxOf : Nat → GBox α) : Nat → QNode → GBox α → GBox α → Nat → QNode
  | 0, n, _, _, item => n.push item
  | fuel+1, n0, bounds, rect, item =>
    let n := match n0 with | .nil => QNode.empty | x => x
    -- the `n.split` branch
    let intoQuad (n : QNode) (rect : GBox α) (item : Nat) : QNode :=
      match chooseQuad bounds rect with
      | none => n.push item
      | some q => n.setQuad q (qInsert boxOf fuel (n.quad q) (quadBounds bounds q) rect item)
    match n with
    | .nil => .nil  -- unreachable
    | .node split items q0 q1 q2 q3 =>
      if split then intoQuad n rect item
      else if items.length == qMaxItems then
        -- split: keep straddlers in place (in order), push the others down
        let cleared : QNode := .node false [] q0 q1 q2 q3
        let n' := items.foldl (fun acc it => intoQuad acc (boxOf it) it) cleared
        let n'' := match n' with
          | .nil => QNode.nil
          | .node _ its a b c d => QNode.node true its a b c d
        intoQuad n'' rect item
      else n.push item

def qBuild (boxOf : Nat → GBox α) (bounds : GBox α) (nsegs : Nat) : QNode :=
  (List.range nsegs).foldl (fun root i => qInsert boxOf qMaxDepth root bounds (boxOf i) i) QNode.empty

/-- fold with early exit: the code's `for … { if !iter(..) { return false } }` -/
def foldUntil {σ β : Type} (f : σ → β → σ × Bool) : σ → List β → σ × Bool
  | s, [] => (s, true)
  | s, x :: xs =>
    let (s', cont) := f s x
    if cont then foldUntil f s' xs else (s', false)

/-- items of one node: callback on those whose box meets the query. -/
def visitItems {σ : Type} (boxOf : Nat → GBox α) (q : GBox α) (f : σ → Nat → σ × Bool)
    (s : σ) (items : List Nat) : σ × Bool :=
  foldUntil (fun s it => if (boxOf it).meets q then f s it else (s, true)) s items

/-- `qNode.search` on the tree (uncompressed reference). -/
def qSearchTree {σ : Type} (boxOf : Nat → GBox α) (q : GBox α) (f : σ → Nat → σ × Bool) :
    QNode → GBox α → σ → σ × Bool
  | .nil, _, s => (s, true)
  | .node split items q0 q1 q2 q3, bounds, s =>
    let (s1, c1) := visitItems boxOf q f s items
    if !c1 then (s1, false)
    else if !split then (s1, true)
    else
      let step (acc : σ × Bool) (isNil : Bool) (qi : Nat) (rec : σ → σ × Bool) : σ × Bool :=
        if !acc.2 then acc
        else if isNil then acc
        else if (quadBounds bounds qi).meets q then rec acc.1 else acc
      let r0 := step (s1, true) q0.isNil 0 (qSearchTree boxOf q f q0 (quadBounds bounds 0))
      let r1 := step r0 q1.isNil 1 (qSearchTree boxOf q f q1 (quadBounds bounds 1))
      let r2 := step r1 q2.isNil 2 (qSearchTree boxOf q f q2 (quadBounds bounds 2))
      step r2 q3.isNil 3 (qSearchTree boxOf q f q3 (quadBounds bounds 3))

/-- `qNode.compress` — absolute child addresses are positions in `dst`. -/
def qCompress : QNode → Array Nat → Array Nat
  | .nil, dst => dst
  | .node split items q0 q1 q2 q3, dst =>
    let ib := items.foldl (fun w it => max w (numBytes it)) (numBytes items.length)
    let dst := dst.push ib
    let dst := appendNum dst items.length ib
    let dst := items.foldl (fun d it => appendNum d it ib) dst
    if !split then dst.push 0
    else
      let dst := dst.push 1
      let mk (acc : Array Nat × List Nat) (c : QNode) : Array Nat × List Nat :=
        match c with
        | .nil => (acc.1.push 0, acc.2 ++ [0])
        | _ => ((acc.1.push 1) ++ #[0,0,0,0], acc.2 ++ [acc.1.size + 1])
      let (dst, marks) := mk (mk (mk (mk (dst, []) q0) q1) q2) q3
      let emit (dst : Array Nat) (isNil : Bool) (mark : Nat) (rec : Array Nat → Array Nat) : Array Nat :=
        if isNil then dst else rec (putU32 dst mark dst.size)
      let d0 := emit dst q0.isNil (marks.getD 0 0) (qCompress q0)
      let d1 := emit d0 q1.isNil (marks.getD 1 0) (qCompress q1)
      let d2 := emit d1 q2.isNil (marks.getD 2 0) (qCompress q2)
      emit d2 q3.isNil (marks.getD 3 0) (qCompress q3)

/- result of a byte-level search: `none` = an out-of-range read (Go would panic). -/

/-- read `n` items of width `w` from `addr`, calling back on matches. -/
def visitItemsBytes {σ : Type} (boxOf : Nat → GBox α) (q : GBox α) (f : σ → Nat → σ × Bool)
    (data : Array Nat) (w : Nat) : Nat → Nat → σ → Option (σ × Bool)
  | 0, _, s => some (s, true)
  | n+1, addr, s =>
    match readNum data addr w with
    | none => none
    | some it =>
      if (boxOf it).meets q then
        let (s', c) := f s it
        if c then visitItemsBytes boxOf q f data w n (addr + w) s' else some (s', false)
      else visitItemsBytes boxOf q f data w n (addr + w) s

/-- `qCompressSearch`; `fuel` bounds the recursion depth (never exhausted on data produced
    by `qCompress`: depth ≤ qMaxDepth). Fuel exhaustion is reported as `none`. -/
def qSearchBytes {σ : Type} (boxOf : Nat → GBox α) (q : GBox α) (f : σ → Nat → σ × Bool)
    (data : Array Nat) : Nat → Nat → GBox α → σ → Option (σ × Bool)
  | 0, _, _, _ => none
  | fuel+1, addr, bounds, s => do
    let ib ← data[addr]?
    let addr := addr + 1
    let nItems ← readNum data addr ib
    let addr := addr + ib
    let (s1, c1) ← visitItemsBytes boxOf q f data ib nItems addr s
    if !c1 then return (s1, false)
    let addr := addr + nItems * ib
    let sp ← data[addr]?
    let addr := addr + 1
    if sp != 1 then return (s1, true)
    -- four quads
    let rec quads (qi : Nat) (k : Nat) (addr : Nat) (s : σ) : Option (σ × Bool) :=
      match k with
      | 0 => some (s, true)
      | k+1 => do
        let use ← data[addr]?
        let addr := addr + 1
        if use != 1 then quads (qi+1) k addr s
        else
          let naddr ← readLE data addr 4
          let addr := addr + 4
          let qb := quadBounds bounds qi
          if qb.meets q then
            let (s', c) ← qSearchBytes boxOf q f data fuel naddr qb s
            if c then quads (qi+1) k addr s' else return (s', false)
          else quads (qi+1) k addr s
    quads 0 4 addr s1

/-! ## R-tree -/

def rMaxEntries : Nat := 16

/-- a node rect together with its payload: leaf entries carry the item, inner entries a node. -/
inductive RNode (α : Type) where
  | leaf (entries : List (GBox α × Nat))
  | inner (entries : List (GBox α × RNode α))
deriving Inhabited

def GBox.expand (r b : GBox α) : GBox α :=
  ⟨if lt b.minx r.minx then b.minx else r.minx,
   if lt b.miny r.miny then b.miny else r.miny,
   if lt r.maxx b.maxx then b.maxx else r.maxx,
   if lt r.maxy b.maxy then b.maxy else r.maxy⟩

def GBox.contains (r b : GBox α) : Bool :=
  !(lt b.minx r.minx || lt r.maxx b.maxx) && !(lt b.miny r.miny || lt r.maxy b.maxy)

def recalcBoxes (bs : List (GBox α)) (dflt : GBox α) : GBox α :=
  match bs with
  | [] => dflt
  | b :: rest => rest.foldl GBox.expand b

def feq (a b : α) : Bool := !(lt a b) && !(lt b a)

/-- chooseLeastEnlargement over the children's rects; returns the chosen index. -/
def chooseLeast (rects : List (GBox α)) (b : GBox α) : Nat :=
  let step (acc : Option (Nat × α × α) × Nat) (r : GBox α) : Option (Nat × α × α) × Nat :=
    let i := acc.2
    let area := mul (sub r.maxx r.minx) (sub r.maxy r.miny)
    let ex (bmin bmax rmin rmax : α) : α :=
      if lt rmax bmax then
        if lt bmin rmin then sub bmax bmin else sub bmax rmin
      else
        if lt bmin rmin then sub rmax bmin else sub rmax rmin
    let enlargedArea := mul (mul one (ex b.minx b.maxx r.minx r.maxx)) (ex b.miny b.maxy r.miny r.maxy)
    let enlargement := sub enlargedArea area
    match acc.1 with
    | none => (some (i, enlargement, area), i+1)
    | some (j, je, ja) =>
      if lt enlargement je then (some (i, enlargement, area), i+1)
      else if feq enlargement je then
        if lt area ja then (some (i, enlargement, area), i+1) else (some (j, je, ja), i+1)
      else (some (j, je, ja), i+1)
  match (rects.foldl step (none, 0)).1 with
  | some (j, _, _) => j
  | none => 0

/-- the swap-remove partition loop of splitLargestAxisEdgeSnap on an abstract entry list.
    Returns (left, right, equals) in the order the Go arrays end up with. `fuel` ≥ length. -/
def splitLoop {β : Type} (cls : β → Nat) : Nat → List β → Nat → List β → List β → List β × List β × List β
  | 0, left, _, right, equals => (left, right, equals)
  | fuel+1, left, i, right, equals =>
    if h : i < left.length then
      let e := left[i]
      match cls e with
      | 0 => splitLoop cls fuel left (i+1) right equals          -- stay left
      | c =>
        let right' := if c == 1 then right ++ [e] else right
        let equals' := if c == 1 then equals else equals ++ [e]
        -- leftNode.rects[i] = leftNode.rects[count-1]; count--; i--
        let last := left.getLast?.getD e
        let left' := (left.set i last).dropLast
        splitLoop cls fuel left' i right' equals'
    else (left, right, equals)

def distributeEquals {β : Type} : List β → List β → List β → List β × List β
  | left, right, [] => (left, right)
  | left, right, b :: rest =>
    if left.length < right.length then distributeEquals (left ++ [b]) right rest
    else distributeEquals left (right ++ [b]) rest

/-- splitLargestAxisEdgeSnap: `box` is the node's own rect (left.min/max). -/
def splitEntries {β : Type} (rectOf : β → GBox α) (box : GBox α) (entries : List β) : List β × List β :=
  -- largestAxis: axis 1 iff its size is strictly larger
  let sx := sub box.maxx box.minx
  let sy := sub box.maxy box.miny
  let axisY : Bool := lt sx sy
  let cls (e : β) : Nat :=
    let r := rectOf e
    let minDist := if axisY then sub r.miny box.miny else sub r.minx box.minx
    let maxDist := if axisY then sub box.maxy r.maxy else sub box.maxx r.maxx
    if lt minDist maxDist then 0 else if lt maxDist minDist then 1 else 2
  let (left, right, equals) := splitLoop cls (2 * entries.length + 2) entries 0 [] []
  distributeEquals left right equals

mutual
/-- `rRect.insert` returning (new node, new node's rect is handled by the caller, grown,
    optional split-off right sibling with its rect). -/
def rInsertNode (box : GBox α) (item : GBox α × Nat) : RNode α → RNode α × Bool
  | .leaf entries => (.leaf (entries ++ [item]), !(box.contains item.1))
  | .inner entries =>
    let idx := chooseLeast (entries.map (·.1)) item.1
    let (entries', grown) := rInsertChild box item idx entries
    (.inner entries', grown)
/-- walk to child `idx`, insert there, expand/split as the code does. -/
def rInsertChild (box : GBox α) (item : GBox α × Nat) : Nat → List (GBox α × RNode α) → List (GBox α × RNode α) × Bool
  | _, [] => ([], false)
  | 0, (cb, cn) :: rest =>
    let (cn', cgrown) := rInsertNode cb item cn
    let cb' := if cgrown then cb.expand item.1 else cb
    let grown := if cgrown then !(box.contains item.1) else false
    -- child overflow → split; the right half is appended at n.rects[n.count]
    let count := match cn' with | .leaf es => es.length | .inner es => es.length
    if count == rMaxEntries + 1 then
      match cn' with
      | .leaf es =>
        let (l, r) := splitEntries (·.1) cb' es
        let lb := recalcBoxes (l.map (·.1)) cb'
        let rb := recalcBoxes (r.map (·.1)) cb'
        ((lb, .leaf l) :: rest ++ [(rb, .leaf r)], grown)
      | .inner es =>
        let (l, r) := splitEntries (·.1) cb' es
        let lb := recalcBoxes (l.map (·.1)) cb'
        let rb := recalcBoxes (r.map (·.1)) cb'
        ((lb, .inner l) :: rest ++ [(rb, .inner r)], grown)
    else ((cb', cn') :: rest, grown)
  | k+1, e :: rest =>
    let (rest', grown) := rInsertChild box item k rest
    (e :: rest', grown)
end

structure RTree (α : Type) where
  height : Nat
  root : Option (GBox α × RNode α)

def RTree.empty : RTree α := ⟨0, none⟩

def RNode.count : RNode α → Nat
  | .leaf es => es.length
  | .inner es => es.length

/-- `rTree.insert` -/
def RTree.insert (tr : RTree α) (item : GBox α × Nat) : RTree α :=
  let (rb, rn) := match tr.root with
    | none => (item.1, RNode.leaf [])
    | some r => r
  let (rn', grown) := rInsertNode rb item rn
  let rb' := if grown then rb.expand item.1 else rb
  if rn'.count == rMaxEntries + 1 then
    match rn' with
    | .leaf es =>
      let (l, r) := splitEntries (·.1) rb' es
      let lb := recalcBoxes (l.map (·.1)) rb'
      let rbx := recalcBoxes (r.map (·.1)) rb'
      let newRoot := RNode.inner [(lb, .leaf l), (rbx, .leaf r)]
      ⟨tr.height + 1, some (recalcBoxes [lb, rbx] rb', newRoot)⟩
    | .inner es =>
      let (l, r) := splitEntries (·.1) rb' es
      let lb := recalcBoxes (l.map (·.1)) rb'
      let rbx := recalcBoxes (r.map (·.1)) rb'
      let newRoot := RNode.inner [(lb, .inner l), (rbx, .inner r)]
      ⟨tr.height + 1, some (recalcBoxes [lb, rbx] rb', newRoot)⟩
  else ⟨tr.height, some (rb', rn')⟩

def rBuild (boxOf : Nat → GBox α) (nsegs : Nat) : RTree α :=
  (List.range nsegs).foldl (fun tr i => tr.insert (boxOf i, i)) RTree.empty

/-- tree-level search of the (uncompressed) R-tree, with the node-rect test of
    `rnCompressSearch` (a node is skipped when its rect misses the query). -/
def rSearchTree {σ : Type} (boxOf : Nat → GBox α) (q : GBox α) (f : σ → Nat → σ × Bool) :
    GBox α → RNode α → σ → σ × Bool
  | nb, .leaf entries, s =>
    if !(q.meets nb) then (s, true)
    else visitItems boxOf q f s (entries.map (·.2))
  | nb, .inner entries, s =>
    if !(q.meets nb) then (s, true)
    else
      let rec go : List (GBox α × RNode α) → σ → σ × Bool
        | [], s => (s, true)
        | (cb, cn) :: rest, s =>
          let (s', c) := rSearchTree boxOf q f cb cn s
          if c then go rest s' else (s', false)
      go entries s

variable (enc : α → List Nat)   -- appendFloat: the 8 little-endian bytes of the float

def appendBox (dst : Array Nat) (b : GBox α) : Array Nat :=
  dst ++ (enc b.minx).toArray ++ (enc b.miny).toArray ++ (enc b.maxx).toArray ++ (enc b.maxy).toArray

/-- `rRect.compress` -/
def rCompressNode : GBox α → RNode α → Array Nat → Array Nat
  | nb, .leaf entries, dst =>
    let dst := appendBox enc dst nb
    let dst := dst.push entries.length
    let ib := entries.foldl (fun w e => max w (numBytes e.2)) 1
    let dst := dst.push ib
    entries.foldl (fun d e => appendNum d e.2 ib) dst
  | nb, .inner entries, dst =>
    let dst := appendBox enc dst nb
    let dst := dst.push entries.length
    let markBase := dst.size
    let dst := entries.foldl (fun d _ => d ++ #[0,0,0,0]) dst
    let rec go : List (GBox α × RNode α) → Nat → Array Nat → Array Nat
      | [], _, dst => dst
      | (cb, cn) :: rest, i, dst =>
        let dst := putU32 dst (markBase + 4 * i) dst.size
        go rest (i+1) (rCompressNode cb cn dst)
    go entries 0 dst

def RTree.compress (tr : RTree α) (dst : Array Nat) : Array Nat :=
  match tr.root with
  | none => dst
  | some (rb, rn) => rCompressNode enc rb rn (dst.push tr.height)

variable (dec : List Nat → α)   -- Float64frombits of 8 little-endian bytes

def readBytes (data : Array Nat) (addr : Nat) : Nat → Option (List Nat)
  | 0 => some []
  | k+1 => do
    let b ← data[addr]?
    let rest ← readBytes data (addr+1) k
    pure (b :: rest)

/-- `rnCompressSearch` -/
def rnSearchBytes {σ : Type} (boxOf : Nat → GBox α) (q : GBox α) (f : σ → Nat → σ × Bool)
    (data : Array Nat) : Nat → Nat → σ → Option (σ × Bool)
  | height, addr, s => do
    let b0 ← readBytes data addr 8
    let b1 ← readBytes data (addr+8) 8
    let b2 ← readBytes data (addr+16) 8
    let b3 ← readBytes data (addr+24) 8
    let nrect : GBox α := ⟨dec b0, dec b1, dec b2, dec b3⟩
    let addr := addr + 32
    if !(q.meets nrect) then return (s, true)
    let count ← data[addr]?
    let addr := addr + 1
    match height with
    | 0 =>
      let ib ← data[addr]?
      visitItemsBytes boxOf q f data ib count (addr+1) s
    | h+1 =>
      let rec go (k : Nat) (addr : Nat) (s : σ) : Option (σ × Bool) :=
        match k with
        | 0 => some (s, true)
        | k+1 => do
          let naddr ← readLE data addr 4
          let (s', c) ← rnSearchBytes boxOf q f data h naddr s
          if c then go k (addr+4) s' else return (s', false)
      go count addr s

/-- `rCompressSearch` -/
def rSearchBytes {σ : Type} (boxOf : Nat → GBox α) (q : GBox α) (f : σ → Nat → σ × Bool)
    (data : Array Nat) (addr : Nat) (s : σ) : Option (σ × Bool) :=
  if addr == data.size then some (s, true)
  else do
    let height ← data[addr]?
    rnSearchBytes dec boxOf q f data height (addr+1) s

end
end Geo
