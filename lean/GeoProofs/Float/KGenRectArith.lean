/-
  GeoProofs.Float.KGenRectArith — the generated kernels of rect.go / point.go / segment.go that
  COMPUTE (`rectCenter`, `rectArea`, `pointMove`, `rectMove`, `segmentMove`) at the exact
  binary64 model `KNum FQ`: they equal the exact `Rat` result whenever every intermediate exact
  result is a double (`F64`), in particular on the regime E.
-/
import GeoProofs.Float.KGenRect
import GeoProofs.Float.KGenSeg
set_option linter.unusedSimpArgs false
namespace Geo.F
open Geo

/-- a double is delivered as is (no rounding, no overflow: |x| ≤ (2^53-1)·2^971 = maxF) -/
theorem ofRat_F64 {x : ℚ} (h : F64 x) : ofRat x = .fin x := by
  have hr := rn_of_F64 h
  obtain ⟨m, e, hm, _, he, rfl⟩ := h
  have hm' : |(m : ℚ)| ≤ 2 ^ 53 - 1 := by
    have : |m| ≤ 2 ^ 53 - 1 := by omega
    exact_mod_cast this
  have h2 : (2 : ℚ) ^ e ≤ 2 ^ (971 : ℤ) := two_zpow_le he
  have h2p : (0 : ℚ) < 2 ^ e := zpow_pos (by norm_num) e
  have hmax : maxF = (2 ^ 53 - 1) * 2 ^ (971 : ℤ) := by
    unfold maxF
    rw [show (1024 : ℤ) = 53 + 971 by norm_num, zpow_add₀ (by norm_num)]
    generalize (2 : ℚ) ^ (971 : ℤ) = t
    rw [show (2 : ℚ) ^ (53 : ℤ) = 2 ^ 53 by norm_num]; ring
  have habs : |(m : ℚ) * 2 ^ e| ≤ maxF := by
    rw [abs_mul, abs_of_pos h2p, hmax]
    exact mul_le_mul hm' h2 h2p.le (by norm_num)
  obtain ⟨h1, h3⟩ := abs_le.mp habs
  unfold ofRat
  rw [hr, if_neg (by linarith), if_neg (by linarith)]

theorem kadd_F64 {x y : ℚ} (h : F64 (x + y)) : KNum.add (FQ.fin x) (FQ.fin y) = .fin (x + y) :=
  ofRat_F64 h

theorem ksub_F64 {x y : ℚ} (h : F64 (x - y)) : KNum.sub (FQ.fin x) (FQ.fin y) = .fin (x - y) :=
  ofRat_F64 h

theorem kmul_F64 {x y : ℚ} (h : F64 (x * y)) : KNum.mul (FQ.fin x) (FQ.fin y) = .fin (x * y) :=
  ofRat_F64 h

theorem khalf_F64 {x : ℚ} (h : F64 (x / 2)) :
    KNum.div (FQ.fin x) (KNum.ofNat 2 : FQ) = .fin (x / 2) := by
  rw [kofNat_small 2 (by norm_num)]
  show qdiv _ _ = _
  unfold qdiv
  simp only [Nat.cast_ofNat, OfNat.ofNat_ne_zero, if_false]
  exact ofRat_F64 h

/-! ### exactness conditions, and E implies them -/

theorem InE_add_F64 {x y : ℚ} (hx : InE x) (hy : InE y) : F64 (x + y) :=
  (Dy.add hx hy).F64 (by norm_num) (by norm_num)

theorem InE_half_add_F64 {x y : ℚ} (hx : InE x) (hy : InE y) : F64 ((x + y) / 2) := by
  obtain ⟨k, hk, rfl⟩ := hx; obtain ⟨l, hl, rfl⟩ := hy
  have : Dy 5 (2 ^ 24 + 2 ^ 24) (((k : ℚ) / 2 ^ 4 + l / 2 ^ 4) / 2) :=
    ⟨k + l, (abs_add_le k l).trans (add_le_add hk hl), by push_cast; ring⟩
  exact this.F64 (by norm_num) (by norm_num)

/-- every intermediate result of `Rect.Center` is a double -/
def CenterExact (r : Box) : Prop :=
  F64 (r.max.x + r.min.x) ∧ F64 ((r.max.x + r.min.x) / 2) ∧
  F64 (r.max.y + r.min.y) ∧ F64 ((r.max.y + r.min.y) / 2)

theorem CenterExact.of_E {r : Box} (h1 : PtE r.min) (h2 : PtE r.max) : CenterExact r :=
  ⟨InE_add_F64 h2.1 h1.1, InE_half_add_F64 h2.1 h1.1, InE_add_F64 h2.2 h1.2,
    InE_half_add_F64 h2.2 h1.2⟩

/-- the sums of `Point.Move` are doubles -/
def MoveExact (p : Pt) (dx dy : ℚ) : Prop := F64 (p.x + dx) ∧ F64 (p.y + dy)

theorem MoveExact.of_E {p : Pt} {dx dy : ℚ} (hp : PtE p) (hx : InE dx) (hy : InE dy) :
    MoveExact p dx dy := ⟨InE_add_F64 hp.1 hx, InE_add_F64 hp.2 hy⟩

/-- every intermediate result of `Rect.Area` is a double -/
def AreaExact (r : Box) : Prop :=
  F64 (r.max.x - r.min.x) ∧ F64 (r.max.y - r.min.y) ∧
  F64 ((r.max.x - r.min.x) * (r.max.y - r.min.y))

theorem AreaExact.of_E {r : Box} (h1 : PtE r.min) (h2 : PtE r.max) : AreaExact r :=
  ⟨(h2.1.sub h1.1).F64, (h2.2.sub h1.2).F64, ((h2.1.sub h1.1).mul (h2.2.sub h1.2)).F64⟩

/-- the translate of a point / box / segment in the exact model -/
def ptMove (p : Pt) (dx dy : ℚ) : Pt := ⟨p.x + dx, p.y + dy⟩
def boxMove (r : Box) (dx dy : ℚ) : Box := ⟨ptMove r.min dx dy, ptMove r.max dx dy⟩
def segMove (s : Seg) (dx dy : ℚ) : Seg := ⟨ptMove s.a dx dy, ptMove s.b dx dy⟩

/-! ### the kernels -/

theorem kgen_rectCenter {r : Box} (h : CenterExact r) :
    KGen.rectCenter (upB r) = up r.center := by
  obtain ⟨h1, h2, h3, h4⟩ := h
  simp only [KGen.rectCenter, upB, up, Box.center, kadd_F64 h1, kadd_F64 h3, khalf_F64 h2,
    khalf_F64 h4]

theorem kgen_rectArea {r : Box} (h : AreaExact r) :
    KGen.rectArea (upB r) = .fin r.area := by
  obtain ⟨h1, h2, h3⟩ := h
  simp only [KGen.rectArea, upB, up, Box.area, ksub_F64 h1, ksub_F64 h2, kmul_F64 h3]

theorem kgen_pointMove {p : Pt} {dx dy : ℚ} (h : MoveExact p dx dy) :
    KGen.pointMove (up p) (.fin dx) (.fin dy) = up (ptMove p dx dy) := by
  simp only [KGen.pointMove, up, ptMove, kadd_F64 h.1, kadd_F64 h.2]

theorem kgen_rectMove {r : Box} {dx dy : ℚ} (h1 : MoveExact r.min dx dy)
    (h2 : MoveExact r.max dx dy) :
    KGen.rectMove (upB r) (.fin dx) (.fin dy) = upB (boxMove r dx dy) := by
  simp only [KGen.rectMove, upB, up, boxMove, ptMove, kadd_F64 h1.1, kadd_F64 h1.2,
    kadd_F64 h2.1, kadd_F64 h2.2]

theorem kgen_segmentMove {s : Seg} {dx dy : ℚ} (h1 : MoveExact s.a dx dy)
    (h2 : MoveExact s.b dx dy) :
    KGen.segmentMove (upS s) (.fin dx) (.fin dy) = upS (segMove s dx dy) := by
  simp only [KGen.segmentMove, upS, up, segMove, ptMove, kadd_F64 h1.1, kadd_F64 h1.2,
    kadd_F64 h2.1, kadd_F64 h2.2]

end Geo.F
