/-
  GeoProofs.Props.WriteBridge — the JSON writers of the root package (object.go helpers and every
  `AppendJSON(dst []byte) []byte`), REGENERATED from the current Go source
  (GeoModel/Generated/WriteGen.lean, `translate writers`) and instantiated with the hand model's
  text operations (`WGlue.mops`, GeoProofs/Glue/WriteGlue.lean), compute the hand model
  GeoModel/Write.lean: applied to `dst` they return `dst ++ text` exactly when the model's writer
  returns `some text`, and `none` (a Go panic: slice index / slice bounds out of range) exactly
  when the model returns `none`.

  Instantiation: Buf := String; float64 := the pre-rendered text of the number carried by
  `Pos` / `Extra` (`math.IsNaN t := t == "null"`, `strconv.AppendFloat dst t … := dst ++ t`);
  geometry.Series := List Pos; *extra := Option Extra; Object := Obj, the dynamic dispatch
  `child.AppendJSON(dst)` := `(Geo.write child).map (dst ++ ·)`; gjson := an oracle `gj`.
  Hypotheses (all about data the writers do not produce themselves):
    * `ExOK gj ex`: `Extra.hasProps` is gjson's `Get(members, "properties").Exists()`, and
      `members` is not a 1-character text — there `members[1:len(members)-1]` PANICS while the
      model's `writeExtra` is total (`appendJSONExtra_panic`; unreachable: Parse and NewFeature
      only store "" or a `{…}` text);
    * Polygon: a non-empty `poly` comes with its ring texts (`rings ≠ []`);
    * Rect: the geometry.Poly built by `(*Rect).Polygon()` is not empty (Rect.Empty() = false);
    * Multi*: `GJCoords gj cs`, gjson's "coordinates" of what a child writes is the model's
      `writeCoords` of the child.
-/
import GeoProofs.Glue.WriteGlue

namespace Geo.WriteBridge
open Geo Geo.WGlue

variable (gj : GJ) (rp : Poly)

/-- appendJSONFloat: the pre-rendered text ("null" for NaN / ±Inf) -/
theorem appendJSONFloat_bridge (dst t : String) :
    WGen.appendJSONFloat (mops gj rp) dst t = some (dst ++ t) :=
  appendJSONFloat_eq gj rp writeRec dst t

/-- appendJSONPoint = writePos; none = `ex.values[idx*dims+i]` out of range -/
theorem appendJSONPoint_bridge (dst : String) (pos : Pos) (ex : Option Extra) (idx : Nat) :
    WGen.appendJSONPoint (mops gj rp) dst pos ex (idx : Int) = (writePos pos ex idx).map (dst ++ ·) :=
  appendJSONPoint_eq gj rp writeRec dst pos ex idx

/-- (*extra).appendJSONExtra = writeExtra -/
theorem appendJSONExtra_bridge (ex : Option Extra) (dst : String) (req : Bool) (h : ExOK gj ex) :
    WGen.extra_appendJSONExtra (mops gj rp) ex dst req = some (dst ++ writeExtra ex req) :=
  appendJSONExtra_eq gj rp writeRec ex dst req h

/-- … and where the hand model differs: a 1-character `members` panics in Go -/
theorem appendJSONExtra_panic_bridge (e : Extra) (dst : String) (req : Bool) (h : e.members.length = 1) :
    WGen.extra_appendJSONExtra (mops gj rp) (some e) dst req = none :=
  appendJSONExtra_panic gj rp writeRec e dst req h

/-- appendJSONSeries = writeSeries (text and next position index) -/
theorem appendJSONSeries_bridge (dst : String) (poss : List Pos) (ex : Option Extra) (pidx : Nat) :
    WGen.appendJSONSeries (mops gj rp) dst poss ex (pidx : Int) =
      (writeSeries poss ex pidx).map (fun r => (dst ++ r.1, (r.2 : Int))) :=
  appendJSONSeries_eq gj rp writeRec dst poss ex pidx

theorem Point_bridge (pos : Pos) (ex : Option Extra) (dst : String) (h : ExOK gj ex) :
    WGen.Point_AppendJSON (mops gj rp) (pos, ex) dst = (write (.point pos ex)).map (dst ++ ·) :=
  Point_AppendJSON_eq gj rp writeRec pos ex dst h

theorem SimplePoint_bridge (pos : Pos) (dst : String) :
    WGen.SimplePoint_AppendJSON (mops gj rp) pos dst = (write (.spoint pos)).map (dst ++ ·) :=
  SimplePoint_AppendJSON_eq gj rp writeRec pos dst

theorem LineString_bridge (l : Line) (poss : List Pos) (ex : Option Extra) (dst : String) (h : ExOK gj ex) :
    WGen.LineString_AppendJSON (mops gj rp) (poss, ex) dst = (write (.lineString l poss ex)).map (dst ++ ·) :=
  LineString_AppendJSON_eq gj rp writeRec l poss ex dst h

theorem Polygon_bridge (poly : Poly) (rings : List (List Pos)) (ex : Option Extra) (dst : String)
    (h : ExOK gj ex) (hr : poly.empty = false → rings ≠ []) :
    WGen.Polygon_AppendJSON (mops gj rp) ((poly, rings), ex) dst =
      (write (.polygon poly rings ex)).map (dst ++ ·) :=
  Polygon_AppendJSON_eq gj rp writeRec poly rings ex dst h hr

theorem Rect_bridge (b : Box) (lo hi : Pos) (dst : String) (hrp : rp.empty = false) :
    WGen.Rect_AppendJSON (mops gj rp) (b, lo, hi) dst = (write (.rectO b lo hi)).map (dst ++ ·) :=
  Rect_AppendJSON_eq gj rp writeRec b lo hi dst hrp (fun _ => rfl)

theorem MultiPoint_bridge (cs : List Obj) (ex : Option Extra) (idx : Bool) (dst : String)
    (h : ExOK gj ex) (hg : GJCoords gj cs) :
    WGen.MultiPoint_AppendJSON (mops gj rp) (cs, ex) dst =
      (write (.coll .multiPoint cs ex idx)).map (dst ++ ·) :=
  MultiPoint_AppendJSON_eq gj rp writeRec cs ex idx dst h hg (fun _ _ _ => rfl)

theorem MultiLineString_bridge (cs : List Obj) (ex : Option Extra) (idx : Bool) (dst : String)
    (h : ExOK gj ex) (hg : GJCoords gj cs) :
    WGen.MultiLineString_AppendJSON (mops gj rp) (cs, ex) dst =
      (write (.coll .multiLineString cs ex idx)).map (dst ++ ·) :=
  MultiLineString_AppendJSON_eq gj rp writeRec cs ex idx dst h hg (fun _ _ _ => rfl)

theorem MultiPolygon_bridge (cs : List Obj) (ex : Option Extra) (idx : Bool) (dst : String)
    (h : ExOK gj ex) (hg : GJCoords gj cs) :
    WGen.MultiPolygon_AppendJSON (mops gj rp) (cs, ex) dst =
      (write (.coll .multiPolygon cs ex idx)).map (dst ++ ·) :=
  MultiPolygon_AppendJSON_eq gj rp writeRec cs ex idx dst h hg (fun _ _ _ => rfl)

theorem GeometryCollection_bridge (cs : List Obj) (ex : Option Extra) (idx : Bool) (dst : String)
    (h : ExOK gj ex) :
    WGen.GeometryCollection_AppendJSON (mops gj rp) (cs, ex) dst =
      (write (.coll .geometryCollection cs ex idx)).map (dst ++ ·) :=
  GeometryCollection_AppendJSON_eq gj rp writeRec cs ex idx dst h (fun _ _ _ => rfl)

theorem FeatureCollection_bridge (cs : List Obj) (ex : Option Extra) (idx : Bool) (dst : String)
    (h : ExOK gj ex) :
    WGen.FeatureCollection_AppendJSON (mops gj rp) (cs, ex) dst =
      (write (.coll .featureCollection cs ex idx)).map (dst ++ ·) :=
  FeatureCollection_AppendJSON_eq gj rp writeRec cs ex idx dst h (fun _ _ _ => rfl)

theorem Feature_bridge (base : Obj) (ex : Option Extra) (dst : String) (h : ExOK gj ex) :
    WGen.Feature_AppendJSON (mops gj rp) (base, ex) dst = (write (.feature base ex)).map (dst ++ ·) :=
  Feature_AppendJSON_eq gj rp writeRec base ex dst h (fun _ => rfl)

theorem Circle_bridge (c : Pos) (radius : String) (dst : String) :
    WGen.Circle_AppendJSON (mops gj rp) (c, radius) dst = (write (.circle c radius)).map (dst ++ ·) :=
  Circle_AppendJSON_eq gj rp writeRec c radius dst

/-- (*collection).AppendJSON ("this should never be called"): no object of the model -/
theorem collection_bridge (g : MColl) (dst : String) :
    WGen.collection_AppendJSON (mops gj rp) g dst = some (dst ++ "null") :=
  collection_AppendJSON_eq gj rp writeRec g dst

/-! ### the whole method set: AppendJSON selected by the dynamic type -/

/-- `o.AppendJSON(dst)`: the generated method of the dynamic type of `o`, the dynamic dispatch on
    its children being `rec` -/
def appendJSONR (rec : Obj → String → Option String) : Obj → String → Option String
  | .point pos ex, dst => WGen.Point_AppendJSON (mopsR gj rp rec) (pos, ex) dst
  | .spoint pos, dst => WGen.SimplePoint_AppendJSON (mopsR gj rp rec) pos dst
  | .lineString _ poss ex, dst => WGen.LineString_AppendJSON (mopsR gj rp rec) (poss, ex) dst
  | .polygon poly rings ex, dst => WGen.Polygon_AppendJSON (mopsR gj rp rec) ((poly, rings), ex) dst
  | .rectO b lo hi, dst => WGen.Rect_AppendJSON (mopsR gj rp rec) (b, lo, hi) dst
  | .coll .multiPoint cs ex _, dst => WGen.MultiPoint_AppendJSON (mopsR gj rp rec) (cs, ex) dst
  | .coll .multiLineString cs ex _, dst => WGen.MultiLineString_AppendJSON (mopsR gj rp rec) (cs, ex) dst
  | .coll .multiPolygon cs ex _, dst => WGen.MultiPolygon_AppendJSON (mopsR gj rp rec) (cs, ex) dst
  | .coll .geometryCollection cs ex _, dst => WGen.GeometryCollection_AppendJSON (mopsR gj rp rec) (cs, ex) dst
  | .coll .featureCollection cs ex _, dst => WGen.FeatureCollection_AppendJSON (mopsR gj rp rec) (cs, ex) dst
  | .feature base ex, dst => WGen.Feature_AppendJSON (mopsR gj rp rec) (base, ex) dst
  | .circle c radius, dst => WGen.Circle_AppendJSON (mopsR gj rp rec) (c, radius) dst

/-- … with the children written by the model's own `write` -/
def appendJSON : Obj → String → Option String := appendJSONR gj rp writeRec

/-- what the statement needs from the node being written (its children go through `write`) -/
def NodeOK : Obj → Prop
  | .point _ ex => ExOK gj ex
  | .spoint _ => True
  | .lineString _ _ ex => ExOK gj ex
  | .polygon poly rings ex => ExOK gj ex ∧ (poly.empty = false → rings ≠ [])
  | .rectO _ _ _ => True
  | .coll .geometryCollection _ ex _ => ExOK gj ex
  | .coll .featureCollection _ ex _ => ExOK gj ex
  | .coll _ cs ex _ => ExOK gj ex ∧ GJCoords gj cs
  | .feature _ ex => ExOK gj ex
  | .circle _ _ => True

/-- the model's `write` satisfies the recursion equation of the generated writers: with the
    dynamic dispatch on children instantiated by `write`, every generated AppendJSON computes
    `write` (text appended to `dst`; `none` = panic) -/
theorem appendJSON_bridge (hrp : rp.empty = false) (o : Obj) (dst : String) (h : NodeOK gj o) :
    appendJSON gj rp o dst = (write o).map (dst ++ ·) := by
  cases o with
  | point pos ex => exact Point_bridge gj rp pos ex dst h
  | spoint pos => exact SimplePoint_bridge gj rp pos dst
  | lineString l poss ex => exact LineString_bridge gj rp l poss ex dst h
  | polygon poly rings ex => exact Polygon_bridge gj rp poly rings ex dst h.1 h.2
  | rectO b lo hi => exact Rect_bridge gj rp b lo hi dst hrp
  | coll kind cs ex idx =>
    cases kind with
    | multiPoint => exact MultiPoint_bridge gj rp cs ex idx dst h.1 h.2
    | multiLineString => exact MultiLineString_bridge gj rp cs ex idx dst h.1 h.2
    | multiPolygon => exact MultiPolygon_bridge gj rp cs ex idx dst h.1 h.2
    | geometryCollection => exact GeometryCollection_bridge gj rp cs ex idx dst h
    | featureCollection => exact FeatureCollection_bridge gj rp cs ex idx dst h
  | feature base ex => exact Feature_bridge gj rp base ex dst h
  | circle c radius => exact Circle_bridge gj rp c radius dst

/-! ### uniqueness: the generated recursion equations determine `write` -/

mutual
/-- `NodeOK` at every node -/
def AllOK : Obj → Prop
  | .coll k cs ex i => NodeOK gj (.coll k cs ex i) ∧ AllOKL cs
  | .feature b ex => NodeOK gj (.feature b ex) ∧ AllOK b
  | .point pos ex => NodeOK gj (.point pos ex)
  | .spoint _ => True
  | .lineString l poss ex => NodeOK gj (.lineString l poss ex)
  | .polygon p rings ex => NodeOK gj (.polygon p rings ex)
  | .rectO _ _ _ => True
  | .circle _ _ => True
def AllOKL : List Obj → Prop
  | [] => True
  | c :: cs => AllOK c ∧ AllOKL cs
end

mutual
/-- any `f` that solves the generated equations (every object is written by the generated method
    of its dynamic type, children dispatched through `f` itself) is the model's `write` -/
theorem write_unique (hrp : rp.empty = false) (f : Obj → String → Option String)
    (hf : ∀ o dst, f o dst = appendJSONR gj rp f o dst) :
    ∀ (o : Obj), AllOK gj o → ∀ dst, f o dst = (write o).map (dst ++ ·)
  | .point pos ex, h, dst => (hf _ _).trans (Point_AppendJSON_eq gj rp f pos ex dst h)
  | .spoint pos, _, dst => (hf _ _).trans (SimplePoint_AppendJSON_eq gj rp f pos dst)
  | .lineString l poss ex, h, dst => (hf _ _).trans (LineString_AppendJSON_eq gj rp f l poss ex dst h)
  | .polygon poly rings ex, h, dst => (hf _ _).trans (Polygon_AppendJSON_eq gj rp f poly rings ex dst h.1 h.2)
  | .rectO b lo hi, _, dst =>
    (hf _ _).trans (Rect_AppendJSON_eq gj rp f b lo hi dst hrp (fun d =>
      (hf _ _).trans (Polygon_AppendJSON_eq gj rp f rp [rectRing lo hi] none d trivial (fun _ => by simp))))
  | .coll .multiPoint cs ex idx, h, dst =>
    (hf _ _).trans (MultiPoint_AppendJSON_eq gj rp f cs ex idx dst h.1.1 h.1.2 (write_uniqueL hrp f hf cs h.2))
  | .coll .multiLineString cs ex idx, h, dst =>
    (hf _ _).trans (MultiLineString_AppendJSON_eq gj rp f cs ex idx dst h.1.1 h.1.2 (write_uniqueL hrp f hf cs h.2))
  | .coll .multiPolygon cs ex idx, h, dst =>
    (hf _ _).trans (MultiPolygon_AppendJSON_eq gj rp f cs ex idx dst h.1.1 h.1.2 (write_uniqueL hrp f hf cs h.2))
  | .coll .geometryCollection cs ex idx, h, dst =>
    (hf _ _).trans (GeometryCollection_AppendJSON_eq gj rp f cs ex idx dst h.1 (write_uniqueL hrp f hf cs h.2))
  | .coll .featureCollection cs ex idx, h, dst =>
    (hf _ _).trans (FeatureCollection_AppendJSON_eq gj rp f cs ex idx dst h.1 (write_uniqueL hrp f hf cs h.2))
  | .feature base ex, h, dst =>
    (hf _ _).trans (Feature_AppendJSON_eq gj rp f base ex dst h.1 (write_unique hrp f hf base h.2))
  | .circle c radius, _, dst => (hf _ _).trans (Circle_AppendJSON_eq gj rp f c radius dst)
theorem write_uniqueL (hrp : rp.empty = false) (f : Obj → String → Option String)
    (hf : ∀ o dst, f o dst = appendJSONR gj rp f o dst) :
    ∀ (cs : List Obj), AllOKL gj cs → ∀ c ∈ cs, ∀ d, f c d = (write c).map (d ++ ·)
  | [], _, _, hc, _ => absurd hc List.not_mem_nil
  | c0 :: cs, h, c, hc, d => by
    rcases List.mem_cons.1 hc with e | hc'
    · rw [e]; exact write_unique hrp f hf c0 h.1 d
    · exact write_uniqueL hrp f hf cs h.2 c hc' d
end

end Geo.WriteBridge

#print axioms Geo.WriteBridge.write_unique
#print axioms Geo.WriteBridge.appendJSONFloat_bridge
#print axioms Geo.WriteBridge.appendJSONPoint_bridge
#print axioms Geo.WriteBridge.appendJSONExtra_bridge
#print axioms Geo.WriteBridge.appendJSONExtra_panic_bridge
#print axioms Geo.WriteBridge.appendJSONSeries_bridge
#print axioms Geo.WriteBridge.Point_bridge
#print axioms Geo.WriteBridge.SimplePoint_bridge
#print axioms Geo.WriteBridge.LineString_bridge
#print axioms Geo.WriteBridge.Polygon_bridge
#print axioms Geo.WriteBridge.Rect_bridge
#print axioms Geo.WriteBridge.MultiPoint_bridge
#print axioms Geo.WriteBridge.MultiLineString_bridge
#print axioms Geo.WriteBridge.MultiPolygon_bridge
#print axioms Geo.WriteBridge.GeometryCollection_bridge
#print axioms Geo.WriteBridge.FeatureCollection_bridge
#print axioms Geo.WriteBridge.Feature_bridge
#print axioms Geo.WriteBridge.Circle_bridge
#print axioms Geo.WriteBridge.collection_bridge
#print axioms Geo.WriteBridge.appendJSON_bridge
