/-
  GeoModel.Series — model of geometry/series.go (after the D2 fix): processPoints,
  NumSegments / SegmentAt / Empty / Valid, index construction and Search dispatch, Move.
-/
import GeoModel.Kernel
import GeoModel.Index
namespace Geo

instance : Carrier Rat where
  lt a b := decide (a < b)
  mid a b := (a + b) / 2
  sub a b := a - b
  mul a b := a * b
  one := 1
  zero := 0

def Box.g (b : Box) : GBox Rat := ⟨b.min.x, b.min.y, b.max.x, b.max.y⟩

inductive IndexKind where
  | none | rtree | quadtree
deriving DecidableEq, Repr, Inhabited

structure ProcRes where
  convex : Bool
  rect : Box
  clockwise : Bool
deriving DecidableEq, Repr, Inhabited

/-- state of the processPoints loop -/
structure ProcSt where
  rect : Box
  dir : Int
  concave : Bool
  cwc : Rat
deriving Repr, Inhabited

/-- one iteration of the loop for index `i` (of `npoints` effective vertices). -/
def procStep (pts : Array Pt) (npoints : Nat) (st : ProcSt) (i : Nat) : ProcSt :=
  let pi := pts[i]!
  let rect : Box :=
    if i == 0 then ⟨pi, pi⟩
    else
      let minx := if pi.x < st.rect.min.x then pi.x else st.rect.min.x
      let maxx := if pi.x < st.rect.min.x then st.rect.max.x else if pi.x > st.rect.max.x then pi.x else st.rect.max.x
      let miny := if pi.y < st.rect.min.y then pi.y else st.rect.min.y
      let maxy := if pi.y < st.rect.min.y then st.rect.max.y else if pi.y > st.rect.max.y then pi.y else st.rect.max.y
      ⟨⟨minx, miny⟩, ⟨maxx, maxy⟩⟩
  let a := pi
  let (b, c) :=
    if i == npoints - 1 then (pts[0]!, pts[1]!)
    else if i == npoints - 2 then (pts[i+1]!, pts[0]!)
    else (pts[i+1]!, pts[i+2]!)
  let cwc := st.cwc + (b.x - a.x) * (b.y + a.y)
  if st.concave then { st with rect := rect, cwc := cwc }
  else
    let z := (b.x - a.x) * (c.y - b.y) - (b.y - a.y) * (c.x - b.x)
    let (dir, concave) : Int × Bool :=
      if st.dir == 0 then
        if z < 0 then (-1, false) else if z > 0 then (1, false) else (0, false)
      else if z < 0 then
        if st.dir == 1 then (st.dir, true) else (st.dir, false)
      else if z > 0 then
        if st.dir == -1 then (st.dir, true) else (st.dir, false)
      else (st.dir, false)
    ⟨rect, dir, concave, cwc⟩

def processPoints (pts : Array Pt) (closed : Bool) : ProcRes :=
  if (closed && pts.size < 3) || pts.size < 2 then ⟨false, ⟨⟨0,0⟩,⟨0,0⟩⟩, false⟩
  else
    let npoints := if closed && pts[pts.size - 1]! == pts[0]! then pts.size - 1 else pts.size
    let st := (List.range npoints).foldl (procStep pts npoints) ⟨⟨⟨0,0⟩,⟨0,0⟩⟩, 0, false, 0⟩
    ⟨!st.concave, st.rect, decide (st.cwc > 0)⟩

structure Series where
  pts : Array Pt
  closed : Bool
  convex : Bool
  clockwise : Bool
  rect : Box
  index : Option (Array Nat)   -- the compressed index bytes
deriving Repr, Inhabited

def numSegmentsOf (pts : Array Pt) (closed : Bool) : Nat :=
  if closed then
    if pts.size < 3 then 0
    else if pts[pts.size - 1]! == pts[0]! then pts.size - 1
    else pts.size
  else if pts.size < 2 then 0
  else pts.size - 1

def segmentAtOf (pts : Array Pt) (i : Nat) : Seg :=
  ⟨pts[i]!, if i == pts.size - 1 then pts[0]! else pts[i+1]!⟩

def Series.numSegments (s : Series) : Nat := numSegmentsOf s.pts s.closed
def Series.segmentAt (s : Series) (i : Nat) : Seg := segmentAtOf s.pts i
def Series.numPoints (s : Series) : Nat := s.pts.size
def Series.empty (s : Series) : Bool := (s.closed && s.pts.size < 3) || s.pts.size < 2

def Pt.valid (p : Pt) : Bool :=
  decide (p.x ≥ -180) && decide (p.x ≤ 180) && decide (p.y ≥ -90) && decide (p.y ≤ 90)

def Series.valid (s : Series) : Bool := s.pts.all Pt.valid

/-! ### float64 bits of a dyadic rational (driver side of the R-tree byte comparison) -/

/-- IEEE-754 binary64 bit pattern of an exactly representable rational (normal range). -/
def f64bits (q : Rat) : Nat :=
  if q = 0 then 0
  else
    let sign : Nat := if q < 0 then 1 else 0
    let n := q.num.natAbs
    let d := q.den          -- a power of two for dyadics
    -- value = n / d, with n odd-or-not; write n = m * 2^k, find exponent of the leading bit
    let hb := Nat.log2 n    -- leading bit of n
    let ld := Nat.log2 d    -- d = 2^ld
    let e : Int := (hb : Int) - (ld : Int)
    let mant : Nat := if hb ≤ 52 then (n <<< (52 - hb)) % (2^52) else (n >>> (hb - 52)) % (2^52)
    let biased : Nat := (e + 1023).toNat
    sign * 2^63 + biased * 2^52 + mant

def encF64 (q : Rat) : List Nat := leBytes (f64bits q) 8

/-- inverse of `encF64` on dyadic rationals (normal range). -/
def decF64 (bs : List Nat) : Rat :=
  let bits : Nat := bs.foldr (fun b acc => b + 256 * acc) 0
  if bits % 2^63 = 0 then 0
  else
    let sign : Nat := bits / 2^63
    let biased : Nat := (bits / 2^52) % 2^11
    let mant : Nat := bits % 2^52 + 2^52
    let v : Rat :=
      if biased ≥ 1075 then ((mant * 2^(biased - 1075) : Nat) : Rat)
      else (mant : Rat) / ((2^(1075 - biased) : Nat) : Rat)
    if sign = 1 then -v else v

/-- makeSeries -/
def buildIndexBytes (pts : Array Pt) (closed : Bool) (rect : Box) (kind : IndexKind) : Option (Array Nat) :=
  let n := numSegmentsOf pts closed
  let boxOf (i : Nat) : GBox Rat := (segmentAtOf pts i).box.g
  let setCompressed (data : Array Nat) : Array Nat := putU32 data 1 data.size
  match kind with
  | .none => none
  | .rtree => some (setCompressed ((rBuild boxOf n).compress encF64 #[1,0,0,0,0]))
  | .quadtree => some (setCompressed (qCompress (qBuild boxOf rect.g n) #[2,0,0,0,0]))

def mkSeries (pts : Array Pt) (closed : Bool) (kind : IndexKind) (minPoints : Nat) : Series :=
  let pr := processPoints pts closed
  let idx := if minPoints != 0 && pts.size ≥ minPoints then buildIndexBytes pts closed pr.rect kind else none
  ⟨pts, closed, pr.convex, pr.clockwise, pr.rect, idx⟩

/-- outcome of a search that may hit a decoding panic -/
inductive Outcome (σ : Type) where
  | ok (s : σ)
  | panic
deriving Repr

/-- baseSeries.Search in callback style. -/
def Series.search {σ : Type} (s : Series) (q : Box) (f : σ → Seg → Nat → σ × Bool) (st : σ) : Outcome σ :=
  let boxOf (i : Nat) : GBox Rat := (s.segmentAt i).box.g
  let f' (st : σ) (i : Nat) : σ × Bool := f st (s.segmentAt i) i
  match s.index with
  | none =>
    .ok (visitItems boxOf q.g f' st (List.range s.numSegments)).1
  | some data =>
    -- n := Uint32(data[1:]); data = data[:n:n]
    match readLE data 1 4 with
    | none => .panic
    | some n =>
      if n > data.size then .panic else
      let data := data.extract 0 n
      match data[0]? with
      | some 1 => match rSearchBytes decF64 boxOf q.g f' data 5 st with
                  | some r => .ok r.1 | none => .panic
      | some 2 => match qSearchBytes boxOf q.g f' data (qMaxDepth + 2) 5 s.rect.g st with
                  | some r => .ok r.1 | none => .panic
      | some _ => .ok st
      | none => .panic

def Outcome.get {σ : Type} (o : Outcome σ) (dflt : σ) : σ := match o with | .ok s => s | .panic => dflt

/-- baseSeries.Move: default options first, then the original kind if an index existed. -/
def Series.move (s : Series) (dx dy : Rat) : Series :=
  let pts := s.pts.map (fun p => ⟨p.x + dx, p.y + dy⟩)
  -- makeSeries(points, false, closed, nil) → DefaultIndexOptions {QuadTree, 64}
  let n := mkSeries pts s.closed .quadtree 64
  -- nseries.indexKind = series.indexKind; if series.Index() != nil { nseries.buildIndex() }
  -- buildIndex is a no-op when an index was already built.
  match s.index with
  | none => n
  | some data =>
    match n.index with
    | some _ => n
    | none =>
      let kind := match data[0]? with | some 1 => IndexKind.rtree | some 2 => IndexKind.quadtree | _ => IndexKind.none
      { n with index := buildIndexBytes pts s.closed n.rect kind }

end Geo
