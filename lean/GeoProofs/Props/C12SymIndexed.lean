/-
  C12 (lattice symmetries of `intersects`: reflections, transposition, quarter turn, point
  reflection) lifted from un-indexed shapes to shapes carrying ANY segment-index configuration,
  by composing `geom_intersects_index_indep` (C04) with `geom_intersects_reflX/...` (C12Sym).
-/
import GeoProofs.Props.C04Indep
import GeoProofs.Props.C12Sym

namespace Geo
namespace C12SymIndexed
open Sym IX

/-- the configuration of a specification shape: every series gets the same index kind and
    threshold (closedness as `build`: line strings open, rings closed) -/
def GCfg.ofShape (S : Spec.Shape) (kind : IndexKind) (minPoints : Nat) : GCfg :=
  match S with
  | .point p => .point p
  | .rect lo hi => .rect ⟨lo, hi⟩
  | .line pts => .line ⟨pts.toArray, kind, minPoints⟩
  | .poly ext holes => .poly ⟨ext.toArray, kind, minPoints⟩
      (holes.map (fun h => ⟨h.toArray, kind, minPoints⟩))

/-- without its indexes, the configuration is `build S` (every kind of shape, no restriction) -/
theorem ofShape_plain (S : Spec.Shape) (kind : IndexKind) (m : Nat) :
    (GCfg.ofShape S kind m).plain = build S := by
  cases S with
  | point p => rfl
  | rect lo hi => rfl
  | line pts => rfl
  | poly ext holes =>
    simp only [GCfg.ofShape, GCfg.plain, build, SerCfg.ring0, List.map_map, Geom.poly.injEq,
      Poly.mk.injEq, true_and]
    rfl

/-- **generic lifting**: a symmetry statement for the un-indexed builds holds for any index
    configurations of the four shapes -/
theorem geom_intersects_sym_indexed (A B A' B' : Spec.Shape) (a b a' b' : GCfg)
    (hsym : (build A').intersects (build B') = (build A).intersects (build B))
    (ha : a.Exact) (hb : b.Exact) (ha' : a'.Exact) (hb' : b'.Exact)
    (hpa : a.plain = build A) (hpb : b.plain = build B)
    (hpa' : a'.plain = build A') (hpb' : b'.plain = build B') :
    a'.build.intersects b'.build = a.build.intersects b.build := by
  rw [geom_intersects_index_indep a' b' ha' hb', geom_intersects_index_indep a b ha hb,
    hpa, hpb, hpa', hpb']
  exact hsym

/-- the same for `GCfg.ofShape` configurations -/
theorem geom_intersects_sym_ofShape (A B A' B' : Spec.Shape)
    (hsym : (build A').intersects (build B') = (build A).intersects (build B))
    (k1 k2 k1' k2' : IndexKind) (m1 m2 m1' m2' : Nat)
    (ha : (GCfg.ofShape A k1 m1).Exact) (hb : (GCfg.ofShape B k2 m2).Exact)
    (ha' : (GCfg.ofShape A' k1' m1').Exact) (hb' : (GCfg.ofShape B' k2' m2').Exact) :
    (GCfg.ofShape A' k1' m1').build.intersects (GCfg.ofShape B' k2' m2').build =
      (GCfg.ofShape A k1 m1).build.intersects (GCfg.ofShape B k2 m2).build :=
  geom_intersects_sym_indexed A B A' B' _ _ _ _ hsym ha hb ha' hb'
    (ofShape_plain _ _ _) (ofShape_plain _ _ _) (ofShape_plain _ _ _) (ofShape_plain _ _ _)

theorem geom_intersects_reflX_indexed (A B : Spec.Shape) (hA : A.valid = true) (hB : B.valid = true)
    (hcA : HolesConvexOK A) (hcB : HolesConvexOK B)
    (k1 k2 k1' k2' : IndexKind) (m1 m2 m1' m2' : Nat)
    (ha : (GCfg.ofShape A k1 m1).Exact) (hb : (GCfg.ofShape B k2 m2).Exact)
    (ha' : (GCfg.ofShape (A.mapPts Pt.reflX) k1' m1').Exact)
    (hb' : (GCfg.ofShape (B.mapPts Pt.reflX) k2' m2').Exact) :
    (GCfg.ofShape (A.mapPts Pt.reflX) k1' m1').build.intersects
        (GCfg.ofShape (B.mapPts Pt.reflX) k2' m2').build =
      (GCfg.ofShape A k1 m1).build.intersects (GCfg.ofShape B k2 m2).build :=
  geom_intersects_sym_ofShape A B _ _ (geom_intersects_reflX A B hA hB hcA hcB)
    k1 k2 k1' k2' m1 m2 m1' m2' ha hb ha' hb'

theorem geom_intersects_reflY_indexed (A B : Spec.Shape) (hA : A.valid = true) (hB : B.valid = true)
    (hcA : HolesConvexOK A) (hcB : HolesConvexOK B)
    (k1 k2 k1' k2' : IndexKind) (m1 m2 m1' m2' : Nat)
    (ha : (GCfg.ofShape A k1 m1).Exact) (hb : (GCfg.ofShape B k2 m2).Exact)
    (ha' : (GCfg.ofShape (A.mapPts Pt.reflY) k1' m1').Exact)
    (hb' : (GCfg.ofShape (B.mapPts Pt.reflY) k2' m2').Exact) :
    (GCfg.ofShape (A.mapPts Pt.reflY) k1' m1').build.intersects
        (GCfg.ofShape (B.mapPts Pt.reflY) k2' m2').build =
      (GCfg.ofShape A k1 m1).build.intersects (GCfg.ofShape B k2 m2).build :=
  geom_intersects_sym_ofShape A B _ _ (geom_intersects_reflY A B hA hB hcA hcB)
    k1 k2 k1' k2' m1 m2 m1' m2' ha hb ha' hb'

theorem geom_intersects_transpose_indexed (A B : Spec.Shape) (hA : A.valid = true)
    (hB : B.valid = true) (hcA : HolesConvexOK A) (hcB : HolesConvexOK B)
    (k1 k2 k1' k2' : IndexKind) (m1 m2 m1' m2' : Nat)
    (ha : (GCfg.ofShape A k1 m1).Exact) (hb : (GCfg.ofShape B k2 m2).Exact)
    (ha' : (GCfg.ofShape (A.mapPts Pt.transpose) k1' m1').Exact)
    (hb' : (GCfg.ofShape (B.mapPts Pt.transpose) k2' m2').Exact) :
    (GCfg.ofShape (A.mapPts Pt.transpose) k1' m1').build.intersects
        (GCfg.ofShape (B.mapPts Pt.transpose) k2' m2').build =
      (GCfg.ofShape A k1 m1).build.intersects (GCfg.ofShape B k2 m2).build :=
  geom_intersects_sym_ofShape A B _ _ (geom_intersects_transpose A B hA hB hcA hcB)
    k1 k2 k1' k2' m1 m2 m1' m2' ha hb ha' hb'

/-- quarter turn (x, y) ↦ (-y, x): the turned shape is `(A.mapPts Pt.transpose).mapPts Pt.reflX`
    (the form of `geom_intersects_rot90`; `Pt.rot90 p = p.transpose.reflX` by `rot90_eq`) -/
theorem geom_intersects_rot90_indexed (A B : Spec.Shape) (hA : A.valid = true)
    (hB : B.valid = true) (hcA : HolesConvexOK A) (hcB : HolesConvexOK B)
    (k1 k2 k1' k2' : IndexKind) (m1 m2 m1' m2' : Nat)
    (ha : (GCfg.ofShape A k1 m1).Exact) (hb : (GCfg.ofShape B k2 m2).Exact)
    (ha' : (GCfg.ofShape ((A.mapPts Pt.transpose).mapPts Pt.reflX) k1' m1').Exact)
    (hb' : (GCfg.ofShape ((B.mapPts Pt.transpose).mapPts Pt.reflX) k2' m2').Exact) :
    (GCfg.ofShape ((A.mapPts Pt.transpose).mapPts Pt.reflX) k1' m1').build.intersects
        (GCfg.ofShape ((B.mapPts Pt.transpose).mapPts Pt.reflX) k2' m2').build =
      (GCfg.ofShape A k1 m1).build.intersects (GCfg.ofShape B k2 m2).build :=
  geom_intersects_sym_ofShape A B _ _ (geom_intersects_rot90 A B hA hB hcA hcB)
    k1 k2 k1' k2' m1 m2 m1' m2' ha hb ha' hb'

/-- point reflection (x, y) ↦ (-x, -y): the shape is `(A.mapPts Pt.reflY).mapPts Pt.reflX` -/
theorem geom_intersects_neg_indexed (A B : Spec.Shape) (hA : A.valid = true)
    (hB : B.valid = true) (hcA : HolesConvexOK A) (hcB : HolesConvexOK B)
    (k1 k2 k1' k2' : IndexKind) (m1 m2 m1' m2' : Nat)
    (ha : (GCfg.ofShape A k1 m1).Exact) (hb : (GCfg.ofShape B k2 m2).Exact)
    (ha' : (GCfg.ofShape ((A.mapPts Pt.reflY).mapPts Pt.reflX) k1' m1').Exact)
    (hb' : (GCfg.ofShape ((B.mapPts Pt.reflY).mapPts Pt.reflX) k2' m2').Exact) :
    (GCfg.ofShape ((A.mapPts Pt.reflY).mapPts Pt.reflX) k1' m1').build.intersects
        (GCfg.ofShape ((B.mapPts Pt.reflY).mapPts Pt.reflX) k2' m2').build =
      (GCfg.ofShape A k1 m1).build.intersects (GCfg.ofShape B k2 m2).build :=
  geom_intersects_sym_ofShape A B _ _ (geom_intersects_neg A B hA hB hcA hcB)
    k1 k2 k1' k2' m1 m2 m1' m2' ha hb ha' hb'

/-- for shapes other than rectangles the composed image is the image under `Pt.rot90` -/
theorem mapPts_rot90_eq (A : Spec.Shape) (hr : A.isRect = false) :
    A.mapPts Pt.rot90 = (A.mapPts Pt.transpose).mapPts Pt.reflX := by
  cases A with
  | point p => rfl
  | rect lo hi => simp [Spec.Shape.isRect] at hr
  | line pts => simp only [Spec.Shape.mapPts, List.map_map]; rfl
  | poly ext holes =>
    simp only [Spec.Shape.mapPts, List.map_map, Spec.Shape.poly.injEq]
    refine ⟨rfl, ?_⟩
    apply List.map_congr_left
    intro h _
    simp only [Function.comp, List.map_map]
    rfl

theorem mapPts_neg_eq (A : Spec.Shape) (hr : A.isRect = false) :
    A.mapPts Pt.neg = (A.mapPts Pt.reflY).mapPts Pt.reflX := by
  cases A with
  | point p => rfl
  | rect lo hi => simp [Spec.Shape.isRect] at hr
  | line pts => simp only [Spec.Shape.mapPts, List.map_map]; rfl
  | poly ext holes =>
    simp only [Spec.Shape.mapPts, List.map_map, Spec.Shape.poly.injEq]
    refine ⟨rfl, ?_⟩
    apply List.map_congr_left
    intro h _
    simp only [Function.comp, List.map_map]
    rfl

/-- quarter turn stated with `Pt.rot90`, shapes other than rectangles -/
theorem geom_intersects_rot90_indexed' (A B : Spec.Shape) (hA : A.valid = true)
    (hB : B.valid = true) (hcA : HolesConvexOK A) (hcB : HolesConvexOK B)
    (hrA : A.isRect = false) (hrB : B.isRect = false)
    (k1 k2 k1' k2' : IndexKind) (m1 m2 m1' m2' : Nat)
    (ha : (GCfg.ofShape A k1 m1).Exact) (hb : (GCfg.ofShape B k2 m2).Exact)
    (ha' : (GCfg.ofShape (A.mapPts Pt.rot90) k1' m1').Exact)
    (hb' : (GCfg.ofShape (B.mapPts Pt.rot90) k2' m2').Exact) :
    (GCfg.ofShape (A.mapPts Pt.rot90) k1' m1').build.intersects
        (GCfg.ofShape (B.mapPts Pt.rot90) k2' m2').build =
      (GCfg.ofShape A k1 m1).build.intersects (GCfg.ofShape B k2 m2).build := by
  rw [mapPts_rot90_eq A hrA, mapPts_rot90_eq B hrB] at *
  exact geom_intersects_rot90_indexed A B hA hB hcA hcB k1 k2 k1' k2' m1 m2 m1' m2' ha hb ha' hb'

/-- point reflection stated with `Pt.neg`, shapes other than rectangles -/
theorem geom_intersects_neg_indexed' (A B : Spec.Shape) (hA : A.valid = true)
    (hB : B.valid = true) (hcA : HolesConvexOK A) (hcB : HolesConvexOK B)
    (hrA : A.isRect = false) (hrB : B.isRect = false)
    (k1 k2 k1' k2' : IndexKind) (m1 m2 m1' m2' : Nat)
    (ha : (GCfg.ofShape A k1 m1).Exact) (hb : (GCfg.ofShape B k2 m2).Exact)
    (ha' : (GCfg.ofShape (A.mapPts Pt.neg) k1' m1').Exact)
    (hb' : (GCfg.ofShape (B.mapPts Pt.neg) k2' m2').Exact) :
    (GCfg.ofShape (A.mapPts Pt.neg) k1' m1').build.intersects
        (GCfg.ofShape (B.mapPts Pt.neg) k2' m2').build =
      (GCfg.ofShape A k1 m1).build.intersects (GCfg.ofShape B k2 m2).build := by
  rw [mapPts_neg_eq A hrA, mapPts_neg_eq B hrB] at *
  exact geom_intersects_neg_indexed A B hA hB hcA hcB k1 k2 k1' k2' m1 m2 m1' m2' ha hb ha' hb'

/-- kind `.none` (any threshold) searches exactly, for every shape -/
theorem ofShape_exact_none (S : Spec.Shape) (m : Nat) : (GCfg.ofShape S .none m).Exact := by
  cases S with
  | point p => trivial
  | rect lo hi => trivial
  | line pts => exact series_search_exact_kind_none _ _ _
  | poly ext holes =>
    refine ⟨series_search_exact_kind_none _ _ _, fun c hc => ?_⟩
    simp only [List.mem_map] at hc
    obtain ⟨h, _, rfl⟩ := hc
    exact series_search_exact_kind_none _ _ _

/-- non-vacuity: a concave polygon with a rectangular hole against a line string through the
    notch (answer `true`), reflected in x, thresholds 0 / 7 before and 3 / 100 after -/
example :
    (GCfg.ofShape ((Spec.Shape.poly [⟨0,0⟩, ⟨8,0⟩, ⟨8,8⟩, ⟨4,5⟩, ⟨0,8⟩]
        [Spec.rectPts ⟨1,1⟩ ⟨3,3⟩]).mapPts Pt.reflX) .none 3).build.intersects
      (GCfg.ofShape ((Spec.Shape.line [⟨-1,7⟩, ⟨9,7⟩]).mapPts Pt.reflX) .none 100).build =
    (GCfg.ofShape (.poly [⟨0,0⟩, ⟨8,0⟩, ⟨8,8⟩, ⟨4,5⟩, ⟨0,8⟩] [Spec.rectPts ⟨1,1⟩ ⟨3,3⟩])
        .none 0).build.intersects (GCfg.ofShape (.line [⟨-1,7⟩, ⟨9,7⟩]) .none 7).build ∧
    (GCfg.ofShape (.poly [⟨0,0⟩, ⟨8,0⟩, ⟨8,8⟩, ⟨4,5⟩, ⟨0,8⟩] [Spec.rectPts ⟨1,1⟩ ⟨3,3⟩])
        .none 0).plain.intersects (GCfg.ofShape (.line [⟨-1,7⟩, ⟨9,7⟩]) .none 7).plain = true := by
  refine ⟨geom_intersects_reflX_indexed _ _ (by decide +kernel) (by decide +kernel) ?_ ?_
    .none .none .none .none 0 7 3 100 (ofShape_exact_none _ _) (ofShape_exact_none _ _)
    (ofShape_exact_none _ _) (ofShape_exact_none _ _), by decide +kernel⟩
  · intro h hh
    simp only [Spec.Shape.holes, List.mem_cons, List.not_mem_nil, or_false] at hh
    subst hh
    exact convexOK_rect _ ⟨1,1⟩ ⟨3,3⟩ (by constructor <;> norm_num)
  · intro h hh
    simp only [Spec.Shape.holes, List.not_mem_nil] at hh

end C12SymIndexed
end Geo
