package main

import (
	"fmt"
	"math"
	"sort"
	"strconv"

	"github.com/tidwall/geojson/geometry"
)

// implementation-only property checks (inputs the Rat model cannot reproduce: arbitrary
// doubles). The model side answers "ok"; any other answer here is a property failure.

func wildFloat(r *rng, layout int) float64 {
	switch layout {
	case 0: // full exponent range
		e := r.rangeI(-1074, 1023)
		m := 1 + float64(r.next()%(1<<52))/float64(uint64(1)<<52)
		v := math.Ldexp(m, e)
		if r.coin(0.5) {
			v = -v
		}
		return v
	case 1: // extremes
		return []float64{math.MaxFloat64, -math.MaxFloat64, math.SmallestNonzeroFloat64, -math.SmallestNonzeroFloat64, 0, math.Copysign(0, -1), 1, -1}[r.intn(8)]
	case 2: // geographic decimals
		return float64(r.rangeI(-1800000, 1800000)) / 10000
	case 3: // tiny neighbourhood: adjacent doubles
		v := 37.7335
		for i := r.intn(40); i > 0; i-- {
			v = math.Nextafter(v, 100)
		}
		return v
	case 4: // huge same-sign values (midpoint sums overflow)
		return math.MaxFloat64 * (0.5 + 0.5*float64(r.next()%1000)/1000)
	default:
		return float64(r.rangeI(-3, 3)) * 0.1
	}
}

func xsearch(toks []string) string {
	if len(toks) != 5 {
		return "bad-op"
	}
	seed, _ := strconv.ParseUint(toks[1], 10, 64)
	n, _ := strconv.Atoi(toks[2])
	layout, _ := strconv.Atoi(toks[3])
	kind, _ := strconv.Atoi(toks[4])
	r := &rng{s: seed}
	pts := make([]geometry.Point, n)
	for i := range pts {
		pts[i] = geometry.Point{X: wildFloat(r, layout), Y: wildFloat(r, layout)}
		if i > 0 && r.coin(0.1) {
			pts[i] = pts[i-1]
		}
	}
	kinds := []geometry.IndexKind{geometry.None, geometry.RTree, geometry.QuadTree}
	opts := &geometry.IndexOptions{Kind: kinds[kind], MinPoints: 1}
	var series []geometry.Series
	series = append(series, geometry.VerifNewRing(pts, opts))
	series = append(series, geometry.VerifLineSeries(geometry.NewLine(pts, opts)))
	// moved (translated) series: Move must leave a series that answers as an index-free one would,
	// whatever the index kind / threshold it was created with and whatever rounding the translation causes
	for _, mp := range []int{1, 8, 64} {
		mopts := &geometry.IndexOptions{Kind: kinds[kind], MinPoints: mp}
		dx := []float64{0.3, 0.1, 1e-7, 1, -0.7, 1024.5}[r.intn(6)]
		dy := []float64{0, 0.2, -1e-9, 3, 0.3}[r.intn(5)]
		if layout == 0 || layout == 1 || layout == 4 {
			dx, dy = wildFloat(r, 2), wildFloat(r, 5)
		}
		series = append(series, geometry.VerifLineSeries(geometry.NewLine(pts, mopts).Move(dx, dy)))
		if n >= 3 {
			if ext, ok := geometry.NewPoly(pts, nil, mopts).Move(dx, dy).Exterior.(geometry.Series); ok {
				series = append(series, ext)
			}
		}
	}
	for si, s := range series {
		nseg := s.NumSegments()
		for qi := 0; qi < 6; qi++ {
			var q geometry.Rect
			switch qi {
			case 0:
				q = geometry.Rect{Min: geometry.Point{X: math.Inf(-1), Y: math.Inf(-1)}, Max: geometry.Point{X: math.Inf(1), Y: math.Inf(1)}}
			case 1:
				y := 0.0
				if n > 0 {
					y = pts[r.intn(n)].Y
				}
				q = geometry.Rect{Min: geometry.Point{X: math.Inf(-1), Y: y}, Max: geometry.Point{X: math.Inf(1), Y: y}}
			default:
				a := geometry.Point{X: wildFloat(r, layout), Y: wildFloat(r, layout)}
				b := geometry.Point{X: wildFloat(r, layout), Y: wildFloat(r, layout)}
				if n > 0 && r.coin(0.6) {
					a = pts[r.intn(n)]
				}
				if n > 0 && r.coin(0.3) {
					b = pts[r.intn(n)]
				}
				q = geometry.Segment{A: a, B: b}.Rect()
			}
			var want []int
			for i := 0; i < nseg; i++ {
				if s.SegmentAt(i).Rect().IntersectsRect(q) {
					want = append(want, i)
				}
			}
			for _, stop := range []int{0, 1, 3} {
				var got []int
				bad := ""
				calls := 0
				s.Search(q, func(seg geometry.Segment, idx int) bool {
					calls++
					if idx < 0 || idx >= nseg || seg != s.SegmentAt(idx) {
						bad = fmt.Sprintf("wrong segment for index %d", idx)
					}
					got = append(got, idx)
					return !(stop != 0 && calls == stop)
				})
				if bad != "" {
					return "FAIL " + bad
				}
				sorted := append([]int{}, got...)
				sort.Ints(sorted)
				for i := 1; i < len(sorted); i++ {
					if sorted[i] == sorted[i-1] {
						return fmt.Sprintf("FAIL series=%d duplicate index %d", si, sorted[i])
					}
				}
				inWant := map[int]bool{}
				for _, w := range want {
					inWant[w] = true
				}
				for _, g := range got {
					if !inWant[g] {
						return fmt.Sprintf("FAIL series=%d reported non-matching segment %d", si, g)
					}
				}
				if stop == 0 || len(got) < stop {
					if len(got) != len(want) {
						return fmt.Sprintf("FAIL series=%d query=%d stop=%d got %d of %d matching segments", si, qi, stop, len(got), len(want))
					}
				} else if len(got) != stop {
					return fmt.Sprintf("FAIL series=%d callbacks after stop: %d > %d", si, len(got), stop)
				}
			}
		}
	}
	return "ok"
}

func xnumcodec() string {
	vals := []uint32{0, 1, 2, 127, 128, 254, 255, 256, 257, 1000, 65534, 65535, 65536, 65537, 1 << 20, 1<<24 - 1, 1 << 24, 1<<31 - 1, 1 << 31, 1<<32 - 1}
	for _, v := range vals {
		nb := geometry.VerifNumBytes(v)
		want := byte(4)
		if v <= 0xFF {
			want = 1
		} else if v <= 0xFFFF {
			want = 2
		}
		if nb != want {
			return fmt.Sprintf("FAIL numBytes(%d)=%d", v, nb)
		}
		for _, w := range []byte{1, 2, 4} {
			if w < nb {
				continue
			}
			prefix := []byte{9, 9, 9}
			b := geometry.VerifAppendNum(prefix, v, w)
			if len(b) != 3+int(w) || b[0] != 9 || b[1] != 9 || b[2] != 9 {
				return fmt.Sprintf("FAIL appendNum(%d,%d) length/prefix", v, w)
			}
			if got := geometry.VerifReadNum(b[3:], w); got != v {
				return fmt.Sprintf("FAIL readNum(appendNum(%d,%d))=%d", v, w, got)
			}
		}
	}
	return "ok"
}

func xOp(toks []string) (string, bool) {
	switch toks[0] {
	case "xsearch":
		return xsearch(toks), true
	case "xnumcodec":
		return xnumcodec(), true
	case "xinf":
		return xinf(toks), true
	case "xkern":
		return xkern(toks), true
	case "xcircleindex":
		return xcircleindex(toks), true
	}
	return "", false
}
