/-
  GeoProofs.Index.Codec — the variable-width number codec and item-list reading, shared by the
  quadtree and R-tree byte-level proofs.

  Central notion: `HasBytes data addr bs` ("the bytes `bs` sit at `addr` in `data`"), which is
  stable under appending, pushing and under `putU32` at positions outside `[addr, addr+|bs|)`.
-/
import GeoProofs.Index.Order

namespace Geo

/-! ## `HasBytes` -/

/-- the bytes `bs` are stored in `data` starting at `addr` (in particular in range). -/
def HasBytes (data : Array Nat) (addr : Nat) (bs : List Nat) : Prop :=
  ∀ i, (h : i < bs.length) → data[addr + i]? = some bs[i]

theorem hasBytes_nil (data : Array Nat) (addr : Nat) : HasBytes data addr [] := by
  intro i h; simp at h

theorem hasBytes_cons {data : Array Nat} {addr b : Nat} {bs : List Nat} :
    HasBytes data addr (b :: bs) ↔ data[addr]? = some b ∧ HasBytes data (addr + 1) bs := by
  constructor
  · intro h
    refine ⟨h 0 (Nat.zero_lt_succ _), ?_⟩
    intro i hi
    have := h (i + 1) (by simp; omega)
    simpa [Nat.add_assoc, Nat.add_comm 1 i] using this
  · rintro ⟨h0, h1⟩ i hi
    cases i with
    | zero => simpa using h0
    | succ j =>
      have := h1 j (by simpa using hi)
      simpa [Nat.add_assoc, Nat.add_comm 1 j] using this

theorem hasBytes_append {data : Array Nat} {addr : Nat} {l1 l2 : List Nat} :
    HasBytes data addr (l1 ++ l2) ↔
      HasBytes data addr l1 ∧ HasBytes data (addr + l1.length) l2 := by
  induction l1 generalizing addr with
  | nil => simp [hasBytes_nil]
  | cons b l ih =>
    simp only [List.cons_append, hasBytes_cons, ih, List.length_cons, and_assoc]
    have : addr + 1 + l.length = addr + (l.length + 1) := by omega
    rw [this]

theorem hasBytes_singleton {data : Array Nat} {addr b : Nat} :
    HasBytes data addr [b] ↔ data[addr]? = some b := by
  simp [hasBytes_cons, hasBytes_nil]

/-- `HasBytes` only depends on the bytes in `[addr, addr + |bs|)`. -/
theorem HasBytes.congr {d d' : Array Nat} {addr : Nat} {bs : List Nat}
    (h : HasBytes d addr bs)
    (hag : ∀ i, addr ≤ i → i < addr + bs.length → d'[i]? = d[i]?) : HasBytes d' addr bs := by
  intro i hi
  rw [hag (addr + i) (by omega) (by omega)]
  exact h i hi

theorem HasBytes.lt_size {d : Array Nat} {addr : Nat} {bs : List Nat}
    (h : HasBytes d addr bs) (hne : bs ≠ []) : addr + bs.length ≤ d.size := by
  have hpos : 0 < bs.length := List.length_pos_iff.mpr hne
  have := h (bs.length - 1) (by omega)
  have hlt : addr + (bs.length - 1) < d.size := by
    apply Classical.byContradiction
    intro hc
    rw [Array.getElem?_eq_none (by omega)] at this
    cases this
  omega

theorem getElem?_append_of_some {d e : Array Nat} {i v : Nat} (h : d[i]? = some v) :
    (d ++ e)[i]? = some v := by
  have hlt : i < d.size := by
    apply Classical.byContradiction
    intro hc
    rw [Array.getElem?_eq_none (by omega)] at h
    cases h
  rw [Array.getElem?_append_left hlt]; exact h

theorem HasBytes.append_right {d : Array Nat} {addr : Nat} {bs : List Nat}
    (h : HasBytes d addr bs) (e : Array Nat) : HasBytes (d ++ e) addr bs := by
  intro i hi
  exact getElem?_append_of_some (h i hi)

theorem HasBytes.push {d : Array Nat} {addr : Nat} {bs : List Nat}
    (h : HasBytes d addr bs) (b : Nat) : HasBytes (d.push b) addr bs := by
  have : d.push b = d ++ #[b] := by simp
  rw [this]; exact h.append_right _

/-- bytes appended at the end of `d` are found at `d.size`. -/
theorem hasBytes_append_self (d : Array Nat) (bs : List Nat) :
    HasBytes (d ++ bs.toArray) d.size bs := by
  intro i hi
  rw [Array.getElem?_append_right (by omega)]
  simp [hi]

theorem hasBytes_push_self (d : Array Nat) (b : Nat) : HasBytes (d.push b) d.size [b] := by
  have : d.push b = d ++ [b].toArray := by simp
  rw [this]; exact hasBytes_append_self d [b]

theorem hasBytes_mid (pre : Array Nat) (bs : List Nat) (post : Array Nat) :
    HasBytes (pre ++ bs.toArray ++ post) pre.size bs :=
  (hasBytes_append_self pre bs).append_right post

/-! ## little-endian numbers -/

@[simp] theorem leBytes_length (n k : Nat) : (leBytes n k).length = k := by
  induction k generalizing n with
  | zero => rfl
  | succ k ih => simp [leBytes, ih]

theorem readLE_of_hasBytes {data : Array Nat} {addr n k : Nat}
    (h : HasBytes data addr (leBytes n k)) (hn : n < 256 ^ k) : readLE data addr k = some n := by
  induction k generalizing n addr with
  | zero =>
    simp at hn
    simp [readLE, hn]
  | succ k ih =>
    simp only [leBytes, hasBytes_cons] at h
    have hk : n / 256 < 256 ^ k := by
      rw [Nat.div_lt_iff_lt_mul (by decide)]
      rw [Nat.pow_succ] at hn
      exact hn
    have := ih h.2 hk
    simp only [readLE, h.1, this]
    show some (n % 256 + 256 * (n / 256)) = some n
    rw [Nat.mod_add_div]

/-- reading `k` bytes at position `pre.size` of `pre ++ leBytes n k ++ post` gives back `n`. -/
theorem readLE_leBytes (pre : Array Nat) (n k : Nat) (post : Array Nat) (hn : n < 256 ^ k) :
    readLE (pre ++ (leBytes n k).toArray ++ post) pre.size k = some n :=
  readLE_of_hasBytes (hasBytes_mid pre _ post) hn

theorem numBytes_cases (n : Nat) : numBytes n = 1 ∨ numBytes n = 2 ∨ numBytes n = 4 := by
  unfold numBytes
  split
  · simp
  · split <;> simp

/-- a number below 2^32 fits in any admissible width at least `numBytes`. -/
theorem lt_pow_of_numBytes_le {n w : Nat} (hw : w = 1 ∨ w = 2 ∨ w = 4)
    (hfit : numBytes n ≤ w) (hn : n < 2 ^ 32) : n < 256 ^ w := by
  unfold numBytes at hfit
  rcases hw with rfl | rfl | rfl <;> split at hfit <;> try split at hfit
  all_goals omega

theorem appendNum_eq (dst : Array Nat) (n w : Nat) (hw : w = 1 ∨ w = 2 ∨ w = 4) :
    appendNum dst n w = dst ++ (leBytes n w).toArray := by
  rcases hw with rfl | rfl | rfl <;> rfl

theorem readNum_eq (data : Array Nat) (addr w : Nat) (hw : w = 1 ∨ w = 2 ∨ w = 4) :
    readNum data addr w = readLE data addr w := by
  rcases hw with rfl | rfl | rfl <;> rfl

theorem readNum_of_hasBytes {data : Array Nat} {addr n w : Nat} (hw : w = 1 ∨ w = 2 ∨ w = 4)
    (h : HasBytes data addr (leBytes n w)) (hn : n < 256 ^ w) : readNum data addr w = some n := by
  rw [readNum_eq _ _ _ hw]; exact readLE_of_hasBytes h hn

theorem size_appendNum (dst : Array Nat) (n w : Nat) (hw : w = 1 ∨ w = 2 ∨ w = 4) :
    (appendNum dst n w).size = dst.size + w := by
  rw [appendNum_eq _ _ _ hw]; simp

theorem readNum_appendNum (pre : Array Nat) (n w : Nat) (post : Array Nat)
    (hw : w = 1 ∨ w = 2 ∨ w = 4) (hfit : numBytes n ≤ w) (hn : n < 2 ^ 32) :
    readNum ((appendNum pre n w) ++ post) pre.size w = some n := by
  rw [appendNum_eq _ _ _ hw]
  exact readNum_of_hasBytes hw (hasBytes_mid pre _ post) (lt_pow_of_numBytes_le hw hfit hn)

/-! ## item lists -/

/-- the byte encoding of an item list at width `w`. -/
def encItems (items : List Nat) (w : Nat) : List Nat := items.flatMap (fun it => leBytes it w)

@[simp] theorem encItems_nil (w : Nat) : encItems [] w = [] := rfl
@[simp] theorem encItems_cons (it : Nat) (items : List Nat) (w : Nat) :
    encItems (it :: items) w = leBytes it w ++ encItems items w := rfl

@[simp] theorem encItems_length (items : List Nat) (w : Nat) :
    (encItems items w).length = items.length * w := by
  induction items with
  | nil => simp
  | cons it items ih => simp [ih, Nat.add_mul, Nat.add_comm]

theorem foldl_appendNum (dst : Array Nat) (items : List Nat) (w : Nat)
    (hw : w = 1 ∨ w = 2 ∨ w = 4) :
    items.foldl (fun d it => appendNum d it w) dst = dst ++ (encItems items w).toArray := by
  induction items generalizing dst with
  | nil => simp
  | cons it items ih =>
    rw [List.foldl_cons, ih, appendNum_eq _ _ _ hw, encItems_cons]
    simp [Array.append_assoc]

/-- reading an encoded item list visits exactly like the list-level `visitItems`, and never
    reads out of range. -/
theorem visitItemsBytes_of_hasBytes {α σ : Type} [Carrier α] (boxOf : Nat → GBox α) (q : GBox α)
    (f : σ → Nat → σ × Bool) {data : Array Nat} {w : Nat} (hw : w = 1 ∨ w = 2 ∨ w = 4)
    (items : List Nat) (addr : Nat) (s : σ)
    (hfit : ∀ it ∈ items, it < 256 ^ w)
    (h : HasBytes data addr (encItems items w)) :
    visitItemsBytes boxOf q f data w items.length addr s =
      some (visitItems boxOf q f s items) := by
  induction items generalizing addr s with
  | nil => rfl
  | cons it items ih =>
    rw [encItems_cons, hasBytes_append, leBytes_length] at h
    have hr : readNum data addr w = some it :=
      readNum_of_hasBytes hw h.1 (hfit it (by simp))
    have hfit' : ∀ it ∈ items, it < 256 ^ w := fun x hx => hfit x (by simp [hx])
    simp only [List.length_cons, visitItemsBytes, hr, visitItems, foldUntil]
    by_cases hm : (boxOf it).meets q = true
    · simp only [hm, if_true]
      cases hfs : f s it with
      | mk s' c =>
        cases c with
        | true =>
          simp only [if_true]
          have := ih (addr + w) s' hfit' h.2
          simpa [visitItems] using this
        | false => simp
    · simp only [hm]
      have := ih (addr + w) s hfit' h.2
      simpa [visitItems] using this

/-- the statement in "encoded by `foldl appendNum`" form. -/
theorem visitItemsBytes_eq {α σ : Type} [Carrier α] (boxOf : Nat → GBox α) (q : GBox α)
    (f : σ → Nat → σ × Bool) (pre post : Array Nat) (w : Nat) (hw : w = 1 ∨ w = 2 ∨ w = 4)
    (items : List Nat) (s : σ)
    (hlt : ∀ it ∈ items, it < 2 ^ 32) (hfit : ∀ it ∈ items, numBytes it ≤ w) :
    visitItemsBytes boxOf q f ((items.foldl (fun d it => appendNum d it w) pre) ++ post) w
        items.length pre.size s = some (visitItems boxOf q f s items) := by
  rw [foldl_appendNum _ _ _ hw]
  exact visitItemsBytes_of_hasBytes boxOf q f hw items pre.size s
    (fun it hit => lt_pow_of_numBytes_le hw (hfit it hit) (hlt it hit))
    (hasBytes_mid pre _ post)

/-! ## `putU32` -/

@[simp] theorem size_putU32 (dst : Array Nat) (pos v : Nat) : (putU32 dst pos v).size = dst.size := by
  simp [putU32]

theorem getElem?_putU32_of_outside (dst : Array Nat) (pos v i : Nat)
    (h : i < pos ∨ pos + 4 ≤ i) : (putU32 dst pos v)[i]? = dst[i]? := by
  simp only [putU32, Array.getElem?_setIfInBounds]
  repeat' split
  all_goals first | omega | rfl

theorem hasBytes_putU32_self (dst : Array Nat) (pos v : Nat) (h : pos + 4 ≤ dst.size) :
    HasBytes (putU32 dst pos v) pos (leBytes v 4) := by
  intro i hi
  simp only [leBytes_length] at hi
  have hi' : i = 0 ∨ i = 1 ∨ i = 2 ∨ i = 3 := by omega
  rcases hi' with rfl | rfl | rfl | rfl <;>
    simp [putU32, Array.getElem?_setIfInBounds, leBytes] <;> omega

theorem HasBytes.putU32_of_disjoint {d : Array Nat} {addr : Nat} {bs : List Nat}
    (h : HasBytes d addr bs) (pos v : Nat) (hd : pos + 4 ≤ addr ∨ addr + bs.length ≤ pos) :
    HasBytes (putU32 d pos v) addr bs :=
  h.congr (fun i h1 h2 => getElem?_putU32_of_outside d pos v i (by omega))

/-- after `putU32 dst pos v` (in range, `v < 2^32`): the 4 bytes at `pos` read back `v`;
    all other positions and the size are unchanged (`getElem?_putU32_of_outside`, `size_putU32`). -/
theorem putU32_readLE (dst : Array Nat) (pos v : Nat) (h : pos + 4 ≤ dst.size) (hv : v < 2 ^ 32) :
    readLE (putU32 dst pos v) pos 4 = some v ∧
    (∀ i, i < pos ∨ pos + 4 ≤ i → (putU32 dst pos v)[i]? = dst[i]?) ∧
    (putU32 dst pos v).size = dst.size :=
  ⟨readLE_of_hasBytes (hasBytes_putU32_self dst pos v h) (by simpa using hv),
   fun i hi => getElem?_putU32_of_outside dst pos v i hi, size_putU32 dst pos v⟩

end Geo

#print axioms Geo.readLE_leBytes
#print axioms Geo.readNum_appendNum
#print axioms Geo.visitItemsBytes_eq
#print axioms Geo.visitItemsBytes_of_hasBytes
#print axioms Geo.putU32_readLE
#print axioms Geo.HasBytes.putU32_of_disjoint
