import GeoModel.Num
import GeoModel.Kernel
import GeoModel.Index
import GeoModel.Series
import GeoModel.Geom
