import GeoModel
