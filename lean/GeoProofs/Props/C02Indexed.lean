/-
  GeoProofs.Props.C02Indexed — property C02 ("intersects is exact planar intersection and
  symmetric … identical under every index kind and build threshold") stated for shapes carrying
  ANY segment-index configuration (`GCfg`: vertex lists + index kind + build threshold).

  * `geom_intersects_exact_indexed`   a.build.intersects b.build = Spec.meets (shapeOf a) (shapeOf b)
  * `geom_intersects_symm_indexed`    a.build.intersects b.build = b.build.intersects a.build
  * `…_sized`                         the same with the size bounds of the byte formats (`GCfg.Sized`)
                                       in place of `SearchExact`
  * `geom_intersects_indexed_any`     two arbitrary index configurations of the same vertex lists
                                       answer the same (no validity hypothesis)
  (`Spec.meets A B = Spec.meets B A` for valid shapes is `spec_meets_comm`, Algebra/LeafOK.lean.)
-/
import GeoProofs.Props.C02Convex
import GeoProofs.Props.C03Convex

namespace Geo
namespace C02Indexed
open GL CC

/-- **EXACTNESS, every index configuration** -/
theorem geom_intersects_exact_indexed (a b : GCfg) (ha : a.Exact) (hb : b.Exact)
    (hva : (shapeOf a).valid = true) (hvb : (shapeOf b).valid = true) :
    a.build.intersects b.build = Spec.meets (shapeOf a) (shapeOf b) := by
  rw [geom_intersects_index_indep a b ha hb, plain_eq_build, plain_eq_build]
  exact geom_intersects_exact_holes (shapeOf a) (shapeOf b) hva hvb

/-- **SYMMETRY, every index configuration** -/
theorem geom_intersects_symm_indexed (a b : GCfg) (ha : a.Exact) (hb : b.Exact)
    (hva : (shapeOf a).valid = true) (hvb : (shapeOf b).valid = true) :
    a.build.intersects b.build = b.build.intersects a.build := by
  rw [geom_intersects_index_indep a b ha hb, geom_intersects_index_indep b a hb ha,
    plain_eq_build, plain_eq_build]
  exact geom_intersects_symm_holes (shapeOf a) (shapeOf b) hva hvb

/-- hypothesis-free on the searches: every index kind and threshold, sizes within the byte
    formats, binary64 coordinates for the R-tree -/
theorem geom_intersects_exact_indexed_sized (a b : GCfg) (ha : a.Sized) (hb : b.Sized)
    (hva : (shapeOf a).valid = true) (hvb : (shapeOf b).valid = true) :
    a.build.intersects b.build = Spec.meets (shapeOf a) (shapeOf b) :=
  geom_intersects_exact_indexed a b ha.exact hb.exact hva hvb

theorem geom_intersects_symm_indexed_sized (a b : GCfg) (ha : a.Sized) (hb : b.Sized)
    (hva : (shapeOf a).valid = true) (hvb : (shapeOf b).valid = true) :
    a.build.intersects b.build = b.build.intersects a.build :=
  geom_intersects_symm_indexed a b ha.exact hb.exact hva hvb

/-- **the index configuration never matters**: two arbitrary configurations of the same vertex
    lists answer the same — valid or not -/
theorem geom_intersects_indexed_any (a b a' b' : GCfg) (ha : a.Exact) (hb : b.Exact)
    (ha' : a'.Exact) (hb' : b'.Exact) (hsa : shapeOf a' = shapeOf a) (hsb : shapeOf b' = shapeOf b) :
    a'.build.intersects b'.build = a.build.intersects b.build := by
  rw [geom_intersects_index_indep a' b' ha' hb', geom_intersects_index_indep a b ha hb,
    plain_eq_build, plain_eq_build, plain_eq_build, plain_eq_build, hsa, hsb]

theorem geom_intersects_indexed_any_sized (a b a' b' : GCfg) (ha : a.Sized) (hb : b.Sized)
    (ha' : a'.Sized) (hb' : b'.Sized) (hsa : shapeOf a' = shapeOf a) (hsb : shapeOf b' = shapeOf b) :
    a'.build.intersects b'.build = a.build.intersects b.build :=
  geom_intersects_indexed_any a b a' b' ha.exact hb.exact ha'.exact hb'.exact hsa hsb

/-! ### non-vacuity -/

/-- a valid square and a point inside it: all hypotheses of `geom_intersects_exact_indexed`
    discharged, any build threshold -/
example (m : Nat) :
    (GCfg.poly ⟨#[⟨0,0⟩,⟨4,0⟩,⟨4,4⟩,⟨0,4⟩,⟨0,0⟩], .none, m⟩ []).build.intersects
        (GCfg.point ⟨1,1⟩).build =
      Spec.meets (.poly [⟨0,0⟩,⟨4,0⟩,⟨4,4⟩,⟨0,4⟩,⟨0,0⟩] []) (.point ⟨1,1⟩) :=
  geom_intersects_exact_indexed (.poly ⟨#[⟨0,0⟩,⟨4,0⟩,⟨4,4⟩,⟨0,4⟩,⟨0,0⟩], .none, m⟩ [])
    (.point ⟨1,1⟩)
    ⟨series_search_exact_kind_none _ _ _, fun c hc => by cases hc⟩ trivial
    (by show (Spec.Shape.poly [⟨0,0⟩,⟨4,0⟩,⟨4,4⟩,⟨0,4⟩,⟨0,0⟩] []).valid = true
        decide +kernel)
    (by decide +kernel)

end C02Indexed
end Geo
