/-
  GeoProofs.Reencode.HoleOrder — `Geom.contains` and `Geom.intersects` never depend on the order
  in which the holes of a polygon (receiver or argument) are listed: the model only ever folds
  `any` / `all` over the hole list.  Unconditional: no validity, no convexity, any index.
-/
import GeoModel.Geom
import Mathlib.Data.List.Perm.Basic

namespace Geo
namespace RE

variable {e : Option Ring} {hs hs' : List Ring}

theorem poly_containsPoint_perm (hp : hs.Perm hs') (p : Pt) :
    (Poly.mk e hs).containsPoint p = (Poly.mk e hs').containsPoint p := by
  unfold Poly.containsPoint
  simp only [hp.any_eq]

theorem poly_containsLine_perm (hp : hs.Perm hs') (l : Line) :
    (Poly.mk e hs).containsLine l = (Poly.mk e hs').containsLine l := by
  unfold Poly.containsLine
  simp only [hp.any_eq]

theorem poly_intersectsLine_perm (hp : hs.Perm hs') (l : Line) :
    (Poly.mk e hs).intersectsLine l = (Poly.mk e hs').intersectsLine l := by
  unfold Poly.intersectsLine
  simp only [hp.any_eq]

theorem poly_containsPoly_perm_left (hp : hs.Perm hs') (o : Poly) :
    (Poly.mk e hs).containsPoly o = (Poly.mk e hs').containsPoly o := by
  unfold Poly.containsPoly
  simp only [hp.all_eq]

theorem poly_containsPoly_perm_right (hp : hs.Perm hs') (o : Poly) :
    o.containsPoly (Poly.mk e hs) = o.containsPoly (Poly.mk e hs') := by
  unfold Poly.containsPoly
  simp only [hp.any_eq]

theorem poly_intersectsPoly_perm_left (hp : hs.Perm hs') (o : Poly) :
    (Poly.mk e hs).intersectsPoly o = (Poly.mk e hs').intersectsPoly o := by
  unfold Poly.intersectsPoly
  simp only [hp.any_eq]

theorem poly_intersectsPoly_perm_right (hp : hs.Perm hs') (o : Poly) :
    o.intersectsPoly (Poly.mk e hs) = o.intersectsPoly (Poly.mk e hs') := by
  unfold Poly.intersectsPoly
  simp only [hp.any_eq]

/-- the receiver's holes in another order -/
theorem geom_contains_holes_perm_left (hp : hs.Perm hs') (G : Geom) :
    (Geom.poly ⟨e, hs⟩).contains G = (Geom.poly ⟨e, hs'⟩).contains G := by
  cases G with
  | point p => exact poly_containsPoint_perm hp p
  | rect r => exact poly_containsPoly_perm_left hp r.asPoly
  | line l => exact poly_containsLine_perm hp l
  | poly o => exact poly_containsPoly_perm_left hp o

/-- the argument's holes in another order -/
theorem geom_contains_holes_perm_right (hp : hs.Perm hs') (G : Geom) :
    G.contains (Geom.poly ⟨e, hs⟩) = G.contains (Geom.poly ⟨e, hs'⟩) := by
  cases G with
  | point p => rfl
  | rect r => rfl
  | line l => rfl
  | poly o => exact poly_containsPoly_perm_right hp o

theorem geom_intersects_holes_perm_left (hp : hs.Perm hs') (G : Geom) :
    (Geom.poly ⟨e, hs⟩).intersects G = (Geom.poly ⟨e, hs'⟩).intersects G := by
  cases G with
  | point p => exact poly_containsPoint_perm hp p
  | rect r => exact poly_intersectsPoly_perm_left hp r.asPoly
  | line l => exact poly_intersectsLine_perm hp l
  | poly o => exact poly_intersectsPoly_perm_left hp o

theorem geom_intersects_holes_perm_right (hp : hs.Perm hs') (G : Geom) :
    G.intersects (Geom.poly ⟨e, hs⟩) = G.intersects (Geom.poly ⟨e, hs'⟩) := by
  cases G with
  | point p => exact poly_containsPoint_perm hp p
  | rect r => exact poly_intersectsPoly_perm_left hp r.asPoly
  | line l => exact poly_intersectsLine_perm hp l
  | poly o => exact poly_intersectsPoly_perm_right hp o

end RE
end Geo
