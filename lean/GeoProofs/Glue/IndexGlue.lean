/-
  GeoProofs.Glue.IndexGlue — the bridge between the segment index REGENERATED from the Go source
  (`GeoModel/Generated/IndexGen.lean`, namespace `Geo.IGen`, produced by `translate index`) and
  the hand-written model `GeoModel/Index.lean`.  This file: the mapping of the operations, the
  abstraction maps, and the small functions (numBytes, chooseQuad, quadBounds).

  MAPPING of the float operations found in the source to the model's carrier:
      Go `a < b`            ↦ `Carrier.lt a b`         (`a > b` is `b < a` on both sides)
      Go `(a + b) / 2`      ↦ `Carrier.mid a b`
      Go `a - b`, `a * b`   ↦ `Carrier.sub`, `Carrier.mul`
      Go `1.0`, `0.0`       ↦ `Carrier.one`, `Carrier.zero`
  stated as the class `Compat F` below; `kCarrier` shows that every `KNum F` has a compatible
  carrier (so the theorems hold for every interpretation of the float operations, in particular
  for binary64), and conversely every `Carrier` satisfying `Compat` is pinned down by it.
-/
import GeoModel.Index
import GeoModel.Generated.IndexGen

namespace Geo.IGlue
open Geo Geo.IGen
open scoped Geo.KNum

/-- the float operations of the source agree with the carrier operations of the model -/
class Compat (F : Type) [KNum F] [Carrier F] : Prop where
  lt : ∀ a b : F, Carrier.lt a b = KNum.lt a b
  mid : ∀ a b : F, Carrier.mid a b = (a +ₖ b) /ₖ (KNum.ofNat 2 : F)
  sub : ∀ a b : F, Carrier.sub a b = a -ₖ b
  mul : ∀ a b : F, Carrier.mul a b = a *ₖ b
  one : (Carrier.one : F) = KNum.ofNat 1
  zero : (Carrier.zero : F) = KNum.ofNat 0

/-- the carrier read off the source's float operations -/
@[reducible] def kCarrier (F : Type) [KNum F] : Carrier F where
  lt := KNum.lt
  mid a b := (a +ₖ b) /ₖ (KNum.ofNat 2 : F)
  sub := KNum.sub
  mul := KNum.mul
  one := KNum.ofNat 1
  zero := KNum.ofNat 0

theorem kCarrier_compat (F : Type) [KNum F] : @Compat F _ (kCarrier F) :=
  @Compat.mk F _ (kCarrier F) (fun _ _ => rfl) (fun _ _ => rfl) (fun _ _ => rfl) (fun _ _ => rfl) rfl rfl

variable {F S SR D : Type}

/-- generated `Rect` ↦ the model's box -/
def toGBox (r : Rect F) : GBox F := ⟨r.min.x, r.min.y, r.max.x, r.max.y⟩

def ofGBox (b : GBox F) : Rect F := ⟨⟨b.minx, b.miny⟩, ⟨b.maxx, b.maxy⟩⟩

@[simp] theorem toGBox_ofGBox (b : GBox F) : toGBox (ofGBox b) = b := rfl
@[simp] theorem ofGBox_toGBox (r : Rect F) : ofGBox (toGBox r) = r := rfl

variable [KNum F]

/-- generated tree (stands for `*qNode`) ↦ the model's tree -/
def absQ : IGen.QNode → Geo.QNode
  | .nil => .nil
  | .mk split items q0 q1 q2 q3 => .node split items (absQ q0) (absQ q1) (absQ q2) (absQ q3)

@[simp] theorem absQ_nil : absQ .nil = .nil := rfl
@[simp] theorem absQ_mk (s : Bool) (it : List Nat) (a b c d : IGen.QNode) :
    absQ (.mk s it a b c d) = .node s it (absQ a) (absQ b) (absQ c) (absQ d) := rfl

@[simp] theorem absQ_isNil (n : IGen.QNode) : (absQ n).isNil = n.isNil := by
  cases n <;> rfl

/-- the code's -1 / quadrant number ↦ the model's `Option Nat` -/
def quadCode : Option Nat → Int
  | none => -1
  | some q => Int.ofNat q

/-! ## numBytes -/

theorem numBytes_eq (ops : Ops F S SR D) (n : Nat) : IGen.numBytes ops n = Geo.numBytes n := by
  unfold IGen.numBytes Geo.numBytes
  simp

/-! ## chooseQuad, quadBounds -/

theorem chooseQuad_eq [Carrier F] [Compat F] (ops : Ops F S SR D) (bounds rect : Rect F) :
    IGen.qNode_chooseQuad ops bounds rect = quadCode (Geo.chooseQuad (toGBox bounds) (toGBox rect)) := by
  unfold IGen.qNode_chooseQuad Geo.chooseQuad toGBox
  simp only [Compat.lt, Compat.mid]
  repeat' split
  all_goals first | rfl | simp_all [quadCode]

theorem quadBounds_eq [Carrier F] [Compat F] (ops : Ops F S SR D) (bounds : Rect F) (q : Nat) (hq : q < 4) :
    toGBox (IGen.quadBounds ops bounds (Int.ofNat q)) = Geo.quadBounds (toGBox bounds) q := by
  have : q = 0 ∨ q = 1 ∨ q = 2 ∨ q = 3 := by omega
  rcases this with rfl | rfl | rfl | rfl <;>
    simp [IGen.quadBounds, Geo.quadBounds, toGBox, Compat.mid]

end Geo.IGlue
