/-
  GeoProofs.Glue.IndexGlueSearch — generated `qCompressSearch` (geometry/qtree.go) on `Array Nat`
  equals the model's `qSearchBytes`, for all data, all callbacks, all fuel.
-/
import GeoProofs.Glue.IndexGlueNum

set_option linter.unusedSectionVars false

namespace Geo.IGlue
open Geo Geo.IGen

variable {F S SR σ : Type} [KNum F] [Carrier F] [Compat F]
variable (segAt : SR → Int → S) (segRect : S → Rect F) (f64 : Nat → F)

/-- the box of item `i` of a series, as the model sees it -/
def boxOf (series : SR) (i : Nat) : GBox F := toGBox (segRect (segAt series (Int.ofNat i)))

/-! ## addresses: the generated code computes on `Int`, the model on `Nat` -/

theorem ofNat_add_ofNat (a b : Nat) : Int.ofNat a + Int.ofNat b = Int.ofNat (a + b) := rfl
theorem ofNat_add_one (a : Nat) : Int.ofNat a + 1 = Int.ofNat (a + 1) := rfl
theorem ofNat_add_four (a : Nat) : Int.ofNat a + 4 = Int.ofNat (a + 4) := rfl

theorem intRange_zero_length (n : Nat) : (intRange 0 (Int.ofNat n)).length = n := by
  simp [intRange]

theorem intRange_0_4 : intRange 0 4 = (List.range' 0 4).map Int.ofNat := by decide

/-! ## the byte reads -/

theorem bytesAt_ofNat (data : Array Nat) (a : Nat) :
    (aOps segAt segRect f64).bytesAt data (Int.ofNat a) = data[a]? := by
  simp [aOps]
  omega

/-- `readNum(data[a:], w)` followed by anything -/
theorem readNum_bind {β : Type} (data : Array Nat) (a w : Nat) (k : Nat → Option β) :
    (((aOps segAt segRect f64).bytesFrom data (Int.ofNat a)).bind fun sl =>
        (IGen.readNum (aOps segAt segRect f64) sl w).bind k) = (Geo.readNum data a w).bind k := by
  rw [← readNum_eq segAt segRect f64, Option.bind_assoc]

/-- `binary.LittleEndian.Uint32(data[a:])` followed by anything -/
theorem le32_bind {β : Type} (data : Array Nat) (a : Nat) (k : Nat → Option β) :
    (((aOps segAt segRect f64).bytesFrom data (Int.ofNat a)).bind fun sl =>
        ((aOps segAt segRect f64).leUint32 sl).bind k) = (readLE data a 4).bind k := by
  by_cases h : a ≤ data.size
  · have hf : (aOps segAt segRect f64).bytesFrom data (Int.ofNat a) = some (data.extract a data.size) := by
      simp [aOps]; omega
    rw [hf]
    simp only [Option.bind_some]
    have := readLE_extract data a 4 h 0
    simp only [Nat.add_zero] at this
    show (readLE (data.extract a data.size) 0 4).bind k = _
    rw [this]
  · have hf : (aOps segAt segRect f64).bytesFrom data (Int.ofNat a) = none := by
      simp [aOps]; omega
    rw [hf]
    have hn : data[a]? = none := by simp; omega
    simp [readLE, hn]

/-! ## the item loop -/

theorem itemLoop_eq (data : Array Nat) (ib : Nat) (bx : Nat → GBox F) (q : GBox F)
    (f : σ → Nat → σ × Bool) (body : Int → Int × σ → Option (Flow (Int × σ) (σ × Bool)))
    (hbody : ∀ (i : Int) (a : Nat) (st : σ), body i (Int.ofNat a, st) =
      (Geo.readNum data a ib).bind fun it =>
        if (bx it).meets q = true then
          (if (f st it).2 = true then some (Flow.next (Int.ofNat (a + ib), (f st it).1))
           else some (Flow.ret ((f st it).1, false)))
        else some (Flow.next (Int.ofNat (a + ib), st)))
    (l : List Int) (a : Nat) (st : σ) :
    loopF l (Int.ofNat a, st) body =
      (visitItemsBytes bx q f data ib l.length a st).bind fun r =>
        if r.2 = true then some (Exit.done (Int.ofNat (a + l.length * ib), r.1))
        else some (Exit.ret (r.1, false)) := by
  induction l generalizing a st with
  | nil => simp [loopF, visitItemsBytes]
  | cons x xs ih =>
    simp only [loopF, hbody, visitItemsBytes, List.length_cons]
    have harith : a + ib + xs.length * ib = a + (xs.length + 1) * ib := by
      rw [Nat.add_mul]; omega
    cases hr : Geo.readNum data a ib with
    | none => simp
    | some it =>
      simp only [Option.bind_some]
      by_cases hm : (bx it).meets q = true
      · simp only [hm, if_true]
        cases hc : (f st it).2 with
        | false => simp
        | true => simp only [if_true]; rw [ih, harith]
      · simp only [hm]
        simp only [Bool.false_eq_true, if_false]
        rw [ih, harith]

/-! ## the four-quadrant loop -/

/-- what the generated code does with the outcome of the quadrant loop: a `return` inside the loop
    returns its value, a normal end returns `true` (the final address is dropped) -/
def post : Option (Exit (Int × σ) (σ × Bool)) → Option (σ × Bool)
  | none => none
  | some (Exit.ret r) => some r
  | some (Exit.done p) => some (p.2, true)

theorem quadLoop_eq (data : Array Nat) (fuel : Nat) (bx : Nat → GBox F) (q : GBox F)
    (f : σ → Nat → σ × Bool) (gb : GBox F)
    (body : Int → Int × σ → Option (Flow (Int × σ) (σ × Bool)))
    (hbody : ∀ (qi a : Nat) (st : σ), qi < 4 → body (Int.ofNat qi) (Int.ofNat a, st) =
      data[a]?.bind fun use =>
        if (use != 1) = true then some (Flow.next (Int.ofNat (a + 1), st))
        else (readLE data (a + 1) 4).bind fun naddr =>
          if (Geo.quadBounds gb qi).meets q = true then
            (qSearchBytes bx q f data fuel naddr (Geo.quadBounds gb qi) st).bind fun r =>
              if r.2 = true then some (Flow.next (Int.ofNat (a + 1 + 4), r.1))
              else some (Flow.ret (r.1, false))
          else some (Flow.next (Int.ofNat (a + 1 + 4), st)))
    (k qi a : Nat) (st : σ) (h : qi + k ≤ 4) :
    post (loopF ((List.range' qi k).map Int.ofNat) (Int.ofNat a, st) body) =
      qSearchBytes.quads bx q f data fuel gb qi k a st := by
  induction k generalizing qi a st with
  | zero => rw [qSearchBytes.quads.eq_1]; rfl
  | succ k ih =>
    rw [qSearchBytes.quads.eq_2]
    simp only [List.range'_succ, List.map_cons, loopF, hbody qi a st (by omega),
      Option.bind_eq_bind, Option.pure_def]
    cases hu : data[a]? with
    | none => rfl
    | some use =>
      simp only [Option.bind_some]
      by_cases h1 : (use != 1) = true
      · simp only [h1, if_true]
        exact ih (qi + 1) (a + 1) st (by omega)
      · simp only [h1]
        simp only [Bool.false_eq_true, if_false]
        cases hn : readLE data (a + 1) 4 with
        | none => rfl
        | some naddr =>
          simp only [Option.bind_some]
          by_cases hm : (Geo.quadBounds gb qi).meets q = true
          · simp only [hm, if_true]
            cases hs : qSearchBytes bx q f data fuel naddr (Geo.quadBounds gb qi) st with
            | none => rfl
            | some r =>
              obtain ⟨s', c⟩ := r
              simp only [Option.bind_some]
              cases c with
              | false => rfl
              | true =>
                simp only [if_true]
                exact ih (qi + 1) (a + 1 + 4) s' (by omega)
          · simp only [hm]
            simp only [Bool.false_eq_true, if_false]
            exact ih (qi + 1) (a + 1 + 4) st (by omega)

/-! ## the search -/

theorem post_eq (r : Option (Exit (Int × σ) (σ × Bool)))
    (k1 : Exit (Int × σ) (σ × Bool) → Option (Exit (Int × σ) (σ × Bool)))
    (k2 : Exit (Int × σ) (σ × Bool) → Option (σ × Bool))
    (h1 : ∀ x, k1 (Exit.ret x) = some (Exit.ret x)) (h1' : ∀ p, k1 (Exit.done p) = some (Exit.done p))
    (h2 : ∀ x, k2 (Exit.ret x) = some x) (h2' : ∀ p, k2 (Exit.done p) = some (p.2, true)) :
    (r.bind k1).bind k2 = post r := by
  cases r with
  | none => rfl
  | some e => cases e <;> simp [post, h1, h1', h2, h2']

theorem rir_eq (a b : Rect F) :
    (aOps segAt segRect f64).rectIntersectsRect a b = (toGBox a).meets (toGBox b) := rfl
theorem segRect_eq (s : S) : (aOps segAt segRect f64).segRect s = segRect s := rfl
theorem segAt_eq (sr : SR) (i : Int) : (aOps segAt segRect f64).seriesSegmentAt sr i = segAt sr i := rfl

theorem qCompressSearch_eq (fuel : Nat) (data : Array Nat) (addr : Nat) (series : SR) (bounds rect : Rect F)
    (iter : σ → S → Int → σ × Bool) (st : σ) :
    IGen.qCompressSearch (aOps segAt segRect f64) fuel data (Int.ofNat addr) series bounds rect iter st
      = Geo.qSearchBytes (boxOf segAt segRect series) (toGBox rect)
          (fun s i => iter s (segAt series (Int.ofNat i)) (Int.ofNat i)) data fuel addr (toGBox bounds) st := by
  induction fuel generalizing addr bounds st with
  | zero => rw [qSearchBytes.eq_1]; unfold IGen.qCompressSearch; rfl
  | succ fuel ih =>
    rw [qSearchBytes.eq_2]
    unfold IGen.qCompressSearch
    simp only [Option.bind_eq_bind, Option.pure_def, ofNat_add_one, ofNat_add_ofNat, bytesAt_ofNat]
    cases h0 : data[addr]? with
    | none => rfl
    | some ib =>
      simp only [Option.bind_some]
      rw [readNum_bind]
      cases h1 : Geo.readNum data (addr + 1) ib with
      | none => rfl
      | some nItems =>
        simp only [Option.bind_some]
        rw [itemLoop_eq data ib (boxOf segAt segRect series) (toGBox rect)
          (fun s i => iter s (segAt series (Int.ofNat i)) (Int.ofNat i))]
        · rw [intRange_zero_length]
          cases hv : visitItemsBytes (boxOf segAt segRect series) (toGBox rect)
              (fun s i => iter s (segAt series (Int.ofNat i)) (Int.ofNat i)) data ib nItems (addr + 1 + ib) st with
          | none => rfl
          | some r =>
            obtain ⟨s1, c1⟩ := r
            cases c1 with
            | false => rfl
            | true =>
              simp only [Option.bind_some, if_true, Bool.not_true, Bool.false_eq_true, if_false,
                bytesAt_ofNat, ofNat_add_one]
              cases hsp : data[addr + 1 + ib + nItems * ib]? with
              | none => rfl
              | some sp =>
                simp only [Option.bind_some]
                by_cases hs : sp = 1
                · subst hs
                  simp only [beq_self_eq_true, if_true, bne_self_eq_false, Bool.false_eq_true, if_false]
                  refine Eq.trans (post_eq _ _ _ (fun _ => rfl) ?_ (fun _ => rfl) ?_) ?_
                  · rintro ⟨a, s⟩; rfl
                  · rintro ⟨a, s⟩; rfl
                  rw [intRange_0_4]
                  refine quadLoop_eq data fuel _ _ _ (toGBox bounds) _ ?_ 4 0 _ s1 (by omega)
                  intro qi a st' hq
                  simp only [bytesAt_ofNat, ofNat_add_one, ofNat_add_four, le32_bind, ih, rir_eq,
                    quadBounds_eq _ bounds qi hq]
                  cases data[a]? with
                  | none => rfl
                  | some use =>
                    simp only [Option.bind_some]
                    by_cases hu : use = 1
                    · subst hu
                      simp only [beq_self_eq_true, bne_self_eq_false, Bool.not_true, Bool.false_eq_true, if_false]
                      refine congrArg _ (funext fun naddr => ?_)
                      split
                      · refine congrArg _ (funext fun r => ?_)
                        cases r.2 <;> rfl
                      · rfl
                    · have e1 : (use == 1) = false := by simpa using hu
                      have e2 : (use != 1) = true := by simpa using hu
                      simp only [e1, e2, Bool.not_false, if_true]
                · have e1 : (sp == 1) = false := by simpa using hs
                  have e2 : (sp != 1) = true := by simpa using hs
                  simp only [e1, e2, Bool.false_eq_true, if_false, if_true, Option.bind_some]
        · intro i a st'
          simp only [ofNat_add_ofNat]
          rw [readNum_bind]
          refine congrArg _ (funext fun it => ?_)
          simp only [rir_eq, segRect_eq, segAt_eq]
          by_cases hm : (boxOf segAt segRect series it).meets (toGBox rect) = true
          · have hm' := hm
            unfold boxOf at hm'
            simp only [hm, hm', if_true]
            by_cases hc : (iter st' (segAt series (Int.ofNat it)) (Int.ofNat it)).2 = true
            · simp only [hc, Bool.not_true, Bool.false_eq_true, if_false, if_true]
            · have hc' := Bool.eq_false_iff.mpr hc
              simp only [hc', Bool.not_false, Bool.false_eq_true, if_false, if_true]
          · have hm' := hm
            unfold boxOf at hm'
            simp only [hm, hm']
            rfl

end Geo.IGlue

#print axioms Geo.IGlue.qCompressSearch_eq
