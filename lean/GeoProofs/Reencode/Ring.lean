/-
  GeoProofs.Reencode.Ring — re-encodings of a closed ring: start at another vertex, traverse
  the other way round, repeat / omit the closing vertex.  The edge list changes by `ECyc`
  only, the vertex set does not change.
-/
import GeoProofs.Reencode.SimpleIff
import GeoProofs.SeriesLemmas

namespace Geo
namespace RE
open Spec SeriesL

/-- cyclic edges of the open vertex cycle `v` -/
def cycE (v : List Pt) : List Edge :=
  (List.range v.length).map (fun i => (v[i]!, v[(i + 1) % v.length]!))

theorem edges_short (r : List Pt) (h : r.length < 3) : edges r true = [] := by
  unfold edges; simp [h]

theorem edges_closedForm (v : List Pt) (h : 2 ≤ v.length) :
    edges (v ++ [v.head!]) true = cycE v := by
  have hv : v ≠ [] := by intro e; simp [e] at h
  rw [edges_cyc _ (by simp; omega), nptsL_closed v hv]
  unfold cycE
  apply List.map_congr_left
  intro i hi
  have hi := List.mem_range.1 hi
  rw [getElem!_closed v _ i hi, getElem!_closed v _ _ (Nat.mod_lt _ (by omega))]

theorem edges_openForm (v : List Pt) (h : 3 ≤ v.length) (hne : v.getLast? ≠ v.head?) :
    edges v true = cycE v := by
  rw [edges_cyc _ h, nptsL_open v (by omega) hne]; rfl

theorem cycE_rotate (v : List Pt) (k : Nat) : cycE (v.rotate k) = (cycE v).rotate k := by
  unfold cycE
  rw [← map_range_rotate, List.length_rotate]
  apply List.map_congr_left
  intro i hi
  have hi := List.mem_range.1 hi
  have hn : 0 < v.length := by omega
  simp only [SeriesL.getElem!_rotate v k _ hi, SeriesL.getElem!_rotate v k _ (Nat.mod_lt _ hn),
    mod_shift]

/-! ### reversal -/

theorem pairs_reverse (l : List Pt) :
    l.reverse.zip l.reverse.tail = ((l.zip l.tail).map Prod.swap).reverse := by
  apply List.ext_getElem
  · simp
  · intro i h1 h2
    simp only [List.length_zip, List.length_reverse, List.length_tail] at h1
    simp only [List.getElem_zip, List.getElem_reverse, List.getElem_map, List.getElem_tail,
      Prod.swap, List.length_map, List.length_zip, List.length_tail]
    congr 2 <;> omega

theorem edges_reverse_closed (r : List Pt) (h : 3 ≤ r.length) (hc : r[r.length - 1]! = r[0]!) :
    edges r.reverse true = ((edges r true).map Prod.swap).reverse := by
  have h0 : r.reverse[0]! = r[r.length - 1]! := by
    rw [getElem!_pos _ 0 (by simp; omega), getElem!_pos r _ (by omega), List.getElem_reverse]
    simp
  have h1 : r.reverse[r.reverse.length - 1]! = r[0]! := by
    rw [getElem!_pos _ _ (by simp; omega), getElem!_pos r 0 (by omega), List.getElem_reverse]
    simp
  rw [edges_closed _ (by simpa using h), edges_closed r h, if_pos hc,
    if_pos (by rw [h0, h1, hc]), pairs_reverse]

theorem edges_reverse_open (r : List Pt) (h : 3 ≤ r.length) (hc : ¬ r[r.length - 1]! = r[0]!) :
    edges r.reverse true = (((edges r true).map Prod.swap).reverse).rotate 1 := by
  have h0 : r.reverse[0]! = r[r.length - 1]! := by
    rw [getElem!_pos _ 0 (by simp; omega), getElem!_pos r _ (by omega), List.getElem_reverse]
    simp
  have h1 : r.reverse[r.reverse.length - 1]! = r[0]! := by
    rw [getElem!_pos _ _ (by simp; omega), getElem!_pos r 0 (by omega), List.getElem_reverse]
    simp
  rw [edges_closed _ (by simpa using h), edges_closed r h, if_neg hc,
    if_neg (by rw [h0, h1]; exact fun e => hc e.symm), pairs_reverse, h0, h1]
  simp [List.rotate_cons_succ]

theorem ecyc_reverse (r : List Pt) : ECyc (edges r true) (edges r.reverse true) := by
  by_cases h : 3 ≤ r.length
  · by_cases hc : r[r.length - 1]! = r[0]!
    · rw [edges_reverse_closed r h hc]; exact ECyc.flip _
    · rw [edges_reverse_open r h hc]; exact (ECyc.flip _).trans (ECyc.rot _ 1)
  · rw [edges_short r (by omega), edges_short r.reverse (by simp; omega)]; exact ECyc.refl _

theorem ecyc_rot (v : List Pt) (k : Nat) :
    ECyc (edges (v ++ [v.head!]) true) (edges (v.rotate k ++ [(v.rotate k).head!]) true) := by
  by_cases h : 2 ≤ v.length
  · rw [edges_closedForm v h, edges_closedForm _ (by simpa using h), cycE_rotate]
    exact ECyc.rot _ k
  · rw [edges_short _ (by simp; omega), edges_short _ (by simp; omega)]; exact ECyc.refl _

/-! ### the relation on vertex lists of closed rings -/

/-- `v` is an open vertex cycle, `v ++ [v.head!]` its closed encoding -/
inductive RingEq : List Pt → List Pt → Prop
  | refl (r) : RingEq r r
  /-- start the closed encoding at vertex `k` -/
  | rot (v) (k : Nat) (hv : v ≠ []) : RingEq (v ++ [v.head!]) (v.rotate k ++ [(v.rotate k).head!])
  /-- traverse the other way round -/
  | rev (r) : RingEq r r.reverse
  /-- repeat the closing vertex of an encoding that omits it -/
  | close (v) (h3 : 3 ≤ v.length) (hne : v.getLast? ≠ v.head?) : RingEq v (v ++ [v.head!])
  | symm {r r'} : RingEq r r' → RingEq r' r
  | trans {a b c} : RingEq a b → RingEq b c → RingEq a c

theorem head!_mem (v : List Pt) (hv : v ≠ []) : v.head! ∈ v := by
  cases v with
  | nil => exact absurd rfl hv
  | cons a t => simp

theorem RingEq.ecyc {r r' : List Pt} (h : RingEq r r') : ECyc (edges r true) (edges r' true) := by
  induction h with
  | refl r => exact ECyc.refl _
  | rot v k hv => exact ecyc_rot v k
  | rev r => exact ecyc_reverse r
  | close v h3 hne =>
    rw [edges_openForm v h3 hne, edges_closedForm v (by omega)]; exact ECyc.refl _
  | symm _ ih => exact ih.symm
  | trans _ _ ih1 ih2 => exact ih1.trans ih2

theorem RingEq.mem_iff {r r' : List Pt} (h : RingEq r r') (p : Pt) : p ∈ r' ↔ p ∈ r := by
  induction h with
  | refl r => rfl
  | rot v k hv =>
    have hv' : v.rotate k ≠ [] := by simpa using hv
    have a := head!_mem v hv
    have b := head!_mem _ hv'
    rw [List.mem_rotate] at b
    simp only [List.mem_append, List.mem_singleton, List.mem_rotate]
    constructor
    · rintro (h | rfl)
      · exact Or.inl h
      · exact Or.inl b
    · rintro (h | rfl)
      · exact Or.inl h
      · exact Or.inl a
  | rev r => simp
  | close v h3 hne =>
    have a := head!_mem v (by intro e; simp [e] at h3)
    simp only [List.mem_append, List.mem_singleton]
    constructor
    · rintro (h | rfl)
      · exact h
      · exact a
    · exact Or.inl
  | symm _ ih => exact ih.symm
  | trans _ _ ih1 ih2 => exact ih2.trans ih1

theorem RingEq.all_eq {r r' : List Pt} (h : RingEq r r') (f : Pt → Bool) : r'.all f = r.all f := by
  rw [Bool.eq_iff_iff]
  simp only [List.all_eq_true]
  exact ⟨fun g p hp => g p ((h.mem_iff p).2 hp), fun g p hp => g p ((h.mem_iff p).1 hp)⟩

theorem RingEq.any_eq {r r' : List Pt} (h : RingEq r r') (f : Pt → Bool) : r'.any f = r.any f := by
  rw [Bool.eq_iff_iff]
  simp only [List.any_eq_true]
  exact ⟨fun ⟨p, hp, g⟩ => ⟨p, (h.mem_iff p).1 hp, g⟩, fun ⟨p, hp, g⟩ => ⟨p, (h.mem_iff p).2 hp, g⟩⟩

theorem RingEq.simple_eq {r r' : List Pt} (h : RingEq r r') : simpleRing r' = simpleRing r := by
  rw [simpleRing_eq, simpleRing_eq]; exact h.ecyc.simple_eq

/-! ### line strings -/

theorem ecyc_line_reverse (l : List Pt) : ECyc (edges l false) (edges l.reverse false) := by
  unfold edges
  simp only [Bool.false_eq_true, if_false]
  rw [pairs_reverse]; exact ECyc.flip _

theorem validLine_reverse (l : List Pt) : validLine l.reverse = validLine l := by
  unfold validLine
  rw [(ecyc_line_reverse l).all_eq _ (fun e => by
    simp only [Prod.fst_swap, Prod.snd_swap]; rw [decide_eq_decide]; exact ne_comm)]
  simp

end RE
end Geo
