/-
  GeoProofs.Float.KNumQ — `Geo.FQ` (NaN, ±Inf, finite rational) as an exact model of IEEE-754
  binary64 arithmetic: the `KNum` instance the generated kernels (`Geo.KGen.*`) are evaluated at.

  Finite results are `rn` of the exact result, with overflow to ±Inf (`ofRat`); NaN and ±Inf
  follow the IEEE rules.  ONE simplification: there is a single zero, treated as +0 (so
  x / 0 = +Inf for x > 0).  In the kernels every zero divisor is a difference x - y (which is +0
  in round-to-nearest) or is guarded by `eqZero`, and comparisons do not see the sign of zero.
-/
import GeoModel.KNum
import GeoProofs.Float.KernelF

namespace Geo.F
open Geo

/-- the largest finite double -/
def maxF : ℚ := 2 ^ (1024 : ℤ) - 2 ^ (971 : ℤ)

/-- deliver a finite result: round, overflow to ±Inf -/
def ofRat (x : ℚ) : FQ :=
  if maxF < rn x then .pinf else if rn x < -maxF then .ninf else .fin (rn x)

def qneg : FQ → FQ
  | .nan => .nan | .pinf => .ninf | .ninf => .pinf | .fin a => .fin (-a)

def qadd : FQ → FQ → FQ
  | .fin a, .fin b => ofRat (a + b)
  | .nan, _ => .nan | _, .nan => .nan
  | .pinf, .ninf => .nan | .ninf, .pinf => .nan
  | .pinf, _ => .pinf | _, .pinf => .pinf
  | .ninf, _ => .ninf | _, .ninf => .ninf

def qsub : FQ → FQ → FQ
  | .fin a, .fin b => ofRat (a - b)
  | x, y => qadd x (qneg y)

/-- sign of a finite value times +Inf (zero ↦ NaN) -/
def infTimes (a : ℚ) : FQ := if a = 0 then .nan else if 0 < a then .pinf else .ninf

def qmul : FQ → FQ → FQ
  | .fin a, .fin b => ofRat (a * b)
  | .nan, _ => .nan | _, .nan => .nan
  | .fin a, .pinf => infTimes a | .pinf, .fin a => infTimes a
  | .fin a, .ninf => infTimes (-a) | .ninf, .fin a => infTimes (-a)
  | .pinf, .pinf => .pinf | .ninf, .ninf => .pinf
  | .pinf, .ninf => .ninf | .ninf, .pinf => .ninf

def qdiv : FQ → FQ → FQ
  | .fin a, .fin b => if b = 0 then infTimes a else ofRat (a / b)
  | .nan, _ => .nan | _, .nan => .nan
  | .fin _, _ => .fin 0
  | .pinf, .fin b => if 0 ≤ b then .pinf else .ninf
  | .ninf, .fin b => if 0 ≤ b then .ninf else .pinf
  | _, _ => .nan

def qlt : FQ → FQ → Bool
  | .fin a, .fin b => decide (a < b)
  | .nan, _ => false | _, .nan => false
  | .ninf, .ninf => false | .ninf, _ => true
  | _, .ninf => false
  | .pinf, _ => false
  | _, .pinf => true

def qnextUp : FQ → FQ
  | .nan => .nan | .pinf => .pinf | .ninf => .fin (-maxF)
  | .fin x => if maxF ≤ x then .pinf else .fin (nextUp x)

instance instKNumFQ : KNum FQ where
  add := qadd
  sub := qsub
  mul := qmul
  div := qdiv
  neg := qneg
  lt := qlt
  le a b := FQ.fge b a
  eq := FQ.feq
  ofNat n := ofRat n
  nextUp := qnextUp
  posInf := .pinf
  negInf := .ninf

/-! ### the instance on finite values -/

theorem klt_fin (x y : ℚ) : KNum.lt (FQ.fin x) (FQ.fin y) = decide (x < y) := rfl
theorem kle_fin (x y : ℚ) : KNum.le (FQ.fin x) (FQ.fin y) = decide (x ≤ y) := rfl
theorem keq_fin (x y : ℚ) : KNum.eq (FQ.fin x) (FQ.fin y) = decide (x = y) := rfl
theorem kgt_fin (x y : ℚ) : KNum.gt (FQ.fin x) (FQ.fin y) = decide (x > y) := rfl
theorem kge_fin (x y : ℚ) : KNum.ge (FQ.fin x) (FQ.fin y) = decide (x ≥ y) := rfl
theorem keq_def (x y : FQ) : KNum.eq x y = x.feq y := rfl
theorem kge_def (x y : FQ) : KNum.ge x y = x.fge y := rfl

theorem maxF_ge : (2 : ℚ) ^ (1023 : ℤ) ≤ maxF := by
  unfold maxF
  have h1 : (2 : ℚ) ^ (971 : ℤ) ≤ 2 ^ (1023 : ℤ) := two_zpow_le (by norm_num)
  have h2 : (2 : ℚ) ^ (1024 : ℤ) = 2 ^ (1023 : ℤ) + 2 ^ (1023 : ℤ) := by
    rw [show (1024 : ℤ) = 1023 + 1 by norm_num, zpow_add₀ (by norm_num), zpow_one, mul_two]
  rw [h2]
  exact le_sub_iff_add_le.mpr (add_le_add_right h1 _)

theorem one_le_big : (1 : ℚ) ≤ 2 ^ (1023 : ℤ) := by
  simpa using two_zpow_le (a := 0) (b := 1023) (by norm_num)

theorem ofRat_small {x : ℚ} (h : |x| ≤ 2 ^ (1023 : ℤ)) : ofRat x = .fin (rn x) := by
  obtain ⟨h1, h2⟩ := abs_le.mp h
  have := rn_le_zpow (by norm_num) h2
  have h3 := rn_mono h1
  rw [rn_neg, rn_two_zpow (by norm_num)] at h3
  have := maxF_ge
  unfold ofRat
  rw [if_neg (by linarith), if_neg (by linarith)]

theorem ksub_fin {x y : ℚ} (h : |x - y| ≤ 2 ^ (1023 : ℤ)) :
    KNum.sub (FQ.fin x) (FQ.fin y) = .fin (fsub x y) := ofRat_small h

theorem kmul_fin {x y : ℚ} (h : |x * y| ≤ 2 ^ (1023 : ℤ)) :
    KNum.mul (FQ.fin x) (FQ.fin y) = .fin (fmul x y) := ofRat_small h

theorem kdiv_fin {x y : ℚ} (h : y = 0 ∨ |x / y| ≤ 2 ^ (1023 : ℤ)) :
    KNum.div (FQ.fin x) (FQ.fin y) = fdivF x y := by
  show qdiv _ _ = _
  unfold qdiv fdivF infTimes
  by_cases hy : y = 0
  · simp [hy]
  · simp only [hy, if_false]
    rcases h with h | h
    · exact absurd h hy
    · exact ofRat_small h

theorem kofNat_zero : (KNum.ofNat 0 : FQ) = .fin 0 := by
  show ofRat _ = _
  rw [ofRat_small (by norm_num)]; simp

theorem kofNat_one : (KNum.ofNat 1 : FQ) = .fin 1 := by
  show ofRat _ = _
  rw [ofRat_small (by simpa using one_le_big)]
  congr 1
  exact rn_of_grid 1 0 (by norm_num) (by norm_num) (by norm_num)

theorem knextUp_fin {x : ℚ} (h : x < maxF) : KNum.nextUp (FQ.fin x) = .fin (nextUp x) := by
  show qnextUp _ = _
  unfold qnextUp; simp [not_le.mpr h]

/-- sanity: the instance on small cases behaves like IEEE -/
example : KNum.div (FQ.fin 1) (FQ.fin 0) = FQ.pinf := by
  show qdiv _ _ = _; simp [qdiv, infTimes]
example : KNum.div (FQ.fin 0) (FQ.fin 0) = FQ.nan := by
  show qdiv _ _ = _; simp [qdiv, infTimes]
example : KNum.eq (FQ.nan) (FQ.nan) = false := rfl
example : KNum.sub FQ.pinf FQ.pinf = FQ.nan := rfl

end Geo.F
