/-
  GeoProofs.Index.RBytesGood — the byte-level R-tree theorems of RBytes.lean with the codec
  round trip `dec (enc x) = x` required only on a set `G` of "good" coordinates (for IEEE-754
  binary64: the exactly representable ones), and for the bytes AS STORED by `Series`, i.e.
  after `setCompressed` has overwritten header bytes 1..4 with the total length.

  * `rBuild_good`: every coordinate stored in a built tree (node rectangles come from
    `GBox.expand`/`recalcBoxes`, i.e. from min/max selections) is a coordinate of some item
    box — so if all item boxes have `G` coordinates, so has every stored rectangle.
  * `rnSearchBytes_of_REnc_good`, `rSearchBytes_of_agree`: searching ANY array that has the
    size of the compressed tree and agrees with it from the end of the prefix on.
  * `rtree_search_exact_good` / `rtree_search_exact_patched`: C04 (R-tree half) for the
    compressed bytes and for the bytes with the patched header.
-/
import GeoProofs.Index.RBytes

namespace Geo
set_option linter.unusedSectionVars false

section
variable {α : Type} [Carrier α]
variable (G : α → Prop)

/-! ## "all stored coordinates are good" -/

/-- the four coordinates of a box satisfy `G` -/
def GBox.Good (b : GBox α) : Prop := G b.minx ∧ G b.miny ∧ G b.maxx ∧ G b.maxy

mutual
/-- every entry rectangle below the node (inner entries and leaf entries) is good -/
def RGood : RNode α → Prop
  | .leaf es => ∀ e ∈ es, e.1.Good G
  | .inner es => RGoodL es
def RGoodL : List (GBox α × RNode α) → Prop
  | [] => True
  | (cb, cn) :: rest => cb.Good G ∧ RGood cn ∧ RGoodL rest
end

theorem RGoodL_iff (es : List (GBox α × RNode α)) :
    RGoodL G es ↔ ∀ e ∈ es, e.1.Good G ∧ RGood G e.2 := by
  induction es with
  | nil => simp [RGoodL]
  | cons e rest ih => obtain ⟨b, n⟩ := e; simp [RGoodL, ih, and_assoc]

theorem RGood_inner (es : List (GBox α × RNode α)) :
    RGood G (.inner es) ↔ ∀ e ∈ es, e.1.Good G ∧ RGood G e.2 := by
  rw [RGood, RGoodL_iff]

theorem RGood_leaf (es : List (GBox α × Nat)) :
    RGood G (.leaf es) ↔ ∀ e ∈ es, e.1.Good G := by
  rw [RGood]

/-- `expand` only selects among the coordinates of its arguments -/
theorem GBox.Good.expand {r b : GBox α} (hr : r.Good G) (hb : b.Good G) : (r.expand b).Good G := by
  obtain ⟨r1, r2, r3, r4⟩ := hr
  obtain ⟨b1, b2, b3, b4⟩ := hb
  unfold GBox.expand GBox.Good
  simp only
  refine ⟨?_, ?_, ?_, ?_⟩ <;> split <;> assumption

theorem foldl_expand_good (bs : List (GBox α)) (b0 : GBox α) (h0 : b0.Good G)
    (h : ∀ b ∈ bs, b.Good G) : (bs.foldl GBox.expand b0).Good G := by
  induction bs generalizing b0 with
  | nil => exact h0
  | cons b rest ih =>
    rw [List.foldl_cons]
    exact ih _ (h0.expand G (h b (by simp))) (fun x hx => h x (by simp [hx]))

theorem recalcBoxes_good (bs : List (GBox α)) (dflt : GBox α) (hd : dflt.Good G)
    (h : ∀ b ∈ bs, b.Good G) : (recalcBoxes bs dflt).Good G := by
  unfold recalcBoxes
  cases bs with
  | nil => exact hd
  | cons b rest => exact foldl_expand_good G rest b (h b (by simp)) (fun x hx => h x (by simp [hx]))

theorem good_grow {box b : GBox α} (g : Bool) (h1 : box.Good G) (h2 : b.Good G) :
    (if g then box.expand b else box).Good G := by
  cases g
  · exact h1
  · exact h1.expand G h2

theorem splitPair_good (cb' : GBox α) (n : RNode α) (hb : cb'.Good G) (hn : RGood G n) :
    ((splitPair cb' n).1.1.Good G ∧ RGood G (splitPair cb' n).1.2) ∧
    ((splitPair cb' n).2.1.Good G ∧ RGood G (splitPair cb' n).2.2) := by
  cases n with
  | leaf es =>
    rw [RGood_leaf] at hn
    simp only [splitPair, RGood_leaf]
    have hl := splitEntries_mem_left (fun p : GBox α × Nat => p.1) cb' es
    have hr := splitEntries_mem_right (fun p : GBox α × Nat => p.1) cb' es
    refine ⟨⟨recalcBoxes_good G _ _ hb ?_, fun e he => hn e (hl e he)⟩,
      ⟨recalcBoxes_good G _ _ hb ?_, fun e he => hn e (hr e he)⟩⟩
    · intro b hb'
      obtain ⟨x, hx, rfl⟩ := List.mem_map.1 hb'
      exact hn x (hl x hx)
    · intro b hb'
      obtain ⟨x, hx, rfl⟩ := List.mem_map.1 hb'
      exact hn x (hr x hx)
  | inner es =>
    rw [RGood_inner] at hn
    simp only [splitPair, RGood_inner]
    have hl := splitEntries_mem_left (fun p : GBox α × RNode α => p.1) cb' es
    have hr := splitEntries_mem_right (fun p : GBox α × RNode α => p.1) cb' es
    refine ⟨⟨recalcBoxes_good G _ _ hb ?_, fun e he => hn e (hl e he)⟩,
      ⟨recalcBoxes_good G _ _ hb ?_, fun e he => hn e (hr e he)⟩⟩
    · intro b hb'
      obtain ⟨x, hx, rfl⟩ := List.mem_map.1 hb'
      exact (hn x (hl x hx)).1
    · intro b hb'
      obtain ⟨x, hx, rfl⟩ := List.mem_map.1 hb'
      exact (hn x (hr x hx)).1

theorem childRepl_good (item : GBox α × Nat) (cb : GBox α) (cn : RNode α)
    (hb : (if (rInsertNode cb item cn).2 then cb.expand item.1 else cb).Good G)
    (hn : RGood G (rInsertNode cb item cn).1) :
    ∀ e ∈ (childRepl item cb cn).1 ++ (childRepl item cb cn).2, e.1.Good G ∧ RGood G e.2 := by
  intro e he
  unfold childRepl at he
  split at he
  · have := splitPair_good G _ _ hb hn
    simp only [List.cons_append, List.nil_append, List.mem_cons, List.not_mem_nil, or_false] at he
    rcases he with rfl | rfl
    · exact this.1
    · exact this.2
  · simp only [List.append_nil, List.mem_cons, List.not_mem_nil, or_false] at he
    subst he
    exact ⟨hb, hn⟩

/-- inserting an item with a good box below a good node gives a good node (whatever `box`,
    `chooseLeast`, `splitEntries` do). -/
theorem rInsertNode_good (item : GBox α × Nat) (hitem : item.1.Good G) (n : RNode α) :
    ∀ box, RGood G n → RGood G (rInsertNode box item n).1 := by
  induction n using RNode.ind with
  | leaf es =>
    intro box hn
    rw [rInsertNode]
    rw [RGood_leaf] at *
    intro e he
    rcases List.mem_append.1 he with he | he
    · exact hn e he
    · simp only [List.mem_cons, List.not_mem_nil, or_false] at he
      subst he
      exact hitem
  | inner es ih =>
    intro box hn
    rw [rInsertNode_inner]
    by_cases hes : es = []
    · subst hes
      simp only [rInsertChild]
      exact hn
    · have hidx := chooseLeast_lt (es.map (·.1)) item.1 (by simpa using hes)
      rw [List.length_map] at hidx
      obtain ⟨pre, cb, cn, post, hes', heq⟩ := rInsertChild_eq box item es _ hidx
      simp only at heq hidx ⊢
      rw [heq]
      simp only
      rw [RGood_inner] at hn ⊢
      have hmem : (cb, cn) ∈ es := by rw [hes']; simp
      obtain ⟨hcb, hcn⟩ := hn _ hmem
      have hrepl := childRepl_good G item cb cn (good_grow G _ hcb hitem) (ih _ hmem cb hcn)
      intro e he
      simp only [List.mem_append] at he
      rcases he with ((he | he) | he) | he
      · exact hn e (by rw [hes']; simp [he])
      · exact hrepl e (List.mem_append_left _ he)
      · exact hn e (by rw [hes']; simp [he])
      · exact hrepl e (List.mem_append_right _ he)

/-- root rectangle and all entry rectangles are good -/
def RTree.Good (tr : RTree α) : Prop :=
  match tr.root with
  | none => True
  | some (rb, rn) => rb.Good G ∧ RGood G rn

theorem RTree.rootOrNew_good (tr : RTree α) (item : GBox α × Nat) (hitem : item.1.Good G)
    (h : tr.Good G) : (tr.rootOrNew item).1.Good G ∧ RGood G (tr.rootOrNew item).2 := by
  unfold RTree.Good at h
  unfold RTree.rootOrNew
  cases htr : tr.root with
  | none => exact ⟨hitem, by rw [RGood_leaf]; simp⟩
  | some r =>
    rw [htr] at h
    exact h

theorem RTree.insert_good (tr : RTree α) (item : GBox α × Nat) (hitem : item.1.Good G)
    (h : tr.Good G) : (tr.insert item).Good G := by
  obtain ⟨h1, h2⟩ := RTree.rootOrNew_good G tr item hitem h
  rcases hr : tr.rootOrNew item with ⟨rb, rn⟩
  rw [hr] at h1 h2
  simp only at h1 h2
  have g1 := rInsertNode_good G item hitem rn rb h2
  rcases hi : rInsertNode rb item rn with ⟨rn', g⟩
  rw [hi] at g1
  simp only at g1
  rw [RTree.insert_eq tr _ rb rn hr rn' g hi]
  have hb' : (if g then rb.expand item.1 else rb).Good G := good_grow G g h1 hitem
  split
  · unfold RTree.Good
    simp only
    obtain ⟨⟨a1, a2⟩, ⟨b1, b2⟩⟩ := splitPair_good G _ rn' hb' g1
    rw [RGood_inner]
    refine ⟨recalcBoxes_good G _ _ hb' ?_, ?_⟩
    · intro b hb
      simp only [List.mem_cons, List.not_mem_nil, or_false] at hb
      rcases hb with rfl | rfl
      · exact a1
      · exact b1
    · intro e he
      simp only [List.mem_cons, List.not_mem_nil, or_false] at he
      rcases he with rfl | rfl
      · exact ⟨a1, a2⟩
      · exact ⟨b1, b2⟩
  · exact ⟨hb', g1⟩

/-- every rectangle stored in a built tree has good coordinates if the item boxes have -/
theorem rBuild_good (boxOf : Nat → GBox α) (n : Nat) (h : ∀ i, i < n → (boxOf i).Good G) :
    (rBuild boxOf n).Good G := by
  induction n with
  | zero => simp [rBuild, RTree.Good, RTree.empty]
  | succ n ih =>
    rw [rBuild_succ]
    exact RTree.insert_good G _ _ (h n (by omega)) (ih (fun i hi => h i (by omega)))

/-! ## byte-level search with the round trip on good coordinates only -/

variable (enc : α → List Nat) (dec : List Nat → α)

/-- `rnSearchBytes_of_REnc` with `dec ∘ enc = id` only on `G`. -/
theorem rnSearchBytes_of_REnc_good (henc : ∀ x, G x → dec (enc x) = x)
    (hlen : ∀ x, (enc x).length = 8)
    (boxOf : Nat → GBox α) (q : GBox α) {σ : Type} (f : σ → Nat → σ × Bool) (data : Array Nat)
    (n : RNode α) :
    ∀ (nb : GBox α) (h : Nat) (addr : Nat) (s : σ), REnc enc data addr nb n → n.HasHeight h →
      (∀ i ∈ n.allItems, i < 2 ^ 32) → nb.Good G → RGood G n →
      rnSearchBytes dec boxOf q f data h addr s = some (rSearchTree boxOf q f nb n s) := by
  induction n using RNode.ind with
  | leaf es =>
    intro nb h addr s he hh hit hgb _
    obtain ⟨e1, e2, e3, e4⟩ := hgb
    have d1 := henc _ e1
    have d2 := henc _ e2
    have d3 := henc _ e3
    have d4 := henc _ e4
    rw [HasHeight_leaf] at hh
    subst hh
    rw [REnc] at he
    simp only [hasBytes_append, boxBytes_length enc hlen, List.length_append, List.length_cons,
      List.length_nil, hasBytes_cons, hasBytes_nil, and_true] at he
    obtain ⟨⟨hb, hcnt, hw⟩, hitems⟩ := he
    obtain ⟨r1, r2, r3, r4⟩ := readBox_of_hasBytes enc hlen hb
    rw [rnSearchBytes, rSearchTree]
    simp only [r1, r2, r3, r4, d1, d2, d3, d4, Option.bind_eq_bind, Option.bind_some]
    cases hq : q.meets nb
    · simp
    · simp only [Bool.not_true, Bool.false_eq_true, ↓reduceIte, hcnt, hw, Option.bind_some]
      have := visitItemsBytes_of_hasBytes boxOf q f (leafWidth_cases es) (es.map (·.2))
        (addr + 32 + 1 + 1) s ?_ hitems
      · rw [List.length_map] at this
        exact this
      · intro it hmem
        obtain ⟨e, he, rfl⟩ := List.mem_map.1 hmem
        exact lt_pow_of_numBytes_le (leafWidth_cases es) (numBytes_le_leafWidth es e he)
          (hit e.2 (by rw [RNode.allItems]; exact List.mem_map.2 ⟨e, he, rfl⟩))
  | inner es ih =>
    intro nb h addr s he hh hit hgb hgn
    obtain ⟨e1, e2, e3, e4⟩ := hgb
    have d1 := henc _ e1
    have d2 := henc _ e2
    have d3 := henc _ e3
    have d4 := henc _ e4
    rw [RGood_inner] at hgn
    rw [HasHeight_inner] at hh
    obtain ⟨hh0, hhc⟩ := hh
    obtain ⟨h', rfl⟩ : ∃ h', h = h' + 1 := ⟨h - 1, by omega⟩
    rw [REnc] at he
    simp only [hasBytes_append, boxBytes_length enc hlen, hasBytes_cons, hasBytes_nil,
      and_true] at he
    obtain ⟨⟨hb, hcnt⟩, hL⟩ := he
    obtain ⟨r1, r2, r3, r4⟩ := readBox_of_hasBytes enc hlen hb
    rw [rnSearchBytes, rSearchTree]
    simp only [r1, r2, r3, r4, d1, d2, d3, d4, Option.bind_eq_bind, Option.bind_some]
    cases hq : q.meets nb
    · simp
    · simp only [Bool.not_true, Bool.false_eq_true, ↓reduceIte, hcnt, Option.bind_some]
      refine rnSearchBytes_go_of_REncL enc dec boxOf q f data h' es ?_ _ s hL
      intro e he addr' s' henc'
      refine ih e he e.1 h' addr' s' henc' (hhc e he) ?_ (hgn e he).1 (hgn e he).2
      intro i hi
      exact hit i (by rw [RNode.allItems, mem_allItemsL]; exact ⟨e, he, hi⟩)

/-- Searching ANY array `data` that has the size of the compressed tree and agrees with it from
    the end of the prefix on (the prefix — the header — is never read) = searching the tree;
    in particular no out-of-range read.  The empty tree (`compress` = the prefix) is covered:
    `rSearchBytes` recognises it by `addr == len(data)`, and `data.size = pre.size`. -/
theorem rSearchBytes_of_agree (henc : ∀ x, G x → dec (enc x) = x) (hlen : ∀ x, (enc x).length = 8)
    (boxOf : Nat → GBox α) (q : GBox α) {σ : Type} (f : σ → Nat → σ × Bool)
    (tr : RTree α) (pre data : Array Nat) (s : σ)
    (hinv : tr.Inv boxOf) (hgood : tr.Good G) (hit : ∀ i ∈ tr.items, i < 2 ^ 32)
    (hsz : (tr.compress enc pre).size < 2 ^ 32)
    (hsize : data.size = (tr.compress enc pre).size)
    (hag : ∀ i, pre.size ≤ i → i < (tr.compress enc pre).size →
      data[i]? = (tr.compress enc pre)[i]?) :
    rSearchBytes dec boxOf q f data pre.size s = some (tr.search boxOf q f s) := by
  unfold RTree.compress at hsz hsize hag
  unfold RTree.search
  unfold RTree.Inv at hinv
  unfold RTree.Good at hgood
  unfold RTree.items at hit
  cases htr : tr.root with
  | none =>
    rw [htr] at hsize
    simp only at hsize
    simp [rSearchBytes, hsize]
  | some r =>
    obtain ⟨rb, rn⟩ := r
    rw [htr] at hinv hit hsz hgood hsize hag
    simp only at hinv hit hsz hgood hsize hag ⊢
    obtain ⟨c1, c2, c3⟩ := rCompressNode_spec enc rn rb (pre.push tr.height)
    generalize hR : rCompressNode enc rb rn (pre.push tr.height) = R at c1 c2 c3 hsz hsize hag
    simp only [Array.size_push] at c1 c2 c3
    have hne : (pre.size == data.size) = false := by
      rw [hsize, beq_eq_false_iff_ne]; omega
    have hhd : data[pre.size]? = some tr.height := by
      rw [hag pre.size (Nat.le_refl _) (by omega), c2 pre.size (by omega)]
      simp
    have henc' : REnc enc data (pre.size + 1) rb rn :=
      REnc.congr_ge enc rn rb _ R _ (c3 hsz) (fun i h1 h2 => hag i (by omega) h2)
    rw [rSearchBytes, hne]
    simp only [Bool.false_eq_true, ↓reduceIte, hhd, Option.bind_eq_bind, Option.bind_some]
    exact rnSearchBytes_of_REnc_good G enc dec henc hlen boxOf q f _ rn rb tr.height _ s henc'
      hinv.2 hit hgood.1 hgood.2

/-- the compressed form of a BUILT tree, read from any array that agrees with it behind the
    5-byte header -/
theorem rSearchBytes_rBuild_agree (henc : ∀ x, G x → dec (enc x) = x)
    (hlen : ∀ x, (enc x).length = 8)
    [LawfulCarrier α] (boxOf : Nat → GBox α) (q : GBox α) {σ : Type} (f : σ → Nat → σ × Bool)
    (nsegs : Nat) (hn : nsegs < 2 ^ 32) (hg : ∀ i, i < nsegs → (boxOf i).Good G) (s : σ)
    (hsz : ((rBuild boxOf nsegs).compress enc #[1, 0, 0, 0, 0]).size < 2 ^ 32)
    (data : Array Nat)
    (hsize : data.size = ((rBuild boxOf nsegs).compress enc #[1, 0, 0, 0, 0]).size)
    (hag : ∀ i, 5 ≤ i → i < ((rBuild boxOf nsegs).compress enc #[1, 0, 0, 0, 0]).size →
      data[i]? = ((rBuild boxOf nsegs).compress enc #[1, 0, 0, 0, 0])[i]?) :
    rSearchBytes dec boxOf q f data 5 s = some ((rBuild boxOf nsegs).search boxOf q f s) :=
  rSearchBytes_of_agree G enc dec henc hlen boxOf q f (rBuild boxOf nsegs)
    #[1, 0, 0, 0, 0] data s (rBuild_inv boxOf nsegs) (rBuild_good G boxOf nsegs hg)
    (fun i hi => Nat.lt_trans (rBuild_items_lt boxOf nsegs i hi) hn) hsz hsize hag

/-- **C04, R-tree half, round trip on the occurring coordinates only.**  `G` is any set of
    coordinates on which the float codec round-trips; it suffices that the segment boxes have
    `G` coordinates (node rectangles never contain other values: `rBuild_good`).  The statement
    is for every array `data` of the right size that agrees with the compressed tree behind the
    5-byte header; `rtree_search_exact_good` and `rtree_search_exact_patched` are the two
    instances. -/
theorem rtree_search_exact_agree [LawfulCarrier α] [SignExactSub α] (boxOf : Nat → GBox α)
    (q : GBox α) (nsegs : Nat) (hn : nsegs < 2 ^ 32)
    (henc : ∀ x, G x → dec (enc x) = x) (hlen : ∀ x, (enc x).length = 8)
    (hg : ∀ i, i < nsegs → (boxOf i).Good G)
    (hsz : ((rBuild boxOf nsegs).compress enc #[1, 0, 0, 0, 0]).size < 2 ^ 32) :
    ∃ visit : List Nat,
      List.Perm visit ((List.range nsegs).filter (fun i => (boxOf i).meets q)) ∧
      ∀ (data : Array Nat),
        data.size = ((rBuild boxOf nsegs).compress enc #[1, 0, 0, 0, 0]).size →
        (∀ i, 5 ≤ i → i < ((rBuild boxOf nsegs).compress enc #[1, 0, 0, 0, 0]).size →
          data[i]? = ((rBuild boxOf nsegs).compress enc #[1, 0, 0, 0, 0])[i]?) →
        ∀ (σ : Type) (f : σ → Nat → σ × Bool) (s : σ),
          rSearchBytes dec boxOf q f data 5 s = some (foldUntil f s visit) := by
  obtain ⟨visit, hp, hv⟩ := rtree_tree_search_exact boxOf q nsegs (rBuild_NE boxOf nsegs)
  refine ⟨visit, hp, fun data hsize hag σ f s => ?_⟩
  rw [rSearchBytes_rBuild_agree G enc dec henc hlen boxOf q f nsegs hn hg s hsz data hsize hag, hv]

/-- the bytes as produced by `compress` -/
theorem rtree_search_exact_good [LawfulCarrier α] [SignExactSub α] (boxOf : Nat → GBox α)
    (q : GBox α) (nsegs : Nat) (hn : nsegs < 2 ^ 32)
    (henc : ∀ x, G x → dec (enc x) = x) (hlen : ∀ x, (enc x).length = 8)
    (hg : ∀ i, i < nsegs → (boxOf i).Good G)
    (hsz : ((rBuild boxOf nsegs).compress enc #[1, 0, 0, 0, 0]).size < 2 ^ 32) :
    ∃ visit : List Nat,
      List.Perm visit ((List.range nsegs).filter (fun i => (boxOf i).meets q)) ∧
      ∀ (σ : Type) (f : σ → Nat → σ × Bool) (s : σ),
        rSearchBytes dec boxOf q f ((rBuild boxOf nsegs).compress enc #[1, 0, 0, 0, 0]) 5 s =
          some (foldUntil f s visit) := by
  obtain ⟨visit, hp, hv⟩ := rtree_search_exact_agree G enc dec boxOf q nsegs hn henc hlen hg hsz
  exact ⟨visit, hp, fun σ f s => hv _ rfl (fun _ _ _ => rfl) σ f s⟩

/-- the bytes as STORED: `setCompressed` writes the total length into header bytes 1..4
    (`putU32 D 1 D.size`); the search starts behind the header and never reads it.  Holds for
    the empty tree too (`nsegs = 0`: `D` is the bare header, `putU32` keeps the size, and the
    search recognises `addr == len(data)`). -/
theorem rtree_search_exact_patched [LawfulCarrier α] [SignExactSub α] (boxOf : Nat → GBox α)
    (q : GBox α) (nsegs : Nat) (hn : nsegs < 2 ^ 32)
    (henc : ∀ x, G x → dec (enc x) = x) (hlen : ∀ x, (enc x).length = 8)
    (hg : ∀ i, i < nsegs → (boxOf i).Good G)
    (hsz : ((rBuild boxOf nsegs).compress enc #[1, 0, 0, 0, 0]).size < 2 ^ 32) :
    ∃ visit : List Nat,
      List.Perm visit ((List.range nsegs).filter (fun i => (boxOf i).meets q)) ∧
      ∀ (σ : Type) (f : σ → Nat → σ × Bool) (s : σ),
        rSearchBytes dec boxOf q f
          (putU32 ((rBuild boxOf nsegs).compress enc #[1, 0, 0, 0, 0]) 1
            ((rBuild boxOf nsegs).compress enc #[1, 0, 0, 0, 0]).size) 5 s =
          some (foldUntil f s visit) := by
  obtain ⟨visit, hp, hv⟩ := rtree_search_exact_agree G enc dec boxOf q nsegs hn henc hlen hg hsz
  exact ⟨visit, hp, fun σ f s => hv _ (size_putU32 _ _ _)
    (fun i h1 _ => getElem?_putU32_of_outside _ 1 _ i (by omega)) σ f s⟩

/-- with a total round trip (`G := fun _ => True`) the patched statement needs no goodness
    hypothesis: the header patch alone (problem 2). -/
theorem rtree_search_exact_patched_total [LawfulCarrier α] [SignExactSub α] (boxOf : Nat → GBox α)
    (q : GBox α) (nsegs : Nat) (hn : nsegs < 2 ^ 32)
    (henc : ∀ x, dec (enc x) = x) (hlen : ∀ x, (enc x).length = 8)
    (hsz : ((rBuild boxOf nsegs).compress enc #[1, 0, 0, 0, 0]).size < 2 ^ 32) :
    ∃ visit : List Nat,
      List.Perm visit ((List.range nsegs).filter (fun i => (boxOf i).meets q)) ∧
      ∀ (σ : Type) (f : σ → Nat → σ × Bool) (s : σ),
        rSearchBytes dec boxOf q f
          (putU32 ((rBuild boxOf nsegs).compress enc #[1, 0, 0, 0, 0]) 1
            ((rBuild boxOf nsegs).compress enc #[1, 0, 0, 0, 0]).size) 5 s =
          some (foldUntil f s visit) :=
  rtree_search_exact_patched (fun _ => True) enc dec boxOf q nsegs hn (fun x _ => henc x) hlen
    (fun _ _ => ⟨trivial, trivial, trivial, trivial⟩) hsz

end

#print axioms rBuild_good
#print axioms rnSearchBytes_of_REnc_good
#print axioms rSearchBytes_of_agree
#print axioms rtree_search_exact_agree
#print axioms rtree_search_exact_good
#print axioms rtree_search_exact_patched
#print axioms rtree_search_exact_patched_total

end Geo
