/-
  GeoModel.KernelGenDriver — evaluation of the generated planar kernels (`Geo.KGen.*`, translated
  from geometry/raycast.go and geometry/segment.go on every run) at `α := Float`, for the
  comparison against the Go code on arbitrary binary64 inputs.  Core Lean only.

  Every number is a binary64 bit pattern written as exactly 16 hexadecimal digits (either case),
  e.g. `3ff0000000000000` = 1.0, `8000000000000000` = −0.0, `7ff8000000000001` = a NaN.
  Booleans are answered as the characters `0` / `1`.

    kray ax ay bx by px py
        -> 4 chars: In, On of Segment{a,b}.Raycast(p), then In, On of Segment{b,a}.Raycast(p)
    ksegint ax ay bx by cx cy dx dy
        -> 4 chars: Segment{a,b}.IntersectsSegment(Segment{c,d}), Segment{c,d}.IntersectsSegment(Segment{a,b}),
                    Segment{a,b}.ContainsSegment(Segment{c,d}),   Segment{c,d}.ContainsSegment(Segment{a,b})
    kcoll ax ay bx by px py
        -> 1 char: Segment{a,b}.CollinearPoint(p)

  Anything else (unknown op, wrong number of arguments, malformed number): `none`.
  The loop of Raycast is run with fuel 4 (see `Geo.KGen.iterate`); Go does not terminate when
  p.Y = +Inf and a.Y = +Inf or b.Y = +Inf reach that loop, the generated code answers anyway.
-/
import GeoModel.KNum
import GeoModel.Generated.KernelGen

namespace Geo

def kHexDigit? (c : Char) : Option UInt64 :=
  if '0' ≤ c && c ≤ '9' then some (c.toNat - '0'.toNat).toUInt64
  else if 'a' ≤ c && c ≤ 'f' then some (c.toNat - 'a'.toNat + 10).toUInt64
  else if 'A' ≤ c && c ≤ 'F' then some (c.toNat - 'A'.toNat + 10).toUInt64
  else none

/-- a binary64 given as exactly 16 hexadecimal digits -/
def kFloatOfHex? (s : String) : Option Float :=
  let cs := s.toList
  if cs.length != 16 then none
  else (cs.foldlM (fun (acc : UInt64) c => (kHexDigit? c).map (fun d => acc * 16 + d)) 0).map Float.ofBits

private def kBit (b : Bool) : String := if b then "1" else "0"

def kgenStep (toks : List String) : Option String :=
  match toks with
  | op :: args =>
    match args.mapM kFloatOfHex? with
    | none => none
    | some xs =>
      match op, xs with
      | "kray", [ax, ay, bx, by_, px, py] =>
        let a : KPoint Float := ⟨ax, ay⟩
        let b : KPoint Float := ⟨bx, by_⟩
        let p : KPoint Float := ⟨px, py⟩
        let r1 := KGen.segmentRaycast ⟨a, b⟩ p
        let r2 := KGen.segmentRaycast ⟨b, a⟩ p
        some (kBit r1.inn ++ kBit r1.on ++ kBit r2.inn ++ kBit r2.on)
      | "ksegint", [ax, ay, bx, by_, cx, cy, dx, dy] =>
        let s : KSegment Float := ⟨⟨ax, ay⟩, ⟨bx, by_⟩⟩
        let o : KSegment Float := ⟨⟨cx, cy⟩, ⟨dx, dy⟩⟩
        some (kBit (KGen.segmentIntersectsSegment s o) ++ kBit (KGen.segmentIntersectsSegment o s)
          ++ kBit (KGen.segmentContainsSegment s o) ++ kBit (KGen.segmentContainsSegment o s))
      | "kcoll", [ax, ay, bx, by_, px, py] =>
        some (kBit (KGen.segmentCollinearPoint (⟨⟨ax, ay⟩, ⟨bx, by_⟩⟩ : KSegment Float) ⟨px, py⟩))
      | _, _ => none
  | [] => none

end Geo
